#!/bin/sh
# Offline build of the whole framework from files on disk: translator, full Coq
# build (.vo), extraction + OCaml modelcheck, Go harness against /repo.
set -e
cd "$(dirname "$0")"
unset GOTOOLCHAIN GOSUMDB
export GOFLAGS=-mod=mod GOPROXY=off
mkdir -p out evidence
exec ./check --setup
