package main

// srvseq: one request at a time through the real server framework with a
// scripted implementation. Output, one line per history:
//
//	H <srvmsize> <srvdotu> <auth> <n> { Q <reqhex> S <ans> AC <authcheck> R <replyhex|NONE> E <k> <event>*k } CLOSE E <k> <event>*k
//
// <ans> = OK <MSG> | ERR <hex> <num> ; <authcheck> = - | <hex> <num>
// <event> = FWD <fid> <uid> <MSG> | AUTH <afid> <MSG> | AUTHCHECK <fid> <afid> | DESTROY <fid> | OPENED | CLOSED

import (
	"fmt"
	"io"
	"net"
	"strings"
	"sync"
	"time"

	go9p "github.com/rminnich/go9p"
)

func init() { modes["srvseq"] = modeSrvseq }

type ansT struct {
	ok   bool
	m    *gmsg  // R message when ok
	etxt string // error text
	enum uint32
}

func (a *ansT) String() string {
	if a.ok {
		return "OK " + a.m.String()
	}
	return fmt.Sprintf("ERR %s %d", hx([]byte(a.etxt)), a.enum)
}

type scriptT struct {
	ans       ansT
	authcheck *go9p.Error // nil = accept
}

type scriptOps struct {
	mu     sync.Mutex
	events []string
	cur    scriptT
	closed bool // ConnClosed has been called (sticky)
}

func (o *scriptOps) log(format string, a ...interface{}) {
	o.mu.Lock()
	o.events = append(o.events, fmt.Sprintf(format, a...))
	o.mu.Unlock()
}

func (o *scriptOps) take() []string {
	o.mu.Lock()
	ev := o.events
	o.events = nil
	o.mu.Unlock()
	return ev
}

func uidOf(f *go9p.SrvFid) int {
	if f == nil || f.User == nil {
		return -1
	}
	return f.User.Id()
}

func (o *scriptOps) fwd(req *go9p.SrvReq) {
	o.log("FWD %d %d %s", go9p.VerifFidNum(req.Fid), uint32(uidOf(req.Fid)), fcallStr(req.Tc))
	o.answer(req)
}

func (o *scriptOps) answer(req *go9p.SrvReq) {
	a := o.cur.ans
	if !a.ok {
		req.RespondError(&go9p.Error{Err: a.etxt, Errornum: a.enum})
		return
	}
	m := a.m
	switch m.kind {
	case go9p.Rattach:
		req.RespondRattach(&m.q)
	case go9p.Rauth:
		req.RespondRauth(&m.q)
	case go9p.Rwalk:
		req.RespondRwalk(m.qids)
	case go9p.Ropen:
		req.RespondRopen(&m.q, uint32(m.a))
	case go9p.Rcreate:
		req.RespondRcreate(&m.q, uint32(m.a))
	case go9p.Rread:
		req.RespondRread(m.data)
	case go9p.Rwrite:
		req.RespondRwrite(uint32(m.a))
	case go9p.Rclunk:
		req.RespondRclunk()
	case go9p.Rremove:
		req.RespondRremove()
	case go9p.Rstat:
		req.RespondRstat(&m.dir)
	case go9p.Rwstat:
		req.RespondRwstat()
	case go9p.Rflush:
		req.RespondRflush()
	case go9p.Rversion:
		req.RespondRversion(uint32(m.a), string(m.s1))
	default:
		req.RespondError("bad script")
	}
}

func (o *scriptOps) Attach(r *go9p.SrvReq) { o.fwd(r) }
func (o *scriptOps) Walk(r *go9p.SrvReq)   { o.fwd(r) }
func (o *scriptOps) Open(r *go9p.SrvReq)   { o.fwd(r) }
func (o *scriptOps) Create(r *go9p.SrvReq) { o.fwd(r) }
func (o *scriptOps) Read(r *go9p.SrvReq)   { o.fwd(r) }
func (o *scriptOps) Write(r *go9p.SrvReq)  { o.fwd(r) }
func (o *scriptOps) Clunk(r *go9p.SrvReq)  { o.fwd(r) }
func (o *scriptOps) Remove(r *go9p.SrvReq) { o.fwd(r) }
func (o *scriptOps) Stat(r *go9p.SrvReq)   { o.fwd(r) }
func (o *scriptOps) Wstat(r *go9p.SrvReq)  { o.fwd(r) }
func (o *scriptOps) FidDestroy(f *go9p.SrvFid) {
	o.log("DESTROY %d", go9p.VerifFidNum(f))
}
func (o *scriptOps) ConnOpened(c *go9p.Conn) { o.log("OPENED") }
func (o *scriptOps) ConnClosed(c *go9p.Conn) {
	o.log("CLOSED")
	o.mu.Lock()
	o.closed = true
	o.mu.Unlock()
}

func (o *scriptOps) isClosed() bool {
	o.mu.Lock()
	defer o.mu.Unlock()
	return o.closed
}

// with AuthOps
type scriptAuthOps struct{ scriptOps }

func (o *scriptAuthOps) AuthInit(afid *go9p.SrvFid, aname string) (*go9p.Qid, error) {
	m := gmsg{kind: go9p.Tauth, a: uint64(go9p.VerifFidNum(afid)), s2: []byte(aname)}
	_ = m
	o.log("AUTH %d Tauth", go9p.VerifFidNum(afid))
	a := o.cur.ans
	if !a.ok {
		return nil, &go9p.Error{Err: a.etxt, Errornum: a.enum}
	}
	q := a.m.q
	return &q, nil
}
func (o *scriptAuthOps) AuthDestroy(afid *go9p.SrvFid) {
	o.log("AUTH %d Tclunk", go9p.VerifFidNum(afid))
}
func (o *scriptAuthOps) AuthCheck(fid *go9p.SrvFid, afid *go9p.SrvFid, aname string) error {
	o.log("AUTHCHECK %d %d", go9p.VerifFidNum(fid), go9p.VerifFidNum(afid))
	if o.cur.authcheck != nil {
		return o.cur.authcheck
	}
	return nil
}
func (o *scriptAuthOps) AuthRead(afid *go9p.SrvFid, offset uint64, data []byte) (int, error) {
	o.log("AUTH %d Tread", go9p.VerifFidNum(afid))
	a := o.cur.ans
	if !a.ok {
		return 0, &go9p.Error{Err: a.etxt, Errornum: a.enum}
	}
	n := copy(data, a.m.data)
	return n, nil
}
func (o *scriptAuthOps) AuthWrite(afid *go9p.SrvFid, offset uint64, data []byte) (int, error) {
	o.log("AUTH %d Twrite", go9p.VerifFidNum(afid))
	a := o.cur.ans
	if !a.ok {
		return 0, &go9p.Error{Err: a.etxt, Errornum: a.enum}
	}
	return int(uint32(a.m.a)), nil
}

// ---- one sequential session against the real server ----
// Sessions are planned first (all randomness, single-threaded) and executed later,
// several at a time; output keeps the planning order.
type planStep struct {
	frame []byte
	sc    scriptT
}

type seqSession struct {
	msize      uint32
	dotu, auth bool
	steps      []planStep
	tag        uint16
	n          int
	dead       bool // only meaningful while executing
}

var seqPlans []*seqSession

func newSeqSession(msize uint32, dotu, auth bool) *seqSession {
	return &seqSession{msize: msize, dotu: dotu, auth: auth}
}

var theLogger *go9p.Logger

func sharedLogger() *go9p.Logger {
	if theLogger == nil {
		theLogger = go9p.NewLogger(16)
	}
	return theLogger
}

// readFrame reads one 9P frame with a deadline; nil on timeout/EOF.
func readFrame(c net.Conn, d time.Duration) []byte {
	_ = c.SetReadDeadline(time.Now().Add(d))
	hdr := make([]byte, 4)
	if _, err := io.ReadFull(c, hdr); err != nil {
		return nil
	}
	sz := int(uint32(hdr[0]) | uint32(hdr[1])<<8 | uint32(hdr[2])<<16 | uint32(hdr[3])<<24)
	if sz < 4 || sz > 1<<26 {
		return hdr
	}
	buf := make([]byte, sz)
	copy(buf, hdr)
	if _, err := io.ReadFull(c, buf[4:]); err != nil {
		return nil
	}
	return buf
}

// do plans one request
func (s *seqSession) do(frame []byte, sc scriptT) []byte {
	s.steps = append(s.steps, planStep{frame, sc})
	s.n++
	return nil
}

func (s *seqSession) finish() { seqPlans = append(seqPlans, s) }

// run executes a planned session against a fresh server connection
func (s *seqSession) run() string {
	var sb strings.Builder
	var sops *scriptOps
	var ops interface{}
	if s.auth {
		a := &scriptAuthOps{}
		sops = &a.scriptOps
		ops = a
	} else {
		sops = &scriptOps{}
		ops = sops
	}
	srv := &go9p.Srv{Msize: s.msize, Dotu: s.dotu, Id: "seq"}
	srv.Log = sharedLogger()
	if !srv.Start(ops) {
		panic("Start failed")
	}
	cli, c2 := net.Pipe()
	srv.NewConn(c2)
	fmt.Fprintf(&sb, "H %d %d %d %d", s.msize, b2i(s.dotu), b2i(s.auth), len(s.steps))
	var closeEv []string
	dead := false
	for _, st := range s.steps {
		if dead {
			fmt.Fprintf(&sb, " Q %s S %s AC - R NONE E 0", hx(st.frame), st.sc.ans.String())
			continue
		}
		sops.mu.Lock()
		sops.cur = st.sc
		sops.mu.Unlock()
		frame := st.frame
		go func() { _, _ = cli.Write(frame) }()
		reply := readFrame(cli, 5*time.Second)
		// the reply is written after PostProcess, so all events of this request are logged
		ev := sops.take()
		for i, e := range ev {
			if e == "CLOSED" {
				closeEv = append(closeEv, ev[i:]...)
				ev = ev[:i]
				break
			}
		}
		ac := "-"
		if st.sc.authcheck != nil {
			ac = fmt.Sprintf("%s %d", hx([]byte(st.sc.authcheck.Err)), st.sc.authcheck.Errornum)
		}
		r := "NONE"
		if reply != nil {
			r = hx(reply)
		} else {
			dead = true
		}
		fmt.Fprintf(&sb, " Q %s S %s AC %s R %s E %d", hx(st.frame), st.sc.ans.String(), ac, r, len(ev))
		for _, e := range ev {
			sb.WriteString(" " + e)
		}
	}
	_ = cli.Close()
	// wait for ConnClosed, then for the FidDestroy calls of the close path to settle
	deadline := time.Now().Add(3 * time.Second)
	for time.Now().Before(deadline) && !sops.isClosed() {
		time.Sleep(50 * time.Microsecond)
	}
	stable, last := 0, -1
	for i := 0; i < 400 && stable < 10; i++ {
		time.Sleep(200 * time.Microsecond)
		sops.mu.Lock()
		n := len(sops.events)
		sops.mu.Unlock()
		if n == last {
			stable++
		} else {
			stable, last = 0, n
		}
	}
	ev := append(closeEv, sops.take()...)
	fmt.Fprintf(&sb, " CLOSE E %d", len(ev))
	for _, e := range ev {
		sb.WriteString(" " + e)
	}
	return sb.String()
}

// runSeqPlans executes all planned sessions, 16 at a time, and prints them in order.
func runSeqPlans() {
	out := make([]string, len(seqPlans))
	var wg sync.WaitGroup
	sem := make(chan struct{}, 16)
	for i, p := range seqPlans {
		wg.Add(1)
		sem <- struct{}{}
		go func(i int, p *seqSession) {
			defer wg.Done()
			out[i] = p.run()
			<-sem
		}(i, p)
	}
	wg.Wait()
	for _, l := range out {
		emit("%s", l)
	}
	seqPlans = nil
}

func (s *seqSession) frame(m *gmsg, dotu bool) []byte {
	fc := go9p.NewFcall(1 << 21)
	s.tag++
	if s.tag == 0xffff {
		s.tag = 1
	}
	if m.kind == go9p.Tflush && uint16(m.a) == s.tag {
		// a Tflush naming its own tag is the recorded finding 'flush-cycle' (never answered); it has its
		// own scenarios in srvconc and would stall this one-request-at-a-time session
		m.a ^= 1
	}
	if err := packInto(fc, m, dotu); err != nil {
		panic(err)
	}
	go9p.SetTag(fc, s.tag)
	return append([]byte{}, fc.Pkt...)
}

// ---- script generation ----
func okAns(m *gmsg) scriptT      { return scriptT{ans: ansT{ok: true, m: m}} }
func errAns(t string, n uint32) scriptT { return scriptT{ans: ansT{etxt: t, enum: n}} }

func qidT(ty uint8) go9p.Qid { return go9p.Qid{Type: ty, Version: uint32(rng.Intn(1000)), Path: uint64(rng.Int63())} }

// matching success answer for a request
func successFor(m *gmsg, qtype uint8) scriptT {
	switch m.kind {
	case go9p.Tauth:
		return okAns(&gmsg{kind: go9p.Rauth, q: qidT(uint8(rng.Intn(256)))})
	case go9p.Tattach:
		return okAns(&gmsg{kind: go9p.Rattach, q: qidT(qtype)})
	case go9p.Twalk:
		qs := make([]go9p.Qid, len(m.names))
		for i := range qs {
			qs[i] = qidT(go9p.QTDIR)
		}
		if len(qs) > 0 {
			qs[len(qs)-1] = qidT(qtype)
		}
		return okAns(&gmsg{kind: go9p.Rwalk, qids: qs})
	case go9p.Topen:
		return okAns(&gmsg{kind: go9p.Ropen, q: qidT(qtype), a: uint64(rng.Intn(9000))})
	case go9p.Tcreate:
		return okAns(&gmsg{kind: go9p.Rcreate, q: qidT(qtype), a: uint64(rng.Intn(9000))})
	case go9p.Tread:
		n := rng.Intn(40)
		if uint64(n) > m.c {
			n = int(m.c)
		}
		d := make([]byte, n)
		for i := range d {
			d[i] = byte(rng.Intn(256))
		}
		return okAns(&gmsg{kind: go9p.Rread, data: d})
	case go9p.Twrite:
		return okAns(&gmsg{kind: go9p.Rwrite, a: uint64(len(m.data))})
	case go9p.Tclunk:
		return okAns(&gmsg{kind: go9p.Rclunk})
	case go9p.Tremove:
		return okAns(&gmsg{kind: go9p.Rremove})
	case go9p.Tstat:
		d := genDir(rng.Intn(6), false)
		return okAns(&gmsg{kind: go9p.Rstat, dir: d})
	case go9p.Twstat:
		return okAns(&gmsg{kind: go9p.Rwstat})
	}
	return okAns(&gmsg{kind: go9p.Rflush})
}

var fidUniverse = []uint32{0, 1, 2, 7, go9p.NOFID - 1}

func pickFid() uint32 {
	if rng.Intn(40) == 0 {
		return go9p.NOFID
	}
	return fidUniverse[rng.Intn(len(fidUniverse))]
}

func randNames(n int) [][]byte {
	out := make([][]byte, n)
	for i := range out {
		out[i] = []byte(fmt.Sprintf("n%d", rng.Intn(10)))
	}
	return out
}

// random request over the small fid universe
func randRequest(dotu bool, msize uint32) *gmsg {
	switch rng.Intn(14) {
	case 0:
		u := uint64(rng.Intn(3))
		if rng.Intn(6) == 0 {
			u = uint64(go9p.NOUID)
		}
		af := uint64(go9p.NOFID)
		if rng.Intn(3) == 0 {
			af = uint64(pickFid())
		}
		return &gmsg{kind: go9p.Tattach, a: uint64(pickFid()), b: af, s1: []byte("u"), s2: []byte("a"), c: u}
	case 1:
		return &gmsg{kind: go9p.Tauth, a: uint64(pickFid()), s1: []byte("u"), s2: []byte("a"), b: uint64(rng.Intn(3))}
	case 2, 3, 4:
		f := pickFid()
		nf := pickFid()
		if rng.Intn(4) == 0 {
			nf = f
		}
		return &gmsg{kind: go9p.Twalk, a: uint64(f), b: uint64(nf), names: randNames(rng.Intn(4))}
	case 5:
		return &gmsg{kind: go9p.Topen, a: uint64(pickFid()), b: uint64([]int{0, 1, 2, 3, 16, 17, 64, 0}[rng.Intn(8)])}
	case 6:
		perm := uint64(rng.Intn(512))
		switch rng.Intn(5) {
		case 0:
			perm |= go9p.DMDIR
		case 1:
			perm |= go9p.DMSYMLINK
		}
		return &gmsg{kind: go9p.Tcreate, a: uint64(pickFid()), s1: []byte("c"), b: perm, c: uint64(rng.Intn(4)), s2: []byte("x")}
	case 7:
		cnt := uint64(rng.Intn(64))
		switch rng.Intn(6) {
		case 0:
			cnt = uint64(msize - 24)
		case 1:
			cnt = uint64(msize - 23)
		case 2:
			cnt = 0xffffffff - uint64(rng.Intn(24))
		}
		return &gmsg{kind: go9p.Tread, a: uint64(pickFid()), b: uint64(rng.Intn(100)), c: cnt}
	case 8:
		n := rng.Intn(30)
		if rng.Intn(5) == 0 && msize < 9000 {
			n = int(msize) - 24 + rng.Intn(3) - 1
			if n < 0 {
				n = 0
			}
		}
		d := make([]byte, n)
		return &gmsg{kind: go9p.Twrite, a: uint64(pickFid()), b: uint64(rng.Intn(100)), data: d}
	case 9:
		return &gmsg{kind: go9p.Tclunk, a: uint64(pickFid())}
	case 10:
		return &gmsg{kind: go9p.Tremove, a: uint64(pickFid())}
	case 11:
		return &gmsg{kind: go9p.Tstat, a: uint64(pickFid())}
	case 12:
		return &gmsg{kind: go9p.Twstat, a: uint64(pickFid()), dir: genDir(rng.Intn(6), false)}
	default:
		if rng.Intn(3) == 0 {
			return &gmsg{kind: go9p.Tflush, a: uint64(rng.Intn(65536))}
		}
		return &gmsg{kind: go9p.Tstat, a: uint64(pickFid())}
	}
}

func randScript(m *gmsg) scriptT {
	var sc scriptT
	qt := uint8(0)
	switch rng.Intn(4) {
	case 0, 1:
		qt = go9p.QTDIR
	case 2:
		qt = 0
	default:
		qt = uint8(rng.Intn(256)) &^ go9p.QTAUTH
	}
	switch rng.Intn(5) {
	case 0:
		sc = errAns(fmt.Sprintf("scripted error %d", rng.Intn(100)), uint32(rng.Intn(200)))
	default:
		sc = successFor(m, qt)
		if m.kind == go9p.Twalk && len(m.names) > 0 && rng.Intn(3) == 0 {
			// partial walk
			sc.ans.m.qids = sc.ans.m.qids[:rng.Intn(len(m.names))]
			if len(sc.ans.m.qids) == 0 && rng.Intn(2) == 0 {
				sc = errAns("file not found", go9p.ENOENT)
			}
		}
	}
	if rng.Intn(8) == 0 {
		sc.authcheck = &go9p.Error{Err: "auth refused", Errornum: go9p.EPERM}
	}
	return sc
}

func (s *seqSession) probes(dotu bool) {
	for _, f := range fidUniverse {
		m := &gmsg{kind: go9p.Tstat, a: uint64(f)}
		s.do(s.frame(m, dotu), successFor(m, 0))
	}
}

// negotiated dialect after an optional Tversion
func (s *seqSession) version(msize uint32, ver string, srvDotu bool) bool {
	m := &gmsg{kind: go9p.Tversion, a: uint64(msize), s1: []byte(ver)}
	fc := go9p.NewFcall(1 << 16)
	_ = packInto(fc, m, false)
	go9p.SetTag(fc, go9p.NOTAG)
	s.do(append([]byte{}, fc.Pkt...), scriptT{})
	return ver == "9P2000.u" && srvDotu
}

func modeSrvseq(tier string, args []string) {
	sub := "all"
	if len(args) > 0 {
		sub = args[0]
	}
	if sub == "all" || sub == "random" {
		nh := 250
		if tier == "thorough" {
			nh = 20000
		}
		for h := 0; h < nh; h++ {
			srvDotu := rng.Intn(2) == 0
			auth := rng.Intn(3) == 0
			msize := []uint32{8192, 256, 100, 4096, 65560}[rng.Intn(5)]
			s := newSeqSession(msize, srvDotu, auth)
			dotu := srvDotu
			if rng.Intn(3) != 0 {
				ver := "9P2000.u"
				if rng.Intn(3) == 0 {
					ver = "9P2000"
				}
				cm := []uint32{8192, 128, 64, 24, 1 << 20}[rng.Intn(5)]
				dotu = s.version(cm, ver, srvDotu)
				if cm < msize {
					msize = cm
				}
			}
			n := 20 + rng.Intn(60)
			if tier == "thorough" && h%20 == 0 {
				n = 600 + rng.Intn(1400)
			}
			for i := 0; i < n; i++ {
				m := randRequest(dotu, msize)
				s.do(s.frame(m, dotu), randScript(m))
				if rng.Intn(25) == 0 {
					s.probes(dotu)
				}
			}
			s.probes(dotu)
			s.finish()
			stat("srvseq.random_histories", 1)
			stat("srvseq.random_requests", s.n)
		}
	}
	runSeqPlans()
	if sub == "all" || sub == "product" {
		productC05(tier)
		runSeqPlans()
	}
	if sub == "all" || sub == "version" {
		versionGrid(tier)
		runSeqPlans()
	}
}

// ---- exhaustive (fid state x request) product for C05 ----
type fidState struct {
	name   string
	exists bool
	dir    bool
	auth   bool
	opened bool
	omode  uint8
}

func (s *seqSession) setup(st fidState, dotu bool) {
	// fid 0 = root directory, always attached; fid 1 = the fid under test
	att := &gmsg{kind: go9p.Tattach, a: 0, b: uint64(go9p.NOFID), s1: []byte("u"), s2: []byte(""), c: 7}
	s.do(s.frame(att, dotu), successFor(att, go9p.QTDIR))
	if !st.exists {
		return
	}
	if st.auth {
		au := &gmsg{kind: go9p.Tauth, a: 1, s1: []byte("u"), s2: []byte(""), b: 7}
		s.do(s.frame(au, dotu), successFor(au, 0))
		return
	}
	w := &gmsg{kind: go9p.Twalk, a: 0, b: 1, names: [][]byte{[]byte("x")}}
	qt := uint8(0)
	if st.dir {
		qt = go9p.QTDIR
	}
	s.do(s.frame(w, dotu), successFor(w, qt))
	if st.opened {
		o := &gmsg{kind: go9p.Topen, a: 1, b: uint64(st.omode)}
		s.do(s.frame(o, dotu), successFor(o, qt))
	}
}

func productC05(tier string) {
	states := []fidState{
		{name: "absent"},
		{name: "dir", exists: true, dir: true},
		{name: "dir-open", exists: true, dir: true, opened: true, omode: go9p.OREAD},
		{name: "file", exists: true},
		{name: "auth", exists: true, auth: true},
	}
	for _, om := range []uint8{go9p.OREAD, go9p.OWRITE, go9p.ORDWR, go9p.OEXEC, go9p.OWRITE | go9p.OTRUNC, go9p.ORDWR | go9p.ORCLOSE, go9p.OREAD | go9p.OTRUNC, go9p.OEXEC | go9p.ORCLOSE} {
		states = append(states, fidState{name: fmt.Sprintf("file-open-%d", om), exists: true, opened: true, omode: om})
	}
	msize := uint32(4096)
	var openModes []int
	if tier == "thorough" {
		for i := 0; i < 256; i++ {
			openModes = append(openModes, i)
		}
	} else {
		openModes = []int{0, 1, 2, 3, 4, 16, 17, 18, 19, 32, 64, 65, 128, 255, rng.Intn(256)}
	}
	counts := []uint64{0, 1, uint64(msize) - 25, uint64(msize) - 24, uint64(msize) - 23, uint64(msize), 1 << 31, 0xffffffff - 24, 0xffffffff - 23, 0xffffffff - 16, 0xffffffff - 1, 0xffffffff}
	specials := []uint64{0, go9p.DMDIR, go9p.DMSYMLINK, go9p.DMLINK, go9p.DMDEVICE, go9p.DMNAMEDPIPE, go9p.DMSOCKET, go9p.DMDIR | go9p.DMSYMLINK, go9p.DMSETUID, go9p.DMAPPEND}
	for _, st := range states {
		for dotu := 0; dotu < 2; dotu++ {
			for auth := 0; auth < 2; auth++ {
				if st.auth && auth == 0 {
					continue // an auth fid cannot be created without AuthOps
				}
				var reqs []*gmsg
				for _, nf := range []uint64{1, 2, 0} {
					for _, nn := range []int{0, 1, 3} {
						reqs = append(reqs, &gmsg{kind: go9p.Twalk, a: 1, b: nf, names: randNames(nn)})
					}
				}
				for _, mo := range openModes {
					reqs = append(reqs, &gmsg{kind: go9p.Topen, a: 1, b: uint64(mo)})
				}
				for _, sp := range specials {
					for _, mo := range []uint64{0, 1, 2, 3, 16, 64} {
						reqs = append(reqs, &gmsg{kind: go9p.Tcreate, a: 1, s1: []byte("n"), b: sp | 0644, c: mo, s2: []byte("e")})
					}
				}
				for _, c := range counts {
					reqs = append(reqs, &gmsg{kind: go9p.Tread, a: 1, b: 0, c: c})
				}
				for _, n := range []int{0, 1, int(msize) - 25, int(msize) - 24, int(msize) - 23} {
					reqs = append(reqs, &gmsg{kind: go9p.Twrite, a: 1, b: 0, data: make([]byte, n)})
				}
				for _, k := range []uint8{go9p.Tclunk, go9p.Tremove, go9p.Tstat} {
					reqs = append(reqs, &gmsg{kind: k, a: 1})
				}
				reqs = append(reqs, &gmsg{kind: go9p.Twstat, a: 1, dir: genDir(4, false)})
				for _, af := range []uint64{uint64(go9p.NOFID), 1, 5} {
					for _, u := range []uint64{7, uint64(go9p.NOUID)} {
						reqs = append(reqs, &gmsg{kind: go9p.Tattach, a: 2, b: af, s1: []byte("u"), s2: []byte("a"), c: u})
						reqs = append(reqs, &gmsg{kind: go9p.Tattach, a: 1, b: af, s1: []byte("u"), s2: []byte("a"), c: u})
					}
				}
				reqs = append(reqs, &gmsg{kind: go9p.Tauth, a: 1, s1: []byte("u"), s2: []byte("a"), b: 7})
				reqs = append(reqs, &gmsg{kind: go9p.Tauth, a: 3, s1: []byte("u"), s2: []byte("a"), b: 7})
				// every request type that names a fid, with NOFID and with a number that was never bound
				for _, fd := range []uint64{uint64(go9p.NOFID), uint64(go9p.NOFID) - 1, 77} {
					reqs = append(reqs, &gmsg{kind: go9p.Twalk, a: fd, b: 9, names: randNames(1)},
						&gmsg{kind: go9p.Twalk, a: fd, b: fd},
						&gmsg{kind: go9p.Topen, a: fd, b: 0},
						&gmsg{kind: go9p.Tcreate, a: fd, s1: []byte("n"), b: 0644, c: 0, s2: []byte("")},
						&gmsg{kind: go9p.Tread, a: fd, b: 0, c: 1},
						&gmsg{kind: go9p.Twrite, a: fd, b: 0, data: []byte{1}},
						&gmsg{kind: go9p.Tclunk, a: fd}, &gmsg{kind: go9p.Tremove, a: fd}, &gmsg{kind: go9p.Tstat, a: fd},
						&gmsg{kind: go9p.Twstat, a: fd, dir: genDir(4, false)},
						&gmsg{kind: go9p.Tattach, a: fd, b: uint64(go9p.NOFID), s1: []byte("u"), s2: []byte("a"), c: 7},
						&gmsg{kind: go9p.Tauth, a: fd, s1: []byte("u"), s2: []byte("a"), b: 7})
				}
				for _, m := range reqs {
					for variant := 0; variant < 2; variant++ {
						s := newSeqSession(msize, dotu == 1, auth == 1)
						s.setup(st, dotu == 1)
						sc := successFor(m, go9p.QTDIR)
						if variant == 1 {
							if m.kind != go9p.Tattach {
								continue
							}
							sc.authcheck = &go9p.Error{Err: "auth refused", Errornum: go9p.EPERM}
						}
						s.do(s.frame(m, dotu == 1), sc)
						// effects visible to the next request
						p := &gmsg{kind: go9p.Twrite, a: 1, b: 0, data: []byte{1}}
						s.do(s.frame(p, dotu == 1), successFor(p, 0))
						s.probes(dotu == 1)
						s.finish()
						stat("srvseq.product_cells", 1)
					}
				}
			}
		}
	}
}

// ---- C12: negotiation grid ----
func versionGrid(tier string) {
	sizes := []uint32{24, 25, 64, 100, 4096, 8191, 8192, 8193, 1<<20 + 24, 0xffffffff}
	if tier == "quick" {
		sizes = []uint32{24, 25, 100, 8192, 8193, 1<<20 + 24, 0xffffffff}
	}
	cms := append([]uint32{0, 1, 23}, sizes...)
	vers := []string{"9P2000", "9P2000.u", "9P2000.L", "", "junk", "9P2000.uu", "9p2000.u"}
	for _, sm := range sizes {
		if sm > 1<<21 {
			continue // the server allocates 8*msize receive buffers
		}
		for _, cm := range cms {
			for sd := 0; sd < 2; sd++ {
				for _, ver := range vers {
					s := newSeqSession(sm, sd == 1, false)
					dotu := s.version(cm, ver, sd == 1)
					eff := sm
					if cm >= 24 && cm < sm {
						eff = cm
					}
					if cm < 24 {
						dotu = sd == 1
					}
					// replies of every kind, some larger than a small msize
					att := &gmsg{kind: go9p.Tattach, a: 0, b: uint64(go9p.NOFID), s1: []byte("u"), s2: []byte(""), c: 7}
					s.do(s.frame(att, dotu), successFor(att, go9p.QTDIR))
					w := &gmsg{kind: go9p.Twalk, a: 0, b: 1, names: randNames(16)}
					if eff >= 200 || rng.Intn(2) == 0 {
						if len(s.frame(w, dotu)) <= int(eff) {
							s.do(s.frame(w, dotu), successFor(w, go9p.QTDIR))
						}
					}
					st := &gmsg{kind: go9p.Tstat, a: 0}
					sc := successFor(st, 0)
					sc.ans.m.dir.Name = strings.Repeat("n", 255)
					s.do(s.frame(st, dotu), sc)
					s.do(s.frame(st, dotu), errAns(strings.Repeat("E", 300), 77))
					s.do(s.frame(st, dotu), errAns("short", 5))
					o := &gmsg{kind: go9p.Topen, a: 0, b: 0}
					s.do(s.frame(o, dotu), successFor(o, go9p.QTDIR))
					for _, c := range []uint64{0, 1, uint64(eff) - 24, uint64(eff) - 23} {
						rd := &gmsg{kind: go9p.Tread, a: 0, b: 0, c: c}
						sc := successFor(rd, 0)
						if c <= 1<<16 {
							sc.ans.m.data = make([]byte, c)
						}
						s.do(s.frame(rd, dotu), sc)
					}
					// second Tversion lowering msize mid-session, then replies through recycled buffers
					if eff > 64 && rng.Intn(2) == 0 {
						dotu = s.version(64, ver, sd == 1)
						for i := 0; i < 3; i++ {
							s.do(s.frame(st, dotu), sc)
							s.do(s.frame(st, dotu), errAns(strings.Repeat("F", 100), 3))
						}
					}
					// renegotiations with other dialects on the same connection: down to plain 9P2000 and up again
					if rng.Intn(2) == 0 {
						m2 := eff
						if m2 > 8192 {
							m2 = 8192
						}
						for k2, v2 := range []string{"9P2000", "9P2000.u", ver, "9P2000.u"} {
							// the msize asked for goes down and up again: it may only ever shrink on a connection
							mk := []uint32{m2, 24, m2, 4096}[k2]
							dotu = s.version(mk, v2, sd == 1)
							s.do(s.frame(st, dotu), sc)
							s.do(s.frame(st, dotu), errAns("renegotiated", 9))
						}
						stat("srvseq.renegotiated_cells", 1)
					}
					s.finish()
					stat("srvseq.version_cells", 1)
				}
			}
		}
	}
}
