//go:build !race

package main

const raceEnabled = 0
