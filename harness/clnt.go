package main

// clnt: the real client against a scripted peer.
//
//	CL <ncalls> {<tag> <kind>}*n SEG <nseg> CUT <bytes|-1> END <none|eof|garbage|oversize|undersize|unknowntag|unmount>
//	   DELIVERED <k> ; RES {<class>:<own>}*n ; LATE <class> ; DISTINCT <0|1> ; HANG <0|1> ; REFSAME <0|1|-> ; TAGOK <0|1>
//	   kind: reply kind for that call in reply order position: M (matching) | E (Rerror) | O (other type)
//	   class: ok | rerr | invalid | connerr | hang ; own: 1 if the payload is the one derived from the call's own request
//	SOAK <ncalls> OK <0|1> MAXTAG <n> DISTINCTTAGS <n>
//	TAGIF <n> ORDER <0|1>   (Tag interface: shared tag, completion order)

import (
	"fmt"
	"strings"
	"sync"
	"sync/atomic"
	"time"

	go9p "github.com/rminnich/go9p"
)

func init() { modes["clnt"] = modeClnt }

type clntPeer struct {
	conn *segConn
	clnt *go9p.Clnt
}

// frames the client has written so far
func (p *clntPeer) requests() [][]byte { return p.conn.frames() }

func newClntPeer(msize uint32, dotu bool) *clntPeer {
	c := newSegConn()
	cl := go9p.NewClnt(c, msize, dotu)
	return &clntPeer{c, cl}
}

type callRes struct {
	class string
	own   bool
	tag   uint16
	keep  *go9p.Fcall // the reply, kept by the caller until every call has returned
	want  string
}

func classify(rc *go9p.Fcall, err error, want string) (string, bool) {
	if err == nil {
		return "ok", rc != nil && rc.Type == go9p.Rstat && rc.Dir.Name == want
	}
	if e, ok := err.(*go9p.Error); ok {
		switch {
		case e.Err == "invalid response":
			return "invalid", true
		case strings.HasPrefix(e.Err, "scripted:"):
			return "rerr", e.Err == "scripted:"+want && e.Errornum == 77
		}
	}
	return "connerr", true
}

func replyFor(req []byte, kind byte, dotu bool) []byte {
	fc, _, err := go9p.Unpack(req, dotu)
	if err != nil {
		return nil
	}
	name := fmt.Sprintf("own-%d-%d", fc.Fid, fc.Tag)
	out := go9p.NewFcall(8192)
	switch kind {
	case 'M':
		d := go9p.Dir{Name: name}
		_ = go9p.PackRstat(out, &d, dotu)
	case 'L', 'K':
		// a matching reply of exactly 256 ('L') / 257 ('K') bytes: its size prefix has a low byte of 0 / 1
		want := 256
		if kind == 'K' {
			want = 257
		}
		d := go9p.Dir{Name: name + "-"}
		_ = go9p.PackRstat(out, &d, dotu)
		if pad := want - len(out.Pkt); pad > 0 {
			d.Name = name + "-" + strings.Repeat("p", pad)
			_ = go9p.PackRstat(out, &d, dotu)
		}
	case 'E':
		_ = go9p.PackRerror(out, "scripted:"+name, 77, dotu)
	default:
		_ = go9p.PackRwrite(out, 5)
	}
	go9p.SetTag(out, fc.Tag)
	return append([]byte{}, out.Pkt...)
}

type clntCase struct {
	sendhold   bool // hold the send goroutine right after it received a request, until the failure has struck and the caller returned
	holdfirst  bool // hold only the first caller at rpcnb.linked: the later ones are handed over and written
	hold       bool // hold every caller at rpcnb.linked (between unlock and hand-off) until the failure has struck
	n          int
	kinds      []byte
	order      []int
	points     []int // segmentation of the reply stream
	splitHeads bool  // cut 1, 2 and 3 bytes into every reply
	cut        int   // bytes of the reply stream delivered before the failure (-1: all)
	end        string
}

func runClntCase(cs clntCase, dotu bool) (line string, results []callRes) {
	p := newClntPeer(8192, dotu)
	release := make(chan struct{})
	if cs.sendhold {
		hookTable.Store(p.clnt, func(point string, obj interface{}, a, b uint32) {
			if point == "clntsend.dequeued" {
				<-release
			}
		})
		defer hookTable.Delete(p.clnt)
	}
	if cs.holdfirst {
		var first int32
		hookTable.Store(p.clnt, func(point string, obj interface{}, a, b uint32) {
			if point == "rpcnb.linked" && atomic.CompareAndSwapInt32(&first, 0, 1) {
				<-release
			}
		})
		defer hookTable.Delete(p.clnt)
	}
	if cs.hold {
		hookTable.Store(p.clnt, func(point string, obj interface{}, a, b uint32) {
			if point == "rpcnb.linked" {
				<-release
			}
		})
		defer hookTable.Delete(p.clnt)
	}
	if cs.end == "writefail" {
		p.conn.mu.Lock()
		p.conn.failW = true
		p.conn.mu.Unlock()
	}
	if cs.end == "unmountw" {
		// the peer has stopped reading: every Write blocks until the connection is closed
		p.conn.setHoldWrites(true)
	}
	unmountHung := false
	res := make([]callRes, cs.n)
	var wg sync.WaitGroup
	done := make([]chan struct{}, cs.n)
	for i := 0; i < cs.n; i++ {
		wg.Add(1)
		done[i] = make(chan struct{})
		go func(i int) {
			defer wg.Done()
			defer close(done[i])
			tc := p.clnt.NewFcall()
			_ = go9p.PackTstat(tc, uint32(1000+i))
			rc, err := p.clnt.Rpc(tc)
			c, own := classify(rc, err, "")
			// the expected name needs the tag the peer saw; filled in below
			res[i] = callRes{class: c, own: own}
			if err == nil && rc != nil {
				res[i].own = strings.HasPrefix(rc.Dir.Name, fmt.Sprintf("own-%d-", 1000+i))
				res[i].keep = rc
				res[i].want = string(append([]byte{}, rc.Pkt...))
			} else if e, ok := err.(*go9p.Error); ok && strings.HasPrefix(e.Err, "scripted:") {
				res[i].own = strings.HasPrefix(e.Err, fmt.Sprintf("scripted:own-%d-", 1000+i))
			}
		}(i)
		if cs.holdfirst && i == 0 {
			time.Sleep(300 * time.Microsecond) // caller 0 is linked first, and held
		}
	}
	if cs.holdfirst {
		dl := time.Now().Add(2 * time.Second)
		for len(p.requests()) < cs.n-1 && time.Now().Before(dl) {
			time.Sleep(20 * time.Microsecond)
		}
	}
	// wait until all requests were written (held callers have not written anything)
	deadline := time.Now().Add(3 * time.Second)
	for !cs.hold && !cs.holdfirst && !cs.sendhold && cs.end != "writefail" && cs.end != "unmountw" && len(p.requests()) < cs.n && time.Now().Before(deadline) {
		time.Sleep(20 * time.Microsecond)
	}
	if cs.hold || cs.sendhold {
		time.Sleep(500 * time.Microsecond) // let the callers reach the hold point
	}
	reqs := p.requests()
	tags := map[uint16]bool{}
	distinct := true
	byFid := map[uint32][]byte{}
	for _, r := range reqs {
		fc, _, err := go9p.Unpack(r, dotu)
		if err != nil {
			continue
		}
		if tags[fc.Tag] {
			distinct = false
		}
		tags[fc.Tag] = true
		byFid[fc.Fid] = r
	}
	// the reply stream, in the chosen order
	var stream []byte
	var ends []int
	for k, idx := range cs.order {
		r := byFid[uint32(1000+idx)]
		if r == nil {
			continue
		}
		stream = append(stream, replyFor(r, cs.kinds[k], dotu)...)
		ends = append(ends, len(stream))
	}
	full := len(stream)
	if cs.splitHeads {
		prev := 0
		for _, e := range ends {
			for d := 1; d <= 3; d++ {
				cs.points = append(cs.points, prev+d)
			}
			prev = e
		}
	}
	switch cs.end {
	case "garbage":
		stream = append(stream, 9, 0, 0, 0, go9p.Rwalk, 1, 0, 0xff, 0xff)
	case "oversize", "oversize1", "oversize2", "oversize8":
		// a frame announcing more than msize: just over, twice, exactly the buffer, beyond the buffer; nothing follows
		b := make([]byte, 12)
		put32(b, map[string]uint32{"oversize": 8192 * 9, "oversize1": 8193, "oversize2": 2 * 8192, "oversize8": 8 * 8192}[cs.end])
		b[4] = go9p.Rstat
		stream = append(stream, b...)
	case "undersize":
		stream = append(stream, 5, 0, 0, 0, go9p.Rstat, 1, 0, 9, 9)
	case "unknowntag":
		out := go9p.NewFcall(64)
		_ = go9p.PackRclunk(out)
		go9p.SetTag(out, 0x7777)
		stream = append(stream, out.Pkt...)
	}
	send := stream
	if cs.cut >= 0 && cs.cut < full {
		// the failure strikes after cs.cut bytes of the replies: a cut connection, or the bad frame follows
		send = append(append([]byte{}, stream[:cs.cut]...), stream[full:]...)
	}
	delivered := 0
	for _, e := range ends {
		if e <= len(send) {
			delivered++
		}
	}
	for _, s := range cut(send, cs.points) {
		dl := time.Now().Add(2 * time.Second)
		for {
			p.conn.mu.Lock()
			busy := len(p.conn.segs) > 0 && !p.conn.closed
			p.conn.mu.Unlock()
			if !busy || time.Now().After(dl) {
				break
			}
			time.Sleep(20 * time.Microsecond)
		}
		p.conn.push(append([]byte{}, s...))
	}
	switch cs.end {
	case "eof":
		dl := time.Now().Add(2 * time.Second)
		for {
			p.conn.mu.Lock()
			busy := len(p.conn.segs) > 0 && !p.conn.closed
			p.conn.mu.Unlock()
			if !busy || time.Now().After(dl) {
				break
			}
			time.Sleep(20 * time.Microsecond)
		}
		p.conn.mu.Lock()
		p.conn.eof = true
		p.conn.cond.Broadcast()
		p.conn.mu.Unlock()
	case "unmount":
		time.Sleep(200 * time.Microsecond)
		p.clnt.Unmount()
	case "unmountw":
		// Unmount while a request is stuck in the transport's Write: it must go through (it closes the
		// connection, which is what releases the Write)
		dl := time.Now().Add(2 * time.Second)
		for p.conn.writersBlocked() == 0 && time.Now().Before(dl) {
			time.Sleep(20 * time.Microsecond)
		}
		um := make(chan struct{})
		go func() { p.clnt.Unmount(); close(um) }()
		select {
		case <-um:
		case <-time.After(3 * time.Second):
			unmountHung = true
		}
		if unmountHung {
			p.conn.setHoldWrites(false)
		}
	}
	if cs.hold || cs.holdfirst {
		time.Sleep(time.Millisecond) // the receive goroutine is now in its shutdown path
		close(release)
	}
	hang := unmountHung
	for i := 0; i < cs.n; i++ {
		select {
		case <-done[i]:
		case <-time.After(3 * time.Second):
			hang = true
			res[i] = callRes{class: "hang"}
		}
	}
	if cs.sendhold {
		// every caller has returned and recycled its request: now the send goroutine goes on
		close(release)
		time.Sleep(2 * time.Millisecond)
	}
	// a later call
	late := "-"
	if cs.end != "none" {
		ch := make(chan string, 1)
		go func() {
			tc := p.clnt.NewFcall()
			_ = go9p.PackTstat(tc, 5)
			rc, err := p.clnt.Rpc(tc)
			c, _ := classify(rc, err, "")
			ch <- c
		}()
		select {
		case late = <-ch:
		case <-time.After(3 * time.Second):
			late = "hang"
			hang = true
		}
	}
	// replies kept by their callers must not have been disturbed by bytes that arrived later
	disturbed := false
	for i := range res {
		if res[i].keep != nil && string(res[i].keep.Pkt) != res[i].want {
			disturbed = true
		}
	}
	// every tag is back in the pool or with a cached Req
	pool, cached := go9p.VerifClntTags(p.clnt)
	tagsOK := pool+cached == 65535
	if cs.end == "none" {
		p.clnt.Unmount()
	}
	var sb strings.Builder
	fmt.Fprintf(&sb, "CL %d", cs.n)
	for k, idx := range cs.order {
		fmt.Fprintf(&sb, " %d %c", idx, cs.kinds[k])
	}
	fmt.Fprintf(&sb, " SEG %d CUT %d END %s DELIVERED %d ; RES", len(cs.points)+1, cs.cut, cs.end, delivered)
	for _, r := range res {
		fmt.Fprintf(&sb, " %s:%d", r.class, b2i(r.own))
	}
	fmt.Fprintf(&sb, " ; LATE %s ; DISTINCT %d ; HANG %d ; TAGSBACK %d", late, b2i(distinct && (cs.hold || cs.holdfirst || cs.sendhold || cs.end == "writefail" || cs.end == "unmountw" || len(tags) == cs.n)), b2i(hang), b2i(tagsOK || hang))
	fmt.Fprintf(&sb, " ; DISTURBED %d", b2i(disturbed))
	return sb.String(), res
}

func modeClnt(tier string, args []string) {
	rounds := 3
	if tier == "thorough" {
		rounds = 60
	}
	for r := 0; r < rounds; r++ {
		for n := 1; n <= 5; n++ {
			// every reply order for up to 4 calls, random beyond
			var orders [][]int
			if n <= 4 {
				orders = allPerms(n)
			} else {
				for i := 0; i < 12; i++ {
					orders = append(orders, rng.Perm(n))
				}
			}
			for _, ord := range orders {
				kinds := make([]byte, n)
				for i := range kinds {
					kinds[i] = "MMMEO"[rng.Intn(5)]
				}
				cs := clntCase{n: n, kinds: kinds, order: ord, cut: -1, end: "none"}
				switch rng.Intn(3) {
				case 1:
					for i := 0; i < 1+rng.Intn(6); i++ {
						cs.points = append(cs.points, 1+rng.Intn(60*n))
					}
					sortInts(cs.points)
				case 2:
					for p := 1; p < 70*n; p++ {
						cs.points = append(cs.points, p) // byte at a time
					}
				}
				l, _ := runClntCase(cs, r%2 == 0)
				emit("%s", l)
				stat("clnt.perm_cases", 1)
			}
		}
		// many concurrent callers, random order
		for _, n := range []int{16, 64} {
			kinds := make([]byte, n)
			for i := range kinds {
				kinds[i] = "MMMEO"[rng.Intn(5)]
			}
			cs := clntCase{n: n, kinds: kinds, order: rng.Perm(n), cut: -1, end: "none"}
			l, _ := runClntCase(cs, true)
			emit("%s", l)
			stat("clnt.perm_cases", 1)
		}
		// failures: cut after every byte of a 0..4-call reply stream, and the other failure kinds
		for n := 0; n <= 4; n++ {
			kinds := []byte("MEMMO")[:n]
			ord := rng.Perm(n)
			total := 0
			{
				// length of the reply stream for this shape (names depend on tags: measure once)
				cs := clntCase{n: n, kinds: kinds, order: ord, cut: -1, end: "eof"}
				l, _ := runClntCase(cs, true)
				emit("%s", l)
				total = 75 * n
			}
			step := 1
			if tier == "quick" {
				step = 7
			}
			for c := 0; c <= total; c += step {
				cs := clntCase{n: n, kinds: kinds, order: ord, cut: c, end: "eof"}
				l, _ := runClntCase(cs, true)
				emit("%s", l)
				stat("clnt.cut_cases", 1)
			}
			if n > 0 {
				// only the write direction of the transport fails: nothing was sent, nothing will arrive
				cs := clntCase{n: n, kinds: kinds, order: ord, cut: 0, end: "writefail"}
				l, _ := runClntCase(cs, r%2 == 0)
				emit("%s", l)
				stat("clnt.fail_cases", 1)
			}
			if n > 0 {
				cs := clntCase{n: n, kinds: kinds, order: ord, cut: 0, end: "unmountw"}
				l, _ := runClntCase(cs, r%2 == 0)
				emit("%s", l)
				stat("clnt.fail_cases", 1)
			}
			for _, end := range []string{"garbage", "oversize", "oversize1", "oversize2", "oversize8", "undersize", "unknowntag", "unmount"} {
				cs := clntCase{n: n, kinds: kinds, order: ord, cut: -1, end: end}
				if rng.Intn(2) == 0 && n > 0 {
					cs.cut = 0 // nothing delivered before the failure
					if end == "unmount" {
						cs.cut = -1
					}
				}
				l, _ := runClntCase(cs, r%2 == 0)
				emit("%s", l)
				stat("clnt.fail_cases", 1)
			}
		}
	}
	// interleaved issue / answer: new calls are issued while older ones are still pending
	for r := 0; r < rounds*6; r++ {
		emit("%s", runInterleaved(4+rng.Intn(6), r%2 == 0))
		stat("clnt.interleaved_cases", 1)
	}
	// callers caught between linking their request and handing it to the send goroutine
	for r := 0; r < rounds*4; r++ {
		n := 1 + r%4
		cs := clntCase{hold: true, n: n, kinds: []byte("MMMM")[:n], order: rng.Perm(n), cut: 0, end: []string{"eof", "garbage", "unknowntag", "oversize"}[r%4]}
		l, _ := runClntCase(cs, true)
		emit("%s", l)
		stat("clnt.held_cases", 1)
	}
	// only the first caller is caught there: the later ones are with the writer when the failure strikes
	for r := 0; r < rounds*4; r++ {
		n := 2 + r%3
		cs := clntCase{holdfirst: true, n: n, kinds: []byte("MMMM")[:n], order: rng.Perm(n), cut: 0, end: []string{"eof", "garbage", "unknowntag", "oversize1"}[r%4]}
		l, _ := runClntCase(cs, true)
		emit("%s", l)
		stat("clnt.heldfirst_cases", 1)
	}
	// replies of 256 / 257 bytes (low byte of the size prefix 0 / 1) cut after their first, second and third byte
	for r := 0; r < rounds*2; r++ {
		for _, kinds := range []string{"L", "K", "ML", "LK", "KLM"} {
			n := len(kinds)
			cs := clntCase{n: n, kinds: []byte(kinds), order: rng.Perm(n), cut: -1, end: "none"}
			// segment boundaries 1, 2 and 3 bytes into every reply (lengths: M about 70, L 256, K 257; measured by the peer)
			cs.splitHeads = true
			l, _ := runClntCase(cs, r%2 == 0)
			emit("%s", l)
			stat("clnt.longreply_cases", 1)
		}
	}
	// the pipelined Tag interface: requests sharing one tag complete in the order issued
	for r := 0; r < rounds*3; r++ {
		emit("%s", runTagCase(2+r%4, r%2 == 0, r%3 == 0))
		stat("clnt.sharedtag_cases", 1)
	}
	for r := 0; r < rounds*2; r++ {
		n := 1 + r%4
		emit("%s", runTagFail(n, r%(n+1)%n, r%2 == 0))
		stat("clnt.sharedtag_failure_cases", 1)
	}
	// the send goroutine caught between receiving a request and reading it when the connection fails
	for r := 0; r < rounds*4; r++ {
		n := 1 + r%3
		cs := clntCase{sendhold: true, n: n, kinds: []byte("MMMM")[:n], order: rng.Perm(n), cut: 0, end: []string{"eof", "garbage", "oversize", "unknowntag"}[r%4]}
		l, _ := runClntCase(cs, true)
		emit("%s", l)
		stat("clnt.sendheld_cases", 1)
	}
	// soak: consecutive calls over one connection; tags must be recycled
	ncalls := 3000
	if tier == "thorough" {
		ncalls = 70000
	}
	{
		p := newClntPeer(8192, true)
		stop := make(chan struct{})
		seen := map[uint16]bool{}
		maxtag := 0
		go func() { // echo server
			for {
				select {
				case <-stop:
					return
				default:
				}
				for _, f := range p.conn.takeFrames() {
					fc, _, err := go9p.Unpack(f, true)
					if err == nil {
						seen[fc.Tag] = true
						if int(fc.Tag) > maxtag {
							maxtag = int(fc.Tag)
						}
						p.conn.push(replyFor(f, 'M', true))
					}
				}
				time.Sleep(2 * time.Microsecond)
			}
		}()
		ok := true
		start := time.Now()
		for i := 0; i < ncalls && ok; i++ {
			ch := make(chan bool, 1)
			go func(i int) {
				tc := p.clnt.NewFcall()
				_ = go9p.PackTstat(tc, uint32(1000+i%7))
				rc, err := p.clnt.Rpc(tc)
				ch <- err == nil && strings.HasPrefix(rc.Dir.Name, fmt.Sprintf("own-%d-", 1000+i%7))
			}(i)
			select {
			case v := <-ch:
				ok = ok && v
			case <-time.After(3 * time.Second):
				ok = false
			}
		}
		close(stop)
		p.clnt.Unmount()
		emit("SOAK %d OK %d MAXTAG %d DISTINCTTAGS %d SECS %d", ncalls, b2i(ok), maxtag, len(seen), int(time.Since(start).Seconds()))
		stat("clnt.soak_calls", ncalls)
	}
}

func allPerms(n int) [][]int {
	var out [][]int
	var rec func(cur []int, used []bool)
	rec = func(cur []int, used []bool) {
		if len(cur) == n {
			out = append(out, append([]int{}, cur...))
			return
		}
		for i := 0; i < n; i++ {
			if !used[i] {
				used[i] = true
				rec(append(cur, i), used)
				used[i] = false
			}
		}
	}
	rec(nil, make([]bool, n))
	return out
}

func sortInts(a []int) {
	for i := 1; i < len(a); i++ {
		for j := i; j > 0 && a[j-1] > a[j]; j-- {
			a[j-1], a[j] = a[j], a[j-1]
		}
	}
}

// runInterleaved: a random script of "issue a call" / "answer a pending call (any of them)".
func runInterleaved(n int, dotu bool) string {
	p := newClntPeer(8192, dotu)
	type pend struct {
		idx int
		req []byte
	}
	res := make([]callRes, n)
	done := make([]chan struct{}, n)
	issued, answered := 0, 0
	var pending []pend
	seenFrames := 0
	var script []string
	issue := func() {
		i := issued
		issued++
		done[i] = make(chan struct{})
		go func() {
			defer close(done[i])
			tc := p.clnt.NewFcall()
			_ = go9p.PackTstat(tc, uint32(1000+i))
			rc, err := p.clnt.Rpc(tc)
			c, _ := classify(rc, err, "")
			res[i] = callRes{class: c}
			if err == nil && rc != nil {
				res[i].own = strings.HasPrefix(rc.Dir.Name, fmt.Sprintf("own-%d-", 1000+i))
			}
		}()
		deadline := time.Now().Add(2 * time.Second)
		for len(p.requests()) <= seenFrames && time.Now().Before(deadline) {
			time.Sleep(10 * time.Microsecond)
		}
		fr := p.requests()
		if len(fr) > seenFrames {
			pending = append(pending, pend{i, fr[seenFrames]})
			seenFrames++
		}
		script = append(script, fmt.Sprintf("I%d", i))
	}
	hang := false
	answer := func() {
		k := rng.Intn(len(pending))
		pd := pending[k]
		pending = append(pending[:k], pending[k+1:]...)
		p.conn.push(replyFor(pd.req, 'M', dotu))
		select {
		case <-done[pd.idx]:
		case <-time.After(3 * time.Second):
			hang = true
		}
		answered++
		script = append(script, fmt.Sprintf("A%d", pd.idx))
	}
	for answered < n && !hang {
		if issued < n && (len(pending) == 0 || rng.Intn(2) == 0) {
			issue()
		} else if len(pending) > 0 {
			answer()
		} else {
			break
		}
	}
	pool, cached := go9p.VerifClntTags(p.clnt)
	p.clnt.Unmount()
	var sb strings.Builder
	fmt.Fprintf(&sb, "CI %d %s ; RES", n, strings.Join(script, ","))
	for _, r := range res {
		fmt.Fprintf(&sb, " %s:%d", r.class, b2i(r.own))
	}
	fmt.Fprintf(&sb, " ; HANG %d ; TAGSBACK %d", b2i(hang), b2i(pool+cached == 65535 || hang))
	return sb.String()
}

// the pipelined Tag interface: n reads posted under one shared tag, answered in order
// the pipelined Tag interface when the connection fails: every request handed to the Tag client comes back on
// the consumer's channel with an error (C10: no outstanding call blocks for ever, none succeeds without a reply);
// answered requests answered before the failure come back first, with their replies
func runTagFail(n int, answered int, dotu bool) string {
	p := newClntPeer(8192, dotu)
	ch := make(chan *go9p.Req, 32)
	tag := p.clnt.TagAlloc(ch)
	fid := p.clnt.FidAlloc()
	for i := 0; i < n; i++ {
		if err := tag.Read(fid, uint64(10+40*i), 32); err != nil {
			return fmt.Sprintf("CF %d %d FAILED 0 WRONG 0 HANG 0 NOTE post-failed", n, answered)
		}
	}
	dl := time.Now().Add(2 * time.Second)
	for len(p.requests()) < n && time.Now().Before(dl) {
		time.Sleep(20 * time.Microsecond)
	}
	for i, r := range p.requests() {
		if i >= answered {
			break
		}
		fc, _, err := go9p.Unpack(r, dotu)
		if err != nil || fc.Type != go9p.Tread {
			continue
		}
		out := go9p.NewFcall(8192)
		_ = go9p.PackRread(out, []byte(fmt.Sprintf("data-at-%d", fc.Offset)))
		go9p.SetTag(out, fc.Tag)
		p.conn.push(append([]byte{}, out.Pkt...))
	}
	// let the answered ones be delivered, then the connection breaks
	got := 0
	wrong, hang := false, false
	failed := 0
	for ; got < answered; got++ {
		select {
		case r := <-ch:
			if r == nil || r.Err != nil || r.Rc == nil || string(r.Rc.Data) != fmt.Sprintf("data-at-%d", r.Tc.Offset) {
				wrong = true
			}
		case <-time.After(2 * time.Second):
			hang = true
		}
	}
	p.conn.mu.Lock()
	p.conn.eof = true
	p.conn.cond.Broadcast()
	p.conn.mu.Unlock()
	for ; got < n; got++ {
		select {
		case r := <-ch:
			if r != nil && r.Err != nil {
				failed++
			} else {
				wrong = true
			}
		case <-time.After(2 * time.Second):
			hang = true
		}
	}
	return fmt.Sprintf("CF %d %d FAILED %d WRONG %d HANG %d NOTE -", n, answered, failed, b2i(wrong), b2i(hang))
}

func runTagCase(n int, dotu bool, oneSegment bool) string {
	p := newClntPeer(8192, dotu)
	// the consumer's channel: roomy, or unbuffered with a consumer that is slow to come back (the replies then
	// wait their turn inside the library: the order of completion is the order of issue all the same)
	chcap := 32
	if n%2 == 1 {
		chcap = 0
	}
	ch := make(chan *go9p.Req, chcap)
	tag := p.clnt.TagAlloc(ch)
	fid := p.clnt.FidAlloc()
	offs := make([]uint64, n)
	for i := range offs {
		offs[i] = uint64(10 + 40*i)
		if err := tag.Read(fid, offs[i], 32); err != nil {
			return fmt.Sprintf("CT %d ORDER 0 PAIRED 0 HANG 0 NOTE post-failed", n)
		}
	}
	dl := time.Now().Add(2 * time.Second)
	for len(p.requests()) < n && time.Now().Before(dl) {
		time.Sleep(20 * time.Microsecond)
	}
	var stream []byte
	for _, r := range p.requests() {
		fc, _, err := go9p.Unpack(r, dotu)
		if err != nil || fc.Type != go9p.Tread {
			continue
		}
		out := go9p.NewFcall(8192)
		_ = go9p.PackRread(out, []byte(fmt.Sprintf("data-at-%d", fc.Offset)))
		go9p.SetTag(out, fc.Tag)
		if oneSegment {
			stream = append(stream, out.Pkt...)
		} else {
			p.conn.push(append([]byte{}, out.Pkt...))
		}
	}
	if oneSegment {
		p.conn.push(stream)
	}
	order, paired, hang := true, true, false
	for i := 0; i < n; i++ {
		if chcap == 0 {
			time.Sleep(300 * time.Microsecond)
		}
		select {
		case r := <-ch:
			if r == nil || r.Tc == nil || r.Rc == nil {
				paired = false
				continue
			}
			if r.Tc.Offset != offs[i] {
				order = false
			}
			if string(r.Rc.Data) != fmt.Sprintf("data-at-%d", r.Tc.Offset) {
				paired = false
			}
		case <-time.After(2 * time.Second):
			hang = true
		}
	}
	p.clnt.Unmount()
	return fmt.Sprintf("CT %d ORDER %d PAIRED %d HANG %d NOTE -", n, b2i(order), b2i(paired), b2i(hang))
}
