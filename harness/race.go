package main

// raceload: concurrent workloads of the shape property C19 describes, meant to run in
// the -race build of this harness (GORACE=log_path=... halt_on_error=0). After every
// round the race detector's log is read; a report whose racing access (top frame that
// is not the Go runtime) lies in the library is printed as a failing case.
//
//   PASS round=<n> kind=<ufs|scripted> conns=<k> goroutines=<g> ops=<n> flushes=<n> drops=<n>
//   C19.data_race_in_library round=<n> kind=... at=<frame>|<frame> report=<hex of the report>
//
// Workload rules (the property's hypothesis): the requests concurrently outstanding on a
// connection operate on different fids, except that any number of walks may start from
// one shared fid; connections are dropped only once their own requests were answered.

import (
	"bytes"
	"fmt"
	"net"
	"os"
	"path/filepath"
	"runtime"
	"strings"
	"sync"
	"sync/atomic"
	"time"

	go9p "github.com/rminnich/go9p"
)

func init() { modes["raceload"] = modeRaceload }

// ---------- a scripted in-memory implementation (trivial file server) ----------
type rcFile struct {
	mu   sync.Mutex
	data []byte
	qid  go9p.Qid
	dir  bool
}

type rcAux struct {
	f *rcFile
}

type raceOps struct {
	go9p.Srv
	mu      sync.Mutex
	files   map[string]*rcFile
	nextq   uint64
	opened  int32
	closed  int32
	async   bool
	pmu     sync.Mutex
	pending map[*go9p.SrvReq]int // 0 handed over, 1 answering, 2 cancelled
}

func (o *raceOps) file(name string, dir bool) *rcFile {
	o.mu.Lock()
	defer o.mu.Unlock()
	f, ok := o.files[name]
	if !ok {
		o.nextq++
		t := uint8(0)
		if dir {
			t = go9p.QTDIR
		}
		f = &rcFile{qid: go9p.Qid{Type: t, Path: o.nextq}, dir: dir}
		o.files[name] = f
	}
	return f
}

func (o *raceOps) ConnOpened(c *go9p.Conn)   { atomic.AddInt32(&o.opened, 1) }
func (o *raceOps) ConnClosed(c *go9p.Conn)   { atomic.AddInt32(&o.closed, 1) }
func (o *raceOps) FidDestroy(f *go9p.SrvFid) {}

// A conforming FlushOp: the implementation cancels only a request it was handed and has
// not answered, and never answers a request it cancelled ("the flush method should call
// Flush() if the flush was successful").
func (o *raceOps) Flush(r *go9p.SrvReq) {
	o.pmu.Lock()
	st, ok := o.pending[r]
	cancel := ok && st == 0
	if cancel {
		o.pending[r] = 2
	}
	o.pmu.Unlock()
	if cancel {
		r.Flush()
	}
}

// the handler has read what it needs from r and is about to answer (or to leave the answer to another goroutine)
func (o *raceOps) enter(r *go9p.SrvReq) {
	o.pmu.Lock()
	o.pending[r] = 0
	o.pmu.Unlock()
}

// answer now, or from another goroutine after a short pause; not at all once cancelled
func (o *raceOps) later(r *go9p.SrvReq, f func()) {
	o.enter(r) // from here on the request can be cancelled; the handler no longer touches r's fields
	answer := func() {
		o.pmu.Lock()
		st := o.pending[r]
		if st == 0 {
			o.pending[r] = 1
		}
		o.pmu.Unlock()
		if st == 0 {
			f()
		}
		o.pmu.Lock()
		delete(o.pending, r)
		o.pmu.Unlock()
	}
	if o.async && time.Now().UnixNano()%3 == 0 {
		go func() {
			time.Sleep(time.Duration(time.Now().UnixNano()%200) * time.Microsecond)
			answer()
		}()
		return
	}
	answer()
}

func (o *raceOps) Attach(r *go9p.SrvReq) {
	f := o.file("/", true)
	r.Fid.Aux = &rcAux{f}
	o.later(r, func() { r.RespondRattach(&f.qid) })
}

func (o *raceOps) Walk(r *go9p.SrvReq) {
	a, _ := r.Fid.Aux.(*rcAux)
	if a == nil {
		o.later(r, func() { r.RespondError("no aux") })
		return
	}
	cur := a.f
	qids := make([]go9p.Qid, 0, len(r.Tc.Wname))
	for _, n := range r.Tc.Wname {
		cur = o.file(n, !strings.HasPrefix(n, "f"))
		qids = append(qids, cur.qid)
	}
	r.Newfid.Aux = &rcAux{cur}
	o.later(r, func() { r.RespondRwalk(qids) })
}

func (o *raceOps) Open(r *go9p.SrvReq) {
	a := r.Fid.Aux.(*rcAux)
	o.later(r, func() { r.RespondRopen(&a.f.qid, 0) })
}

func (o *raceOps) Create(r *go9p.SrvReq) {
	f := o.file(r.Tc.Name, r.Tc.Perm&go9p.DMDIR != 0)
	r.Fid.Aux = &rcAux{f}
	o.later(r, func() { r.RespondRcreate(&f.qid, 0) })
}

func (o *raceOps) Read(r *go9p.SrvReq) {
	a := r.Fid.Aux.(*rcAux)
	off, cnt := r.Tc.Offset, r.Tc.Count
	o.later(r, func() {
		a.f.mu.Lock()
		var b []byte
		if off < uint64(len(a.f.data)) {
			e := off + uint64(cnt)
			if e > uint64(len(a.f.data)) {
				e = uint64(len(a.f.data))
			}
			b = append(b, a.f.data[off:e]...)
		}
		a.f.mu.Unlock()
		r.RespondRread(b)
	})
}

func (o *raceOps) Write(r *go9p.SrvReq) {
	a := r.Fid.Aux.(*rcAux)
	d := append([]byte(nil), r.Tc.Data...)
	off := r.Tc.Offset
	o.later(r, func() {
		a.f.mu.Lock()
		if off > 1<<16 {
			off = 1 << 16
		}
		for uint64(len(a.f.data)) < off+uint64(len(d)) {
			a.f.data = append(a.f.data, 0)
		}
		copy(a.f.data[off:], d)
		a.f.mu.Unlock()
		r.RespondRwrite(uint32(len(d)))
	})
}

func (o *raceOps) Clunk(r *go9p.SrvReq) {
	o.later(r, func() { r.RespondRclunk() })
}
func (o *raceOps) Remove(r *go9p.SrvReq) {
	o.later(r, func() { r.RespondRremove() })
}
func (o *raceOps) Stat(r *go9p.SrvReq) {
	a := r.Fid.Aux.(*rcAux)
	d := &go9p.Dir{Qid: a.f.qid, Name: "x", Uid: "u", Gid: "g", Muid: "m"}
	if a.f.dir {
		d.Mode = go9p.DMDIR | 0755
	}
	o.later(r, func() { r.RespondRstat(d) })
}
func (o *raceOps) Wstat(r *go9p.SrvReq) {
	o.later(r, func() { r.RespondRwstat() })
}

// ---------- schedule perturbation at the library's schedule points ----------
// no shared state here: anything shared would add happens-before edges and hide races
func perturbHook(point string, obj interface{}, a, b uint32) {
	switch time.Now().UnixNano() % 11 {
	case 0, 1, 2:
		time.Sleep(time.Duration(time.Now().UnixNano()%150) * time.Microsecond)
	case 3, 4:
		for i := 0; i < 3; i++ {
			runtime.Gosched()
		}
	}
}

// ---------- race log ----------
type raceLog struct {
	prefix string
	off    map[string]int64
}

func (l *raceLog) fresh() []string {
	var reps []string
	files, _ := filepath.Glob(l.prefix + ".*")
	for _, f := range files {
		b, err := os.ReadFile(f)
		if err != nil {
			continue
		}
		o := l.off[f]
		if int64(len(b)) <= o {
			continue
		}
		nb := b[o:]
		l.off[f] = int64(len(b))
		for _, blk := range bytes.Split(nb, []byte("==================")) {
			if bytes.Contains(blk, []byte("DATA RACE")) {
				reps = append(reps, string(blk))
			}
		}
	}
	return reps
}

// the two racing accesses of a report: first frame outside the Go runtime of the first two stacks
func racingFrames(rep string, goroot string) []string {
	var out []string
	lines := strings.Split(rep, "\n")
	for i := 0; i < len(lines) && len(out) < 2; i++ {
		ln := lines[i]
		isAcc := (strings.Contains(ln, "ead at ") || strings.Contains(ln, "rite at ")) && strings.Contains(ln, "by ")
		if !isAcc {
			continue
		}
		// frames: "  func()\n      file:line +0x.."
		for j := i + 1; j+1 < len(lines); j += 2 {
			fn := strings.TrimSpace(lines[j])
			if fn == "" {
				break
			}
			loc := strings.TrimSpace(lines[j+1])
			if strings.HasPrefix(loc, goroot) || strings.HasPrefix(fn, "runtime.") || strings.HasPrefix(fn, "sync.") || strings.HasPrefix(fn, "sync/atomic.") {
				continue
			}
			if k := strings.Index(loc, " +0x"); k > 0 {
				loc = loc[:k]
			}
			out = append(out, fn+"@"+loc)
			break
		}
	}
	return out
}

// ---------- workloads ----------
type roundStat struct {
	ops, flushes, drops, conns, gor int
	err                             string
}

type dialer func() (net.Conn, error)

// one client goroutine: its own fids only; walks start from the shared root fid
func clientWorker(clnt *go9p.Clnt, id string, nops int, ufs bool, seedv int64, st *int64, fl *int64) error {
	user := go9p.OsUsers.Uid2User(os.Getuid())
	_ = user
	r := seedv
	next := func(n int64) int64 {
		r = r*6364136223846793005 + 1442695040888963407
		v := (r >> 33) % n
		if v < 0 {
			v = -v
		}
		return v
	}
	dirname := "d" + id
	// own directory
	dfid, err := clnt.FWalk("/")
	if err != nil {
		return fmt.Errorf("fwalk /: %v", err)
	}
	if err := clnt.Create(dfid, dirname, go9p.DMDIR|0755, go9p.OREAD, ""); err != nil {
		// may exist from an earlier round
		clnt.Clunk(dfid)
		if dfid, err = clnt.FWalk("/" + dirname); err != nil {
			return fmt.Errorf("fwalk own dir: %v", err)
		}
	}
	atomic.AddInt64(st, 2)
	defer clnt.Clunk(dfid)
	for i := 0; i < nops; i++ {
		fname := fmt.Sprintf("f%s_%d", id, next(4))
		switch next(8) {
		case 0, 1: // create + write + read back + clunk
			f, err := clnt.FCreate("/"+dirname+"/"+fname, 0644, go9p.ORDWR)
			if err != nil {
				f, err = clnt.FOpen("/"+dirname+"/"+fname, go9p.ORDWR)
				if err != nil {
					continue
				}
			}
			buf := bytes.Repeat([]byte{byte(i)}, int(next(3000))+1)
			f.WriteAt(buf, int64(next(100)))
			rb := make([]byte, 4096)
			f.ReadAt(rb, 0)
			f.Close()
			atomic.AddInt64(st, 5)
		case 2: // stat by path (walks from the shared root)
			clnt.FStat("/" + dirname)
			atomic.AddInt64(st, 3)
		case 3: // directory read
			if f, err := clnt.FOpen("/"+dirname, go9p.OREAD); err == nil {
				f.Readdir(0)
				f.Close()
			}
			atomic.AddInt64(st, 4)
		case 4: // remove
			clnt.FRemove("/" + dirname + "/" + fname)
			atomic.AddInt64(st, 2)
		case 5: // wstat on own file
			if fid, err := clnt.FWalk("/" + dirname + "/" + fname); err == nil {
				d := go9p.Dir{Mode: 0600, Length: 0xFFFFFFFFFFFFFFFF, Mtime: 0xFFFFFFFF, Atime: 0xFFFFFFFF, Uidnum: go9p.NOUID, Gidnum: go9p.NOUID}
				clnt.Wstat(fid, &d)
				clnt.Clunk(fid)
			}
			atomic.AddInt64(st, 3)
		case 6: // a read that is flushed while it may still be outstanding
			fid, err := clnt.FWalk("/" + dirname)
			if err != nil {
				continue
			}
			if clnt.Open(fid, go9p.OREAD) == nil {
				req := clnt.ReqAlloc()
				tc := clnt.NewFcall()
				if go9p.PackTread(tc, fid.Fid, 0, 512) == nil {
					req.Tc = tc
					req.Done = make(chan *go9p.Req, 1)
					if clnt.Rpcnb(req) == nil {
						ftc := clnt.NewFcall()
						if go9p.PackTflush(ftc, tc.Tag) == nil {
							clnt.Rpc(ftc)
							atomic.AddInt64(fl, 1)
						}
						select {
						case <-req.Done:
						case <-time.After(300 * time.Millisecond):
							// flushed before it was answered: the server sends no Rread
						}
					}
				}
			}
			clnt.Clunk(fid)
			atomic.AddInt64(st, 4)
		case 7: // long walk from the shared root fid, many names
			names := []string{dirname, fname, "x", "y"}
			nf := clnt.FidAlloc()
			if _, err := clnt.Walk(clnt.Root, nf, names[:1+next(3)]); err == nil {
				clnt.Clunk(nf)
			}
			atomic.AddInt64(st, 2)
		}
	}
	return nil
}

func runRound(kind string, dial dialer, nconn, ngor, nops int, round int) roundStat {
	var st, fl int64
	rs := roundStat{conns: nconn, gor: nconn * ngor}
	var wg sync.WaitGroup
	var errMu sync.Mutex
	fail := func(e error) {
		errMu.Lock()
		if rs.err == "" {
			rs.err = e.Error()
		}
		errMu.Unlock()
	}
	user := go9p.OsUsers.Uid2User(os.Getuid())
	stopDrop := make(chan struct{})
	var dropWg sync.WaitGroup
	drops := int64(0)
	// connections opened and dropped, quiescent, while the others are busy
	dropWg.Add(1)
	go func() {
		defer dropWg.Done()
		for {
			select {
			case <-stopDrop:
				return
			default:
			}
			c, err := dial()
			if err != nil {
				fail(err)
				return
			}
			clnt, err := go9p.MountConn(c, "", 8192, user)
			if err != nil {
				c.Close()
				fail(fmt.Errorf("mount (dropper): %v", err))
				return
			}
			clnt.FStat("/")
			clnt.Unmount()
			atomic.AddInt64(&drops, 1)
			time.Sleep(time.Duration(time.Now().UnixNano()%500) * time.Microsecond)
		}
	}()
	for ci := 0; ci < nconn; ci++ {
		c, err := dial()
		if err != nil {
			fail(err)
			break
		}
		msize := uint32(8192)
		if ci%2 == 1 {
			msize = 1024
		}
		clnt, err := go9p.MountConn(c, "", msize, user)
		if err != nil {
			c.Close()
			fail(fmt.Errorf("mount: %v", err))
			break
		}
		var cwg sync.WaitGroup
		for g := 0; g < ngor; g++ {
			cwg.Add(1)
			wg.Add(1)
			id := fmt.Sprintf("%d_%d", ci, g)
			sv := seed*1000003 + int64(round)*7919 + int64(ci)*131 + int64(g)
			go func() {
				defer wg.Done()
				defer cwg.Done()
				if err := clientWorker(clnt, id, nops, kind == "ufs", sv, &st, &fl); err != nil {
					fail(err)
				}
			}()
		}
		// the connection is dropped once its own requests have been answered
		go func() {
			cwg.Wait()
			clnt.Unmount()
		}()
	}
	done := make(chan struct{})
	go func() { wg.Wait(); close(done) }()
	select {
	case <-done:
	case <-time.After(120 * time.Second):
		fail(fmt.Errorf("round did not finish in 120 s"))
	}
	close(stopDrop)
	dropWg.Wait()
	rs.ops, rs.flushes, rs.drops = int(st), int(fl), int(drops)
	return rs
}

func modeRaceload(tier string, args []string) {
	rounds := 10
	nops := 25
	if tier == "thorough" {
		rounds = 30
		nops = 60
	}
	goroot := os.Getenv("VERIF_GOROOT")
	logp := os.Getenv("VERIF_RACELOG")
	rl := &raceLog{prefix: logp, off: map[string]int64{}}
	if old, _ := filepath.Glob(logp + ".*"); logp != "" {
		for _, f := range old {
			os.Remove(f) // reports of earlier processes
		}
	}
	base, err := os.MkdirTemp(os.Getenv("VERIF_OUT"), "race-")
	if err != nil {
		emit("HARNESSERROR mkdir %v", err)
		return
	}
	defer os.RemoveAll(base)
	go9p.VerifSetHook(perturbHook) // replaces the dispatcher: stateless perturbation only

	// Ufs on a scratch tree, over a unix socket
	u := new(go9p.Ufs)
	u.Root = filepath.Join(base, "root")
	os.MkdirAll(u.Root, 0755)
	u.Dotu = true
	u.Msize = 8192
	u.Id = "ufs-race"
	u.Log = go9p.NewLogger(64)
	if !u.Start(u) {
		emit("HARNESSERROR ufs start")
		return
	}
	usock := filepath.Join(base, "u.sock")
	ul, err := net.Listen("unix", usock)
	if err != nil {
		emit("HARNESSERROR listen %v", err)
		return
	}
	go u.StartListener(ul)
	defer ul.Close()

	// the scripted implementation, over in-process pipes
	ro := &raceOps{files: map[string]*rcFile{}, async: true, pending: map[*go9p.SrvReq]int{}}
	ro.Dotu = true
	ro.Msize = 4096 // smaller than what the clients propose: the server lowers msize in every session
	ro.Id = "scripted-race"
	ro.Log = go9p.NewLogger(64)
	if !ro.Start(ro) {
		emit("HARNESSERROR scripted start")
		return
	}
	udial := func() (net.Conn, error) { return net.Dial("unix", usock) }
	sdial := func() (net.Conn, error) {
		c1, c2 := net.Pipe()
		ro.NewConn(c2)
		return c1, nil
	}
	nrep := 0
	for r := 0; r < rounds; r++ {
		kind, dial := "ufs", dialer(udial)
		if r%2 == 1 {
			kind, dial = "scripted", dialer(sdial)
		}
		nconn := 2 + r%3
		ngor := 3 + r%4
		rs := runRound(kind, dial, nconn, ngor, nops, r)
		time.Sleep(50 * time.Millisecond) // let connection teardown finish (and be observed by the detector)
		reps := rl.fresh()
		lib := 0
		for _, rep := range reps {
			fr := racingFrames(rep, goroot)
			inLib := false
			for _, f := range fr {
				if k := strings.Index(f, "@"); k >= 0 && strings.HasPrefix(f[k+1:], os.Getenv("VERIF_REPO")+"/") {
					inLib = true
				}
			}
			if inLib {
				lib++
				nrep++
				if nrep <= 8 {
					emit("C19.data_race_in_library round=%d kind=%s at=%s report=%s", r, kind, strings.Join(fr, "|"), hxs(rep))
				}
			} else {
				stat("race_reports_outside_library", 1)
				fmt.Fprintf(os.Stderr, "race report outside the library (harness?):\n%s\n", rep)
			}
		}
		stat("rounds_"+kind, 1)
		stat("ops", rs.ops)
		stat("flushes", rs.flushes)
		stat("connections_dropped_while_busy", rs.drops)
		stat("client_goroutines", rs.gor)
		if rs.err != "" {
			emit("HARNESSERROR round=%d kind=%s %s", r, kind, rs.err)
			continue
		}
		if lib == 0 {
			emit("PASS round=%d kind=%s conns=%d goroutines=%d ops=%d flushes=%d drops=%d", r, kind, rs.conns, rs.gor, rs.ops, rs.flushes, rs.drops)
		}
	}
	stat("race_detector_enabled", raceEnabled)
}
