package main

// clntlog: the real client with its schedule points logged (verif tag) and translated into
// the labels of the client LTS Clnt/Model.v; modelcheck replays them (mode clntref).
//
//   CLT <poolsize> <n> <label>* ; RES <m> {<class>}*m ; NOTE <text>
// labels: NC c ver | AL c tag cached | LK c | RFU c | HO c sent | RF tag kind | DL | FL | CL | TK c | FR c tag cached

import (
	"fmt"
	"strings"
	"sync"
	"time"

	go9p "github.com/rminnich/go9p"
)

func init() { modes["clntlog"] = modeClntlog }

type clntLog struct {
	mu     sync.Mutex
	labels []string
	caller map[uint64]int // goroutine -> caller index
	ncall  int
	traced bool
}

func (l *clntLog) add(format string, a ...interface{}) {
	l.labels = append(l.labels, fmt.Sprintf(format, a...))
}

func (l *clntLog) hook(point string, obj interface{}, a, b uint32) {
	g := gid()
	l.mu.Lock()
	defer l.mu.Unlock()
	c, isCaller := l.caller[g]
	switch point {
	case "clnt.reqalloc":
		l.traced = true
		if isCaller {
			l.add("AL %d %d %d", c, a, b)
		}
	case "rpcnb.locked":
		if isCaller {
			l.add("LK %d", c)
		}
	case "rpcnb.refused":
		if isCaller {
			l.add("RFU %d", c)
		}
	case "rpcnb.handed":
		if isCaller {
			l.add("HO %d %d", c, b)
		}
	case "rpc.taken":
		if isCaller {
			l.add("TK %d", c)
		}
	case "clnt.reqfree":
		if isCaller {
			l.add("FR %d %d %d", c, a, b)
		}
	case "clntrecv.matched":
		l.add("RF %d %d", a, b)
	case "clntrecv.delivered":
		l.add("DL")
	case "clntrecv.failed":
		l.add("FL")
	case "clntrecv.doneclosed", "clntrecv.detached", "clntrecv.end":
		l.add("CL")
	}
}

// one history: n concurrent callers, the peer answers in a chosen order with chosen kinds,
// optionally a failure strikes after some of the replies; then a later call
func clntLogCase(n int, kinds []byte, order []int, delivered int, end string, dotu bool) string {
	p := newClntPeer(8192, dotu)
	lg := &clntLog{caller: map[uint64]int{}}
	hookTable.Store(p.clnt, lg.hook)
	defer hookTable.Delete(p.clnt)
	classes := make([]string, n+1)
	var wg sync.WaitGroup
	call := func(i int, fid uint32) {
		defer wg.Done()
		g := gid()
		lg.mu.Lock()
		c := lg.ncall
		lg.ncall++
		lg.caller[g] = c
		lg.add("NC %d 0", c)
		lg.mu.Unlock()
		tc := p.clnt.NewFcall()
		_ = go9p.PackTstat(tc, fid)
		rc, err := p.clnt.Rpc(tc)
		cl, _ := classify(rc, err, "")
		lg.mu.Lock()
		classes[c] = cl
		delete(lg.caller, g)
		lg.mu.Unlock()
	}
	for i := 0; i < n; i++ {
		wg.Add(1)
		go call(i, uint32(1000+i))
	}
	dl := time.Now().Add(3 * time.Second)
	for len(p.requests()) < n && time.Now().Before(dl) {
		time.Sleep(20 * time.Microsecond)
	}
	byFid := map[uint32][]byte{}
	for _, r := range p.requests() {
		if fc, _, err := go9p.Unpack(r, dotu); err == nil {
			byFid[fc.Fid] = r
		}
	}
	var stream []byte
	for k, idx := range order {
		if k >= delivered {
			break
		}
		if r := byFid[uint32(1000+idx)]; r != nil {
			stream = append(stream, replyFor(r, kinds[k], dotu)...)
		}
	}
	switch end {
	case "garbage":
		stream = append(stream, 9, 0, 0, 0, go9p.Rwalk, 1, 0, 0xff, 0xff)
	case "unknowntag":
		out := go9p.NewFcall(64)
		_ = go9p.PackRclunk(out)
		go9p.SetTag(out, 0x7777)
		stream = append(stream, out.Pkt...)
	}
	if len(stream) > 0 {
		if rng.Intn(2) == 0 {
			p.conn.push(stream)
		} else {
			for _, s := range cut(stream, []int{1 + rng.Intn(len(stream)), 1 + rng.Intn(len(stream))}) {
				p.conn.push(append([]byte{}, s...))
			}
		}
	}
	if end == "eof" {
		time.Sleep(300 * time.Microsecond)
		p.conn.mu.Lock()
		p.conn.eof = true
		p.conn.cond.Broadcast()
		p.conn.mu.Unlock()
	}
	done := make(chan bool)
	go func() { wg.Wait(); close(done) }()
	note := "-"
	select {
	case <-done:
	case <-time.After(4 * time.Second):
		note = "callers-hang"
	}
	nres := n
	if end != "none" && note == "-" {
		// a later call: refused
		wg.Add(1)
		go call(n, 5)
		d2 := make(chan bool)
		go func() { wg.Wait(); close(d2) }()
		select {
		case <-d2:
			nres = n + 1
		case <-time.After(4 * time.Second):
			note = "later-call-hangs"
		}
	}
	if end == "none" {
		p.clnt.Unmount()
	}
	// the receive goroutine logs its last labels (delivered, end) after the callers have already returned: wait
	// until the log has been quiet for a moment (a label missing at the end made the replay fail under load)
	quiet, last := 0, -1
	for i := 0; i < 400 && quiet < 3; i++ {
		time.Sleep(500 * time.Microsecond)
		lg.mu.Lock()
		n := len(lg.labels)
		lg.mu.Unlock()
		if n == last {
			quiet++
		} else {
			quiet, last = 0, n
		}
	}
	lg.mu.Lock()
	defer lg.mu.Unlock()
	if !lg.traced {
		note = "untraced"
	}
	return fmt.Sprintf("CLT 65535 %d %s ; RES %d %s ; NOTE %s", len(lg.labels), strings.Join(lg.labels, " "), nres, strings.Join(classes[:nres], " "), note)
}

func modeClntlog(tier string, args []string) {
	rounds := 40
	if tier == "thorough" {
		rounds = 2500
	}
	for r := 0; r < rounds; r++ {
		n := 1 + rng.Intn(5)
		if r%10 == 9 {
			n = 20 + rng.Intn(12) // more callers than the Req cache holds
		}
		kinds := make([]byte, n)
		for i := range kinds {
			kinds[i] = "MMMEO"[rng.Intn(5)]
		}
		end := []string{"none", "none", "eof", "garbage", "unknowntag"}[rng.Intn(5)]
		delivered := n
		if end != "none" {
			delivered = rng.Intn(n + 1)
		}
		emit("%s", clntLogCase(n, kinds, rng.Perm(n), delivered, end, r%2 == 0))
		stat("clntlog.histories", 1)
	}
}
