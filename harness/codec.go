package main

import (
	"bytes"
	"encoding/hex"
	"fmt"
	"runtime"
	"strings"

	go9p "github.com/rminnich/go9p"
)

func init() { modes["codec"] = modeCodec; modes["decode"] = modeDecode }

func hx(b []byte) string {
	if len(b) == 0 {
		return "-"
	}
	return hex.EncodeToString(b)
}

func qidStr(q go9p.Qid) string { return fmt.Sprintf("%d %d %d", q.Type, q.Version, q.Path) }

func dirStr(d *go9p.Dir) string {
	return fmt.Sprintf("%d %d %s %d %d %d %d %s %s %s %s %s %d %d %d", d.Type, d.Dev, qidStr(d.Qid), d.Mode, d.Atime,
		d.Mtime, d.Length, hx([]byte(d.Name)), hx([]byte(d.Uid)), hx([]byte(d.Gid)), hx([]byte(d.Muid)),
		hx([]byte(d.Ext)), d.Uidnum, d.Gidnum, d.Muidnum)
}

// gmsg: a message value as the generator sees it (kind = type number)
type gmsg struct {
	kind       uint8
	a, b, c    uint64 // integer fields in wire order
	s1, s2, s3 []byte
	q          go9p.Qid
	names      [][]byte
	qids       []go9p.Qid
	data       []byte
	dir        go9p.Dir
}

func (m *gmsg) String() string {
	switch m.kind {
	case go9p.Tversion:
		return fmt.Sprintf("Tversion %d %s", m.a, hx(m.s1))
	case go9p.Rversion:
		return fmt.Sprintf("Rversion %d %s", m.a, hx(m.s1))
	case go9p.Tauth:
		return fmt.Sprintf("Tauth %d %s %s %d", m.a, hx(m.s1), hx(m.s2), m.b)
	case go9p.Rauth:
		return "Rauth " + qidStr(m.q)
	case go9p.Tattach:
		return fmt.Sprintf("Tattach %d %d %s %s %d", m.a, m.b, hx(m.s1), hx(m.s2), m.c)
	case go9p.Rattach:
		return "Rattach " + qidStr(m.q)
	case go9p.Rerror:
		return fmt.Sprintf("Rerror %s %d", hx(m.s1), m.a)
	case go9p.Tflush:
		return fmt.Sprintf("Tflush %d", m.a)
	case go9p.Rflush:
		return "Rflush"
	case go9p.Twalk:
		var sb strings.Builder
		fmt.Fprintf(&sb, "Twalk %d %d %d", m.a, m.b, len(m.names))
		for _, n := range m.names {
			sb.WriteString(" " + hx(n))
		}
		return sb.String()
	case go9p.Rwalk:
		var sb strings.Builder
		fmt.Fprintf(&sb, "Rwalk %d", len(m.qids))
		for _, q := range m.qids {
			sb.WriteString(" " + qidStr(q))
		}
		return sb.String()
	case go9p.Topen:
		return fmt.Sprintf("Topen %d %d", m.a, m.b)
	case go9p.Ropen:
		return fmt.Sprintf("Ropen %s %d", qidStr(m.q), m.a)
	case go9p.Tcreate:
		return fmt.Sprintf("Tcreate %d %s %d %d %s", m.a, hx(m.s1), m.b, m.c, hx(m.s2))
	case go9p.Rcreate:
		return fmt.Sprintf("Rcreate %s %d", qidStr(m.q), m.a)
	case go9p.Tread:
		return fmt.Sprintf("Tread %d %d %d", m.a, m.b, m.c)
	case go9p.Rread:
		return "Rread " + hx(m.data)
	case go9p.Twrite:
		return fmt.Sprintf("Twrite %d %d %s", m.a, m.b, hx(m.data))
	case go9p.Rwrite:
		return fmt.Sprintf("Rwrite %d", m.a)
	case go9p.Tclunk:
		return fmt.Sprintf("Tclunk %d", m.a)
	case go9p.Rclunk:
		return "Rclunk"
	case go9p.Tremove:
		return fmt.Sprintf("Tremove %d", m.a)
	case go9p.Rremove:
		return "Rremove"
	case go9p.Tstat:
		return fmt.Sprintf("Tstat %d", m.a)
	case go9p.Rstat:
		return "Rstat " + dirStr(&m.dir)
	case go9p.Twstat:
		return fmt.Sprintf("Twstat %d %s", m.a, dirStr(&m.dir))
	case go9p.Rwstat:
		return "Rwstat"
	}
	return fmt.Sprintf("Unknown%d", m.kind)
}

// fcallStr projects a decoded Fcall to the same notation (by protocol field).
func fcallStr(fc *go9p.Fcall) string {
	m := gmsg{kind: fc.Type}
	switch fc.Type {
	case go9p.Tversion, go9p.Rversion:
		m.a, m.s1 = uint64(fc.Msize), []byte(fc.Version)
	case go9p.Tauth:
		m.a, m.s1, m.s2, m.b = uint64(fc.Afid), []byte(fc.Uname), []byte(fc.Aname), uint64(fc.Unamenum)
	case go9p.Rauth, go9p.Rattach:
		m.q = fc.Qid
	case go9p.Tattach:
		m.a, m.b, m.s1, m.s2, m.c = uint64(fc.Fid), uint64(fc.Afid), []byte(fc.Uname), []byte(fc.Aname), uint64(fc.Unamenum)
	case go9p.Rerror:
		m.s1, m.a = []byte(fc.Error), uint64(fc.Errornum)
	case go9p.Tflush:
		m.a = uint64(fc.Oldtag)
	case go9p.Twalk:
		m.a, m.b = uint64(fc.Fid), uint64(fc.Newfid)
		for _, n := range fc.Wname {
			m.names = append(m.names, []byte(n))
		}
	case go9p.Rwalk:
		m.qids = fc.Wqid
	case go9p.Topen:
		m.a, m.b = uint64(fc.Fid), uint64(fc.Mode)
	case go9p.Ropen, go9p.Rcreate:
		m.q, m.a = fc.Qid, uint64(fc.Iounit)
	case go9p.Tcreate:
		m.a, m.s1, m.b, m.c, m.s2 = uint64(fc.Fid), []byte(fc.Name), uint64(fc.Perm), uint64(fc.Mode), []byte(fc.Ext)
	case go9p.Tread:
		m.a, m.b, m.c = uint64(fc.Fid), fc.Offset, uint64(fc.Count)
	case go9p.Rread:
		m.data = fc.Data
		if int(fc.Count) <= len(fc.Data) {
			m.data = fc.Data[:fc.Count]
		}
	case go9p.Twrite:
		m.a, m.b, m.data = uint64(fc.Fid), fc.Offset, fc.Data
	case go9p.Rwrite:
		m.a = uint64(fc.Count)
	case go9p.Tclunk, go9p.Tremove, go9p.Tstat:
		m.a = uint64(fc.Fid)
	case go9p.Rstat:
		m.dir = fc.Dir
	case go9p.Twstat:
		m.a, m.dir = uint64(fc.Fid), fc.Dir
	}
	return m.String()
}

func packInto(fc *go9p.Fcall, m *gmsg, dotu bool) (err error) {
	switch m.kind {
	case go9p.Tversion:
		return go9p.PackTversion(fc, uint32(m.a), string(m.s1))
	case go9p.Rversion:
		return go9p.PackRversion(fc, uint32(m.a), string(m.s1))
	case go9p.Tauth:
		return go9p.PackTauth(fc, uint32(m.a), string(m.s1), string(m.s2), uint32(m.b), dotu)
	case go9p.Rauth:
		return go9p.PackRauth(fc, &m.q)
	case go9p.Tattach:
		return go9p.PackTattach(fc, uint32(m.a), uint32(m.b), string(m.s1), string(m.s2), uint32(m.c), dotu)
	case go9p.Rattach:
		return go9p.PackRattach(fc, &m.q)
	case go9p.Rerror:
		return go9p.PackRerror(fc, string(m.s1), uint32(m.a), dotu)
	case go9p.Tflush:
		return go9p.PackTflush(fc, uint16(m.a))
	case go9p.Rflush:
		return go9p.PackRflush(fc)
	case go9p.Twalk:
		names := make([]string, len(m.names))
		for i, n := range m.names {
			names[i] = string(n)
		}
		return go9p.PackTwalk(fc, uint32(m.a), uint32(m.b), names)
	case go9p.Rwalk:
		return go9p.PackRwalk(fc, m.qids)
	case go9p.Topen:
		return go9p.PackTopen(fc, uint32(m.a), uint8(m.b))
	case go9p.Ropen:
		return go9p.PackRopen(fc, &m.q, uint32(m.a))
	case go9p.Tcreate:
		return go9p.PackTcreate(fc, uint32(m.a), string(m.s1), uint32(m.b), uint8(m.c), string(m.s2), dotu)
	case go9p.Rcreate:
		return go9p.PackRcreate(fc, &m.q, uint32(m.a))
	case go9p.Tread:
		return go9p.PackTread(fc, uint32(m.a), m.b, uint32(m.c))
	case go9p.Rread:
		return go9p.PackRread(fc, m.data)
	case go9p.Twrite:
		return go9p.PackTwrite(fc, uint32(m.a), m.b, uint32(len(m.data)), m.data)
	case go9p.Rwrite:
		return go9p.PackRwrite(fc, uint32(m.a))
	case go9p.Tclunk:
		return go9p.PackTclunk(fc, uint32(m.a))
	case go9p.Rclunk:
		return go9p.PackRclunk(fc)
	case go9p.Tremove:
		return go9p.PackTremove(fc, uint32(m.a))
	case go9p.Rremove:
		return go9p.PackRremove(fc)
	case go9p.Tstat:
		return go9p.PackTstat(fc, uint32(m.a))
	case go9p.Rstat:
		return go9p.PackRstat(fc, &m.dir, dotu)
	case go9p.Twstat:
		return go9p.PackTwstat(fc, uint32(m.a), &m.dir, dotu)
	case go9p.Rwstat:
		return go9p.PackRwstat(fc)
	}
	return fmt.Errorf("unknown kind")
}

var allKinds = []uint8{go9p.Tversion, go9p.Rversion, go9p.Tauth, go9p.Rauth, go9p.Tattach, go9p.Rattach, go9p.Rerror,
	go9p.Tflush, go9p.Rflush, go9p.Twalk, go9p.Rwalk, go9p.Topen, go9p.Ropen, go9p.Tcreate, go9p.Rcreate, go9p.Tread,
	go9p.Rread, go9p.Twrite, go9p.Rwrite, go9p.Tclunk, go9p.Rclunk, go9p.Tremove, go9p.Rremove, go9p.Tstat, go9p.Rstat,
	go9p.Twstat, go9p.Rwstat}

// ---- generators (all randomness from rng) ----
var giantBudget = 0 // messages with 65535 names / qids (~1 MB on the wire; minutes in the list-based model): thorough tier only
var largeN = 3000

func genInt(bits uint, class int) uint64 {
	max := uint64(1)<<bits - 1
	if bits == 64 {
		max = ^uint64(0)
	}
	switch class % 6 {
	case 0:
		return 0
	case 1:
		return 1
	case 2:
		return max - 1
	case 3:
		return max
	case 4:
		return uint64(rng.Int63()) & max
	default:
		return (uint64(rng.Int63())<<1 | uint64(rng.Intn(2))) & max
	}
}

var strLens = []int{0, 1, 2, 255, 256, 65534, 65535}

func genStr(class int, big bool) []byte {
	var n int
	c := class % 10
	switch {
	case c < 5:
		n = strLens[c]
	case c == 5 || c == 6:
		if big {
			n = strLens[c]
		} else {
			n = rng.Intn(40)
		}
	default:
		n = rng.Intn(40)
	}
	b := make([]byte, n)
	for i := range b {
		switch rng.Intn(6) {
		case 0:
			b[i] = 0
		case 1:
			b[i] = 0xff
		default:
			b[i] = byte(rng.Intn(256))
		}
	}
	return b
}

func genQid(class int) go9p.Qid {
	return go9p.Qid{Type: uint8(genInt(8, class)), Version: uint32(genInt(32, class+1)), Path: genInt(64, class+2)}
}

func genDir(class int, big bool) go9p.Dir {
	d := go9p.Dir{Type: uint16(genInt(16, class)), Dev: uint32(genInt(32, class+1)), Qid: genQid(class + 2),
		Mode: uint32(genInt(32, class+3)), Atime: uint32(genInt(32, class+4)), Mtime: uint32(genInt(32, class+5)),
		Length: genInt(64, class), Uidnum: uint32(genInt(32, class+1)), Gidnum: uint32(genInt(32, class+2)),
		Muidnum: uint32(genInt(32, class+3))}
	// keep the stat within its 16-bit size: at most one long string, below 65535-61-...
	long := -1
	if big {
		long = rng.Intn(5)
	}
	ss := make([][]byte, 5)
	for i := range ss {
		ss[i] = genStr(rng.Intn(5), false)
		if i == long {
			ss[i] = make([]byte, 60000+rng.Intn(4000))
			for j := range ss[i] {
				ss[i][j] = byte(rng.Intn(256))
			}
		}
	}
	d.Name, d.Uid, d.Gid, d.Muid, d.Ext = string(ss[0]), string(ss[1]), string(ss[2]), string(ss[3]), string(ss[4])
	return d
}

func genMsg(kind uint8, class int, big bool) *gmsg {
	m := &gmsg{kind: kind}
	switch kind {
	case go9p.Tversion, go9p.Rversion:
		m.a, m.s1 = genInt(32, class), genStr(class, big)
	case go9p.Tauth:
		m.a, m.s1, m.s2, m.b = genInt(32, class), genStr(class, big), genStr(class+3, false), genInt(32, class+1)
	case go9p.Rauth, go9p.Rattach:
		m.q = genQid(class)
	case go9p.Tattach:
		m.a, m.b, m.s1, m.s2, m.c = genInt(32, class), genInt(32, class+1), genStr(class+1, false), genStr(class, big), genInt(32, class+2)
	case go9p.Rerror:
		m.s1, m.a = genStr(class, big), genInt(32, class)
	case go9p.Tflush:
		m.a = genInt(16, class)
	case go9p.Twalk:
		m.a, m.b = genInt(32, class), genInt(32, class+1)
		n := rng.Intn(17)
		if big && class%3 == 0 {
			n = largeN
			if giantBudget > 0 {
				n = 65535
				giantBudget--
			}
		}
		for i := 0; i < n; i++ {
			if n > 100 {
				m.names = append(m.names, genStr(i%2, false))
			} else {
				m.names = append(m.names, genStr(class+i, big && i == 0 && class%3 == 1))
			}
		}
	case go9p.Rwalk:
		n := rng.Intn(17)
		if big && class%3 == 0 {
			n = largeN
			if giantBudget > 0 {
				n = 65535
				giantBudget--
			}
		}
		for i := 0; i < n; i++ {
			m.qids = append(m.qids, genQid(class+i))
		}
	case go9p.Topen:
		m.a, m.b = genInt(32, class), genInt(8, class+1)
	case go9p.Ropen, go9p.Rcreate:
		m.q, m.a = genQid(class), genInt(32, class+1)
	case go9p.Tcreate:
		m.a, m.s1, m.b, m.c, m.s2 = genInt(32, class), genStr(class, big), genInt(32, class+1), genInt(8, class+2), genStr(class+4, false)
	case go9p.Tread:
		m.a, m.b, m.c = genInt(32, class), genInt(64, class+1), genInt(32, class+2)
	case go9p.Rread, go9p.Twrite:
		m.a, m.b = genInt(32, class), genInt(64, class+1)
		n := []int{0, 1, 2, 100, 4096, 8168}[class%6]
		if big {
			n = 65536 + rng.Intn(5000)
		}
		m.data = make([]byte, n)
		for i := range m.data {
			m.data[i] = byte(rng.Intn(256))
		}
	case go9p.Rwrite:
		m.a = genInt(32, class)
	case go9p.Tclunk, go9p.Tremove, go9p.Tstat:
		m.a = genInt(32, class)
	case go9p.Rstat:
		m.dir = genDir(class, big)
	case go9p.Twstat:
		m.a, m.dir = genInt(32, class), genDir(class, big)
	}
	return m
}

func b2i(b bool) int {
	if b {
		return 1
	}
	return 0
}

// unpackStr runs go9p.Unpack under recover and renders the outcome.
func unpackStr(buf []byte, dotu bool) (s string, fc *go9p.Fcall) {
	defer func() {
		if r := recover(); r != nil {
			s, fc = "PANIC", nil
		}
	}()
	f, n, err := go9p.Unpack(buf, dotu)
	if err != nil {
		return "ERR", nil
	}
	return fmt.Sprintf("OK %d %d %s", f.Tag, n, fcallStr(f)), f
}

func unpackDirStr(buf []byte, dotu bool) (s string) {
	defer func() {
		if r := recover(); r != nil {
			s = "PANIC"
		}
	}()
	d, b, amt, err := go9p.UnpackDir(buf, dotu)
	if err != nil {
		return "ERR"
	}
	return fmt.Sprintf("OK %d %s %d %d", d.Size, dirStr(d), len(b), amt)
}

func packCase(m *gmsg, dotu bool, bufsz int, dirty byte, tag uint16) {
	fc := new(go9p.Fcall)
	fc.Buf = make([]byte, bufsz)
	for i := range fc.Buf {
		fc.Buf[i] = dirty
	}
	var r, t, u string
	func() {
		defer func() {
			if rec := recover(); rec != nil {
				r = "PANIC"
			}
		}()
		if err := packInto(fc, m, dotu); err != nil {
			r = "ERR"
			return
		}
		if int(fc.Size) != len(fc.Pkt) {
			r = fmt.Sprintf("OK %s SIZEFIELD %d", hx(fc.Pkt), fc.Size)
			return
		}
		r = "OK " + hx(fc.Pkt)
	}()
	t, u = "-", "-"
	if strings.HasPrefix(r, "OK") {
		func() {
			defer func() {
				if rec := recover(); rec != nil {
					t = "PANIC"
				}
			}()
			go9p.SetTag(fc, tag)
			t = "OK " + hx(fc.Pkt)
		}()
		if strings.HasPrefix(t, "OK") {
			in := append(append([]byte{}, fc.Pkt...), 0xde, 0xad, 0xbe)
			u, _ = unpackStr(in, dotu)
		}
	}
	emit("P %d %d %d %d %s ; R %s ; T %s ; U %s", b2i(dotu), bufsz, dirty, tag, m.String(), r, t, u)
	stat("codec.pack."+r[:2], 1)
}

func encLen(m *gmsg, dotu bool) int {
	fc := go9p.NewFcall(1 << 22)
	if err := packInto(fc, m, dotu); err != nil {
		return -1
	}
	return len(fc.Pkt)
}

func modeCodec(tier string, args []string) {
	rounds := 6
	bigEvery := 40
	if tier == "thorough" {
		rounds = 40
		bigEvery = 20
		largeN = 4000 // 65535 names take the list-based model tens of minutes per message: not part of the correspondence runs
	}
	n := 0
	for r := 0; r < rounds; r++ {
		for _, k := range allKinds {
			for dotu := 0; dotu < 2; dotu++ {
				for class := 0; class < 12; class++ {
					n++
					big := n%bigEvery == 0
					m := genMsg(k, class+r*12, big)
					l := encLen(m, dotu == 1)
					if l < 0 {
						continue
					}
					var bufsz int
					switch rng.Intn(5) {
					case 0:
						bufsz = l // exact
					case 1:
						bufsz = l - 1 // must be "buffer too small"
					case 2:
						bufsz = l + 1
					default:
						bufsz = l + rng.Intn(300)
					}
					if bufsz < 0 {
						bufsz = 0
					}
					packCase(m, dotu == 1, bufsz, byte(rng.Intn(256)), uint16(genInt(16, rng.Intn(6))))
					stat(fmt.Sprintf("codec.kind.%d", k), 1)
					if big {
						stat("codec.big", 1)
					}
				}
			}
		}
		// several long strings in one message: more than 64 KiB follow a string's length prefix (first round only)
		if r == 0 {
			long := func(n int, c byte) []byte { return bytes.Repeat([]byte{c}, n) }
			for dotu := 0; dotu < 2; dotu++ {
				du := dotu == 1
				ms := []*gmsg{
					{kind: go9p.Tattach, a: 1, b: 2, s1: long(300, 'u'), s2: long(65400, 'a'), c: 7},
					{kind: go9p.Tauth, a: 1, s1: long(40000, 'u'), s2: long(30000, 'a'), b: 7},
					{kind: go9p.Twalk, a: 1, b: 2, names: [][]byte{long(40000, 'x'), long(30000, 'y')}},
					{kind: go9p.Twalk, a: 1, b: 2, names: [][]byte{long(10, 'x'), long(65535, 'y'), long(3, 'z')}},
					{kind: go9p.Tcreate, a: 1, s1: long(1000, 'n'), b: 0644, c: 1, s2: long(65000, 'e')},
					{kind: go9p.Rerror, s1: long(65535, 'E'), a: 5},
					{kind: go9p.Tversion, a: 8192, s1: long(65535, 'v')},
				}
				for _, m := range ms {
					l := encLen(m, du)
					if l < 0 {
						continue
					}
					packCase(m, du, l+rng.Intn(2)*17, byte(rng.Intn(256)), 9)
					stat("codec.multi_long_strings", 1)
				}
			}
		}
		// stat records on their own
		for i := 0; i < 40; i++ {
			dotu := i%2 == 1
			d := genDir(i+r, i%10 == 9)
			b := go9p.PackDir(&d, dotu)
			in := append(append([]byte{}, b...), genStr(7, false)...)
			emit("D %d %s ; R %s ; U %s", b2i(dotu), dirStr(&d), hx(b), unpackDirStr(in, dotu))
			stat("codec.dir", 1)
		}
		// InitRread / SetRreadCount two-step
		for i := 0; i < 40; i++ {
			nn := []int{0, 1, 5, 100, 4096}[i%5]
			data := make([]byte, rng.Intn(nn+1))
			if i%3 == 0 {
				data = make([]byte, nn)
			}
			for j := range data {
				data[j] = byte(rng.Intn(256))
			}
			k := 0
			if len(data) > 0 {
				k = rng.Intn(len(data) + 1)
			}
			bufsz := nn + 11 + rng.Intn(20)
			if i%7 == 6 {
				bufsz = nn + 10
			}
			dirty := byte(rng.Intn(256))
			fc := new(go9p.Fcall)
			fc.Buf = make([]byte, bufsz)
			for j := range fc.Buf {
				fc.Buf[j] = dirty
			}
			var res string
			func() {
				defer func() {
					if rec := recover(); rec != nil {
						res = "PANIC"
					}
				}()
				if err := go9p.InitRread(fc, uint32(nn)); err != nil {
					res = "ERR"
					return
				}
				copy(fc.Data, data)
				go9p.SetRreadCount(fc, uint32(k))
				res = "OK " + hx(fc.Pkt)
			}()
			emit("RR %d %d %d %s %d ; R %s", bufsz, dirty, nn, hx(data), k, res)
			stat("codec.rread2", 1)
		}
	}
}

// ---- C02: hostile bytes ----
func allocOf(f func()) uint64 {
	var a, b runtime.MemStats
	runtime.ReadMemStats(&a)
	f()
	runtime.ReadMemStats(&b)
	return b.TotalAlloc - a.TotalAlloc
}

func decodeCase(buf []byte, dotu bool, measure bool) {
	var u string
	var fc *go9p.Fcall
	var alloc uint64
	_ = measure
	alloc = allocOf(func() { u, fc = unpackStr(buf, dotu) })
	// TotalAlloc counts every goroutine of the process: what other goroutines (runtime workers, the
	// logger) allocate meanwhile is noise that only adds. A suspicious figure is measured again; the
	// smallest of three counts.
	for i := 0; i < 2 && alloc > 64*uint64(len(buf))+2048 && alloc < 1<<22; i++ {
		if a2 := allocOf(func() { _, _ = unpackStr(buf, dotu) }); a2 < alloc {
			alloc = a2
		}
	}
	if alloc > 64*uint64(len(buf))+(1<<22) {
		decodeRunaway++ // the oracle reports it; stop before the machine runs out of memory
	}
	// prefix-only: same result on exactly the declared size, and with junk appended
	u2, u3 := "-", "-"
	if len(buf) >= 4 {
		sz := int(uint32(buf[0]) | uint32(buf[1])<<8 | uint32(buf[2])<<16 | uint32(buf[3])<<24)
		if sz <= len(buf) && sz >= 0 {
			u2, _ = unpackStr(append([]byte{}, buf[:sz]...), dotu)
			u3, _ = unpackStr(append(append([]byte{}, buf[:sz]...), 0x55, 0xaa, 0x01, 0x02, 0x03, 0x04, 0x05), dotu)
		}
	}
	// re-encode with the library's own constructors and decode again
	re := "-"
	if fc != nil {
		m := fcallToGmsg(fc)
		f2 := go9p.NewFcall(uint32(len(buf) + 64))
		func() {
			defer func() {
				if rec := recover(); rec != nil {
					re = "PANIC"
				}
			}()
			if err := packInto(f2, m, dotu); err != nil {
				re = "ERR"
				return
			}
			go9p.SetTag(f2, fc.Tag)
			re, _ = unpackStr(f2.Pkt, dotu)
		}()
	}
	emit("X %d %s ; U %s ; U2 %s ; U3 %s ; RE %s ; A %d", b2i(dotu), hx(buf), u, u2, u3, re, alloc)
	stat("decode."+strings.SplitN(u, " ", 2)[0], 1)
}

func fcallToGmsg(fc *go9p.Fcall) *gmsg {
	m := &gmsg{kind: fc.Type}
	switch fc.Type {
	case go9p.Tversion, go9p.Rversion:
		m.a, m.s1 = uint64(fc.Msize), []byte(fc.Version)
	case go9p.Tauth:
		m.a, m.s1, m.s2, m.b = uint64(fc.Afid), []byte(fc.Uname), []byte(fc.Aname), uint64(fc.Unamenum)
	case go9p.Rauth, go9p.Rattach:
		m.q = fc.Qid
	case go9p.Tattach:
		m.a, m.b, m.s1, m.s2, m.c = uint64(fc.Fid), uint64(fc.Afid), []byte(fc.Uname), []byte(fc.Aname), uint64(fc.Unamenum)
	case go9p.Rerror:
		m.s1, m.a = []byte(fc.Error), uint64(fc.Errornum)
	case go9p.Tflush:
		m.a = uint64(fc.Oldtag)
	case go9p.Twalk:
		m.a, m.b = uint64(fc.Fid), uint64(fc.Newfid)
		for _, n := range fc.Wname {
			m.names = append(m.names, []byte(n))
		}
	case go9p.Rwalk:
		m.qids = fc.Wqid
	case go9p.Topen:
		m.a, m.b = uint64(fc.Fid), uint64(fc.Mode)
	case go9p.Ropen, go9p.Rcreate:
		m.q, m.a = fc.Qid, uint64(fc.Iounit)
	case go9p.Tcreate:
		m.a, m.s1, m.b, m.c, m.s2 = uint64(fc.Fid), []byte(fc.Name), uint64(fc.Perm), uint64(fc.Mode), []byte(fc.Ext)
	case go9p.Tread:
		m.a, m.b, m.c = uint64(fc.Fid), fc.Offset, uint64(fc.Count)
	case go9p.Rread:
		m.data = fc.Data
		if int(fc.Count) <= len(fc.Data) {
			m.data = fc.Data[:fc.Count]
		}
	case go9p.Twrite:
		m.a, m.b, m.data = uint64(fc.Fid), fc.Offset, fc.Data
	case go9p.Rwrite:
		m.a = uint64(fc.Count)
	case go9p.Tclunk, go9p.Tremove, go9p.Tstat:
		m.a = uint64(fc.Fid)
	case go9p.Rstat:
		m.dir = fc.Dir
	case go9p.Twstat:
		m.a, m.dir = uint64(fc.Fid), fc.Dir
	}
	return m
}

var decodeRunaway int

func put32(b []byte, v uint32) {
	b[0], b[1], b[2], b[3] = byte(v), byte(v>>8), byte(v>>16), byte(v>>24)
}

func modeDecode(tier string, args []string) {
	rounds := 1
	nrand := 3000
	if tier == "thorough" {
		rounds = 40
		nrand = 300000
	}
	cnt := 0
	mk := func(buf []byte, dotu bool) {
		if decodeRunaway >= 5 {
			return
		}
		cnt++
		decodeCase(buf, dotu, cnt%5 == 0)
	}
	for r := 0; r < rounds; r++ {
		for _, k := range allKinds {
			for dotu := 0; dotu < 2; dotu++ {
				du := dotu == 1
				m := genMsg(k, 4+r, false)
				if k == go9p.Rread || k == go9p.Twrite {
					m.data = m.data[:min(len(m.data), 9)]
				}
				fc := go9p.NewFcall(1 << 20)
				if err := packInto(fc, m, du); err != nil {
					continue
				}
				go9p.SetTag(fc, uint16(rng.Intn(65536)))
				pkt := append([]byte{}, fc.Pkt...)
				// every truncation, size field kept (declared > len) and size field adjusted
				for cut := 0; cut <= len(pkt); cut++ {
					mk(append([]byte{}, pkt[:cut]...), du)
					if cut >= 4 {
						b := append([]byte{}, pkt[:cut]...)
						put32(b, uint32(cut))
						mk(b, du)
					}
				}
				// declared size variations around the truth and small/huge values
				for _, d := range []int{-9, -8, -7, -5, -4, -3, -2, -1, 1, 2, 3, 4, 8, 13} {
					b := append(append([]byte{}, pkt...), make([]byte, 16)...)
					v := len(pkt) + d
					if v < 0 {
						continue
					}
					put32(b, uint32(v))
					mk(b, du)
				}
				for _, v := range []uint32{0, 1, 6, 7, 8, 0x7fffffff, 0x80000000, 0xffffffff} {
					b := append([]byte{}, pkt...)
					put32(b, v)
					mk(b, du)
				}
				// single byte substitutions at every offset of the header and the first 24 body bytes
				for off := 4; off < len(pkt) && off < 7+24; off++ {
					for _, v := range []byte{0, 1, 2, 0x7f, 0x80, 0xff, byte(rng.Intn(256))} {
						b := append([]byte{}, pkt...)
						b[off] = v
						mk(b, du)
					}
				}
				// 16-bit count/length fields forced to extremes: every aligned pair in the body
				for off := 7; off+1 < len(pkt) && off < 7+40; off++ {
					vals := []uint16{0, 1, 0xffff, 0x8000, uint16(len(pkt))}
					// counts whose product with an element size (13: qid, 2: shortest name) wraps just past a multiple of 2^16
					for k := 1; k <= 12; k += 1 + rng.Intn(3) {
						vals = append(vals, uint16((65536*k)/13+1), uint16((65536*k)/13+2))
					}
					vals = append(vals, 32768, 32769, 21846, 21847)
					for _, v := range vals {
						b := append([]byte{}, pkt...)
						b[off], b[off+1] = byte(v), byte(v>>8)
						mk(b, du)
					}
				}
				// trailing garbage inside the declared size
				b := append(append([]byte{}, pkt...), 1, 2, 3)
				put32(b, uint32(len(b)))
				mk(b, du)
			}
		}
	}
	// every type number, minimal and short bodies
	for ty := 0; ty < 256; ty++ {
		for _, blen := range []int{0, 1, 2, 4, 13, 20, 41, 49, 61} {
			for dotu := 0; dotu < 2; dotu++ {
				b := make([]byte, 7+blen)
				put32(b, uint32(len(b)))
				b[4] = byte(ty)
				for i := 7; i < len(b); i++ {
					b[i] = byte(rng.Intn(3))
				}
				mk(b, dotu == 1)
			}
		}
	}
	for i := 0; i < nrand; i++ {
		n := rng.Intn(80)
		b := make([]byte, n)
		for j := range b {
			b[j] = byte(rng.Intn(256))
		}
		if n >= 7 && i%2 == 0 {
			put32(b, uint32(n-rng.Intn(3)))
			b[4] = byte(100 + rng.Intn(28))
		}
		mk(b, i%2 == 1)
	}
	// stat records on their own: truncations and length-field mutations
	for r := 0; r < rounds; r++ {
		for dotu := 0; dotu < 2; dotu++ {
			du := dotu == 1
			d := genDir(4+r, false)
			pkt := go9p.PackDir(&d, du)
			for cut := 0; cut <= len(pkt); cut++ {
				emit("XD %d %s ; U %s", b2i(du), hx(pkt[:cut]), unpackDirStr(append([]byte{}, pkt[:cut]...), du))
			}
			for off := 0; off+1 < len(pkt); off++ {
				for _, v := range []uint16{0, 0xffff, uint16(len(pkt))} {
					b := append([]byte{}, pkt...)
					b[off], b[off+1] = byte(v), byte(v>>8)
					emit("XD %d %s ; U %s", b2i(du), hx(b), unpackDirStr(b, du))
				}
			}
			stat("decode.dirs", 1)
		}
	}
}
