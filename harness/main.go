// harness: drives the real go9p code (built from /repo's working tree, -tags verif)
// and prints what it observed, one case per line, for /verif/ocaml's modelcheck.
//
//	harness <mode> <tier> [args]     tier = quick | thorough ; seed from VERIF_SEED
//
// Lines starting with '#' are comments/statistics (#STAT key value) for the evidence file.
package main

import (
	"bufio"
	"fmt"
	"math/rand"
	"os"
	"sort"
	"strconv"
)

var out *bufio.Writer
var rng *rand.Rand
var seed int64
var stats = map[string]int{}

func stat(key string, n int) { stats[key] += n }

func emit(format string, a ...interface{}) {
	fmt.Fprintf(out, format, a...)
	out.WriteByte('\n')
}

type modeFn func(tier string, args []string)

var modes = map[string]modeFn{}

func main() {
	if len(os.Args) < 3 {
		fmt.Fprintln(os.Stderr, "usage: harness <mode> <tier> [args]")
		os.Exit(2)
	}
	seed = 1
	if s := os.Getenv("VERIF_SEED"); s != "" {
		if v, err := strconv.ParseInt(s, 10, 64); err == nil {
			seed = v
		}
	}
	rng = rand.New(rand.NewSource(seed))
	// the library prints diagnostics with fmt.Printf: keep them out of the case stream
	caseOut := os.Stdout
	os.Stdout = os.Stderr
	out = bufio.NewWriterSize(caseOut, 1<<20)
	defer out.Flush()
	f, ok := modes[os.Args[1]]
	if !ok {
		fmt.Fprintln(os.Stderr, "harness: unknown mode", os.Args[1])
		os.Exit(2)
	}
	f(os.Args[2], os.Args[3:])
	keys := make([]string, 0, len(stats))
	for k := range stats {
		keys = append(keys, k)
	}
	sort.Strings(keys)
	for _, k := range keys {
		emit("#STAT %s %d", k, stats[k])
	}
}
