// harness: drives the real go9p code (built from /repo's working tree, -tags verif)
// and prints what it observed, one case per line, for /verif/ocaml's modelcheck.
//
//	harness <mode> <tier> [args]     tier = quick | thorough ; seed from VERIF_SEED
//
// Lines starting with '#' are comments/statistics (#STAT key value) for the evidence file.
package main

import (
	"bufio"
	"fmt"
	"math/rand"
	"os"
	"os/signal"
	"sort"
	"strconv"
	"sync"
	"syscall"
	"time"
)

var out *bufio.Writer
var rng *rand.Rand
var seed int64
var stats = map[string]int{}

func stat(key string, n int) { stats[key] += n }

var outMu sync.Mutex
var lastFlush time.Time

// emit writes one case line. The stream is flushed at least once a second, so that what a run produced is
// on disk when the run is cut off by its time limit (the cases written until then are still judged).
func emit(format string, a ...interface{}) {
	outMu.Lock()
	fmt.Fprintf(out, format, a...)
	out.WriteByte('\n')
	if time.Since(lastFlush) > time.Second {
		out.Flush()
		lastFlush = time.Now()
	}
	outMu.Unlock()
}

type modeFn func(tier string, args []string)

var modes = map[string]modeFn{}

func main() {
	if len(os.Args) < 3 {
		fmt.Fprintln(os.Stderr, "usage: harness <mode> <tier> [args]")
		os.Exit(2)
	}
	seed = 1
	if s := os.Getenv("VERIF_SEED"); s != "" {
		if v, err := strconv.ParseInt(s, 10, 64); err == nil {
			seed = v
		}
	}
	rng = rand.New(rand.NewSource(seed))
	// the library prints diagnostics with fmt.Printf: keep them out of the case stream
	caseOut := os.Stdout
	os.Stdout = os.Stderr
	out = bufio.NewWriterSize(caseOut, 1<<20)
	defer out.Flush()
	sig := make(chan os.Signal, 1)
	signal.Notify(sig, syscall.SIGTERM)
	go func() {
		<-sig
		outMu.Lock()
		out.Flush()
		os.Exit(124)
	}()
	f, ok := modes[os.Args[1]]
	if !ok {
		fmt.Fprintln(os.Stderr, "harness: unknown mode", os.Args[1])
		os.Exit(2)
	}
	f(os.Args[2], os.Args[3:])
	keys := make([]string, 0, len(stats))
	for k := range stats {
		keys = append(keys, k)
	}
	sort.Strings(keys)
	for _, k := range keys {
		emit("#STAT %s %d", k, stats[k])
	}
}
