package main

// ufsio / ufsdir: real client <-> real server framework <-> Ufs on a scratch tree.
//
//	IO <msize> <dotu> <iounit> <file0hex> <nops> { <op> => <out> V <0|1> }* ; FINAL <filehex> V <0|1>
//	   op: R off cnt | N off n | S n | W off hex | X off hex | Q hex     out: D hex | C n | EOF | ERR
//	   V: the harness' own comparison with the underlying file through the os package (oracle)
//	DIR <dotu> <msize> <nent> <size>*nent CNT <count> CH <k> {<off> <n>}*k END <OK|TOOSMALL|BADOFFSET|ERR|PANIC> NAMES <0|1>
//	DIRX <dotu> <nent> <size>*nent OFF <off> CNT <cnt> => <OK n|TOOSMALL|BADOFFSET|ERR> ALIVE <0|1>
//	RDDIR <dotu> <msize> <nent> NAMES <0|1> COUNT <n>

import (
	"bytes"
	"fmt"
	"io"
	"math/rand"
	"net"
	"os"
	"path/filepath"
	"sort"
	"strings"
	"sync"
	"sync/atomic"

	go9p "github.com/rminnich/go9p"
)

func init() { modes["ufsio"] = modeUfsIO; modes["ufsdir"] = modeUfsDir }

var scratchRoot string

func scratch() string {
	if scratchRoot == "" {
		base := os.Getenv("VERIF_OUT")
		if base == "" {
			base = "/verif/out"
		}
		_ = os.MkdirAll(base, 0o755)
		d, err := os.MkdirTemp(base, "tmp.ufs.")
		if err != nil {
			panic(err)
		}
		scratchRoot = d
	}
	return scratchRoot
}

func cleanupScratch() {
	if scratchRoot != "" {
		_ = os.RemoveAll(scratchRoot)
	}
}

type ufsSession struct {
	ufs  *go9p.Ufs
	clnt *go9p.Clnt
	root string
}

func newUfsSession(root string, msize uint32, dotu bool) (*ufsSession, error) {
	return newUfsSessionM(root, 1<<20, msize, dotu)
}

// the server offers srvMsize, the client proposes msize: the smaller one is in force
func newUfsSessionM(root string, srvMsize, msize uint32, dotu bool) (*ufsSession, error) {
	u := new(go9p.Ufs)
	u.Root = root
	u.Dotu = true
	u.Msize = srvMsize
	u.Id = "ufs"
	u.Log = sharedLogger()
	if !u.Start(u) {
		return nil, fmt.Errorf("start failed")
	}
	c1, c2 := net.Pipe()
	u.NewConn(c2)
	user := go9p.OsUsers.Uid2User(os.Getuid())
	clnt, err := go9p.Connect(c1, msize, dotu)
	if err != nil {
		return nil, err
	}
	fid, err := clnt.Attach(nil, user, "")
	if err != nil {
		return nil, err
	}
	clnt.Root = fid
	return &ufsSession{u, clnt, root}, nil
}

func (s *ufsSession) close() { s.clnt.Unmount() }

func clip(b []byte, off, n uint64) []byte {
	if off >= uint64(len(b)) {
		return nil
	}
	end := off + n
	if end > uint64(len(b)) || end < off {
		end = uint64(len(b))
	}
	return b[off:end]
}

func posixWrite(file []byte, off uint64, data []byte) []byte {
	if len(data) == 0 {
		return file
	}
	out := append([]byte{}, file...)
	for uint64(len(out)) < off {
		out = append(out, 0)
	}
	for i, b := range data {
		p := off + uint64(i)
		if p < uint64(len(out)) {
			out[p] = b
		} else {
			out = append(out, b)
		}
	}
	return out
}

func randBytes(n int) []byte {
	b := make([]byte, n)
	for i := range b {
		b[i] = byte(rng.Intn(256))
	}
	return b
}

func modeUfsIO(tier string, args []string) {
	defer cleanupScratch()
	ncases := 160
	if tier == "thorough" {
		ncases = 1500
	}
	root := scratch()
	for c := 0; c < ncases; c++ {
		msize := []uint32{128, 256, 1000, 4096, 8192, 65536}[c%6]
		dotu := c%2 == 0
		iou := int(msize) - 24
		var flen int
		switch c % 9 {
		case 0:
			flen = 0
		case 1:
			flen = 1
		case 2:
			flen = iou - 1
		case 3:
			flen = iou
		case 4:
			flen = iou + 1
		case 5:
			flen = 3*iou - 1
		case 6:
			flen = 2*iou + 1
		default:
			flen = rng.Intn(3*iou + 10)
		}
		if flen > 150000 {
			flen = 150000 + rng.Intn(100)
		}
		if tier == "quick" && flen > 30000 && c%12 != 5 {
			flen = 30000 + rng.Intn(100)
		}
		content := randBytes(flen)
		name := fmt.Sprintf("f%d", c)
		path := filepath.Join(root, name)
		if err := os.WriteFile(path, content, 0o644); err != nil {
			panic(err)
		}
		// a second file open at the same time (many files open at once)
		other := filepath.Join(root, name+".other")
		_ = os.WriteFile(other, []byte("other file, must not change"), 0o644)
		// in every fourth case it is the SERVER that lowers msize: the client proposes 64 KiB
		var s *ufsSession
		var err error
		if c%4 == 3 && msize < 65536 {
			s, err = newUfsSessionM(root, msize, 65536, dotu)
			stat("ufsio.server_lowers_msize", 1)
		} else {
			s, err = newUfsSession(root, msize, dotu)
		}
		if err != nil {
			emit("IO %d %d 0 - 0 ; FINAL - V 0", msize, b2i(dotu))
			continue
		}
		// in every fifth case the file is opened through a symbolic link inside the tree (Lstat of
		// the fid's path then describes the link, not the file the descriptor is open on)
		openName := name
		if c%5 == 2 && os.Symlink(name, path+".lnk") == nil {
			openName = name + ".lnk"
			stat("ufsio.opened_through_symlink", 1)
		}
		f, err := s.clnt.FOpen(openName, go9p.ORDWR)
		f2, err2 := s.clnt.FOpen(name+".other", go9p.ORDWR)
		if err != nil || err2 != nil {
			emit("IO %d %d 0 - 0 ; FINAL - V 0", msize, b2i(dotu))
			s.close()
			continue
		}
		iounit := f.Fid.Iounit
		// far offsets: a read at or beyond 2^32 of a file shorter than that returns no data (the 64-bit offset
		// travels whole), in both directions of the codec
		if c%4 == 1 {
			farOK := true
			for _, off := range []uint64{1 << 32, 1<<32 + 5, 1<<40 + uint64(flen/2), 1<<62 + 1} {
				b, err := s.clnt.Read(f.Fid, off, 16)
				if err != nil || len(b) != 0 {
					farOK = false
				}
			}
			emit("IOFAR %d %d %d SAME %d", msize, b2i(dotu), flen, b2i(farOK))
			stat("ufsio.far_offset_cases", 1)
		}
		// several goroutines read one open file at the same time (io.ReaderAt allows it): positional reads
		if flen > 64 && c%3 == 0 {
			// ... after one read that the server refused (the file behind a second open fid is gone): a refused
			// call must not disturb the calls that follow
			if gone, err := s.clnt.FOpen(name+".other", go9p.OREAD); err == nil {
				_ = os.Rename(other, other+".away")
				_, _ = s.clnt.Read(gone.Fid, 0, 8)
				_ = os.Rename(other+".away", other)
				_ = gone.Close()
			}
			var wg sync.WaitGroup
			var bad int32
			for g := 0; g < 6; g++ {
				wg.Add(1)
				seedg := int64(c*131 + g)
				go func() {
					defer wg.Done()
					lr := rand.New(rand.NewSource(seedg))
					for k := 0; k < 6; k++ {
						off := lr.Intn(flen)
						cnt := 1 + lr.Intn(int(iounit))
						buf := make([]byte, cnt)
						n, _ := f.ReadAt(buf, int64(off))
						want := content[off:]
						if len(want) > cnt {
							want = want[:cnt]
						}
						if n != len(want) || !bytes.Equal(buf[:n], want) {
							atomic.AddInt32(&bad, 1)
						}
					}
				}()
			}
			wg.Wait()
			emit("IOC %d %d %d READS 36 WRONG %d", msize, b2i(dotu), flen, bad)
			stat("ufsio.concurrent_read_cases", 1)
		}
		var sb strings.Builder
		nops := 6 + rng.Intn(10)
		cur := append([]byte{}, content...)
		seqOff := uint64(0) // where File.Read / File.Write must be, by the helpers' contract
		pickOff := func() uint64 {
			switch rng.Intn(6) {
			case 0:
				return 0
			case 1:
				return uint64(len(cur))
			case 2:
				return uint64(len(cur)) + uint64(rng.Intn(50))
			case 3:
				if len(cur) > 0 {
					return uint64(len(cur) - 1)
				}
				return 0
			default:
				return uint64(rng.Intn(len(cur) + 1))
			}
		}
		pickCnt := func() int {
			switch rng.Intn(6) {
			case 0:
				return 0
			case 1:
				return iou
			case 2:
				return iou + 1 + rng.Intn(3*iou)
			case 3:
				return 1
			default:
				return rng.Intn(2*iou + 2)
			}
		}
		for i := 0; i < nops; i++ {
			switch rng.Intn(6) {
			case 0: // Clnt.Read
				off, cnt := pickOff(), pickCnt()
				d, err := s.clnt.Read(f.Fid, off, uint32(cnt))
				disk, _ := os.ReadFile(path)
				want := clip(disk, off, uint64(min(cnt, int(iounit))))
				if err != nil {
					fmt.Fprintf(&sb, " R %d %d => ERR V 0", off, cnt)
				} else {
					fmt.Fprintf(&sb, " R %d %d => D %s V %d", off, cnt, hx(d), b2i(bytes.Equal(d, want)))
				}
			case 1: // File.Readn
				off, n := pickOff(), pickCnt()
				buf := make([]byte, n)
				got, err := f.Readn(buf, off)
				disk, _ := os.ReadFile(path)
				want := clip(disk, off, uint64(n))
				if err != nil {
					fmt.Fprintf(&sb, " N %d %d => ERR V 0", off, n)
				} else {
					fmt.Fprintf(&sb, " N %d %d => D %s V %d", off, n, hx(buf[:got]), b2i(bytes.Equal(buf[:got], want) && got == len(want)))
				}
			case 2: // File.Read (sequential)
				n := pickCnt()
				buf := make([]byte, n)
				got, err := f.Read(buf)
				disk, _ := os.ReadFile(path)
				want := clip(disk, seqOff, uint64(min(n, int(iounit))))
				if err == io.EOF {
					fmt.Fprintf(&sb, " S %d => EOF V %d", n, b2i(len(want) == 0))
				} else if err != nil {
					fmt.Fprintf(&sb, " S %d => ERR V 0", n)
				} else {
					fmt.Fprintf(&sb, " S %d => D %s V %d", n, hx(buf[:got]), b2i(bytes.Equal(buf[:got], want)))
					seqOff += uint64(got)
				}
			case 3: // Clnt.Write
				off := pickOff()
				data := randBytes(pickCnt())
				n, err := s.clnt.Write(f.Fid, data, off)
				disk, _ := os.ReadFile(path)
				if err != nil {
					fmt.Fprintf(&sb, " W %d %s => ERR V 0", off, hx(data))
				} else {
					want := posixWrite(cur, off, data[:min(n, len(data))])
					fmt.Fprintf(&sb, " W %d %s => C %d V %d", off, hx(data), n, b2i(bytes.Equal(disk, want) && n == min(len(data), int(iounit))))
					cur = disk
				}
			case 4: // File.Written
				off := pickOff()
				data := randBytes(pickCnt())
				n, err := f.Written(data, off)
				disk, _ := os.ReadFile(path)
				if err != nil {
					fmt.Fprintf(&sb, " X %d %s => ERR V 0", off, hx(data))
				} else {
					want := posixWrite(cur, off, data)
					fmt.Fprintf(&sb, " X %d %s => C %d V %d", off, hx(data), n, b2i(bytes.Equal(disk, want) && n == len(data)))
					cur = disk
				}
			default: // File.Write (sequential)
				data := randBytes(pickCnt())
				n, err := f.Write(data)
				disk, _ := os.ReadFile(path)
				if err != nil {
					fmt.Fprintf(&sb, " Q %s => ERR V 0", hx(data))
				} else {
					want := posixWrite(cur, seqOff, data[:min(n, len(data))])
					fmt.Fprintf(&sb, " Q %s => C %d V %d", hx(data), n, b2i(bytes.Equal(disk, want) && n == min(len(data), int(iounit))))
					seqOff += uint64(n)
					cur = disk
				}
			}
		}
		// read the whole file chunk by chunk KEEPING the slices Clnt.Read returns, join them afterwards
		keepOK := true
		{
			var kept [][]byte
			off := uint64(0)
			for {
				d, err := s.clnt.Read(f.Fid, off, iounit)
				if err != nil || len(d) == 0 {
					break
				}
				kept = append(kept, d)
				off += uint64(len(d))
			}
			// more traffic on the connection before the slices are looked at
			for i := 0; i < 10; i++ {
				_, _ = s.clnt.Read(f2.Fid, 0, 16)
			}
			disk, _ := os.ReadFile(path)
			var joined []byte
			for _, k := range kept {
				joined = append(joined, k...)
			}
			keepOK = bytes.Equal(joined, disk)
		}
		final, _ := os.ReadFile(path)
		oth, _ := os.ReadFile(other)
		_ = f.Close()
		_ = f2.Close()
		s.close()
		emit("IO %d %d %d %s %d%s ; FINAL %s V %d KEEP %d", msize, b2i(dotu), iounit, hx(content), nops, sb.String(), hx(final),
			b2i(string(oth) == "other file, must not change"), b2i(keepOK))
		_ = os.Remove(path)
		_ = os.Remove(other)
		_ = os.Remove(path + ".lnk")
		stat("ufsio.cases", 1)
		stat("ufsio.ops", nops)
	}
}

// ---------------- directories ----------------
func decodeEntries(b []byte, dotu bool) (names []string, sizes []int, ok bool) {
	for len(b) > 0 {
		d, _, amt, err := go9p.UnpackDir(b, dotu)
		if err != nil || amt <= 0 || amt > len(b) || int(d.Size)+2 != amt {
			return names, sizes, false
		}
		names = append(names, d.Name)
		sizes = append(sizes, amt)
		b = b[amt:]
	}
	return names, sizes, true
}

func rawRead(s *ufsSession, fid *go9p.Fid, off uint64, cnt uint32) ([]byte, string) {
	tc := s.clnt.NewFcall()
	if err := go9p.PackTread(tc, fid.Fid, off, cnt); err != nil {
		return nil, "ERR"
	}
	rc, err := s.clnt.Rpc(tc)
	if err != nil {
		e := err.Error()
		switch {
		case strings.Contains(e, "too small read size"):
			return nil, "TOOSMALL"
		case strings.Contains(e, "bad offset"):
			return nil, "BADOFFSET"
		default:
			return nil, "ERR"
		}
	}
	return rc.Data, "OK"
}

func sameSet(a, b []string) bool {
	if len(a) != len(b) {
		return false
	}
	x := append([]string{}, a...)
	y := append([]string{}, b...)
	sort.Strings(x)
	sort.Strings(y)
	for i := range x {
		if x[i] != y[i] {
			return false
		}
	}
	return true
}

func modeUfsDir(tier string, args []string) {
	defer cleanupScratch()
	root := scratch()
	entCounts := []int{0, 1, 2, 5, 50}
	if tier == "thorough" {
		entCounts = []int{0, 1, 2, 3, 5, 17, 50, 300, 5000}
	}
	dn := 0
	for _, nent := range entCounts {
		for dotu := 0; dotu < 2; dotu++ {
			du := dotu == 1
			dn++
			dname := fmt.Sprintf("d%d", dn)
			dpath := filepath.Join(root, dname)
			_ = os.Mkdir(dpath, 0o755)
			var want []string
			for i := 0; i < nent; i++ {
				l := 1 + rng.Intn(12)
				if i%7 == 3 {
					l = 200 + rng.Intn(56)
				}
				nm := fmt.Sprintf("%d", i)
				for len(nm) < l {
					nm += string(rune('a' + rng.Intn(26)))
				}
				if i%3 == 0 {
					_ = os.Mkdir(filepath.Join(dpath, nm), 0o755)
				} else {
					_ = os.WriteFile(filepath.Join(dpath, nm), []byte("x"), 0o644)
				}
				want = append(want, nm)
			}
			for _, msize := range []uint32{512, 4096, 65536} {
				if nent >= 300 && msize == 512 && tier != "thorough" {
					continue
				}
				s, err := newUfsSession(root, msize, du)
				if err != nil {
					emit("DIR %d %d %d CNT 0 CH 0 END ERR NAMES 0", b2i(du), msize, nent)
					continue
				}
				fid, err := s.clnt.FWalk(dname)
				if err == nil {
					err = s.clnt.Open(fid, go9p.OREAD)
				}
				if err != nil {
					emit("DIR %d %d %d CNT 0 CH 0 END ERR NAMES 0", b2i(du), msize, nent)
					s.close()
					continue
				}
				iounit := int(fid.Iounit)
				// reference listing with the largest count: entry sizes
				var allb []byte
				off := uint64(0)
				for {
					d, st := rawRead(s, fid, off, uint32(iounit))
					if st != "OK" || len(d) == 0 {
						break
					}
					allb = append(allb, d...)
					off += uint64(len(d))
				}
				names, sizes, ok := decodeEntries(allb, du)
				szs := ""
				maxsz := 0
				for _, z := range sizes {
					szs += fmt.Sprintf(" %d", z)
					if z > maxsz {
						maxsz = z
					}
				}
				emit("DIR %d %d %d%s CNT %d CH 0 END REF NAMES %d", b2i(du), msize, len(sizes), szs, iounit, b2i(ok && sameSet(names, want)))
				// listings with many counts, following the offset rule
				var counts []int
				if nent <= 5 {
					for c := maxsz; c <= maxsz*3+10 && c <= iounit; c++ {
						counts = append(counts, c)
					}
				} else {
					for k := 0; k < 25; k++ {
						counts = append(counts, maxsz+rng.Intn(3*maxsz+1))
					}
					counts = append(counts, maxsz, maxsz+1, iounit)
				}
				// too-small counts
				if maxsz > 0 {
					counts = append(counts, maxsz-1, 1, 0, sizes[0]-1)
				}
				for _, c := range counts {
					if c > iounit || c < 0 {
						continue
					}
					var got []byte
					var chunks []string
					off := uint64(0)
					end := "OK"
					for iter := 0; iter < len(sizes)+3; iter++ {
						d, st := rawRead(s, fid, off, uint32(c))
						if st != "OK" {
							end = st
							break
						}
						if len(d) == 0 {
							break
						}
						chunks = append(chunks, fmt.Sprintf("%d %d", off, len(d)))
						got = append(got, d...)
						off += uint64(len(d))
					}
					gn, _, gok := decodeEntries(got, du)
					namesOK := gok && (end != "OK" || sameSet(gn, want))
					if end != "OK" {
						// what was returned before the error must still be whole entries, a prefix of the listing
						namesOK = gok && len(gn) <= len(names) && sameSet(gn, names[:len(gn)])
					}
					emit("DIR %d %d %d%s CNT %d CH %d %s END %s NAMES %d", b2i(du), msize, len(sizes), szs, c, len(chunks), strings.Join(chunks, " "), end, b2i(namesOK))
					stat("ufsdir.listings", 1)
				}
				// restart at offset 0 mid-listing
				if len(sizes) > 2 {
					d1, _ := rawRead(s, fid, 0, uint32(maxsz))
					_, _ = rawRead(s, fid, uint64(len(d1)), uint32(maxsz))
					d3, st3 := rawRead(s, fid, 0, uint32(maxsz))
					emit("DIRR %d %d %d RESTART %s SAME %d", b2i(du), msize, len(sizes), st3, b2i(bytes.Equal(d1, d3) && len(d3) > 0))
				}
				// arbitrary offsets: past the end, inside an entry, on a boundary
				total := len(allb)
				var offs []int
				offs = append(offs, total, total+1, total+1000, 1, 2)
				acc := 0
				for i, z := range sizes {
					if i > 6 {
						break
					}
					offs = append(offs, acc+z, acc+z-1, acc+z+1, acc+z/2)
					acc += z
				}
				for _, o := range offs {
					if o < 0 {
						continue
					}
					for _, c := range []int{0, maxsz, iounit} {
						d, st := rawRead(s, fid, uint64(o), uint32(c))
						res := st
						if st == "OK" {
							res = fmt.Sprintf("OK %d", len(d))
						}
						// the server must still be alive
						_, err := s.clnt.Stat(fid)
						emit("DIRX %d %d%s OFF %d CNT %d => %s ALIVE %d", b2i(du), len(sizes), szs, o, c, res, b2i(err == nil))
						stat("ufsdir.offsets", 1)
					}
				}
				// the directory changes while the fid stays open: reading again from offset 0 lists the new content
				if nent >= 2 && nent <= 80 {
					ents, _ := os.ReadDir(dpath)
					for i, e := range ents {
						if i%3 == 0 {
							_ = os.Remove(filepath.Join(dpath, e.Name()))
						}
					}
					for i := 0; i < 3; i++ {
						_ = os.WriteFile(filepath.Join(dpath, fmt.Sprintf("added-%d-%s", i, strings.Repeat("z", 3+19*i))), nil, 0o644)
					}
					ents, _ = os.ReadDir(dpath)
					want = want[:0]
					for _, e := range ents {
						want = append(want, e.Name())
					}
					var got []byte
					off := uint64(0)
					st := "OK"
					for iter := 0; iter < len(want)+3; iter++ {
						var d []byte
						d, st = rawRead(s, fid, off, uint32(iounit))
						if st != "OK" || len(d) == 0 {
							break
						}
						got = append(got, d...)
						off += uint64(len(d))
					}
					gn, _, gok := decodeEntries(got, du)
					emit("DIRR %d %d %d RELIST %s SAME %d", b2i(du), msize, len(want), st, b2i(st == "OK" && gok && sameSet(gn, want)))
					stat("ufsdir.relist_after_change", 1)
				}
				_ = s.clnt.Clunk(fid)
				// the client's Readdir(0)
				f, err := s.clnt.FOpen(dname, go9p.OREAD)
				if err == nil {
					dirs, err := f.Readdir(0)
					var rn []string
					for _, d := range dirs {
						rn = append(rn, d.Name)
					}
					emit("RDDIR %d %d %d NAMES %d COUNT %d", b2i(du), msize, nent, b2i(err == nil && sameSet(rn, want)), len(dirs))
					_ = f.Close()
				} else {
					emit("RDDIR %d %d %d NAMES 0 COUNT 0", b2i(du), msize, nent)
				}
				s.close()
			}
			_ = os.RemoveAll(dpath)
		}
	}
	// an entry that does not fit into one reply: the server answers with an error, and the client's
	// Readdir reports it - it must not present the entries read so far as the complete listing
	for _, du := range []bool{false, true} {
		for _, pos := range []int{0, 7, 15} {
			dname := fmt.Sprintf("small%d%d", b2i(du), pos)
			dpath := filepath.Join(root, dname)
			_ = os.MkdirAll(dpath, 0o755)
			for i := 0; i < 16; i++ {
				nm := fmt.Sprintf("e%02d", i)
				if i == pos {
					nm = fmt.Sprintf("e%02d-", i) + strings.Repeat("L", 235)
				}
				_ = os.WriteFile(filepath.Join(dpath, nm), nil, 0o644)
			}
			s, err := newUfsSession(root, 280, du)
			if err != nil {
				continue
			}
			rerr := false
			if f, err := s.clnt.FOpen(dname, go9p.OREAD); err == nil {
				dirs, err := f.Readdir(0)
				rerr = err != nil
				emit("RDSMALL %d %d %d ERR %d COUNT %d", b2i(du), 280, pos, b2i(rerr), len(dirs))
				_ = f.Close()
			}
			s.close()
			_ = os.RemoveAll(dpath)
			stat("ufsdir.too_small_cases", 1)
		}
	}
}
