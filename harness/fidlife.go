package main

// fidlife: life time of server-side fids with requests in flight at a disconnect.
// A scripted implementation holds chosen requests before the framework processes them
// (SrvReqProcessOps) or inside their handler, the client disconnects, the held requests
// are released in a random order and answered with success or error. Every *SrvFid the
// implementation was shown must be reported destroyed exactly once when everything is
// quiet. The library's fid schedule points (verif tag) are logged under one mutex and
// replayed through the Coq model Srv/FidRef.v by modelcheck.
//
//   FL <nlabels> <label>* ; OBJ <n> {<id> <num> <destroys>}*n ; UNK <k> ; Q <0|1> ; NOTE <text>
// labels: N <id> <num> | K <id> | G <id> <rc> <refused> | R <id> <rc> <linked> | UR <id> <rc> <linked>
//         | UC <id> <rc> <linked> | DO <id> <rc> | DH <id> <rc> | I <id> <rc> | X <id> | C

import (
	"fmt"
	"net"
	"strings"
	"sync"
	"time"

	go9p "github.com/rminnich/go9p"
)

func init() { modes["fidlife"] = modeFidlife }

type lifeHold struct {
	pre, in bool // hold before Process / inside the handler
	ok      bool // answer with success
}

type lifeOps struct {
	go9p.Srv
	mu        sync.Mutex
	labels    []string
	ids       map[*go9p.SrvFid]int // object ids in order of fid.new
	seen      map[*go9p.SrvFid]uint32
	destroys  map[*go9p.SrvFid]int
	unknown   int // fids destroyed that were never announced by fid.new
	closer    map[uint64]bool
	lastUnl   map[uint64]*go9p.SrvFid // goroutine -> fid it just unlinked (linked was true)
	plan      map[uint16]lifeHold
	gates     map[uint16]chan bool // tag -> release
	waiting   map[uint16]bool
	active    int // requests between SrvReqProcess entry and SrvReqRespond
	responded int
	closedCnt int
	traced    bool
}

func (o *lifeOps) hook(point string, obj interface{}, a, b uint32) {
	g := gid()
	o.mu.Lock()
	defer o.mu.Unlock()
	if point == "close.snapshot" || strings.HasPrefix(point, "fid.") {
		o.traced = true
	}
	if point == "close.snapshot" {
		o.closer[g] = true
		o.labels = append(o.labels, "C")
		return
	}
	fid, ok := obj.(*go9p.SrvFid)
	if !ok {
		return
	}
	id, known := o.ids[fid]
	if point == "fid.new" {
		id = len(o.ids)
		o.ids[fid] = id
		o.labels = append(o.labels, fmt.Sprintf("N %d %d", id, a))
		return
	}
	if !known {
		return
	}
	rc := int32(a)
	switch point {
	case "fid.lookup":
		o.labels = append(o.labels, fmt.Sprintf("K %d", id))
	case "fid.incref":
		o.labels = append(o.labels, fmt.Sprintf("I %d %d", id, rc))
	case "fid.getinc":
		o.labels = append(o.labels, fmt.Sprintf("G %d %d %d", id, rc, b))
	case "fid.retain":
		o.labels = append(o.labels, fmt.Sprintf("R %d %d %d", id, rc, b))
	case "fid.unlink":
		k := "UR"
		if o.closer[g] {
			k = "UC"
		}
		o.labels = append(o.labels, fmt.Sprintf("%s %d %d %d", k, id, rc, b))
		if b == 1 {
			o.lastUnl[g] = fid
		}
	case "fid.decref":
		if o.lastUnl[g] == fid {
			delete(o.lastUnl, g)
			o.labels = append(o.labels, fmt.Sprintf("DO %d %d", id, rc))
		} else {
			o.labels = append(o.labels, fmt.Sprintf("DH %d %d", id, rc))
		}
	case "fid.destroy":
		o.labels = append(o.labels, fmt.Sprintf("X %d", id))
	}
}

func (o *lifeOps) note(f *go9p.SrvFid) {
	if f == nil {
		return
	}
	o.mu.Lock()
	o.seen[f] = go9p.VerifFidNum(f)
	o.mu.Unlock()
}

func (o *lifeOps) gate(tag uint16) {
	o.mu.Lock()
	ch := o.gates[tag]
	o.waiting[tag] = true
	o.mu.Unlock()
	if ch != nil {
		<-ch
	}
}

func (o *lifeOps) SrvReqProcess(r *go9p.SrvReq) {
	o.mu.Lock()
	o.active++
	h := o.plan[r.Tc.Tag]
	o.mu.Unlock()
	if h.pre {
		o.gate(r.Tc.Tag)
	}
	r.Process()
}

func (o *lifeOps) SrvReqRespond(r *go9p.SrvReq) {
	r.PostProcess()
	o.mu.Lock()
	o.responded++
	o.mu.Unlock()
}

func (o *lifeOps) handle(r *go9p.SrvReq, okf func()) {
	o.note(r.Fid)
	o.note(r.Newfid)
	o.note(r.Afid)
	o.mu.Lock()
	h := o.plan[r.Tc.Tag]
	o.mu.Unlock()
	if h.in {
		o.gate(r.Tc.Tag)
	}
	if h.ok {
		okf()
	} else {
		r.RespondError(&go9p.Error{Err: "scripted failure", Errornum: go9p.EIO})
	}
}

var lifeQid = go9p.Qid{Type: go9p.QTDIR, Path: 1}

func (o *lifeOps) Attach(r *go9p.SrvReq) { o.handle(r, func() { r.RespondRattach(&lifeQid) }) }
func (o *lifeOps) Walk(r *go9p.SrvReq) {
	o.handle(r, func() {
		qs := make([]go9p.Qid, len(r.Tc.Wname))
		for i := range qs {
			qs[i] = lifeQid
		}
		r.RespondRwalk(qs)
	})
}
func (o *lifeOps) Open(r *go9p.SrvReq)   { o.handle(r, func() { r.RespondRopen(&lifeQid, 0) }) }
func (o *lifeOps) Create(r *go9p.SrvReq) { o.handle(r, func() { r.RespondRcreate(&lifeQid, 0) }) }
func (o *lifeOps) Read(r *go9p.SrvReq)   { o.handle(r, func() { r.RespondRread(nil) }) }
func (o *lifeOps) Write(r *go9p.SrvReq)  { o.handle(r, func() { r.RespondRwrite(0) }) }
func (o *lifeOps) Clunk(r *go9p.SrvReq)  { o.handle(r, func() { r.RespondRclunk() }) }
func (o *lifeOps) Remove(r *go9p.SrvReq) { o.handle(r, func() { r.RespondRremove() }) }
func (o *lifeOps) Stat(r *go9p.SrvReq) {
	o.handle(r, func() { r.RespondRstat(&go9p.Dir{Qid: lifeQid, Name: "x", Uid: "u", Gid: "g", Muid: "m"}) })
}
func (o *lifeOps) Wstat(r *go9p.SrvReq) { o.handle(r, func() { r.RespondRwstat() }) }
func (o *lifeOps) FidDestroy(f *go9p.SrvFid) {
	o.mu.Lock()
	o.destroys[f]++
	if _, ok := o.ids[f]; !ok && o.traced {
		o.unknown++
	}
	o.mu.Unlock()
}
func (o *lifeOps) ConnOpened(c *go9p.Conn) {}
func (o *lifeOps) ConnClosed(c *go9p.Conn) {
	o.mu.Lock()
	o.closedCnt++
	o.mu.Unlock()
}

func lifeCase(caseNo int) {
	o := &lifeOps{ids: map[*go9p.SrvFid]int{}, seen: map[*go9p.SrvFid]uint32{}, destroys: map[*go9p.SrvFid]int{},
		closer: map[uint64]bool{}, lastUnl: map[uint64]*go9p.SrvFid{}, plan: map[uint16]lifeHold{}, gates: map[uint16]chan bool{}, waiting: map[uint16]bool{}}
	o.Msize, o.Dotu, o.Id, o.Log = 8192, true, "fidlife", sharedLogger()
	if !o.Start(o) {
		emit("HARNESSERROR start")
		return
	}
	hookTable.Store(&o.Srv, o.hook)
	defer hookTable.Delete(&o.Srv)
	c1, c2 := net.Pipe()
	o.NewConn(c2)
	notes := []string{}
	tag := uint16(0)
	send := func(m *gmsg, h lifeHold, wait bool) bool {
		tag++
		t := tag
		if m.kind == go9p.Tversion {
			t = go9p.NOTAG
		}
		o.mu.Lock()
		o.plan[t] = h
		if h.pre || h.in {
			o.gates[t] = make(chan bool)
		}
		o.mu.Unlock()
		f := ccFrame(m, true, t)
		c1.SetWriteDeadline(time.Now().Add(2 * time.Second))
		if _, err := c1.Write(f); err != nil {
			notes = append(notes, "write-failed")
			return false
		}
		if wait {
			if r, _ := readFrameT(c1, 2*time.Second); r == nil {
				notes = append(notes, "no-reply-in-setup")
				return false
			}
		}
		return true
	}
	okh := lifeHold{ok: true}
	// phase 1: fids in several states, one request at a time
	send(&gmsg{kind: go9p.Tversion, a: 8192, s1: []byte("9P2000.u")}, okh, true)
	send(&gmsg{kind: go9p.Tattach, a: 1, b: uint64(go9p.NOFID), s1: []byte("u"), s2: []byte("")}, okh, true)
	nfid := uint64(2)
	existing := []uint64{1}
	for i := 0; i < rng.Intn(4); i++ {
		send(&gmsg{kind: go9p.Twalk, a: 1, b: nfid, names: [][]byte{[]byte("a")}[:rng.Intn(2)]}, okh, true)
		existing = append(existing, nfid)
		if rng.Intn(2) == 0 {
			send(&gmsg{kind: go9p.Topen, a: nfid, b: 0}, okh, true)
		}
		nfid++
	}
	// phase 2: requests held in flight
	nheld := rng.Intn(5)
	var heldTags []uint16
	pick := func() uint64 { return existing[rng.Intn(len(existing))] }
	for i := 0; i < nheld; i++ {
		h := lifeHold{ok: rng.Intn(4) != 0}
		if rng.Intn(3) == 0 {
			h.pre = true
		} else {
			h.in = true
		}
		var m *gmsg
		switch rng.Intn(7) {
		case 0, 1:
			m = &gmsg{kind: go9p.Twalk, a: pick(), b: nfid, names: [][]byte{[]byte("a")}[:rng.Intn(2)]}
			nfid++
		case 2:
			m = &gmsg{kind: go9p.Tattach, a: nfid, b: uint64(go9p.NOFID), s1: []byte("u"), s2: []byte("")}
			nfid++
		case 3:
			m = &gmsg{kind: go9p.Tclunk, a: pick()}
		case 4:
			m = &gmsg{kind: go9p.Tremove, a: pick()}
		case 5:
			m = &gmsg{kind: go9p.Tstat, a: pick()}
		default:
			f := pick()
			m = &gmsg{kind: go9p.Twalk, a: f, b: f, names: nil}
		}
		if send(m, h, false) {
			heldTags = append(heldTags, tag)
		}
	}
	// wait until every held request is parked at its gate
	deadline := time.Now().Add(2 * time.Second)
	for time.Now().Before(deadline) {
		o.mu.Lock()
		n := 0
		for _, t := range heldTags {
			if o.waiting[t] {
				n++
			}
		}
		o.mu.Unlock()
		if n == len(heldTags) {
			break
		}
		time.Sleep(200 * time.Microsecond)
	}
	// phase 3: a few of them are released before the disconnect, the rest after
	rng.Shuffle(len(heldTags), func(i, j int) { heldTags[i], heldTags[j] = heldTags[j], heldTags[i] })
	nbefore := 0
	if len(heldTags) > 0 {
		nbefore = rng.Intn(len(heldTags) + 1)
		if rng.Intn(2) == 0 {
			nbefore = 0
		}
	}
	release := func(t uint16) {
		o.mu.Lock()
		ch := o.gates[t]
		delete(o.gates, t)
		o.mu.Unlock()
		if ch != nil {
			close(ch)
		}
	}
	go func() { // drain replies
		buf := make([]byte, 65536)
		for {
			if _, err := c1.Read(buf); err != nil {
				return
			}
		}
	}()
	for _, t := range heldTags[:nbefore] {
		release(t)
	}
	if nbefore > 0 && rng.Intn(2) == 0 {
		time.Sleep(time.Duration(rng.Intn(300)) * time.Microsecond)
	}
	c1.Close()
	// ConnClosed seen?
	deadline = time.Now().Add(2 * time.Second)
	for time.Now().Before(deadline) {
		o.mu.Lock()
		cc := o.closedCnt
		o.mu.Unlock()
		if cc > 0 {
			break
		}
		time.Sleep(200 * time.Microsecond)
	}
	for _, t := range heldTags[nbefore:] {
		if rng.Intn(3) == 0 {
			time.Sleep(time.Duration(rng.Intn(200)) * time.Microsecond)
		}
		release(t)
	}
	// quiescence: every request that entered SrvReqProcess has been responded, and nothing moves any more
	quiet := 0
	deadline = time.Now().Add(3 * time.Second)
	lastLen := -1
	for time.Now().Before(deadline) {
		o.mu.Lock()
		a, r, n := o.active, o.responded, len(o.labels)
		o.mu.Unlock()
		if a == r && n == lastLen {
			quiet++
			if quiet >= 5 {
				break
			}
		} else {
			quiet = 0
		}
		lastLen = n
		time.Sleep(2 * time.Millisecond)
	}
	o.mu.Lock()
	defer o.mu.Unlock()
	q := 0
	if quiet >= 5 && o.closedCnt == 1 {
		q = 1
	} else {
		notes = append(notes, fmt.Sprintf("not-quiet active=%d responded=%d closed=%d", o.active, o.responded, o.closedCnt))
	}
	var sb strings.Builder
	fmt.Fprintf(&sb, "FL %d", len(o.labels))
	for _, l := range o.labels {
		sb.WriteString(" " + l)
	}
	// objects: the traced ones by id; untraced builds: the ones the implementation saw
	type ob struct {
		id, d int
		num   uint32
	}
	var obs []ob
	if o.traced {
		obs = make([]ob, len(o.ids))
		for f, id := range o.ids {
			obs[id] = ob{id, o.destroys[f], go9p.VerifFidNum(f)}
		}
	} else {
		i := 0
		for f, num := range o.seen {
			obs = append(obs, ob{i, o.destroys[f], num})
			i++
		}
	}
	fmt.Fprintf(&sb, " ; OBJ %d", len(obs))
	for _, x := range obs {
		fmt.Fprintf(&sb, " %d %d %d", x.id, x.num, x.d)
	}
	fmt.Fprintf(&sb, " ; UNK %d ; Q %d ; T %d ; NOTE %s", o.unknown, q, b2i(o.traced), strings.Join(notes, ","))
	emit("%s", sb.String())
	stat("fidlife.cases", 1)
	stat("fidlife.held_requests", nheld)
	stat("fidlife.released_after_disconnect", len(heldTags)-nbefore)
	stat("fidlife.objects", len(obs))
}

func modeFidlife(tier string, args []string) {
	n := 200
	if tier == "thorough" {
		n = 3000
	}
	for i := 0; i < n; i++ {
		lifeCase(i)
	}
}
