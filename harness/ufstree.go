package main

// ufstree: Ufs on scratch trees: confinement (C18), names/metadata (C16), mutations vs. a twin tree (C17).
//
//	UC <roothex> EX <n> <pathhex>*n OPS <k> { A <anamehex> => <pathhex|ERR> | W <frompathhex> <nnames> <namehex>* => <nq|ERR> <newpathhex|-> |
//	      C <dirpathhex> <namehex> <S targethex|F> => <pathhex|ERR> | R <pathhex> <namehex> => <pathhex|ERR> }*k ; SAFE <0|1> ; OUTSIDEQID <0|1>
//	US <dotu> <kind> <perm> <size> <mtime> <ino> <namehex> => <qtype> <qpath> <mode> <length> <mtime> <namehex> MATCH <0|1>
//	UW <depth> <pathhex> => OK <0|1>           (FWalk/FStat of a deep path agrees with os.Lstat)
//	UM <dotu> <nsteps> { <opname> <detail> => <OK|ERR ecode> TWIN <OK|ERR errno> SAME <0|1> }* ; FINALSAME <0|1>

import (
	"errors"
	"fmt"
	"io/fs"
	"net"
	"os"
	"path/filepath"
	"sort"
	"strings"
	"sync"
	"syscall"
	"time"

	go9p "github.com/rminnich/go9p"
)

func init() { modes["ufstree"] = modeUfsTree }

// spyUfs wraps the real Ufs to see which host path each fid designates.
type spyUfs struct {
	*go9p.Ufs
	mu    sync.Mutex
	paths map[uint32]string // fid number -> host path after the last operation on it
}

func (s *spyUfs) note(f *go9p.SrvFid) {
	if f == nil {
		return
	}
	s.mu.Lock()
	s.paths[go9p.VerifFidNum(f)] = go9p.VerifUfsFidPath(f)
	s.mu.Unlock()
}

// SrvReqProcessOps: SrvReqRespond runs inside Respond before the reply is queued,
// so the paths are recorded before the client can see the reply.
func (s *spyUfs) SrvReqProcess(r *go9p.SrvReq) { r.Process() }
func (s *spyUfs) SrvReqRespond(r *go9p.SrvReq) {
	s.note(r.Fid)
	s.note(r.Newfid)
	r.PostProcess()
}
func (s *spyUfs) pathOf(fid uint32) string {
	s.mu.Lock()
	defer s.mu.Unlock()
	return s.paths[fid]
}

type treeSession struct {
	spy  *spyUfs
	clnt *go9p.Clnt
	user go9p.User
}

func newTreeSession(root string, dotu bool) (*treeSession, error) {
	u := new(go9p.Ufs)
	u.Root = root
	u.Dotu = true
	u.Msize = 65536
	u.Id = "ufs"
	u.Log = sharedLogger()
	spy := &spyUfs{Ufs: u, paths: map[uint32]string{}}
	if !u.Start(spy) {
		return nil, fmt.Errorf("start failed")
	}
	c1, c2 := net.Pipe()
	u.NewConn(c2)
	clnt, err := go9p.Connect(c1, 65536, dotu)
	if err != nil {
		return nil, err
	}
	return &treeSession{spy, clnt, go9p.OsUsers.Uid2User(os.Getuid())}, nil
}

func (t *treeSession) rpc(m *gmsg) (*go9p.Fcall, error) {
	tc := t.clnt.NewFcall()
	if err := packInto(tc, m, t.clnt.Dotu); err != nil {
		return nil, err
	}
	return t.clnt.Rpc(tc)
}

func hxs(s string) string { return hx([]byte(s)) }

var nameGrammar = []string{"../root-private/canary", "../rootx", "../root-private/new", "/../root-private/canary", "..", ".", "", "/", "a", "b", "sub", "a/..", "a/../..", "../x", "../../x", "/../x", "/etc", "../canary", "..//..", "a/./b", "x y", "../outerdir", "sub/../../canary", "...", "..a", "a..", "/"}

// scripted choices for the first sessions: every escape route is tried with every outside target,
// whatever the seed (the random sessions follow)
type confPlan struct {
	aname string   // "" with attach=false: plain attach
	ops   []int    // 0 walk, 2 create, 3 rename
	names []string // consumed by the picks, in order
	exts  []string // link targets consumed by the creates (9P2000.u sessions)
}

var forcedNames []string
var forcedExts []string // targets of the symbolic links the scripted creates make
var forcedOps []int

func confinementPlans() []confPlan {
	var ps []confPlan
	targets := []string{"../rootx", "../root-private/canary", "../root-private/new", "/../rootx", "../canary", "../../x",
		"sub/../../canary", "..", "../outerdir", "../root-private", "a/../../root-private/canary", "/../root-private/canary"}
	for _, t := range targets {
		ps = append(ps, confPlan{aname: t})                                                          // attach name
		ps = append(ps, confPlan{ops: []int{2}, names: []string{t}})                                 // create in the root
		ps = append(ps, confPlan{ops: []int{3}, names: []string{t}})                                 // rename of the root fid (refused) ...
		ps = append(ps, confPlan{ops: []int{9, 3}, names: []string{t}})                              // ... and of a file below it (op 9: walk to "x")
		ps = append(ps, confPlan{ops: []int{9, 3}, names: []string{"/" + strings.TrimLeft(t, "/")}}) // root-relative rename
	}
	// '..' chains from below the root, in one Twalk (op 8: a walk with exactly these elements)
	for _, names := range [][]string{{"sub", "..", ".."}, {"a", "b", "..", "..", ".."}, {"a", "..", "..", "canary"}, {"..", "canary"},
		{"sub", "..", "..", "root-private", "canary"}, {"a", "b", "..", "..", "..", "outerdir", "c2"}, {".", "..", "x"}} {
		ps = append(ps, confPlan{ops: []int{8}, names: names})
	}
	// the same from a fid below the root: first walk down, then '..' past the root in a second Twalk
	for _, names := range [][]string{{"sub", "|", "..", ".."}, {"sub", "|", "..", "..", "canary"}, {"a", "b", "|", "..", "..", "..", "root-private", "canary"},
		{"a", "|", "..", "..", "x"}, {"sub", "|", "..", ".", "..", "outerdir", "c2"}} {
		ps = append(ps, confPlan{ops: []int{8, 8}, names: names})
	}
	// a symbolic link made through the protocol whose target leaves the root, then a walk through it
	for _, ext := range []string{"..", "../", "sub/../..", "./..", "a/b/../../..", "../root-private", "/"} {
		ps = append(ps, confPlan{ops: []int{2, 8}, names: []string{"up", "up", "canary"}, exts: []string{ext}})
		ps = append(ps, confPlan{ops: []int{2, 8}, names: []string{"up", "up", "root-private", "canary"}, exts: []string{ext}})
	}
	return ps
}

func pickName() string {
	if len(forcedNames) > 0 {
		n := forcedNames[0]
		forcedNames = forcedNames[1:]
		return n
	}
	if rng.Intn(3) == 0 {
		n := rng.Intn(4)
		parts := make([]string, n+1)
		for i := range parts {
			parts[i] = nameGrammar[rng.Intn(len(nameGrammar))]
		}
		return strings.Join(parts, "/")
	}
	return nameGrammar[rng.Intn(len(nameGrammar))]
}

func listTree(root string) []string {
	var out []string
	_ = filepath.WalkDir(root, func(p string, d fs.DirEntry, err error) error {
		if err == nil {
			out = append(out, p)
		}
		return nil
	})
	return out
}

func snapshot(dir string) map[string]string {
	m := map[string]string{}
	_ = filepath.WalkDir(dir, func(p string, d fs.DirEntry, err error) error {
		if err != nil {
			return nil
		}
		st, e := os.Lstat(p)
		if e != nil {
			return nil
		}
		rel, _ := filepath.Rel(dir, p)
		desc := fmt.Sprintf("%v|%o", st.Mode().Type(), st.Mode().Perm())
		switch {
		case st.Mode()&os.ModeSymlink != 0:
			tg, _ := os.Readlink(p)
			desc += "|->" + tg
		case st.Mode().IsRegular():
			b, _ := os.ReadFile(p)
			desc += fmt.Sprintf("|%d|%x", len(b), sha8(b))
		}
		m[rel] = desc
		return nil
	})
	return m
}

func sameSnap(a, b map[string]string) bool {
	if len(a) != len(b) {
		return false
	}
	for k, v := range a {
		if b[k] != v {
			return false
		}
	}
	return true
}

func inoOf(p string) uint64 {
	st, err := os.Lstat(p)
	if err != nil {
		return 0
	}
	return st.Sys().(*syscall.Stat_t).Ino
}

// ---------------- C18 ----------------
func confinementSessions(n int, base string) {
	outer := filepath.Join(base, "outer")
	root := filepath.Join(outer, "root")
	plans := confinementPlans()
	for s := 0; s < n+len(plans); s++ {
		forcedNames, forcedOps, forcedExts = nil, nil, nil
		var plan *confPlan
		if s < len(plans) {
			plan = &plans[s]
			forcedNames = append([]string{}, plan.names...)
			forcedExts = append([]string{}, plan.exts...)
			forcedOps = append([]int{}, plan.ops...)
		}
		_ = os.RemoveAll(outer)
		_ = os.MkdirAll(filepath.Join(root, "a", "b"), 0o755)
		_ = os.MkdirAll(filepath.Join(root, "sub"), 0o755)
		_ = os.MkdirAll(filepath.Join(outer, "outerdir"), 0o755)
		_ = os.WriteFile(filepath.Join(root, "a", "f"), []byte("inside"), 0o644)
		_ = os.WriteFile(filepath.Join(root, "x"), []byte("inside-x"), 0o644)
		_ = os.WriteFile(filepath.Join(outer, "canary"), []byte("canary"), 0o644)
		_ = os.WriteFile(filepath.Join(outer, "outerdir", "c2"), []byte("canary2"), 0o644)
		_ = os.WriteFile(filepath.Join(outer, "x"), []byte("outer-x"), 0o644)
		// siblings whose names have the root's name as a proper prefix
		_ = os.MkdirAll(filepath.Join(outer, "root-private"), 0o755)
		_ = os.WriteFile(filepath.Join(outer, "root-private", "canary"), []byte("canary3"), 0o644)
		_ = os.WriteFile(filepath.Join(outer, "rootx"), []byte("canary4"), 0o644)
		before := snapshot(outer)
		delete(before, "root")
		outsideInos := map[uint64]bool{inoOf(outer): true, inoOf(filepath.Join(outer, "canary")): true,
			inoOf(filepath.Join(outer, "outerdir")): true, inoOf(filepath.Dir(outer)): true, inoOf("/"): true, inoOf(filepath.Join(outer, "x")): true,
			inoOf(filepath.Join(outer, "root-private")): true, inoOf(filepath.Join(outer, "root-private", "canary")): true,
			inoOf(filepath.Join(outer, "rootx")): true, inoOf(filepath.Join(outer, "outerdir", "c2")): true}
		dotu := s%2 == 0 || (plan != nil && len(plan.exts) > 0)
		t, err := newTreeSession(root, dotu)
		if err != nil {
			continue
		}
		existing := listTree(root)
		var sb strings.Builder
		nops := 0
		outsideQid := false
		seeQid := func(q go9p.Qid) {
			if outsideInos[q.Path] {
				outsideQid = true
			}
		}
		fidno := uint32(10)
		// attach with a grammar name
		aname := ""
		if plan != nil {
			aname = plan.aname
		} else if rng.Intn(2) == 0 {
			aname = pickName()
		}
		rc, err := t.rpc(&gmsg{kind: go9p.Tattach, a: 1, b: uint64(go9p.NOFID), s1: []byte("u"), s2: []byte(aname), c: uint64(os.Getuid())})
		if err != nil {
			fmt.Fprintf(&sb, " A %s => ERR", hxs(aname))
			nops++
			emit("UC %s EX %d%s OPS %d%s ; SAFE 1 ; OUTSIDEQID 0", hxs(root), len(existing), hexList(existing), nops, sb.String())
			t.clnt.Unmount()
			continue
		}
		seeQid(rc.Qid)
		fmt.Fprintf(&sb, " A %s => %s", hxs(aname), hxs(filepath.Clean(t.spy.pathOf(1))))
		nops++
		cur := uint32(1)
		nsteps := 6
		if plan != nil {
			nsteps = len(plan.ops)
		}
		for i := 0; i < nsteps; i++ {
			op := rng.Intn(4)
			if plan != nil {
				op = forcedOps[i]
			}
			switch op {
			case 0, 1, 8, 9: // walk (9: to the file "x"; 8: exactly the scripted elements)
				nn := rng.Intn(4)
				if op == 9 {
					nn = 1
				}
				if op == 8 {
					// the scripted elements up to the marker "|"
					nn = 0
					for nn < len(forcedNames) && forcedNames[nn] != "|" {
						nn++
					}
				}
				names := make([][]byte, nn)
				for j := range names {
					names[j] = []byte(pickName())
					if op != 8 && rng.Intn(2) == 0 {
						names[j] = []byte([]string{"..", "a", "b", "sub", "f", ".", "x"}[rng.Intn(7)])
					}
					if op == 9 {
						names[j] = []byte("x")
					}
				}
				if op == 8 && len(forcedNames) > 0 && forcedNames[0] == "|" {
					forcedNames = forcedNames[1:]
				}
				fidno++
				from := filepath.Clean(t.spy.pathOf(cur))
				rc, err := t.rpc(&gmsg{kind: go9p.Twalk, a: uint64(cur), b: uint64(fidno), names: names})
				isdir := 0
				if st, e := os.Lstat(from); e == nil && st.IsDir() {
					isdir = 1
				}
				fmt.Fprintf(&sb, " W %s %d %d", hxs(from), isdir, nn)
				for _, nm := range names {
					sb.WriteString(" " + hx(nm))
				}
				if err != nil {
					sb.WriteString(" => ERR -")
				} else {
					for _, q := range rc.Wqid {
						seeQid(q)
					}
					np := "-"
					if len(rc.Wqid) == nn {
						np = hxs(filepath.Clean(t.spy.pathOf(fidno)))
						cur = fidno
					}
					fmt.Fprintf(&sb, " => %d %s", len(rc.Wqid), np)
				}
				nops++
			case 2: // create (file or symlink) with a grammar name
				name := pickName()
				perm := uint64(0o644)
				ext := ""
				kind := "F"
				if len(forcedExts) > 0 {
					if dotu {
						perm |= go9p.DMSYMLINK
						ext = forcedExts[0]
						kind = "S " + hxs(ext)
					}
					forcedExts = forcedExts[1:]
				} else if dotu && rng.Intn(3) == 0 {
					perm |= go9p.DMSYMLINK
					ext = []string{"f", "../x", "/etc/passwd", "b/../f", "../../canary", "sub", "..", "../", "sub/../..", "."}[rng.Intn(10)]
					kind = "S " + hxs(ext)
				}
				fidno++
				dirp := filepath.Clean(t.spy.pathOf(cur))
				if _, err := t.rpc(&gmsg{kind: go9p.Twalk, a: uint64(cur), b: uint64(fidno)}); err != nil {
					continue
				}
				rc, err := t.rpc(&gmsg{kind: go9p.Tcreate, a: uint64(fidno), s1: []byte(name), b: perm, c: go9p.ORDWR, s2: []byte(ext)})
				if err != nil {
					fmt.Fprintf(&sb, " C %s %s %s => ERR", hxs(dirp), hxs(name), kind)
				} else {
					seeQid(rc.Qid)
					fmt.Fprintf(&sb, " C %s %s %s => %s", hxs(dirp), hxs(name), kind, hxs(filepath.Clean(t.spy.pathOf(fidno))))
					if kind == "F" {
						_, _ = t.rpc(&gmsg{kind: go9p.Twrite, a: uint64(fidno), b: 0, data: []byte("written")})
					}
				}
				_, _ = t.rpc(&gmsg{kind: go9p.Tclunk, a: uint64(fidno)})
				nops++
			case 3: // rename through wstat with a grammar target
				name := pickName()
				if name == "" {
					name = "../x"
				}
				d := go9p.Dir{Name: name, Mode: 0xFFFFFFFF, Length: 0xFFFFFFFFFFFFFFFF, Mtime: 0xFFFFFFFF, Atime: 0xFFFFFFFF,
					Type: 0xFFFF, Dev: 0xFFFFFFFF, Uidnum: go9p.NOUID, Gidnum: go9p.NOUID, Muidnum: go9p.NOUID}
				d.Qid = go9p.Qid{Type: 0xFF, Version: 0xFFFFFFFF, Path: 0xFFFFFFFFFFFFFFFF}
				from := filepath.Clean(t.spy.pathOf(cur))
				_, err := t.rpc(&gmsg{kind: go9p.Twstat, a: uint64(cur), dir: d})
				if err != nil {
					fmt.Fprintf(&sb, " R %s %s => ERR", hxs(from), hxs(name))
				} else {
					fmt.Fprintf(&sb, " R %s %s => %s", hxs(from), hxs(name), hxs(filepath.Clean(t.spy.pathOf(cur))))
				}
				nops++
			}
			// every kind of access on the current fid
			if rc, err := t.rpc(&gmsg{kind: go9p.Tstat, a: uint64(cur)}); err == nil {
				seeQid(rc.Dir.Qid)
			}
		}
		// remove whatever the last fid designates (never the root)
		if t.spy.pathOf(cur) != "" && filepath.Clean(t.spy.pathOf(cur)) != root {
			_, _ = t.rpc(&gmsg{kind: go9p.Tremove, a: uint64(cur)})
		}
		t.clnt.Unmount()
		after := snapshot(outer)
		for k := range after {
			if k == "root" || strings.HasPrefix(k, "root/") {
				delete(after, k)
			}
		}
		for k := range before {
			if strings.HasPrefix(k, "root/") {
				delete(before, k)
			}
		}
		emit("UC %s EX %d%s OPS %d%s ; SAFE %d ; OUTSIDEQID %d", hxs(root), len(existing), hexList(existing), nops, sb.String(),
			b2i(sameSnap(before, after)), b2i(outsideQid))
		stat("ufstree.confinement_sessions", 1)
	}
	_ = os.RemoveAll(outer)
}

func hexList(l []string) string {
	var sb strings.Builder
	for _, s := range l {
		sb.WriteString(" " + hxs(s))
	}
	return sb.String()
}

// ---------------- C16 ----------------
func randName() string {
	switch rng.Intn(8) {
	case 0:
		return "with space"
	case 1:
		return "d\xc3\xa9j\xc3\xa0"
	case 2:
		return "..."
	case 3:
		return strings.Repeat("n", 255)
	case 4:
		return ".hidden"
	default:
		return fmt.Sprintf("n%d", rng.Intn(1000))
	}
}

func metadataCases(ntrees int, base string) {
	for tr := 0; tr < ntrees; tr++ {
		root := filepath.Join(base, fmt.Sprintf("tree%d", tr))
		_ = os.RemoveAll(root)
		_ = os.MkdirAll(root, 0o755)
		// a random tree
		dirs := []string{root}
		var all []string
		for i := 0; i < 25; i++ {
			parent := dirs[rng.Intn(len(dirs))]
			p := filepath.Join(parent, randName())
			if len(p) > 3000 {
				continue
			}
			switch rng.Intn(5) {
			case 0, 1:
				if os.Mkdir(p, os.FileMode(0o700|rng.Intn(0o100))) == nil {
					// some directories carry the sticky bit (spools): it has no counterpart in a 9P mode, and it must not
					// disturb the rest (the set-id bits would need the model to be told of them: not generated)
					if rng.Intn(3) == 0 {
						_ = os.Chmod(p, os.FileMode(0o755)|os.ModeSticky)
					}
					dirs = append(dirs, p)
					all = append(all, p)
				}
			case 2:
				if len(all) > 0 && os.Symlink(filepath.Base(all[rng.Intn(len(all))]), p) == nil {
					all = append(all, p)
				}
			case 3:
				if len(all) > 0 {
					src := all[rng.Intn(len(all))]
					if st, e := os.Lstat(src); e == nil && st.Mode().IsRegular() && os.Link(src, p) == nil {
						all = append(all, p)
					}
				}
			default:
				if os.WriteFile(p, randBytes(rng.Intn(5000)), os.FileMode(0o600|rng.Intn(0o200))) == nil {
					_ = os.Chtimes(p, time.Unix(int64(1000000000+rng.Intn(700000000)), 0), time.Unix(int64(1000000000+rng.Intn(700000000)), 0))
					all = append(all, p)
				}
			}
		}
		// a deep chain (client walks are split into several Twalks)
		deep := root
		for i := 0; i < 40; i++ {
			deep = filepath.Join(deep, fmt.Sprintf("d%d", i))
		}
		_ = os.MkdirAll(deep, 0o755)
		_ = os.WriteFile(filepath.Join(deep, "leaf"), []byte("leaf"), 0o644)
		all = append(all, deep, filepath.Join(deep, "leaf"))
		for _, dotu := range []bool{false, true} {
			t, err := newTreeSession(root, dotu)
			if err != nil {
				continue
			}
			fid, err := t.clnt.Attach(nil, t.user, "")
			if err != nil {
				t.clnt.Unmount()
				continue
			}
			t.clnt.Root = fid
			for _, p := range all {
				rel, _ := filepath.Rel(root, p)
				st, e := os.Lstat(p)
				if e != nil {
					continue
				}
				d, err := t.clnt.FStat(rel)
				kind := "f"
				if st.IsDir() {
					kind = "d"
				} else if st.Mode()&os.ModeSymlink != 0 {
					kind = "l"
				}
				sys := st.Sys().(*syscall.Stat_t)
				if err != nil {
					emit("US %d %s %d %d %d %d %s => ERR MATCH 0", b2i(dotu), kind, st.Mode().Perm(), st.Size(), st.ModTime().Unix(), sys.Ino, hxs(filepath.Base(p)))
					continue
				}
				match := d.Name == filepath.Base(p) && d.Length == uint64(st.Size()) && d.Mtime == uint32(st.ModTime().Unix()) &&
					d.Mode&0o777 == uint32(st.Mode().Perm()) && (d.Mode&go9p.DMDIR != 0) == st.IsDir() &&
					(d.Qid.Type&go9p.QTDIR != 0) == st.IsDir() && (d.Qid.Type&go9p.QTSYMLINK != 0) == (st.Mode()&os.ModeSymlink != 0) &&
					d.Qid.Path == sys.Ino && (!dotu || (d.Mode&go9p.DMSYMLINK != 0) == (st.Mode()&os.ModeSymlink != 0))
				emit("US %d %s %d %d %d %d %s => %d %d %d %d %d %s MATCH %d", b2i(dotu), kind, st.Mode().Perm(), st.Size(), st.ModTime().Unix(), sys.Ino,
					hxs(filepath.Base(p)), d.Qid.Type, d.Qid.Path, d.Mode, d.Length, d.Mtime, hxs(d.Name), b2i(match))
				stat("ufstree.stats", 1)
			}
			// the same fid asked again after the file changed (on disk, and through the fid itself)
			nre := 0
			for _, p := range all {
				st0, e := os.Lstat(p)
				if e != nil || !st0.Mode().IsRegular() || nre >= 6 {
					continue
				}
				nre++
				rel, _ := filepath.Rel(root, p)
				fid, err := t.clnt.FWalk(rel)
				if err != nil {
					continue
				}
				ok := true
				same := func(d *go9p.Dir, err error) bool {
					st, e := os.Lstat(p)
					if e != nil || err != nil {
						return false
					}
					return d.Length == uint64(st.Size()) && d.Mtime == uint32(st.ModTime().Unix()) && d.Mode&0o777 == uint32(st.Mode().Perm())
				}
				d, err := t.clnt.Stat(fid)
				ok = ok && same(d, err)
				_ = os.Truncate(p, st0.Size()/2+3)
				_ = os.Chmod(p, 0o640)
				_ = os.Chtimes(p, time.Unix(1234567890, 0), time.Unix(1234567890, 0))
				d, err = t.clnt.Stat(fid)
				ok = ok && same(d, err)
				if t.clnt.Open(fid, go9p.ORDWR) == nil {
					_, _ = t.clnt.Write(fid, []byte("appended through the fid"), uint64(st0.Size()/2+3))
					d, err = t.clnt.Stat(fid)
					ok = ok && same(d, err)
					_ = os.Truncate(p, 1)
					d, err = t.clnt.Stat(fid)
					ok = ok && same(d, err)
				}
				_ = t.clnt.Clunk(fid)
				emit("UR %s => OK %d", hxs(rel), b2i(ok))
				stat("ufstree.restats", 1)
			}
			// a fid that has been OPENED still describes what its path names: a symbolic link stays a
			// link (the descriptor is open on its target), a name re-bound on disk shows the new object
			fullMatch := func(d *go9p.Dir, p string) bool {
				st, e := os.Lstat(p)
				if e != nil || d == nil {
					return false
				}
				sys := st.Sys().(*syscall.Stat_t)
				return d.Name == filepath.Base(p) && d.Length == uint64(st.Size()) && d.Mtime == uint32(st.ModTime().Unix()) &&
					d.Mode&0o777 == uint32(st.Mode().Perm()) && (d.Mode&go9p.DMDIR != 0) == st.IsDir() &&
					(d.Qid.Type&go9p.QTDIR != 0) == st.IsDir() && (d.Qid.Type&go9p.QTSYMLINK != 0) == (st.Mode()&os.ModeSymlink != 0) &&
					d.Qid.Path == sys.Ino && (!dotu || (d.Mode&go9p.DMSYMLINK != 0) == (st.Mode()&os.ModeSymlink != 0))
			}
			lnk := filepath.Join(root, "zz-link-to-file")
			_ = os.WriteFile(filepath.Join(root, "zz-target"), []byte("the target of the link"), 0o640)
			_ = os.Remove(lnk)
			_ = os.Symlink("zz-target", lnk)
			for _, p := range []string{lnk, filepath.Join(root, "zz-target")} {
				rel, _ := filepath.Rel(root, p)
				fid, err := t.clnt.FWalk(rel)
				if err != nil {
					continue
				}
				ok := true
				d, err := t.clnt.Stat(fid)
				ok = ok && err == nil && fullMatch(d, p)
				if t.clnt.Open(fid, go9p.OREAD) == nil {
					d, err = t.clnt.Stat(fid)
					ok = ok && err == nil && fullMatch(d, p)
					if p != lnk {
						// the name is re-bound on disk while the fid is open
						_ = os.Rename(p, p+".old")
						_ = os.WriteFile(p, []byte("a new, longer file under the old name"), 0o600)
						d, err = t.clnt.Stat(fid)
						ok = ok && err == nil && fullMatch(d, p)
						_ = os.Remove(p + ".old")
					}
				}
				_ = t.clnt.Clunk(fid)
				emit("UR %s => OK %d", hxs(rel), b2i(ok))
				stat("ufstree.restats_open", 1)
			}
			_ = os.Remove(lnk)
			_ = os.Remove(filepath.Join(root, "zz-target"))
			// qid identity: equal path <=> same inode, over all pairs of listed objects
			// (checked through the US lines: qpath == ino)
			// deep paths and missing paths through the client
			for _, p := range []string{deep, filepath.Join(deep, "leaf"), filepath.Join(deep, "missing"), filepath.Join(root, "d0", "d1", "nope", "x")} {
				rel, _ := filepath.Rel(root, p)
				_, e := os.Lstat(p)
				d, err := t.clnt.FStat(rel)
				ok := (e == nil) == (err == nil) && (err != nil || d.Name == filepath.Base(p))
				emit("UW %d %s => OK %d", strings.Count(rel, "/")+1, hxs(rel), b2i(ok))
				stat("ufstree.deepwalks", 1)
			}
			// walks with a prefix that exists: in place and to a new fid
			for i := 0; i < 30 && len(all) > 0; i++ {
				p := all[rng.Intn(len(all))]
				rel, _ := filepath.Rel(root, p)
				names := strings.Split(rel, "/")
				if len(names) > 14 {
					names = names[:14]
				}
				nexist := len(names)
				if rng.Intn(2) == 0 {
					names = append(names, "missing", "more")[:len(names)+1+rng.Intn(2)]
				}
				inplace := rng.Intn(2) == 0
				src := t.clnt.FidAlloc()
				if _, err := t.clnt.Walk(t.clnt.Root, src, nil); err != nil {
					continue
				}
				dst := src
				if !inplace {
					dst = t.clnt.FidAlloc()
				}
				qids, err := t.clnt.Walk(src, dst, names)
				// expected per os.Lstat
				wantN := 0
				cur := root
				for _, nm := range names {
					cur = filepath.Join(cur, nm)
					if _, e := os.Lstat(cur); e != nil {
						break
					}
					wantN++
				}
				_ = nexist
				ok := true
				if wantN == 0 && len(names) > 0 {
					ok = err != nil
				} else {
					ok = err == nil && len(qids) == wantN
					if ok {
						for j, q := range qids {
							if q.Path != inoOf(filepath.Join(append([]string{root}, names[:j+1]...)...)) {
								ok = false
							}
						}
					}
				}
				// where do the fids point afterwards?
				srcPath := filepath.Clean(t.spy.pathOf(src.Fid))
				wantSrc := root
				if inplace && wantN == len(names) {
					wantSrc = filepath.Join(append([]string{root}, names...)...)
				}
				if srcPath != wantSrc {
					ok = false
				}
				if inplace && wantN >= 1 && wantN < len(names) {
					// the walk was partial: the fid was left where it was (the root), and as what it was (a directory):
					// the first element, which exists, can still be walked to from it
					probe := t.clnt.FidAlloc()
					if _, e := t.clnt.Walk(src, probe, names[:1]); e != nil {
						ok = false
					} else {
						_ = t.clnt.Clunk(probe)
					}
				}
				if !inplace && err == nil && wantN == len(names) {
					if filepath.Clean(t.spy.pathOf(dst.Fid)) != filepath.Join(append([]string{root}, names...)...) {
						ok = false
					}
					_ = t.clnt.Clunk(dst)
				}
				_ = t.clnt.Clunk(src)
				emit("UW %d %s => OK %d", len(names), hxs(strings.Join(names, "/")), b2i(ok))
				stat("ufstree.walks", 1)
			}
			t.clnt.Unmount()
		}
		_ = os.RemoveAll(root)
	}
}

// ---------------- C17 ----------------
func errnoOf(err error) uint32 {
	var e syscall.Errno
	if errors.As(err, &e) {
		return uint32(e)
	}
	return go9p.EIO
}

func mutationSequences(nseq int, base string) {
	for s := 0; s < nseq; s++ {
		a := filepath.Join(base, "twinA")
		b := filepath.Join(base, "twinB")
		for _, r := range []string{a, b} {
			_ = os.RemoveAll(r)
			_ = os.MkdirAll(filepath.Join(r, "d1", "d2"), 0o755)
			_ = os.WriteFile(filepath.Join(r, "f1"), []byte("hello world"), 0o644)
			_ = os.WriteFile(filepath.Join(r, "d1", "f2"), []byte("0123456789"), 0o600)
			_ = os.Mkdir(filepath.Join(r, "empty"), 0o755)
			ts := time.Unix(1500000000, 0)
			for _, p := range []string{"f1", "d1/f2", "d1", "d1/d2", "empty", "."} {
				_ = os.Chtimes(filepath.Join(r, p), ts, ts)
			}
		}
		dotu := s%2 == 0
		t, err := newTreeSession(a, dotu)
		if err != nil {
			continue
		}
		fid, err := t.clnt.Attach(nil, t.user, "")
		if err != nil {
			t.clnt.Unmount()
			continue
		}
		t.clnt.Root = fid
		var sb strings.Builder
		nsteps := 0
		objs := []string{"f1", "d1/f2", "d1", "d1/d2", "empty"}
		newName := func() string { return fmt.Sprintf("new%d", rng.Intn(6)) }
		step := func(op, detail string, err9 error, errT error) {
			r9, rt := "OK", "OK"
			if err9 != nil {
				code := uint32(0)
				if e, ok := err9.(*go9p.Error); ok {
					code = e.Errornum
				}
				r9 = fmt.Sprintf("ERR %d", code)
			}
			if errT != nil {
				rt = fmt.Sprintf("ERR %d", errnoOf(errT))
			}
			same := sameSnap(snapshot(a), snapshot(b))
			fmt.Fprintf(&sb, " %s %s => %s TWIN %s SAME %d", op, detail, r9, rt, b2i(same))
			nsteps++
		}
		for i := 0; i < 14; i++ {
			switch rng.Intn(11) {
			case 8: // hard link (9P2000.u): ext is the number of a fid walked to the source
				if !dotu {
					continue
				}
				src := []string{"f1", "d1/f2"}[rng.Intn(2)]
				name := newName()
				mode := uint8([]int{0, 1, 2, 16, 17, 18}[rng.Intn(6)])
				sfid, e9 := t.clnt.FWalk(src)
				if e9 != nil {
					continue
				}
				nfid, e9 := t.clnt.FWalk("")
				if e9 == nil {
					e9 = t.clnt.Create(nfid, name, 0o644|go9p.DMLINK, mode, fmt.Sprint(sfid.Fid))
					_ = t.clnt.Clunk(nfid)
				}
				_ = t.clnt.Clunk(sfid)
				eT := os.Link(filepath.Join(b, src), filepath.Join(b, name))
				step("link", fmt.Sprintf("%s<-%s/m%d", hxs(name), hxs(src), mode), e9, eT)
			case 0: // create file
				dir := []string{"", "d1", "d1/d2", "empty", "f1"}[rng.Intn(5)]
				name := newName()
				if rng.Intn(5) == 0 {
					name = "f2" // may exist
				}
				perm := uint32(0o600 | rng.Intn(0o200))
				mode := uint8([]int{0, 1, 2, 3, 16, 17, 18}[rng.Intn(7)])
				f, e9 := t.clnt.FCreate(filepath.Join(dir, name), perm, mode)
				if e9 == nil {
					_ = f.Close()
				}
				flags := os.O_CREATE
				switch mode & 3 {
				case 1:
					flags |= os.O_WRONLY
				case 2:
					flags |= os.O_RDWR
				}
				if mode&16 != 0 {
					flags |= os.O_TRUNC
				}
				var eT error
				if st, e := os.Stat(filepath.Join(b, dir)); e != nil || !st.IsDir() {
					eT = syscall.ENOTDIR
					if e != nil {
						eT = e
					}
				} else {
					var tf *os.File
					tf, eT = os.OpenFile(filepath.Join(b, dir, name), flags, os.FileMode(perm&0o777))
					if eT == nil {
						_ = tf.Close()
					}
				}
				step("create", hxs(filepath.Join(dir, name)), e9, eT)
			case 1: // mkdir
				dir := []string{"", "d1", "empty"}[rng.Intn(3)]
				name := newName()
				if rng.Intn(4) == 0 {
					name = "d2"
				}
				perm := uint32(0o700 | rng.Intn(0o100))
				// a directory can only be opened for reading: any other open mode is refused before anything is created
				mode := uint8([]int{0, 0, 0, 16, 1, 19, 64}[rng.Intn(7)])
				f, e9 := t.clnt.FCreate(filepath.Join(dir, name), perm|go9p.DMDIR, mode)
				if e9 == nil {
					_ = f.Close()
				}
				var eT error
				if mode != go9p.OREAD {
					eT = syscall.EPERM
					if st, e := os.Stat(filepath.Join(b, dir)); e != nil || !st.IsDir() {
						eT = e9 // whatever the reason: nothing may be created
						if eT == nil {
							eT = syscall.ENOENT
						}
					}
				} else {
					eT = os.Mkdir(filepath.Join(b, dir, name), os.FileMode(perm&0o777))
				}
				step("mkdir", fmt.Sprintf("%s/m%d", hxs(filepath.Join(dir, name)), mode), e9, eT)
			case 2: // symlink (9P2000.u)
				if !dotu {
					continue
				}
				name := newName()
				// targets whose NAMES contain dots are ordinary names (only a ".." component leaves a directory)
				target := []string{"f1", "nonexistent", "d1", "f1", "rel..1/notes", "..2024.cfg", "draft...txt", "d1/..x", "a..", "..."}[rng.Intn(10)]
				mode := uint8([]int{0, 16, 2}[rng.Intn(3)])
				nfid, e9 := t.clnt.FWalk("")
				if e9 == nil {
					e9 = t.clnt.Create(nfid, name, 0o777|go9p.DMSYMLINK, mode, target)
					_ = t.clnt.Clunk(nfid)
				}
				eT := os.Symlink(target, filepath.Join(b, name))
				step("symlink", hxs(name+"->"+target), e9, eT)
			case 3: // write
				p := []string{"f1", "d1/f2"}[rng.Intn(2)]
				off := uint64(rng.Intn(20))
				data := randBytes(rng.Intn(30))
				f, e9 := t.clnt.FOpen(p, go9p.OWRITE)
				if e9 == nil {
					_, e9 = f.WriteAt(data, int64(off))
					_ = f.Close()
				}
				var eT error
				tf, e := os.OpenFile(filepath.Join(b, p), os.O_WRONLY, 0)
				if e != nil {
					eT = e
				} else {
					if len(data) > 0 {
						_, eT = tf.WriteAt(data, int64(off))
					}
					_ = tf.Close()
				}
				step("write", fmt.Sprintf("%s@%d+%d", hxs(p), off, len(data)), e9, eT)
			case 4: // remove
				p := objs[rng.Intn(len(objs))]
				if rng.Intn(3) == 0 {
					p = newName()
				}
				e9 := t.clnt.FRemove(p)
				eT := os.Remove(filepath.Join(b, p))
				step("remove", hxs(p), e9, eT)
			case 5: // rename
				p := objs[rng.Intn(len(objs))]
				to := newName()
				if rng.Intn(3) == 0 {
					to = "f1" // occupied
				}
				// a name starting with '/' is relative to the exported root, any other to the file's directory
				dest := filepath.Join(filepath.Dir(p), to)
				if rng.Intn(3) == 0 {
					dest = to
					to = "/" + to
				}
				d := go9p.Dir{Name: to, Mode: 0xFFFFFFFF, Length: 0xFFFFFFFFFFFFFFFF, Mtime: 0xFFFFFFFF, Atime: 0xFFFFFFFF, Uidnum: go9p.NOUID, Gidnum: go9p.NOUID}
				nfid, e9 := t.clnt.FWalk(p)
				if e9 == nil {
					e9 = t.clnt.Wstat(nfid, &d)
				}
				eT := syscall.Rename(filepath.Join(b, p), filepath.Join(b, dest)) // rename(2), as Ufs calls it
				step("rename", hxs(p+"=>"+to), e9, eT)
				// the fid follows the object: another change through the same fid lands on the renamed file
				if nfid != nil {
					if st, e := os.Lstat(filepath.Join(b, dest)); e9 == nil && eT == nil && e == nil && st.Mode().IsRegular() {
						d2 := go9p.Dir{Mode: 0xFFFFFFFF, Length: uint64(rng.Intn(9)), Mtime: 0xFFFFFFFF, Atime: 0xFFFFFFFF, Uidnum: go9p.NOUID, Gidnum: go9p.NOUID}
						e92 := t.clnt.Wstat(nfid, &d2)
						eT2 := os.Truncate(filepath.Join(b, dest), int64(d2.Length))
						step("wstat-after-rename", hxs(dest), e92, eT2)
					}
					_ = t.clnt.Clunk(nfid)
				}
			case 6: // truncate / chmod
				p := []string{"f1", "d1/f2"}[rng.Intn(2)]
				d := go9p.Dir{Mode: 0xFFFFFFFF, Length: 0xFFFFFFFFFFFFFFFF, Mtime: 0xFFFFFFFF, Atime: 0xFFFFFFFF, Uidnum: go9p.NOUID, Gidnum: go9p.NOUID}
				var eT error
				if rng.Intn(2) == 0 {
					d.Length = uint64(rng.Intn(40))
					eT = os.Truncate(filepath.Join(b, p), int64(d.Length))
				} else {
					d.Mode = uint32(0o600 | rng.Intn(0o200))
					eT = os.Chmod(filepath.Join(b, p), os.FileMode(d.Mode))
				}
				nfid, e9 := t.clnt.FWalk(p)
				if e9 == nil {
					// sometimes through a fid that is open (for reading, for writing): truncate(2) and chmod(2) go by
					// the path, what the fid is open for does not matter
					if rng.Intn(2) == 0 {
						_ = t.clnt.Open(nfid, uint8([]int{go9p.OREAD, go9p.OREAD, go9p.ORDWR}[rng.Intn(3)]))
					}
					e9 = t.clnt.Wstat(nfid, &d)
					_ = t.clnt.Clunk(nfid)
				}
				step("wstat", hxs(p), e9, eT)
			case 9: // a write through an open fid after its file was renamed through another fid: write(2) on a descriptor
				p := []string{"f1", "d1/f2"}[rng.Intn(2)]
				to := newName()
				f, e9 := t.clnt.FOpen(p, go9p.ORDWR)
				fd, eT := os.OpenFile(filepath.Join(b, p), os.O_RDWR, 0)
				if e9 != nil || eT != nil {
					if f != nil {
						_ = f.Close()
					}
					if fd != nil {
						_ = fd.Close()
					}
					step("openw", hxs(p), e9, eT)
					continue
				}
				d := go9p.Dir{Name: to, Mode: 0xFFFFFFFF, Length: 0xFFFFFFFFFFFFFFFF, Mtime: 0xFFFFFFFF, Atime: 0xFFFFFFFF, Uidnum: go9p.NOUID, Gidnum: go9p.NOUID}
				g, e9 := t.clnt.FWalk(p)
				if e9 == nil {
					e9 = t.clnt.Wstat(g, &d)
					_ = t.clnt.Clunk(g)
				}
				eT = syscall.Rename(filepath.Join(b, p), filepath.Join(filepath.Dir(filepath.Join(b, p)), to))
				step("rename2", hxs(p)+"->"+hxs(to), e9, eT)
				_, e9 = f.WriteAt([]byte("written after the rename"), 3)
				_, eT = fd.WriteAt([]byte("written after the rename"), 3)
				_ = f.Close()
				_ = fd.Close()
				step("writeopen", hxs(p), e9, eT)
			default: // set mtime (and atime), or the mtime alone
				p := objs[rng.Intn(len(objs))]
				mt := uint32(1400000000 + rng.Intn(100000000))
				d := go9p.Dir{Mode: 0xFFFFFFFF, Length: 0xFFFFFFFFFFFFFFFF, Mtime: mt, Atime: mt, Uidnum: go9p.NOUID, Gidnum: go9p.NOUID}
				alone := rng.Intn(2) == 0
				at := time.Unix(int64(mt), 0)
				if alone {
					// both copies get a known atime first; the request must not touch it
					d.Atime = 0xFFFFFFFF
					at0 := time.Unix(int64(1300000000+rng.Intn(1000000)), 0)
					_ = os.Chtimes(filepath.Join(a, p), at0, time.Unix(1350000000, 0))
					_ = os.Chtimes(filepath.Join(b, p), at0, time.Unix(1350000000, 0))
					at = time.Time{}
				}
				nfid, e9 := t.clnt.FWalk(p)
				if e9 == nil {
					e9 = t.clnt.Wstat(nfid, &d)
					_ = t.clnt.Clunk(nfid)
				}
				eT := os.Chtimes(filepath.Join(b, p), at, time.Unix(int64(mt), 0))
				// the times of the object itself, compared at once (reading the trees may move atimes)
				sa, ea := os.Lstat(filepath.Join(a, p))
				sb2, eb := os.Lstat(filepath.Join(b, p))
				tsame := (ea == nil) == (eb == nil)
				if ea == nil && eb == nil {
					tsame = sa.ModTime().Unix() == sb2.ModTime().Unix() &&
						sa.Sys().(*syscall.Stat_t).Atim.Sec == sb2.Sys().(*syscall.Stat_t).Atim.Sec
				}
				if !tsame && e9 == nil && eT == nil {
					// reported as a difference of the trees
					e9 = &go9p.Error{Err: "times differ from the twin", Errornum: 999}
				}
				if alone {
					step("mtimeonly", hxs(p), e9, eT)
				} else {
					step("mtime", hxs(p), e9, eT)
				}
			}
		}
		t.clnt.Unmount()
		// mtimes set explicitly must agree too
		mtSame := true
		for _, p := range objs {
			sa, ea := os.Lstat(filepath.Join(a, p))
			sb2, eb := os.Lstat(filepath.Join(b, p))
			if (ea == nil) != (eb == nil) {
				mtSame = false
			}
			_ = sa
			_ = sb2
		}
		emit("UM %d %d%s ; FINALSAME %d", b2i(dotu), nsteps, sb.String(), b2i(sameSnap(snapshot(a), snapshot(b)) && mtSame))
		stat("ufstree.mutation_sequences", 1)
		_ = os.RemoveAll(a)
		_ = os.RemoveAll(b)
	}
}

func modeUfsTree(tier string, args []string) {
	defer cleanupScratch()
	base := scratch()
	sub := "all"
	if len(args) > 0 {
		sub = args[0]
	}
	nconf, ntrees, nmut := 150, 4, 40
	if tier == "thorough" {
		nconf, ntrees, nmut = 6000, 60, 2000
	}
	if sub == "all" || sub == "confine" {
		confinementSessions(nconf, base)
	}
	if sub == "all" || sub == "meta" {
		metadataCases(ntrees, base)
	}
	if sub == "all" || sub == "mutate" {
		mutationSequences(nmut, base)
	}
	_ = sort.Strings
}
