package main

import (
	"fmt"
	"strings"
	"sync"
	"time"

	go9p "github.com/rminnich/go9p"
)

func init() { modes["log"] = modeLog }

type logOwner struct{ n int }

func fltIds(res []*go9p.Log) []int {
	ids := make([]int, len(res))
	for i, l := range res {
		ids[i] = l.Data.(int)
	}
	return ids
}

func contains(ids []int, x int) bool {
	for _, v := range ids {
		if v == x {
			return true
		}
	}
	return false
}

// drain waits until the logger has processed everything sent so far: the entry
// with id lastID (the most recently sent) must show up in Filter(nil, 0).
func drain(l *go9p.Logger, lastID int) bool {
	deadline := time.Now().Add(2 * time.Second)
	for time.Now().Before(deadline) {
		r, ok := filterT(l, nil, 0)
		if !ok {
			return false
		}
		if contains(fltIds(r), lastID) {
			return true
		}
	}
	return false
}

// Filter with a watchdog: a Filter that never returns is a verdict, not a stuck harness
func filterT(l *go9p.Logger, ow interface{}, ty int) ([]*go9p.Log, bool) {
	ch := make(chan []*go9p.Log, 1)
	go func() { ch <- l.Filter(ow, ty) }()
	select {
	case r := <-ch:
		return r, true
	case <-time.After(3 * time.Second):
		return nil, false
	}
}

func owStr(ow int) string {
	if ow < 0 {
		return "-"
	}
	return fmt.Sprint(ow)
}

func modeLog(tier string, args []string) {
	nseq, nconc := 1500, 300
	if tier == "thorough" {
		nseq, nconc = 40000, 6000
	}
	owners := []interface{}{&logOwner{0}, &logOwner{1}, &logOwner{2}, &logOwner{3}, &logOwner{4}}
	ownerArg := func(ow int) interface{} {
		if ow < 0 {
			return nil
		}
		return owners[ow]
	}
	nextID := 1
	for c := 0; c < nseq && stats["log.drain_timeout"] < 5; c++ {
		capn := 1 + rng.Intn(64)
		if c%7 == 0 {
			capn = 1 + rng.Intn(3)
		}
		var nops int
		switch c % 4 {
		case 0:
			nops = rng.Intn(capn + 1) // below capacity
		case 1:
			nops = capn + rng.Intn(3) // at capacity
		default:
			nops = capn*2 + rng.Intn(capn*6+8) // many wraps
		}
		l := go9p.NewLogger(capn)
		var sb strings.Builder
		cnt := 0
		last := -1
		nlog := 0
		hung := false
		type keptRes struct {
			res []*go9p.Log
			ids []int
		}
		var kept []keptRes
		emitF := func() {
			if hung {
				return
			}
			ow := rng.Intn(4) - 1
			ty := rng.Intn(4)
			if last >= 0 && !drain(l, last) {
				fmt.Fprintf(&sb, " F %s %d 1 999999999", owStr(ow), ty) // reported as an oracle failure
				cnt++
				stat("log.drain_timeout", 1)
				return
			}
			fr, ok := filterT(l, ownerArg(ow), ty)
			if !ok {
				sb.WriteString(" H")
				cnt++
				hung = true
				stat("log.filter_hung", 1)
				return
			}
			ids := fltIds(fr)
			kept = append(kept, keptRes{fr, append([]int{}, ids...)})
			fmt.Fprintf(&sb, " F %s %d %d", owStr(ow), ty, len(ids))
			for _, id := range ids {
				fmt.Fprintf(&sb, " %d", id)
			}
			cnt++
			stat("log.filters", 1)
			if nlog > capn {
				stat("log.filters_after_wrap", 1)
			}
		}
		for i := 0; i < nops && !hung; i++ {
			if rng.Intn(5) == 0 {
				emitF()
			}
			ow := rng.Intn(3)
			ty := 1 + rng.Intn(3)
			id := nextID
			nextID++
			l.Log(id, owners[ow], ty)
			last = id
			nlog++
			fmt.Fprintf(&sb, " L %d %d %d", id, ow, ty)
			cnt++
		}
		emitF()
		emitF()
		// results handed out earlier still say what they said then
		if !hung {
			same := 1
			for _, k := range kept {
				now := fltIds(k.res)
				if len(now) != len(k.ids) {
					same = 0
					break
				}
				for i := range now {
					if now[i] != k.ids[i] {
						same = 0
					}
				}
			}
			fmt.Fprintf(&sb, " K %d", same)
			cnt++
		}
		emit("SEQ %d %d%s", capn, cnt, sb.String())
		if stats["log.filter_hung"] >= 3 {
			break
		}
		stat("log.seq_cases", 1)
		stat("log.logs", nlog)
		if nlog > capn {
			stat("log.seq_cases_wrapped", 1)
		}
	}
	// a Filter that never returns leaves a spinning logger goroutine behind: no point in going on
	for c := 0; c < nconc && stats["log.drain_timeout"] < 5 && stats["log.filter_hung"] == 0; c++ {
		capn := 1 + rng.Intn(64)
		nprod := 2 + rng.Intn(3)
		l := go9p.NewLogger(capn)
		prods := make([][][3]int, nprod)
		for p := range prods {
			n := rng.Intn(3 * capn)
			for i := 0; i < n; i++ {
				prods[p] = append(prods[p], [3]int{nextID, p, 1 + rng.Intn(3)})
				nextID++
			}
		}
		var wg sync.WaitGroup
		for p := range prods {
			wg.Add(1)
			go func(p int) {
				defer wg.Done()
				for _, e := range prods[p] {
					l.Log(e[0], owners[e[1]], e[2])
				}
			}(p)
		}
		type fres struct {
			ow, ty int
			ids    []int
		}
		nflt := 2 + rng.Intn(7)
		fq := make([][2]int, nflt)
		for i := range fq {
			fq[i] = [2]int{rng.Intn(nprod+1) - 1, rng.Intn(4)}
		}
		results := make([]fres, nflt)
		// every Filter call from its own goroutine: the calls overlap with the producers and with each other
		for i, q := range fq {
			wg.Add(1)
			go func(i int, q [2]int) {
				defer wg.Done()
				results[i] = fres{q[0], q[1], fltIds(l.Filter(ownerArg(q[0]), q[1]))}
			}(i, q)
		}
		wg.Wait()
		// sentinel entry by an extra producer: FIFO channel, so once it is visible
		// everything sent before it has been processed
		sent := [3]int{nextID, 4, 1}
		nextID++
		l.Log(sent[0], owners[4], sent[2])
		ok := drain(l, sent[0])
		final := fltIds(l.Filter(nil, 0))
		if !ok {
			final = []int{999999999}
			stat("log.drain_timeout", 1)
		}
		var sb strings.Builder
		fmt.Fprintf(&sb, "CONC %d %d", capn, nprod+1)
		for _, pl := range prods {
			fmt.Fprintf(&sb, " P %d", len(pl))
			for _, e := range pl {
				fmt.Fprintf(&sb, " %d %d %d", e[0], e[1], e[2])
			}
		}
		fmt.Fprintf(&sb, " P 1 %d %d %d", sent[0], sent[1], sent[2])
		fmt.Fprintf(&sb, " %d", nflt)
		for _, r := range results {
			fmt.Fprintf(&sb, " F %s %d %d", owStr(r.ow), r.ty, len(r.ids))
			for _, id := range r.ids {
				fmt.Fprintf(&sb, " %d", id)
			}
			if len(r.ids) > 0 {
				stat("log.conc_filters_nonempty", 1)
			}
		}
		fmt.Fprintf(&sb, " FINAL %d", len(final))
		for _, id := range final {
			fmt.Fprintf(&sb, " %d", id)
		}
		emit("%s", sb.String())
		stat("log.conc_cases", 1)
	}
}
