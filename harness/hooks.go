package main

import (
	"sync"

	go9p "github.com/rminnich/go9p"
)

// One process-wide hook; handlers are registered per *Srv or *Clnt.
var hookTable sync.Map // key: *go9p.Srv | *go9p.Clnt ; value: func(point string, obj interface{}, a, b uint32)

func init() {
	go9p.VerifSetHook(func(point string, obj interface{}, a, b uint32) {
		var key interface{}
		switch o := obj.(type) {
		case *go9p.SrvReq:
			if o.Conn != nil {
				key = o.Conn.Srv
			}
		case *go9p.Conn:
			key = o.Srv
		case *go9p.SrvFid:
			if o.Fconn != nil {
				key = o.Fconn.Srv
			}
		case *go9p.Clnt:
			key = o
		}
		if key == nil {
			return
		}
		if h, ok := hookTable.Load(key); ok {
			h.(func(string, interface{}, uint32, uint32))(point, obj, a, b)
		}
	})
}
