package main

// srvconc: the real server under scripted concurrency. Every schedule point of the
// library (verifPoint hooks, logged under one mutex, inside the library's own
// critical sections where the step is a critical section) is translated into a
// label of the Coq LTS Srv/Conc.v; the label list is replayed by modelcheck
// (correspondence) and the visible behaviour is judged by the oracles.
//
// Output per history:
//   CH <maxpend> <flushop> <nlabels> <label>* ; WIRE <k> {<tag> <content>}*k ; REQ <n> {<rid> <tag> <kind> <nanswers> <flushed_by_client>}*n ; NOTE <text>
// labels: A <tag> <kind: V|O|F<oldtag>> | WS <r> | RJ <r> <v> | OC <r> | OR <r> | AN <r> <v> | F1 <r> | F2 <r> | F3 <r>
//         | FR <r> | RF <t> | V1 <r> | WT <r> | R <f> | SD | DC

import (
	"bytes"
	"fmt"
	"hash/fnv"
	"runtime"
	"strconv"
	"strings"
	"sync"
	"sync/atomic"
	"time"

	go9p "github.com/rminnich/go9p"
)

func init() { modes["srvconc"] = modeSrvconc }

func gid() uint64 {
	var buf [64]byte
	n := runtime.Stack(buf[:], false)
	// "goroutine 123 ["
	f := bytes.Fields(buf[:n])
	if len(f) < 2 {
		return 0
	}
	v, _ := strconv.ParseUint(string(f[1]), 10, 64)
	return v
}

func contentID(pkt []byte) uint64 {
	if len(pkt) < 7 {
		return 0
	}
	switch pkt[4] {
	case go9p.Rflush:
		return 1
	case go9p.Rversion:
		return 2
	}
	h := fnv.New32a()
	h.Write(pkt[4:5])
	h.Write(pkt[7:])
	return 3 + uint64(h.Sum32())
}

type frameKey struct {
	g   uint64
	req *go9p.SrvReq
}

type frameSt struct {
	id     int
	r4, r5 bool
	inLoop bool // the flush loop at the end of Respond has called a freq.Respond()
}

type concSession struct {
	mu        sync.Mutex // the log mutex
	labels    []string
	rid       map[*go9p.SrvReq]int
	nreq      int
	nframes   int
	frames    map[frameKey]*frameSt
	expect    map[uint64]int // goroutine -> frame id created by its last label
	winner    map[*go9p.SrvReq]*frameSt
	worker    map[uint64]int
	answering map[uint64]bool
	closedLog bool
	blabels   []string            // buffer life-cycle labels (Srv/Buf.v)
	bufID     map[*go9p.Fcall]int // reply buffers in order of first appearance
	sending   int                 // request the send goroutine is writing (-1: none)
	paused    int
	nlate     int
	notes     []string

	srv  *go9p.Srv
	conn *segConn
	ops  *concOps

	reqInfo []*concReq // by rid
}

type concReq struct {
	tag      uint16
	typ      uint8
	oldtag   uint16
	answers  int
	released chan concAction
	req      *go9p.SrvReq
	called   bool // the implementation has been handed this request
}

// what the plan tells a blocked operation to do
type concAction struct {
	answers int    // how often to answer (0 = never)
	payload []byte // distinct per request
	errText string // answer with Rerror instead
	async   bool   // answer from another goroutine after the op returned
	flushOK bool   // (FlushOp) call target.Flush()
	par     bool   // the packed reply is answered by two goroutines at the same moment
}

func (s *concSession) emitL(format string, a ...interface{}) {
	s.labels = append(s.labels, fmt.Sprintf(format, a...))
}

func (s *concSession) note(format string, a ...interface{}) {
	s.notes = append(s.notes, fmt.Sprintf(format, a...))
}

func kindStr(fc *go9p.Fcall) string {
	switch fc.Type {
	case go9p.Tversion:
		return "V"
	case go9p.Tflush:
		return fmt.Sprintf("F%d", fc.Oldtag)
	}
	return "O"
}

// hook: called by the library at its schedule points
func (s *concSession) hook(point string, obj interface{}, a, b uint32) {
	s.hookLocked(point, obj, a, b)
	// a request the plan wants to hold at a schedule point that lies outside every lock
	if point == "respond.R3" {
		if r, ok := obj.(*go9p.SrvReq); ok {
			if v, ok := pauseTag.Load(s); ok {
				pt := v.(*tagPause)
				if r.Tc.Tag == pt.tag && atomic.CompareAndSwapInt32(&pt.hit, 0, 1) {
					<-pt.ch
				}
			}
		}
	}
	// a goroutine the plan wants to hold at a schedule point outside every lock
	if point == "respond.guarded" {
		if v, ok := pauseAt.Load(gid()); ok {
			ch := v.(chan bool)
			pauseAt.Delete(gid())
			s.mu.Lock()
			s.paused++
			s.mu.Unlock()
			<-ch
		}
	}
	// two goroutines answering one request at the same moment leave respond.enter together
	if point == "respond.enter" {
		if r, ok := obj.(*go9p.SrvReq); ok {
			if v, ok := parBarrier.Load(r); ok {
				c := v.(*int32)
				atomic.AddInt32(c, 1)
				for i := 0; atomic.LoadInt32(c) < 2 && i < 2000000; i++ {
				}
			}
		}
	}
}

type tagPause struct {
	tag uint16
	hit int32
	ch  chan bool
}

var pauseTag sync.Map   // *concSession -> *tagPause: hold the Respond of the request with that tag at respond.R3
var parBarrier sync.Map // *SrvReq -> *int32
var pauseAt sync.Map    // goroutine id -> chan bool: hold that goroutine at respond.guarded

func (s *concSession) hookLocked(point string, obj interface{}, a, b uint32) {
	g := gid()
	s.mu.Lock()
	defer s.mu.Unlock()
	var req *go9p.SrvReq
	if r, ok := obj.(*go9p.SrvReq); ok {
		req = r
	}
	ridOf := func(r *go9p.SrvReq) int {
		if id, ok := s.rid[r]; ok {
			return id
		}
		s.note("unknown-request-at-%s", point)
		return -1
	}
	newFrame := func() int {
		id := s.nframes
		s.nframes++
		s.expect[g] = id
		return id
	}
	cur := func() *frameSt {
		f := s.frames[frameKey{g, req}]
		if f == nil {
			s.note("no-frame-at-%s", point)
		}
		return f
	}
	// ---- buffer life cycle (Srv/Buf.v) ----
	bl := func(format string, a ...interface{}) { s.blabels = append(s.blabels, fmt.Sprintf(format, a...)) }
	switch point {
	case "respond.packed":
		if req != nil && req.Rc != nil {
			bl("GP %d %d", ridOf(req), contentID(req.Rc.Pkt))
		}
	case "flush.chained":
		// srv.flush packs the Rflush directly (PackRflush), not through RespondRflush
		if req != nil && req.Rc != nil {
			bl("GP %d %d", ridOf(req), contentID(req.Rc.Pkt))
		}
	case "respond.R1":
		if a&4 == 0 { // reqResponded was not set: this invocation wins
			if a&1 != 0 {
				bl("RF %d", ridOf(req))
			} else {
				bl("RS %d", ridOf(req))
			}
		}
	case "send.dequeued":
		s.sending = ridOf(req)
		bl("DQ %d", s.sending)
	case "send.written":
		// the hand-back to the pool follows at once; it is logged here, BEFORE the channel send, because
		// the receive loop may take the buffer (and log its TP) before a point after the send is reached
		s.sending = -1
		bl("RC %d", ridOf(req))
	case "send.recycled":
		if a != 1 {
			s.note("reply-buffer-pool-full")
		}
	}
	switch point {
	case "recv.enqueued":
		if req.Rc != nil {
			if b, ok := s.bufID[req.Rc]; ok {
				bl("TP %d %d", s.nreq, b)
			} else {
				s.bufID[req.Rc] = len(s.bufID)
				bl("TF %d", s.nreq)
			}
		}
		id := s.nreq
		s.nreq++
		s.rid[req] = id
		cr := &concReq{tag: req.Tc.Tag, typ: req.Tc.Type, oldtag: req.Tc.Oldtag, released: make(chan concAction, 4), req: req}
		s.reqInfo = append(s.reqInfo, cr)
		s.emitL("A %d %s", req.Tc.Tag, kindStr(req.Tc))
	case "process.start":
		s.worker[g] = ridOf(req)
		s.emitL("WS %d", ridOf(req))
		if a&1 != 0 { // reqFlush: Respond() follows
			newFrame()
		}
	case "process.tail":
		s.emitL("WT %d", ridOf(req))
	case "respond.enter":
		var id int
		if e, ok := s.expect[g]; ok {
			id = e
			delete(s.expect, g)
		} else if s.answering[g] {
			// the implementation's answer: packed just now, Respond starting
			v := uint64(0)
			if req.Rc != nil {
				v = contentID(req.Rc.Pkt)
			}
			s.emitL("AN %d %d", ridOf(req), v)
			id = s.nframes
			s.nframes++
		} else {
			// a Respond nobody announced: the framework rejecting the request inside Process()
			v := uint64(0)
			if req.Rc != nil {
				v = contentID(req.Rc.Pkt)
			}
			s.emitL("RJ %d %d", ridOf(req), v)
			id = s.nframes
			s.nframes++
		}
		s.frames[frameKey{g, req}] = &frameSt{id: id}
	case "respond.R1":
		if f := cur(); f != nil {
			s.emitL("R %d", f.id)
			if a&4 != 0 { // reqResponded was set: this invocation is done
				delete(s.frames, frameKey{g, req})
			} else {
				s.winner[req] = f
			}
		}
	case "respond.R2", "respond.R3":
		if f := cur(); f != nil {
			s.emitL("R %d", f.id)
		}
	case "respond.R4":
		if f := cur(); f != nil && !f.r4 {
			f.r4 = true
			s.emitL("R %d", f.id)
		}
	case "send.dequeued":
		if s.closedLog {
			return
		}
		if f := s.winner[req]; f != nil {
			if !f.r4 {
				f.r4 = true
				s.emitL("R %d", f.id)
			}
			s.emitL("SD")
		} else {
			s.note("send-without-winner")
		}
	case "respond.next":
		if f := cur(); f != nil && !f.r5 {
			f.r5 = true
			s.emitL("R %d", f.id)
		}
	case "respond.flushes":
		if f := cur(); f != nil {
			if !f.r5 {
				f.r5 = true
				s.emitL("R %d", f.id)
			}
			if f.inLoop {
				s.emitL("R %d", f.id) // R7: freq = freq.flushreq
			}
			f.inLoop = true
			s.emitL("R %d", f.id) // R6: freq.Respond()
			newFrame()
		}
	case "respond.exit":
		if f := cur(); f != nil {
			if !f.r5 {
				f.r5 = true
				s.emitL("R %d", f.id)
			}
			if f.inLoop {
				s.emitL("R %d", f.id) // R7
			}
			s.emitL("R %d", f.id)
			delete(s.frames, frameKey{g, req})
		}
	case "flush.chained":
		s.emitL("F1 %d", ridOf(req))
		if a == 0 { // old tag not found: req.Respond() follows
			newFrame()
		}
	case "flush.decided":
		s.emitL("F2 %d", ridOf(req))
	case "flush.act":
		s.emitL("F3 %d", ridOf(req))
		if a&(2|8) == 0 { // not worked on: target.Respond() follows
			newFrame()
		}
	case "req.flush":
		s.emitL("RF %d", ridOf(req))
		newFrame()
	case "version.marked":
		s.emitL("V1 %d", ridOf(req))
		newFrame()
	case "respond.late":
		// a second answer: the library ignores it before touching the buffer (no model step)
		s.nlate++
	case "close.done":
		s.emitL("DC")
		s.closedLog = true
	}
}

// ---- the scripted implementation ----
type concOps struct {
	s           *concSession
	flushop     bool
	opened      int
	closedN     int
	destroys    []uint32
	destroyGate chan bool
	inDestroy   int
	flushGate   chan bool // FlushOp.Flush blocks on it (a slow cancel inside the implementation)
	inFlush     int
}

func (o *concOps) reqOf(req *go9p.SrvReq) *concReq {
	o.s.mu.Lock()
	defer o.s.mu.Unlock()
	id, ok := o.s.rid[req]
	if !ok {
		return nil
	}
	return o.s.reqInfo[id]
}

// packs the reply without responding (the exported PackR* functions)
func packAnswer(req *go9p.SrvReq, payload []byte) bool {
	switch req.Tc.Type {
	case go9p.Tstat:
		d := go9p.Dir{Name: string(payload)}
		return go9p.PackRstat(req.Rc, &d, req.Conn.Dotu) == nil
	case go9p.Tread:
		return go9p.PackRread(req.Rc, payload) == nil
	}
	return false
}

// two goroutines answer the same, already packed request at the same moment (a worker and a
// watchdog, say): exactly one of the two Respond calls may win
func (o *concOps) answerPar(req *go9p.SrvReq) {
	s := o.s
	var wg sync.WaitGroup
	var ready int32
	parBarrier.Store(req, new(int32))
	defer parBarrier.Delete(req)
	for i := 0; i < 2; i++ {
		wg.Add(1)
		go func() {
			defer wg.Done()
			g := gid()
			s.mu.Lock()
			s.answering[g] = true
			id := s.rid[req]
			s.reqInfo[id].answers++
			s.mu.Unlock()
			atomic.AddInt32(&ready, 1)
			for atomic.LoadInt32(&ready) < 2 {
			}
			req.Respond()
			s.mu.Lock()
			delete(s.answering, g)
			s.mu.Unlock()
		}()
	}
	wg.Wait()
}

func (o *concOps) answer(req *go9p.SrvReq, act concAction) {
	g := gid()
	s := o.s
	if act.par && packAnswer(req, act.payload) {
		// the implementation packed the reply itself (exported PackR*): no library schedule point
		s.mu.Lock()
		s.blabels = append(s.blabels, fmt.Sprintf("GP %d %d", s.rid[req], contentID(req.Rc.Pkt)))
		s.mu.Unlock()
		o.answerPar(req)
		return
	}
	for i := 0; i < act.answers; i++ {
		// mark this goroutine as "the implementation answering": the label AN is
		// logged at respond.enter (after the pack), nothing if the answer came late
		s.mu.Lock()
		s.answering[g] = true
		id := s.rid[req]
		s.reqInfo[id].answers++
		s.mu.Unlock()
		pl := act.payload
		if i > 0 {
			pl = append(append([]byte{}, pl...), []byte("-again")...) // an extra answer with different content
		}
		if act.errText != "" && i == 0 {
			req.RespondError(&go9p.Error{Err: act.errText, Errornum: 7})
		} else {
			respondAnswer(req, pl)
		}
		s.mu.Lock()
		delete(s.answering, g)
		s.mu.Unlock()
	}
}

func respondAnswer(req *go9p.SrvReq, payload []byte) {
	switch req.Tc.Type {
	case go9p.Tattach:
		req.RespondRattach(&go9p.Qid{Type: go9p.QTDIR, Path: 1})
	case go9p.Twalk:
		qs := make([]go9p.Qid, len(req.Tc.Wname))
		for i := range qs {
			qs[i] = go9p.Qid{Type: go9p.QTDIR, Path: uint64(payload[0])}
		}
		req.RespondRwalk(qs)
	case go9p.Tstat:
		d := go9p.Dir{Name: string(payload)}
		req.RespondRstat(&d)
	case go9p.Tread:
		req.RespondRread(payload)
	case go9p.Topen:
		req.RespondRopen(&go9p.Qid{Type: go9p.QTDIR, Path: uint64(len(payload))}, uint32(len(payload)))
	case go9p.Tcreate:
		req.RespondRcreate(&go9p.Qid{Path: uint64(len(payload))}, uint32(len(payload)))
	case go9p.Tclunk:
		req.RespondRclunk()
	case go9p.Tremove:
		req.RespondRremove()
	case go9p.Twrite:
		req.RespondRwrite(uint32(len(payload)))
	case go9p.Twstat:
		req.RespondRwstat()
	default:
		req.RespondError(&go9p.Error{Err: string(payload), Errornum: 9})
	}
}

func (o *concOps) op(req *go9p.SrvReq) {
	s := o.s
	s.mu.Lock()
	id := s.rid[req]
	s.emitL("OC %d", id)
	cr := s.reqInfo[id]
	cr.called = true
	s.mu.Unlock()
	act := <-cr.released // blocked inside the implementation until the plan releases it
	if act.async {
		go func() {
			time.Sleep(time.Duration(50+rng2(200)) * time.Microsecond)
			o.answer(req, act)
		}()
	} else {
		o.answer(req, act)
	}
	s.mu.Lock()
	s.emitL("OR %d", id)
	s.mu.Unlock()
}

var rng2mu sync.Mutex
var rng2state uint64 = 88172645463325252

func rng2(n int) int {
	rng2mu.Lock()
	rng2state ^= rng2state << 13
	rng2state ^= rng2state >> 7
	rng2state ^= rng2state << 17
	v := int(rng2state % uint64(n))
	rng2mu.Unlock()
	return v
}

func (o *concOps) Attach(r *go9p.SrvReq) { o.op(r) }
func (o *concOps) Walk(r *go9p.SrvReq)   { o.op(r) }
func (o *concOps) Open(r *go9p.SrvReq)   { o.op(r) }
func (o *concOps) Create(r *go9p.SrvReq) { o.op(r) }
func (o *concOps) Read(r *go9p.SrvReq)   { o.op(r) }
func (o *concOps) Write(r *go9p.SrvReq)  { o.op(r) }
func (o *concOps) Clunk(r *go9p.SrvReq)  { o.op(r) }
func (o *concOps) Remove(r *go9p.SrvReq) { o.op(r) }
func (o *concOps) Stat(r *go9p.SrvReq)   { o.op(r) }
func (o *concOps) Wstat(r *go9p.SrvReq)  { o.op(r) }
func (o *concOps) FidDestroy(f *go9p.SrvFid) {
	o.s.mu.Lock()
	o.destroys = append(o.destroys, go9p.VerifFidNum(f))
	g := o.destroyGate
	if g != nil {
		o.inDestroy++
	}
	o.s.mu.Unlock()
	if g != nil {
		<-g // a slow FidDestroy (Ufs closes the file here)
	}
}
func (o *concOps) ConnOpened(c *go9p.Conn) {}
func (o *concOps) ConnClosed(c *go9p.Conn) {
	o.s.mu.Lock()
	o.closedN++
	o.s.mu.Unlock()
}

type concOpsFlush struct{ concOps }

// FlushOp: decides, per target, whether to cancel it
func (o *concOpsFlush) Flush(target *go9p.SrvReq) {
	s := o.s
	g := gid()
	s.mu.Lock()
	tid := s.rid[target]
	cr := s.reqInfo[tid]
	wr := s.worker[g]
	seen := cr.called
	fg := o.flushGate
	if fg != nil {
		o.inFlush++
	}
	s.mu.Unlock()
	if fg != nil {
		<-fg
	}
	// a sane implementation only cancels requests it has been handed
	if seen && cr.flushCancel() {
		target.Flush()
	}
	s.mu.Lock()
	s.emitL("FR %d", wr)
	s.mu.Unlock()
}

var flushCancelTags sync.Map // tag -> bool, set by the plan

func (c *concReq) flushCancel() bool {
	v, ok := flushCancelTags.Load(c.tag)
	return ok && v.(bool)
}

// ---- sessions and plans ----
func newConcSession(maxpend int, flushop bool) *concSession {
	s := &concSession{rid: map[*go9p.SrvReq]int{}, frames: map[frameKey]*frameSt{}, expect: map[uint64]int{},
		winner: map[*go9p.SrvReq]*frameSt{}, worker: map[uint64]int{}, answering: map[uint64]bool{}, bufID: map[*go9p.Fcall]int{}, sending: -1}
	var ops interface{}
	if flushop {
		o := &concOpsFlush{}
		o.s = s
		o.flushop = true
		s.ops = &o.concOps
		ops = o
	} else {
		o := &concOps{s: s}
		s.ops = o
		ops = o
	}
	s.srv = &go9p.Srv{Msize: 8192, Dotu: true, Id: "conc", Maxpend: maxpend}
	s.srv.Log = sharedLogger()
	if !s.srv.Start(ops) {
		panic("start")
	}
	hookTable.Store(s.srv, s.hook)
	s.conn = newSegConn()
	s.conn.onWrite = func(p []byte) {
		// called by the transport with the bytes it was given (under the transport's lock)
		s.mu.Lock()
		if s.sending >= 0 {
			s.blabels = append(s.blabels, fmt.Sprintf("W %d %d", s.sending, contentID(p)))
		}
		s.mu.Unlock()
	}
	s.srv.NewConn(s.conn)
	return s
}

func (s *concSession) waitReq(tag uint16, timeout time.Duration) *concReq {
	deadline := time.Now().Add(timeout)
	for time.Now().Before(deadline) {
		s.mu.Lock()
		for i := len(s.reqInfo) - 1; i >= 0; i-- {
			if s.reqInfo[i].tag == tag {
				cr := s.reqInfo[i]
				s.mu.Unlock()
				return cr
			}
		}
		s.mu.Unlock()
		time.Sleep(20 * time.Microsecond)
	}
	return nil
}

func (s *concSession) waitLabel(prefix string, timeout time.Duration) bool {
	deadline := time.Now().Add(timeout)
	for time.Now().Before(deadline) {
		s.mu.Lock()
		for _, l := range s.labels {
			if l == prefix {
				s.mu.Unlock()
				return true
			}
		}
		s.mu.Unlock()
		time.Sleep(20 * time.Microsecond)
	}
	return false
}

func (s *concSession) waitReplies(n int, timeout time.Duration) bool {
	deadline := time.Now().Add(timeout)
	for time.Now().Before(deadline) {
		if len(s.conn.frames()) >= n {
			return true
		}
		time.Sleep(20 * time.Microsecond)
	}
	return false
}

// settle waits until no new label has been logged for a while
func (s *concSession) settle() {
	last, stable := -1, 0
	for i := 0; i < 2000 && stable < 15; i++ {
		time.Sleep(100 * time.Microsecond)
		s.mu.Lock()
		n := len(s.labels)
		s.mu.Unlock()
		if n == last {
			stable++
		} else {
			last, stable = n, 0
		}
	}
}

func (s *concSession) finish(kind string, flushedByClient map[uint16]bool) string {
	s.settle()
	hookTable.Delete(s.srv)
	s.mu.Lock()
	defer s.mu.Unlock()
	if bufMode {
		return fmt.Sprintf("BL %s %d %s ; NOTE %s", kind, len(s.blabels), strings.Join(s.blabels, " "), strings.Join(append(s.notes, "-"), ","))
	}
	var sb strings.Builder
	fp := 0
	if s.ops.flushop {
		fp = 1
	}
	fmt.Fprintf(&sb, "CH %s %d %d %d", kind, s.srv.Maxpend, fp, len(s.labels))
	for _, l := range s.labels {
		sb.WriteString(" " + l)
	}
	wf := s.conn.frames()
	fmt.Fprintf(&sb, " ; WIRE %d", len(wf))
	for _, f := range wf {
		fmt.Fprintf(&sb, " %d %d", uint16(f[5])|uint16(f[6])<<8, contentID(f))
	}
	fmt.Fprintf(&sb, " ; REQ %d", len(s.reqInfo))
	for i, r := range s.reqInfo {
		fmt.Fprintf(&sb, " %d %d %s %d %d", i, r.tag, kindStr(r.req.Tc), r.answers, b2i(flushedByClient[r.tag]))
	}
	fmt.Fprintf(&sb, " ; CLOSED %d ; NOTE %s", s.ops.closedN, strings.Join(append(s.notes, "-"), ","))
	return sb.String()
}

func (s *concSession) send(frames ...[]byte) {
	var seg []byte
	for _, f := range frames {
		seg = append(seg, f...)
	}
	s.conn.push(seg)
}

func (s *concSession) setup() {
	s.send(mkFrame(&gmsg{kind: go9p.Tversion, a: 8192, s1: []byte("9P2000.u")}, false, go9p.NOTAG))
	s.waitReplies(1, 2*time.Second)
	s.send(mkFrame(&gmsg{kind: go9p.Tattach, a: 0, b: uint64(go9p.NOFID), s1: []byte("u"), s2: []byte(""), c: 1}, true, 1))
	if cr := s.waitReq(1, 2*time.Second); cr != nil {
		s.waitLabel(fmt.Sprintf("OC %d", 1), 2*time.Second)
		cr.released <- concAction{answers: 1, payload: []byte{1}}
	}
	s.waitReplies(2, 2*time.Second)
}

func statReq(tag uint16, fid uint32) []byte {
	return mkFrame(&gmsg{kind: go9p.Tstat, a: uint64(fid)}, true, tag)
}

func flushReq(tag, old uint16) []byte {
	return mkFrame(&gmsg{kind: go9p.Tflush, a: uint64(old)}, true, tag)
}

func permute(n int) []int {
	p := rng.Perm(n)
	return p
}

// kind "perm": k requests blocked in the implementation, released in a random order
func concPerm(maxpend int, flushop bool, k int, dup bool) string {
	s := newConcSession(maxpend, flushop)
	s.setup()
	base := uint16(100)
	var fr [][]byte
	for i := 0; i < k; i++ {
		if i%4 == 3 {
			fr = append(fr, statReq(base+uint16(i), 999)) // unknown fid: rejected by the framework
		} else {
			fr = append(fr, statReq(base+uint16(i), 0))
		}
	}
	if rng.Intn(2) == 0 {
		s.send(fr...)
	} else {
		for _, f := range fr {
			s.send(f)
		}
	}
	nrej := 0
	for i := 0; i < k; i++ {
		if i%4 == 3 {
			nrej++
			continue
		}
		s.waitReq(base+uint16(i), 2*time.Second)
	}
	order := permute(k)
	for _, i := range order {
		if i%4 == 3 {
			continue
		}
		cr := s.waitReq(base+uint16(i), 2*time.Second)
		if cr == nil {
			continue
		}
		act := concAction{answers: 1, payload: []byte(fmt.Sprintf("payload-%d-%d", i, rng.Intn(1000)))}
		if dup && rng.Intn(2) == 0 {
			act.answers = 2 // same content twice
		}
		if dup && rng.Intn(3) == 0 {
			act.par, act.answers = true, 1
		}
		if rng.Intn(4) == 0 {
			act.errText = fmt.Sprintf("err-%d", i)
		}
		act.async = rng.Intn(3) == 0
		cr.released <- act
		if rng.Intn(2) == 0 {
			time.Sleep(time.Duration(rng.Intn(100)) * time.Microsecond)
		}
	}
	s.waitReplies(2+k, 3*time.Second)
	return s.finish("perm", nil)
}

// kind "flush": a target and a Tflush arriving at a chosen stage of the target's life
func concFlush(maxpend int, flushop bool, stage int, cancel bool) string {
	s := newConcSession(maxpend, flushop)
	s.setup()
	const tt, ft = 200, 201
	flushed := map[uint16]bool{tt: true}
	flushCancelTags.Store(uint16(tt), cancel)
	target := statReq(tt, 0)
	switch stage {
	case 0: // same segment as the request: flush may arrive before the target starts
		s.send(target, flushReq(ft, tt))
		if cr := s.waitReq(tt, 2*time.Second); cr != nil {
			// if it was started anyway, let it finish
			select {
			case cr.released <- concAction{answers: 1, payload: []byte("t0")}:
			default:
			}
		}
	case 1: // target blocked in the implementation, then flushed; implementation answers later
		s.send(target)
		cr := s.waitReq(tt, 2*time.Second)
		s.waitLabel(fmt.Sprintf("OC %d", 2), 2*time.Second)
		s.send(flushReq(ft, tt))
		s.waitLabel("F3 3", 2*time.Second)
		time.Sleep(200 * time.Microsecond)
		if cr != nil {
			cr.released <- concAction{answers: 1, payload: []byte("t1")}
		}
	case 2: // already answered
		s.send(target)
		cr := s.waitReq(tt, 2*time.Second)
		if cr != nil {
			cr.released <- concAction{answers: 1, payload: []byte("t2")}
		}
		s.waitReplies(3, 2*time.Second)
		s.send(flushReq(ft, tt))
	case 3: // unknown tag
		s.send(flushReq(ft, 999))
	case 4: // flush of a flush, and two flushes of one request
		s.send(target)
		cr := s.waitReq(tt, 2*time.Second)
		s.waitLabel(fmt.Sprintf("OC %d", 2), 2*time.Second)
		s.send(flushReq(ft, tt), flushReq(ft+1, tt), flushReq(ft+2, ft))
		time.Sleep(500 * time.Microsecond)
		if cr != nil {
			cr.released <- concAction{answers: 1, payload: []byte("t4")}
		}
	case 5: // the implementation is answering while the flush arrives
		s.send(target)
		cr := s.waitReq(tt, 2*time.Second)
		s.waitLabel(fmt.Sprintf("OC %d", 2), 2*time.Second)
		if cr != nil {
			cr.released <- concAction{answers: 1, payload: []byte("t5"), async: true}
		}
		s.send(flushReq(ft, tt))
	}
	s.waitReplies(3, 500*time.Millisecond)
	flushCancelTags.Delete(uint16(tt))
	return s.finish(fmt.Sprintf("flush%d", stage), flushed)
}

// kind "flushwalk": a Twalk to a new fid is cancelled by the implementation (FlushOp) while it executes:
// only the Rflush arrives, and nothing of the walk may stay behind - the number of the new fid is free again
// (a second Twalk to it reaches the implementation), the cancelled fid was given back (FidDestroy)
func concFlushWalk(maxpend int) string {
	s := newConcSession(maxpend, true)
	s.setup()
	const tt, ft, pt = 210, 211, 213
	flushed := map[uint16]bool{tt: true}
	flushCancelTags.Store(uint16(tt), true)
	walk := func(tag uint16) []byte {
		return mkFrame(&gmsg{kind: go9p.Twalk, a: 0, b: 5, names: [][]byte{[]byte("a")}}, true, tag)
	}
	s.send(walk(tt))
	cr := s.waitReq(tt, 2*time.Second)
	s.waitLabel(fmt.Sprintf("OC %d", 2), 2*time.Second)
	s.send(flushReq(ft, tt))
	s.waitReplies(3, 2*time.Second)
	if cr != nil {
		cr.released <- concAction{answers: 1, payload: []byte("w")} // answers late: dropped
	}
	time.Sleep(300 * time.Microsecond)
	s.mu.Lock()
	ndestroyed := 0
	for _, f := range s.ops.destroys {
		if f == 5 {
			ndestroyed++
		}
	}
	s.mu.Unlock()
	if ndestroyed != 1 {
		s.note("C07.cancelled_walk_newfid_destroyed_%d_times", ndestroyed)
	}
	// the probe: the same walk again
	s.send(walk(pt))
	reached := false
	if pr := s.waitReq(pt, 2*time.Second); pr != nil {
		dl := time.Now().Add(time.Second)
		for time.Now().Before(dl) {
			s.mu.Lock()
			reached = pr.called
			s.mu.Unlock()
			if reached || len(s.conn.frames()) >= 4 {
				break
			}
			time.Sleep(50 * time.Microsecond)
		}
		if reached {
			pr.released <- concAction{answers: 1, payload: []byte("p")}
		}
	}
	if !reached {
		s.note("C07.cancelled_walk_left_its_newfid_behind")
	}
	s.waitReplies(4, time.Second)
	flushCancelTags.Delete(uint16(tt))
	return s.finish("flushwalk", flushed)
}

// kind "flushcycle": a Tflush naming its own tag, or two Tflush naming each other
func concFlushCycle(maxpend int, mutual bool) string {
	s := newConcSession(maxpend, false)
	s.setup()
	if mutual {
		s.send(flushReq(210, 211), flushReq(211, 210))
	} else {
		s.send(flushReq(210, 210))
	}
	s.waitReplies(3, 300*time.Millisecond)
	k := "flushself"
	if mutual {
		k = "flushmutual"
	}
	return s.finish(k, nil)
}

// kind "group": requests deliberately sharing one tag, mixed with others
func concGroup(maxpend int, n int) string {
	s := newConcSession(maxpend, false)
	s.setup()
	const gt = 300
	var fr [][]byte
	for i := 0; i < n; i++ {
		fr = append(fr, mkFrame(&gmsg{kind: go9p.Tread, a: 0, b: uint64(i), c: 16}, true, gt))
		if i%2 == 0 {
			fr = append(fr, statReq(uint16(400+i), 0))
		}
	}
	s.send(fr...)
	// release whatever shows up, oldest first, until everything is answered
	want := 2 + len(fr)
	deadline := time.Now().Add(4 * time.Second)
	done := map[*concReq]bool{}
	for len(s.conn.frames()) < want && time.Now().Before(deadline) {
		s.mu.Lock()
		var pend []*concReq
		for i, cr := range s.reqInfo {
			if i >= 2 && !done[cr] {
				pend = append(pend, cr)
			}
		}
		called := map[int]bool{}
		for _, l := range s.labels {
			if strings.HasPrefix(l, "OC ") {
				id, _ := strconv.Atoi(l[3:])
				called[id] = true
			}
		}
		ridOf := map[*concReq]int{}
		for i, cr := range s.reqInfo {
			ridOf[cr] = i
		}
		s.mu.Unlock()
		for _, cr := range pend {
			if called[ridOf[cr]] {
				done[cr] = true
				cr.released <- concAction{answers: 1, payload: []byte(fmt.Sprintf("g-%d", cr.req.Tc.Offset))}
			}
		}
		time.Sleep(50 * time.Microsecond)
	}
	return s.finish("group", nil)
}

// kind "disc": requests blocked in the implementation when the client goes away
func concDisconnect(maxpend int, k int) string {
	s := newConcSession(maxpend, false)
	s.setup()
	var crs []*concReq
	for i := 0; i < k; i++ {
		s.send(statReq(uint16(500+i), 0))
	}
	for i := 0; i < k; i++ {
		if cr := s.waitReq(uint16(500+i), 2*time.Second); cr != nil {
			crs = append(crs, cr)
			s.waitLabel(fmt.Sprintf("OC %d", 2+i), time.Second)
		}
	}
	// answer some before, some after the disconnect
	for i, cr := range crs {
		if i%2 == 0 && rng.Intn(2) == 0 {
			cr.released <- concAction{answers: 1, payload: []byte("before")}
			crs[i] = nil
		}
	}
	s.conn.mu.Lock()
	s.conn.eof = true
	s.conn.cond.Broadcast()
	s.conn.mu.Unlock()
	s.waitLabel("DC", 2*time.Second)
	for _, i := range permute(len(crs)) {
		if crs[i] != nil {
			crs[i].released <- concAction{answers: 1, payload: []byte("after"), async: rng.Intn(2) == 0}
		}
	}
	return s.finish("disc", nil)
}

// typed request frames for the flush / recycling scenarios
func typedReq(tk int, tag uint16, fid uint32, nf uint32) []byte {
	switch tk {
	case 1:
		return mkFrame(&gmsg{kind: go9p.Tread, a: uint64(fid), b: 0, c: 16}, true, tag)
	case 2:
		return mkFrame(&gmsg{kind: go9p.Twalk, a: uint64(fid), b: uint64(nf), names: [][]byte{[]byte("x")}}, true, tag)
	case 3:
		return mkFrame(&gmsg{kind: go9p.Twalk, a: uint64(fid), b: uint64(nf), names: nil}, true, tag)
	case 4:
		return mkFrame(&gmsg{kind: go9p.Tattach, a: uint64(nf), b: uint64(go9p.NOFID), s1: []byte("u"), s2: []byte(""), c: 1}, true, tag)
	}
	return statReq(tag, fid)
}

// releases every request with a tag in [lo,hi) as soon as the implementation has it
func (s *concSession) releaseRange(lo, hi uint16, n int, payload string) {
	deadline := time.Now().Add(3 * time.Second)
	done := map[*concReq]bool{}
	for len(done) < n && time.Now().Before(deadline) {
		s.mu.Lock()
		var rel []*concReq
		for _, cr := range s.reqInfo {
			if cr.tag >= lo && cr.tag < hi && cr.called && !done[cr] {
				rel = append(rel, cr)
			}
		}
		s.mu.Unlock()
		for _, cr := range rel {
			done[cr] = true
			cr.released <- concAction{answers: 1, payload: []byte(payload)}
		}
		time.Sleep(30 * time.Microsecond)
	}
}

// kind "slowwrite": the transport accepts the first reply slowly while another request arrives
// and is answered: the bytes of the first reply must not change while they are being written
func concSlowWrite(maxpend int) string {
	s := newConcSession(maxpend, false)
	s.setup()
	// two completed requests first: the connection's reply buffers are being recycled
	s.send(statReq(300, 0))
	s.releaseRange(300, 301, 1, "warm-a")
	s.waitReplies(3, 2*time.Second)
	s.conn.setHoldWrites(true)
	s.send(statReq(310, 0))
	s.releaseRange(310, 311, 1, "first-reply-AAAAAAAAAAAAAAAAAAAAAAAAAAAAAAAAAAAAAAAA")
	deadline := time.Now().Add(2 * time.Second)
	for s.conn.writersBlocked() == 0 && time.Now().Before(deadline) {
		time.Sleep(20 * time.Microsecond)
	}
	// the first reply is being written; more requests arrive and are answered meanwhile
	for i := 0; i < 3; i++ {
		s.send(typedReq(i%2, uint16(320+i), 0, 0))
	}
	s.releaseRange(320, 323, 3, "later-reply-CCCCCCCCCCCCCCCCCCCCCCCCCCCCCCCCCCCCCCCCCCCCCCCC")
	time.Sleep(500 * time.Microsecond)
	s.conn.setHoldWrites(false)
	s.waitReplies(7, 3*time.Second)
	return s.finish("slowwrite", nil)
}

// kind "flushq": the target waits behind an older request with the same tag (queued, never
// started) when the Tflush arrives; every target type, reply buffers recycled from replies of
// the same type
func concFlushQueued(maxpend int, flushop bool, tk int) string {
	s := newConcSession(maxpend, flushop)
	s.setup()
	nf := uint32(10)
	// warm-up: replies of the target's type go through the recycled buffers
	// (in flight together, so that several distinct buffers end up in the recycling pool)
	for i := 0; i < 3; i++ {
		s.send(typedReq(tk, uint16(600+i), 0, nf))
		nf++
	}
	s.releaseRange(600, 603, 3, "w")
	s.waitReplies(5, 2*time.Second)
	const tt, ft = 700, 701
	flushed := map[uint16]bool{tt: true}
	flushCancelTags.Store(uint16(tt), true)
	s.send(typedReq(tk, tt, 0, nf)) // the older request: handed to the implementation and blocked there
	older := s.waitReq(tt, 2*time.Second)
	if older != nil {
		deadline := time.Now().Add(2 * time.Second)
		for time.Now().Before(deadline) {
			s.mu.Lock()
			c := older.called
			s.mu.Unlock()
			if c {
				break
			}
			time.Sleep(20 * time.Microsecond)
		}
	}
	s.send(typedReq(tk, tt, 0, nf+1)) // the target: same tag, queued behind it
	time.Sleep(300 * time.Microsecond)
	s.send(flushReq(ft, tt))
	time.Sleep(500 * time.Microsecond)
	if older != nil {
		older.released <- concAction{answers: 1, payload: []byte("older")}
	}
	// should the target be started after all, let it finish
	deadline := time.Now().Add(300 * time.Millisecond)
	for time.Now().Before(deadline) {
		s.mu.Lock()
		var late *concReq
		for _, cr := range s.reqInfo {
			if cr.tag == tt && cr != older && cr.called && cr.answers == 0 {
				late = cr
			}
		}
		s.mu.Unlock()
		if late != nil {
			select {
			case late.released <- concAction{answers: 1, payload: []byte("target-ran")}:
			default:
			}
			break
		}
		if len(s.conn.frames()) >= 7 {
			break
		}
		time.Sleep(50 * time.Microsecond)
	}
	s.waitReplies(7, time.Second)
	return s.finish("flushq", flushed)
}

// kind "flushpair": two Tflush in one segment, the second naming the first (which names a tag that is not
// outstanding, or a request blocked in the implementation): the first is often not started yet when the second
// looks it up. Both must be answered - a Tflush is not a request that can be cancelled
func concFlushPair(maxpend int, blocked bool) string {
	s := newConcSession(maxpend, false)
	s.setup()
	const tt, f1, f2 = 730, 731, 732
	flushed := map[uint16]bool{}
	var cr *concReq
	old := uint16(999)
	if blocked {
		s.send(statReq(tt, 0))
		cr = s.waitReq(tt, 2*time.Second)
		s.waitLabel(fmt.Sprintf("OC %d", 2), 2*time.Second)
		old = tt
		flushed[tt] = true
	}
	s.send(flushReq(f1, old), flushReq(f2, f1))
	time.Sleep(500 * time.Microsecond)
	if cr != nil {
		cr.released <- concAction{answers: 1, payload: []byte("t")}
	}
	want := 4
	if blocked {
		want = 5
	}
	s.waitReplies(want, time.Second)
	return s.finish("flushpair", flushed)
}

// kind "vertag": a Tversion sent with an ordinary tag is a request like any other: it is answered, with its tag
func concVersionTag(maxpend int) string {
	s := newConcSession(maxpend, false)
	s.setup()
	s.send(mkFrame(&gmsg{kind: go9p.Tversion, a: 8192, s1: []byte("9P2000.u")}, false, 77))
	s.waitReplies(3, time.Second)
	got := false
	for _, f := range s.conn.frames() {
		if uint16(f[5])|uint16(f[6])<<8 == 77 && f[4] == go9p.Rversion {
			got = true
		}
	}
	if !got {
		s.note("C03.request_never_answered_tversion_with_ordinary_tag|C12.tversion_not_answered")
	}
	return s.finish("vertag", map[uint16]bool{})
}

// kind "vermid": a Tversion in the middle of a session, while A (tag t) executes, B (tag t) waits behind it
// and C (another tag) executes: none of them may be answered after the Rversion (their replies would carry
// the old msize and dialect); the whole tag group is cancelled, not only its newest member
func concVersionMid(maxpend int) string {
	s := newConcSession(maxpend, false)
	s.setup()
	const gt = 310
	s.send(mkFrame(&gmsg{kind: go9p.Tread, a: 0, b: 0, c: 16}, true, gt))
	a := s.waitReq(gt, 2*time.Second)
	if a == nil {
		return s.finish("vermid", nil)
	}
	s.waitLabel("OC 2", 2*time.Second)
	s.send(mkFrame(&gmsg{kind: go9p.Tread, a: 0, b: 1, c: 16}, true, gt), statReq(411, 0))
	if c := s.waitReq(411, 2*time.Second); c != nil {
		s.waitLabel("OC 4", 2*time.Second)
	}
	s.send(mkFrame(&gmsg{kind: go9p.Tversion, a: 4096, s1: []byte("9P2000.u")}, false, go9p.NOTAG))
	s.waitReplies(3, 2*time.Second)
	nbefore := len(s.conn.frames())
	// release whatever the implementation was handed, oldest first
	done := map[*concReq]bool{}
	last := time.Now()
	deadline := time.Now().Add(100 * time.Millisecond)
	for time.Now().Before(deadline) {
		s.mu.Lock()
		called := map[int]bool{}
		for _, l := range s.labels {
			if strings.HasPrefix(l, "OC ") {
				id, _ := strconv.Atoi(l[3:])
				called[id] = true
			}
		}
		var pend []*concReq
		for i, cr := range s.reqInfo {
			if i >= 2 && !done[cr] && called[i] {
				pend = append(pend, cr)
			}
		}
		s.mu.Unlock()
		for _, cr := range pend {
			done[cr] = true
			last = time.Now()
			cr.released <- concAction{answers: 1, payload: []byte(fmt.Sprintf("v-%d", cr.req.Tc.Offset))}
		}
		if len(done) >= 2 && time.Since(last) > 10*time.Millisecond {
			break // A and C released; B is cancelled (or, were it not, would have been handed over by now)
		}
		time.Sleep(100 * time.Microsecond)
	}
	s.settle()
	fr := s.conn.frames()
	nver := 0
	for i, f := range fr {
		if f[4] == go9p.Rversion {
			nver++
			continue
		}
		tag := uint16(f[5]) | uint16(f[6])<<8
		if nver >= 2 && i >= nbefore-1 && (tag == gt || tag == 411) {
			s.mu.Lock()
			s.note(fmt.Sprintf("C12.reply_after_rversion_to_a_request_from_before_it|C03.reply_for_tag_no_longer_outstanding_tag=%d", tag))
			s.mu.Unlock()
		}
	}
	if nver < 2 {
		s.mu.Lock()
		s.note("C12.tversion_not_answered")
		s.mu.Unlock()
	}
	return s.finish("vermid", map[uint16]bool{gt: true, 411: true})
}

// kind "flushgroup1": a Tflush that names a tag shared by several requests: A (tag t) executes, B (tag t) waits
// behind it, Tflush(t) cancels B; a request C sent under tag t afterwards must still wait for A (one at a time,
// in arrival order). (The other interaction - a Tflush chained onto A moves on to a later member of the group and
// is answered when the group is done - is the library's deliberate reading of "the tag is free after Rflush".)
func concFlushGroup(maxpend int, variant int) string {
	s := newConcSession(maxpend, false)
	s.setup()
	const tt, ft = 720, 721
	flushed := map[uint16]bool{}
	isCalled := func(cr *concReq) bool {
		if cr == nil {
			return false
		}
		s.mu.Lock()
		defer s.mu.Unlock()
		return cr.called
	}
	nth := func(n int) *concReq { // the n-th request (0-based) with tag tt
		s.mu.Lock()
		defer s.mu.Unlock()
		k := 0
		for _, cr := range s.reqInfo {
			if cr.tag == tt {
				if k == n {
					return cr
				}
				k++
			}
		}
		return nil
	}
	waitNth := func(n int) *concReq {
		dl := time.Now().Add(2 * time.Second)
		for time.Now().Before(dl) {
			if cr := nth(n); cr != nil {
				return cr
			}
			time.Sleep(30 * time.Microsecond)
		}
		return nil
	}
	s.send(statReq(tt, 0))
	a := waitNth(0)
	dl := time.Now().Add(2 * time.Second)
	for !isCalled(a) && time.Now().Before(dl) {
		time.Sleep(30 * time.Microsecond)
	}
	if variant == 1 {
		s.send(statReq(tt, 0)) // B: queued behind A
		b := waitNth(1)
		time.Sleep(300 * time.Microsecond)
		s.send(flushReq(ft, tt))
		s.waitReplies(3, 2*time.Second) // the Rflush
		s.send(statReq(tt, 0))          // C
		c := waitNth(2)
		time.Sleep(3 * time.Millisecond)
		if isCalled(c) {
			s.note("C08.shared_tag_member_started_while_older_executes")
		}
		if a != nil {
			a.released <- concAction{answers: 1, payload: []byte("A")}
		}
		dl := time.Now().Add(time.Second)
		for time.Now().Before(dl) {
			for _, cr := range []*concReq{b, c} {
				if isCalled(cr) {
					select {
					case cr.released <- concAction{answers: 1, payload: []byte("late")}:
					default:
					}
				}
			}
			if len(s.conn.frames()) >= 5 {
				break
			}
			time.Sleep(100 * time.Microsecond)
		}
		time.Sleep(2 * time.Millisecond)
		for _, cr := range []*concReq{b, c} {
			if isCalled(cr) {
				select {
				case cr.released <- concAction{answers: 1, payload: []byte("late")}:
				default:
				}
			}
		}
		flushed[tt] = true
	}
	return s.finish(fmt.Sprintf("flushgroup%d", variant), flushed)
}

// kind "slowdestroy": a clunk whose FidDestroy is slow inside the implementation must not delay
// requests with other tags
func concSlowDestroy(maxpend int) string {
	s := newConcSession(maxpend, false)
	s.setup()
	s.send(typedReq(3, 800, 0, 50)) // clone fid 0 -> 50
	s.releaseRange(800, 801, 1, "w")
	s.waitReplies(3, 2*time.Second)
	gate := make(chan bool)
	s.mu.Lock()
	s.ops.destroyGate = gate
	s.mu.Unlock()
	s.send(mkFrame(&gmsg{kind: go9p.Tclunk, a: 50}, true, 810))
	s.releaseRange(810, 811, 1, "c")
	deadline := time.Now().Add(2 * time.Second)
	for time.Now().Before(deadline) {
		s.mu.Lock()
		n := s.ops.inDestroy
		s.mu.Unlock()
		if n > 0 {
			break
		}
		time.Sleep(20 * time.Microsecond)
	}
	before := len(s.conn.frames())
	for i := 0; i < 3; i++ {
		s.send(statReq(uint16(820+i), 0))
	}
	s.releaseRange(820, 823, 3, "independent")
	ok := s.waitReplies(before+3, 4*time.Second)
	if !ok {
		s.mu.Lock()
		s.note("C08.request_delayed_by_slow_FidDestroy_of_another_tag")
		s.mu.Unlock()
	}
	s.mu.Lock()
	s.ops.destroyGate = nil
	s.mu.Unlock()
	close(gate)
	s.waitReplies(before+4, 2*time.Second)
	return s.finish("slowdestroy", nil)
}

// kind "discslow": the client stops reading, so replies pile up behind a blocked Write and at
// the hand-over to the send goroutine, then it disconnects: every Respond must still finish
func concDisconnectSlow(maxpend int, k int) string {
	s := newConcSession(maxpend, false)
	s.setup()
	s.conn.setHoldWrites(true)
	for i := 0; i < k; i++ {
		s.send(statReq(uint16(900+i), 0))
	}
	s.releaseRange(900, uint16(900+k), k, "piled-up")
	deadline := time.Now().Add(time.Second)
	for s.conn.writersBlocked() == 0 && time.Now().Before(deadline) {
		time.Sleep(20 * time.Microsecond)
	}
	time.Sleep(time.Duration(100+rng.Intn(400)) * time.Microsecond)
	s.conn.mu.Lock()
	s.conn.eof = true
	s.conn.closed = true // the dead socket fails the blocked Write
	s.conn.cond.Broadcast()
	s.conn.mu.Unlock()
	if !s.waitLabel("DC", 2*time.Second) {
		s.mu.Lock()
		s.note("C11.connection_not_closed_after_disconnect")
		s.mu.Unlock()
	}
	return s.finish("discslow", nil)
}

// kind "discver": a reply is stuck in a Write that then fails (the client is gone) while
// Tversion frames, which the receive loop answers itself, are still in the receive buffer
func concDisconnectVersion(maxpend int, nver int) string {
	s := newConcSession(maxpend, false)
	s.setup()
	s.conn.setHoldWrites(true)
	s.send(statReq(950, 0))
	s.releaseRange(950, 951, 1, "stuck")
	deadline := time.Now().Add(time.Second)
	for s.conn.writersBlocked() == 0 && time.Now().Before(deadline) {
		time.Sleep(20 * time.Microsecond)
	}
	var fr [][]byte
	for i := 0; i < nver; i++ {
		fr = append(fr, mkFrame(&gmsg{kind: go9p.Tversion, a: 8192, s1: []byte("9P2000.u")}, false, go9p.NOTAG))
	}
	s.conn.mu.Lock()
	var seg []byte
	for _, f := range fr {
		seg = append(seg, f...)
	}
	s.conn.segs = append(s.conn.segs, seg)
	s.conn.eof = true
	s.conn.closed = true // Write fails from now on; Read still delivers what was received
	s.conn.cond.Broadcast()
	s.conn.mu.Unlock()
	if !s.waitLabel("DC", 2*time.Second) {
		s.mu.Lock()
		s.note("C11.connection_not_closed_after_disconnect")
		s.mu.Unlock()
	}
	return s.finish("discver", nil)
}

// kind "lateanswer": a second answer to request A passes the already-answered test, is then
// delayed until A's reply was sent and A's buffer was recycled to request B, and packs only
// while B's reply is being written: B's bytes on the wire must still be B's
func concLateAnswer(maxpend int) string {
	s := newConcSession(maxpend, false)
	s.setup()
	s.send(mkFrame(&gmsg{kind: go9p.Tread, a: 0, b: 0, c: 64}, true, 1000))
	a := s.waitReq(1000, 2*time.Second)
	if a == nil {
		return s.finish("lateanswer", nil)
	}
	deadline := time.Now().Add(2 * time.Second)
	for time.Now().Before(deadline) {
		s.mu.Lock()
		c := a.called
		s.mu.Unlock()
		if c {
			break
		}
		time.Sleep(20 * time.Microsecond)
	}
	// the late answerer: passes the test now, packs much later
	gate := make(chan bool)
	lateDone := make(chan bool)
	go func() {
		g := gid()
		pauseAt.Store(g, gate)
		s.mu.Lock()
		s.answering[g] = true
		a.answers++
		s.mu.Unlock()
		a.req.RespondRread([]byte("LATE-ANSWER-FOR-A-LATE-ANSWER-FOR-A-LATE-ANSWER-FOR-A"))
		s.mu.Lock()
		delete(s.answering, g)
		s.mu.Unlock()
		pauseAt.Delete(g)
		close(lateDone)
	}()
	deadline = time.Now().Add(2 * time.Second)
	for time.Now().Before(deadline) {
		s.mu.Lock()
		p := s.paused
		s.mu.Unlock()
		if p > 0 {
			break
		}
		time.Sleep(20 * time.Microsecond)
	}
	// the regular answer: A is answered, its reply sent, its buffer recycled
	a.released <- concAction{answers: 1, payload: []byte("first-answer-for-A")}
	gateOpen := false
	if !s.waitReplies(3, 300*time.Millisecond) {
		// the test and the pack are one critical section: the held answerer holds the request's
		// lock and the regular answer waits for it. Let it go: it becomes the first answer.
		close(gate)
		gateOpen = true
		s.waitReplies(3, 2*time.Second)
	}
	time.Sleep(300 * time.Microsecond)
	// B takes the recycled buffer; its reply is held in the Write
	s.conn.setHoldWrites(true)
	s.send(mkFrame(&gmsg{kind: go9p.Tread, a: 0, b: 0, c: 64}, true, 1001))
	s.releaseRange(1001, 1002, 1, "the-answer-for-B-the-answer-for-B-the-answer-for-B-the-answer-for-B")
	deadline = time.Now().Add(2 * time.Second)
	for s.conn.writersBlocked() == 0 && time.Now().Before(deadline) {
		time.Sleep(20 * time.Microsecond)
	}
	if !gateOpen {
		close(gate) // now the late answerer packs
	}
	select {
	case <-lateDone:
	case <-time.After(2 * time.Second):
	}
	s.conn.setHoldWrites(false)
	s.waitReplies(4, 2*time.Second)
	return s.finish("lateanswer", nil)
}

var bufMode bool // srvconc buf: print the buffer life-cycle labels instead of the request life-cycle trace

// kind "flushr3": the Tflush arrives while the target's Respond is between its post-processing
// and the hand-over of the reply (held at the schedule point respond.R3)
func concFlushAtR3(maxpend int, flushop bool) string {
	s := newConcSession(maxpend, flushop)
	s.setup()
	const tt, ft = 1100, 1101
	flushed := map[uint16]bool{tt: true}
	pt := &tagPause{tag: tt, ch: make(chan bool)}
	pauseTag.Store(s, pt)
	defer pauseTag.Delete(s)
	s.send(statReq(tt, 0))
	s.releaseRange(tt, tt+1, 1, "answer-of-the-target")
	deadline := time.Now().Add(2 * time.Second)
	for atomic.LoadInt32(&pt.hit) == 0 && time.Now().Before(deadline) {
		time.Sleep(20 * time.Microsecond)
	}
	s.send(flushReq(ft, tt))
	// the flush is worked on (chained behind the target, or answered at once if the target is gone)
	deadline = time.Now().Add(time.Second)
	for time.Now().Before(deadline) {
		s.mu.Lock()
		seen := false
		for _, l := range s.labels {
			if strings.HasPrefix(l, "F1 ") {
				seen = true
			}
		}
		s.mu.Unlock()
		if seen {
			break
		}
		time.Sleep(20 * time.Microsecond)
	}
	time.Sleep(500 * time.Microsecond)
	close(pt.ch)
	s.waitReplies(4, 2*time.Second)
	return s.finish("flushr3", flushed)
}

// kind "slowflushop": a Tflush whose FlushOp is slow inside the implementation must not delay
// requests with other tags (only Tversion is handled in the receive goroutine)
func concSlowFlushOp(maxpend int) string {
	s := newConcSession(maxpend, true)
	s.setup()
	const tt, ft = 1200, 1201
	flushed := map[uint16]bool{tt: true}
	flushCancelTags.Store(uint16(tt), false)
	defer flushCancelTags.Delete(uint16(tt))
	s.send(statReq(tt, 0))
	cr := s.waitReq(tt, 2*time.Second)
	deadline := time.Now().Add(2 * time.Second)
	for cr != nil && time.Now().Before(deadline) {
		s.mu.Lock()
		c := cr.called
		s.mu.Unlock()
		if c {
			break
		}
		time.Sleep(20 * time.Microsecond)
	}
	gate := make(chan bool)
	s.mu.Lock()
	s.ops.flushGate = gate
	s.mu.Unlock()
	s.send(flushReq(ft, tt))
	deadline = time.Now().Add(2 * time.Second)
	for time.Now().Before(deadline) {
		s.mu.Lock()
		n := s.ops.inFlush
		s.mu.Unlock()
		if n > 0 {
			break
		}
		time.Sleep(20 * time.Microsecond)
	}
	before := len(s.conn.frames())
	for i := 0; i < 3; i++ {
		s.send(statReq(uint16(1210+i), 0))
	}
	s.releaseRange(1210, 1213, 3, "independent-of-the-flush")
	if !s.waitReplies(before+3, 4*time.Second) {
		s.mu.Lock()
		s.note("C08.request_delayed_by_slow_FlushOp_of_another_tag")
		s.mu.Unlock()
	}
	s.mu.Lock()
	s.ops.flushGate = nil
	s.mu.Unlock()
	close(gate)
	if cr != nil {
		cr.released <- concAction{answers: 1, payload: []byte("target-after-slow-flush")}
	}
	s.waitReplies(before+5, 2*time.Second)
	return s.finish("slowflushop", flushed)
}

// kind "grouplate": a late joiner of a shared tag: r1 executing, r2 queued, r1 answered, then r3
// arrives while r2 is executing - r3 must wait for r2
func concGroupLate(maxpend int) string {
	s := newConcSession(maxpend, false)
	s.setup()
	const tg = 1300
	rd := func(off uint64) []byte {
		return mkFrame(&gmsg{kind: go9p.Tread, a: 0, b: off, c: 16}, true, tg)
	}
	called := func(k int) *concReq { // the k-th request with this tag, once the implementation has it
		deadline := time.Now().Add(2 * time.Second)
		for time.Now().Before(deadline) {
			s.mu.Lock()
			n := 0
			var hit *concReq
			for _, cr := range s.reqInfo {
				if cr.tag == tg {
					if n == k && cr.called {
						hit = cr
					}
					n++
				}
			}
			s.mu.Unlock()
			if hit != nil {
				return hit
			}
			time.Sleep(20 * time.Microsecond)
		}
		return nil
	}
	s.send(rd(1), rd(2))
	r1 := called(0)
	if r1 != nil {
		r1.released <- concAction{answers: 1, payload: []byte("g-1")}
	}
	r2 := called(1)
	s.send(rd(3)) // the late joiner
	time.Sleep(800 * time.Microsecond)
	if r2 != nil {
		r2.released <- concAction{answers: 1, payload: []byte("g-2")}
	}
	if r3 := called(2); r3 != nil {
		select {
		case r3.released <- concAction{answers: 1, payload: []byte("g-3")}:
		default:
		}
	}
	s.waitReplies(5, 2*time.Second)
	return s.finish("grouplate", nil)
}

func modeSrvconc(tier string, args []string) {
	bufMode = len(args) > 0 && args[0] == "buf"
	rounds := 6
	if tier == "thorough" {
		rounds = 150
	}
	var jobs []func() string
	for r := 0; r < rounds; r++ {
		for _, mp := range []int{0, 1, 4} {
			mp := mp
			for k := 1; k <= 6; k++ {
				k := k
				dup := r%2 == 1
				fo := r%3 == 0
				jobs = append(jobs, func() string { return concPerm(mp, fo, k, dup) })
			}
			for stage := 0; stage <= 5; stage++ {
				stage := stage
				for _, fo := range []bool{false, true} {
					fo := fo
					cancel := r%2 == 0
					jobs = append(jobs, func() string { return concFlush(mp, fo, stage, cancel) })
				}
			}
			for _, n := range []int{2, 3, 5, 8} {
				n := n
				jobs = append(jobs, func() string { return concGroup(mp, n) })
			}
			jobs = append(jobs, func() string { return concFlushWalk(mp) })
			jobs = append(jobs, func() string { return concFlushGroup(mp, 1) })
			jobs = append(jobs, func() string { return concVersionTag(mp) })
			jobs = append(jobs, func() string { return concVersionMid(mp) })
			jobs = append(jobs, func() string { return concFlushPair(mp, false) })
			jobs = append(jobs, func() string { return concFlushPair(mp, true) })
			jobs = append(jobs, func() string { return concSlowWrite(mp) })
			jobs = append(jobs, func() string { return concLateAnswer(mp) })
			for _, fo := range []bool{false, true} {
				fo := fo
				jobs = append(jobs, func() string { return concFlushAtR3(mp, fo) })
			}
			jobs = append(jobs, func() string { return concSlowDestroy(mp) })
			jobs = append(jobs, func() string { return concGroupLate(mp) })
			jobs = append(jobs, func() string { return concSlowFlushOp(mp) })
			for tk := 0; tk <= 4; tk++ {
				tk := tk
				fo := (r+tk)%2 == 0
				jobs = append(jobs, func() string { return concFlushQueued(mp, fo, tk) })
			}
			if r == 0 {
				jobs = append(jobs, func() string { return concFlushCycle(mp, false) })
				jobs = append(jobs, func() string { return concFlushCycle(mp, true) })
			}
			for k := 0; k <= 4; k++ {
				k := k
				jobs = append(jobs, func() string { return concDisconnect(mp, k) })
				if k >= 2 {
					jobs = append(jobs, func() string { return concDisconnectSlow(mp, k+1) })
				}
				if k >= 1 && k <= 2 {
					jobs = append(jobs, func() string { return concDisconnectVersion(mp, k) })
				}
			}
		}
	}
	// sessions run one at a time: the plan generator shares the global rng
	for _, j := range jobs {
		emit("%s", j())
		stat("srvconc.histories", 1)
	}
}
