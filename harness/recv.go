package main

// recv: C13 server side. The same request stream is fed to the real server under
// many segmentations through a transport whose Read calls return exactly the
// chosen segments. Output, one line per (stream, segmentation):
//
//	RS <msize> <dotu> <streamhex> SEG <k> <len>*k ; N <delivered> { <tag> <type> <framehex-sha8> <payloadsha8-at-op> <payloadsha8-at-end> }* ; W <replystream canonical: sorted by tag> ; ST <open|closed>
//
// All requests of the measured stream carry distinct tags and are independent of
// each other, so sorting by tag is a canonical form.

import (
	"crypto/md5"
	"encoding/hex"
	"fmt"
	"io"
	"net"
	"sort"
	"strings"
	"sync"
	"time"

	go9p "github.com/rminnich/go9p"
)

func init() { modes["recv"] = modeRecv }

type segConn struct {
	failW   bool // every Write fails (the read side is unaffected)
	mu      sync.Mutex
	cond    *sync.Cond
	segs    [][]byte // pending segments for Read
	closed  bool
	eof     bool
	written []byte
	nread   int
	onWrite func([]byte) // observer of the bytes given to Write (at the time they are copied)
	holdW   bool         // Write blocks (before it copies) until released: a slow socket
	blockW  int
}

func (c *segConn) setHoldWrites(b bool) {
	c.mu.Lock()
	c.holdW = b
	c.cond.Broadcast()
	c.mu.Unlock()
}

func (c *segConn) writersBlocked() int {
	c.mu.Lock()
	defer c.mu.Unlock()
	return c.blockW
}

func newSegConn() *segConn {
	c := &segConn{}
	c.cond = sync.NewCond(&c.mu)
	return c
}

func (c *segConn) push(seg []byte) {
	c.mu.Lock()
	c.segs = append(c.segs, seg)
	c.cond.Broadcast()
	c.mu.Unlock()
}

func (c *segConn) Read(p []byte) (int, error) {
	c.mu.Lock()
	defer c.mu.Unlock()
	for len(c.segs) == 0 && !c.closed && !c.eof {
		c.cond.Wait()
	}
	if len(c.segs) == 0 {
		return 0, io.EOF
	}
	if len(p) == 0 {
		return 0, nil
	}
	n := copy(p, c.segs[0])
	if n == len(c.segs[0]) {
		c.segs = c.segs[1:]
	} else {
		c.segs[0] = c.segs[0][n:]
	}
	c.nread += n
	c.cond.Broadcast()
	return n, nil
}

func (c *segConn) Write(p []byte) (int, error) {
	c.mu.Lock()
	defer c.mu.Unlock()
	if c.failW {
		// only the write direction fails: reads keep blocking until somebody closes the connection
		return 0, io.ErrShortWrite
	}
	for c.holdW && !c.closed {
		c.blockW++
		c.cond.Wait()
		c.blockW--
	}
	if c.closed {
		return 0, io.ErrClosedPipe
	}
	c.written = append(c.written, p...)
	if c.onWrite != nil {
		c.onWrite(p)
	}
	c.cond.Broadcast()
	return len(p), nil
}

func (c *segConn) Close() error {
	c.mu.Lock()
	c.closed = true
	c.cond.Broadcast()
	c.mu.Unlock()
	return nil
}

func (c *segConn) isClosed() bool {
	c.mu.Lock()
	defer c.mu.Unlock()
	return c.closed
}

type fakeAddr struct{}

func (fakeAddr) Network() string { return "seg" }
func (fakeAddr) String() string  { return "seg" }

func (c *segConn) LocalAddr() net.Addr                { return fakeAddr{} }
func (c *segConn) RemoteAddr() net.Addr               { return fakeAddr{} }
func (c *segConn) SetDeadline(t time.Time) error      { return nil }
func (c *segConn) SetReadDeadline(t time.Time) error  { return nil }
func (c *segConn) SetWriteDeadline(t time.Time) error { return nil }

// waitWritten waits until at least n complete frames were written or the connection closed.
func (c *segConn) frames() [][]byte {
	c.mu.Lock()
	defer c.mu.Unlock()
	var out [][]byte
	b := c.written
	for len(b) >= 4 {
		sz := int(uint32(b[0]) | uint32(b[1])<<8 | uint32(b[2])<<16 | uint32(b[3])<<24)
		if sz < 7 || sz > len(b) {
			break
		}
		out = append(out, b[:sz])
		b = b[sz:]
	}
	return out
}

// takeFrames returns the complete frames written since the last call and forgets them.
func (c *segConn) takeFrames() [][]byte {
	c.mu.Lock()
	defer c.mu.Unlock()
	var out [][]byte
	b := c.written
	for len(b) >= 4 {
		sz := int(uint32(b[0]) | uint32(b[1])<<8 | uint32(b[2])<<16 | uint32(b[3])<<24)
		if sz < 7 || sz > len(b) {
			break
		}
		out = append(out, append([]byte{}, b[:sz]...))
		b = b[sz:]
	}
	c.written = append([]byte{}, b...)
	return out
}

func sha8(b []byte) string {
	h := md5.Sum(b)
	return hex.EncodeToString(h[:4])
}

// recvOps: deterministic implementation; records every delivered frame.
type recvOps struct {
	mu   sync.Mutex
	recs []*recvRec
}

type recvRec struct {
	tag      uint16
	typ      uint8
	frameSha string
	data     []byte // retained alias of tc.Data (Twrite)
	atOp     string
}

// delivered is called from the receive goroutine (hook recv.enqueued), in delivery order
func (o *recvOps) delivered(req *go9p.SrvReq) {
	r := &recvRec{tag: req.Tc.Tag, typ: req.Tc.Type, frameSha: sha8(req.Tc.Pkt), atOp: "-"}
	if req.Tc.Type == go9p.Twrite {
		r.data = req.Tc.Data
		r.atOp = sha8(req.Tc.Data)
	}
	o.mu.Lock()
	o.recs = append(o.recs, r)
	o.mu.Unlock()
}

func (o *recvOps) Attach(r *go9p.SrvReq) { r.RespondRattach(&go9p.Qid{Type: go9p.QTDIR, Path: 1}) }
func (o *recvOps) Walk(r *go9p.SrvReq) {
	qs := make([]go9p.Qid, len(r.Tc.Wname))
	for i := range qs {
		qs[i] = go9p.Qid{Type: go9p.QTDIR, Path: uint64(i + 2)}
	}
	if len(qs) > 0 && string(r.Tc.Wname[len(qs)-1]) == "file" {
		qs[len(qs)-1].Type = 0
	}
	r.RespondRwalk(qs)
}
func (o *recvOps) Open(r *go9p.SrvReq)   { r.RespondRopen(&go9p.Qid{Path: 9}, 0) }
func (o *recvOps) Create(r *go9p.SrvReq) { r.RespondError("no create") }
func (o *recvOps) Read(r *go9p.SrvReq) {
	n := int(r.Tc.Count)
	if n > 32 {
		n = 32
	}
	d := make([]byte, n)
	for i := range d {
		d[i] = byte(r.Tc.Offset) + byte(i)
	}
	r.RespondRread(d)
}
func (o *recvOps) Write(r *go9p.SrvReq)  { r.RespondRwrite(uint32(len(r.Tc.Data))) }
func (o *recvOps) Clunk(r *go9p.SrvReq)  { r.RespondRclunk() }
func (o *recvOps) Remove(r *go9p.SrvReq) { r.RespondRremove() }
func (o *recvOps) Stat(r *go9p.SrvReq) {
	d := go9p.Dir{Name: fmt.Sprintf("f%d", r.Tc.Tag), Uid: "u", Gid: "g", Muid: "m"}
	r.RespondRstat(&d)
}
func (o *recvOps) Wstat(r *go9p.SrvReq) { r.RespondRwstat() }

func mkFrame(m *gmsg, dotu bool, tag uint16) []byte {
	fc := go9p.NewFcall(1 << 21)
	if err := packInto(fc, m, dotu); err != nil {
		panic(err)
	}
	go9p.SetTag(fc, tag)
	return append([]byte{}, fc.Pkt...)
}

// a Tversion in the middle of a stream cancels the requests still executing (their replies are
// dropped): such streams are judged by what is delivered, not by the replies
var lastStreamRenegotiates bool

// buildStream: setup frames (sent one at a time, awaited) + the measured stream
func buildStream(msize uint32, dotu bool, nmsg int, bad int) (setup [][]byte, stream []byte, nframes int) {
	ver := "9P2000"
	if dotu {
		ver = "9P2000.u"
	}
	setup = append(setup, mkFrame(&gmsg{kind: go9p.Tversion, a: uint64(msize), s1: []byte(ver)}, false, go9p.NOTAG))
	setup = append(setup, mkFrame(&gmsg{kind: go9p.Tattach, a: 0, b: uint64(go9p.NOFID), s1: []byte("u"), s2: []byte(""), c: 1}, dotu, 1))
	setup = append(setup, mkFrame(&gmsg{kind: go9p.Twalk, a: 0, b: 1, names: [][]byte{[]byte("file")}}, dotu, 2))
	setup = append(setup, mkFrame(&gmsg{kind: go9p.Topen, a: 1, b: go9p.ORDWR}, dotu, 3))
	tag := uint16(10)
	// some streams renegotiate in the middle: a Tversion switching the dialect (the receive loop
	// answers it itself and must decode what follows in the same read with the new dialect)
	switchAt := -1
	if rng.Intn(3) == 0 && nmsg > 4 {
		switchAt = 1 + rng.Intn(nmsg-2)
	}
	lastStreamRenegotiates = switchAt >= 0
	for i := 0; i < nmsg; i++ {
		if i == switchAt {
			dotu = !dotu
			v := "9P2000"
			if dotu {
				v = "9P2000.u"
			}
			stream = append(stream, mkFrame(&gmsg{kind: go9p.Tversion, a: uint64(msize), s1: []byte(v)}, false, go9p.NOTAG)...)
			nframes++
		}
		var m *gmsg
		k := rng.Intn(7)
		if switchAt >= 0 && i > switchAt && i <= switchAt+3 {
			k = 7 + rng.Intn(2) // messages whose layout differs between the dialects
		}
		switch k {
		case 7:
			m = &gmsg{kind: go9p.Tcreate, a: 0, s1: []byte(fmt.Sprintf("n%d", i)), b: 0644, c: 1, s2: []byte("")}
		case 8:
			m = &gmsg{kind: go9p.Twstat, a: 0, dir: go9p.Dir{Name: "w", Uid: "u", Gid: "g", Muid: "m"}}
		case 0:
			m = &gmsg{kind: go9p.Tstat, a: uint64(rng.Intn(2))}
		case 1:
			m = &gmsg{kind: go9p.Tread, a: 1, b: uint64(rng.Intn(1000)), c: uint64(rng.Intn(int(msize) - 24))}
		case 2, 3:
			n := rng.Intn(20)
			if rng.Intn(2) == 0 {
				n = int(msize) - 24 - rng.Intn(3) // near msize
			}
			d := make([]byte, n)
			for j := range d {
				d[j] = byte(rng.Intn(256))
			}
			m = &gmsg{kind: go9p.Twrite, a: 1, b: uint64(rng.Intn(1000)), data: d}
		case 4:
			m = &gmsg{kind: go9p.Tflush, a: uint64(60000 + rng.Intn(1000))}
		case 5:
			m = &gmsg{kind: go9p.Twalk, a: 0, b: uint64(1000 + i), names: randNames(rng.Intn(3))}
		default:
			m = &gmsg{kind: go9p.Tstat, a: uint64(500 + rng.Intn(5))} // unknown fid
		}
		f := mkFrame(m, dotu, tag)
		if len(f) > int(msize) {
			continue
		}
		tag++
		stream = append(stream, f...)
		nframes++
	}
	switch bad {
	case 1: // announces more than msize
		b := make([]byte, 11)
		put32(b, msize+1+uint32(rng.Intn(100)))
		b[4] = go9p.Tclunk
		stream = append(stream, b...)
	case 2: // shorter than a header
		b := []byte{5, 0, 0, 0, go9p.Tclunk, 1, 0, 9, 9}
		stream = append(stream, b...)
	case 3: // undecodable body
		b := make([]byte, 9)
		put32(b, 9)
		b[4] = go9p.Twalk
		stream = append(stream, b...)
	}
	return
}

// alignedStream places a message boundary exactly k bytes before the end of the first
// 8*msize receive buffer (the setup frames were consumed from the same buffer), then goes on.
func alignedStream(msize uint32, dotu bool, setupLen int, k int) (stream []byte, nframes int) {
	target := 8*int(msize) - setupLen - k
	tag := uint16(10)
	add := func(m *gmsg) {
		stream = append(stream, mkFrame(m, dotu, tag)...)
		tag++
		nframes++
	}
	for target-len(stream) > 2*int(msize) {
		add(&gmsg{kind: go9p.Tstat, a: uint64(rng.Intn(2))})
		if rng.Intn(2) == 0 {
			add(&gmsg{kind: go9p.Twrite, a: 1, b: uint64(rng.Intn(100)), data: randBytes(rng.Intn(int(msize) - 24))})
		}
	}
	// two writes that land exactly on the target
	rest := target - len(stream)
	first := rest / 2
	if first < 23 {
		first = 23
	}
	if first > int(msize) {
		first = int(msize)
	}
	add(&gmsg{kind: go9p.Twrite, a: 1, b: 1, data: randBytes(first - 23)})
	rest = target - len(stream)
	for rest > int(msize) {
		add(&gmsg{kind: go9p.Twrite, a: 1, b: 2, data: randBytes(int(msize) - 23 - 7)})
		rest = target - len(stream)
	}
	if rest >= 23 {
		add(&gmsg{kind: go9p.Twrite, a: 1, b: 3, data: randBytes(rest - 23)})
	}
	for i := 0; i < 12; i++ {
		add(&gmsg{kind: go9p.Tstat, a: uint64(i % 2)})
		add(&gmsg{kind: go9p.Twrite, a: 1, b: uint64(i), data: randBytes(rng.Intn(int(msize) - 24))})
	}
	return
}

func cut(stream []byte, points []int) [][]byte {
	var segs [][]byte
	prev := 0
	for _, p := range points {
		if p > prev && p < len(stream) {
			segs = append(segs, stream[prev:p])
			prev = p
		}
	}
	if prev < len(stream) {
		segs = append(segs, stream[prev:])
	}
	return segs
}

type recvResult struct{ line string }

func runRecvCase(msize uint32, dotu bool, setup [][]byte, stream []byte, segs [][]byte, nframes int, bad int) string {
	ops := &recvOps{}
	srv := &go9p.Srv{Msize: msize, Dotu: true, Id: "recv"} // small from the start: the 8*msize buffer wraps
	srv.Log = sharedLogger()
	if !srv.Start(ops) {
		panic("start")
	}
	hookTable.Store(srv, func(point string, obj interface{}, a, b uint32) {
		if point == "recv.enqueued" {
			ops.delivered(obj.(*go9p.SrvReq))
		}
	})
	defer hookTable.Delete(srv)
	c := newSegConn()
	srv.NewConn(c)
	// setup, awaited one at a time
	for i, f := range setup {
		c.push(f)
		deadline := time.Now().Add(3 * time.Second)
		for len(c.frames()) < i+1 && time.Now().Before(deadline) {
			time.Sleep(20 * time.Microsecond)
		}
	}
	nsetup := len(c.frames())
	ops.mu.Lock()
	nsetupRecs := len(ops.recs)
	ops.mu.Unlock()
	// the measured stream: segment i is offered when segment i-1 has been read completely
	stalled := false
	for _, s := range segs {
		// wait (bounded) until the previous segment has been read completely
		dl := time.Now().Add(2 * time.Second)
		for {
			c.mu.Lock()
			busy := len(c.segs) > 0 && !c.closed
			c.mu.Unlock()
			if !busy {
				break
			}
			if time.Now().After(dl) {
				stalled = true
				break
			}
			time.Sleep(20 * time.Microsecond)
		}
		if stalled {
			break
		}
		c.push(append([]byte{}, s...))
	}
	// wait for all replies, or for the connection to be dropped
	deadline := time.Now().Add(3 * time.Second)
	for time.Now().Before(deadline) && !stalled {
		if c.isClosed() {
			break
		}
		if bad == 0 && len(c.frames())-nsetup >= nframes {
			break
		}
		if bad == 9 {
			ops.mu.Lock()
			nd := len(ops.recs) - nsetupRecs
			ops.mu.Unlock()
			if nd >= nframes {
				break
			}
		}
		time.Sleep(50 * time.Microsecond)
	}
	time.Sleep(300 * time.Microsecond)
	st := "open"
	if c.isClosed() {
		st = "closed"
	}
	ops.mu.Lock()
	ndeliv := len(ops.recs) - nsetupRecs
	ops.mu.Unlock()
	if stalled || (bad == 0 && !c.isClosed() && len(c.frames())-nsetup < nframes) || (bad == 9 && !c.isClosed() && ndeliv < nframes) {
		st = "stalled" // the server stopped reading or answering although the stream is valid
	}
	c.mu.Lock()
	c.eof = true
	c.cond.Broadcast()
	c.mu.Unlock()
	replies := c.frames()[nsetup:]
	sort.SliceStable(replies, func(i, j int) bool {
		return uint16(replies[i][5])|uint16(replies[i][6])<<8 < uint16(replies[j][5])|uint16(replies[j][6])<<8
	})
	ops.mu.Lock()
	recs := append([]*recvRec{}, ops.recs[nsetupRecs:]...)
	ops.mu.Unlock()
	sort.SliceStable(recs, func(i, j int) bool { return recs[i].tag < recs[j].tag })
	var sb strings.Builder
	fmt.Fprintf(&sb, "RS %d %d %s SEG %d", msize, b2i(dotu), hx(stream), len(segs))
	for _, s := range segs {
		fmt.Fprintf(&sb, " %d", len(s))
	}
	fmt.Fprintf(&sb, " ; N %d", len(recs))
	for _, r := range recs {
		end := "-"
		if r.data != nil || r.typ == go9p.Twrite {
			end = sha8(r.data)
		}
		fmt.Fprintf(&sb, " %d %d %s %s %s", r.tag, r.typ, r.frameSha, r.atOp, end)
	}
	var all []byte
	for _, r := range replies {
		all = append(all, r...)
	}
	if bad != 0 {
		// replies still in flight when the connection is dropped may be lost: not compared
		all = nil
	}
	fmt.Fprintf(&sb, " ; W %s ; ST %s", hx(all), st)
	return sb.String()
}

func modeRecv(tier string, args []string) {
	nstreams := 10
	if tier == "thorough" {
		nstreams = 40
	}
	type job struct {
		msize        uint32
		dotu         bool
		setup        [][]byte
		stream       []byte
		segs         [][]byte
		nframes, bad int
	}
	var jobs []job
	for s := 0; s < nstreams; s++ {
		msize := []uint32{64, 100, 128, 256, 1024, 4096}[s%6]
		dotu := s%2 == 0
		bad := 0
		if s%5 == 4 {
			bad = 1 + rng.Intn(3)
		}
		nmsg := 12 + rng.Intn(30)
		if msize >= 1024 {
			nmsg = 8 + rng.Intn(8)
		}
		setup, stream, nframes := buildStream(msize, dotu, nmsg, bad)
		if lastStreamRenegotiates && bad == 0 {
			bad = 9
		}
		add := func(points []int) {
			jobs = append(jobs, job{msize, dotu, setup, stream, cut(stream, points), nframes, bad})
		}
		add(nil) // all in one read
		// every single split point
		step := 1
		if tier == "quick" {
			step = len(stream)/250 + 1
		}
		for p := 1; p < len(stream); p += step {
			add([]int{p})
		}
		// one byte at a time
		if len(stream) < 6000 {
			pts := make([]int, 0, len(stream))
			for p := 1; p < len(stream); p++ {
				pts = append(pts, p)
			}
			add(pts)
		}
		// random k-way splits
		for k := 0; k < 30; k++ {
			n := 1 + rng.Intn(40)
			pts := make([]int, n)
			for i := range pts {
				pts[i] = 1 + rng.Intn(len(stream))
			}
			sort.Ints(pts)
			add(pts)
		}
		stat("recv.streams", 1)
		stat("recv.stream_bytes", len(stream))
	}
	// message boundaries placed at every distance 0..8 from the end of the first receive buffer
	for _, msize := range []uint32{64, 100, 128} {
		for k := 0; k <= 8; k++ {
			for _, dotu := range []bool{false, true} {
				setup, _, _ := buildStream(msize, dotu, 0, 0)
				sl := 0
				for _, f := range setup {
					sl += len(f)
				}
				stream, nframes := alignedStream(msize, dotu, sl, k)
				for _, pts := range [][]int{nil, {len(stream) / 2}, {8*int(msize) - sl - k}, {8*int(msize) - sl}, {13, 200, 8*int(msize) - sl - k + 1}} {
					jobs = append(jobs, job{msize, dotu, setup, stream, cut(stream, pts), nframes, 0})
				}
				stat("recv.aligned_streams", 1)
			}
		}
	}
	out := make([]string, len(jobs))
	var wg sync.WaitGroup
	sem := make(chan struct{}, 16)
	for i := range jobs {
		wg.Add(1)
		sem <- struct{}{}
		go func(i int) {
			defer wg.Done()
			j := jobs[i]
			out[i] = runRecvCase(j.msize, j.dotu, j.setup, j.stream, j.segs, j.nframes, j.bad)
			<-sem
		}(i)
	}
	wg.Wait()
	for _, l := range out {
		emit("%s", l)
	}
	stat("recv.cases", len(jobs))
}
