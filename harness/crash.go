package main

// crash: the servers run in a CHILD process (this binary, mode "crashchild"); the parent
// throws adversarial sessions at them and watches the child from outside: exit status,
// stderr, and a liveness probe (Tversion on a fresh connection) after every case, plus a
// bystander connection per server that must keep being served.
//
//   PASS target=<scripted|auth|ufs> kind=<...> frames=<n> bytes=<n> closed=<0|1>
//   C06.server_process_died target=... kind=... input=<hex> stderr=<hex of the tail>
//   C06.server_not_serving_after_case target=... kind=... input=<hex>
//   C06.other_connection_disturbed target=... kind=... input=<hex>

import (
	"bufio"
	"encoding/binary"
	"fmt"
	"hash/fnv"
	"io"
	"net"
	"os"
	"os/exec"
	"path/filepath"
	"strings"
	"sync"
	"syscall"
	"time"

	go9p "github.com/rminnich/go9p"
)

func init() { modes["crash"] = modeCrash; modes["crashchild"] = modeCrashChild }

// ---------- the child: three servers on unix sockets ----------

// crashOps answers every request as a function of the request bytes: success with a
// plausible (sometimes extreme) reply, an error (sometimes a very long one), a partial
// walk, a data reply of the requested size, or several of those in combination.
type crashOps struct {
	go9p.Srv
}

func hashReq(r *go9p.SrvReq) uint32 {
	h := fnv.New32a()
	h.Write([]byte{r.Tc.Type})
	var b [8]byte
	binary.LittleEndian.PutUint32(b[:4], r.Tc.Fid)
	binary.LittleEndian.PutUint32(b[4:], r.Tc.Count)
	h.Write(b[:])
	h.Write([]byte(r.Tc.Name))
	for _, n := range r.Tc.Wname {
		h.Write([]byte(n))
	}
	return h.Sum32()
}

func (o *crashOps) maybeErr(r *go9p.SrvReq, h uint32) bool {
	switch h % 7 {
	case 0:
		r.RespondError(&go9p.Error{Err: "scripted failure", Errornum: h % 200})
		return true
	case 1:
		if h%5 == 0 {
			// an error text far longer than a tiny msize
			r.RespondError(&go9p.Error{Err: strings.Repeat("long error text ", 1+int(h%4000)), Errornum: go9p.EIO})
			return true
		}
	}
	return false
}

func qidOf(h uint32) *go9p.Qid {
	t := uint8(0)
	switch h % 4 {
	case 0, 1:
		t = go9p.QTDIR
	case 2:
		t = uint8(h>>8) &^ go9p.QTAUTH
	}
	return &go9p.Qid{Type: t, Version: h, Path: uint64(h) * 2654435761}
}

func (o *crashOps) Attach(r *go9p.SrvReq) {
	h := hashReq(r)
	if o.maybeErr(r, h) {
		return
	}
	q := qidOf(h)
	q.Type = go9p.QTDIR
	r.RespondRattach(q)
}
func (o *crashOps) Walk(r *go9p.SrvReq) {
	h := hashReq(r)
	if o.maybeErr(r, h) {
		return
	}
	n := len(r.Tc.Wname)
	if n > 0 && h%3 == 0 {
		n = int(h>>4) % n // partial (possibly empty: then an error is expected)
		if n == 0 {
			r.RespondError(go9p.Enoent)
			return
		}
	}
	qs := make([]go9p.Qid, n)
	for i := range qs {
		qs[i] = *qidOf(h + uint32(i))
		if i < n-1 || h%2 == 0 {
			qs[i].Type = go9p.QTDIR
		}
	}
	r.RespondRwalk(qs)
}
func (o *crashOps) Open(r *go9p.SrvReq) {
	h := hashReq(r)
	if o.maybeErr(r, h) {
		return
	}
	r.RespondRopen(qidOf(h), h%3*4096)
}
func (o *crashOps) Create(r *go9p.SrvReq) {
	h := hashReq(r)
	if o.maybeErr(r, h) {
		return
	}
	r.RespondRcreate(qidOf(h), 0)
}
func (o *crashOps) Read(r *go9p.SrvReq) {
	if r.Tc.Offset == 0xdead {
		// a slow operation: requests with the same tag queue up behind it
		time.Sleep(40 * time.Millisecond)
		r.RespondRread(make([]byte, 8))
		return
	}
	h := hashReq(r)
	if o.maybeErr(r, h) {
		return
	}
	n := r.Tc.Count
	switch h % 4 {
	case 0:
		n = 0
	case 1:
		n = n / 2
	}
	r.RespondRread(make([]byte, n))
}
func (o *crashOps) Write(r *go9p.SrvReq) {
	h := hashReq(r)
	if o.maybeErr(r, h) {
		return
	}
	r.RespondRwrite(uint32(len(r.Tc.Data)))
}
func (o *crashOps) Clunk(r *go9p.SrvReq) {
	if h := hashReq(r); h%11 == 0 {
		r.RespondError("clunk refused")
		return
	}
	r.RespondRclunk()
}
func (o *crashOps) Remove(r *go9p.SrvReq) {
	if h := hashReq(r); h%5 == 0 {
		r.RespondError("remove refused")
		return
	}
	r.RespondRremove()
}
func (o *crashOps) Stat(r *go9p.SrvReq) {
	h := hashReq(r)
	if o.maybeErr(r, h) {
		return
	}
	d := &go9p.Dir{Qid: *qidOf(h), Name: strings.Repeat("n", int(h%300)), Uid: "u", Gid: "g", Muid: "m", Mode: h}
	if h%9 == 0 {
		d.Name = strings.Repeat("N", 70000) // cannot be encoded: "buffer too small" path
	}
	r.RespondRstat(d)
}
func (o *crashOps) Wstat(r *go9p.SrvReq) {
	h := hashReq(r)
	if o.maybeErr(r, h) {
		return
	}
	r.RespondRwstat()
}
func (o *crashOps) FidDestroy(f *go9p.SrvFid) {}
func (o *crashOps) ConnOpened(c *go9p.Conn)   {}
func (o *crashOps) ConnClosed(c *go9p.Conn)   {}

type crashAuthOps struct{ crashOps }

func (o *crashAuthOps) AuthInit(afid *go9p.SrvFid, aname string) (*go9p.Qid, error) {
	if len(aname)%5 == 4 {
		return nil, &go9p.Error{Err: "no auth for you", Errornum: go9p.EPERM}
	}
	return &go9p.Qid{Type: go9p.QTAUTH, Path: 99}, nil
}
func (o *crashAuthOps) AuthDestroy(afid *go9p.SrvFid) {}
func (o *crashAuthOps) AuthCheck(fid *go9p.SrvFid, afid *go9p.SrvFid, aname string) error {
	if len(aname)%3 == 2 {
		return &go9p.Error{Err: "auth refused", Errornum: go9p.EPERM}
	}
	return nil
}
func (o *crashAuthOps) AuthRead(afid *go9p.SrvFid, offset uint64, data []byte) (int, error) {
	if offset%7 == 3 {
		return 0, &go9p.Error{Err: "auth read failed", Errornum: go9p.EIO}
	}
	return len(data) / 2, nil
}
func (o *crashAuthOps) AuthWrite(afid *go9p.SrvFid, offset uint64, data []byte) (int, error) {
	if offset%7 == 4 {
		return 0, &go9p.Error{Err: "auth write failed", Errornum: go9p.EIO}
	}
	return len(data), nil
}

const crashSrvMsize = 200000

func modeCrashChild(tier string, args []string) {
	dir := args[0]
	if os.Getenv("VERIF_AKAROS") == "1" {
		*go9p.Akaros = true // the library's global "-akaros" switch: other Rerror text, directory reads cut at count
	}
	listen := func(name string) net.Listener {
		l, err := net.Listen("unix", filepath.Join(dir, name))
		if err != nil {
			fmt.Fprintln(os.Stderr, "crashchild: listen:", err)
			os.Exit(3)
		}
		return l
	}
	s := &crashOps{}
	s.Msize, s.Dotu, s.Id, s.Log = crashSrvMsize, true, "scripted", go9p.NewLogger(16)
	if !s.Start(s) {
		os.Exit(3)
	}
	go s.StartListener(listen("s.sock"))
	a := &crashAuthOps{}
	a.Msize, a.Dotu, a.Id, a.Log = crashSrvMsize, true, "auth", go9p.NewLogger(16)
	if !a.Start(a) {
		os.Exit(3)
	}
	go a.StartListener(listen("a.sock"))
	u := new(go9p.Ufs)
	u.Root = filepath.Join(dir, "root")
	u.Msize, u.Dotu, u.Id, u.Log = crashSrvMsize, true, "ufs", go9p.NewLogger(16)
	if !u.Start(u) {
		os.Exit(3)
	}
	go u.StartListener(listen("u.sock"))
	fmt.Fprintln(os.Stderr, "crashchild: READY")
	// live as long as the parent keeps our stdin open
	io.Copy(io.Discard, os.Stdin)
	os.Exit(0)
}

// ---------- the parent ----------
type crashChild struct {
	cmd    *exec.Cmd
	stdin  io.WriteCloser
	dir    string
	errlog string
	dead   chan struct{}
	state  string
	mu     sync.Mutex
}

// second pass of the crash search: the child runs with the library's -akaros switch on
var childAkaros bool

func startChild(dir string, n int) (*crashChild, error) {
	for _, s := range []string{"s.sock", "a.sock", "u.sock"} {
		os.Remove(filepath.Join(dir, s))
	}
	exe, _ := os.Executable()
	c := &crashChild{dir: dir, errlog: filepath.Join(dir, fmt.Sprintf("child%d.err", n)), dead: make(chan struct{})}
	ef, err := os.Create(c.errlog)
	if err != nil {
		return nil, err
	}
	c.cmd = exec.Command(exe, "crashchild", "x", dir)
	if childAkaros {
		c.cmd.Env = append(os.Environ(), "VERIF_AKAROS=1")
	}
	c.cmd.Stderr = ef
	c.cmd.Stdout = ef
	c.stdin, _ = c.cmd.StdinPipe()
	c.cmd.SysProcAttr = &syscall.SysProcAttr{Pdeathsig: syscall.SIGKILL}
	if err := c.cmd.Start(); err != nil {
		return nil, err
	}
	ef.Close()
	go func() {
		err := c.cmd.Wait()
		c.mu.Lock()
		c.state = fmt.Sprint(err)
		c.mu.Unlock()
		close(c.dead)
	}()
	for i := 0; i < 200; i++ {
		if b, _ := os.ReadFile(c.errlog); strings.Contains(string(b), "READY") {
			return c, nil
		}
		select {
		case <-c.dead:
			return nil, fmt.Errorf("child exited during start: %s", c.state)
		case <-time.After(25 * time.Millisecond):
		}
	}
	return nil, fmt.Errorf("child not ready")
}

func (c *crashChild) isDead() bool {
	select {
	case <-c.dead:
		return true
	default:
		return false
	}
}

func (c *crashChild) stderrTail() string {
	b, _ := os.ReadFile(c.errlog)
	s := string(b)
	if i := strings.Index(s, "panic:"); i >= 0 {
		s = s[i:]
	} else if i := strings.Index(s, "fatal error:"); i >= 0 {
		s = s[i:]
	}
	if len(s) > 4000 {
		s = s[:4000]
	}
	return s
}

var sockOf = map[string]string{"scripted": "s.sock", "auth": "a.sock", "ufs": "u.sock"}

func dialT(dir, target string) (net.Conn, error) {
	return net.DialTimeout("unix", filepath.Join(dir, sockOf[target]), 2*time.Second)
}

func ccFrame(m *gmsg, dotu bool, tag uint16) []byte {
	fc := go9p.NewFcall(1 << 21)
	if err := packInto(fc, m, dotu); err != nil {
		return nil
	}
	go9p.SetTag(fc, tag)
	return append([]byte{}, fc.Pkt...)
}

// reads one frame; nil on timeout / EOF (eof reports a closed connection)
func readFrameT(c net.Conn, d time.Duration) (f []byte, eof bool) {
	c.SetReadDeadline(time.Now().Add(d))
	var h [4]byte
	if _, err := io.ReadFull(c, h[:]); err != nil {
		return nil, err == io.EOF || strings.Contains(err.Error(), "reset") || strings.Contains(err.Error(), "closed")
	}
	n := binary.LittleEndian.Uint32(h[:])
	if n < 4 || n > 1<<22 {
		return nil, false
	}
	b := make([]byte, n)
	copy(b, h[:])
	if _, err := io.ReadFull(c, b[4:]); err != nil {
		return nil, true
	}
	return b, false
}

// liveness probe: a fresh connection answers Tversion
func probe(dir, target string) bool {
	c, err := dialT(dir, target)
	if err != nil {
		return false
	}
	defer c.Close()
	c.SetWriteDeadline(time.Now().Add(2 * time.Second))
	if _, err := c.Write(ccFrame(&gmsg{kind: go9p.Tversion, a: 8192, s1: []byte("9P2000.u")}, true, go9p.NOTAG)); err != nil {
		return false
	}
	f, _ := readFrameT(c, 3*time.Second)
	return len(f) >= 7 && f[4] == go9p.Rversion
}

type bystander struct {
	c   net.Conn
	tag uint16
}

func newBystander(dir, target string) *bystander {
	c, err := dialT(dir, target)
	if err != nil {
		return nil
	}
	b := &bystander{c: c, tag: 1}
	c.Write(ccFrame(&gmsg{kind: go9p.Tversion, a: 8192, s1: []byte("9P2000.u")}, true, go9p.NOTAG))
	if f, _ := readFrameT(c, 3*time.Second); len(f) < 7 || f[4] != go9p.Rversion {
		c.Close()
		return nil
	}
	c.Write(ccFrame(&gmsg{kind: go9p.Tattach, a: 900, b: uint64(go9p.NOFID), s1: []byte(userName()), s2: []byte(""), c: uint64(os.Getuid())}, true, 1))
	if f, _ := readFrameT(c, 3*time.Second); len(f) < 7 {
		c.Close()
		return nil
	}
	return b
}

// still served: a Tstat gets an R-message with the same tag
func (b *bystander) ok() bool {
	b.tag++
	if b.tag >= 0xfff0 {
		b.tag = 2
	}
	b.c.SetWriteDeadline(time.Now().Add(2 * time.Second))
	if _, err := b.c.Write(ccFrame(&gmsg{kind: go9p.Tstat, a: 900}, true, b.tag)); err != nil {
		return false
	}
	f, _ := readFrameT(b.c, 3*time.Second)
	return len(f) >= 7 && binary.LittleEndian.Uint16(f[5:7]) == b.tag && f[4]%2 == 1
}

func userName() string {
	u := go9p.OsUsers.Uid2User(os.Getuid())
	if u == nil {
		return "none"
	}
	return u.Name()
}

// ---------- case generation ----------
type crashCase struct {
	target string
	kind   string
	setup  [][]byte // sent one by one, each reply awaited (so the fid states exist)
	warm   []byte   // then sent in one piece, all warmN replies awaited (several reply buffers get recycled)
	warmN  int
	input  []byte // then blasted in one piece: the requests run concurrently
	frames int
	slowly bool // written in small pieces
}

var hostileNames = [][]byte{[]byte(""), []byte("."), []byte(".."), []byte("/"), []byte("a/b"), []byte("../x"), []byte("/etc/passwd"),
	[]byte("sub"), []byte("f1"), []byte("big"), []byte("nosuch"), []byte("a\x00b"), []byte("\xff\xfe"), []byte(strings.Repeat("n", 255)),
	[]byte(strings.Repeat("n", 256)), []byte(strings.Repeat("x/", 40))}

func hostileName() []byte {
	if rng.Intn(60) == 0 {
		return []byte(strings.Repeat("L", 65535))
	}
	if rng.Intn(40) == 0 {
		return []byte(strings.Repeat("k", 65000+rng.Intn(535)))
	}
	return hostileNames[rng.Intn(len(hostileNames))]
}

// fid numbers of the prepared states plus unknown / extreme ones
// 1 root dir, 2 walked file, 3 opened file (ORDWR), 4 opened dir, 5 clunked (stale), 6 removed (stale),
// 7 auth fid (auth server) / unused, 8 walked dir with many entries, opened
var crashFids = []uint64{0, 1, 2, 3, 4, 5, 6, 7, 8, 9, 77, 0x7fffffff, 0x80000000, 0xfffffffe, 0xffffffff}

func cfid() uint64 { return crashFids[rng.Intn(len(crashFids))] }

var extreme32 = []uint64{0, 1, 2, 7, 23, 24, 25, 255, 256, 4095, 4096, 8168, 8169, 8192, 65535, 65536, 0x7fffffff, 0x80000000, 0xfffffff0, 0xfffffffe, 0xffffffff}
var extreme64 = []uint64{0, 1, 2, 63, 64, 65, 127, 128, 4096, 0x7fffffff, 0x80000000, 0xffffffff, 0x100000000, 0x7fffffffffffffff, 0x8000000000000000, 0xfffffffffffffffe, 0xffffffffffffffff}

func x32() uint64 {
	if rng.Intn(3) == 0 {
		return uint64(rng.Uint32())
	}
	return extreme32[rng.Intn(len(extreme32))]
}
func x64() uint64 {
	if rng.Intn(3) == 0 {
		return rng.Uint64()
	}
	return extreme64[rng.Intn(len(extreme64))]
}

func setupFrames(target string, msize uint32, dotu bool) [][]byte {
	ver := "9P2000"
	if dotu {
		ver = "9P2000.u"
	}
	uid := uint64(os.Getuid())
	fr := [][]byte{ccFrame(&gmsg{kind: go9p.Tversion, a: uint64(msize), s1: []byte(ver)}, dotu, go9p.NOTAG)}
	add := func(m *gmsg) { fr = append(fr, ccFrame(m, dotu, uint16(len(fr)))) }
	if target == "auth" {
		add(&gmsg{kind: go9p.Tauth, a: 7, s1: []byte(userName()), s2: []byte("an"), b: uid})
		add(&gmsg{kind: go9p.Tattach, a: 1, b: 7, s1: []byte(userName()), s2: []byte("an"), c: uid})
	} else {
		add(&gmsg{kind: go9p.Tattach, a: 1, b: uint64(go9p.NOFID), s1: []byte(userName()), s2: []byte(""), c: uid})
	}
	add(&gmsg{kind: go9p.Twalk, a: 1, b: 2, names: [][]byte{[]byte("f1")}})
	add(&gmsg{kind: go9p.Twalk, a: 1, b: 3, names: [][]byte{[]byte("f1")}})
	add(&gmsg{kind: go9p.Topen, a: 3, b: go9p.ORDWR})
	add(&gmsg{kind: go9p.Twalk, a: 1, b: 4, names: nil})
	add(&gmsg{kind: go9p.Topen, a: 4, b: go9p.OREAD})
	add(&gmsg{kind: go9p.Twalk, a: 1, b: 5, names: nil})
	add(&gmsg{kind: go9p.Tclunk, a: 5})
	add(&gmsg{kind: go9p.Twalk, a: 1, b: 6, names: [][]byte{[]byte("victim")}})
	add(&gmsg{kind: go9p.Tremove, a: 6})
	add(&gmsg{kind: go9p.Twalk, a: 1, b: 8, names: [][]byte{[]byte("big")}})
	add(&gmsg{kind: go9p.Topen, a: 8, b: go9p.OREAD})
	return fr
}

func hostileDir() go9p.Dir {
	d := genDir(rng.Intn(8), false)
	d.Name = string(hostileName())
	if len(d.Name) > 3000 {
		d.Name = d.Name[:3000]
	}
	d.Mode = uint32(x32())
	d.Length = x64()
	d.Mtime, d.Atime = uint32(x32()), uint32(x32())
	return d
}

// one adversarial request
func hostileMsg(msize uint32) *gmsg {
	tkinds := []uint8{go9p.Tversion, go9p.Tauth, go9p.Tattach, go9p.Tflush, go9p.Twalk, go9p.Topen, go9p.Tcreate, go9p.Tread,
		go9p.Twrite, go9p.Tclunk, go9p.Tremove, go9p.Tstat, go9p.Twstat}
	k := tkinds[rng.Intn(len(tkinds))]
	if rng.Intn(25) == 0 {
		// an R-message sent as a request
		return genMsg(allKinds[rng.Intn(len(allKinds))], rng.Intn(8), false)
	}
	m := &gmsg{kind: k}
	switch k {
	case go9p.Tversion:
		m.a = x32()
		m.s1 = [][]byte{[]byte("9P2000"), []byte("9P2000.u"), []byte("9P2000.L"), []byte("unknown"), []byte(""), hostileName()}[rng.Intn(6)]
		if len(m.s1) > 1000 {
			m.s1 = m.s1[:1000]
		}
	case go9p.Tauth:
		m.a, m.s1, m.s2, m.b = cfid(), []byte(userName()), hostileName(), x32()
	case go9p.Tattach:
		m.a, m.b, m.s1, m.s2, m.c = cfid(), cfid(), []byte(userName()), hostileName(), x32()
		if rng.Intn(2) == 0 {
			m.b = uint64(go9p.NOFID)
		}
		if rng.Intn(3) == 0 {
			m.s1 = hostileName()
		}
	case go9p.Tflush:
		m.a = uint64(rng.Intn(20))
		if rng.Intn(3) == 0 {
			m.a = x32() & 0xffff
		}
	case go9p.Twalk:
		m.a, m.b = cfid(), cfid()
		n := rng.Intn(5)
		if rng.Intn(10) == 0 {
			n = 16 + rng.Intn(3)
		}
		for i := 0; i < n; i++ {
			m.names = append(m.names, hostileName())
		}
	case go9p.Topen:
		m.a, m.b = cfid(), uint64(rng.Intn(256))
	case go9p.Tcreate:
		m.a, m.s1, m.b, m.c, m.s2 = cfid(), hostileName(), x32(), uint64(rng.Intn(256)), hostileName()
		if rng.Intn(2) == 0 {
			m.b = uint64(rng.Intn(512))
			if rng.Intn(3) == 0 {
				m.b |= go9p.DMDIR
			}
		}
		if rng.Intn(3) == 0 {
			m.s2 = []byte(fmt.Sprint(cfid()))
		}
	case go9p.Tread:
		m.a, m.b, m.c = cfid(), x64(), x32()
		switch rng.Intn(5) {
		case 0:
			m.b = uint64(rng.Intn(6000)) // around the entries of the big directory
		case 1:
			m.c = uint64(msize) - 24 + uint64(rng.Intn(3)) - 1
		case 2:
			m.c = uint64(rng.Intn(200))
		}
	case go9p.Twrite:
		m.a, m.b = cfid(), x64()
		n := rng.Intn(100)
		if rng.Intn(4) == 0 && msize < 70000 {
			n = int(msize) - 24 + rng.Intn(3) - 1
		}
		if n < 0 {
			n = 0
		}
		m.data = make([]byte, n)
	case go9p.Tclunk, go9p.Tremove, go9p.Tstat:
		m.a = cfid()
	case go9p.Twstat:
		m.a, m.dir = cfid(), hostileDir()
	}
	return m
}

func concat(fr [][]byte) []byte {
	var out []byte
	for _, f := range fr {
		out = append(out, f...)
	}
	return out
}

var tinyMsizes = []uint32{24, 25, 26, 31, 32, 37, 40, 48, 64, 100, 128, 256, 1024, 8192, 65536, 199999, 200000, 200001, 0xffffffff}

func genCrashCase(i int) crashCase {
	target := []string{"scripted", "auth", "ufs", "ufs"}[i%4]
	dotu := rng.Intn(4) != 0
	msize := tinyMsizes[rng.Intn(len(tinyMsizes))]
	eff := msize
	if eff > crashSrvMsize {
		eff = crashSrvMsize
	}
	switch rng.Intn(10) {
	default: // structured: setup + adversarial requests
		fr := setupFrames(target, msize, dotu)
		ns := len(fr)
		n := 4 + rng.Intn(20)
		for j := 0; j < n; j++ {
			f := ccFrame(hostileMsg(eff), dotu, uint16(100+j))
			if f != nil {
				fr = append(fr, f)
			}
		}
		if rng.Intn(3) == 0 {
			// everything pipelined: requests race with the Tattach / Twalk creating their fids
			return crashCase{target: target, kind: "structured-pipelined", input: concat(fr), frames: len(fr), slowly: rng.Intn(8) == 0}
		}
		return crashCase{target: target, kind: "structured", setup: fr[:ns], input: concat(fr[ns:]), frames: len(fr), slowly: rng.Intn(8) == 0}
	case 5: // renegotiation: a tiny msize first (small reply buffers end up in the pool), then a Tversion asking for more, then large reads
		small := []uint32{24, 25, 32, 64, 128}[rng.Intn(5)]
		fr := setupFrames(target, small, dotu)
		for j := 0; j < 6; j++ {
			if f := ccFrame(&gmsg{kind: go9p.Tstat, a: uint64(1 + j%4)}, dotu, uint16(50+j)); f != nil && len(f) <= int(small) {
				fr = append(fr, f)
			}
		}
		ns := len(fr)
		ver := "9P2000"
		if dotu {
			ver = "9P2000.u"
		}
		big := []uint32{4096, 8192, 65536, 199999, 200000, 200001}[rng.Intn(6)]
		fr = append(fr, ccFrame(&gmsg{kind: go9p.Tversion, a: uint64(big), s1: []byte(ver)}, dotu, go9p.NOTAG))
		for j := 0; j < 8; j++ {
			cnt := []uint64{100, 1000, 4072, 8168, uint64(big) - 24, uint64(big) - 25, 65536}[rng.Intn(7)]
			fid := []uint64{3, 4, 8, 2}[rng.Intn(4)]
			fr = append(fr, ccFrame(&gmsg{kind: go9p.Tread, a: fid, b: uint64(rng.Intn(3)) * 10, c: cnt}, dotu, uint16(100+j)))
		}
		// the renegotiation and what follows go out one by one as well: each read meets the new msize
		return crashCase{target: target, kind: "renegotiate", setup: fr, input: ccFrame(&gmsg{kind: go9p.Tstat, a: 1}, dotu, 999), frames: len(fr) - ns}
	case 3: // huge counts, pipelined, on opened files and directories (the count guard in uint32 arithmetic)
		fr := setupFrames(target, msize, dotu)
		var in []byte
		for j := 0; j < 16; j++ {
			cnt := []uint64{0xfffffff0, 0xffffffe8, 0xffffffe7, 0xffffffff, 0x80000000, uint64(eff) - 24, uint64(eff) - 23}[j%7]
			fid := []uint64{3, 3, 4, 8, 3}[j%5]
			in = append(in, ccFrame(&gmsg{kind: go9p.Tread, a: fid, b: uint64(j % 3), c: cnt}, dotu, uint16(100+j))...)
			if j%4 == 3 {
				d := make([]byte, 8)
				f := ccFrame(&gmsg{kind: go9p.Twrite, a: 3, b: 0, data: d}, dotu, uint16(150+j))
				// the count field of a Twrite lies about its payload
				if len(f) > 23 {
					binary.LittleEndian.PutUint32(f[19:], uint32(cnt))
				}
				in = append(in, f...)
			}
		}
		return crashCase{target: target, kind: "hugecount", setup: fr, input: in, frames: len(fr) + 16}
	case 4: // a request queued behind a slow one with the same tag is flushed before it starts; the pool holds recycled reply buffers of the same type
		if target == "ufs" {
			target = "scripted"
		}
		fr := setupFrames(target, 8192, dotu)
		var warm []byte
		nw := 4 + rng.Intn(4)
		kind := rng.Intn(3)
		mk := func(tag uint16, off uint64) []byte {
			switch kind {
			case 0:
				return ccFrame(&gmsg{kind: go9p.Tread, a: 3, b: off, c: 16}, dotu, tag)
			case 1:
				if off == 0xdead {
					return ccFrame(&gmsg{kind: go9p.Tread, a: 3, b: off, c: 16}, dotu, tag)
				}
				return ccFrame(&gmsg{kind: go9p.Tattach, a: uint64(200 + tag), b: uint64(go9p.NOFID), s1: []byte(userName()), s2: []byte("x"), c: uint64(os.Getuid())}, dotu, tag)
			}
			return ccFrame(&gmsg{kind: go9p.Tstat, a: 1}, dotu, tag)
		}
		for j := 0; j < nw; j++ {
			warm = append(warm, mk(uint16(300+j), uint64(j))...)
		}
		var in []byte
		in = append(in, ccFrame(&gmsg{kind: go9p.Tread, a: 3, b: 0xdead, c: 16}, dotu, 400)...)
		in = append(in, mk(400, 5)...)
		in = append(in, ccFrame(&gmsg{kind: go9p.Tflush, a: 400}, dotu, 401)...)
		in = append(in, ccFrame(&gmsg{kind: go9p.Tstat, a: 1}, dotu, 402)...)
		return crashCase{target: target, kind: "flushqueued", setup: fr, warm: warm, warmN: nw, input: in, frames: len(fr) + nw + 4}
	case 6: // adversarial requests straight away (no Tversion, no attach)
		var fr [][]byte
		for j := 0; j < 3+rng.Intn(8); j++ {
			if f := ccFrame(hostileMsg(8192), dotu, uint16(j)); f != nil {
				fr = append(fr, f)
			}
		}
		return crashCase{target: target, kind: "noversion", input: concat(fr), frames: len(fr)}
	case 7, 8: // byte-level mutation of a valid session
		fr := setupFrames(target, msize, dotu)
		for j := 0; j < 3+rng.Intn(6); j++ {
			if f := ccFrame(hostileMsg(eff), dotu, uint16(100+j)); f != nil && len(f) < 5000 {
				fr = append(fr, f)
			}
		}
		b := concat(fr)
		for k := 0; k < 1+rng.Intn(4); k++ {
			switch rng.Intn(7) {
			case 0: // flip a byte
				b[rng.Intn(len(b))] ^= byte(1 + rng.Intn(255))
			case 1: // truncate
				b = b[:rng.Intn(len(b)+1)]
			case 2: // a frame's size field
				f := fr[rng.Intn(len(fr))]
				off := 0
				for _, g := range fr {
					if &g[0] == &f[0] {
						break
					}
					off += len(g)
				}
				if off+4 <= len(b) {
					v := []uint32{0, 1, 3, 4, 6, 7, 8, uint32(len(f)) - 1, uint32(len(f)) + 1, uint32(len(f)) - 7, 0x7fffffff, 0x80000000, 0xffffffff, eff, eff + 1}[rng.Intn(15)]
					binary.LittleEndian.PutUint32(b[off:], v)
				}
			case 3: // a 16-bit field forced to an extreme
				if len(b) > 12 {
					o := 7 + rng.Intn(len(b)-8)
					v := []uint16{0, 1, 0xffff, 0x8000}[rng.Intn(4)]
					b[o], b[o+1] = byte(v), byte(v>>8)
				}
			case 4: // insert random bytes
				o := rng.Intn(len(b) + 1)
				ins := make([]byte, 1+rng.Intn(12))
				rng.Read(ins)
				b = append(b[:o:o], append(ins, b[o:]...)...)
			case 5: // duplicate a frame
				f := fr[rng.Intn(len(fr))]
				b = append(b, f...)
			case 6: // type byte of a frame
				if len(b) > 5 {
					b[4+0] = byte(rng.Intn(256))
				}
			}
			if len(b) == 0 {
				b = []byte{0}
			}
		}
		return crashCase{target: target, kind: "mutated", input: b, frames: len(fr), slowly: rng.Intn(6) == 0}
	case 9: // raw random bytes (sometimes with a plausible header)
		n := 1 + rng.Intn(300)
		b := make([]byte, n)
		rng.Read(b)
		if n >= 7 && rng.Intn(2) == 0 {
			binary.LittleEndian.PutUint32(b, uint32(n-rng.Intn(3)))
			b[4] = byte(100 + rng.Intn(28))
		}
		return crashCase{target: target, kind: "random", input: b, frames: 0}
	}
}

// systematic family: the canonical frame of every T-message in both dialects with its last k
// bytes missing (size field adjusted, so the frame is complete but its body is short)
func truncCases(all bool) []crashCase {
	var out []crashCase
	tkinds := []uint8{go9p.Tversion, go9p.Tauth, go9p.Tattach, go9p.Tflush, go9p.Twalk, go9p.Topen, go9p.Tcreate, go9p.Tread,
		go9p.Twrite, go9p.Tclunk, go9p.Tremove, go9p.Tstat, go9p.Twstat}
	for ti, k := range tkinds {
		for d := 0; d < 2; d++ {
			dotu := d == 1
			ver := "9P2000"
			if dotu {
				ver = "9P2000.u"
			}
			for variant := 0; variant < 2; variant++ {
				m := &gmsg{kind: k}
				name := []byte("nm")
				if variant == 1 {
					name = []byte("a-longer-name")
				}
				switch k {
				case go9p.Tversion:
					m.a, m.s1 = 8192, []byte(ver)
				case go9p.Tauth:
					m.a, m.s1, m.s2, m.b = 7, name, name, 1
				case go9p.Tattach:
					m.a, m.b, m.s1, m.s2, m.c = 1, uint64(go9p.NOFID), name, name, 1
				case go9p.Tflush:
					m.a = 3
				case go9p.Twalk:
					m.a, m.b, m.names = 1, 2, [][]byte{name, name}[:1+variant]
				case go9p.Topen:
					m.a, m.b = 1, 0
				case go9p.Tcreate:
					m.a, m.s1, m.b, m.c, m.s2 = 1, name, 0644, 1, name
				case go9p.Tread:
					m.a, m.b, m.c = 1, 0, 10
				case go9p.Twrite:
					m.a, m.b, m.data = 1, 0, []byte("data")
				case go9p.Tclunk, go9p.Tremove, go9p.Tstat:
					m.a = 1
				case go9p.Twstat:
					m.a, m.dir = 1, go9p.Dir{Name: string(name), Uid: "u", Gid: "g", Muid: "m", Ext: string(name)}
				}
				f := ccFrame(m, dotu, 5)
				if f == nil {
					continue
				}
				var cuts []int
				if all {
					for c := 1; c <= len(f)-4; c++ {
						cuts = append(cuts, c)
					}
				} else {
					for _, c := range []int{1, 2, 3, 4, 5, 8, len(f) - 7, len(f) - 8} {
						if c >= 1 && c <= len(f)-4 {
							cuts = append(cuts, c)
						}
					}
				}
				for _, c := range cuts {
					b := append([]byte{}, f[:len(f)-c]...)
					binary.LittleEndian.PutUint32(b, uint32(len(b)))
					target := []string{"scripted", "ufs", "auth"}[(ti+c)%3]
					out = append(out, crashCase{target: target, kind: "truncated", frames: 2,
						setup: [][]byte{ccFrame(&gmsg{kind: go9p.Tversion, a: 8192, s1: []byte(ver)}, dotu, go9p.NOTAG)}, input: b})
				}
			}
		}
	}
	return out
}

func prepareTree(root string) {
	os.MkdirAll(filepath.Join(root, "sub", "deep"), 0755)
	os.WriteFile(filepath.Join(root, "f1"), []byte(strings.Repeat("0123456789", 500)), 0644)
	os.WriteFile(filepath.Join(root, "victim"), []byte("x"), 0644)
	os.MkdirAll(filepath.Join(root, "big"), 0755)
	for i := 0; i < 120; i++ {
		os.WriteFile(filepath.Join(root, "big", fmt.Sprintf("entry-%03d-%s", i, strings.Repeat("e", i%40))), nil, 0644)
	}
	os.Symlink("f1", filepath.Join(root, "ln"))
}

func runCrashCase(ch *crashChild, cc crashCase) (closed bool) {
	c, err := dialT(ch.dir, cc.target)
	if err != nil {
		return false
	}
	defer c.Close()
	for _, f := range cc.setup {
		c.SetWriteDeadline(time.Now().Add(2 * time.Second))
		if _, err := c.Write(f); err != nil {
			break
		}
		if r, _ := readFrameT(c, 2*time.Second); r == nil {
			break
		}
	}
	if cc.warm != nil {
		c.SetWriteDeadline(time.Now().Add(2 * time.Second))
		if _, err := c.Write(cc.warm); err == nil {
			for i := 0; i < cc.warmN; i++ {
				if r, _ := readFrameT(c, 2*time.Second); r == nil {
					break
				}
			}
		}
	}
	done := make(chan bool, 1)
	// drain replies so the server's sender never blocks on us
	go func() {
		buf := make([]byte, 65536)
		for {
			c.SetReadDeadline(time.Now().Add(3 * time.Second))
			_, err := c.Read(buf)
			if err != nil {
				done <- err == io.EOF || strings.Contains(err.Error(), "reset")
				return
			}
		}
	}()
	c.SetWriteDeadline(time.Now().Add(5 * time.Second))
	if cc.slowly {
		for o := 0; o < len(cc.input); {
			n := 1 + rng.Intn(9)
			if o+n > len(cc.input) {
				n = len(cc.input) - o
			}
			if _, err := c.Write(cc.input[o : o+n]); err != nil {
				break
			}
			o += n
		}
	} else {
		c.Write(cc.input)
	}
	// give the server a moment to work through the stream, then hang up
	select {
	case closed = <-done:
	case <-time.After(60 * time.Millisecond):
	}
	return closed
}

func modeCrash(tier string, args []string) {
	ncases := 600
	if tier == "thorough" {
		ncases = 20000
	}
	base, err := os.MkdirTemp(os.Getenv("VERIF_OUT"), "crash-")
	if err != nil {
		emit("HARNESSERROR mkdir %v", err)
		return
	}
	defer os.RemoveAll(base)
	root := filepath.Join(base, "root")
	prepareTree(root)
	nchild := 0
	ch, err := startChild(base, nchild)
	if err != nil {
		emit("HARNESSERROR %v", err)
		return
	}
	defer func() { ch.stdin.Close(); ch.cmd.Process.Kill() }()
	by := map[string]*bystander{}
	for t := range sockOf {
		by[t] = newBystander(base, t)
		if by[t] == nil {
			emit("HARNESSERROR bystander %s", t)
			return
		}
	}
	deaths := 0
	w := bufio.NewWriter(io.Discard)
	_ = w
	corpus := truncCases(tier == "thorough")
	total := ncases + len(corpus)
	// the last quarter again on a child started with -akaros (observation only: Akaros mode has no model)
	nak := ncases / 4
	if nak > 1500 {
		nak = 1500 // keeps the thorough tier inside its time limit
	}
	for i := 0; i < total+nak && deaths < 5; i++ {
		var cc crashCase
		if i == total {
			childAkaros = true
			nchild++
			ch.stdin.Close()
			ch.cmd.Process.Kill()
			prepareTree(root)
			if ch, err = startChild(base, nchild); err != nil {
				emit("HARNESSERROR restart (akaros): %v", err)
				return
			}
			for t := range sockOf {
				if by[t] != nil {
					by[t].c.Close()
				}
				if by[t] = newBystander(base, t); by[t] == nil {
					emit("HARNESSERROR bystander %s (akaros)", t)
					return
				}
			}
		}
		if i < len(corpus) {
			cc = corpus[i]
		} else if i < total {
			cc = genCrashCase(i - len(corpus))
		} else {
			cc = genCrashCase(ncases - nak + (i - total))
			cc.kind += "+akaros"
		}
		// the victim file / tree may have been changed by earlier cases
		if i%50 == 0 {
			prepareTree(root)
		}
		closed := runCrashCase(ch, cc)
		stat("cases_"+cc.kind+"_"+cc.target, 1)
		stat("bytes_sent", len(cc.input))
		if closed {
			stat("connection_closed_by_server", 1)
		}
		inp := append(concat(cc.setup), cc.input...)
		if len(inp) > 300000 {
			inp = inp[:300000]
		}
		verdict := ""
		// the process may take a moment to die
		if !probe(base, cc.target) || ch.isDead() {
			time.Sleep(100 * time.Millisecond)
			if ch.isDead() {
				verdict = fmt.Sprintf("C06.server_process_died target=%s kind=%s exit=%q input=%s stderr=%s", cc.target, cc.kind, ch.state, hx(inp), hxs(ch.stderrTail()))
			} else if !probe(base, cc.target) {
				verdict = fmt.Sprintf("C06.server_not_serving_after_case target=%s kind=%s input=%s", cc.target, cc.kind, hx(inp))
			}
		}
		if verdict == "" && !by[cc.target].ok() {
			if ch.isDead() {
				verdict = fmt.Sprintf("C06.server_process_died target=%s kind=%s exit=%q input=%s stderr=%s", cc.target, cc.kind, ch.state, hx(inp), hxs(ch.stderrTail()))
			} else {
				verdict = fmt.Sprintf("C06.other_connection_disturbed target=%s kind=%s input=%s", cc.target, cc.kind, hx(inp))
			}
		}
		if verdict == "" {
			emit("PASS target=%s kind=%s frames=%d bytes=%d closed=%d sum=%08x", cc.target, cc.kind, cc.frames, len(cc.input), b2i(closed), fnvSum(cc.input))
			continue
		}
		emit("%s", verdict)
		if ch.isDead() {
			deaths++
			nchild++
			ch.stdin.Close()
			prepareTree(root)
			if ch, err = startChild(base, nchild); err != nil {
				emit("HARNESSERROR restart: %v", err)
				return
			}
		}
		for t := range sockOf {
			if by[t] != nil {
				by[t].c.Close()
			}
			if by[t] = newBystander(base, t); by[t] == nil {
				emit("HARNESSERROR bystander %s after restart", t)
				return
			}
		}
	}
}

func fnvSum(b []byte) uint32 {
	h := fnv.New32a()
	h.Write(b)
	return h.Sum32()
}
