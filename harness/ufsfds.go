package main

// ufsfds (C11): what a connection to the Unix file server held is released when it ends.
// A Ufs on a scratch tree, one client session per case: fids are walked, opened (files and
// directories), created (files, directories, symbolic links, hard links - also hard links that
// fail), read, clunked, removed, in both dialects; then the session ends (orderly unmount, or the
// transport is cut, sometimes with a request outstanding, or the client sends a frame that cannot be decoded). When the connection is gone
//   - every fid object the implementation was shown must have been reported destroyed exactly once,
//   - ConnClosed exactly once,
//   - no descriptor of the process may still point into the exported tree (/proc/self/fd).
//
//   PASS sess=<n> ...
//   C11.ufs_descriptor_left_open ... | C11.ufs_fid_not_destroyed_exactly_once ... | C11.ufs_connclosed_not_once ...

import (
	"fmt"
	"net"
	"os"
	"path/filepath"
	"strings"
	"sync"
	"time"

	go9p "github.com/rminnich/go9p"
)

func init() { modes["ufsfds"] = modeUfsFds }

type fdSpy struct {
	*go9p.Ufs
	mu       sync.Mutex
	seen     map[*go9p.SrvFid]bool
	destroys map[*go9p.SrvFid]int
	closed   int
}

func (s *fdSpy) note(f *go9p.SrvFid) {
	if f == nil {
		return
	}
	s.mu.Lock()
	s.seen[f] = true
	s.mu.Unlock()
}
func (s *fdSpy) SrvReqProcess(r *go9p.SrvReq) {
	// the fids a request names are shown to the implementation
	r.Process()
}
func (s *fdSpy) SrvReqRespond(r *go9p.SrvReq) {
	s.note(r.Fid)
	s.note(r.Newfid)
	r.PostProcess()
}
func (s *fdSpy) FidDestroy(f *go9p.SrvFid) {
	s.mu.Lock()
	s.destroys[f]++
	s.mu.Unlock()
	s.Ufs.FidDestroy(f)
}
func (s *fdSpy) ConnOpened(c *go9p.Conn) {}
func (s *fdSpy) ConnClosed(c *go9p.Conn) {
	s.mu.Lock()
	s.closed++
	s.mu.Unlock()
}

// descriptors of this process that point into root
func fdsInto(root string) []string {
	var l []string
	ents, err := os.ReadDir("/proc/self/fd")
	if err != nil {
		return nil
	}
	for _, e := range ents {
		t, err := os.Readlink("/proc/self/fd/" + e.Name())
		if err == nil && (t == root || strings.HasPrefix(t, root+"/")) {
			l = append(l, t)
		}
	}
	return l
}

func modeUfsFds(tier string, args []string) {
	defer cleanupScratch()
	nsess := 60
	if tier == "thorough" {
		nsess = 600
	}
	base := scratch()
	for sess := 0; sess < nsess; sess++ {
		root := filepath.Join(base, fmt.Sprintf("fds%d", sess))
		_ = os.MkdirAll(filepath.Join(root, "d", "sub"), 0o755)
		_ = os.WriteFile(filepath.Join(root, "a"), randBytes(3000), 0o644)
		_ = os.WriteFile(filepath.Join(root, "b"), []byte("bbb"), 0o644)
		_ = os.WriteFile(filepath.Join(root, "d", "x"), []byte("xxx"), 0o644)
		_ = os.Symlink("a", filepath.Join(root, "l"))
		dotu := sess%2 == 0
		u := new(go9p.Ufs)
		u.Root = root
		u.Dotu = true
		u.Msize = 8192
		u.Id = "ufsfds"
		u.Log = sharedLogger()
		spy := &fdSpy{Ufs: u, seen: map[*go9p.SrvFid]bool{}, destroys: map[*go9p.SrvFid]int{}}
		if !u.Start(spy) {
			emit("HARNESSERROR ufsfds start")
			continue
		}
		c1, c2 := net.Pipe()
		u.NewConn(c2)
		clnt, err := go9p.Connect(c1, 8192, dotu)
		if err != nil {
			emit("HARNESSERROR ufsfds connect %v", err)
			continue
		}
		rpc := func(m *gmsg) (*go9p.Fcall, error) {
			tc := clnt.NewFcall()
			if err := packInto(tc, m, clnt.Dotu); err != nil {
				return nil, err
			}
			return clnt.Rpc(tc)
		}
		uid := uint64(os.Getuid())
		_, err = rpc(&gmsg{kind: go9p.Tattach, a: 1, b: uint64(go9p.NOFID), s1: []byte("u"), s2: []byte(""), c: uid})
		if err != nil {
			emit("HARNESSERROR ufsfds attach %v", err)
			clnt.Unmount()
			continue
		}
		var sb strings.Builder
		live := []uint32{} // fids other than the root that are valid
		next := uint32(2)
		walk := func(names ...string) (uint32, bool) {
			nb := make([][]byte, len(names))
			for i, n := range names {
				nb[i] = []byte(n)
			}
			f := next
			next++
			rc, err := rpc(&gmsg{kind: go9p.Twalk, a: 1, b: uint64(f), names: nb})
			if err != nil || len(rc.Wqid) != len(names) {
				return 0, false
			}
			live = append(live, f)
			return f, true
		}
		nops := 6 + rng.Intn(14)
		// the first sessions are scripted: every kind of operation appears whatever the seed
		script := []int{}
		switch sess {
		case 0, 1:
			script = []int{0, 1, 2, 5, 5, 6, 6, 3, 4, 7, 8}
		case 2, 3:
			script = []int{6, 6, 6, 0, 6, 2, 6}
		case 4, 5:
			script = []int{0, 0, 1, 1, 2, 2, 9}
		}
		if len(script) > 0 {
			nops = len(script)
		}
		for i := 0; i < nops; i++ {
			op := rng.Intn(10)
			if i < len(script) {
				op = script[i]
			}
			switch op {
			case 0: // open a file
				if f, ok := walk([]string{"a", "b", "l"}[rng.Intn(3)]); ok {
					_, err := rpc(&gmsg{kind: go9p.Topen, a: uint64(f), b: uint64([]uint8{go9p.OREAD, go9p.ORDWR, go9p.OWRITE}[rng.Intn(3)])})
					fmt.Fprintf(&sb, " open(%v)", err == nil)
					_, _ = rpc(&gmsg{kind: go9p.Tread, a: uint64(f), b: 0, c: 100})
				}
			case 1: // open and read a directory
				if f, ok := walk([][]string{{"d"}, {"d", "sub"}, {}}[rng.Intn(3)]...); ok {
					_, err := rpc(&gmsg{kind: go9p.Topen, a: uint64(f), b: go9p.OREAD})
					fmt.Fprintf(&sb, " opendir(%v)", err == nil)
					_, _ = rpc(&gmsg{kind: go9p.Tread, a: uint64(f), b: 0, c: 4000})
				}
			case 2: // partial and failing walks (the new fid must not survive)
				f := next
				next++
				_, err := rpc(&gmsg{kind: go9p.Twalk, a: 1, b: uint64(f), names: [][]byte{[]byte("d"), []byte("missing"), []byte("x")}})
				fmt.Fprintf(&sb, " partialwalk(%v)", err == nil)
				f = next
				next++
				_, err = rpc(&gmsg{kind: go9p.Twalk, a: 1, b: uint64(f), names: [][]byte{[]byte("missing")}})
				fmt.Fprintf(&sb, " failwalk(%v)", err == nil)
			case 3: // clunk one
				if len(live) > 0 {
					k := rng.Intn(len(live))
					_, err := rpc(&gmsg{kind: go9p.Tclunk, a: uint64(live[k])})
					fmt.Fprintf(&sb, " clunk(%v)", err == nil)
					live = append(live[:k], live[k+1:]...)
				}
			case 4: // remove one (the file may be gone already)
				if len(live) > 0 {
					k := rng.Intn(len(live))
					_, err := rpc(&gmsg{kind: go9p.Tremove, a: uint64(live[k])})
					fmt.Fprintf(&sb, " remove(%v)", err == nil)
					live = append(live[:k], live[k+1:]...)
				}
			case 5: // create a file or a directory through a clone of d (the fid is open afterwards)
				if f, ok := walk("d"); ok {
					perm := uint64(0o644)
					if rng.Intn(3) == 0 {
						perm = go9p.DMDIR | 0o755
					}
					name := fmt.Sprintf("new%d", rng.Intn(4)) // sometimes exists already: the create fails
					_, err := rpc(&gmsg{kind: go9p.Tcreate, a: uint64(f), s1: []byte(name), b: perm, c: go9p.OREAD, s2: []byte("")})
					fmt.Fprintf(&sb, " create(%v)", err == nil)
				}
			case 6: // hard link (9P2000.u): to an open file, to a directory (refused by the OS), under a name that exists
				if f, ok := walk("d"); ok {
					tgt, ok2 := walk([]string{"a", "d", "b"}[rng.Intn(3)])
					if ok2 {
						if rng.Intn(2) == 0 {
							_, _ = rpc(&gmsg{kind: go9p.Topen, a: uint64(tgt), b: go9p.OREAD})
						}
						name := []string{"x", "hl1", "hl2", "sub"}[rng.Intn(4)]
						_, err := rpc(&gmsg{kind: go9p.Tcreate, a: uint64(f), s1: []byte(name), b: go9p.DMLINK | 0o644, c: go9p.OREAD, s2: []byte(fmt.Sprint(tgt))})
						fmt.Fprintf(&sb, " link(%v)", err == nil)
					}
				}
			case 7: // symbolic link
				if f, ok := walk("d"); ok {
					_, err := rpc(&gmsg{kind: go9p.Tcreate, a: uint64(f), s1: []byte(fmt.Sprintf("sl%d", rng.Intn(3))), b: go9p.DMSYMLINK | 0o777, c: go9p.OREAD, s2: []byte("x")})
					fmt.Fprintf(&sb, " symlink(%v)", err == nil)
				}
			case 8: // stat / wstat (rename) through an open fid
				if len(live) > 0 {
					f := live[rng.Intn(len(live))]
					_, err := rpc(&gmsg{kind: go9p.Tstat, a: uint64(f)})
					fmt.Fprintf(&sb, " stat(%v)", err == nil)
				}
			case 9: // second open of an open fid, walk from an open fid (both refused)
				if len(live) > 0 {
					f := live[rng.Intn(len(live))]
					_, _ = rpc(&gmsg{kind: go9p.Topen, a: uint64(f), b: go9p.OREAD})
					_, err := rpc(&gmsg{kind: go9p.Topen, a: uint64(f), b: go9p.OREAD})
					fmt.Fprintf(&sb, " reopen(%v)", err == nil)
				}
			}
		}
		// the end of the session
		how := sess % 4
		switch how {
		case 3:
			// a complete frame the server cannot decode (a Twalk that ends inside its newfid field; an unknown
			// message type): the server drops the connection, and that is a disconnect like any other
			bad := []byte{13, 0, 0, 0, go9p.Twalk, 9, 0, 1, 0, 0, 0, 7, 0}
			if sess%8 == 7 {
				bad = []byte{9, 0, 0, 0, 250, 9, 0, 1, 2}
			}
			_, _ = c1.Write(bad)
			time.Sleep(2 * time.Millisecond)
			_ = c1.Close()
		case 0:
			clnt.Unmount()
		case 1:
			_ = c1.Close()
		case 2:
			// a read outstanding on a fresh fid when the transport goes away
			if f, ok := walk("a"); ok {
				_, _ = rpc(&gmsg{kind: go9p.Topen, a: uint64(f), b: go9p.OREAD})
				tc := clnt.NewFcall()
				if packInto(tc, &gmsg{kind: go9p.Tread, a: uint64(f), b: 0, c: 4000}, clnt.Dotu) == nil {
					req := clnt.ReqAlloc()
					req.Tc = tc
					req.Done = make(chan *go9p.Req, 1)
					go func() { _ = clnt.Rpcnb(req) }()
				}
			}
			_ = c1.Close()
		}
		// wait until the server side is quiet
		var left []string
		bad := 0
		nseen := 0
		ccl := 0
		for w := 0; w < 300; w++ {
			left = fdsInto(root)
			spy.mu.Lock()
			bad, nseen = 0, len(spy.seen)
			for f := range spy.seen {
				if spy.destroys[f] != 1 {
					bad++
				}
			}
			for f, n := range spy.destroys {
				if n != 1 && !spy.seen[f] {
					bad++
				}
			}
			ccl = spy.closed
			spy.mu.Unlock()
			if len(left) == 0 && bad == 0 && ccl == 1 {
				break
			}
			time.Sleep(10 * time.Millisecond)
		}
		desc := fmt.Sprintf("sess=%d dotu=%d end=%d fids=%d ops=%d%s", sess, b2i(dotu), how, nseen, nops, sb.String())
		switch {
		case len(left) > 0:
			emit("C11.ufs_descriptor_left_open %s left=%s", desc, strings.Join(left, ","))
		case bad > 0:
			emit("C11.ufs_fid_not_destroyed_exactly_once %s wrong=%d", desc, bad)
		case ccl != 1:
			emit("C11.ufs_connclosed_not_once %s closed=%d", desc, ccl)
		default:
			emit("PASS %s", desc)
		}
		stat("ufsfds.sessions", 1)
		stat("ufsfds.fids_shown", nseen)
		_ = os.RemoveAll(root)
	}
}
