package main

// clntver (C12, the client's direction): the real client's Connect against a scripted peer that
// answers the Tversion with a chosen msize and version string; afterwards an attach, an open
// (the peer reports a chosen iounit), one Clnt.Write and one Clnt.Read with a buffer far above
// the limit. Observed: the Tversion the client sent, the msize and dialect it adopted, the
// largest frame it wrote, the count of its Tread.
//
//   CV <cm> <wantu> <sm> <srvver> <riounit> <n> => <tvmsize> <tvver> <msize> <dotu> <maxframe> <readcount> CONNECT <ok>

import (
	"os"
	"sync"
	"sync/atomic"
	"time"

	go9p "github.com/rminnich/go9p"
)

func init() { modes["clntver"] = modeClntVer }

func clntVerCase(cm uint32, wantu bool, sm uint32, srvver string, riounit uint32, n int) {
	conn := newSegConn()
	var mu sync.Mutex
	maxframe := 0
	readcount := int64(-1)
	tvmsize, tvver := uint32(0), ""
	stop := make(chan struct{})
	wiredotu := wantu && srvver == "9P2000.u"
	go func() {
		seen := 0
		for {
			select {
			case <-stop:
				return
			default:
			}
			fr := conn.frames()
			for ; seen < len(fr); seen++ {
				f := fr[seen]
				tc, _, err := go9p.Unpack(f, wiredotu && seen > 0)
				if err != nil {
					continue
				}
				rc := go9p.NewFcall(1 << 20)
				switch tc.Type {
				case go9p.Tversion:
					mu.Lock()
					tvmsize, tvver = tc.Msize, tc.Version
					mu.Unlock()
					_ = go9p.PackRversion(rc, sm, srvver)
				case go9p.Tattach:
					_ = go9p.PackRattach(rc, &go9p.Qid{Type: go9p.QTDIR, Path: 1})
				case go9p.Topen:
					_ = go9p.PackRopen(rc, &go9p.Qid{Path: 2}, riounit)
				case go9p.Twrite:
					mu.Lock()
					if len(f) > maxframe {
						maxframe = len(f)
					}
					mu.Unlock()
					_ = go9p.PackRwrite(rc, tc.Count)
				case go9p.Tread:
					mu.Lock()
					readcount = int64(tc.Count)
					mu.Unlock()
					k := tc.Count
					if k > 5 {
						k = 5
					}
					_ = go9p.PackRread(rc, make([]byte, k))
				default:
					_ = go9p.PackRclunk(rc)
				}
				go9p.SetTag(rc, tc.Tag)
				conn.push(append([]byte{}, rc.Pkt...))
			}
			time.Sleep(30 * time.Microsecond)
		}
	}()
	type res struct {
		c   *go9p.Clnt
		err error
	}
	ch := make(chan res, 1)
	go func() {
		c, err := go9p.Connect(conn, cm, wantu)
		ch <- res{c, err}
	}()
	var r res
	select {
	case r = <-ch:
	case <-time.After(3 * time.Second):
		r.err = os.ErrDeadlineExceeded
	}
	okc := r.err == nil && r.c != nil
	msize, dotu := uint32(0), false
	if okc {
		msize, dotu = atomic.LoadUint32(&r.c.Msize), r.c.Dotu
		done := make(chan struct{})
		go func() {
			defer close(done)
			user := go9p.OsUsers.Uid2User(os.Getuid())
			fid, err := r.c.Attach(nil, user, "")
			if err != nil {
				return
			}
			if r.c.Open(fid, go9p.ORDWR) != nil {
				return
			}
			_, _ = r.c.Write(fid, make([]byte, n), 0)
			_, _ = r.c.Read(fid, 0, uint32(n))
		}()
		select {
		case <-done:
		case <-time.After(3 * time.Second):
		}
		r.c.Unmount()
	} else {
		_ = conn.Close()
	}
	close(stop)
	mu.Lock()
	emit("CV %d %d %d %s %d %d => %d %s %d %d %d %d CONNECT %d", cm, b2i(wantu), sm, hxs(srvver), riounit, n,
		tvmsize, hxs(tvver), msize, b2i(dotu), maxframe, readcount, b2i(okc))
	mu.Unlock()
	stat("clntver.cases", 1)
}

func modeClntVer(tier string, args []string) {
	cms := []uint32{24, 25, 64, 1000, 4096, 8192, 8216, 65536, 1<<20 + 24}
	vers := []string{"9P2000.u", "9P2000"}
	for _, cm := range cms {
		// the server's msize: far below, just below (every distance up to IOHDRSZ+1), equal, above
		var sms []uint32
		for _, d := range []uint32{0, 1, 2, 8, 23, 24, 25, 100} {
			if cm >= 24+d {
				sms = append(sms, cm-d)
			}
		}
		sms = append(sms, 24, cm/2+12, cm+1, cm+24, 1<<20+24)
		for _, sm := range sms {
			if sm < 24 {
				continue
			}
			for _, wantu := range []bool{true, false} {
				for _, sv := range vers {
					riounit := []uint32{0, 0, 100, 1 << 30, sm - 24, sm - 23}[rng.Intn(6)]
					n := []int{3 * int(cm), 1, int(sm), 200000}[rng.Intn(4)]
					if tier == "quick" && n > 300000 {
						n = 300000
					}
					clntVerCase(cm, wantu, sm, sv, riounit, n)
				}
			}
		}
	}
}
