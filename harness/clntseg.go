package main

// clntseg (C13, C09): the client's receive loop under segmentation, up to and across the end of its
// 8 x msize receive buffer. A client with a small msize has K calls outstanding (K up to 150, so the
// replies fill the buffer several times); the scripted peer answers all of them in one reply stream
// (Rread with 0 .. msize-11 data bytes derived from the tag, some Rerror, optionally a bad frame at
// the end), delivered whole, in pieces of many fixed sizes, cut at random points, and cut at the
// buffer boundary. Every caller reports the frame it was handed.
//
//   RC <msize> <dotu> <streamhex> SEG <k> <len>*k ; N <n> { <tag> <type> <framemd5> }*n ; OWN <b> ; ST <open|closed|stalled>

import (
	"fmt"
	"sort"
	"strings"
	"sync"
	"time"

	go9p "github.com/rminnich/go9p"
)

func init() { modes["clntseg"] = modeClntSeg }

type segRec struct {
	tag uint16
	typ uint8
	sum string
}

func clntSegReply(tag uint16, fid uint32, msize uint32, dotu bool) []byte {
	h := uint32(tag)*2654435761 + fid*40503
	out := go9p.NewFcall(msize + 64)
	switch {
	case h%11 == 3:
		_ = go9p.PackRerror(out, fmt.Sprintf("scripted-%d", tag), 77, dotu)
	default:
		var n uint32
		switch h % 7 {
		case 0:
			n = 0
		case 1:
			n = msize - 11 // a frame of exactly msize bytes
		case 2:
			n = msize - 12
		default:
			n = (h / 7) % (msize - 10)
		}
		d := make([]byte, n)
		for i := range d {
			d[i] = byte(uint32(i)*7 + uint32(tag))
		}
		_ = go9p.PackRread(out, d)
	}
	go9p.SetTag(out, tag)
	return append([]byte{}, out.Pkt...)
}

func runClntSegCase(msize uint32, dotu bool, k int, order []int, bad int, segsOf func(stream []byte) [][]byte) string {
	conn := newSegConn()
	clnt := go9p.NewClnt(conn, msize, dotu)
	var mu sync.Mutex
	var recs []segRec
	own := true
	var wg sync.WaitGroup
	done := make(chan struct{})
	for i := 0; i < k; i++ {
		wg.Add(1)
		go func(i int) {
			defer wg.Done()
			tc := clnt.NewFcall()
			_ = go9p.PackTread(tc, uint32(1000+i), 0, 1)
			rc, _ := clnt.Rpc(tc)
			if rc == nil {
				return
			}
			mu.Lock()
			recs = append(recs, segRec{rc.Tag, rc.Type, sha8(rc.Pkt)})
			want := clntSegReply(rc.Tag, uint32(1000+i), msize, dotu)
			if string(want) != string(rc.Pkt) {
				own = false
			}
			mu.Unlock()
		}(i)
	}
	go func() { wg.Wait(); close(done) }()
	dl := time.Now().Add(3 * time.Second)
	for len(conn.frames()) < k && time.Now().Before(dl) {
		time.Sleep(30 * time.Microsecond)
	}
	reqs := conn.frames()
	byFid := map[uint32]uint16{}
	for _, r := range reqs {
		if fc, _, err := go9p.Unpack(r, dotu); err == nil {
			byFid[fc.Fid] = fc.Tag
		}
	}
	var stream []byte
	for _, idx := range order {
		tag, ok := byFid[uint32(1000+idx)]
		if !ok {
			continue
		}
		stream = append(stream, clntSegReply(tag, uint32(1000+idx), msize, dotu)...)
	}
	switch bad {
	case 1: // announces more than msize
		b := make([]byte, 11)
		put32(b, msize+1)
		b[4] = go9p.Rread
		stream = append(stream, b...)
	case 2: // not a message
		stream = append(stream, 9, 0, 0, 0, 250, 1, 0, 0xff, 0xff)
	}
	segs := segsOf(stream)
	stalled := false
	for _, s := range segs {
		dl := time.Now().Add(2 * time.Second)
		for {
			conn.mu.Lock()
			busy := len(conn.segs) > 0 && !conn.closed
			conn.mu.Unlock()
			if !busy {
				break
			}
			if time.Now().After(dl) {
				stalled = true
				break
			}
			time.Sleep(20 * time.Microsecond)
		}
		if stalled || conn.isClosed() {
			break
		}
		conn.push(append([]byte{}, s...))
	}
	select {
	case <-done:
	case <-time.After(3 * time.Second):
		if !conn.isClosed() {
			stalled = true
		}
	}
	time.Sleep(200 * time.Microsecond)
	st := "open"
	if conn.isClosed() {
		st = "closed"
	}
	if stalled && st == "open" {
		st = "stalled"
	}
	clnt.Unmount()
	select {
	case <-done:
	case <-time.After(2 * time.Second):
	}
	mu.Lock()
	defer mu.Unlock()
	sort.Slice(recs, func(i, j int) bool { return recs[i].tag < recs[j].tag })
	var sb strings.Builder
	fmt.Fprintf(&sb, "RC %d %d %s SEG %d", msize, b2i(dotu), hx(stream), len(segs))
	for _, s := range segs {
		fmt.Fprintf(&sb, " %d", len(s))
	}
	fmt.Fprintf(&sb, " ; N %d", len(recs))
	for _, r := range recs {
		fmt.Fprintf(&sb, " %d %d %s", r.tag, r.typ, r.sum)
	}
	fmt.Fprintf(&sb, " ; OWN %d ; ST %s", b2i(own), st)
	return sb.String()
}

func pieces(stream []byte, n int) [][]byte {
	var out [][]byte
	for len(stream) > n {
		out = append(out, stream[:n])
		stream = stream[n:]
	}
	if len(stream) > 0 {
		out = append(out, stream)
	}
	return out
}

func modeClntSeg(tier string, args []string) {
	rounds := 2
	if tier == "thorough" {
		rounds = 30
	}
	for r := 0; r < rounds; r++ {
		for _, msize := range []uint32{64, 100, 128, 256} {
			dotu := (r+int(msize))%2 == 0
			k := []int{20, 60, 120, 150}[rng.Intn(4)]
			if msize == 256 {
				k = 60
			}
			order := rng.Perm(k)
			bad := []int{0, 0, 0, 1, 2}[rng.Intn(5)]
			var segfs []func([]byte) [][]byte
			segfs = append(segfs, func(s []byte) [][]byte { return [][]byte{s} })
			for _, n := range []int{1, 2, 3, 5, 7, 11, 17, 29, 41, 50, 64, 77, 100, 128, 200, 300, 500, 8*int(msize) - 3, 8 * int(msize), 8*int(msize) + 5} {
				n := n
				if tier == "quick" && n < 5 && k > 60 {
					continue
				}
				segfs = append(segfs, func(s []byte) [][]byte { return pieces(s, n) })
			}
			for i := 0; i < 3; i++ {
				segfs = append(segfs, func(s []byte) [][]byte {
					var pts []int
					for j := 0; j < 1+rng.Intn(12); j++ {
						pts = append(pts, 1+rng.Intn(len(s)+1))
					}
					sortInts(pts)
					return cut(s, pts)
				})
			}
			for _, sf := range segfs {
				emit("%s", runClntSegCase(msize, dotu, k, order, bad, sf))
				stat("clntseg.cases", 1)
			}
		}
	}
}
