package main

// bystander: while one connection is being torn down (its ConnClosed / FidDestroy callbacks
// running slowly inside the implementation) another connection of the same server must keep
// being served, and new connections must be accepted.
//
//   PASS round=<n> hold=<destroy|closed> ...
//   C11.other_connection_disturbed_by_teardown ... | C11.new_connection_not_served_during_teardown ...
//   C11.victim_not_released ...

import (
	"fmt"
	"net"
	"sync"
	"time"

	go9p "github.com/rminnich/go9p"
)

func init() { modes["bystander"] = modeBystander }

type byOps struct {
	go9p.Srv
	mu        sync.Mutex
	gateD     chan bool // FidDestroy blocks on it
	gateC     chan bool // ConnClosed blocks on it
	inGate    int
	destroys  int
	closedCnt int
}

var byQid = go9p.Qid{Type: go9p.QTDIR, Path: 1}

func (o *byOps) Attach(r *go9p.SrvReq) { r.RespondRattach(&byQid) }
func (o *byOps) Walk(r *go9p.SrvReq) {
	qs := make([]go9p.Qid, len(r.Tc.Wname))
	for i := range qs {
		qs[i] = byQid
	}
	r.RespondRwalk(qs)
}
func (o *byOps) Open(r *go9p.SrvReq)   { r.RespondRopen(&byQid, 0) }
func (o *byOps) Create(r *go9p.SrvReq) { r.RespondError("no") }
func (o *byOps) Read(r *go9p.SrvReq)   { r.RespondRread(nil) }
func (o *byOps) Write(r *go9p.SrvReq)  { r.RespondRwrite(0) }
func (o *byOps) Clunk(r *go9p.SrvReq)  { r.RespondRclunk() }
func (o *byOps) Remove(r *go9p.SrvReq) { r.RespondRremove() }
func (o *byOps) Stat(r *go9p.SrvReq) {
	r.RespondRstat(&go9p.Dir{Qid: byQid, Name: "x", Uid: "u", Gid: "g", Muid: "m"})
}
func (o *byOps) Wstat(r *go9p.SrvReq) { r.RespondRwstat() }
func (o *byOps) FidDestroy(f *go9p.SrvFid) {
	o.mu.Lock()
	o.destroys++
	g := o.gateD
	if g != nil {
		o.inGate++
	}
	o.mu.Unlock()
	if g != nil {
		<-g
	}
}
func (o *byOps) ConnOpened(c *go9p.Conn) {}
func (o *byOps) ConnClosed(c *go9p.Conn) {
	o.mu.Lock()
	o.closedCnt++
	g := o.gateC
	if g != nil {
		o.inGate++
	}
	o.mu.Unlock()
	if g != nil {
		<-g
	}
}

func byDial(o *byOps) net.Conn {
	c1, c2 := net.Pipe()
	o.NewConn(c2)
	return c1
}

func byRPC(c net.Conn, m *gmsg, tag uint16, d time.Duration) []byte {
	c.SetWriteDeadline(time.Now().Add(d))
	if _, err := c.Write(ccFrame(m, true, tag)); err != nil {
		return nil
	}
	f, _ := readFrameT(c, d)
	return f
}

func modeBystander(tier string, args []string) {
	rounds := 8
	if tier == "thorough" {
		rounds = 200
	}
	for r := 0; r < rounds; r++ {
		o := &byOps{}
		o.Msize, o.Dotu, o.Id, o.Log = 8192, true, "bystander", sharedLogger()
		if !o.Start(o) {
			emit("HARNESSERROR start")
			return
		}
		hold := []string{"destroy", "closed"}[r%2]
		victim, by := byDial(o), byDial(o)
		ok := true
		for _, c := range []net.Conn{victim, by} {
			ok = ok && byRPC(c, &gmsg{kind: go9p.Tversion, a: 8192, s1: []byte("9P2000.u")}, go9p.NOTAG, 2*time.Second) != nil
			ok = ok && byRPC(c, &gmsg{kind: go9p.Tattach, a: 0, b: uint64(go9p.NOFID), s1: []byte("u"), s2: []byte("")}, 1, 2*time.Second) != nil
		}
		nv := 1 + r%3
		for i := 0; i < nv; i++ {
			ok = ok && byRPC(victim, &gmsg{kind: go9p.Twalk, a: 0, b: uint64(1 + i), names: nil}, uint16(2+i), 2*time.Second) != nil
		}
		if !ok {
			emit("HARNESSERROR setup round=%d", r)
			continue
		}
		gate := make(chan bool)
		o.mu.Lock()
		if hold == "destroy" {
			o.gateD = gate
		} else {
			o.gateC = gate
		}
		o.mu.Unlock()
		victim.Close()
		dl := time.Now().Add(2 * time.Second)
		for time.Now().Before(dl) {
			o.mu.Lock()
			n := o.inGate
			o.mu.Unlock()
			if n > 0 {
				break
			}
			time.Sleep(50 * time.Microsecond)
		}
		verdict := ""
		// the bystander goes on: requests that need the fid table and the server's bookkeeping
		for i := 0; i < 3 && verdict == ""; i++ {
			f := byRPC(by, &gmsg{kind: go9p.Tstat, a: 0}, uint16(10+i), 4*time.Second)
			if len(f) < 7 || f[4] != go9p.Rstat {
				verdict = fmt.Sprintf("C11.other_connection_disturbed_by_teardown round=%d hold=%s request=%d", r, hold, i)
			}
		}
		if verdict == "" {
			third := byDial(o)
			f := byRPC(third, &gmsg{kind: go9p.Tversion, a: 8192, s1: []byte("9P2000.u")}, go9p.NOTAG, 4*time.Second)
			if len(f) < 7 || f[4] != go9p.Rversion {
				verdict = fmt.Sprintf("C11.new_connection_not_served_during_teardown round=%d hold=%s", r, hold)
			}
			third.Close()
		}
		o.mu.Lock()
		o.gateD, o.gateC = nil, nil
		o.mu.Unlock()
		close(gate)
		// the victim is released completely
		dl = time.Now().Add(2 * time.Second)
		for time.Now().Before(dl) {
			o.mu.Lock()
			d, c := o.destroys, o.closedCnt
			o.mu.Unlock()
			if d >= nv+1 && c >= 1 {
				break
			}
			time.Sleep(100 * time.Microsecond)
		}
		o.mu.Lock()
		d, c := o.destroys, o.closedCnt
		o.mu.Unlock()
		by.Close()
		if verdict == "" && (d < nv+1 || c < 1) {
			verdict = fmt.Sprintf("C11.victim_not_released round=%d hold=%s destroys=%d of %d closed=%d", r, hold, d, nv+1, c)
		}
		stat("bystander.rounds", 1)
		if verdict == "" {
			emit("PASS round=%d hold=%s victimfids=%d", r, hold, nv+1)
		} else {
			emit("%s", verdict)
		}
	}
}
