(* File data path: Ufs.Read / Ufs.Write on a regular file (ufs.go), the count
   guard of srv.read / srv.write, Clnt.Open's iounit, Clnt.Read / Clnt.Write and
   the File helpers Read, ReadAt, Readn, Write, WriteAt, Written (clnt_read.go,
   clnt_write.go, clnt_open.go).  The file is a byte list with POSIX pread/pwrite.
   Model definitions only. *)
From Coq Require Import NArith List Bool PeanoNat.
From V9 Require Import Lib.GoSem Lib.Bytes Gen.Consts.
Import ListNotations.
Local Open Scope N_scope.

(* ---- the underlying file (POSIX) ---- *)
Definition pread (file : bytes) (off cnt : N) : bytes :=
  firstn (N.to_nat cnt) (skipn (N.to_nat off) file).

Definition pwrite (file : bytes) (off : N) (data : bytes) : bytes :=
  match data with
  | [] => file                                   (* a zero-length write changes nothing *)
  | _ =>
    let o := N.to_nat off in
    firstn o file ++ repeat 0 (o - length file) ++ data ++ skipn (o + length data) file
  end.

Definition two63 : N := 9223372036854775808.

(* ---- server side: srv.read guard + Ufs.Read on a regular file ---- *)
(* reply data, or an error *)
Definition ufs_read (msize : N) (file : bytes) (off cnt : N) : res bytes :=
  if (msize + two32 - c_IOHDRSZ) mod two32 <? cnt then Err [1]          (* Etoolarge *)
  else if two63 <=? off then Err [2]                                     (* ReadAt: negative offset *)
  else Ok (pread file off cnt).     (* InitRread(count); ReadAt(rc.Data, offset); io.EOF tolerated; SetRreadCount(n) *)

Definition ufs_write (msize : N) (file : bytes) (off : N) (data : bytes) : res (N * bytes) :=
  if (msize + two32 - c_IOHDRSZ) mod two32 <? len data then Err [1]
  else if two63 <=? off then Err [2]
  else Ok (len data, pwrite file off data).

(* ---- client side ---- *)
(* Clnt.Open: if fid.Iounit == 0 || fid.Iounit > clnt.Msize-IOHDRSZ { fid.Iounit = clnt.Msize - IOHDRSZ } *)
Definition open_iounit (msize : N) (riounit : N) : N :=
  if (riounit =? 0) || (msize - c_IOHDRSZ <? riounit) then msize - c_IOHDRSZ else riounit.

(* Clnt.Read: if count > fid.Iounit { count = fid.Iounit }; Tread; return rc.Data *)
Definition clnt_read (msize iounit : N) (file : bytes) (off cnt : N) : res bytes :=
  ufs_read msize file off (if iounit <? cnt then iounit else cnt).

(* File.ReadAt(buf, offset): copies into buf; empty => io.EOF *)
Inductive rdres := RdOk (data : bytes) | RdEOF | RdErr.
Definition file_readat (msize iounit : N) (file : bytes) (buflen off : N) : rdres :=
  match clnt_read msize iounit file off buflen with
  | Ok [] => RdEOF
  | Ok d => RdOk d
  | _ => RdErr
  end.

(* File.Read: ReadAt at file.offset; on success offset += n. Returns data and new offset *)
Definition file_read (msize iounit : N) (file : bytes) (buflen offset : N) : rdres * N :=
  match file_readat msize iounit file buflen offset with
  | RdOk d => (RdOk d, offset + len d)
  | r => (r, offset)
  end.

(* File.Readn(buf, offset): loop until the buffer is full or end of file *)
Fixpoint file_readn (fuel : nat) (msize iounit : N) (file : bytes) (buflen off : N) : res bytes :=
  match fuel with
  | O => OutOfFuel
  | S f =>
    if buflen =? 0 then Ok []
    else match file_readat msize iounit file buflen off with
         | RdEOF => Ok []                        (* io.EOF: return what was read so far *)
         | RdErr => Err [3]
         | RdOk d =>
           do rest <- file_readn f msize iounit file (buflen - len d) (off + len d);
           Ok (d ++ rest)
         end
  end.

(* Clnt.Write: data truncated to iounit; returns Rwrite.count and the new file *)
Definition clnt_write (msize iounit : N) (file : bytes) (off : N) (data : bytes) : res (N * bytes) :=
  ufs_write msize file off (if iounit <? len data then firstn (N.to_nat iounit) data else data).

(* File.Written(buf, offset): loop until everything is written (or a zero-length write) *)
Fixpoint file_written (fuel : nat) (msize iounit : N) (file : bytes) (off : N) (data : bytes) : res (N * bytes) :=
  match fuel with
  | O => OutOfFuel
  | S f =>
    match data with
    | [] => Ok (0, file)
    | _ =>
      do (n, file') <- clnt_write msize iounit file off data;
      if n =? 0 then Ok (0, file')
      else
        do (m, file'') <- file_written f msize iounit file' (off + n) (skipn (N.to_nat n) data);
        Ok (n + m, file'')
    end
  end.

(* ---- operation sequences on one open file, as the harness issues them ---- *)
Inductive fop :=
| FRead (off cnt : N)        (* Clnt.Read *)
| FReadn (off n : N)         (* File.Readn with a buffer of n bytes *)
| FSeqRead (n : N)           (* File.Read with a buffer of n bytes at the running offset *)
| FWrite (off : N) (data : bytes)   (* Clnt.Write *)
| FWritten (off : N) (data : bytes) (* File.Written *)
| FSeqWrite (data : bytes).  (* File.Write at the running offset *)

Inductive fout :=
| OData (d : bytes) | OCount (n : N) | OEOF | OErr.

Definition fstep (msize iounit : N) (st : bytes * N) (op : fop) : (bytes * N) * fout :=
  let '(file, offset) := st in
  match op with
  | FRead off cnt =>
    match clnt_read msize iounit file off cnt with Ok d => (st, OData d) | _ => (st, OErr) end
  | FReadn off n =>
    match file_readn (S (N.to_nat n)) msize iounit file n off with Ok d => (st, OData d) | _ => (st, OErr) end
  | FSeqRead n =>
    match file_read msize iounit file n offset with
    | (RdOk d, o') => ((file, o'), OData d)
    | (RdEOF, _) => (st, OEOF)
    | (RdErr, _) => (st, OErr)
    end
  | FWrite off data =>
    match clnt_write msize iounit file off data with Ok (n, f') => ((f', offset), OCount n) | _ => (st, OErr) end
  | FWritten off data =>
    match file_written (S (length data)) msize iounit file off data with
    | Ok (n, f') => ((f', offset), OCount n) | _ => (st, OErr) end
  | FSeqWrite data =>
    match clnt_write msize iounit file offset data with
    | Ok (n, f') => ((f', offset + n), OCount n) | _ => (st, OErr) end
  end.

Fixpoint frun (msize iounit : N) (st : bytes * N) (ops : list fop) : (bytes * N) * list fout :=
  match ops with
  | [] => (st, [])
  | op :: rest =>
    let '(st1, o) := fstep msize iounit st op in
    let '(st2, os) := frun msize iounit st1 rest in
    (st2, o :: os)
  end.
