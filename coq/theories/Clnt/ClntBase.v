(* Basic list facts and the step-inversion tactic used by the client proofs. *)
From Coq Require Import NArith List Bool PeanoNat Lia Permutation.
From V9 Require Import Lib.GoSem Gen.Consts Clnt.Model.
Import ListNotations.

(* ---------- upd ---------- *)

Lemma upd_len {A} (l : list A) i x : length (upd l i x) = length l.
Proof. revert i; induction l; intros [|i]; simpl; auto. Qed.

Lemma nth_upd_eq {A} (l : list A) i x : i < length l -> nth_error (upd l i x) i = Some x.
Proof.
  revert i; induction l; intros [|i]; simpl; intros; try lia; auto.
  apply IHl; lia.
Qed.

Lemma nth_upd_neq {A} (l : list A) i j x : i <> j -> nth_error (upd l i x) j = nth_error l j.
Proof.
  revert i j; induction l; intros [|i] [|j]; simpl; intros; try congruence; auto.
Qed.

Lemma nth_lt {A} (l : list A) i x : nth_error l i = Some x -> i < length l.
Proof. intros H. apply nth_error_Some. congruence. Qed.

Lemma nth_upd_cases {A} (l : list A) i j x y :
  nth_error (upd l i x) j = Some y ->
  (j = i /\ y = x /\ i < length l) \/ (j <> i /\ nth_error l j = Some y).
Proof.
  intros H. destruct (Nat.eq_dec j i) as [->|Hn].
  - left. assert (i < length l) by (apply nth_lt in H; rewrite upd_len in H; auto).
    rewrite nth_upd_eq in H by auto. split; auto. split; congruence.
  - right. rewrite nth_upd_neq in H by auto. auto.
Qed.

Lemma nth_app_last {A} (l : list A) x : nth_error (l ++ [x]) (length l) = Some x.
Proof. rewrite nth_error_app2 by lia. rewrite Nat.sub_diag. reflexivity. Qed.

Lemma nth_app_cases {A} (l : list A) x j y :
  nth_error (l ++ [x]) j = Some y ->
  (j = length l /\ y = x) \/ (j < length l /\ nth_error l j = Some y).
Proof.
  intros H. destruct (Nat.lt_ge_cases j (length l)).
  - right. rewrite nth_error_app1 in H by auto. auto.
  - left. assert (j < length (l ++ [x])) by (eapply nth_lt; eauto).
    rewrite app_length in H1; simpl in H1. assert (j = length l) by lia. subst.
    rewrite nth_app_last in H. split; congruence.
Qed.

Lemma nth_app_old {A} (l : list A) x j : j < length l -> nth_error (l ++ [x]) j = nth_error l j.
Proof. intros. apply nth_error_app1; auto. Qed.

(* ---------- remove_first ---------- *)

Lemma in_remove_first l r x : In x (remove_first l r) -> In x l.
Proof.
  induction l; simpl; auto. destruct (a =? r); simpl; intuition.
Qed.

Lemma in_remove_first_iff l r x : NoDup l -> (In x (remove_first l r) <-> In x l /\ x <> r).
Proof.
  induction 1 as [|a l Ha Hnd IH]; simpl.
  - tauto.
  - destruct (Nat.eqb_spec a r).
    + subst. split.
      * intros Hx. split; auto. intros ->. contradiction.
      * intros [[->|Hx] Hne]; congruence.
    + simpl. rewrite IH. split.
      * intros [->|[? ?]]; auto.
      * intros [[->|Hx] Hne]; auto.
Qed.

Lemma nodup_remove_first l r : NoDup l -> NoDup (remove_first l r).
Proof.
  induction 1 as [|a l Ha Hnd IH]; simpl.
  - constructor.
  - destruct (a =? r); auto. constructor; auto.
    intros Hx. apply in_remove_first in Hx. contradiction.
Qed.

Lemma length_remove_first l r : In r l -> S (length (remove_first l r)) = length l.
Proof.
  induction l; simpl; intros H. contradiction.
  destruct (Nat.eqb_spec a r); auto. simpl. destruct H; try congruence. rewrite IHl; auto.
Qed.

(* ---------- find_tag ---------- *)

Lemma find_tag_spec rs l tag r :
  find_tag rs l tag = Some r ->
  exists pre post q, l = pre ++ r :: post /\ nth_error rs r = Some q /\ cr_wire q = tag /\
    forall r' q', In r' pre -> nth_error rs r' = Some q' -> cr_wire q' <> tag.
Proof.
  induction l as [|a l IH]; simpl; intros H. discriminate.
  destruct (nth_error rs a) as [q|] eqn:Hq.
  - destruct (N.eqb_spec (cr_wire q) tag).
    + injection H as <-. exists [], l, q. simpl. repeat split; auto.
    + destruct (IH H) as (pre & post & q0 & -> & ? & ? & Hpre).
      exists (a :: pre), post, q0. repeat split; auto.
      intros r' q' [<-|Hin] Hr'; [congruence|eauto].
  - destruct (IH H) as (pre & post & q0 & -> & ? & ? & Hpre).
    exists (a :: pre), post, q0. repeat split; auto.
    intros r' q' [<-|Hin] Hr'; [congruence|eauto].
Qed.

Lemma find_tag_in rs l tag r : find_tag rs l tag = Some r -> In r l.
Proof.
  intros H. apply find_tag_spec in H. destruct H as (pre & post & q & -> & _).
  apply in_or_app. right. left. auto.
Qed.

(* ---------- NoDup over append ---------- *)

Lemma nodup_app {A} (a b : list A) :
  NoDup (a ++ b) <-> NoDup a /\ NoDup b /\ (forall x, In x a -> ~ In x b).
Proof.
  induction a as [|h a IH]; simpl.
  - split. intros; repeat split; auto. constructor. intros (_ & ? & _); auto.
  - split.
    + intros H. inversion H; subst. apply IH in H3. destruct H3 as (Ha & Hb & Hd).
      rewrite in_app_iff in H2. repeat split; auto.
      * constructor; auto.
      * intros x [<-|Hx]; auto.
    + intros (Ha & Hb & Hd). inversion Ha; subst. constructor.
      * rewrite in_app_iff. intros [?|?]; auto. eapply Hd; eauto.
      * apply IH. repeat split; auto.
Qed.

(* ---------- flat_map ---------- *)

Lemma flat_map_ext_in' {A B} (f g : A -> list B) l :
  (forall x, In x l -> f x = g x) -> flat_map f l = flat_map g l.
Proof.
  induction l; simpl; intros H; auto. rewrite H by auto. rewrite IHl; auto.
Qed.

Lemma flat_map_upd_perm {A B} (f : A -> list B) l c x x' :
  nth_error l c = Some x ->
  Permutation (f x ++ flat_map f (upd l c x')) (f x' ++ flat_map f l).
Proof.
  revert c; induction l as [|h l IH]; intros [|c]; simpl; intros H; try discriminate.
  - injection H as ->. apply Permutation_app_swap_app.
  - specialize (IH _ H).
    rewrite Permutation_app_swap_app. rewrite IH.
    apply Permutation_app_swap_app.
Qed.

(* ---------- results ---------- *)

Definition fr_of (r : result) : option nat :=
  match r with ROk f | RRerr f | RInvalid f => Some f | RConnErr => None end.

Definition rfr (q : creq) : option nat :=
  match cr_result q with Some res => fr_of res | None => None end.

Lemma fr_of_result_of k f : fr_of (result_of k f) = Some f.
Proof. destruct k; reflexivity. Qed.

(* ---------- step inversion ---------- *)

Ltac name_of e k :=
  lazymatch e with
  | getc _ _ => k ident:(Hg)
  | c_pc _ => k ident:(Hpc)
  | c_req _ => k ident:(Hrq)
  | nth_error _ _ => k ident:(Hq)
  | err _ => k ident:(He)
  | done_closed _ => k ident:(Hdc)
  | reader _ => k ident:(Hrd)
  | cache _ => k ident:(Hca)
  | pool _ => k ident:(Hpo)
  | find_tag _ _ _ => k ident:(Hft)
  | existsb _ _ => k ident:(Hex)
  | cr_shared _ => k ident:(Hsh)
  | N.ltb _ _ => k ident:(Hcap)
  | _ => k ident:(Hd)
  end.

Ltac inv_step H :=
  unfold cstep in H; cbv zeta in H;
  repeat match type of H with
  | match ?e with _ => _ end = Some _ =>
    name_of e ltac:(fun n => let Hn := fresh n in destruct e eqn:Hn); try discriminate H
  end;
  injection H; clear H; intros <-.

Lemma getc_setc s c x : c < length (callers s) -> getc (setc s c x) c = Some x.
Proof. intros. unfold getc, setc; simpl. apply nth_upd_eq; auto. Qed.
