(* The client's side of the version negotiation (clnt_clnt.go Connect) and of the size limits that
   follow from it (clnt_open.go: Iounit; clnt_read.go / clnt_write.go: the clamps), and the
   agreement of the two sides: composed with the server's Tversion handler of Srv/Seq.v, client and
   server end up with the same msize and the same dialect, and no frame the client sends
   afterwards through Read / Write exceeds that msize (proofs: Clnt/VersionProofs.v).  Definitions only. *)
From Coq Require Import NArith List Bool.
From V9 Require Import Lib.GoSem Lib.Bytes Gen.Consts Codec.Msg Srv.Seq Clnt.IO.
Import ListNotations.
Local Open Scope N_scope.

(* Connect: NewClnt(c, msize, dotu); Tversion(msize, "9P2000.u" if dotu else "9P2000") *)
Definition clnt_version_request (cm : N) (wantu : bool) : msg :=
  Tversion_ cm (if wantu then ver_u else ver_p).

(* ... if rc.Msize < clnt.Msize { clnt.Msize = rc.Msize }; clnt.Dotu = rc.Version == "9P2000.u" && clnt.Dotu *)
Definition clnt_connect (cm : N) (wantu : bool) (rmsize : N) (rver : bytes) : N * bool :=
  (if rmsize <? cm then rmsize else cm, bytes_eqb rver ver_u && wantu).

(* the frames Clnt.Write / Clnt.Read put on the wire for a caller's buffer of [n] bytes *)
Definition twrite_frame_len (iounit n : N) : N := 23 + (if iounit <? n then iounit else n).
Definition tread_count (iounit n : N) : N := if iounit <? n then iounit else n.
Definition rread_frame_len (count : N) : N := 11 + count.

