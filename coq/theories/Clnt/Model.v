(* Model of the client core (clnt_clnt.go, clnt_pool.go): Rpc / Rpcnb / ReqAlloc /
   ReqFree, the tag pool and the Req cache, the list of pending requests, the send
   goroutine, the receive goroutine with its matching of replies to requests, and
   the shutdown path taken when the connection fails.  Labelled transition system;
   the peer (which frames arrive, in which order) and the failure point are labels.
   Model definitions only. *)
From Coq Require Import NArith List Bool PeanoNat.
From V9 Require Import Lib.GoSem Gen.Consts.
Import ListNotations.

(* how a reply frame relates to the request it is matched with *)
Inductive rkind := KMatch | KRerror | KOther.     (* matching R-type, Rerror, any other type *)

Inductive result :=
| ROk (frame : nat)        (* the reply frame (id in arrival order) is returned *)
| RRerr (frame : nat)      (* Rerror: returned as an error carrying the server's text and number *)
| RInvalid (frame : nat)   (* reply of the wrong type: "invalid response" *)
| RConnErr.                (* the connection failed *)

Inductive cpc :=
| CAlloc                   (* ReqAlloc *)
| CLock                    (* Rpcnb: critical section (check err, link) *)
| CHandoff                 (* clnt.reqout <- r   /  <-clnt.done *)
| CWait                    (* <-r.Done *)
| CFree                    (* ReqFree *)
| CDone.

Record creq := mkCreq {
  cr_tag : N;              (* tag held by the Req object (from the pool) or the shared Tag's tag *)
  cr_wire : N;             (* tag on the wire: NOTAG for Tversion, else cr_tag *)
  cr_shared : bool;        (* issued through the Tag interface: the tag is not recycled per request *)
  cr_linked : bool;
  cr_sent : bool;
  cr_result : option result;  (* set by recv before it signals Done *)
  cr_signalled : bool;     (* recv has completed r.Done <- r *)
  cr_ftag : option N }.    (* ghost: the tag carried by the reply frame matched with this request *)

Record caller := mkCaller { c_pc : cpc; c_req : option nat; c_res : option result; c_version : bool }.

Inductive rdr :=
| RdRun                    (* reading frames *)
| RdDeliver (r : nat)      (* blocked in r.Done <- r for a matched reply *)
| RdClose0                 (* failure noticed (clnt.err set): about to close(clnt.done) *)
| RdClose1                 (* done closed: about to detach the list *)
| RdClose2 (todo : list nat)  (* reporting the error to every pending request, in list order *)
| RdEnd.

Record cst := mkCst {
  pool : list N;           (* tagpool: FIFO channel of free tags *)
  cache : list N;          (* clnt.reqchan: cached Req objects, each keeping its tag (capacity c_cap_clnt_reqchan) *)
  creqs : list creq;       (* all requests, by id *)
  lst : list nat;          (* reqfirst .. reqlast *)
  err : bool;              (* clnt.err != nil *)
  done_closed : bool;
  sent : list nat;         (* requests written to the transport, in order *)
  frames : nat;            (* number of reply frames received so far *)
  reader : rdr;
  callers : list caller }.

Fixpoint seqN (start : N) (k : nat) : list N :=
  match k with O => [] | S k' => start :: seqN (N.succ start) k' end.

(* NewPool(0, NOTAG): ids 0 .. 65534 *)
(* a client whose pool holds the ids 0 .. k-1 *)
Definition cinit_n (k : nat) : cst :=
  mkCst (seqN 0 k) [] [] [] false false [] 0 RdRun [].

Definition cinit : cst := cinit_n (N.to_nat c_NOTAG).

Inductive clabel :=
| LNewCall (version : bool) (shared : option N)   (* a goroutine enters Rpc (or Tag.x with the shared tag) *)
| LAlloc (c : nat)
| LLock (c : nat)
| LHandoff (c : nat)
| LRecvFrame (tag : N) (k : rkind)        (* recv: a complete frame with this tag was read and unpacked *)
| LDeliver                                 (* recv: r.Done <- r completes (caller is waiting) *)
| LFail                                    (* recv: Read error / Unpack error / oversize frame; or Unmount *)
| LClose                                   (* recv: next step of the shutdown path *)
| LTake (c : nat)                          (* caller: <-r.Done returns *)
| LFree (c : nat).

Definition getc (s : cst) (c : nat) : option caller := nth_error (callers s) c.
Definition setc (s : cst) (c : nat) (x : caller) : cst :=
  mkCst (pool s) (cache s) (creqs s) (lst s) (err s) (done_closed s) (sent s) (frames s) (reader s) (upd (callers s) c x).
Definition setr (s : cst) (r : nat) (x : creq) : cst :=
  mkCst (pool s) (cache s) (upd (creqs s) r x) (lst s) (err s) (done_closed s) (sent s) (frames s) (reader s) (callers s).
Definition set_reader (s : cst) (x : rdr) : cst :=
  mkCst (pool s) (cache s) (creqs s) (lst s) (err s) (done_closed s) (sent s) (frames s) x (callers s).

(* first request in the pending list whose wire tag is [tag] *)
Fixpoint find_tag (rs : list creq) (l : list nat) (tag : N) : option nat :=
  match l with
  | [] => None
  | r :: t => match nth_error rs r with
              | Some q => if N.eqb (cr_wire q) tag then Some r else find_tag rs t tag
              | None => find_tag rs t tag end
  end.

Fixpoint remove_first (l : list nat) (x : nat) : list nat :=
  match l with [] => [] | y :: t => if y =? x then t else y :: remove_first t x end.

Definition result_of (k : rkind) (frame : nat) : result :=
  match k with KMatch => ROk frame | KRerror => RRerr frame | KOther => RInvalid frame end.

Definition cstep (s : cst) (l : clabel) : option cst :=
  match l with
  | LNewCall version shared =>
    match shared with
    | Some t =>
      (* Tag interface: reqAlloc() builds a Req carrying the Tag's tag; no pool traffic per request *)
      let r := length (creqs s) in
      let q := mkCreq t t true false false None false None in
      Some (mkCst (pool s) (cache s) (creqs s ++ [q]) (lst s) (err s) (done_closed s) (sent s) (frames s)
                  (reader s) (callers s ++ [mkCaller CLock (Some r) None false]))
    | None =>
      Some (mkCst (pool s) (cache s) (creqs s) (lst s) (err s) (done_closed s) (sent s) (frames s)
                  (reader s) (callers s ++ [mkCaller CAlloc None None version]))
    end
  | LAlloc c =>
    match getc s c with
    | Some x =>
      match c_pc x with
      | CAlloc =>
        let version := c_version x in
        let r := length (creqs s) in
        match cache s with
        | t :: rest =>     (* case req = <-clnt.reqchan *)
          let q := mkCreq t (if version then c_NOTAG else t) false false false None false None in
          Some (mkCst (pool s) rest (creqs s ++ [q]) (lst s) (err s) (done_closed s) (sent s) (frames s)
                      (reader s) (upd (callers s) c (mkCaller CLock (Some r) None (c_version x))))
        | [] =>
          match pool s with
          | t :: rest =>   (* default: new(Req); req.tag = uint16(clnt.tagpool.Get()) *)
            let q := mkCreq t (if version then c_NOTAG else t) false false false None false None in
            Some (mkCst rest (cache s) (creqs s ++ [q]) (lst s) (err s) (done_closed s) (sent s) (frames s)
                        (reader s) (upd (callers s) c (mkCaller CLock (Some r) None (c_version x))))
          | [] => None     (* Get blocks until a tag is returned *)
          end
        end
      | _ => None end
    | None => None end
  | LLock c =>
    match getc s c with
    | Some x =>
      match c_pc x, c_req x with
      | CLock, Some r =>
        match nth_error (creqs s) r with
        | Some q =>
          if err s then
            (* return clnt.err: Rpc releases the Req (ReqFree) and returns the error *)
            Some (setc s c (mkCaller CFree (Some r) (Some RConnErr) (c_version x)))
          else
            let s1 := setr s r (mkCreq (cr_tag q) (cr_wire q) (cr_shared q) true false None false None) in
            Some (mkCst (pool s1) (cache s1) (creqs s1) (lst s1 ++ [r]) (err s1) (done_closed s1) (sent s1)
                        (frames s1) (reader s1) (upd (callers s1) c (mkCaller CHandoff (Some r) None (c_version x))))
        | None => None end
      | _, _ => None end
    | None => None end
  | LHandoff c =>
    match getc s c with
    | Some x =>
      match c_pc x, c_req x with
      | CHandoff, Some r =>
        match nth_error (creqs s) r with
        | Some q =>
          if done_closed s then
            (* case <-clnt.done: give up the hand-over; the error arrives on r.Done *)
            Some (setc s c (mkCaller CWait (Some r) None (c_version x)))
          else
            (* case clnt.reqout <- r: the send goroutine takes it and writes it *)
            let s1 := setr s r (mkCreq (cr_tag q) (cr_wire q) (cr_shared q) (cr_linked q) true (cr_result q) (cr_signalled q) (cr_ftag q)) in
            Some (mkCst (pool s1) (cache s1) (creqs s1) (lst s1) (err s1) (done_closed s1) (sent s1 ++ [r])
                        (frames s1) (reader s1) (upd (callers s1) c (mkCaller CWait (Some r) None (c_version x))))
        | None => None end
      | _, _ => None end
    | None => None end
  | LRecvFrame tag k =>
    match reader s with
    | RdRun =>
      let fid := frames s in
      match find_tag (creqs s) (lst s) tag with
      | None =>      (* "unexpected response": clnt.err set, connection closed, goto closed *)
        Some (mkCst (pool s) (cache s) (creqs s) (lst s) true (done_closed s) (sent s) (S fid) RdClose0 (callers s))
      | Some r =>
        match nth_error (creqs s) r with
        | Some q =>
          let s1 := setr s r (mkCreq (cr_tag q) (cr_wire q) (cr_shared q) (cr_linked q) (cr_sent q) (Some (result_of k fid)) false (Some tag)) in
          Some (mkCst (pool s1) (cache s1) (creqs s1) (remove_first (lst s1) r) (err s1) (done_closed s1) (sent s1)
                      (S fid) (RdDeliver r) (callers s1))
        | None => None end
      end
    | _ => None end
  | LDeliver =>
    (* r.Done <- r : needs the caller to be at <-r.Done *)
    let deliver (r : nat) (next : rdr) : option cst :=
      match nth_error (creqs s) r with
      | Some q =>
        if existsb (fun x => match c_pc x, c_req x with CWait, Some r' => r' =? r | _, _ => false end) (callers s)
        then Some (set_reader (setr s r (mkCreq (cr_tag q) (cr_wire q) (cr_shared q) (cr_linked q) (cr_sent q) (cr_result q) true (cr_ftag q))) next)
        else None
      | None => None end in
    match reader s with
    | RdDeliver r => deliver r RdRun
    | RdClose2 (r :: rest) =>
      match nth_error (creqs s) r with
      | Some q =>
        (* r.Err = err *)
        let s1 := setr s r (mkCreq (cr_tag q) (cr_wire q) (cr_shared q) (cr_linked q) (cr_sent q) (Some RConnErr) false (cr_ftag q)) in
        match nth_error (creqs s1) r with
        | Some q1 =>
          if existsb (fun x => match c_pc x, c_req x with CWait, Some r' => r' =? r | _, _ => false end) (callers s1)
          then Some (set_reader (setr s1 r (mkCreq (cr_tag q1) (cr_wire q1) (cr_shared q1) (cr_linked q1) (cr_sent q1) (cr_result q1) true (cr_ftag q1))) (RdClose2 rest))
          else None
        | None => None end
      | None => None end
    | _ => None end
  | LFail =>
    match reader s with
    | RdRun => Some (mkCst (pool s) (cache s) (creqs s) (lst s) true (done_closed s) (sent s) (frames s) RdClose0 (callers s))
    | _ => None end
  | LClose =>
    match reader s with
    | RdClose0 => Some (mkCst (pool s) (cache s) (creqs s) (lst s) (err s) true (sent s) (frames s) RdClose1 (callers s))
    | RdClose1 => Some (mkCst (pool s) (cache s) (creqs s) [] (err s) (done_closed s) (sent s) (frames s) (RdClose2 (lst s)) (callers s))
    | RdClose2 [] => Some (set_reader s RdEnd)
    | _ => None end
  | LTake c =>
    match getc s c with
    | Some x =>
      match c_pc x, c_req x with
      | CWait, Some r =>
        match nth_error (creqs s) r with
        | Some q => if cr_signalled q then Some (setc s c (mkCaller CFree (Some r) (cr_result q) (c_version x))) else None
        | None => None end
      | _, _ => None end
    | None => None end
  | LFree c =>
    match getc s c with
    | Some x =>
      match c_pc x, c_req x with
      | CFree, Some r =>
        match nth_error (creqs s) r with
        | Some q =>
          if cr_shared q then Some (setc s c (mkCaller CDone (Some r) (c_res x) (c_version x)))
          else if N.ltb (N.of_nat (length (cache s))) c_cap_clnt_reqchan then
            (* case clnt.reqchan <- req *)
            Some (mkCst (pool s) (cache s ++ [cr_tag q]) (creqs s) (lst s) (err s) (done_closed s) (sent s) (frames s)
                        (reader s) (upd (callers s) c (mkCaller CDone (Some r) (c_res x) (c_version x))))
          else
            (* default: clnt.tagpool.Put(uint32(req.tag)) *)
            Some (mkCst (pool s ++ [cr_tag q]) (cache s) (creqs s) (lst s) (err s) (done_closed s) (sent s) (frames s)
                        (reader s) (upd (callers s) c (mkCaller CDone (Some r) (c_res x) (c_version x))))
        | None => None end
      | _, _ => None end
    | None => None end
  end.

Fixpoint crun (s : cst) (ls : list clabel) : option cst :=
  match ls with [] => Some s | l :: t => match cstep s l with Some s' => crun s' t | None => None end end.

Inductive creach (k : nat) : cst -> Prop :=
| creach_init : creach k (cinit_n k)
| creach_step s l s' : creach k s -> cstep s l = Some s' -> creach k s'.

(* tags held by requests that are allocated and not yet freed (pool-allocated only) *)
Definition live_tags (s : cst) : list N :=
  flat_map (fun x => match c_pc x, c_req x with
                     | (CLock | CHandoff | CWait | CFree), Some r =>
                       match nth_error (creqs s) r with
                       | Some q => if cr_shared q then [] else [cr_tag q]
                       | None => [] end
                     | _, _ => [] end) (callers s).

(* labels the client can take by itself (no peer frame, no new failure, no new call) *)
Definition c_internal (l : clabel) : bool :=
  match l with
  | LAlloc _ | LLock _ | LHandoff _ | LDeliver | LClose | LTake _ | LFree _ => true
  | _ => false
  end.
