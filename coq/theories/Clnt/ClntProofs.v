(* Proofs about the client model (Clnt/Model.v). [k] is the size of the tag pool
   (65535 in the real client: cinit = cinit_n (N.to_nat c_NOTAG)). *)
From Coq Require Import NArith List Bool PeanoNat Lia Permutation.
From V9 Require Import Lib.GoSem Gen.Consts Clnt.Model Clnt.ClntBase Clnt.ClntInv.
Import ListNotations.

Definition is_frame_result (r : result) (f : nat) : Prop :=
  r = ROk f \/ r = RRerr f \/ r = RInvalid f.

Lemma is_frame_fr r f : is_frame_result r f <-> fr_of r = Some f.
Proof.
  unfold is_frame_result. split.
  - intros [-> | [-> | ->]]; reflexivity.
  - destruct r; simpl; intros H; inversion H; subst; auto.
Qed.

Lemma tags_live s : tags s = live_tags s ++ cache s ++ pool s.
Proof. reflexivity. Qed.

(* ========== C09 ========== *)

(* tags of requests between ReqAlloc and ReqFree, cached Req objects and the pool
   never share a tag: the tags outstanding at any instant are pairwise distinct *)
Theorem tags_distinct : forall k s,
  creach k s -> NoDup (live_tags s ++ cache s ++ pool s).
Proof.
  intros k s H. apply cinv_reach in H. rewrite <- tags_live.
  eapply Permutation_NoDup; [symmetry; apply (ci_t _ _ H)|apply seqN_nodup].
Qed.

(* ... and none is ever lost: tags and request slots are recycled *)
Theorem tag_conservation : forall k s,
  creach k s -> length (live_tags s) + length (cache s) + length (pool s) = k.
Proof.
  intros k s H. apply cinv_reach in H.
  pose proof (Permutation_length (ci_t _ _ H)) as L.
  rewrite tags_live, seqN_length, !app_length in L. lia.
Qed.

(* hence a call can always get a tag while fewer than k calls are outstanding:
   an unbounded number of calls can be made over one connection *)
Theorem alloc_enabled : forall k s c x,
  creach k s -> getc s c = Some x -> c_pc x = CAlloc ->
  length (live_tags s) < k -> cstep s (LAlloc c) <> None.
Proof.
  intros k s c x H Hg Hpc Hlt. pose proof (tag_conservation _ _ H) as L.
  cbv beta iota zeta delta [cstep]. rewrite Hg, Hpc.
  destruct (cache s); [|discriminate]. destruct (pool s); [|discriminate].
  simpl in L. lia.
Qed.

(* the reply a call returns is the frame that was matched with ITS request, that
   frame carried the request's wire tag, and it was received after the request was linked *)
Theorem own_reply : forall k s c x res f,
  creach k s -> getc s c = Some x -> c_res x = Some res -> is_frame_result res f ->
  exists r q, c_req x = Some r /\ nth_error (creqs s) r = Some q /\
              cr_result q = Some res /\ cr_ftag q = Some (cr_wire q) /\ cr_linked q = true /\ f < frames s.
Proof.
  intros k s c x res f H Hg Hres Hf. apply cinv_reach in H. apply is_frame_fr in Hf.
  pose proof (o_call _ _ _ _ (ci_o _ _ H) _ _ Hg) as Hc. unfold caller_ok in Hc.
  assert (Hfree : forall r q, c_req x = Some r -> nth_error (creqs s) r = Some q ->
            (c_res x = Some RConnErr \/ c_res x = cr_result q) ->
            exists r q, c_req x = Some r /\ nth_error (creqs s) r = Some q /\
              cr_result q = Some res /\ cr_ftag q = Some (cr_wire q) /\ cr_linked q = true /\ f < frames s).
  { intros r q Hr Hq [Hc'|Hc'].
    - rewrite Hc' in Hres. injection Hres as <-. discriminate.
    - exists r, q. split; auto. split; auto. split; [congruence|].
      destruct (r_ok _ _ _ _ (ci_r _ _ H) _ _ Hq) as (_ & _ & _ & D).
      destruct (D f) as (? & ? & ?); auto.
      unfold rfr. rewrite <- Hc', Hres. auto. }
  destruct (c_pc x).
  - destruct Hc; congruence.
  - destruct Hc as (r & q & _ & _ & _ & _ & ?); congruence.
  - destruct Hc as (r & q & _ & _ & _ & ?); congruence.
  - destruct Hc as (r & q & _ & _ & ? & _); congruence.
  - destruct Hc as (r & q & Hr & Hq & _ & Hc). eauto.
  - destruct Hc as (r & q & Hr & Hq & _ & Hc). eauto.
Qed.

(* a reply frame is given to at most one request *)
Theorem frame_to_one_request : forall k s r1 r2 q1 q2 res1 res2 f,
  creach k s -> nth_error (creqs s) r1 = Some q1 -> nth_error (creqs s) r2 = Some q2 ->
  cr_result q1 = Some res1 -> cr_result q2 = Some res2 ->
  is_frame_result res1 f -> is_frame_result res2 f -> r1 = r2.
Proof.
  intros k s r1 r2 q1 q2 res1 res2 f H H1 H2 R1 R2 F1 F2. apply cinv_reach in H.
  apply is_frame_fr in F1. apply is_frame_fr in F2.
  eapply (r_uf _ _ _ _ (ci_r _ _ H)); eauto; unfold rfr.
  - rewrite R1; eauto.
  - rewrite R2; eauto.
Qed.

(* Rerror -> error with the server's text/number; wrong type -> "invalid response"; matching type -> success *)
Theorem error_mapping : forall s tag kd s' r,
  cstep s (LRecvFrame tag kd) = Some s' -> reader s' = RdDeliver r ->
  exists q, nth_error (creqs s') r = Some q /\
            cr_result q = Some (match kd with KMatch => ROk (frames s) | KRerror => RRerr (frames s) | KOther => RInvalid (frames s) end).
Proof.
  intros s tag kd s' r H Hrd. inv_step H; simpl in Hrd; try discriminate.
  injection Hrd as <-. unfold setr; simpl.
  eexists. split; [apply nth_upd_eq; eapply nth_lt; eauto|].
  simpl. destruct kd; reflexivity.
Qed.

(* requests sharing a tag are completed in the order issued: a frame goes to the
   earliest-linked pending request with that wire tag *)
Theorem shared_tag_fifo : forall s tag kd s' r,
  cstep s (LRecvFrame tag kd) = Some s' -> reader s' = RdDeliver r ->
  exists pre post q, lst s = pre ++ r :: post /\ nth_error (creqs s) r = Some q /\ cr_wire q = tag /\
    forall r' q', In r' pre -> nth_error (creqs s) r' = Some q' -> cr_wire q' <> tag.
Proof.
  intros s tag kd s' r H Hrd. inv_step H; simpl in Hrd; try discriminate.
  injection Hrd as <-. apply find_tag_spec in Hft. exact Hft.
Qed.

(* ========== C10 ========== *)

(* after a failure later calls are refused without touching the transport *)
Theorem later_calls_refused : forall s c s',
  err s = true -> cstep s (LLock c) = Some s' ->
  sent s' = sent s /\ lst s' = lst s /\
  exists x, getc s' c = Some x /\ c_res x = Some RConnErr.
Proof.
  intros s c s' Herr H. inv_step H; try congruence.
  unfold setc; simpl. split; auto. split; auto.
  eexists. split; [apply getc_setc; eapply nth_lt; eauto|]. reflexivity.
Qed.

(* no call returns success unless a complete reply frame with its tag was received *)
Theorem success_needs_whole_reply : forall k s c x f,
  creach k s -> getc s c = Some x -> c_res x = Some (ROk f) -> f < frames s.
Proof.
  intros k s c x f H Hg Hres.
  destruct (own_reply k s c x (ROk f) f H Hg Hres) as (r & q & _ & _ & _ & _ & _ & Hf).
  - left; reflexivity.
  - exact Hf.
Qed.

(* a reply completely received before the failure is delivered to its caller: the
   result recorded by the match is never replaced by the connection error *)
Theorem matched_result_stable : forall k s l s' r q res,
  creach k s -> cstep s l = Some s' -> nth_error (creqs s) r = Some q ->
  cr_result q = Some res -> res <> RConnErr ->
  exists q', nth_error (creqs s') r = Some q' /\ cr_result q' = Some res.
Proof.
  intros k s l s' r q res H Hst Hq Hres Hne. apply cinv_reach in H.
  destruct H as [HE HR HO _].
  destruct l; inv_step Hst.
  all: unfold setc, setr, set_reader; simpl.
  all: try (exists q; split; [exact Hq|exact Hres]).
  all: try (exists q; split; [rewrite nth_error_app1; [exact Hq|eapply nth_lt; eauto]|exact Hres]).
  - (* LLock, linked: the request of a caller at CLock has no result yet *)
    destruct (Nat.eq_dec r n) as [->|Hn]; [|exists q; rewrite nth_upd_neq by auto; auto].
    exfalso. pose proof (o_call _ _ _ _ HO _ _ Hg) as Hc. unfold caller_ok in Hc. rewrite Hpc in Hc.
    destruct Hc as (r' & q' & Hr' & Hq' & _ & Hnone & _). congruence.
  - (* LHandoff, sent *)
    destruct (Nat.eq_dec r n) as [->|Hn]; [|exists q; rewrite nth_upd_neq by auto; auto].
    eexists. split; [apply nth_upd_eq; eapply nth_lt; eauto|]. simpl. congruence.
  - (* LRecvFrame, matched: a pending request has no result yet *)
    destruct (Nat.eq_dec r n) as [->|Hn]; [|exists q; rewrite nth_upd_neq by auto; auto].
    exfalso. destruct (r_ok _ _ _ _ HR _ _ Hq) as (_ & B & _).
    rewrite B in Hres; try discriminate.
    apply in_pendf. left. eapply find_tag_in; eauto.
  - (* LDeliver, matched reply *)
    destruct (Nat.eq_dec r r0) as [->|Hn]; [|exists q; rewrite nth_upd_neq by auto; auto].
    eexists. split; [apply nth_upd_eq; eapply nth_lt; eauto|]. simpl. congruence.
  - (* LDeliver, connection error: only for requests without a result *)
    rewrite upd_upd.
    destruct (Nat.eq_dec r n) as [->|Hn]; [|exists q; rewrite nth_upd_neq by auto; auto].
    exfalso. destruct (r_ok _ _ _ _ HR _ _ Hq) as (_ & B & _).
    rewrite B in Hres; try discriminate.
    apply in_pendf. right. simpl. auto.
Qed.

(* enabledness of the callers' and the reader's own steps *)
Ltac red_step :=
  cbv beta iota zeta delta [cstep];
  repeat (match goal with
          | H : ?e = _ |- context [match ?e with _ => _ end] => rewrite H
          end; cbv beta iota).

Lemma enabled_lock s c x r q :
  getc s c = Some x -> c_pc x = CLock -> c_req x = Some r -> nth_error (creqs s) r = Some q ->
  cstep s (LLock c) <> None.
Proof. intros Hg Hpc Hr Hq. red_step. destruct (err s); discriminate. Qed.

Lemma enabled_handoff s c x r q :
  getc s c = Some x -> c_pc x = CHandoff -> c_req x = Some r -> nth_error (creqs s) r = Some q ->
  cstep s (LHandoff c) <> None.
Proof. intros Hg Hpc Hr Hq. red_step. destruct (done_closed s); discriminate. Qed.

Lemma enabled_free s c x r q :
  getc s c = Some x -> c_pc x = CFree -> c_req x = Some r -> nth_error (creqs s) r = Some q ->
  cstep s (LFree c) <> None.
Proof.
  intros Hg Hpc Hr Hq. red_step. destruct (cr_shared q); [discriminate|].
  destruct (N.ltb _ _); discriminate.
Qed.

Lemma enabled_take s c x r q :
  getc s c = Some x -> c_pc x = CWait -> c_req x = Some r -> nth_error (creqs s) r = Some q ->
  cr_signalled q = true -> cstep s (LTake c) <> None.
Proof. intros Hg Hpc Hr Hq Hs. red_step. discriminate. Qed.

Lemma enabled_alloc s c x :
  getc s c = Some x -> c_pc x = CAlloc -> cache s ++ pool s <> [] ->
  cstep s (LAlloc c) <> None.
Proof.
  intros Hg Hpc Hne. red_step. destruct (cache s); [|discriminate].
  destruct (pool s); [|discriminate]. simpl in Hne; congruence.
Qed.

Lemma enabled_deliver_close s r rest q c x :
  reader s = RdClose2 (r :: rest) -> nth_error (creqs s) r = Some q ->
  getc s c = Some x -> c_pc x = CWait -> c_req x = Some r ->
  cstep s LDeliver <> None.
Proof.
  intros Hrd Hq Hg Hpc Hr. cbv beta iota zeta delta [cstep]. rewrite Hrd. cbv beta iota. rewrite Hq.
  unfold setr; simpl. rewrite nth_upd_eq by (eapply nth_lt; eauto).
  rewrite (waiter_complete _ _ _ _ Hg Hpc Hr). discriminate.
Qed.

Lemma enabled_close s :
  (reader s = RdClose0 \/ reader s = RdClose1 \/ reader s = RdClose2 []) -> cstep s LClose <> None.
Proof.
  intros H. cbv beta iota zeta delta [cstep]. destruct H as [-> | [-> | ->]]; discriminate.
Qed.

Lemma flat_map_nonempty {A B} (f : A -> list B) l :
  flat_map f l <> [] -> exists y, In y l /\ f y <> [].
Proof.
  induction l as [|h l IH]; simpl; intros H. congruence.
  destruct (f h) eqn:Hf.
  - destruct (IH H) as (y & ? & ?). exists y. auto.
  - exists h. split; auto. congruence.
Qed.

(* a caller holding a request can move once the receive goroutine has finished *)
Lemma busy_progress s c x :
  EInv s -> OInv s -> reader s = RdEnd -> getc s c = Some x ->
  (c_pc x = CLock \/ c_pc x = CHandoff \/ c_pc x = CWait \/ c_pc x = CFree) ->
  exists l, c_internal l = true /\ cstep s l <> None.
Proof.
  intros HE HO Hrd Hg Hpc.
  pose proof (o_call _ _ _ _ HO _ _ Hg) as Hc. unfold caller_ok in Hc.
  pose proof (e_lst _ HE) as Hl. rewrite Hrd in Hl, Hc. unfold pendf in Hc. rewrite Hl in Hc. simpl in Hc.
  destruct Hpc as [Hpc|[Hpc|[Hpc|Hpc]]]; rewrite Hpc in Hc; destruct Hc as (r & q & Hr & Hq & Hc).
  - exists (LLock c). split; auto. eapply enabled_lock; eauto.
  - exists (LHandoff c). split; auto. eapply enabled_handoff; eauto.
  - exists (LTake c). split; auto. destruct Hc as (_ & [[]|[Hs _]]). eapply enabled_take; eauto.
  - exists (LFree c). split; auto. eapply enabled_free; eauto.
Qed.

(* once the connection has failed, as long as some call has not returned (or the
   receive goroutine has not finished) the client can take a step by itself:
   nobody waits for a goroutine that is gone *)
Theorem shutdown_progress : forall k s,
  1 <= k -> creach k s -> err s = true ->
  ((exists c x, getc s c = Some x /\ c_pc x <> CDone) \/ reader s <> RdEnd) ->
  exists l, c_internal l = true /\ cstep s l <> None.
Proof.
  intros k s Hk H Herr Hnd. apply cinv_reach in H. destruct H as [HE HR HO HT].
  pose proof (e_err _ HE) as E1. rewrite Herr in E1.
  destruct (reader s) eqn:Hrd; simpl in E1; try discriminate E1.
  - exists LClose. split; auto. apply enabled_close; auto.
  - exists LClose. split; auto. apply enabled_close; auto.
  - destruct todo as [|r rest].
    + exists LClose. split; auto. apply enabled_close; auto.
    + assert (Hin : In r (pendf (lst s) (RdClose2 (r :: rest)))) by (apply in_pendf; right; simpl; auto).
      pose proof (r_bnd _ _ _ _ HR _ Hin) as Hlt.
      destruct (o_own _ _ _ _ HO _ Hlt) as (c & x & Hg & Hr).
      pose proof (o_call _ _ _ _ HO _ _ Hg) as Hc. unfold caller_ok in Hc.
      destruct (c_pc x) eqn:Hpc.
      * destruct Hc; congruence.
      * destruct Hc as (r' & q & Hr' & Hq & Hn & _). assert (r' = r) by congruence. subst. contradiction.
      * destruct Hc as (r' & q & Hr' & Hq & _). exists (LHandoff c). split; auto.
        eapply enabled_handoff; eauto.
      * destruct Hc as (r' & q & Hr' & Hq & _). assert (r' = r) by congruence. subst r'.
        exists LDeliver. split; auto. eapply enabled_deliver_close; eauto.
      * destruct Hc as (r' & q & Hr' & Hq & Hn & _). assert (r' = r) by congruence. subst. contradiction.
      * destruct Hc as (r' & q & Hr' & Hq & Hn & _). assert (r' = r) by congruence. subst. contradiction.
  - destruct Hnd as [(c & x & Hg & Hpc)|Hne]; [|congruence].
    assert (Hrd' : reader s = RdEnd) by exact Hrd. rewrite <- Hrd in HO.
    destruct (c_pc x) eqn:Hpcx; try congruence.
    2-5: eapply busy_progress; eauto; tauto.
    destruct (cache s ++ pool s) as [|t rest] eqn:Hcp.
    + (* no free tag: some other caller holds one *)
      pose proof (Permutation_length HT) as L. rewrite seqN_length in L.
      unfold tagsF in L. rewrite app_length, <- app_length, Hcp in L. simpl in L.
      destruct (flat_map_nonempty (ltag (creqs s)) (callers s)) as (y & Hy & Hty).
      { intros Hnil. rewrite Hnil in L. simpl in L. lia. }
      apply In_nth_error in Hy. destruct Hy as (c' & Hc').
      apply (busy_progress s c' y HE HO Hrd' Hc').
      unfold ltag in Hty. destruct (c_pc y); auto; congruence.
    + exists (LAlloc c). split; auto. eapply enabled_alloc; eauto. rewrite Hcp. discriminate.
Qed.

(* ... and it cannot go on for ever: the number of steps the client can take by
   itself after a failure is bounded *)
Definition steps_left (s : cst) : nat :=
  fold_right (fun x acc => acc + match c_pc x with CAlloc => 5 | CLock => 4 | CHandoff => 3 | CWait => 2 | CFree => 1 | CDone => 0 end) 0 (callers s)
  + match reader s with RdRun => 0 | RdDeliver _ => 1 | RdClose0 => 3 + length (lst s) | RdClose1 => 2 + length (lst s)
                        | RdClose2 todo => 1 + length todo | RdEnd => 0 end.

Definition cw (x : caller) : nat :=
  match c_pc x with CAlloc => 5 | CLock => 4 | CHandoff => 3 | CWait => 2 | CFree => 1 | CDone => 0 end.
Definition csum (l : list caller) : nat := fold_right (fun x acc => acc + cw x) 0 l.
Definition rdw (ls : list nat) (rd : rdr) : nat :=
  match rd with RdRun => 0 | RdDeliver _ => 1 | RdClose0 => 3 + length ls | RdClose1 => 2 + length ls
           | RdClose2 todo => 1 + length todo | RdEnd => 0 end.

Lemma steps_left_eq s : steps_left s = csum (callers s) + rdw (lst s) (reader s).
Proof. reflexivity. Qed.

Lemma csum_upd l c x x' : nth_error l c = Some x -> csum (upd l c x') + cw x = csum l + cw x'.
Proof.
  revert c; induction l as [|h l IH]; intros [|c]; simpl; intros H; try discriminate.
  - injection H as ->. lia.
  - specialize (IH _ H). lia.
Qed.

Theorem shutdown_terminates : forall k s l s',
  creach k s -> c_internal l = true -> cstep s l = Some s' -> steps_left s' < steps_left s.
Proof.
  intros k s l s' H Hint Hst. apply cinv_reach in H. destruct H as [[E1 E2 E3] _ _ _].
  rewrite !steps_left_eq.
  destruct l; try discriminate Hint; inv_step Hst.
  all: unfold setc, setr, set_reader; simpl.
  all: try (match goal with Hg' : getc ?s0 ?c' = Some ?y, Hpc' : c_pc ?y = _ |- context [upd (callers ?s0) ?c' ?x'] =>
              pose proof (csum_upd (callers s0) c' y x' Hg') as Hs;
              unfold cw in Hs; simpl in Hs; rewrite Hpc' in Hs end).
  all: try lia.
  all: destruct (reader s); simpl in *; try discriminate; try rewrite app_length; simpl; try lia.
Qed.

Lemma err_mono s l s' : cstep s l = Some s' -> err s = true -> err s' = true.
Proof.
  intros H Herr. destruct l; inv_step H; unfold setc, setr, set_reader; simpl; auto; congruence.
Qed.

Lemma callers_done_dec (l : list caller) :
  (forall x, In x l -> c_pc x = CDone) \/ (exists x, In x l /\ c_pc x <> CDone).
Proof.
  induction l as [|h l IH].
  - left. intros ? [].
  - destruct (c_pc h) eqn:Hh.
    6: { destruct IH as [IH|(x & Hx & Hn)].
         - left. intros x [<-|Hx]; auto.
         - right. exists x. simpl; auto. }
    all: right; exists h; split; [simpl; auto|congruence].
Qed.

Lemma all_calls_return_aux n : forall k s,
  steps_left s <= n -> 1 <= k -> creach k s -> err s = true ->
  exists ls s', Forall (fun l => c_internal l = true) ls /\ crun s ls = Some s' /\
                (forall c x, getc s' c = Some x -> c_pc x = CDone) /\ reader s' = RdEnd.
Proof.
  induction n as [|n IH]; intros k s Hn Hk Hreach Herr.
  - destruct (callers_done_dec (callers s)) as [Hd|(x & Hx & Hnd)].
    + destruct (reader s) eqn:Hrd.
      6: { exists [], s. repeat split; auto. intros c x Hg. apply Hd. eapply nth_error_In; eauto. }
      all: destruct (shutdown_progress k s Hk Hreach Herr) as (l & Hl & Hen); [right; congruence|];
        destruct (cstep s l) as [s1|] eqn:Hst; [|congruence];
        pose proof (shutdown_terminates _ _ _ _ Hreach Hl Hst); lia.
    + apply In_nth_error in Hx. destruct Hx as (c & Hc).
      destruct (shutdown_progress k s Hk Hreach Herr) as (l & Hl & Hen); [left; eauto|].
      destruct (cstep s l) as [s1|] eqn:Hst; [|congruence].
      pose proof (shutdown_terminates _ _ _ _ Hreach Hl Hst). lia.
  - assert (Hstep : forall l, c_internal l = true -> cstep s l <> None ->
              exists ls s', Forall (fun l => c_internal l = true) ls /\ crun s ls = Some s' /\
                (forall c x, getc s' c = Some x -> c_pc x = CDone) /\ reader s' = RdEnd).
    { intros l Hl Hen. destruct (cstep s l) as [s1|] eqn:Hst; [|congruence].
      pose proof (shutdown_terminates _ _ _ _ Hreach Hl Hst) as Hlt.
      destruct (IH k s1) as (ls & s' & Hf & Hrun & Hdone & Hend); auto.
      - lia.
      - eapply creach_step; eauto.
      - eapply err_mono; eauto.
      - exists (l :: ls), s'. repeat split; auto. simpl. rewrite Hst. auto. }
    destruct (callers_done_dec (callers s)) as [Hd|(x & Hx & Hnd)].
    + destruct (reader s) eqn:Hrd.
      6: { exists [], s. repeat split; auto. intros c x Hg. apply Hd. eapply nth_error_In; eauto. }
      all: destruct (shutdown_progress k s Hk Hreach Herr) as (l & Hl & Hen); [right; congruence|]; eauto.
    + apply In_nth_error in Hx. destruct Hx as (c & Hc).
      destruct (shutdown_progress k s Hk Hreach Herr) as (l & Hl & Hen); [left; eauto|]. eauto.
Qed.

(* so every outstanding and every later call returns: a maximal run of internal
   steps after a failure ends with all callers done *)
Theorem all_calls_return : forall k s,
  1 <= k -> creach k s -> err s = true ->
  exists ls s', Forall (fun l => c_internal l = true) ls /\ crun s ls = Some s' /\
                (forall c x, getc s' c = Some x -> c_pc x = CDone) /\ reader s' = RdEnd.
Proof.
  intros k s Hk H Herr. eapply all_calls_return_aux; eauto.
Qed.
