(* Invariants of the client model. *)
From Coq Require Import NArith List Bool PeanoNat Lia Permutation.
From V9 Require Import Lib.GoSem Gen.Consts Clnt.Model Clnt.ClntBase.
Import ListNotations.

Definition closing (rd : rdr) : bool :=
  match rd with RdRun | RdDeliver _ => false | _ => true end.
Definition dclosed (rd : rdr) : bool :=
  match rd with RdRun | RdDeliver _ | RdClose0 => false | _ => true end.
Definition rd_list (rd : rdr) : list nat :=
  match rd with RdDeliver r => [r] | RdClose2 t => t | _ => [] end.
Definition pend (s : cst) : list nat := lst s ++ rd_list (reader s).

(* ---------- E: err / done_closed follow the reader ---------- *)

Record EInv (s : cst) : Prop := {
  e_err : err s = closing (reader s);
  e_dc : done_closed s = dclosed (reader s);
  e_lst : match reader s with RdClose2 _ | RdEnd => lst s = [] | _ => True end }.

Lemma einv_init k : EInv (cinit_n k).
Proof. constructor; reflexivity. Qed.

Lemma einv_step s l s' : EInv s -> cstep s l = Some s' -> EInv s'.
Proof.
  intros [E1 E2 E3] H. destruct l; inv_step H.
  all: unfold setc, setr, set_reader; simpl.
  all: try (constructor; simpl; auto; fail).
  all: try rewrite Hrd in *; simpl in *.
  all: try (constructor; simpl; auto; fail).
  all: constructor; simpl; try congruence; destruct (reader s); simpl in *; auto; congruence.
Qed.

(* ---------- R: request-side invariant ---------- *)

Definition pendf (ls : list nat) (rd : rdr) : list nat := ls ++ rd_list rd.

Definition req_ok (ls : list nat) (rd : rdr) (fr : nat) (r : nat) (q : creq) : Prop :=
  (In r (pendf ls rd) -> cr_linked q = true /\ cr_signalled q = false) /\
  (In r (pendf ls rd) -> rd <> RdDeliver r -> cr_result q = None) /\
  (rd = RdDeliver r -> rfr q <> None) /\
  (forall f, rfr q = Some f -> f < fr /\ cr_ftag q = Some (cr_wire q) /\ cr_linked q = true).

Record RInvF (rs : list creq) (ls : list nat) (rd : rdr) (fr : nat) : Prop := {
  r_nd : NoDup (pendf ls rd);
  r_bnd : forall r, In r (pendf ls rd) -> r < length rs;
  r_ok : forall r q, nth_error rs r = Some q -> req_ok ls rd fr r q;
  r_uf : forall r1 r2 q1 q2 f, nth_error rs r1 = Some q1 -> nth_error rs r2 = Some q2 ->
           rfr q1 = Some f -> rfr q2 = Some f -> r1 = r2 }.

Notation RInv s := (RInvF (creqs s) (lst s) (reader s) (frames s)).

(* ---------- O: caller-side invariant and ownership ---------- *)

Definition caller_ok (rs : list creq) (ls : list nat) (rd : rdr) (x : caller) : Prop :=
  match c_pc x with
  | CAlloc => c_req x = None /\ c_res x = None
  | pc => exists r q, c_req x = Some r /\ nth_error rs r = Some q /\
     match pc with
     | CAlloc => True
     | CLock => ~ In r (pendf ls rd) /\ cr_result q = None /\ c_res x = None
     | CHandoff => In r (pendf ls rd) /\ c_res x = None
     | CWait => c_res x = None /\ (In r (pendf ls rd) \/ (cr_signalled q = true /\ cr_result q <> None))
     | CFree | CDone => ~ In r (pendf ls rd) /\ (c_res x = Some RConnErr \/ c_res x = cr_result q)
     end
  end.

Record OInvF (rs : list creq) (ls : list nat) (rd : rdr) (cs : list caller) : Prop := {
  o_call : forall c x, nth_error cs c = Some x -> caller_ok rs ls rd x;
  o_own : forall r, r < length rs -> exists c x, nth_error cs c = Some x /\ c_req x = Some r;
  o_uniq : forall c1 c2 x1 x2 r, nth_error cs c1 = Some x1 -> nth_error cs c2 = Some x2 ->
             c_req x1 = Some r -> c_req x2 = Some r -> c1 = c2 }.

Notation OInv s := (OInvF (creqs s) (lst s) (reader s) (callers s)).

Lemma rinv_init k : RInv (cinit_n k).
Proof.
  simpl. constructor; simpl.
  - constructor.
  - intros ? [].
  - intros [|r] q; discriminate.
  - intros [|r1] ? ? ? ?; discriminate.
Qed.

Lemma oinv_init k : OInv (cinit_n k).
Proof.
  simpl. constructor; simpl.
  - intros [|c] x; discriminate.
  - intros; lia.
  - intros [|c1] ? ? ? ?; discriminate.
Qed.

(* a caller that is past CAlloc has a request *)
Lemma caller_ok_req rs ls rd x :
  caller_ok rs ls rd x -> c_pc x <> CAlloc -> exists r q, c_req x = Some r /\ nth_error rs r = Some q.
Proof.
  unfold caller_ok. destruct (c_pc x); try congruence; intros (r & q & ? & ? & _) _; eauto.
Qed.

Lemma caller_ok_req_lt rs ls rd x r :
  caller_ok rs ls rd x -> c_req x = Some r -> r < length rs.
Proof.
  unfold caller_ok. destruct (c_pc x).
  1: intros [? _]; congruence.
  all: intros (r' & q & ? & ? & _) ?; assert (r' = r) by congruence; subst; eapply nth_lt; eauto.
Qed.

(* ---------- R: preservation lemmas on the fields ---------- *)

Lemma in_pendf r ls rd : In r (pendf ls rd) <-> In r ls \/ In r (rd_list rd).
Proof. unfold pendf. apply in_app_iff. Qed.

Lemma in_pendf_deliver r ls : In r (pendf ls (RdDeliver r)).
Proof. apply in_pendf. right. simpl. auto. Qed.

Lemma upd_upd {A} (l : list A) i x y : upd (upd l i x) i y = upd l i y.
Proof. revert i; induction l; intros [|i]; simpl; auto. rewrite IHl. auto. Qed.

Lemma RInvF_app rs ls rd fr q :
  RInvF rs ls rd fr -> cr_result q = None -> RInvF (rs ++ [q]) ls rd fr.
Proof.
  intros [Hnd Hb Hok Huf] Hq.
  assert (Hrf : rfr q = None) by (unfold rfr; rewrite Hq; auto).
  constructor; auto.
  - intros r Hr. apply Hb in Hr. rewrite app_length; simpl; lia.
  - intros r q0 Hn. apply nth_app_cases in Hn. destruct Hn as [[-> ->]|[Hlt Hn]]; auto.
    unfold req_ok. split; [|split; [|split]].
    + intros Hin. apply Hb in Hin. lia.
    + intros Hin. apply Hb in Hin. lia.
    + intros ->. pose proof (Hb _ (in_pendf_deliver _ _)). lia.
    + congruence.
  - intros r1 r2 q1 q2 f H1 H2 F1 F2.
    apply nth_app_cases in H1. apply nth_app_cases in H2.
    destruct H1 as [[-> ->]|[L1 H1]]; try congruence.
    destruct H2 as [[-> ->]|[L2 H2]]; try congruence.
    eauto.
Qed.

Lemma req_ok_mono ls rd fr ls' rd' fr' r0 q0 :
  req_ok ls rd fr r0 q0 ->
  (In r0 (pendf ls' rd') -> In r0 (pendf ls rd)) ->
  (rd' = RdDeliver r0 -> rd = RdDeliver r0) ->
  (rd = RdDeliver r0 -> In r0 (pendf ls' rd') -> rd' = RdDeliver r0) ->
  fr <= fr' ->
  req_ok ls' rd' fr' r0 q0.
Proof.
  intros (A & B & C & D) Hin Hd1 Hd2 Hfr. unfold req_ok. split; [|split; [|split]].
  - auto.
  - intros Hi Hn. apply B; auto.
  - auto.
  - intros f Hf. destruct (D f Hf) as (? & ? & ?). repeat split; auto. lia.
Qed.

Lemma RInvF_same rs ls rd fr ls' rd' fr' :
  RInvF rs ls rd fr ->
  NoDup (pendf ls' rd') ->
  (forall r0, In r0 (pendf ls' rd') -> In r0 (pendf ls rd)) ->
  (forall r0, rd' = RdDeliver r0 -> rd = RdDeliver r0) ->
  (forall r0, rd = RdDeliver r0 -> In r0 (pendf ls' rd') -> rd' = RdDeliver r0) ->
  fr <= fr' ->
  RInvF rs ls' rd' fr'.
Proof.
  intros [Hnd Hb Hok Huf] Hnd' Hin Hd1 Hd2 Hfr. constructor; auto.
  intros r q Hn. eapply req_ok_mono; eauto.
Qed.

Lemma RInvF_upd rs ls rd fr r q q' ls' rd' fr' :
  RInvF rs ls rd fr -> nth_error rs r = Some q ->
  NoDup (pendf ls' rd') ->
  (forall r0, In r0 (pendf ls' rd') -> r0 = r \/ In r0 (pendf ls rd)) ->
  (forall r0, r0 <> r -> rd' = RdDeliver r0 -> rd = RdDeliver r0) ->
  (forall r0, r0 <> r -> rd = RdDeliver r0 -> In r0 (pendf ls' rd') -> rd' = RdDeliver r0) ->
  fr <= fr' ->
  req_ok ls' rd' fr' r q' ->
  (forall f, rfr q' = Some f -> rfr q = Some f \/ fr <= f) ->
  RInvF (upd rs r q') ls' rd' fr'.
Proof.
  intros [Hnd Hb Hok Huf] Hq Hnd' Hin Hd1 Hd2 Hfr Hq' Hfq.
  assert (Hlt : r < length rs) by (eapply nth_lt; eauto).
  constructor; auto.
  - intros r0 H0. rewrite upd_len. destruct (Hin _ H0) as [->|?]; auto.
  - intros r0 q0 Hn. apply nth_upd_cases in Hn.
    destruct Hn as [(-> & -> & _)|[Hne Hn]]; auto.
    eapply req_ok_mono; eauto.
    intros H0. destruct (Hin _ H0); auto. congruence.
  - assert (Hcross : forall r2 q2 f, r2 <> r -> nth_error rs r2 = Some q2 ->
                       rfr q' = Some f -> rfr q2 = Some f -> False).
    { intros r2 q2 f Hne H2 F1 F2. destruct (Hfq _ F1) as [Fq|Hge].
      - apply Hne. symmetry. eapply Huf; eauto.
      - destruct (Hok _ _ H2) as (_ & _ & _ & D). destruct (D _ F2). lia. }
    intros r1 r2 q1 q2 f H1 H2 F1 F2.
    apply nth_upd_cases in H1. apply nth_upd_cases in H2.
    destruct H1 as [(-> & -> & _)|[N1 H1]]; destruct H2 as [(-> & -> & _)|[N2 H2]]; auto.
    + exfalso; eauto.
    + exfalso; eauto.
    + eauto.
Qed.

Lemma in_pendf_snoc r0 r ls rd : In r0 (pendf (ls ++ [r]) rd) <-> r0 = r \/ In r0 (pendf ls rd).
Proof. unfold pendf. rewrite !in_app_iff. simpl. intuition. Qed.

Lemma nodup_pendf_snoc r ls rd :
  NoDup (pendf ls rd) -> ~ In r (pendf ls rd) -> NoDup (pendf (ls ++ [r]) rd).
Proof.
  unfold pendf. intros Hnd Hn. rewrite <- app_assoc. simpl.
  apply NoDup_Add with (a := r) (l := ls ++ rd_list rd).
  - apply Add_app.
  - constructor; auto.
Qed.

Lemma rinv_step s l s' : EInv s -> RInv s -> OInv s -> cstep s l = Some s' -> RInv s'.
Proof.
  intros HE HR HO H. destruct l; inv_step H.
  all: unfold setc, setr, set_reader; simpl.
  all: try exact HR.
  all: try (apply RInvF_app; [exact HR|reflexivity]).
  all: try (eapply RInvF_same; [exact HR|..];
            [ pose proof (r_nd _ _ _ _ HR) as Hnd; unfold pendf in *; simpl in *; rewrite ?app_nil_r in *; auto
            | unfold pendf; simpl; intros r0; rewrite ?app_nil_r; auto
            | intros; discriminate
            | intros; discriminate
            | lia ]; fail).
  - (* LLock, linked *)
    pose proof (o_call _ _ _ _ HO _ _ Hg) as Hc. unfold caller_ok in Hc. rewrite Hpc in Hc.
    destruct Hc as (r & q & Hr & Hq' & Hnin & Hres & _).
    assert (r = n) by congruence. subst r.
    eapply RInvF_upd with (q := c1); [exact HR | exact Hq | ..].
    + apply nodup_pendf_snoc; auto. apply (r_nd _ _ _ _ HR).
    + intros r0. apply in_pendf_snoc.
    + auto.
    + auto.
    + lia.
    + unfold req_ok; simpl. split; [|split; [|split]]; auto.
      * intros Hd. exfalso. apply Hnin. rewrite Hd. apply in_pendf_deliver.
      * unfold rfr; simpl. discriminate.
    + unfold rfr; simpl. discriminate.
  - (* LHandoff, sent *)
    eapply RInvF_upd with (q := c1); [exact HR | exact Hq | ..]; auto.
    + apply (r_nd _ _ _ _ HR).
    + exact (r_ok _ _ _ _ HR _ _ Hq).
  - (* LRecvFrame, matched *)
    pose proof (find_tag_in _ _ _ _ Hft) as Hin.
    pose proof (r_nd _ _ _ _ HR) as Hnd. unfold pendf in Hnd; simpl in Hnd; rewrite app_nil_r in Hnd.
    destruct (r_ok _ _ _ _ HR _ _ Hq) as (A & B & C & D).
    assert (Hinp : In n (pendf (lst s) RdRun)) by (apply in_pendf; auto).
    eapply RInvF_upd with (q := c); [exact HR | exact Hq | ..].
    + unfold pendf; simpl. apply nodup_app. split; [|split].
      * apply nodup_remove_first; auto.
      * constructor; auto. constructor.
      * intros x Hx [<-|[]]. apply in_remove_first_iff in Hx; auto. tauto.
    + intros r0. unfold pendf; simpl. rewrite !in_app_iff. simpl.
      intros [Hx|[<-|[]]]; auto. apply in_remove_first in Hx. auto.
    + intros r0 Hne Heq. congruence.
    + intros; discriminate.
    + lia.
    + unfold req_ok; simpl. split; [|split; [|split]].
      * intros _. split; auto. apply A; auto.
      * intros _ Hne. congruence.
      * intros _. unfold rfr; simpl. rewrite fr_of_result_of. discriminate.
      * unfold rfr; simpl. rewrite fr_of_result_of. intros f Hf. injection Hf as <-.
        split; [lia|]. split; [|apply A; auto].
        apply find_tag_spec in Hft. destruct Hft as (pre & post & q0 & _ & Hq0 & Hw & _).
        congruence.
    + unfold rfr at 1; simpl. rewrite fr_of_result_of. intros f Hf. injection Hf as <-. right; lia.
  - (* LDeliver, matched reply *)
    pose proof (r_nd _ _ _ _ HR) as Hnd. unfold pendf in Hnd; simpl in Hnd.
    apply nodup_app in Hnd. destruct Hnd as (Hnd1 & _ & Hdis).
    assert (Hnin : ~ In r (pendf (lst s) RdRun)).
    { unfold pendf; simpl. rewrite app_nil_r. intros Hx. apply (Hdis _ Hx). simpl; auto. }
    destruct (r_ok _ _ _ _ HR _ _ Hq) as (A & B & C & D).
    eapply RInvF_upd with (q := c); [exact HR | exact Hq | ..].
    + unfold pendf; simpl. rewrite app_nil_r. auto.
    + intros r0. unfold pendf; simpl. rewrite !in_app_iff. simpl. tauto.
    + intros; discriminate.
    + intros r0 Hne Heq. congruence.
    + lia.
    + unfold req_ok. split; [|split; [|split]].
      * intros Hx. contradiction.
      * intros Hx. contradiction.
      * intros; discriminate.
      * exact D.
    + intros f Hf. left. exact Hf.
  - (* LDeliver, connection error *)
    unfold setr in Hq0; simpl in Hq0.
    rewrite nth_upd_eq in Hq0 by (eapply nth_lt; eauto). injection Hq0 as <-. simpl.
    rewrite upd_upd.
    pose proof (r_nd _ _ _ _ HR) as Hnd. unfold pendf in Hnd; simpl in Hnd.
    assert (Hnin : ~ In n (pendf (lst s) (RdClose2 l))).
    { unfold pendf; simpl. apply NoDup_remove_2 in Hnd. auto. }
    eapply RInvF_upd with (q := c); [exact HR | exact Hq | ..].
    + unfold pendf; simpl. apply NoDup_remove_1 in Hnd. auto.
    + intros r0. unfold pendf; simpl. rewrite !in_app_iff. simpl. tauto.
    + intros; discriminate.
    + intros; discriminate.
    + lia.
    + unfold req_ok. split; [|split; [|split]].
      * intros Hx. contradiction.
      * intros Hx. contradiction.
      * intros; discriminate.
      * unfold rfr; simpl. intros; discriminate.
    + unfold rfr at 1; simpl. intros; discriminate.
Qed.

(* ---------- O: preservation lemmas on the fields ---------- *)

Lemma caller_ok_tr rs ls rd rs' ls' rd' x :
  caller_ok rs ls rd x ->
  (forall r q, c_req x = Some r -> nth_error rs r = Some q ->
     exists q', nth_error rs' r = Some q' /\
       (In r (pendf ls rd) -> In r (pendf ls' rd')) /\
       (~ In r (pendf ls rd) ->
          ~ In r (pendf ls' rd') /\ cr_result q' = cr_result q /\ cr_signalled q' = cr_signalled q)) ->
  caller_ok rs' ls' rd' x.
Proof.
  unfold caller_ok. intros Hc Htr. destruct (c_pc x); auto.
  all: destruct Hc as (r & q & Hr & Hq & Hc); destruct (Htr _ _ Hr Hq) as (q' & Hq' & Hin & Hnin);
    exists r, q'; split; auto; split; auto.
  - destruct Hc as (Hn & Hres & Hcr). destruct (Hnin Hn) as (? & ? & ?). repeat split; auto. congruence.
  - destruct Hc as (Hi & Hcr). auto.
  - destruct Hc as (Hcr & Hc). split; auto.
    destruct (in_dec Nat.eq_dec r (pendf ls rd)) as [Hi|Hn]; auto.
    destruct Hc as [Hi|[Hs Hres]]; auto.
    destruct (Hnin Hn) as (? & ? & ?). right. split; congruence.
  - destruct Hc as (Hn & Hc). destruct (Hnin Hn) as (? & ? & ?). split; auto.
    destruct Hc; auto. right; congruence.
  - destruct Hc as (Hn & Hc). destruct (Hnin Hn) as (? & ? & ?). split; auto.
    destruct Hc; auto. right; congruence.
Qed.

Lemma OInvF_step0 rs ls rd cs rs' ls' rd' :
  OInvF rs ls rd cs -> length rs' = length rs ->
  (forall c0 x0, nth_error cs c0 = Some x0 -> caller_ok rs' ls' rd' x0) ->
  OInvF rs' ls' rd' cs.
Proof.
  intros [Hc Ho Hu] Hl Hc'. constructor; auto. rewrite Hl. auto.
Qed.

Lemma OInvF_step rs ls rd cs rs' ls' rd' c x x' :
  OInvF rs ls rd cs -> nth_error cs c = Some x -> c_req x' = c_req x ->
  length rs' = length rs ->
  caller_ok rs' ls' rd' x' ->
  (forall c0 x0, c0 <> c -> nth_error cs c0 = Some x0 -> caller_ok rs' ls' rd' x0) ->
  OInvF rs' ls' rd' (upd cs c x').
Proof.
  intros [Hc Ho Hu] Hx Hreq Hl Hx' Hc'.
  assert (Hlt : c < length cs) by (eapply nth_lt; eauto).
  constructor.
  - intros c0 x0 H0. apply nth_upd_cases in H0. destruct H0 as [(-> & -> & _)|[Hne H0]]; eauto.
  - rewrite Hl. intros r Hr. destruct (Ho _ Hr) as (c0 & x0 & H0 & Hr0).
    destruct (Nat.eq_dec c0 c) as [->|Hne].
    + exists c, x'. rewrite nth_upd_eq by auto. split; auto. congruence.
    + exists c0, x0. rewrite nth_upd_neq by auto. auto.
  - intros c1 c2 x1 x2 r H1 H2 R1 R2.
    apply nth_upd_cases in H1. apply nth_upd_cases in H2.
    destruct H1 as [(-> & -> & _)|[N1 H1]]; destruct H2 as [(-> & -> & _)|[N2 H2]]; auto.
    + eapply Hu; eauto. congruence.
    + eapply Hu; eauto. congruence.
    + eapply Hu; eauto.
Qed.

Lemma waiter_spec cs r :
  existsb (fun x => match c_pc x, c_req x with CWait, Some r' => r' =? r | _, _ => false end) cs = true ->
  exists c x, nth_error cs c = Some x /\ c_pc x = CWait /\ c_req x = Some r.
Proof.
  intros H. apply existsb_exists in H. destruct H as (x & Hin & Hx).
  apply In_nth_error in Hin. destruct Hin as (c & Hc). exists c, x. split; auto.
  destruct (c_pc x); try discriminate. destruct (c_req x); try discriminate.
  apply Nat.eqb_eq in Hx. subst. auto.
Qed.

Lemma waiter_complete cs c x r :
  nth_error cs c = Some x -> c_pc x = CWait -> c_req x = Some r ->
  existsb (fun x => match c_pc x, c_req x with CWait, Some r' => r' =? r | _, _ => false end) cs = true.
Proof.
  intros H Hpc Hr. apply existsb_exists. exists x. split.
  - eapply nth_error_In; eauto.
  - rewrite Hpc, Hr. apply Nat.eqb_refl.
Qed.

Lemma caller_ok_app rs ls rd x q : caller_ok rs ls rd x -> caller_ok (rs ++ [q]) ls rd x.
Proof.
  intros H. eapply caller_ok_tr; eauto.
  intros r q0 Hr Hq. exists q0. split.
  - rewrite nth_error_app1; auto. eapply nth_lt; eauto.
  - split; auto.
Qed.

Lemma caller_ok_fresh rs ls rd q v :
  (forall r, In r (pendf ls rd) -> r < length rs) -> cr_result q = None ->
  caller_ok (rs ++ [q]) ls rd (mkCaller CLock (Some (length rs)) None v).
Proof.
  intros Hb Hq. unfold caller_ok; simpl. exists (length rs), q. split; auto. split.
  - apply nth_app_last.
  - repeat split; auto. intros Hin. apply Hb in Hin. lia.
Qed.

Lemma OInvF_newcaller rs ls rd cs v :
  OInvF rs ls rd cs -> OInvF rs ls rd (cs ++ [mkCaller CAlloc None None v]).
Proof.
  intros [Hc Ho Hu]. constructor.
  - intros c x H. apply nth_app_cases in H. destruct H as [[-> ->]|[Hlt H]]; eauto.
    unfold caller_ok; simpl; auto.
  - intros r Hr. destruct (Ho _ Hr) as (c & x & H & Hx). exists c, x. split; auto.
    rewrite nth_error_app1; auto. eapply nth_lt; eauto.
  - intros c1 c2 x1 x2 r H1 H2 R1 R2.
    apply nth_app_cases in H1. apply nth_app_cases in H2.
    destruct H1 as [[-> ->]|[L1 H1]]; try discriminate.
    destruct H2 as [[-> ->]|[L2 H2]]; try discriminate.
    eauto.
Qed.

Lemma OInvF_newshared rs ls rd cs q v :
  OInvF rs ls rd cs -> (forall r, In r (pendf ls rd) -> r < length rs) -> cr_result q = None ->
  OInvF (rs ++ [q]) ls rd (cs ++ [mkCaller CLock (Some (length rs)) None v]).
Proof.
  intros [Hc Ho Hu] Hb Hq. constructor.
  - intros c x H. apply nth_app_cases in H. destruct H as [[-> ->]|[Hlt H]].
    + apply caller_ok_fresh; auto.
    + apply caller_ok_app; eauto.
  - intros r Hr. rewrite app_length in Hr; simpl in Hr.
    destruct (Nat.eq_dec r (length rs)) as [->|Hne].
    + exists (length cs), (mkCaller CLock (Some (length rs)) None v). split; auto. apply nth_app_last.
    + destruct (Ho r) as (c & x & H & Hx); [lia|]. exists c, x. split; auto.
      rewrite nth_error_app1; auto. eapply nth_lt; eauto.
  - intros c1 c2 x1 x2 r H1 H2 R1 R2.
    apply nth_app_cases in H1. apply nth_app_cases in H2.
    destruct H1 as [[-> ->]|[L1 H1]]; destruct H2 as [[-> ->]|[L2 H2]]; auto.
    + simpl in R1. injection R1 as <-. pose proof (caller_ok_req_lt _ _ _ _ _ (Hc _ _ H2) R2). lia.
    + simpl in R2. injection R2 as <-. pose proof (caller_ok_req_lt _ _ _ _ _ (Hc _ _ H1) R1). lia.
    + eauto.
Qed.

Lemma OInvF_alloc rs ls rd cs q v c x :
  OInvF rs ls rd cs -> (forall r, In r (pendf ls rd) -> r < length rs) -> cr_result q = None ->
  nth_error cs c = Some x -> c_pc x = CAlloc ->
  OInvF (rs ++ [q]) ls rd (upd cs c (mkCaller CLock (Some (length rs)) None v)).
Proof.
  intros [Hc Ho Hu] Hb Hq Hx Hpc.
  assert (Hlt : c < length cs) by (eapply nth_lt; eauto).
  assert (Hnone : c_req x = None).
  { pose proof (Hc _ _ Hx) as Hcx. unfold caller_ok in Hcx. rewrite Hpc in Hcx. tauto. }
  constructor.
  - intros c0 x0 H. apply nth_upd_cases in H. destruct H as [(-> & -> & _)|[Hne H]].
    + apply caller_ok_fresh; auto.
    + apply caller_ok_app; eauto.
  - intros r Hr. rewrite app_length in Hr; simpl in Hr.
    destruct (Nat.eq_dec r (length rs)) as [->|Hne].
    + exists c, (mkCaller CLock (Some (length rs)) None v). split; auto. apply nth_upd_eq; auto.
    + destruct (Ho r) as (c0 & x0 & H & Hx0); [lia|]. exists c0, x0. split; auto.
      rewrite nth_upd_neq; auto. intros ->. congruence.
  - intros c1 c2 x1 x2 r H1 H2 R1 R2.
    apply nth_upd_cases in H1. apply nth_upd_cases in H2.
    destruct H1 as [(-> & -> & _)|[N1 H1]]; destruct H2 as [(-> & -> & _)|[N2 H2]]; auto.
    + simpl in R1. injection R1 as <-. pose proof (caller_ok_req_lt _ _ _ _ _ (Hc _ _ H2) R2). lia.
    + simpl in R2. injection R2 as <-. pose proof (caller_ok_req_lt _ _ _ _ _ (Hc _ _ H1) R1). lia.
    + eauto.
Qed.

Lemma OInvF_deliver rs ls rd cs r q q' rd' :
  OInvF rs ls rd cs -> nth_error rs r = Some q ->
  existsb (fun x => match c_pc x, c_req x with CWait, Some r' => r' =? r | _, _ => false end) cs = true ->
  cr_signalled q' = true -> cr_result q' <> None ->
  (forall r0, r0 <> r -> (In r0 (pendf ls rd) <-> In r0 (pendf ls rd'))) ->
  OInvF (upd rs r q') ls rd' cs.
Proof.
  intros HO Hq Hex Hs Hres Hin.
  destruct (waiter_spec _ _ Hex) as (cw & xw & Hw & Hwpc & Hwr).
  assert (Hlt : r < length rs) by (eapply nth_lt; eauto).
  eapply OInvF_step0; [exact HO|apply upd_len|]. intros c0 x0 H0.
  assert (Hdec : c_req x0 = Some r \/ c_req x0 <> Some r).
  { destruct (c_req x0) as [r0|]; [|right; discriminate].
    destruct (Nat.eq_dec r0 r); [left|right]; congruence. }
  destruct Hdec as [Hr0|Hr0].
  - assert (c0 = cw) by (eapply (o_uniq _ _ _ _ HO); eauto). subst c0.
    assert (x0 = xw) by congruence. subst x0.
    pose proof (o_call _ _ _ _ HO _ _ Hw) as Hc. unfold caller_ok in *. rewrite Hwpc in *.
    destruct Hc as (r1 & q1 & Hr1 & Hq1 & Hcr & _).
    exists r, q'. split; auto. split; [apply nth_upd_eq; auto|]. split; auto.
  - eapply caller_ok_tr; [eapply o_call; eauto|]. intros r0 q0 Hr0' Hq0.
    assert (r0 <> r) by congruence.
    exists q0. split; [rewrite nth_upd_neq; auto|].
    rewrite <- (Hin r0) by auto. auto.
Qed.

Lemma oinv_step s l s' : EInv s -> RInv s -> OInv s -> cstep s l = Some s' -> OInv s'.
Proof.
  intros HE HR HO H. destruct l; inv_step H.
  all: unfold setc, setr, set_reader; simpl.
  all: try (apply OInvF_newcaller; exact HO).
  all: try (apply OInvF_newshared; [exact HO|exact (r_bnd _ _ _ _ HR)|reflexivity]).
  all: try (eapply OInvF_alloc; [exact HO|exact (r_bnd _ _ _ _ HR)|reflexivity|exact Hg|exact Hpc]).
  all: try (eapply OInvF_step0; [exact HO|reflexivity|];
            intros c0 x0 H0; eapply caller_ok_tr; [eapply o_call; eauto|];
            intros r0 q0 Hr0 Hq0; exists q0; split; auto;
            unfold pendf; simpl; rewrite ?app_nil_r; auto; fail).
  all: try (pose proof (o_call _ _ _ _ HO _ _ Hg) as Hc; unfold caller_ok in Hc; rewrite Hpc in Hc;
            destruct Hc as (r' & q' & Hr' & Hq' & Hc);
            assert (r' = n) by congruence; subst r';
            assert (q' = c1) by congruence; subst q').
  - (* LLock, refused *)
    eapply OInvF_step; [exact HO|exact Hg|simpl; congruence|reflexivity| |intros; eapply o_call; eauto].
    unfold caller_ok; simpl. exists n, c1. split; auto. split; auto. split; [tauto|auto].
  - (* LLock, linked *)
    destruct Hc as (Hnin & Hres & Hcr).
    assert (Hlt : n < length (creqs s)) by (eapply nth_lt; eauto).
    eapply OInvF_step; [exact HO|exact Hg|simpl; congruence|apply upd_len| | ].
    + unfold caller_ok; simpl. exists n; eexists. split; [reflexivity|]. split; [apply nth_upd_eq; auto|].
      split; auto. apply in_pendf_snoc; auto.
    + intros c2 x2 Hne H2. eapply caller_ok_tr; [eapply o_call; eauto|]. intros r0 q0 Hr0 Hq0.
      assert (r0 <> n). { intros ->. apply Hne. eapply (o_uniq _ _ _ _ HO); eauto. }
      exists q0. split; [rewrite nth_upd_neq; auto|]. rewrite in_pendf_snoc. split; auto.
      intros Hn. split; auto. tauto.
  - (* LHandoff, done closed *)
    eapply OInvF_step; [exact HO|exact Hg|simpl; congruence|reflexivity| |intros; eapply o_call; eauto].
    unfold caller_ok; simpl. exists n, c1. split; auto. split; auto. split; [tauto|left; tauto].
  - (* LHandoff, sent *)
    destruct Hc as (Hin & Hcr).
    assert (Hlt : n < length (creqs s)) by (eapply nth_lt; eauto).
    eapply OInvF_step; [exact HO|exact Hg|simpl; congruence|apply upd_len| | ].
    + unfold caller_ok; simpl. exists n; eexists. split; [reflexivity|]. split; [apply nth_upd_eq; auto|].
      split; auto.
    + intros c2 x2 Hne H2. eapply caller_ok_tr; [eapply o_call; eauto|]. intros r0 q0 Hr0 Hq0.
      assert (r0 <> n). { intros ->. apply Hne. eapply (o_uniq _ _ _ _ HO); eauto. }
      exists q0. split; [rewrite nth_upd_neq; auto|]. auto.
  - (* LRecvFrame, matched *)
    pose proof (find_tag_in _ _ _ _ Hft) as Hin.
    pose proof (r_nd _ _ _ _ HR) as Hnd. unfold pendf in Hnd; simpl in Hnd; rewrite app_nil_r in Hnd.
    assert (Hlt : n < length (creqs s)) by (eapply nth_lt; eauto).
    eapply OInvF_step0; [exact HO|apply upd_len|]. intros c0 x0 H0.
    eapply caller_ok_tr; [eapply o_call; eauto|]. intros r0 q0 Hr0 Hq0.
    destruct (Nat.eq_dec r0 n) as [->|Hne].
    + eexists; split; [apply nth_upd_eq; auto|]. split.
      * intros _. apply in_pendf_deliver.
      * intros Hn; exfalso; apply Hn; apply in_pendf; auto.
    + exists q0; split; [rewrite nth_upd_neq; auto|].
      unfold pendf; simpl. rewrite app_nil_r. rewrite in_app_iff. rewrite in_remove_first_iff by auto. simpl.
      split; [tauto|]. intros Hn. split; [|auto]. intros [[? ?]|[?|[]]]; auto.
  - (* LDeliver, matched reply *)
    destruct (r_ok _ _ _ _ HR _ _ Hq) as (A & B & C & D).
    eapply OInvF_deliver; [exact HO|exact Hq|exact Hex|reflexivity| |].
    + simpl. intros Hn. apply C; auto. unfold rfr. rewrite Hn. auto.
    + intros r0 Hne. unfold pendf; simpl. rewrite !in_app_iff. simpl. intuition congruence.
  - (* LDeliver, connection error *)
    unfold setr in Hq0; simpl in Hq0.
    rewrite nth_upd_eq in Hq0 by (eapply nth_lt; eauto). injection Hq0 as <-. simpl.
    rewrite upd_upd. unfold setr in Hex; simpl in Hex.
    eapply OInvF_deliver; [exact HO|exact Hq|exact Hex|reflexivity| |].
    + simpl. discriminate.
    + intros r0 Hne. unfold pendf; simpl. rewrite !in_app_iff. simpl. intuition congruence.
  - (* LTake *)
    eapply OInvF_step; [exact HO|exact Hg|simpl; congruence|reflexivity| |intros; eapply o_call; eauto].
    unfold caller_ok; simpl. exists n, c1. split; auto. split; auto. split; [|auto].
    intros Hin. destruct (r_ok _ _ _ _ HR _ _ Hq) as (A & _). destruct (A Hin). congruence.
  - eapply OInvF_step; [exact HO|exact Hg|simpl; congruence|reflexivity| |intros; eapply o_call; eauto].
    unfold caller_ok; simpl. exists n, c1. split; auto.
  - eapply OInvF_step; [exact HO|exact Hg|simpl; congruence|reflexivity| |intros; eapply o_call; eauto].
    unfold caller_ok; simpl. exists n, c1. split; auto.
  - eapply OInvF_step; [exact HO|exact Hg|simpl; congruence|reflexivity| |intros; eapply o_call; eauto].
    unfold caller_ok; simpl. exists n, c1. split; auto.
Qed.

(* ---------- T: the tags are a permutation of the initial pool ---------- *)

Definition ltag (rs : list creq) (x : caller) : list N :=
  match c_pc x, c_req x with
  | (CLock | CHandoff | CWait | CFree), Some r =>
    match nth_error rs r with
    | Some q => if cr_shared q then [] else [cr_tag q]
    | None => [] end
  | _, _ => [] end.

Lemma live_tags_eq s : live_tags s = flat_map (ltag (creqs s)) (callers s).
Proof. reflexivity. Qed.

Definition tagsF (rs : list creq) (cs : list caller) (ca po : list N) : list N :=
  flat_map (ltag rs) cs ++ ca ++ po.

Notation tags s := (tagsF (creqs s) (callers s) (cache s) (pool s)).

Lemma ltag_noreq rs x : c_req x = None -> ltag rs x = [].
Proof. unfold ltag. intros ->. destruct (c_pc x); auto. Qed.

Lemma ltag_app rs ls rd y q : caller_ok rs ls rd y -> ltag (rs ++ [q]) y = ltag rs y.
Proof.
  intros H. destruct (c_req y) as [r|] eqn:Hr.
  - pose proof (caller_ok_req_lt _ _ _ _ _ H Hr) as Hlt.
    unfold ltag. rewrite Hr. rewrite nth_error_app1 by auto. auto.
  - rewrite !ltag_noreq; auto.
Qed.

Lemma ltag_upd rs n q q' y :
  nth_error rs n = Some q -> cr_shared q' = cr_shared q -> cr_tag q' = cr_tag q ->
  ltag (upd rs n q') y = ltag rs y.
Proof.
  intros Hq Hs Ht. unfold ltag. destruct (c_pc y); auto.
  all: destruct (c_req y) as [r|]; auto.
  all: destruct (Nat.eq_dec n r) as [->|Hne];
    [rewrite nth_upd_eq by (eapply nth_lt; eauto); rewrite Hq, Hs, Ht; auto
    |rewrite nth_upd_neq by auto; auto].
Qed.

Lemma tags_upd rs rs' cs c x x' :
  nth_error cs c = Some x -> (forall y, In y cs -> ltag rs' y = ltag rs y) ->
  Permutation (ltag rs x ++ flat_map (ltag rs') (upd cs c x')) (ltag rs' x' ++ flat_map (ltag rs) cs).
Proof.
  intros Hx Hext. rewrite <- (flat_map_ext_in' _ _ _ Hext).
  rewrite <- (Hext x) by (eapply nth_error_In; eauto).
  apply flat_map_upd_perm; auto.
Qed.

Lemma tags_same rs rs' cs c x x' ca po :
  nth_error cs c = Some x -> (forall y, In y cs -> ltag rs' y = ltag rs y) ->
  ltag rs' x' = ltag rs x ->
  Permutation (tagsF rs' (upd cs c x') ca po) (tagsF rs cs ca po).
Proof.
  intros Hx Hext Heq. pose proof (tags_upd rs rs' cs c x x' Hx Hext) as P.
  rewrite Heq in P. apply Permutation_app_inv_l in P. unfold tagsF.
  apply Permutation_app_tail. auto.
Qed.

Lemma tags_take rs rs' cs c x x' t :
  nth_error cs c = Some x -> (forall y, In y cs -> ltag rs' y = ltag rs y) ->
  ltag rs x = [] -> ltag rs' x' = [t] ->
  Permutation (flat_map (ltag rs') (upd cs c x')) (t :: flat_map (ltag rs) cs).
Proof.
  intros Hx Hext H1 H2. pose proof (tags_upd rs rs' cs c x x' Hx Hext) as P.
  rewrite H1, H2 in P. exact P.
Qed.

Lemma tags_give rs rs' cs c x x' t :
  nth_error cs c = Some x -> (forall y, In y cs -> ltag rs' y = ltag rs y) ->
  ltag rs x = [t] -> ltag rs' x' = [] ->
  Permutation (t :: flat_map (ltag rs') (upd cs c x')) (flat_map (ltag rs) cs).
Proof.
  intros Hx Hext H1 H2. pose proof (tags_upd rs rs' cs c x x' Hx Hext) as P.
  rewrite H1, H2 in P. exact P.
Qed.

Lemma ltag_app_all rs ls rd cs q :
  OInvF rs ls rd cs -> forall y, In y cs -> ltag (rs ++ [q]) y = ltag rs y.
Proof.
  intros HO y Hy. apply In_nth_error in Hy. destruct Hy as (c & Hc).
  eapply ltag_app. eapply o_call; eauto.
Qed.

Lemma tags_step s l s' : OInv s -> cstep s l = Some s' -> Permutation (tags s') (tags s).
Proof.
  intros HO H. destruct l; inv_step H.
  all: unfold setc, setr, set_reader; simpl.
  all: try reflexivity.
  - (* LNewCall shared *)
    unfold tagsF. rewrite flat_map_app. simpl.
    rewrite (flat_map_ext_in' _ _ _ (ltag_app_all _ _ _ _ _ HO)).
    unfold ltag at 2; simpl. rewrite nth_app_last. simpl. rewrite app_nil_r. reflexivity.
  - (* LNewCall *)
    unfold tagsF. rewrite flat_map_app. simpl. rewrite app_nil_r. reflexivity.
  - (* LAlloc from cache *)
    unfold tagsF. rewrite tags_take with (x := c0) (rs := creqs s) (t := n);
      [|exact Hg|eapply ltag_app_all; eauto|unfold ltag; rewrite Hpc; reflexivity
       |unfold ltag; simpl; rewrite nth_app_last; reflexivity].
    simpl. apply Permutation_middle.
  - (* LAlloc from pool *)
    unfold tagsF. rewrite tags_take with (x := c0) (rs := creqs s) (t := n);
      [|exact Hg|eapply ltag_app_all; eauto|unfold ltag; rewrite Hpc; reflexivity
       |unfold ltag; simpl; rewrite nth_app_last; reflexivity].
    simpl. apply Permutation_middle.
  - eapply tags_same; [exact Hg|auto|]. unfold ltag; simpl. rewrite Hpc, Hrq. reflexivity.
  - eapply tags_same; [exact Hg|intros; eapply ltag_upd; eauto|].
    erewrite ltag_upd by eauto. unfold ltag; simpl. rewrite Hpc, Hrq. reflexivity.
  - eapply tags_same; [exact Hg|auto|]. unfold ltag; simpl. rewrite Hpc, Hrq. reflexivity.
  - eapply tags_same; [exact Hg|intros; eapply ltag_upd; eauto|].
    erewrite ltag_upd by eauto. unfold ltag; simpl. rewrite Hpc, Hrq. reflexivity.
  - unfold tagsF. rewrite (flat_map_ext_in' (ltag (upd _ _ _)) (ltag (creqs s))); [reflexivity|].
    intros; eapply ltag_upd; eauto.
  - unfold tagsF. rewrite (flat_map_ext_in' (ltag (upd _ _ _)) (ltag (creqs s))); [reflexivity|].
    intros; eapply ltag_upd; eauto.
  - unfold setr in Hq0; simpl in Hq0.
    rewrite nth_upd_eq in Hq0 by (eapply nth_lt; eauto). injection Hq0 as <-. simpl.
    rewrite upd_upd.
    unfold tagsF. rewrite (flat_map_ext_in' (ltag (upd _ _ _)) (ltag (creqs s))); [reflexivity|].
    intros; eapply ltag_upd; eauto.
  - eapply tags_same; [exact Hg|auto|]. unfold ltag; simpl. rewrite Hpc, Hrq. reflexivity.
  - eapply tags_same; [exact Hg|auto|]. unfold ltag; simpl. rewrite Hpc, Hrq, Hq, Hsh. reflexivity.
  - (* LFree to the cache *)
    unfold tagsF.
    rewrite <- (tags_give (creqs s) (creqs s) (callers s) c c0
                  (mkCaller CDone (Some n) (c_res c0) (c_version c0)) (cr_tag c1));
      [|exact Hg|auto|unfold ltag; rewrite Hpc, Hrq, Hq, Hsh; reflexivity|reflexivity].
    match goal with |- Permutation (?F ++ _) _ => set (FM := F) end.
    replace (FM ++ (cache s ++ [cr_tag c1]) ++ pool s) with ((FM ++ cache s) ++ cr_tag c1 :: pool s)
      by (rewrite <- !app_assoc; reflexivity).
    simpl. symmetry. apply Permutation_cons_app. rewrite app_assoc. reflexivity.
  - (* LFree to the pool *)
    unfold tagsF.
    rewrite <- (tags_give (creqs s) (creqs s) (callers s) c c0
                  (mkCaller CDone (Some n) (c_res c0) (c_version c0)) (cr_tag c1));
      [|exact Hg|auto|unfold ltag; rewrite Hpc, Hrq, Hq, Hsh; reflexivity|reflexivity].
    match goal with |- Permutation (?F ++ _) _ => set (FM := F) end.
    rewrite !app_assoc. simpl. symmetry. rewrite <- !app_assoc. rewrite !app_assoc.
    apply Permutation_cons_append.
Qed.

(* ---------- the combined invariant ---------- *)

Lemma seqN_length a k : length (seqN a k) = k.
Proof. revert a; induction k; simpl; auto. Qed.

Lemma seqN_ge a k x : In x (seqN a k) -> (a <= x)%N.
Proof.
  revert a; induction k; simpl; intros a H. contradiction.
  destruct H as [<-|H]. apply N.le_refl. apply IHk in H. lia.
Qed.

Lemma seqN_nodup a k : NoDup (seqN a k).
Proof.
  revert a; induction k; simpl; intros a; constructor; auto.
  intros H. apply seqN_ge in H. lia.
Qed.

Record CInv (k : nat) (s : cst) : Prop := {
  ci_e : EInv s;
  ci_r : RInv s;
  ci_o : OInv s;
  ci_t : Permutation (tags s) (seqN 0 k) }.

Lemma cinv_init k : CInv k (cinit_n k).
Proof.
  constructor.
  - apply einv_init.
  - apply rinv_init.
  - apply oinv_init.
  - simpl. unfold tagsF. simpl. reflexivity.
Qed.

Lemma cinv_step k s l s' : CInv k s -> cstep s l = Some s' -> CInv k s'.
Proof.
  intros [HE HR HO HT] H. constructor.
  - eapply einv_step; eauto.
  - eapply rinv_step; eauto.
  - eapply oinv_step; eauto.
  - rewrite (tags_step _ _ _ HO H). exact HT.
Qed.

Lemma cinv_reach k s : creach k s -> CInv k s.
Proof.
  induction 1. apply cinv_init. eapply cinv_step; eauto.
Qed.
