(* Proofs about the file data path model (Clnt/IO.v). *)
From Coq Require Import NArith List Bool PeanoNat Lia.
From V9 Require Import Lib.GoSem Lib.Bytes Gen.Consts Clnt.IO.
Import ListNotations.
Local Open Scope N_scope.

(* ---- list helpers ---- *)
Section ListHelpers.
  Context {A : Type}.
  Implicit Types l : list A.

  Lemma skipn_add : forall (a b : nat) l, skipn (a + b) l = skipn b (skipn a l).
  Proof.
    induction a as [|a IH]; intros b l; [reflexivity|].
    destruct l as [|x l]; [now rewrite !skipn_nil|]. apply IH.
  Qed.

  Lemma firstn_add : forall (a b : nat) l,
    firstn (a + b) l = firstn a l ++ firstn b (skipn a l).
  Proof.
    induction a as [|a IH]; intros b l; [reflexivity|].
    destruct l as [|x l]; [now rewrite skipn_nil, !firstn_nil|].
    cbn [Nat.add firstn skipn app]. now rewrite IH.
  Qed.

  Lemma firstn_app_exact : forall (n : nat) l1 l2, length l1 = n -> firstn n (l1 ++ l2) = l1.
  Proof.
    intros n l1 l2 <-. rewrite firstn_app, Nat.sub_diag, firstn_all.
    cbn [firstn]. now rewrite app_nil_r.
  Qed.

  Lemma skipn_app_exact : forall (n : nat) l1 l2, length l1 = n -> skipn n (l1 ++ l2) = l2.
  Proof.
    intros n l1 l2 <-. rewrite skipn_app, Nat.sub_diag, skipn_all. reflexivity.
  Qed.

  Lemma nth_error_firstn_lt : forall (n i : nat) l, (i < n)%nat ->
    nth_error (firstn n l) i = nth_error l i.
  Proof.
    induction n as [|n IH]; intros i l Hi; [lia|].
    destruct l as [|x l]; [reflexivity|].
    destruct i as [|i]; [reflexivity|]. cbn [firstn nth_error]. apply IH. lia.
  Qed.

  Lemma nth_error_skipn_add : forall (n i : nat) l,
    nth_error (skipn n l) i = nth_error l (n + i).
  Proof.
    induction n as [|n IH]; intros i l; [reflexivity|].
    destruct l as [|x l]; [now destruct i|]. apply IH.
  Qed.
End ListHelpers.

Lemma len_nil : len [] = 0.
Proof. reflexivity. Qed.

Lemma len_app : forall a b, len (a ++ b) = len a + len b.
Proof. intros. unfold len. rewrite app_length. lia. Qed.

Lemma len_cons_pos : forall x (d : bytes), 1 <= len (x :: d).
Proof. intros. unfold len. cbn [length]. lia. Qed.

Lemma pwrite_ne : forall file off data, data <> [] ->
  pwrite file off data =
  firstn (N.to_nat off) file ++ repeat 0 (N.to_nat off - length file) ++ data
    ++ skipn (N.to_nat off + length data) file.
Proof. intros file off [|x d] H; [congruence|reflexivity]. Qed.

Lemma pwrite_prefix_length : forall (file : bytes) (o : nat),
  length (firstn o file ++ repeat 0 (o - length file)) = o.
Proof. intros. rewrite app_length, firstn_length, repeat_length. lia. Qed.

(* POSIX laws of the reference file *)
Theorem pread_beyond_eof : forall file off cnt, len file <= off -> pread file off cnt = [].
Proof.
  intros file off cnt H. unfold pread.
  rewrite skipn_all2 by (unfold len in H; lia). apply firstn_nil.
Qed.

Theorem pread_length : forall file off cnt,
  len (pread file off cnt) = N.min cnt (len file - off).
Proof.
  intros. unfold pread, len. rewrite firstn_length, skipn_length. lia.
Qed.

Theorem pread_pwrite_same : forall file off data,
  pread (pwrite file off data) off (len data) = data.
Proof.
  intros file off data. destruct data as [|x d] eqn:E; [reflexivity|].
  rewrite <- E. assert (Hne : data <> []) by (subst; discriminate).
  rewrite pwrite_ne by exact Hne. unfold pread, len.
  rewrite Nat2N.id, app_assoc.
  rewrite skipn_app_exact by apply pwrite_prefix_length.
  apply firstn_app_exact. reflexivity.
Qed.

Theorem pwrite_length : forall file off data,
  data <> [] -> len (pwrite file off data) = N.max (len file) (off + len data).
Proof.
  intros file off data Hne. rewrite pwrite_ne by exact Hne. unfold len.
  rewrite !app_length, firstn_length, repeat_length, skipn_length. lia.
Qed.

(* bytes outside the written range keep their value *)
Theorem pwrite_outside : forall file off data i,
  (i < off \/ off + len data <= i) -> i < len file ->
  nth_error (pwrite file off data) (N.to_nat i) = nth_error file (N.to_nat i).
Proof.
  intros file off data i Hi Hlen.
  destruct data as [|x d] eqn:E; [reflexivity|].
  rewrite <- E in *. assert (Hne : data <> []) by (subst; discriminate).
  clear E. rewrite pwrite_ne by exact Hne. unfold len in *.
  destruct Hi as [Hi|Hi].
  - rewrite nth_error_app1 by (rewrite firstn_length; lia).
    apply nth_error_firstn_lt. lia.
  - rewrite !app_assoc.
    rewrite nth_error_app2;
      rewrite !app_length, firstn_length, repeat_length; [|lia].
    rewrite nth_error_skipn_add. f_equal. lia.
Qed.

Theorem pwrite_app : forall file off a b,
  pwrite (pwrite file off a) (off + len a) b = pwrite file off (a ++ b).
Proof.
  intros file off a b.
  destruct a as [|x a'] eqn:Ea.
  { rewrite len_nil, N.add_0_r. reflexivity. }
  rewrite <- Ea. assert (Ha : a <> []) by (subst; discriminate). clear Ea.
  destruct b as [|y b'] eqn:Eb.
  { rewrite app_nil_r. reflexivity. }
  rewrite <- Eb. assert (Hb : b <> []) by (subst; discriminate). clear Eb.
  assert (Hab : a ++ b <> []) by (destruct a; [congruence|discriminate]).
  rewrite (pwrite_ne _ (off + len a) b) by exact Hb.
  rewrite (pwrite_ne file off (a ++ b)) by exact Hab.
  rewrite (pwrite_ne file off a) by exact Ha.
  set (o := N.to_nat off).
  assert (Ho : N.to_nat (off + len a) = (o + length a)%nat) by (unfold len, o; lia).
  rewrite Ho.
  set (P := firstn o file ++ repeat 0 (o - length file)).
  assert (HP : length P = o) by apply pwrite_prefix_length.
  replace (firstn o file ++ repeat 0 (o - length file) ++ a ++ skipn (o + length a) file)
    with ((P ++ a) ++ skipn (o + length a) file)
    by (unfold P; now rewrite <- !app_assoc).
  assert (HPa : length (P ++ a) = (o + length a)%nat) by (rewrite app_length; lia).
  rewrite firstn_app_exact by exact HPa.
  replace (o + length a - length ((P ++ a) ++ skipn (o + length a) file))%nat with O
    by (rewrite app_length; lia).
  rewrite skipn_add, skipn_app_exact by exact HPa.
  rewrite <- skipn_add. cbn [repeat app].
  rewrite app_length, Nat.add_assoc. unfold P. now rewrite <- !app_assoc.
Qed.

Definition sane (msize iounit : N) : Prop :=
  c_IOHDRSZ < msize /\ msize <= u32max /\ 1 <= iounit /\ iounit <= msize - c_IOHDRSZ.

(* Clnt.Open always yields a usable iounit *)
Theorem open_iounit_sane : forall msize r,
  c_IOHDRSZ < msize -> msize <= u32max -> sane msize (open_iounit msize r).
Proof.
  intros msize r H1 H2. unfold sane, open_iounit.
  unfold c_IOHDRSZ, u32max in *.
  destruct (N.eqb_spec r 0); cbn [orb]; [lia|].
  destruct (N.ltb_spec (msize - 24) r); lia.
Qed.

Lemma guard_val : forall msize iounit, sane msize iounit ->
  (msize + two32 - c_IOHDRSZ) mod two32 = msize - c_IOHDRSZ.
Proof.
  intros msize iounit (H1 & H2 & _).
  replace (msize + two32 - c_IOHDRSZ) with (msize - c_IOHDRSZ + 1 * two32).
  - rewrite N.mod_add by discriminate. apply N.mod_small.
    unfold c_IOHDRSZ, u32max, two32 in *. lia.
  - unfold c_IOHDRSZ, u32max, two32 in *. lia.
Qed.

(* the bytes obtained by Clnt.Read equal the corresponding bytes of the file *)
Theorem read_exact : forall msize iounit file off cnt,
  sane msize iounit -> off < two63 ->
  clnt_read msize iounit file off cnt = Ok (pread file off (N.min cnt iounit)).
Proof.
  intros msize iounit file off cnt Hs Hoff. unfold clnt_read, ufs_read.
  rewrite (guard_val _ _ Hs).
  assert (Hc : (if iounit <? cnt then iounit else cnt) = N.min cnt iounit)
    by (destruct (N.ltb_spec iounit cnt); lia).
  rewrite Hc.
  destruct (N.ltb_spec (msize - c_IOHDRSZ) (N.min cnt iounit)) as [Hlt|_].
  { destruct Hs as (_ & _ & _ & Hs). lia. }
  destruct (N.leb_spec two63 off); [lia|reflexivity].
Qed.

(* File.Read advances the offset by exactly the bytes returned *)
Theorem seqread_exact : forall msize iounit file n offset,
  sane msize iounit -> offset < two63 ->
  file_read msize iounit file n offset =
  match pread file offset (N.min n iounit) with
  | [] => (RdEOF, offset)
  | d => (RdOk d, offset + len d)
  end.
Proof.
  intros msize iounit file n offset Hs Hoff. unfold file_read, file_readat.
  rewrite read_exact by assumption.
  destruct (pread file offset (N.min n iounit)); reflexivity.
Qed.

Lemma pread_add : forall file off a b,
  pread file off (a + b) = pread file off a ++ pread file (off + a) b.
Proof.
  intros. unfold pread. rewrite !N2Nat.inj_add, firstn_add, skipn_add. reflexivity.
Qed.

Lemma pread_split : forall file off k n, k <= n ->
  pread file off n =
  pread file off k ++ pread file (off + len (pread file off k)) (n - len (pread file off k)).
Proof.
  intros file off k n Hk.
  destruct (N.le_gt_cases (off + k) (len file)) as [Hin|Hout].
  - assert (Hl : len (pread file off k) = k) by (rewrite pread_length; lia).
    rewrite Hl, <- pread_add. f_equal. lia.
  - assert (Hl := pread_length file off k).
    rewrite (pread_beyond_eof file (off + len (pread file off k))) by lia.
    rewrite app_nil_r. unfold pread.
    rewrite !firstn_all2; [reflexivity| |]; rewrite skipn_length; unfold len in *; lia.
Qed.

Lemma readn_gen : forall msize iounit file, sane msize iounit ->
  forall (fuel : nat) n off, (N.to_nat n < fuel)%nat -> off + n < two63 ->
  file_readn fuel msize iounit file n off = Ok (pread file off n).
Proof.
  intros msize iounit file Hs. induction fuel as [|f IH]; intros n off Hf Hoff; [lia|].
  cbn [file_readn]. destruct (N.eqb_spec n 0) as [->|Hn]; [reflexivity|].
  unfold file_readat. rewrite read_exact by (assumption || lia).
  assert (Hi : 1 <= iounit) by (destruct Hs as (_ & _ & Hs & _); exact Hs).
  set (k := N.min n iounit). assert (Hk : 1 <= k <= n) by lia.
  assert (Hl := pread_length file off k).
  destruct (pread file off k) as [|x d] eqn:E.
  - rewrite len_nil in Hl. rewrite pread_beyond_eof by lia. reflexivity.
  - rewrite <- E in *. assert (Hpos : 1 <= len (pread file off k))
      by (rewrite E; apply len_cons_pos).
    rewrite IH by lia. cbn [bind]. f_equal. symmetry. apply pread_split. lia.
Qed.

(* File.Readn transfers exactly the bytes requested up to end of file, for any chunking *)
Theorem readn_exact : forall msize iounit file n off,
  sane msize iounit -> off + n < two63 ->
  file_readn (S (N.to_nat n)) msize iounit file n off = Ok (pread file off n).
Proof.
  intros msize iounit file n off Hs Hoff. apply readn_gen; [exact Hs|lia|exact Hoff].
Qed.

Theorem write_exact : forall msize iounit file off data,
  sane msize iounit -> off < two63 ->
  clnt_write msize iounit file off data =
  Ok (N.min (len data) iounit, pwrite file off (firstn (N.to_nat iounit) data)).
Proof.
  intros msize iounit file off data Hs Hoff. unfold clnt_write, ufs_write.
  rewrite (guard_val _ _ Hs).
  match goal with |- context [pwrite file off ?d] => set (dd := d) end.
  assert (Hc : dd = firstn (N.to_nat iounit) data).
  { unfold dd. destruct (N.ltb_spec iounit (len data)); [reflexivity|].
    symmetry. apply firstn_all2. unfold len in *. lia. }
  rewrite Hc. clear dd Hc.
  assert (Hl : len (firstn (N.to_nat iounit) data) = N.min (len data) iounit)
    by (unfold len; rewrite firstn_length; lia).
  rewrite Hl.
  destruct (N.ltb_spec (msize - c_IOHDRSZ) (N.min (len data) iounit)) as [Hlt|_].
  { destruct Hs as (_ & _ & _ & Hs). lia. }
  destruct (N.leb_spec two63 off); [lia|reflexivity].
Qed.

Lemma written_gen : forall msize iounit, sane msize iounit ->
  forall (fuel : nat) data file off, (length data < fuel)%nat -> off + len data < two63 ->
  file_written fuel msize iounit file off data = Ok (len data, pwrite file off data).
Proof.
  intros msize iounit Hs. induction fuel as [|f IH]; intros data file off Hf Hoff; [lia|].
  destruct data as [|x d] eqn:E; [reflexivity|].
  cbn [file_written]. rewrite <- E in *.
  assert (Hpos : 1 <= len data) by (rewrite E; apply len_cons_pos). clear E.
  assert (Hi : 1 <= iounit) by (destruct Hs as (_ & _ & Hs & _); exact Hs).
  rewrite write_exact by (assumption || lia). cbn [bind].
  set (n := N.min (len data) iounit). assert (Hn : 1 <= n <= len data) by lia.
  destruct (N.eqb_spec n 0); [lia|].
  assert (Hsk : len (skipn (N.to_nat n) data) = len data - n)
    by (unfold len in *; rewrite skipn_length; lia).
  rewrite IH; [| unfold len in *; rewrite skipn_length; lia | lia].
  cbn [bind]. f_equal. f_equal; [lia|].
  assert (Hfn : firstn (N.to_nat iounit) data = firstn (N.to_nat n) data).
  { destruct (N.le_gt_cases iounit (len data)).
    - replace n with iounit by lia. reflexivity.
    - rewrite !firstn_all2; [reflexivity| |]; unfold len in *; lia. }
  rewrite Hfn.
  assert (Hlf : len (firstn (N.to_nat n) data) = n)
    by (unfold len in *; rewrite firstn_length; lia).
  rewrite <- Hlf at 2. rewrite pwrite_app, firstn_skipn. reflexivity.
Qed.

(* File.Written: the file then holds exactly the data, whatever the chunking *)
Theorem written_exact : forall msize iounit file off data,
  sane msize iounit -> off + len data < two63 ->
  file_written (S (length data)) msize iounit file off data = Ok (len data, pwrite file off data).
Proof.
  intros msize iounit file off data Hs Hoff. apply written_gen; [exact Hs|lia|exact Hoff].
Qed.

(* hence two different iounits (chunkings) give the same file *)
Theorem written_chunking_irrelevant : forall m1 i1 m2 i2 file off data,
  sane m1 i1 -> sane m2 i2 -> off + len data < two63 ->
  file_written (S (length data)) m1 i1 file off data = file_written (S (length data)) m2 i2 file off data.
Proof.
  intros. rewrite !written_exact by assumption. reflexivity.
Qed.
