(* Proofs about the client's side of the version negotiation (Clnt/Version.v) composed with the
   server's Tversion handler (Srv/Seq.v). *)
From Coq Require Import NArith List Bool Lia.
From V9 Require Import Lib.GoSem Lib.Bytes Gen.Consts Codec.Msg Srv.Seq Srv.SeqSpec Srv.SeqLemmas Srv.SeqProofs Clnt.IO Clnt.Version.
Import ListNotations.
Local Open Scope N_scope.

Lemma clnt_connect_min : forall cm wantu rm rv, fst (clnt_connect cm wantu rm rv) = N.min cm rm.
Proof.
  intros. unfold clnt_connect. cbn [fst].
  destruct (rm <? cm) eqn:E; [apply N.ltb_lt in E | apply N.ltb_ge in E]; lia.
Qed.

Lemma clnt_connect_dialect : forall cm wantu rm rv,
  snd (clnt_connect cm wantu rm rv) = true <-> (wantu = true /\ bytes_eqb rv ver_u = true).
Proof.
  intros. unfold clnt_connect. cbn [snd]. rewrite andb_true_iff. tauto.
Qed.

(* both sides agree: whatever the state of the connection, the client ends with the msize and the
   dialect the server's connection has after it answered the client's Tversion *)
Theorem both_sides_agree : forall cfg c cm wantu sc c' m v ev,
  CInv cfg c -> c_IOHDRSZ <= cm ->
  seq_step cfg c (clnt_version_request cm wantu) sc = (c', Rversion_ m v, ev) ->
  clnt_connect cm wantu m v = (c_msize c', c_dotu c').
Proof.
  intros cfg c cm wantu sc c' m v ev HC Hcm H.
  unfold clnt_version_request in H. rewrite rversion_min in H by exact HC.
  replace (cm <? c_IOHDRSZ) with false in H by (symmetry; apply N.ltb_ge; exact Hcm).
  cbv zeta in H. injection H as Hc Hm Hv _. subst c' m.
  cbn [c_msize c_dotu]. unfold clnt_connect.
  f_equal.
  - destruct (N.min cm (c_msize c) <? cm) eqn:E; [reflexivity|]. apply N.ltb_ge in E. lia.
  - subst v. destruct wantu.
    + change (bytes_eqb ver_u ver_u) with true. cbn [andb].
      destruct (s_dotu cfg); [change (bytes_eqb ver_u ver_u) with true | change (bytes_eqb ver_p ver_u) with false]; reflexivity.
    + change (bytes_eqb ver_p ver_u) with false. cbn [andb]. apply andb_false_r.
Qed.

(* a too small proposal is refused by the server: the client's Connect fails (Rerror), nothing to adopt *)
Theorem small_proposal_refused : forall cfg c cm wantu sc,
  CInv cfg c -> cm < c_IOHDRSZ ->
  exists r, seq_step cfg c (clnt_version_request cm wantu) sc = (c, r, []) /\ is_rerror r = true.
Proof.
  intros cfg c cm wantu sc HC Hcm. unfold clnt_version_request. rewrite rversion_min by exact HC.
  replace (cm <? c_IOHDRSZ) with true by (symmetry; apply N.ltb_lt; exact Hcm).
  eexists. split; [reflexivity|]. rewrite is_rerror_wire.
  rewrite fit_rerror. reflexivity.
Qed.

(* with the iounit Clnt.Open derives, no Twrite frame and no Rread the client asks for exceeds msize *)
Theorem client_frames_fit : forall msize riounit n,
  c_IOHDRSZ <= msize ->
  let iou := open_iounit msize riounit in
  iou <= msize - c_IOHDRSZ /\
  twrite_frame_len iou n <= msize /\
  rread_frame_len (tread_count iou n) <= msize.
Proof.
  intros msize riounit n Hm iou.
  assert (I : iou <= msize - c_IOHDRSZ).
  { subst iou. unfold open_iounit.
    destruct ((riounit =? 0) || (msize - c_IOHDRSZ <? riounit)) eqn:E; [lia|].
    apply orb_false_iff in E. destruct E as [_ E]. apply N.ltb_ge in E. exact E. }
  unfold c_IOHDRSZ in *. split; [exact I|].
  unfold twrite_frame_len, rread_frame_len, tread_count.
  destruct (iou <? n) eqn:E; [|apply N.ltb_ge in E]; lia.
Qed.

Example version_nonvacuous :
  clnt_connect 8216 true 8192 ver_u = (8192, true) /\ clnt_connect 8216 true 8192 ver_p = (8192, false) /\
  clnt_connect 8192 false 8216 ver_u = (8192, false) /\
  twrite_frame_len (open_iounit 8192 0) 100000 = 8191.
Proof. vm_compute. repeat split; reflexivity. Qed.
