(* A modelling assumption about the shape of the CURRENT source (Gen/Shape.v), re-checked on every run. *)
From Coq Require Import String List Bool.
From V9 Require Import Gen.Shape Shape.ShapeLib.

Lemma disconnect_paths_ok : disconnect_paths = true.  Proof. vm_compute. reflexivity. Qed.
Lemma ufs_link_drops_reference_ok : ufs_link_drops_reference = true.  Proof. vm_compute. reflexivity. Qed.
