(* Srv.version in the CURRENT source. *)
From Coq Require Import String List Bool.
From V9 Require Import Gen.Shape Shape.ShapeLib.

Lemma version_negotiation_ok : version_negotiation = true.        Proof. vm_compute. reflexivity. Qed.
Lemma version_cancels_whole_groups_ok : version_cancels_whole_groups = true.   Proof. vm_compute. reflexivity. Qed.
