(* The client's failure path in the CURRENT source. *)
From Coq Require Import String List Bool.
From V9 Require Import Gen.Shape Shape.ShapeLib.

Lemma client_failure_order_ok : client_failure_order = true.      Proof. vm_compute. reflexivity. Qed.
Lemma client_failure_paths_ok : client_failure_paths = true.        Proof. vm_compute. reflexivity. Qed.
Lemma reqfree_clears_slot_ok : reqfree_clears_slot = true.          Proof. vm_compute. reflexivity. Qed.
Lemma clnt_send_closes_on_write_error_ok : clnt_send_closes_on_write_error = true.  Proof. vm_compute. reflexivity. Qed.
