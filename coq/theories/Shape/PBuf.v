(* Structural parameters of Srv/Buf.v instantiated from the CURRENT source (Gen/Shape.v via Shape/ShapeLib.v).
   Every proof here evaluates generated data: it is re-checked on every run and breaks when the order of the
   corresponding statements in the Go code changes. *)
From Coq Require Import String List Bool.
From V9 Require Import Gen.Shape Shape.ShapeLib Srv.Buf Srv.BufProofs.
Import ListNotations.

(* ---- Srv/Buf.v: test-and-pack atomic?  recycling after the Write? ---- *)
Definition buf_cfg_of_source : Buf.cfg := Buf.mkCfg ShapeLib.pack_under_lock ShapeLib.recycle_after_write.

Lemma buf_cfg_is_fixed : buf_cfg_of_source = Buf.fixed_cfg.
Proof. vm_compute. reflexivity. Qed.

Theorem wire_bytes_belong_to_request_src : forall s r c,
  Buf.reach buf_cfg_of_source s -> In (r, c) (Buf.wire s) -> exists v, c = Some (r, v).
Proof. rewrite buf_cfg_is_fixed. exact wire_bytes_belong_to_request. Qed.

