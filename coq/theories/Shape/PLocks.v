(* A modelling assumption about the CURRENT source (Gen/LockFacts.v), re-checked on every run:
   the steps the life-cycle models treat as atomic (unlinking a request and starting the next of
   its tag group, chaining a flush, linking a call into the client's pending list, ...) are
   critical sections in the source - every access to a mutex-protected field holds its mutex. *)
From Coq Require Import List.
From V9 Require Import Gen.LockFacts Race.Facts.
Import ListNotations.

Lemma sites_comply_ok : violations = [].  Proof. vm_compute. reflexivity. Qed.
