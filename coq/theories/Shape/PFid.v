(* Structural parameters of Srv/FidVis.v and Srv/FidRef.v instantiated from the CURRENT source. *)
From Coq Require Import String List Bool ZArith.
From V9 Require Import Gen.Shape Shape.ShapeLib Srv.FidVis Srv.FidRef Srv.FidRefProofs.
Import ListNotations.

(* ---- Srv/FidVis.v: does FidGet refuse fids that are still being created? ---- *)
Definition fidvis_guard_of_source : bool := fidget_guard.

Lemma fidvis_guard_is_on : fidvis_guard_of_source = true.
Proof. vm_compute. reflexivity. Qed.

Theorem handler_sees_only_set_up_fids_src : forall ls t' seen,
  FidVis.run fidvis_guard_of_source [] ls = Some (t', seen) -> Forall (fun e => e_setup e = true) seen.
Proof. rewrite fidvis_guard_is_on. exact handler_sees_only_set_up_fids_from_start. Qed.

(* ---- Srv/FidRef.v: linked / dead / closed bookkeeping as in the fixed reference counting? ---- *)
Definition fidref_fixed_of_source : bool := fidget_guard && fid_lifetime.

Lemma fidref_is_fixed : fidref_fixed_of_source = true.
Proof. vm_compute. reflexivity. Qed.

Theorem quiescent_all_destroyed_once_src : forall s,
  FidRef.reach fidref_fixed_of_source s -> FidRef.quiescent s ->
  (forall o, In o (FidRef.objs s) -> FidRef.o_destroyed o = 1) /\ FidRef.table s = [].
Proof. rewrite fidref_is_fixed. exact quiescent_all_destroyed_once. Qed.

Theorem destroyed_at_most_once_src : forall s i o,
  FidRef.reach fidref_fixed_of_source s -> nth_error (FidRef.objs s) i = Some o -> FidRef.o_destroyed o + FidRef.o_pend o <= 1.
Proof. rewrite fidref_is_fixed. exact destroyed_or_pending_at_most_once. Qed.

