(* A modelling assumption about the shape of the CURRENT source (Gen/Shape.v), re-checked on every run. *)
From Coq Require Import String List Bool.
From V9 Require Import Gen.Shape Shape.ShapeLib.

Lemma ufs_reports_errno_ok : ufs_reports_errno = true.  Proof. vm_compute. reflexivity. Qed.
