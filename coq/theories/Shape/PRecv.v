(* A modelling assumption about the shape of the CURRENT source (Gen/Shape.v), re-checked on every run. *)
From Coq Require Import String List Bool.
From V9 Require Import Gen.Shape Shape.ShapeLib.

Lemma recv_rereads_dialect_ok : recv_rereads_dialect = true.  Proof. vm_compute. reflexivity. Qed.
Lemma size_checked_against_msize_ok : size_checked_against_msize = true.  Proof. vm_compute. reflexivity. Qed.
