(* A modelling assumption about the shape of the CURRENT source (Gen/Shape.v), re-checked on every run. *)
From Coq Require Import String List Bool.
From V9 Require Import Gen.Shape Shape.ShapeLib.

Lemma logger_shape_ok : logger_shape = true.  Proof. vm_compute. reflexivity. Qed.
