(* Predicates over the event sequences of the library's functions (Gen/Shape.v, regenerated from
   the current source on every run), and the structural parameters of the models stated with them.
   Definitions only. *)
From Coq Require Import String List Bool PeanoNat Ascii.
From V9 Require Import Gen.Shape.
Import ListNotations.
Local Open Scope string_scope.

Fixpoint shape_in (l : list (string * list string)) (f : string) : list string :=
  match l with
  | [] => []
  | (n, evs) :: r => if String.eqb n f then evs else shape_in r f
  end.
Definition shape_of (f : string) : list string := shape_in shapes f.

Definition has (e : string) (l : list string) : bool := existsb (String.eqb e) l.

Fixpoint idx (e : string) (l : list string) : option nat :=
  match l with
  | [] => None
  | x :: r => if String.eqb x e then Some O else match idx e r with Some i => Some (S i) | None => None end
  end.

(* the first [a] comes before the first [b] (both occur) *)
Definition before (a b : string) (l : list string) : bool :=
  match idx a l, idx b l with Some i, Some j => Nat.ltb i j | _, _ => false end.

(* no [x] among the events that precede the first [b] *)
Fixpoint none_before (x b : string) (l : list string) : bool :=
  match l with
  | [] => true
  | e :: r => if String.eqb e b then true else negb (String.eqb e x) && none_before x b r
  end.

(* after the first [a], [b] occurs *)
Fixpoint after_first (a : string) (l : list string) : list string :=
  match l with [] => [] | e :: r => if String.eqb e a then r else after_first a r end.
Definition then_ (a b : string) (l : list string) : bool := has b (after_first a l).

Definition is_prefix (p s : string) : bool := String.prefix p s.
Definition is_suffix (q s : string) : bool :=
  let n := String.length s in let m := String.length q in
  Nat.leb m n && String.eqb (String.substring (n - m) m s) q.

Definition funcs_with_prefix (p : string) : list string :=
  map fst (filter (fun x => is_prefix p (fst x)) shapes).

(* ---------- the structural parameters ---------- *)

(* srv_conn.go send: the reply buffer goes back to the pool after the Write of its bytes *)
Definition recycle_after_write : bool := before "call:Write" "send:rchan" (shape_of "Conn.send").

(* srv_respond.go: every RespondR* packs through packReply (the PackR* call sits in the closure handed to it),
   and packReply tests reqResponded and packs in one critical section of the request's lock *)
Definition respond_fns : list string := "SrvReq.RespondError" :: funcs_with_prefix "SrvReq.RespondR".
Definition packs_in_closure (f : string) : bool :=
  has "call:packReply" (shape_of f)
  && forallb (fun e => if is_prefix "call:Pack" e || is_prefix "call:packRerror" e then is_suffix "@f" e else true) (shape_of f).
Definition pack_under_lock : bool :=
  Nat.leb 10 (length respond_fns) && forallb packs_in_closure respond_fns
  && (let p := shape_of "SrvReq.packReply" in
      before "lock:SrvReq" "use:SrvReq.status" p && before "use:SrvReq.status" "call:pack" p && has "defer unlock:SrvReq" p).

(* srv_srv.go Respond: mark, post-process, queue the reply, THEN unlink and start the next of the tag group *)
Definition respond_order : bool :=
  let r := shape_of "SrvReq.Respond" in
  before "lock:SrvReq" "set:SrvReq.status" r && before "set:SrvReq.status" "call:PostProcess" r
  && before "call:PostProcess" "send:reqout" r && before "send:reqout" "lock:Conn" r
  && before "lock:Conn" "go:process" r && before "call:delete" "go:process" r.

(* srv_conn.go recv: a recycled reply buffer's type is reset before the request is handed on *)
Definition recv_resets_reply_type : bool :=
  let r := shape_of "Conn.recv" in
  before "recv:rchan" "set:Fcall.Type" r && before "set:Fcall.Type" "go:process" r.

(* srv_srv.go FidGet: looks at creating and dead under the fid's lock before it counts a reference *)
Definition fidget_guard : bool :=
  let g := shape_of "Conn.FidGet" in
  before "lock:SrvFid" "use:SrvFid.creating" g && before "lock:SrvFid" "use:SrvFid.dead" g
  && before "use:SrvFid.creating" "set:SrvFid.refcount" g && before "use:SrvFid.dead" "set:SrvFid.refcount" g.

(* FidNew marks the fid as being created; retain consults conn.closed under the connection lock and links;
   unlink clears linked before its DecRef; DecRef marks dead at 0, then deletes, then FidDestroy;
   Conn.close sets closed and unlinks *)
Definition fid_lifetime : bool :=
  has "set:SrvFid.creating" (shape_of "Conn.FidNew")
  && (let r := shape_of "SrvFid.retain" in
      before "lock:Conn" "use:Conn.closed" r && before "use:Conn.closed" "set:SrvFid.linked" r
      && has "set:SrvFid.creating" r && then_ "set:SrvFid.creating" "unlock:Conn" r)
  && (let u := shape_of "SrvFid.unlink" in
      before "lock:SrvFid" "use:SrvFid.linked" u && before "set:SrvFid.linked" "unlock:SrvFid" u && before "unlock:SrvFid" "call:DecRef" u)
  && (let d := shape_of "SrvFid.DecRef" in
      before "lock:SrvFid" "set:SrvFid.refcount" d && before "set:SrvFid.refcount" "set:SrvFid.dead" d
      && before "set:SrvFid.dead" "unlock:SrvFid" d && before "unlock:SrvFid" "call:delete" d && before "call:delete" "call:FidDestroy" d)
  && (let c := shape_of "Conn.close" in
      before "close:done" "call:ConnClosed" c && before "lock:Conn" "set:Conn.closed" c
      && before "set:Conn.closed" "unlock:Conn" c && before "unlock:Conn" "call:unlink" c)
  && has "call:unlink" (shape_of "Srv.clunkPost") && has "call:unlink" (shape_of "Srv.removePost")
  && has "call:retain" (shape_of "Srv.attachPost") && has "call:retain" (shape_of "Srv.walkPost") && has "call:retain" (shape_of "Srv.authPost").

(* srv_fcall.go version: msize can only shrink (compared with the connection's), the dialect comes from the
   server's capability, not from the previous negotiation *)
Definition version_negotiation : bool :=
  let v := shape_of "Srv.version" in
  before "use:Conn.Msize" "set:Conn.Msize" v && negb (has "use:Srv.Msize" v)
  (* the refusal of a too small msize comes first and tests the REQUESTED msize: a refused Tversion changes nothing *)
  && before "use:Fcall.Msize" "call:RespondError" v && before "call:RespondError" "return" v
  && before "return" "set:Conn.Msize" v && none_before "use:Conn.Msize" "call:RespondError" v
  && before "use:Srv.Dotu" "set:Conn.Dotu" v && none_before "use:Conn.Dotu" "set:Conn.Dotu" v.

(* srv_fcall.go version: under the connection lock, every request of the request table AND every older request
   queued behind it under the same tag (the .next chain) is marked cancelled before the Rversion is answered:
   the premise of rule LV1 of Srv/Conc.v, which marks every outstanding request *)
Definition version_cancels_whole_groups : bool :=
  let v := shape_of "Srv.version" in
  before "lock:Conn" "use:Conn.reqs" v && before "use:Conn.reqs" "use:SrvReq.next" v
  && before "use:SrvReq.next" "set:SrvReq.status" v && then_ "set:SrvReq.status" "unlock:Conn" v
  && then_ "unlock:Conn" "call:RespondRversion" v && none_before "call:RespondRversion" "set:SrvReq.status" v.

(* srv_srv.go process: a request cancelled before it started is answered and NOT executed *)
Definition cancelled_not_executed : bool :=
  let p := shape_of "SrvReq.process" in
  before "call:Respond" "return" p && before "return" "call:Process" p.

(* clnt_clnt.go: Rpcnb tests clnt.err and links under the client lock; send tests clnt.err and copies the
   packet under the client lock; recv publishes the error before it closes done *)
Definition client_failure_order : bool :=
  (let r := shape_of "Clnt.Rpcnb" in
   before "lock:Clnt" "use:Clnt.err" r && before "use:Clnt.err" "set:Clnt.reqlast" r && then_ "set:Clnt.reqlast" "unlock:Clnt" r
   && before "set:Clnt.reqlast" "send:reqout" r)
  && (let s := shape_of "Clnt.send" in
      before "recv:reqout" "lock:Clnt" s && before "lock:Clnt" "use:Clnt.err" s && before "use:Clnt.err" "call:copy" s
      && before "call:copy" "call:Write" s && then_ "call:copy" "unlock:Clnt" s)
  && (let v := shape_of "Clnt.recv" in
      before "set:Clnt.err" "close:done" v && then_ "close:done" "send:Done" v)
  && (let c := shape_of "Clnt.Rpc" in
      before "call:Rpcnb" "recv:Done" c && then_ "recv:Done" "call:ReqFree" c).


(* [a] is the event immediately before the first [b] *)
Fixpoint imm_before (a b : string) (l : list string) : bool :=
  match l with
  | x :: ((y :: _) as r) => if String.eqb y b then String.eqb x a else imm_before a b r
  | _ => false
  end.

Definition count_ev (e : string) (l : list string) : nat := length (filter (String.eqb e) l).
Fixpoint count_before (x b : string) (l : list string) : nat :=
  match l with
  | [] => O
  | e :: r => if String.eqb e b then O else (if String.eqb e x then 1 else 0) + count_before x b r
  end.

(* ---------- what the models assume about the shape of the handlers ---------- *)

(* srv_fcall.go (Srv/Seq.v): every refusal of walk / open / create comes before the handler changes the fid or the
   table (FidNew, Omode); walkPost retains the new fid only after comparing the two fid numbers *)
Definition handlers_check_before_they_change : bool :=
  (let w := shape_of "Srv.walk" in
   before "use:SrvFid.opened" "call:FidNew" w && before "use:SrvFid.Type" "call:FidNew" w && before "call:FidNew" "call:Walk" w)
  && (let o := shape_of "Srv.open" in
      before "use:SrvFid.opened" "set:SrvFid.Omode" o && negb (then_ "set:SrvFid.Omode" "call:RespondError" o) && then_ "set:SrvFid.Omode" "call:Open" o)
  && (let c := shape_of "Srv.create" in
      before "use:SrvFid.opened" "set:SrvFid.Omode" c && negb (then_ "set:SrvFid.Omode" "call:RespondError" c) && then_ "set:SrvFid.Omode" "call:Create" c)
  && (let p := shape_of "Srv.walkPost" in
      Nat.leb 2 (count_before "use:SrvFid.fid" "call:retain" p)).

(* srv_fcall.go flush: the Tflush is chained to its target inside the connection's critical section *)
Definition flush_chains_under_conn_lock : bool :=
  let f := shape_of "Srv.flush" in
  before "lock:Conn" "set:SrvReq.flushreq" f && before "set:SrvReq.flushreq" "unlock:Conn" f && before "lock:Conn" "set:SrvReq.flushnext" f
  (* the Rflush is packed before the Tflush is chained: a chained flush is answered later by a bare Respond *)
  && before "call:PackRflush" "lock:Conn" f.

(* Respond hands the reply over with a select on reqout / done (never a bare send); send keeps serving the queue
   after a write error; DecRef and Conn.close call the implementation after they released their mutex *)
Definition disconnect_paths : bool :=
  (let r := shape_of "SrvReq.Respond" in imm_before "send:reqout" "recv:done" r)
  && (let s := shape_of "Conn.send" in negb (then_ "call:Close" "return" s))
  && (let d := shape_of "SrvFid.DecRef" in negb (has "defer unlock:Conn" d) && before "unlock:Conn" "call:FidDestroy" d)
  && (let c := shape_of "Conn.close" in negb (has "defer unlock:Srv" c) && before "unlock:Srv" "call:ConnClosed" c).

(* srv_conn.go recv (Recv/Recv.v: parameters re-read after a synchronous Tversion): the dialect handed to Unpack
   is read from the connection at every message *)
Definition recv_rereads_dialect : bool :=
  imm_before "use:Conn.Dotu" "call:Unpack" (shape_of "Conn.recv") && imm_before "use:Clnt.Dotu" "call:Unpack" (shape_of "Clnt.recv").

(* clnt_clnt.go: every failure path publishes the error before done is closed; the done branch of the hand-over
   does not report an error of its own *)
Definition client_failure_paths : bool :=
  Nat.eqb (count_before "set:Clnt.err" "close:done" (shape_of "Clnt.recv")) 4
  && negb (has "use:Clnt.err" (after_first "recv:done" (shape_of "Clnt.Rpcnb"))).

(* ufs.go, one fact per property *)
Definition ufs_reads_positionally : bool :=                       (* C14: ReadAt / WriteAt, no shared file position *)
  (let r := shape_of "Ufs.Read" in has "call:ReadAt" r && negb (has "call:Seek" r))
  && (let w := shape_of "Ufs.Write" in has "call:WriteAt" w && negb (has "call:Seek" w))
  (* the end of a file is where ReadAt says it is: no length taken from a (path-based, possibly stale) stat *)
  && negb (has "call:Size" (shape_of "Ufs.Read")).
Definition ufs_dir_records : bool :=                              (* C15: records in the connection's dialect; both tables reset together *)
  let r := shape_of "Ufs.Read" in
  imm_before "use:Conn.Dotu" "call:PackDir" r && imm_before "set:ufsFid.dirents" "set:ufsFid.direntends" r.
Definition ufs_looks_at_the_tree : bool :=                        (* C16: Lstat per walked element; Stat refreshes before it answers *)
  (let w := shape_of "Ufs.Walk" in has "call:Lstat" w && negb (has "call:Stat" w) && negb (has "call:stat" w))
  && (let t := shape_of "Ufs.Stat" in before "call:stat" "use:ufsFid.st" t)
  (* the refresh looks the PATH up (Lstat), never the open descriptor: a symbolic link stays a link *)
  && (let s := shape_of "ufsFid.stat" in has "call:Lstat" s && negb (has "call:Stat" s))
  (* the directory bit is computed before (outside) the dialect-dependent part of the mode *)
  && imm_before "call:uint32" "call:IsDir" (shape_of "dir2Npmode").
Definition ufs_reports_errno : bool :=                            (* C17 *)
  has "call:As" (shape_of "toError")
  (* wstat works by path (truncate(2), chmod(2), utimes(2)): what the fid happens to be open for does not matter *)
  && negb (has "use:ufsFid.file" (shape_of "Ufs.Wstat"))
  (* a link target is judged component by component (a name may contain dots) *)
  && (let c := shape_of "Ufs.Create" in before "call:Split" "call:Symlink" c && negb (has "call:Contains" c)).
Definition ufs_attach_anchors_at_root : bool :=                   (* C18: Join(root, Join("/", aname)) *)
  Nat.eqb (count_ev "call:Join" (shape_of "Ufs.Attach")) 2 && negb (has "call:Clean" (shape_of "Ufs.Attach"))
  (* names: one test (any '/' anywhere) shared by Walk and Create; link targets: absolute refused, then every
     component looked at, before the link is made (Ufs/Path.v symlink_ok) *)
  && has "call:Contains" (shape_of "validName")
  && has "call:validName" (shape_of "Ufs.Walk") && before "call:validName" "call:Symlink" (shape_of "Ufs.Create")
  && (let c := shape_of "Ufs.Create" in before "call:IsAbs" "call:Split" c && before "call:Split" "call:Symlink" c).


(* every copy in a receive loop goes into a buffer allocated just before (never inside the buffer that holds
   delivered messages), and the loops only move forward in their buffer: the shape assumed by Recv/Views.v *)
Fixpoint every_copy_follows_make (l : list string) : bool :=
  match l with
  | x :: ((y :: _) as r) => (if String.eqb y "call:copy" then String.eqb x "call:make" else true) && every_copy_follows_make r
  | _ => true
  end.
(* the receive buffer variable [buf] only ever (a) is allocated once before the loop,
   (b) advances over itself ([buf = buf[n:]]), or (c) is replaced by a buffer [b] that was
   made in the statement before the copy into it ([b := make; copy(b, ..); buf = b]); nothing
   else assigns it (no rewinding to a retained buffer, no reuse of an older allocation) *)
Definition is_local (e : string) : bool := prefix "local:" e.
Fixpoint buf_discipline (prev2 prev1 : string) (seen_local : bool) (l : list string) : bool :=
  match l with
  | [] => true
  | e :: r =>
    (if String.eqb e "call:copy" then String.eqb prev1 "local:b=make" && String.eqb prev2 "call:make"
     else if String.eqb e "local:buf=b" then String.eqb prev1 "call:copy"
     else if String.eqb e "local:buf=slice:buf" then true
     else if String.eqb e "local:b=make" then String.eqb prev1 "call:make"
     else if String.eqb e "local:buf=make" then negb seen_local
     else negb (is_local e))
    && buf_discipline prev1 e (seen_local || is_local e) r
  end.
Definition recv_loop_ok (r : list string) : bool :=
  buf_discipline "" "" false r && Nat.leb 2 (count_ev "call:copy" r) && Nat.eqb (count_ev "local:buf=slice:buf" r) 1.
Definition recv_never_compacts : bool :=
  recv_loop_ok (shape_of "Conn.recv") && recv_loop_ok (shape_of "Clnt.recv").

(* clnt_clnt.go ReqFree: a recycled request slot carries nothing of its previous call (links, reply, error) when it
   goes back to the cache: Rpcnb appends it to the pending list without writing its next pointer *)
Definition reqfree_clears_slot : bool :=
  let f := shape_of "Clnt.ReqFree" in
  before "set:Req.next" "send:reqchan" f && before "set:Req.prev" "send:reqchan" f
  && before "set:Req.Rc" "send:reqchan" f && before "set:Req.Err" "send:reqchan" f && before "set:Req.Tc" "send:reqchan" f.

(* clnt_clnt.go send: a failed Write closes the transport (that is what wakes the receive goroutine, which fails the calls) *)
Definition clnt_send_closes_on_write_error : bool :=
  let s := shape_of "Clnt.send" in then_ "call:Write" "call:Close" s && negb (then_ "call:Close" "call:Write" s).

(* ufs.go Create, hard links: the reference FidGet took on the link target is dropped right after the link call,
   whatever its outcome *)
Definition ufs_link_drops_reference : bool :=
  let c := shape_of "Ufs.Create" in before "call:FidGet" "call:Link" c && imm_before "call:Link" "call:DecRef" c.

(* both receive loops compare the announced size of a frame with the negotiated msize (the next thing they do after
   reading the size field), not with what happens to be left of the buffer: Recv/Recv.v check_msize *)
Definition next_after (a : string) (l : list string) : string :=
  match after_first a l with x :: _ => x | [] => "" end.
Definition size_checked_against_msize : bool :=
  String.eqb (next_after "call:Gint32" (shape_of "Conn.recv")) "use:Conn.Msize"
  && String.eqb (next_after "call:Gint32" (shape_of "Clnt.recv")) "use:Clnt.Msize".

(* log.go: Filter makes a reply channel of its own for every call and reads its answer from it (the answer is tied to
   the caller); the ring is owned by the logger goroutine alone (idx and items are touched by doLog only) *)
Definition logger_shape : bool :=
  (let f := shape_of "Logger.Filter" in
   before "call:make" "send:fltchan" f && imm_before "send:fltchan" "recv:c" f && negb (has "use:Logger.items" f))
  && negb (has "use:Logger.items" (shape_of "Logger.Log")) && negb (has "set:Logger.idx" (shape_of "Logger.Log"))
  && (let d := shape_of "Logger.doLog" in before "recv:logchan" "set:Logger.idx" d && has "recv:fltchan" d).
