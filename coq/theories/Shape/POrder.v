(* Order of the steps of Respond, recv and process in the CURRENT source. *)
From Coq Require Import String List Bool.
From V9 Require Import Gen.Shape Shape.ShapeLib.

Lemma respond_order_ok : respond_order = true.                    Proof. vm_compute. reflexivity. Qed.
Lemma recv_resets_reply_type_ok : recv_resets_reply_type = true.  Proof. vm_compute. reflexivity. Qed.
Lemma cancelled_not_executed_ok : cancelled_not_executed = true.  Proof. vm_compute. reflexivity. Qed.
