(* A modelling assumption about the shape of the CURRENT source (Gen/Shape.v), re-checked on every run. *)
From Coq Require Import String List Bool.
From V9 Require Import Gen.Shape Shape.ShapeLib.

Lemma handlers_check_before_they_change_ok : handlers_check_before_they_change = true.  Proof. vm_compute. reflexivity. Qed.
Lemma fidget_guard_ok : fidget_guard = true.  Proof. vm_compute. reflexivity. Qed.
Lemma fid_lifetime_ok : fid_lifetime = true.  Proof. vm_compute. reflexivity. Qed.
