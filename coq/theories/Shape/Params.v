(* The structural parameters of the parameterised models, instantiated from the CURRENT source
   (Gen/Shape.v via Shape/ShapeLib.v), and the model theorems restated for those instances.
   Every proof here evaluates generated data: it is re-checked on every run, and it breaks when
   the order of the corresponding statements in the Go code changes. *)
From Coq Require Import String List Bool ZArith.
From V9 Require Import Gen.Shape Shape.ShapeLib Srv.Buf Srv.BufProofs Srv.FidVis Srv.FidRef Srv.FidRefProofs.
Import ListNotations.

(* ---- Srv/Buf.v: test-and-pack atomic?  recycling after the Write? ---- *)
Definition buf_cfg_of_source : Buf.cfg := Buf.mkCfg ShapeLib.pack_under_lock ShapeLib.recycle_after_write.

Lemma buf_cfg_is_fixed : buf_cfg_of_source = Buf.fixed_cfg.
Proof. vm_compute. reflexivity. Qed.

Theorem wire_bytes_belong_to_request_src : forall s r c,
  Buf.reach buf_cfg_of_source s -> In (r, c) (Buf.wire s) -> exists v, c = Some (r, v).
Proof. rewrite buf_cfg_is_fixed. exact wire_bytes_belong_to_request. Qed.

(* ---- Srv/FidVis.v: does FidGet refuse fids that are still being created? ---- *)
Definition fidvis_guard_of_source : bool := fidget_guard.

Lemma fidvis_guard_is_on : fidvis_guard_of_source = true.
Proof. vm_compute. reflexivity. Qed.

Theorem handler_sees_only_set_up_fids_src : forall ls t' seen,
  FidVis.run fidvis_guard_of_source [] ls = Some (t', seen) -> Forall (fun e => e_setup e = true) seen.
Proof. rewrite fidvis_guard_is_on. exact handler_sees_only_set_up_fids_from_start. Qed.

(* ---- Srv/FidRef.v: linked / dead / closed bookkeeping as in the fixed reference counting? ---- *)
Definition fidref_fixed_of_source : bool := fidget_guard && fid_lifetime.

Lemma fidref_is_fixed : fidref_fixed_of_source = true.
Proof. vm_compute. reflexivity. Qed.

Theorem quiescent_all_destroyed_once_src : forall s,
  FidRef.reach fidref_fixed_of_source s -> FidRef.quiescent s ->
  (forall o, In o (FidRef.objs s) -> FidRef.o_destroyed o = 1) /\ FidRef.table s = [].
Proof. rewrite fidref_is_fixed. exact quiescent_all_destroyed_once. Qed.

Theorem destroyed_at_most_once_src : forall s i o,
  FidRef.reach fidref_fixed_of_source s -> nth_error (FidRef.objs s) i = Some o -> FidRef.o_destroyed o + FidRef.o_pend o <= 1.
Proof. rewrite fidref_is_fixed. exact destroyed_or_pending_at_most_once. Qed.

(* ---- order of the steps of Respond, recv, process, version, and of the client's failure path ---- *)
Lemma respond_order_ok : respond_order = true.                    Proof. vm_compute. reflexivity. Qed.
Lemma recv_resets_reply_type_ok : recv_resets_reply_type = true.  Proof. vm_compute. reflexivity. Qed.
Lemma cancelled_not_executed_ok : cancelled_not_executed = true.  Proof. vm_compute. reflexivity. Qed.
Lemma version_negotiation_ok : version_negotiation = true.        Proof. vm_compute. reflexivity. Qed.
Lemma client_failure_order_ok : client_failure_order = true.      Proof. vm_compute. reflexivity. Qed.
