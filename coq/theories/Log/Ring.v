(* Model of log.go: the ring buffer kept by Logger.doLog, and the LTS of
   producers / Filter callers / the logger goroutine around it.
   No proofs in this file (they are in RingProofs.v). *)
From Coq Require Import NArith List Bool PeanoNat.
From V9 Require Import Lib.GoSem Gen.Consts.
Import ListNotations.

(* A logged entry. [e_id] stands for the pointer identity of the *Log value
   (the harness gives every entry a distinct id); owner and type are the fields
   Filter compares. *)
Record entry := mkEntry { e_id : N; e_owner : N; e_type : N }.

Record ring := mkRing { items : list (option entry); idx : nat }.

Definition ring_init (cap : nat) : ring := mkRing (repeat None cap) 0.

(* case it := <-l.logchan *)
Definition log_step (r : ring) (e : entry) : ring :=
  let i := if length (items r) <=? idx r then 0 else idx r in
  mkRing (upd (items r) i (Some e)) (S i).

(* (flt.owner == nil || it.Owner == flt.owner) && (flt.itype == 0 || it.Type == flt.itype) *)
Definition matches (ow : option N) (ty : N) (e : entry) : bool :=
  (match ow with None => true | Some o => N.eqb (e_owner e) o end)
  && (N.eqb ty 0 || N.eqb (e_type e) ty).

Definition matches_opt (ow : option N) (ty : N) (it : option entry) : bool :=
  match it with None => false | Some e => matches ow ty e end.

(* counting pass: for _, it := range l.items *)
Definition count_matching (r : ring) (ow : option N) (ty : N) : nat :=
  length (filter (matches_opt ow ty) (items r)).

(* collection pass:
     for i, m := l.idx, 0; m < len(its); i++ {
        if i >= len(l.items) { i = 0 }
        it := l.items[i]
        if it != nil && match { its[m] = it; m++ } }
   by explicit fuel; index out of range is a Go panic. *)
Fixpoint collect (fuel : nat) (its : list (option entry)) (ow : option N) (ty : N)
         (i m n : nat) : res (list entry) :=
  if n <=? m then Ok []
  else match fuel with
       | O => OutOfFuel
       | S f =>
         let i' := if length its <=? i then 0 else i in
         match nth_error its i' with
         | None => Panic
         | Some it =>
           if matches_opt ow ty it then
             match it with
             | Some e => do rest <- collect f its ow ty (S i') (S m) n; Ok (e :: rest)
             | None => Panic (* unreachable: matches_opt None = false *)
             end
           else collect f its ow ty (S i') m n
         end
       end.

(* case flt := <-l.fltchan.  Fuel: one full turn of the ring always suffices
   (proved: filter_fuel_suffices). *)
Definition ring_filter (r : ring) (ow : option N) (ty : N) : res (list entry) :=
  collect (length (items r)) (items r) ow ty (idx r) 0 (count_matching r ow ty).

(* ---- sequential operations, as the harness issues them ---- *)
Inductive lop := LLog (e : entry) | LFilter (ow : option N) (ty : N).

(* run a sequence; every Filter result is recorded *)
Fixpoint run_ops (r : ring) (ops : list lop) : list (res (list entry)) :=
  match ops with
  | [] => []
  | LLog e :: t => run_ops (log_step r e) t
  | LFilter ow ty :: t => ring_filter r ow ty :: run_ops r t
  end.

(* ---- reference window (the specification) ---- *)
Definition lastn {A} (n : nat) (l : list A) : list A := skipn (length l - n) l.

Definition window (cap : nat) (logged : list entry) : list entry :=
  lastn (Nat.min (length logged) cap) logged.

Definition spec_filter (cap : nat) (logged : list entry) (ow : option N) (ty : N) : list entry :=
  filter (matches ow ty) (window cap logged).

(* ---- the concurrent system: producers, bounded channel, logger ---- *)
Record lsys := mkLsys {
  l_ring : ring;
  l_chan : list entry;              (* logchan, FIFO, capacity c_cap_logchan *)
  l_todo : list (list entry);       (* what each producer still has to log *)
  l_processed : list entry;         (* entries the logger has stored, in order *)
  l_results : list (list entry)     (* results returned to Filter callers, newest first *)
}.

Inductive llabel :=
| LbSend (p : nat)                  (* producer p: l.logchan <- head of its todo *)
| LbRecv                            (* logger: case it := <-l.logchan *)
| LbFilter (ow : option N) (ty : N) (* logger: case flt := <-l.fltchan, result sent back *).

Definition lsys_init (cap : nat) (todo : list (list entry)) : lsys :=
  mkLsys (ring_init cap) [] todo [] [].

Definition lstep (s : lsys) (lb : llabel) : option lsys :=
  match lb with
  | LbSend p =>
    match nth_error (l_todo s) p with
    | Some (e :: rest) =>
      if N.ltb (N.of_nat (length (l_chan s))) c_cap_logchan
      then Some (mkLsys (l_ring s) (l_chan s ++ [e]) (upd (l_todo s) p rest)
                        (l_processed s) (l_results s))
      else None
    | _ => None
    end
  | LbRecv =>
    match l_chan s with
    | e :: rest => Some (mkLsys (log_step (l_ring s) e) rest (l_todo s)
                                (l_processed s ++ [e]) (l_results s))
    | [] => None
    end
  | LbFilter ow ty =>
    match ring_filter (l_ring s) ow ty with
    | Ok r => Some (mkLsys (l_ring s) (l_chan s) (l_todo s) (l_processed s) (r :: l_results s))
    | _ => None
    end
  end.

Fixpoint lrun (s : lsys) (lbs : list llabel) : option lsys :=
  match lbs with
  | [] => Some s
  | lb :: t => match lstep s lb with Some s' => lrun s' t | None => None end
  end.

(* ---- the property as a decidable predicate on observed behaviour ---- *)
(* [is_subseq a b]: a is a subsequence of b (ids compared) *)
Fixpoint is_subseq (a b : list N) : bool :=
  match a, b with
  | [], _ => true
  | _ :: _, [] => false
  | x :: a', y :: b' => if N.eqb x y then is_subseq a' b' else is_subseq a b'
  end.

Fixpoint nodup_ids (l : list N) : bool :=
  match l with
  | [] => true
  | x :: t => negb (existsb (N.eqb x) t) && nodup_ids t
  end.

(* no matching entry of [logged] lying between two returned ones is skipped:
   the result, as ids, is exactly the matching sub-list of logged between its
   first and last element. *)
Fixpoint drop_until (x : N) (l : list entry) : list entry :=
  match l with
  | [] => []
  | e :: t => if N.eqb (e_id e) x then l else drop_until x t
  end.

Fixpoint take_through (x : N) (l : list entry) : list entry :=
  match l with
  | [] => []
  | e :: t => if N.eqb (e_id e) x then [e] else e :: take_through x t
  end.

Definition list_eqb (a b : list N) : bool :=
  (length a =? length b) && forallb (fun p => N.eqb (fst p) (snd p)) (combine a b).

Definition contiguous (logged : list entry) (ow : option N) (ty : N) (result : list entry) : bool :=
  match result with
  | [] => true
  | first :: _ =>
    let lastid := e_id (last result first) in
    let span := take_through lastid (drop_until (e_id first) logged) in
    list_eqb (map e_id (filter (matches ow ty) span)) (map e_id result)
  end.

(* Sequential oracle for one Filter result, given everything logged so far
   (all of it processed): the statement's clauses. *)
Definition filter_result_ok (cap : nat) (logged : list entry) (ow : option N) (ty : N)
           (result : list entry) : bool :=
  forallb (matches ow ty) result
  && is_subseq (map e_id result) (map e_id logged)
  && nodup_ids (map e_id result)
  && contiguous logged ow ty result
  && (length result <=? cap)
  && list_eqb (map e_id result) (map e_id (spec_filter cap logged ow ty)).

(* Concurrent oracle: the harness cannot see the order in which the logger
   processed entries from different producers; per producer the clauses are
   checked against that producer's own sequence. [psel p] selects producer p's
   entries (the harness encodes the producer in e_owner). *)
Definition conc_result_ok (cap : nat) (producers : list (list entry)) (ow : option N) (ty : N)
           (result : list entry) : bool :=
  forallb (matches ow ty) result
  && nodup_ids (map e_id result)
  && (length result <=? cap)
  && forallb (fun plog =>
       let mine := filter (fun e => existsb (fun e' => N.eqb (e_id e) (e_id e')) plog) result in
       is_subseq (map e_id mine) (map e_id plog)
       && contiguous plog ow ty mine) producers
  && forallb (fun e => existsb (fun plog => existsb (fun e' => N.eqb (e_id e) (e_id e')) plog) producers) result.

(* final convergence check for the concurrent harness: all producers stopped,
   channel drained; result of Filter(nil,0). *)
Fixpoint is_suffix_ids (a b : list N) : bool :=
  list_eqb a b || match b with [] => false | _ :: t => is_suffix_ids a t end.

Definition conc_final_ok (cap : nat) (producers : list (list entry)) (result : list entry) : bool :=
  conc_result_ok cap producers None 0%N result
  && (length result =? Nat.min (length (concat producers)) cap)
  && forallb (fun plog =>
       let mine := filter (fun e => existsb (fun e' => N.eqb (e_id e) (e_id e')) plog) result in
       is_suffix_ids (map e_id mine) (map e_id plog)) producers.
