(* Proofs about the ring logger model (Log/Ring.v). *)
From Coq Require Import NArith List Bool PeanoNat Lia.
From V9 Require Import Lib.GoSem Gen.Consts Log.Ring.
Import ListNotations.

(* ---------- generic list lemmas ---------- *)
Lemma upd_length {A} (l : list A) i x : length (upd l i x) = length l.
Proof. revert i; induction l as [|h t IH]; intros [|i]; simpl; auto. Qed.

Lemma upd_firstn_skipn {A} (l : list A) i x :
  i < length l -> upd l i x = firstn i l ++ x :: skipn (S i) l.
Proof.
  revert i; induction l as [|h t IH]; intros [|i] H; simpl in *; try lia; auto.
  f_equal. apply IH. lia.
Qed.

Lemma nth_error_split_at {A} (l : list A) i x :
  nth_error l i = Some x -> l = firstn i l ++ x :: skipn (S i) l.
Proof.
  revert i; induction l as [|h t IH]; intros [|i] H; simpl in *; try discriminate.
  - inversion H; auto.
  - f_equal. apply IH; auto.
Qed.

(* rotation of a list: positions i, i+1, ..., len-1, 0, ..., i-1 *)
Definition rot {A} (i : nat) (l : list A) : list A := skipn i l ++ firstn i l.

Lemma rot_length {A} i (l : list A) : length (rot i l) = length l.
Proof. unfold rot. rewrite app_length, skipn_length, firstn_length. lia. Qed.

Lemma rot_full {A} (l : list A) : rot (length l) l = rot 0 l.
Proof. unfold rot. rewrite skipn_all, firstn_all. simpl. rewrite app_nil_r. auto. Qed.

Lemma rot_cons {A} i (l : list A) x :
  nth_error l i = Some x ->
  rot i l = x :: (skipn (S i) l ++ firstn i l) /\
  rot (S i) l = (skipn (S i) l ++ firstn i l) ++ [x].
Proof.
  intros H. pose proof (nth_error_split_at l i x H) as Hs.
  assert (Hi : i < length l) by (apply nth_error_Some; congruence).
  unfold rot. split.
  - rewrite Hs at 1. rewrite skipn_app, firstn_length, Nat.min_l by lia.
    rewrite Nat.sub_diag. simpl.
    rewrite skipn_all2 by (rewrite firstn_length; lia). auto.
  - rewrite <- app_assoc. f_equal.
    rewrite Hs at 1.
    replace (S i) with (i + 1) at 1 by lia.
    rewrite firstn_app, firstn_length, Nat.min_l by lia.
    replace (i + 1 - i) with 1 by lia. simpl.
    rewrite firstn_all2 by (rewrite firstn_length; lia). auto.
Qed.

(* ---------- the collection pass visits one turn of the ring ---------- *)
Definition somes (ow : option N) (ty : N) (l : list (option entry)) : list entry :=
  flat_map (fun it => match it with
                      | Some e => if matches ow ty e then [e] else []
                      | None => [] end) l.

Lemma somes_count ow ty l : length (somes ow ty l) = length (filter (matches_opt ow ty) l).
Proof.
  induction l as [|[e|] t IH]; simpl; auto.
  destruct (matches ow ty e); simpl; rewrite ?IH; auto.
Qed.

Lemma somes_app ow ty a b : somes ow ty (a ++ b) = somes ow ty a ++ somes ow ty b.
Proof. unfold somes. apply flat_map_app. Qed.

Lemma filter_app_count {A} (f : A -> bool) a b :
  length (filter f (a ++ b)) = length (filter f a) + length (filter f b).
Proof. rewrite filter_app, app_length. auto. Qed.

Lemma count_rot ow ty i (l : list (option entry)) :
  length (filter (matches_opt ow ty) (rot i l)) = length (filter (matches_opt ow ty) l).
Proof.
  unfold rot. rewrite filter_app_count.
  rewrite <- (firstn_skipn i l) at 3. rewrite filter_app_count. lia.
Qed.

Lemma collect_turn ow ty its :
  forall f i m n,
    f <= length its -> i <= length its ->
    n - m = length (somes ow ty (firstn f (rot i its))) -> m <= n ->
    collect f its ow ty i m n = Ok (somes ow ty (firstn f (rot i its))).
Proof.
  induction f as [|f IH]; intros i m n Hf Hi Hn Hmn.
  - simpl in *. destruct (Nat.leb_spec n m); [auto|lia].
  - cbn [collect].
    destruct (Nat.leb_spec n m) as [Hle|Hlt].
    { assert (Hz : length (somes ow ty (firstn (S f) (rot i its))) = 0) by lia.
      apply length_zero_iff_nil in Hz. rewrite Hz. auto. }
    set (i' := if length its <=? i then 0 else i).
    assert (Hi' : i' < length its).
    { unfold i'. destruct (Nat.leb_spec (length its) i); lia. }
    assert (Hrot : rot i its = rot i' its).
    { unfold i'. destruct (Nat.leb_spec (length its) i); auto.
      replace i with (length its) by lia. apply rot_full. }
    destruct (nth_error its i') as [x|] eqn:Hx.
    2:{ apply nth_error_None in Hx. lia. }
    destruct (rot_cons i' its x Hx) as [H1 H2].
    set (mid := skipn (S i') its ++ firstn i' its) in *.
    assert (Hmid : length mid = length its - 1).
    { unfold mid. rewrite app_length, skipn_length, firstn_length. lia. }
    assert (Hfirst : firstn f (rot (S i') its) = firstn f mid).
    { rewrite H2. rewrite firstn_app. replace (f - length mid) with 0 by lia.
      simpl. rewrite app_nil_r. auto. }
    rewrite Hrot, H1 in Hn |- *. cbn [firstn] in Hn |- *.
    change (x :: firstn f mid) with ([x] ++ firstn f mid) in Hn |- *.
    rewrite somes_app in Hn |- *. rewrite app_length in Hn.
    destruct x as [e|]; cbn [matches_opt somes flat_map] in *.
    + destruct (matches ow ty e) eqn:Hm; cbn [app length] in *.
      * rewrite IH; try lia.
        -- rewrite Hfirst. simpl. auto.
        -- rewrite Hfirst. lia.
      * rewrite IH; try lia.
        -- rewrite Hfirst. auto.
        -- rewrite Hfirst. lia.
    + cbn [app length] in *. rewrite IH; try lia.
      * rewrite Hfirst. auto.
      * rewrite Hfirst. lia.
Qed.

Lemma ring_filter_view r ow ty :
  idx r <= length (items r) ->
  ring_filter r ow ty = Ok (somes ow ty (rot (idx r) (items r))).
Proof.
  intros Hi. unfold ring_filter.
  rewrite collect_turn; try lia.
  - rewrite firstn_all2 by (rewrite rot_length; lia). auto.
  - rewrite firstn_all2 by (rewrite rot_length; lia).
    rewrite somes_count, count_rot. unfold count_matching. lia.
Qed.

(* ---------- the ring holds the window ---------- *)
Definition wstep (cap : nat) (w : list entry) (e : entry) : list entry :=
  if length w <? cap then w ++ [e] else tl w ++ [e].

Lemma lastn_all {A} n (l : list A) : length l <= n -> lastn n l = l.
Proof. intros. unfold lastn. replace (length l - n) with 0 by lia. auto. Qed.

Lemma lastn_snoc {A} n (l : list A) x :
  lastn (S n) (l ++ [x]) = lastn n l ++ [x].
Proof.
  unfold lastn. rewrite app_length. simpl.
  replace (length l + 1 - S n) with (length l - n) by lia.
  rewrite skipn_app.
  replace (length l - n - length l) with 0 by lia. auto.
Qed.

Lemma tl_skipn {A} k (l : list A) : tl (skipn k l) = skipn (S k) l.
Proof.
  revert l; induction k as [|k IH]; intros l.
  - destruct l; auto.
  - destruct l as [|h t]; [auto|]. change (tl (skipn k t) = skipn (S k) t). apply IH.
Qed.

Lemma window_step cap logged e :
  1 <= cap -> window cap (logged ++ [e]) = wstep cap (window cap logged) e.
Proof.
  intros Hc. unfold window, wstep. rewrite app_length. simpl.
  destruct (Nat.le_gt_cases cap (length logged)) as [Hge|Hlt].
  - rewrite !Nat.min_r by lia.
    assert (Hl : length (lastn cap logged) = cap).
    { unfold lastn. rewrite skipn_length. lia. }
    rewrite Hl. destruct (Nat.ltb_spec cap cap); [lia|].
    destruct cap as [|c]; [lia|].
    rewrite lastn_snoc. f_equal.
    unfold lastn. rewrite tl_skipn. f_equal. lia.
  - rewrite !Nat.min_l by lia.
    rewrite !lastn_all by (rewrite ?app_length; simpl; lia).
    destruct (Nat.ltb_spec (length logged) cap); [auto|lia].
Qed.

Definition RingInv (cap : nat) (w : list entry) (r : ring) : Prop :=
  length (items r) = cap /\ idx r <= cap /\
  rot (idx r) (items r) = repeat None (cap - length w) ++ map Some w /\
  length w <= cap.

Lemma ring_init_inv cap : RingInv cap [] (ring_init cap).
Proof.
  unfold RingInv, ring_init, rot. simpl. rewrite repeat_length.
  rewrite Nat.sub_0_r. repeat split; try lia.
Qed.

Lemma tl_app_nonempty {A} (a b : list A) : a <> [] -> tl (a ++ b) = tl a ++ b.
Proof. destruct a; simpl; congruence. Qed.

Lemma log_step_inv cap w r e :
  1 <= cap -> RingInv cap w r -> RingInv cap (wstep cap w e) (log_step r e).
Proof.
  intros Hc (Hlen & Hidx & Hview & Hw).
  unfold log_step. set (i := if length (items r) <=? idx r then 0 else idx r).
  assert (Hi : i < cap). { unfold i. rewrite Hlen. destruct (Nat.leb_spec cap (idx r)); lia. }
  assert (Hrot : rot (idx r) (items r) = rot i (items r)).
  { unfold i. rewrite Hlen. destruct (Nat.leb_spec cap (idx r)); auto.
    replace (idx r) with (length (items r)) by lia. apply rot_full. }
  destruct (nth_error (items r) i) as [x|] eqn:Hx.
  2:{ apply nth_error_None in Hx. lia. }
  destruct (rot_cons i (items r) x Hx) as [H1 _].
  set (new := upd (items r) i (Some e)).
  assert (Hnx : nth_error new i = Some (Some e)).
  { unfold new. rewrite upd_firstn_skipn by lia.
    rewrite nth_error_app2 by (rewrite firstn_length; lia).
    rewrite firstn_length, Nat.min_l by lia. rewrite Nat.sub_diag. auto. }
  destruct (rot_cons i new (Some e) Hnx) as [_ H2].
  assert (Hsame : skipn (S i) new ++ firstn i new = skipn (S i) (items r) ++ firstn i (items r)).
  { unfold new. rewrite upd_firstn_skipn by lia. f_equal.
    - rewrite skipn_app, firstn_length, Nat.min_l by lia.
      replace (S i - i) with 1 by lia.
      rewrite skipn_all2 by (rewrite firstn_length; lia). simpl. auto.
    - rewrite firstn_app, firstn_length, Nat.min_l by lia.
      rewrite Nat.sub_diag. simpl. rewrite app_nil_r.
      rewrite firstn_all2 by (rewrite firstn_length; lia). auto. }
  unfold RingInv. cbn [items idx]. fold new.
  assert (Hnl : length new = cap) by (unfold new; rewrite upd_length; auto).
  split; [auto|]. split; [lia|].
  rewrite H2, Hsame.
  assert (Htl : skipn (S i) (items r) ++ firstn i (items r) = tl (rot i (items r))).
  { rewrite H1. auto. }
  rewrite Htl, <- Hrot, Hview.
  unfold wstep. destruct (Nat.ltb_spec (length w) cap) as [Hlt|Hge].
  - split.
    + rewrite app_length. simpl.
      rewrite tl_app_nonempty.
      2:{ destruct (cap - length w) eqn:E; [lia|]. simpl. congruence. }
      replace (cap - length w) with (S (cap - (length w + 1))) by lia.
      simpl. rewrite map_app, <- app_assoc. auto.
    + rewrite app_length. simpl. lia.
  - assert (Hwc : length w = cap) by lia.
    rewrite Hwc, Nat.sub_diag. simpl.
    destruct w as [|w0 wt]; [simpl in *; lia|]. simpl.
    rewrite app_length. simpl in *.
    replace (cap - (length wt + 1)) with 0 by lia. simpl.
    rewrite map_app. split; [auto|lia].
Qed.

Lemma run_inv cap logged :
  1 <= cap -> RingInv cap (window cap logged) (fold_left log_step logged (ring_init cap)).
Proof.
  intros Hc. induction logged as [|e t IH] using rev_ind.
  - simpl. apply ring_init_inv.
  - rewrite fold_left_app. simpl. rewrite window_step by auto.
    apply log_step_inv; auto.
Qed.

Lemma somes_repeat_none ow ty k : somes ow ty (repeat None k) = [].
Proof. induction k; simpl; auto. Qed.

Lemma somes_map_some ow ty w : somes ow ty (map Some w) = filter (matches ow ty) w.
Proof.
  induction w as [|e t IH]; simpl; auto.
  destruct (matches ow ty e); simpl; rewrite IH; auto.
Qed.

Lemma ring_filter_inv cap w r ow ty :
  RingInv cap w r -> ring_filter r ow ty = Ok (filter (matches ow ty) w).
Proof.
  intros (Hlen & Hidx & Hview & Hw).
  rewrite ring_filter_view by lia.
  rewrite Hview, somes_app, somes_repeat_none, somes_map_some. auto.
Qed.

(* Main sequential theorem: after the logger has processed [logged], Filter
   returns exactly the matching entries of the last min(k,N) of them, in order.
   The fuel never runs out and no index is out of range (result is Ok). *)
Theorem filter_is_last_N cap logged ow ty :
  1 <= cap ->
  ring_filter (fold_left log_step logged (ring_init cap)) ow ty
  = Ok (spec_filter cap logged ow ty).
Proof.
  intros Hc. unfold spec_filter.
  apply ring_filter_inv with (cap := cap). apply run_inv; auto.
Qed.

(* The reference window has the properties the statement lists. *)
Lemma window_length cap logged : length (window cap logged) <= cap.
Proof. unfold window, lastn. rewrite skipn_length. lia. Qed.

Lemma filter_len_le {A} (f : A -> bool) l : length (filter f l) <= length l.
Proof. induction l as [|x t IH]; simpl; auto. destruct (f x); simpl; lia. Qed.

Lemma spec_filter_length cap logged ow ty : length (spec_filter cap logged ow ty) <= cap.
Proof.
  unfold spec_filter.
  pose proof (window_length cap logged).
  pose proof (filter_len_le (matches ow ty) (window cap logged)). lia.
Qed.

Lemma spec_filter_matches cap logged ow ty e :
  In e (spec_filter cap logged ow ty) -> matches ow ty e = true /\ In e logged.
Proof.
  unfold spec_filter. intros H. apply filter_In in H. destruct H as [H1 H2]. split; auto.
  unfold window, lastn in H1.
  rewrite <- (firstn_skipn (length logged - Nat.min (length logged) cap) logged).
  apply in_or_app. auto.
Qed.

(* window = a suffix of logged: nothing between two window elements is skipped *)
Lemma window_suffix cap logged : exists pre, logged = pre ++ window cap logged.
Proof.
  exists (firstn (length logged - Nat.min (length logged) cap) logged).
  unfold window, lastn. rewrite firstn_skipn. auto.
Qed.

(* ---------- run_ops (the sequential correspondence function) ---------- *)
Fixpoint logged_of (ops : list lop) : list entry :=
  match ops with
  | [] => []
  | LLog e :: t => e :: logged_of t
  | LFilter _ _ :: t => logged_of t
  end.

Fixpoint spec_run (cap : nat) (sofar : list entry) (ops : list lop) : list (res (list entry)) :=
  match ops with
  | [] => []
  | LLog e :: t => spec_run cap (sofar ++ [e]) t
  | LFilter ow ty :: t => Ok (spec_filter cap sofar ow ty) :: spec_run cap sofar t
  end.

Theorem run_ops_spec cap ops :
  1 <= cap -> run_ops (ring_init cap) ops = spec_run cap [] ops.
Proof.
  intros Hc.
  assert (G : forall ops sofar,
             run_ops (fold_left log_step sofar (ring_init cap)) ops = spec_run cap sofar ops).
  { clear ops. induction ops as [|[e|ow ty] t IH]; intros sofar; simpl; auto.
    - rewrite <- IH. rewrite fold_left_app. auto.
    - rewrite filter_is_last_N by auto. f_equal. apply IH. }
  apply (G ops []).
Qed.

(* ---------- the concurrent system ---------- *)
Inductive Merge : list (list entry) -> list entry -> Prop :=
| MergeNil ls : Forall (fun l => l = []) ls -> Merge ls []
| MergeSnoc ls l p lp e :
    Merge ls l -> nth_error ls p = Some lp ->
    Merge (upd ls p (lp ++ [e])) (l ++ [e]).

Inductive lreach (cap : nat) (todo0 : list (list entry)) : lsys -> Prop :=
| lreach_init : lreach cap todo0 (lsys_init cap todo0)
| lreach_step s lb s' : lreach cap todo0 s -> lstep s lb = Some s' -> lreach cap todo0 s'.

Definition LInv (cap : nat) (todo0 : list (list entry)) (s : lsys) : Prop :=
  l_ring s = fold_left log_step (l_processed s) (ring_init cap) /\
  (exists consumed,
      length consumed = length todo0 /\
      (forall p c t, nth_error consumed p = Some c -> nth_error (l_todo s) p = Some t ->
                     nth_error todo0 p = Some (c ++ t)) /\
      length (l_todo s) = length todo0 /\
      Merge consumed (l_processed s ++ l_chan s)) /\
  (forall r, In r (l_results s) ->
             exists n ow ty, r = spec_filter cap (firstn n (l_processed s)) ow ty) /\
  (N.of_nat (length (l_chan s)) <= c_cap_logchan)%N.

Lemma nth_error_upd_same {A} (l : list A) i x y :
  nth_error l i = Some y -> nth_error (upd l i x) i = Some x.
Proof.
  revert i; induction l as [|h t IH]; intros [|i] H; simpl in *; try discriminate; eauto.
Qed.

Lemma nth_error_upd_other {A} (l : list A) i j x :
  i <> j -> nth_error (upd l i x) j = nth_error l j.
Proof.
  revert i j; induction l as [|h t IH]; intros [|i] [|j] H; simpl in *; auto; try lia.
Qed.

Lemma linv_init cap todo0 : LInv cap todo0 (lsys_init cap todo0).
Proof.
  unfold LInv, lsys_init. simpl. split; [auto|]. split.
  - exists (map (fun _ => []) todo0). rewrite map_length. split; [auto|]. split.
    + intros p c t Hc Ht. rewrite nth_error_map in Hc.
      rewrite Ht in Hc. simpl in Hc. inversion Hc. auto.
    + split; auto. constructor. apply Forall_forall. intros x Hx.
      apply in_map_iff in Hx. destruct Hx as (? & ? & ?). auto.
  - split; [intros r []|]. unfold c_cap_logchan. lia.
Qed.

Lemma linv_step cap todo0 s lb s' :
  1 <= cap -> LInv cap todo0 s -> lstep s lb = Some s' -> LInv cap todo0 s'.
Proof.
  intros Hc (Hring & (consumed & Hcl & Hcons & Htl & Hmerge) & Hres & Hcap) Hstep.
  destruct lb as [p| |ow ty]; simpl in Hstep.
  - (* send *)
    destruct (nth_error (l_todo s) p) as [[|e rest]|] eqn:Hp; try discriminate.
    destruct (N.ltb_spec (N.of_nat (length (l_chan s))) c_cap_logchan) as [Hlt|]; try discriminate.
    inversion Hstep; subst s'; clear Hstep. unfold LInv; simpl.
    split; [auto|]. split.
    + assert (Hpl : p < length consumed).
      { rewrite Hcl, <- Htl. apply nth_error_Some. congruence. }
      destruct (nth_error consumed p) as [c|] eqn:Hcp.
      2:{ apply nth_error_None in Hcp. lia. }
      exists (upd consumed p (c ++ [e])). rewrite upd_length. split; [auto|]. split.
      * intros q c' t' Hc' Ht'.
        destruct (Nat.eq_dec p q) as [->|Hne].
        -- rewrite (nth_error_upd_same _ _ _ _ Hcp) in Hc'.
           rewrite (nth_error_upd_same _ _ _ _ Hp) in Ht'.
           inversion Hc'; inversion Ht'; subst.
           rewrite (Hcons q c (e :: t') Hcp Hp). rewrite <- app_assoc. auto.
        -- rewrite nth_error_upd_other in Hc', Ht' by auto. eauto.
      * rewrite upd_length. split; [auto|].
        rewrite app_assoc. econstructor; eauto.
    + split; [auto|]. rewrite app_length. simpl. lia.
  - (* recv *)
    destruct (l_chan s) as [|e rest] eqn:Hch; try discriminate.
    inversion Hstep; subst s'; clear Hstep. unfold LInv; simpl.
    split.
    { rewrite fold_left_app. simpl. rewrite Hring. auto. }
    split.
    { exists consumed. repeat split; auto. rewrite <- app_assoc. simpl. auto. }
    split.
    { intros r Hr. destruct (Hres r Hr) as (n & ow & ty & ->).
      destruct (Nat.le_gt_cases n (length (l_processed s))).
      - exists n, ow, ty. rewrite firstn_app. replace (n - length (l_processed s)) with 0 by lia.
        simpl. rewrite app_nil_r. auto.
      - exists (length (l_processed s)), ow, ty.
        rewrite firstn_app, Nat.sub_diag. simpl. rewrite app_nil_r.
        rewrite firstn_all. rewrite firstn_all2 by lia. auto. }
    simpl in Hcap. lia.
  - (* filter *)
    destruct (ring_filter (l_ring s) ow ty) as [r| | |] eqn:Hf; try discriminate.
    inversion Hstep; subst s'; clear Hstep. unfold LInv; simpl.
    split; [auto|]. split; [exists consumed; repeat split; auto|]. split; [|auto].
    intros r' [<-|Hr']; [|auto].
    rewrite Hring, filter_is_last_N in Hf by auto. inversion Hf.
    exists (length (l_processed s)), ow, ty. rewrite firstn_all. auto.
Qed.

Theorem linv_reach cap todo0 s : 1 <= cap -> lreach cap todo0 s -> LInv cap todo0 s.
Proof.
  intros Hc H. induction H.
  - apply linv_init.
  - eapply linv_step; eauto.
Qed.

(* In any interleaving, what the logger processed (plus what is still queued)
   is an order-preserving merge of prefixes of the producers' sequences. *)
Theorem processed_is_fair_merge cap todo0 s :
  1 <= cap -> lreach cap todo0 s ->
  exists consumed,
    length consumed = length todo0 /\
    (forall p c t, nth_error consumed p = Some c -> nth_error (l_todo s) p = Some t ->
                   nth_error todo0 p = Some (c ++ t)) /\
    Merge consumed (l_processed s ++ l_chan s).
Proof.
  intros Hc Hr. destruct (linv_reach _ _ _ Hc Hr) as (_ & (c & H1 & H2 & _ & H4) & _).
  exists c; auto.
Qed.

(* Every Filter result ever returned is the window filter of some prefix of the
   processed sequence: only logged, matching entries, in processing order,
   contiguous, at most N. *)
Theorem filter_results_are_windows cap todo0 s r :
  1 <= cap -> lreach cap todo0 s -> In r (l_results s) ->
  exists n ow ty, r = spec_filter cap (firstn n (l_processed s)) ow ty.
Proof.
  intros Hc Hr Hin. destruct (linv_reach _ _ _ Hc Hr) as (_ & _ & H & _). auto.
Qed.

(* Once logging has stopped and the channel is drained, Filter is exactly the
   matching entries among the N most recently logged. *)
Theorem filter_converges cap todo0 s ow ty :
  1 <= cap -> lreach cap todo0 s -> l_chan s = [] ->
  ring_filter (l_ring s) ow ty = Ok (spec_filter cap (l_processed s) ow ty).
Proof.
  intros Hc Hr _. destruct (linv_reach _ _ _ Hc Hr) as (H & _).
  rewrite H. apply filter_is_last_N; auto.
Qed.

(* The logger never gets stuck: a Filter request is always served (no panic, no
   fuel exhaustion), a queued entry can always be received, and a producer can
   always send unless the channel is full - in which case the logger can receive. *)
Theorem logger_never_stuck cap todo0 s :
  1 <= cap -> lreach cap todo0 s ->
  (forall ow ty, lstep s (LbFilter ow ty) <> None) /\
  (l_chan s <> [] -> lstep s LbRecv <> None) /\
  (forall p e rest, nth_error (l_todo s) p = Some (e :: rest) ->
                    lstep s (LbSend p) <> None \/ lstep s LbRecv <> None).
Proof.
  intros Hc Hr. destruct (linv_reach _ _ _ Hc Hr) as (Hring & _ & _ & Hcap).
  split; [|split].
  - intros ow ty. simpl. rewrite Hring, filter_is_last_N by auto. discriminate.
  - intros Hne. simpl. destruct (l_chan s); congruence.
  - intros p e rest Hp. simpl. rewrite Hp.
    destruct (N.ltb_spec (N.of_nat (length (l_chan s))) c_cap_logchan) as [Hlt|Hge].
    + left. discriminate.
    + right. destruct (l_chan s) eqn:E; [|discriminate].
      simpl in Hge. unfold c_cap_logchan in Hge. lia.
Qed.

(* The sequential oracle accepts the specification itself (so the oracle is
   not stricter than the theorem): for duplicate-free ids. *)
Lemma list_eqb_refl l : list_eqb l l = true.
Proof.
  unfold list_eqb. rewrite Nat.eqb_refl. simpl.
  induction l as [|x t IH]; simpl; auto. rewrite N.eqb_refl. auto.
Qed.
