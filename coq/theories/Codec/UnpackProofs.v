(* Proofs about the unpack model (Codec/Unpack.v). *)
From Coq Require Import NArith ZArith List Bool PeanoNat Lia.
From Coq Require Import ZifyN ZifyNat ZifyBool.
From V9 Require Import Lib.GoSem Lib.Bytes Gen.Consts Codec.Msg Codec.Unpack Codec.UnpackLemmas.
Import ListNotations.
Local Open Scope N_scope.

Ltac Zify.zify_post_hook ::= Z.div_mod_to_equations.

(* ---------- helpers local to the theorems ---------- *)

Lemma spec_encode_len dotu t m :
  len (spec_encode dotu t m) = 7 + len (enc_fields (layout dotu m)).
Proof.
  unfold spec_encode, len. cbv zeta. rewrite !app_length, !le_enc_length. cbn [length]. lia.
Qed.

Lemma wf_size_iff dotu m :
  wf_size dotu m = true <-> 7 + len (enc_fields (layout dotu m)) <= 4294967295.
Proof.
  unfold wf_size, u32max. rewrite spec_encode_len. apply N.leb_le.
Qed.

Lemma minsz_some (dotu : bool) m :
  exists sz, nth_error (if dotu then c_minFcusize else c_minFcsize) (N.to_nat (proto_typ m - 100)) = Some sz.
Proof. destruct m, dotu; vm_compute; eauto. Qed.

Lemma spec_stat_min (dotu : bool) d :
  ((if dotu then 63 else 49) <= length (spec_stat dotu d))%nat.
Proof.
  unfold spec_stat, stat_fields, enc_fields. cbv zeta.
  destruct dotu; cbn [app flat_map enc_field]; rewrite ?app_length, ?le_enc_length; cbn [length]; lia.
Qed.

Lemma spec_stat_len dotu d :
  length (spec_stat dotu d) = (2 + length (enc_fields (stat_fields dotu d)))%nat.
Proof. unfold spec_stat. cbv zeta. rewrite app_length, le_enc_length. reflexivity. Qed.

(* Round trip: decoding the protocol layout of a message, in the same dialect,
   yields the same field values (dialect-less fields at the code's defaults) and
   consumes exactly the packet, whatever follows it in the buffer. Only field
   ranges and the 32-bit size are needed (the decoder ignores stat size fields). *)
Theorem unpack_encode : forall dotu m t rest,
  wf_fields dotu m = true -> wf_size dotu m = true -> wf_u16 t = true ->
  unpack dotu (spec_encode dotu t m ++ rest)
  = Ok (t, norm_msg dotu m, len (spec_encode dotu t m)).
Proof.
  intros dotu m t rest Hw Hs Ht.
  apply wf_size_iff in Hs. apply wf_u16_iff in Ht.
  rewrite spec_encode_len.
  unfold spec_encode. cbv zeta. rewrite <- !app_assoc.
  destruct (proto_typ_range m) as [R1 R2].
  rewrite unpack_frame by assumption.
  destruct (minsz_some dotu m) as [sz En]. rewrite En.
  pose proof (minsz_ok dotu m sz En) as Hm.
  destruct (_ <? sz + 7) eqn:E; [lia|].
  rewrite unpack_body_enc by (unfold u32max; first [assumption | lia]).
  reflexivity.
Qed.

Theorem unpack_dir_encode : forall dotu d rest,
  wf_dir dotu d = true ->
  unpack_dir dotu (spec_stat dotu d ++ rest)
  = Ok (len (spec_stat dotu d) - 2, norm_dir dotu d, rest, len (spec_stat dotu d)).
Proof.
  intros dotu d rest H. unfold wf_dir in H. apply andb_true_iff in H. destruct H as [Hf Hl].
  unfold u16max in Hl.
  pose proof (spec_stat_min dotu d) as Hmin.
  pose proof (spec_stat_len dotu d) as Hlen.
  unfold unpack_dir. cbv zeta.
  rewrite gstat_enc by assumption. cbn [bind].
  rewrite le_dec_enc by (pow_norm; unfold len in *; lia).
  rewrite app_length.
  destruct dotu;
    (match goal with |- (if ?c then _ else _) = _ => destruct c eqn:E0; [lia|] end);
    unfold len in *; repeat f_equal; lia.
Qed.

(* Totality: no byte string makes the decoder panic. *)
Theorem unpack_no_panic : forall dotu buf, unpack dotu buf <> Panic /\ unpack dotu buf <> OutOfFuel.
Proof.
  intros dotu buf. change (safe (unpack dotu buf)).
  unfold unpack, c_Tversion, c_Tlast.
  destruct (length buf <? 7)%nat eqn:E0; [apply safe_err|].
  match goal with |- safe (if ?c then _ else _) => destruct c eqn:E1; [apply safe_err|] end.
  match goal with |- safe (if ?c then _ else _) => destruct c eqn:E2; [apply safe_err|] end.
  destruct (nth_error _ _) as [sz|] eqn:En.
  - match goal with |- safe (if ?c then _ else _) => destruct c eqn:E3; [apply safe_err|] end.
    apply safe_bind.
    + apply (unpack_body_safe dotu _ _ sz); try lia; try exact En.
      unfold len in *. rewrite firstn_length, skipn_length. lia.
    + intros [m rest] _. destruct (0 <? length rest)%nat; [apply safe_err|apply safe_ok].
  - exfalso. apply nth_error_None in En.
    destruct dotu; [change (length c_minFcusize) with 34%nat in En
                   | change (length c_minFcsize) with 34%nat in En]; lia.
Qed.

Theorem unpack_dir_no_panic : forall dotu buf, unpack_dir dotu buf <> Panic /\ unpack_dir dotu buf <> OutOfFuel.
Proof.
  intros dotu buf. change (safe (unpack_dir dotu buf)).
  unfold unpack_dir. cbv zeta.
  match goal with |- safe (if ?c then _ else _) => destruct c; [apply safe_err|] end.
  apply safe_bind; [apply gstat_safe|]. intros [[sz d] b] _. apply safe_ok.
Qed.

Theorem unpack_ok_shape : forall dotu buf t m n,
  unpack dotu buf = Ok (t, m, n) ->
  7 <= n /\ n <= len buf /\ n = le_dec (firstn 4 buf) /\
  typ m = le_dec (firstn 1 (skipn 4 buf)) /\
  c_Tversion <= typ m /\ typ m < c_Tlast /\ typ m <> c_Terror /\
  t = le_dec (firstn 2 (skipn 5 buf)).
Proof.
  intros dotu buf t m n H.
  apply unpack_inv in H. destruct H as (H0 & Hn & H7 & Hl & Ht & R1 & R2 & Hb).
  apply unpack_body_inv in Hb; [|assumption..]. destruct Hb as (Hty & H106 & _).
  unfold c_Tversion, c_Tlast, c_Terror. rewrite Hty.
  repeat match goal with |- _ /\ _ => split end; first [assumption | reflexivity].
Qed.

Lemma unpack_prefix_gen dotu buf k :
  (7 <= k)%nat -> (k <= length buf)%nat -> le_dec (firstn 4 buf) = N.of_nat k ->
  unpack dotu (firstn k buf) = unpack dotu buf.
Proof.
  intros H7 Hk Hsz.
  assert (F4 : firstn 4 (firstn k buf) = firstn 4 buf).
  { rewrite firstn_firstn. f_equal. lia. }
  assert (F1 : firstn 1 (skipn 4 (firstn k buf)) = firstn 1 (skipn 4 buf)).
  { rewrite skipn_firstn_comm, firstn_firstn. f_equal. lia. }
  assert (F2 : firstn 2 (skipn 5 (firstn k buf)) = firstn 2 (skipn 5 buf)).
  { rewrite skipn_firstn_comm, firstn_firstn. f_equal. lia. }
  assert (F7 : firstn (k - 7) (skipn 7 (firstn k buf)) = firstn (k - 7) (skipn 7 buf)).
  { rewrite skipn_firstn_comm, firstn_firstn. f_equal. lia. }
  unfold unpack. cbv zeta. rewrite F4, F1, F2, Hsz, Nat2N.id, F7.
  unfold len. rewrite (firstn_length_le buf Hk).
  assert (C1 : (length buf <? 7)%nat = false) by lia.
  assert (C2 : (k <? 7)%nat = false) by lia.
  assert (C3 : (N.of_nat (length buf) <? N.of_nat k) || (N.of_nat k <? 7) = false) by lia.
  assert (C4 : (N.of_nat k <? N.of_nat k) || (N.of_nat k <? 7) = false) by lia.
  rewrite C1, C2, C3, C4. reflexivity.
Qed.

(* bytes beyond the declared size are never looked at *)
Theorem unpack_prefix_only : forall dotu buf,
  le_dec (firstn 4 buf) <= len buf ->
  unpack dotu buf = unpack dotu (firstn (N.to_nat (le_dec (firstn 4 buf))) buf).
Proof.
  intros dotu buf H. unfold len in H.
  destruct (Nat.ltb (N.to_nat (le_dec (firstn 4 buf))) 7) eqn:E.
  - (* declared size below the header: both sides are "buffer too short" *)
    unfold unpack. cbv zeta. rewrite firstn_length. unfold len.
    destruct (length buf <? 7)%nat eqn:E0.
    + destruct (Nat.min _ _ <? 7)%nat eqn:E1; [reflexivity|lia].
    + destruct (Nat.min _ _ <? 7)%nat eqn:E1; [|lia].
      match goal with |- (if ?c then _ else _) = _ => destruct c eqn:E2; [reflexivity|lia] end.
  - symmetry. apply unpack_prefix_gen; lia.
Qed.

(* a count or length field cannot buy memory the packet does not pay for *)
Theorem unpack_alloc_linear : forall dotu buf,
  unpack_alloc dotu buf <= 8 * len buf.
Proof.
  intros dotu buf. unfold unpack_alloc. cbv zeta.
  destruct (length buf <? 7)%nat eqn:E0; [lia|].
  match goal with |- (if ?c then _ else _) <= _ => destruct c eqn:E1; [lia|] end.
  set (p := firstn _ (skipn 7 buf)).
  assert (Hp : (length p <= length buf)%nat).
  { unfold p. rewrite firstn_length, skipn_length. lia. }
  clearbody p. clear E0 E1. unfold len in *.
  destruct (_ =? c_Twalk); [|destruct (_ =? c_Rwalk); [|destruct (_ =? c_Twrite); [|lia]]].
  all: repeat match goal with
  | |- context[match gint ?k ?q with _ => _ end] =>
      let G := fresh "G" in
      destruct (gint k q) as [[? ?]| | |] eqn:G; [apply gint_inv in G; destruct G as [G _]|lia..]
  end.
  all: repeat match goal with
  | |- context[if ?c then _ else _] => destruct c eqn:?
  end; lia.
Qed.

(* what a successful decode returns is again representable field by field *)
Theorem unpack_wf : forall dotu buf t m n,
  all_bytes buf = true -> unpack dotu buf = Ok (t, m, n) ->
  wf_fields dotu m = true /\ norm_msg dotu m = m /\ wf_u16 t = true.
Proof.
  intros dotu buf t m n Hb H.
  apply unpack_inv in H. destruct H as (H0 & Hn & H7 & Hl & Ht & R1 & R2 & Hbody).
  apply unpack_body_inv in Hbody; [|assumption..]. destruct Hbody as (_ & _ & Hw).
  specialize (Hw (all_bytes_firstn _ _ (all_bytes_skipn _ _ Hb))).
  destruct Hw as (Hw & Hnorm & _).
  split; [exact Hw|]. split; [exact Hnorm|].
  subst t. apply lt_pow_u16, le_dec_firstn_lt, all_bytes_skipn, Hb.
Qed.

(* re-encoding the decoded fields gives a packet that decodes to the same fields *)
Theorem reencode_stable : forall dotu buf t m n,
  all_bytes buf = true -> unpack dotu buf = Ok (t, m, n) ->
  wf_size dotu m = true ->
  unpack dotu (spec_encode dotu t m) = Ok (t, m, len (spec_encode dotu t m)).
Proof.
  intros dotu buf t m n Hb H Hs.
  destruct (unpack_wf dotu buf t m n Hb H) as (Hw & Hn & Ht).
  pose proof (unpack_encode dotu m t [] Hw Hs Ht) as E.
  rewrite app_nil_r, Hn in E. exact E.
Qed.

(* the re-encoded packet is never longer than the packet it was decoded from
   (or is one of the small bounded messages), hence its size always fits
   (discharges the hypothesis of reencode_stable).  The statement without
   [all_bytes buf] is false in the model: see the final report. *)
Theorem reencode_not_longer_corrected : forall dotu buf t m n,
  all_bytes buf = true ->
  unpack dotu buf = Ok (t, m, n) -> n <= u32max ->
  wf_size dotu m = true.
Proof.
  intros dotu buf t m n Hb H Hmax.
  apply unpack_inv in H. destruct H as (H0 & Hn & H7 & Hl & Ht & R1 & R2 & Hbody).
  apply unpack_body_inv in Hbody; [|assumption..]. destruct Hbody as (_ & _ & Hw).
  specialize (Hw (all_bytes_firstn _ _ (all_bytes_skipn _ _ Hb))).
  destruct Hw as (_ & _ & Hlen).
  apply wf_size_iff. unfold u32max, len in *.
  rewrite firstn_length, skipn_length in Hlen. cbn [length] in Hlen. lia.
Qed.

(* The original statement of reencode_not_longer (no [all_bytes buf] hypothesis)
   is false in the model: list elements are unbounded N, so a 2-byte length
   field can announce any length.  A dotu Tauth whose optional n_uname is absent
   and whose declared size is exactly u32max re-encodes 4 bytes longer. *)
Lemma gstr_or_app e h s rest :
  length h = 2%nat -> N.to_nat (le_dec h) = length s ->
  gstr_or e (h ++ s ++ rest) = Ok (s, rest).
Proof.
  intros Hh Hs. unfold gstr_or, gstr.
  rewrite (firstn_app_len h (s ++ rest) 2 Hh), (skipn_app_len h (s ++ rest) 2 Hh), Hs.
  rewrite !app_length, Hh.
  destruct (2 + (length s + length rest) <? 2)%nat eqn:E1; [lia|].
  destruct (length s + length rest <? length s)%nat eqn:E2; [lia|].
  cbn [bind]. rewrite (firstn_app_len s rest _ eq_refl), (skipn_app_len s rest _ eq_refl).
  reflexivity.
Qed.

Lemma reencode_cex K : N.of_nat K = 4294967280 ->
  exists buf t m n, unpack true buf = Ok (t, m, n) /\ n <= u32max /\ wf_size true m = false.
Proof.
  intros HK.
  set (b := [0;0;0;0] ++ [N.of_nat K; 0] ++ repeat 0 K ++ [0;0] ++ [] ++ []).
  assert (Lb : len b = 4294967288).
  { unfold b, len. rewrite !app_length, repeat_length. cbn [length]. lia. }
  exists (le_enc 4 (7 + len b) ++ [102] ++ le_enc 2 0 ++ b ++ []), 0,
         (Tauth_ 0 (repeat 0 K) [] c_NOUID), (7 + len b).
  split; [|split].
  - rewrite unpack_frame by lia.
    set (x := nth_error _ _). vm_compute in x. subst x. cbv beta iota.
    destruct (7 + len b <? 12 + 7) eqn:E; [lia|].
    ub_red. unfold b.
    rewrite (gint_app 4 [0;0;0;0]) by reflexivity. cbn [bind].
    rewrite gstr_or_app by (rewrite ?repeat_length; cbn [le_dec length]; lia). cbn [bind].
    rewrite gstr_or_app by reflexivity. cbn [bind].
    reflexivity.
  - unfold u32max. lia.
  - destruct (wf_size true _) eqn:E; [|reflexivity]. exfalso.
    apply wf_size_iff in E. revert E.
    cbn [layout app enc_fields flat_map enc_field]. unfold len.
    rewrite !app_length, !le_enc_length, repeat_length. cbn [length]. lia.
Qed.

Theorem reencode_not_longer_false :
  ~ (forall dotu buf t m n,
       unpack dotu buf = Ok (t, m, n) -> n <= u32max -> wf_size dotu m = true).
Proof.
  intros Hall.
  destruct (reencode_cex (N.to_nat 4294967280) (N2Nat.id _)) as (buf & t & m & n & H1 & H2 & H3).
  rewrite (Hall _ _ _ _ _ H1 H2) in H3. discriminate H3.
Qed.
