(* Proofs about the pack model (Codec/Pack.v) against the layout spec (Codec/Msg.v). *)
From Coq Require Import NArith List Bool PeanoNat Lia.
From Coq Require Import ZifyN ZifyNat ZifyBool.
From V9 Require Import Lib.GoSem Lib.Bytes Gen.Consts Codec.Msg Codec.Pack.
Import ListNotations.
Local Open Scope N_scope.

(* ---------- byte-string helpers ---------- *)

Lemma length_le_enc : forall k v, length (le_enc k v) = k.
Proof.
  induction k; intro v; cbn [le_enc length]; [reflexivity | now rewrite IHk].
Qed.

Lemma len_app : forall a b, len (a ++ b) = len a + len b.
Proof. intros. unfold len. rewrite app_length. lia. Qed.

Lemma len_nil : len [] = 0.
Proof. reflexivity. Qed.

Lemma len_cons : forall x l, len (x :: l) = 1 + len l.
Proof. intros. unfold len. cbn [length]. lia. Qed.

Lemma len_le1 : forall v, len (le_enc 1 v) = 1.
Proof. intros. unfold len. now rewrite length_le_enc. Qed.
Lemma len_le2 : forall v, len (le_enc 2 v) = 2.
Proof. intros. unfold len. now rewrite length_le_enc. Qed.
Lemma len_le4 : forall v, len (le_enc 4 v) = 4.
Proof. intros. unfold len. now rewrite length_le_enc. Qed.
Lemma len_le8 : forall v, len (le_enc 8 v) = 8.
Proof. intros. unfold len. now rewrite length_le_enc. Qed.

#[local] Hint Rewrite len_app len_nil len_cons len_le1 len_le2 len_le4 len_le8 : len.

Lemma firstn_exact : forall (A : Type) (a b : list A) n,
  length a = n -> firstn n (a ++ b) = a.
Proof.
  intros A a b n <-. rewrite firstn_app, Nat.sub_diag, firstn_all.
  cbn [firstn]. apply app_nil_r.
Qed.

Lemma skipn_exact : forall (A : Type) (a b : list A) n,
  length a = n -> skipn n (a ++ b) = b.
Proof.
  intros A a b n <-. rewrite skipn_app, Nat.sub_diag, skipn_all.
  reflexivity.
Qed.

Lemma firstn_len : forall (l : bytes), firstn (N.to_nat (len l)) l = l.
Proof. intros. unfold len. rewrite Nat2N.id. apply firstn_all. Qed.

Lemma le_dec_le_enc : forall k v, v < 256 ^ N.of_nat k -> le_dec (le_enc k v) = v.
Proof.
  induction k; intros v Hv.
  - cbn in Hv. cbn [le_enc le_dec]. lia.
  - rewrite Nat2N.inj_succ, N.pow_succ_r' in Hv.
    cbn [le_enc le_dec]. rewrite IHk.
    + rewrite (N.div_mod' v 256) at 3. lia.
    + apply N.div_lt_upper_bound; [discriminate | exact Hv].
Qed.

Lemma le_dec_le_enc4 : forall v, v <= u32max -> le_dec (le_enc 4 v) = v.
Proof.
  intros v Hv. apply le_dec_le_enc.
  change (256 ^ N.of_nat 4) with 4294967296. unfold u32max in Hv. lia.
Qed.

Lemma le_dec_le_enc2 : forall v, v <= u16max -> le_dec (le_enc 2 v) = v.
Proof.
  intros v Hv. apply le_dec_le_enc.
  change (256 ^ N.of_nat 2) with 65536. unfold u16max in Hv. lia.
Qed.

(* ---------- enc_fields helpers ---------- *)

Lemma enc_fields_cons : forall f l, enc_fields (f :: l) = enc_field f ++ enc_fields l.
Proof. reflexivity. Qed.

Lemma enc_fields_nil : enc_fields [] = [].
Proof. reflexivity. Qed.

Lemma enc_fields_app : forall a b, enc_fields (a ++ b) = enc_fields a ++ enc_fields b.
Proof. intros. apply flat_map_app. Qed.

Lemma enc_fields_FS : forall names, enc_fields (map FS names) = flat_map pstr names.
Proof.
  induction names as [|s t IH]; [reflexivity|].
  cbn [map flat_map]. rewrite enc_fields_cons, IH. reflexivity.
Qed.

Lemma enc_fields_FQ : forall qs, enc_fields (map FQ qs) = flat_map pqid qs.
Proof.
  induction qs as [|s t IH]; [reflexivity|].
  cbn [map flat_map]. rewrite enc_fields_cons, IH. reflexivity.
Qed.

Ltac unfold_p := unfold pstr, pqid, pint8, pint16, pint32, pint64 in *.

Lemma len_flat_pstr : forall names,
  len (flat_map pstr names) = N.of_nat (length names) * 2 + sum_len names.
Proof.
  induction names as [|s t IH]; [reflexivity|].
  cbn [flat_map length sum_len fold_right]. fold (sum_len t).
  unfold_p. autorewrite with len. rewrite IH. lia.
Qed.

Lemma len_flat_pqid : forall qs,
  len (flat_map pqid qs) = N.of_nat (length qs) * 13.
Proof.
  induction qs as [|s t IH]; [reflexivity|].
  cbn [flat_map length].
  unfold_p. autorewrite with len. rewrite IH. lia.
Qed.

(* normalise both sides of a byte-string equation built from ++ *)
Ltac norm_fields :=
  cbn [layout stat_fields app];
  rewrite ?enc_fields_app, ?enc_fields_cons, ?enc_fields_nil;
  cbn [enc_field]; unfold_p;
  rewrite <- ?app_assoc; rewrite ?app_nil_r.

(* ---------- stat ---------- *)

Lemma len_stat_body : forall dotu d,
  2 + len (enc_fields (stat_fields dotu d)) = statsz dotu d.
Proof.
  intros dotu d. unfold statsz. destruct dotu; norm_fields; autorewrite with len; lia.
Qed.

Lemma pstat_spec : forall dotu d, pstat dotu d = spec_stat dotu d.
Proof.
  intros dotu d. unfold pstat, spec_stat. cbv zeta.
  replace (statsz dotu d - 2) with (len (enc_fields (stat_fields dotu d)))
    by (rewrite <- len_stat_body; lia).
  generalize (len (enc_fields (stat_fields dotu d))); intro n.
  destruct dotu; norm_fields; reflexivity.
Qed.

Lemma statsz_spec : forall dotu d, statsz dotu d = len (spec_stat dotu d).
Proof.
  intros dotu d. rewrite <- len_stat_body. unfold spec_stat. cbv zeta.
  autorewrite with len. reflexivity.
Qed.

(* ---------- pack_common ---------- *)

Lemma pack_common_ok : forall buf size id w,
  len w = size -> size + 7 <= len buf ->
  pack_common buf size id w =
  Ok (le_enc 4 (size + 7) ++ le_enc 1 id ++ le_enc 2 c_NOTAG ++ w).
Proof.
  intros buf size id w Hw Hb. unfold pack_common. cbv zeta.
  destruct (N.ltb_spec (len buf) (size + 7)); [lia|].
  unfold pint32, pint8, pint16.
  set (all := le_enc 4 (size + 7) ++ le_enc 1 id ++ le_enc 2 c_NOTAG ++ w).
  assert (Hall : len all = size + 7).
  { unfold all. autorewrite with len. lia. }
  destruct (N.ltb_spec (len buf) (len all)); [lia|].
  f_equal. unfold overlay. apply firstn_exact. unfold len in Hall. lia.
Qed.

Lemma pack_common_small : forall buf size id w,
  len buf < size + 7 ->
  pack_common buf size id w = Err e_bufsmall.
Proof.
  intros buf size id w Hb. unfold pack_common. cbv zeta.
  destruct (N.ltb_spec (len buf) (size + 7)); [reflexivity | lia].
Qed.

Lemma len_spec_encode : forall dotu t m,
  len (spec_encode dotu t m) = 7 + len (enc_fields (layout dotu m)).
Proof.
  intros. unfold spec_encode. cbv zeta. autorewrite with len. lia.
Qed.

(* Written as an explicit [eq_refl] on the unfolded side so that the kernel unfolds
   [wf_size] (and never [N.leb] on a symbolic packet). *)
Lemma wf_size_unfold : forall dotu m,
  (len (spec_encode dotu 0 m) <=? u32max) = wf_size dotu m.
Proof. intros dotu m. exact (eq_refl (len (spec_encode dotu 0 m) <=? u32max)). Qed.

Lemma wf_msg_size : forall dotu m,
  wf_msg dotu m = true -> 7 + len (enc_fields (layout dotu m)) <= u32max.
Proof.
  intros dotu m H. apply andb_prop in H as [_ H].
  rewrite <- wf_size_unfold in H. apply N.leb_le in H.
  rewrite len_spec_encode in H. exact H.
Qed.

(* The numbering in p9.go is the protocol's. *)
Theorem typ_is_proto : forall m, typ m = proto_typ m.
Proof. destruct m; reflexivity. Qed.

Lemma pint8_typ : forall m, le_enc 1 (typ m) = [proto_typ m].
Proof. destruct m; reflexivity. Qed.

(* every constructor is pack_common applied to the protocol body, with the right size *)
Lemma pack_body : forall dotu m,
  wf_msg dotu m = true ->
  exists size w,
    (forall buf, pack dotu m buf = pack_common buf size (typ m) w) /\
    w = enc_fields (layout dotu m) /\ len w = size.
Proof.
  intros dotu m Hwf.
  destruct m; (eexists; eexists; split; [intro buf; reflexivity|]).
  all: try (split; [destruct dotu; norm_fields; reflexivity
                   | destruct dotu; unfold_p; autorewrite with len; lia]).
  - (* Twalk *)
    split.
    + cbn [layout]. rewrite enc_fields_app, enc_fields_FS. norm_fields. reflexivity.
    + rewrite !len_app, len_flat_pstr. unfold_p. autorewrite with len. lia.
  - (* Rwalk *)
    split.
    + cbn [layout]. rewrite enc_fields_app, enc_fields_FQ. norm_fields. reflexivity.
    + rewrite !len_app, len_flat_pqid. unfold_p. autorewrite with len. lia.
  - (* Rread *)
    apply wf_msg_size in Hwf. rename Hwf into Hsz.
    revert Hsz. norm_fields. autorewrite with len. intro Hsz.
    assert (Hd : len data mod two32 = len data).
    { apply N.mod_small. unfold two32, u32max in *. lia. }
    rewrite Hd, firstn_len. split; [reflexivity|].
    autorewrite with len. symmetry. apply N.mod_small. unfold two32, u32max in *. lia.
  - (* Rstat *)
    rewrite pstat_spec, statsz_spec. split.
    + norm_fields. reflexivity.
    + unfold_p. autorewrite with len. lia.
  - (* Twstat *)
    rewrite pstat_spec, statsz_spec. split.
    + norm_fields. reflexivity.
    + unfold_p. autorewrite with len. lia.
Qed.

(* For every representable message and any previous buffer contents, the packet the
   constructor builds is byte for byte the protocol layout (no stale byte leaks). *)
Theorem pack_is_layout : forall dotu m buf,
  wf_msg dotu m = true ->
  len (spec_encode dotu c_NOTAG m) <= len buf ->
  pack dotu m buf = Ok (spec_encode dotu c_NOTAG m).
Proof.
  intros dotu m buf Hwf Hb. rewrite len_spec_encode in Hb.
  destruct (pack_body dotu m Hwf) as (size & w & Hp & Hw & Hl).
  rewrite Hp. rewrite <- Hw, Hl in Hb.
  rewrite pack_common_ok by (assumption || lia).
  unfold spec_encode. cbv zeta. rewrite <- Hw, Hl, pint8_typ, (N.add_comm size 7).
  reflexivity.
Qed.

Theorem pack_too_small : forall dotu m buf,
  wf_msg dotu m = true ->
  len buf < len (spec_encode dotu c_NOTAG m) ->
  pack dotu m buf = Err e_bufsmall.
Proof.
  intros dotu m buf Hwf Hb. rewrite len_spec_encode in Hb.
  destruct (pack_body dotu m Hwf) as (size & w & Hp & Hw & Hl).
  rewrite Hp. rewrite <- Hw, Hl in Hb.
  apply pack_common_small. lia.
Qed.

(* size[4] equals the packet length; type[1] and tag[2] are at their wire positions *)
Theorem size_prefix_le : forall dotu t m,
  wf_msg dotu m = true -> wf_u16 t = true ->
  le_dec (firstn 4 (spec_encode dotu t m)) = len (spec_encode dotu t m) /\
  nth_error (spec_encode dotu t m) 4 = Some (proto_typ m) /\
  le_dec (firstn 2 (skipn 5 (spec_encode dotu t m))) = t.
Proof.
  intros dotu t m Hwf Ht.
  apply wf_msg_size in Hwf. rename Hwf into Hsz.
  apply N.leb_le in Ht.
  rewrite len_spec_encode. unfold spec_encode. cbv zeta.
  set (body := enc_fields (layout dotu m)) in *.
  split; [|split].
  - rewrite firstn_exact by apply length_le_enc.
    apply le_dec_le_enc4. exact Hsz.
  - rewrite nth_error_app2; rewrite length_le_enc; [reflexivity | apply le_n].
  - rewrite !app_assoc. rewrite <- (app_assoc _ (le_enc 2 t) body).
    rewrite skipn_exact by (rewrite app_length, length_le_enc; reflexivity).
    rewrite firstn_exact by apply length_le_enc.
    apply le_dec_le_enc2. exact Ht.
Qed.

(* SetTag only changes offsets 5 and 6 *)
Theorem set_tag_spec : forall dotu t t' m,
  set_tag (spec_encode dotu t m) t' = Ok (spec_encode dotu t' m).
Proof.
  intros dotu t t' m. unfold set_tag.
  destruct (N.ltb_spec (len (spec_encode dotu t m)) 7) as [H|H].
  - rewrite len_spec_encode in H. lia.
  - clear H. unfold spec_encode, pint16. cbv zeta.
    set (body := enc_fields (layout dotu m)).
    set (hd := le_enc 4 (7 + len body)).
    apply f_equal.
    rewrite (app_assoc hd [proto_typ m]).
    rewrite firstn_exact
      by (rewrite app_length; unfold hd; rewrite length_le_enc; reflexivity).
    rewrite (app_assoc (hd ++ [proto_typ m]) (le_enc 2 t)).
    rewrite skipn_exact
      by (rewrite !app_length; unfold hd; rewrite !length_le_enc; reflexivity).
    rewrite <- !app_assoc. reflexivity.
Qed.

Theorem pack_dir_is_spec : forall dotu d,
  wf_dir dotu d = true -> pack_dir dotu d = Ok (spec_stat dotu d).
Proof.
  intros dotu d _. unfold pack_dir. cbv zeta.
  rewrite pstat_spec, statsz_spec.
  destruct (N.ltb_spec (len (spec_stat dotu d)) (len (spec_stat dotu d))); [lia|].
  f_equal. unfold overlay, len. rewrite Nat2N.id.
  rewrite skipn_all2 by (rewrite repeat_length; apply le_n).
  apply app_nil_r.
Qed.

(* InitRread(n); copy(Data, data); SetRreadCount(k) = the Rread carrying the first k bytes *)
Theorem rread_two_step_spec : forall buf n data k,
  all_bytes data = true -> k <= n -> k <= len data ->
  11 + n <= len buf -> 11 + n <= u32max ->
  rread_two_step buf n data k = Ok (spec_encode false c_NOTAG (Rread_ (firstn (N.to_nat k) data))).
Proof.
  intros buf n data k _ Hkn Hkd Hbuf Hmax.
  unfold rread_two_step. cbv zeta.
  rewrite (N.mod_small (4 + n) two32) by (unfold two32, u32max in *; lia).
  rewrite (N.mod_small (n + 4) two32) by (unfold two32, u32max in *; lia).
  rewrite (N.mod_small (4 + 1 + 2 + 4 + k) two32) by (unfold two32, u32max in *; lia).
  unfold_p.
  set (hdr := le_enc 4 (4 + n + 7) ++ le_enc 1 c_Rread ++ le_enc 2 c_NOTAG ++ le_enc 4 n).
  assert (Hlh : length hdr = 11%nat).
  { unfold hdr. rewrite !app_length, !length_le_enc. reflexivity. }
  assert (Hlen : len hdr = 11) by (unfold len; rewrite Hlh; reflexivity).
  rewrite Hlen.
  rewrite (proj2 (N.ltb_ge (len buf) (4 + n + 7))) by lia.
  rewrite (proj2 (N.ltb_ge (len buf) 11)) by lia.
  rewrite (proj2 (N.ltb_ge (n + 4) 4)) by lia.
  rewrite (proj2 (N.ltb_ge (len buf - 7) (n + 4))) by lia.
  rewrite (proj2 (N.ltb_ge (4 + n + 7) 11)) by lia.
  rewrite (proj2 (N.ltb_ge (len buf) (4 + 1 + 2 + 4 + k))) by lia.
  rewrite (proj2 (N.ltb_ge (len buf - 11) k)) by lia.
  cbn [orb].
  set (h4 := le_enc 4 (4 + n + 7)) in *.
  set (t3 := le_enc 1 c_Rread ++ le_enc 2 c_NOTAG).
  assert (Hh : hdr = (h4 ++ t3) ++ le_enc 4 n).
  { unfold hdr, t3. rewrite <- !app_assoc. reflexivity. }
  assert (Hl7 : length (h4 ++ t3) = 7%nat).
  { unfold h4, t3. rewrite !app_length, !length_le_enc. reflexivity. }
  unfold overlay. rewrite Hlh.
  rewrite (firstn_exact _ hdr (skipn 11 buf) 11 Hlh).
  set (c := N.to_nat (N.min n (len data))).
  set (tl := skipn (11 + c) (hdr ++ skipn 11 buf)).
  rewrite (skipn_exact _ hdr (firstn c data ++ tl) 11 Hlh).
  rewrite Hh at 1. rewrite <- (app_assoc (h4 ++ t3)).
  rewrite (firstn_exact _ (h4 ++ t3) _ 7 Hl7).
  rewrite (skipn_exact _ h4 t3 4) by (unfold h4; apply length_le_enc).
  clearbody tl. clear Hh Hlh Hlen hdr.
  set (d' := firstn (N.to_nat k) data).
  assert (Hd' : len d' = k).
  { unfold d', len. rewrite firstn_length. unfold len in Hkd. lia. }
  assert (Hmid : firstn (N.to_nat k) (firstn c data ++ tl) = d').
  { rewrite firstn_app, firstn_firstn, firstn_length.
    replace (N.to_nat k - Nat.min c (length data))%nat with 0%nat
      by (unfold c; unfold len in *; lia).
    replace (Nat.min (N.to_nat k) c) with (N.to_nat k)
      by (unfold c; unfold len in *; lia).
    cbn [firstn]. apply app_nil_r. }
  set (A := le_enc 4 (4 + 1 + 2 + 4 + k) ++ t3 ++ le_enc 4 k).
  assert (HlA : length A = 11%nat).
  { unfold A, t3. rewrite !app_length, !length_le_enc. reflexivity. }
  replace (le_enc 4 (4 + 1 + 2 + 4 + k) ++ t3 ++ le_enc 4 k ++ firstn c data ++ tl)
    with (A ++ firstn c data ++ tl)
    by (unfold A; rewrite <- !app_assoc; reflexivity).
  replace (N.to_nat (4 + 1 + 2 + 4 + k)) with (length A + N.to_nat k)%nat by lia.
  rewrite firstn_app_2, Hmid.
  apply f_equal. unfold spec_encode. cbv zeta. norm_fields. cbn [proto_typ].
  rewrite Hd'. unfold A, t3. rewrite <- !app_assoc.
  replace (7 + len (le_enc 4 k ++ d')) with (4 + 1 + 2 + 4 + k)
    by (autorewrite with len; lia).
  reflexivity.
Qed.
