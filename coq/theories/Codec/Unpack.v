(* Implementation model of unpack.go (Unpack) and p9.go's readers (gint*, gstr,
   gqid, gstat, UnpackDir), line by line, including the minFcsize/minFcusize
   lookup exactly as written (tables from Gen/Consts.v).  A read past the end of
   a slice is [Panic], as in Go.  Model definitions only. *)
From Coq Require Import NArith List Bool PeanoNat.
From V9 Require Import Lib.GoSem Lib.Bytes Gen.Consts Codec.Msg.
Import ListNotations.
Local Open Scope N_scope.

(* error values (only their class is compared with the implementation) *)
Definition e_short : bytes := [2].     (* "buffer too short" *)
Definition e_invalid_id : bytes := [3].
Definition e_szerror : bytes := [4].   (* "invalid size" *)
Definition e_stat : bytes := [5].      (* gstat's errors *)

(* gint8/16/32/64: index out of range panics when the slice is short *)
Definition gint (k : nat) (p : bytes) : res (N * bytes) :=
  if (length p <? k)%nat then Panic else Ok (le_dec (firstn k p), skipn k p).

(* gstr: returns ("", nil) when short; modelled as None *)
Definition gstr (p : bytes) : res (option (bytes * bytes)) :=
  if (length p <? 2)%nat then Ok None
  else
    let n := N.to_nat (le_dec (firstn 2 p)) in
    let p' := skipn 2 p in
    if (length p' <? n)%nat then Ok None
    else Ok (Some (firstn n p', skipn n p')).

Definition gqid (p : bytes) : res (qid * bytes) :=
  do (t, p) <- gint 1 p;
  do (v, p) <- gint 4 p;
  do (pa, p) <- gint 8 p;
  Ok (mkQid t v pa, p).

(* gstr whose failure is the caller's error [e] *)
Definition gstr_or (e : bytes) (p : bytes) : res (bytes * bytes) :=
  do r <- gstr p;
  match r with None => Err e | Some x => Ok x end.

(* func gstat(buf []byte, d *Dir, dotu bool) ([]byte, error); also returns d.Size *)
Definition gstat (dotu : bool) (p : bytes) : res (N * dir * bytes) :=
  if (length p <? 2 + 2 + 4 + 13 + 4 + 4 + 4 + 8)%nat then Err e_stat
  else
    do (size, p) <- gint 2 p;
    do (ty, p) <- gint 2 p;
    do (dev, p) <- gint 4 p;
    do (q, p) <- gqid p;
    do (mode, p) <- gint 4 p;
    do (atime, p) <- gint 4 p;
    do (mtime, p) <- gint 4 p;
    do (length_, p) <- gint 8 p;
    do (name, p) <- gstr_or e_stat p;
    do (uid, p) <- gstr_or e_stat p;
    do (gid, p) <- gstr_or e_stat p;
    do (muid, p) <- gstr_or e_stat p;
    if dotu then
      do (ext, p) <- gstr_or e_stat p;
      if (length p <? 4 + 4 + 4)%nat then Err e_stat
      else
        do (un, p) <- gint 4 p;
        do (gn, p) <- gint 4 p;
        do (mn, p) <- gint 4 p;
        Ok (size, mkDir ty dev q mode atime mtime length_ name uid gid muid ext un gn mn, p)
    else
      Ok (size, mkDir ty dev q mode atime mtime length_ name uid gid muid [] c_NOUID c_NOUID c_NOUID, p).

(* func UnpackDir(buf []byte, dotu bool) (d *Dir, b []byte, amt int, err error) *)
Definition unpack_dir (dotu : bool) (buf : bytes) : res (N * dir * bytes * N) :=
  let sz := (2 + 2 + 4 + 13 + 4 + 4 + 4 + 8 + 2 + 2 + 2 + 2 + (if dotu then 2 + 4 + 4 + 4 else 0))%nat in
  if (length buf <? sz)%nat then Err e_short
  else
    do (szd, b) <- gstat dotu buf;
    let '(size, d) := szd in
    Ok (size, d, b, N.of_nat (length buf - length b)).

Fixpoint gnames (k : nat) (p : bytes) : res (list bytes * bytes) :=
  match k with
  | O => Ok ([], p)
  | S k' =>
    do (s, p) <- gstr_or e_szerror p;
    do (rest, p) <- gnames k' p;
    Ok (s :: rest, p)
  end.

Fixpoint gqids (k : nat) (p : bytes) : res (list qid * bytes) :=
  match k with
  | O => Ok ([], p)
  | S k' =>
    do (q, p) <- gqid p;
    do (rest, p) <- gqids k' p;
    Ok (q :: rest, p)
  end.

(* optional n_uname of Tauth / Tattach in 9P2000.u *)
Definition gunamenum (p : bytes) : res (N * bytes) :=
  if (0 <? length p)%nat then
    if (length p <? 4)%nat then Err e_szerror else gint 4 p
  else Ok (c_NOUID, p).

(* the switch of Unpack: body p -> message and the unread rest *)
Definition unpack_body (dotu : bool) (ty : N) (p : bytes) : res (msg * bytes) :=
  if (ty =? c_Tversion) || (ty =? c_Rversion) then
    do (ms, p) <- gint 4 p;
    do (v, p) <- gstr_or e_szerror p;
    Ok ((if ty =? c_Tversion then Tversion_ ms v else Rversion_ ms v), p)
  else if ty =? c_Tauth then
    do (afid, p) <- gint 4 p;
    do (un, p) <- gstr_or e_szerror p;
    do (an, p) <- gstr_or e_szerror p;
    if dotu then
      do (num, p) <- gunamenum p; Ok (Tauth_ afid un an num, p)
    else Ok (Tauth_ afid un an c_NOUID, p)
  else if (ty =? c_Rauth) || (ty =? c_Rattach) then
    do (q, p) <- gqid p;
    Ok ((if ty =? c_Rauth then Rauth_ q else Rattach_ q), p)
  else if ty =? c_Tflush then
    do (ot, p) <- gint 2 p; Ok (Tflush_ ot, p)
  else if ty =? c_Tattach then
    do (fid, p) <- gint 4 p;
    do (afid, p) <- gint 4 p;
    do (un, p) <- gstr_or e_szerror p;
    do (an, p) <- gstr_or e_szerror p;
    if dotu then
      do (num, p) <- gunamenum p; Ok (Tattach_ fid afid un an num, p)
    else Ok (Tattach_ fid afid un an 0, p)       (* Unamenum keeps its zero value *)
  else if ty =? c_Rerror then
    do (e, p) <- gstr_or e_szerror p;
    if dotu then
      if (length p <? 4)%nat then Err e_szerror
      else do (num, p) <- gint 4 p; Ok (Rerror_ e num, p)
    else Ok (Rerror_ e 0, p)
  else if ty =? c_Twalk then
    do (fid, p) <- gint 4 p;
    do (nf, p) <- gint 4 p;
    do (m, p) <- gint 2 p;
    if len p <? m * 2 then Err e_szerror
    else do (names, p) <- gnames (N.to_nat m) p; Ok (Twalk_ fid nf names, p)
  else if ty =? c_Rwalk then
    do (m, p) <- gint 2 p;
    if len p <? m * 13 then Err e_szerror
    else do (qs, p) <- gqids (N.to_nat m) p; Ok (Rwalk_ qs, p)
  else if ty =? c_Topen then
    do (fid, p) <- gint 4 p;
    do (mode, p) <- gint 1 p;
    Ok (Topen_ fid mode, p)
  else if (ty =? c_Ropen) || (ty =? c_Rcreate) then
    do (q, p) <- gqid p;
    do (io, p) <- gint 4 p;
    Ok ((if ty =? c_Ropen then Ropen_ q io else Rcreate_ q io), p)
  else if ty =? c_Tcreate then
    do (fid, p) <- gint 4 p;
    do (name, p) <- gstr_or e_szerror p;
    if (length p <? 5)%nat then Err e_szerror
    else
      do (perm, p) <- gint 4 p;
      do (mode, p) <- gint 1 p;
      if dotu then
        do (ext, p) <- gstr_or e_szerror p; Ok (Tcreate_ fid name perm mode ext, p)
      else Ok (Tcreate_ fid name perm mode [], p)
  else if ty =? c_Tread then
    do (fid, p) <- gint 4 p;
    do (off, p) <- gint 8 p;
    do (cnt, p) <- gint 4 p;
    Ok (Tread_ fid off cnt, p)
  else if ty =? c_Rread then
    do (cnt, p) <- gint 4 p;
    if len p <? cnt then Err e_szerror
    else Ok (Rread_ (firstn (N.to_nat cnt) p), skipn (N.to_nat cnt) p)
         (* fc.Data = p (whole rest); the message's data is its first Count bytes; the
            rest, if any, fails the trailing-bytes test below *)
  else if ty =? c_Twrite then
    do (fid, p) <- gint 4 p;
    do (off, p) <- gint 8 p;
    do (cnt, p) <- gint 4 p;
    if len p <? cnt then Err e_szerror
    else if negb (len p =? cnt) then
      (* fc.Data = make([]byte, fc.Count); copy(fc.Data, p); p = p[len(p):] *)
      Ok (Twrite_ fid off (firstn (N.to_nat cnt) p), [])
    else Ok (Twrite_ fid off p, [])
  else if ty =? c_Rwrite then
    do (cnt, p) <- gint 4 p; Ok (Rwrite_ cnt, p)
  else if (ty =? c_Tclunk) || (ty =? c_Tremove) || (ty =? c_Tstat) then
    do (fid, p) <- gint 4 p;
    Ok ((if ty =? c_Tclunk then Tclunk_ fid else if ty =? c_Tremove then Tremove_ fid else Tstat_ fid), p)
  else if ty =? c_Rstat then
    do (_, p) <- gint 2 p;
    do (szd, p) <- gstat dotu p;
    Ok (Rstat_ (snd szd), p)
  else if ty =? c_Twstat then
    do (fid, p) <- gint 4 p;
    do (_, p) <- gint 2 p;
    do (szd, p) <- gstat dotu p;
    Ok (Twstat_ fid (snd szd), p)
  else if ty =? c_Rflush then Ok (Rflush_, p)
  else if ty =? c_Rclunk then Ok (Rclunk_, p)
  else if ty =? c_Rremove then Ok (Rremove_, p)
  else if ty =? c_Rwstat then Ok (Rwstat_, p)
  else Err e_invalid_id.   (* default: "invalid message id" (Terror) *)

(* func Unpack(buf []byte, dotu bool) (fc *Fcall, fcsz int, err error)
   result: (tag, message, fcsz) *)
Definition unpack (dotu : bool) (buf : bytes) : res (N * msg * N) :=
  if (length buf <? 7)%nat then Err e_short
  else
    let size := le_dec (firstn 4 buf) in
    let ty := le_dec (firstn 1 (skipn 4 buf)) in
    let tag := le_dec (firstn 2 (skipn 5 buf)) in
    if (len buf <? size) || (size <? 7) then Err e_short
    else
      let p := firstn (N.to_nat size - 7) (skipn 7 buf) in
      if (ty <? c_Tversion) || (c_Tlast <=? ty) then Err e_invalid_id
      else
        match nth_error (if dotu then c_minFcusize else c_minFcsize) (N.to_nat (ty - c_Tversion)) with
        | None => Panic                                  (* index out of range *)
        | Some sz =>
          if size <? sz + 7 then Err e_szerror
          else
            do (m, rest) <- unpack_body dotu ty p;
            if (0 <? length rest)%nat then Err e_szerror
            else Ok (tag, m, size)
        end.

(* input-dependent allocations performed by Unpack, in bytes (make([]string, m):
   16 per string header; make([]Qid, m): 16 per Qid; make([]byte, Count);
   string(buf[0:n]) copies are bounded by the packet by construction).
   Mirrors the three make sites and the guards in front of them. *)
Definition unpack_alloc (dotu : bool) (buf : bytes) : N :=
  if (length buf <? 7)%nat then 0
  else
    let size := le_dec (firstn 4 buf) in
    let ty := le_dec (firstn 1 (skipn 4 buf)) in
    if (len buf <? size) || (size <? 7) then 0
    else
      let p := firstn (N.to_nat size - 7) (skipn 7 buf) in
      if ty =? c_Twalk then
        match gint 4 p with Ok (_, p) => match gint 4 p with Ok (_, p) => match gint 2 p with
        | Ok (m, p) => if len p <? m * 2 then 0 else 16 * m | _ => 0 end | _ => 0 end | _ => 0 end
      else if ty =? c_Rwalk then
        match gint 2 p with Ok (m, p) => if len p <? m * 13 then 0 else 16 * m | _ => 0 end
      else if ty =? c_Twrite then
        match gint 4 p with Ok (_, p) => match gint 8 p with Ok (_, p) => match gint 4 p with
        | Ok (cnt, p) => if len p <? cnt then 0 else if len p =? cnt then 0 else cnt
        | _ => 0 end | _ => 0 end | _ => 0 end
      else 0.
