(* Implementation model of p9.go's writers and packt.go / packr.go, function by
   function: the same size expression as the Go line, the same order of writes
   through the moving slice p, into an arbitrary pre-existing buffer.
   Faithful for strings of at most 65535 bytes and at most 65535 walk
   names/qids (beyond that Go's pstr advances by uint16(len) and later writes
   overlap; such values are not representable on the wire and are excluded by
   wf_msg).  Model definitions only. *)
From Coq Require Import NArith List Bool PeanoNat.
From V9 Require Import Lib.GoSem Lib.Bytes Gen.Consts Codec.Msg.
Import ListNotations.
Local Open Scope N_scope.

Definition e_bufsmall : bytes := [1].   (* &Error{"buffer too small", EINVAL} *)

(* pint8/16/32/64: truncating little-endian writes *)
Definition pint8 (v : N) : bytes := le_enc 1 v.
Definition pint16 (v : N) : bytes := le_enc 2 v.
Definition pint32 (v : N) : bytes := le_enc 4 v.
Definition pint64 (v : N) : bytes := le_enc 8 v.
(* pstr: n := uint16(len(val)); pint16(n); copy; return buf[n:] *)
Definition pstr (s : bytes) : bytes := pint16 (len s) ++ s.
Definition pqid (q : qid) : bytes := pint8 (q_type q) ++ pint32 (q_vers q) ++ pint64 (q_path q).

(* func statsz(d *Dir, dotu bool) int *)
Definition statsz (dotu : bool) (d : dir) : N :=
  2 + 2 + 4 + 13 + 4 + 4 + 4 + 8 + 2 + 2 + 2 + 2
  + len (d_name d) + len (d_uid d) + len (d_gid d) + len (d_muid d)
  + (if dotu then 2 + 4 + 4 + 4 + len (d_ext d) else 0).

(* func pstat(d *Dir, buf []byte, dotu bool) []byte *)
Definition pstat (dotu : bool) (d : dir) : bytes :=
  pint16 (statsz dotu d - 2) ++ pint16 (d_type d) ++ pint32 (d_dev d) ++ pqid (d_qid d)
  ++ pint32 (d_mode d) ++ pint32 (d_atime d) ++ pint32 (d_mtime d) ++ pint64 (d_length d)
  ++ pstr (d_name d) ++ pstr (d_uid d) ++ pstr (d_gid d) ++ pstr (d_muid d)
  ++ (if dotu then pstr (d_ext d) ++ pint32 (d_uidnum d) ++ pint32 (d_gidnum d) ++ pint32 (d_muidnum d)
      else []).

(* writes [w] land at the start of [buf]; the rest of buf keeps its old contents *)
Definition overlay (w buf : bytes) : bytes := w ++ skipn (length w) buf.

(* func PackDir(d *Dir, dotu bool) []byte: make([]byte, sz); pstat *)
Definition pack_dir (dotu : bool) (d : dir) : res bytes :=
  let sz := statsz dotu d in
  let w := pstat dotu d in
  if sz <? len w then Panic
  else Ok (overlay w (repeat 0 (N.to_nat sz))).

(* packCommon(fc, size, id) followed by the body writes [w]:
   size += 7; if len(fc.Buf) < size -> "buffer too small";
   header written through p; fc.Pkt = fc.Buf[0:size]. *)
Definition pack_common (buf : bytes) (size : N) (id : N) (w : bytes) : res bytes :=
  let total := size + 7 in
  if len buf <? total then Err e_bufsmall
  else
    let all := pint32 total ++ pint8 id ++ pint16 c_NOTAG ++ w in
    if len buf <? len all then Panic
    else Ok (firstn (N.to_nat total) (overlay all buf)).

Definition sum_len (l : list bytes) : N := fold_right (fun s acc => len s + acc) 0 l.

(* One model function for all PackT*/PackR* constructors; each branch is the
   body of the corresponding Go function. *)
Definition pack (dotu : bool) (m : msg) (buf : bytes) : res bytes :=
  match m with
  | Tversion_ ms v =>               (* PackTversion: size := 4 + 2 + len(version) *)
    pack_common buf (4 + 2 + len v) c_Tversion (pint32 ms ++ pstr v)
  | Rversion_ ms v =>
    pack_common buf (4 + 2 + len v) c_Rversion (pint32 ms ++ pstr v)
  | Tauth_ afid un an num =>        (* size := 4+2+2+len(uname)+len(aname); if dotu { size += 4 } *)
    pack_common buf (4 + 2 + 2 + len un + len an + (if dotu then 4 else 0)) c_Tauth
                (pint32 afid ++ pstr un ++ pstr an ++ (if dotu then pint32 num else []))
  | Rauth_ q => pack_common buf 13 c_Rauth (pqid q)
  | Tattach_ fid afid un an num =>  (* size := 4+4+2+len(uname)+2+len(aname) (+4) *)
    pack_common buf (4 + 4 + 2 + len un + 2 + len an + (if dotu then 4 else 0)) c_Tattach
                (pint32 fid ++ pint32 afid ++ pstr un ++ pstr an ++ (if dotu then pint32 num else []))
  | Rattach_ q => pack_common buf 13 c_Rattach (pqid q)
  | Rerror_ e num =>                (* size := 2 + len(error); if dotu { size += 4 } *)
    pack_common buf (2 + len e + (if dotu then 4 else 0)) c_Rerror
                (pstr e ++ (if dotu then pint32 num else []))
  | Tflush_ ot => pack_common buf 2 c_Tflush (pint16 ot)
  | Rflush_ => pack_common buf 0 c_Rflush []
  | Twalk_ fid nf names =>          (* size := 4+4+2+nwname*2 + sum len *)
    pack_common buf (4 + 4 + 2 + N.of_nat (length names) * 2 + sum_len names) c_Twalk
                (pint32 fid ++ pint32 nf ++ pint16 (N.of_nat (length names)) ++ flat_map pstr names)
  | Rwalk_ qs =>                    (* size := 2 + nwqid*13 *)
    pack_common buf (2 + N.of_nat (length qs) * 13) c_Rwalk
                (pint16 (N.of_nat (length qs)) ++ flat_map pqid qs)
  | Topen_ fid mode => pack_common buf (4 + 1) c_Topen (pint32 fid ++ pint8 mode)
  | Ropen_ q io => pack_common buf (13 + 4) c_Ropen (pqid q ++ pint32 io)
  | Tcreate_ fid name perm mode ext => (* size := 4+2+len(name)+4+1; if dotu { size += 2+len(ext) } *)
    pack_common buf (4 + 2 + len name + 4 + 1 + (if dotu then 2 + len ext else 0)) c_Tcreate
                (pint32 fid ++ pstr name ++ pint32 perm ++ pint8 mode ++ (if dotu then pstr ext else []))
  | Rcreate_ q io => pack_common buf (13 + 4) c_Rcreate (pqid q ++ pint32 io)
  | Tread_ fid off cnt => pack_common buf (4 + 8 + 4) c_Tread (pint32 fid ++ pint64 off ++ pint32 cnt)
  | Rread_ data =>                  (* PackRread: count := uint32(len(data)); InitRread: size := int(4 + count) *)
    let count := len data mod two32 in
    pack_common buf ((4 + count) mod two32) c_Rread (pint32 count ++ firstn (N.to_nat count) data)
  | Twrite_ fid off data =>         (* size := 4+8+4+len(data); count = uint32(len(data)) by the callers *)
    pack_common buf (4 + 8 + 4 + len data) c_Twrite
                (pint32 fid ++ pint64 off ++ pint32 (len data) ++ data)
  | Rwrite_ cnt => pack_common buf 4 c_Rwrite (pint32 cnt)
  | Tclunk_ fid => pack_common buf 4 c_Tclunk (pint32 fid)
  | Rclunk_ => pack_common buf 0 c_Rclunk []
  | Tremove_ fid => pack_common buf 4 c_Tremove (pint32 fid)
  | Rremove_ => pack_common buf 0 c_Rremove []
  | Tstat_ fid => pack_common buf 4 c_Tstat (pint32 fid)
  | Rstat_ d =>                     (* stsz := statsz; size := 2 + stsz; pint16(uint16(stsz)); pstat *)
    pack_common buf (2 + statsz dotu d) c_Rstat (pint16 (statsz dotu d) ++ pstat dotu d)
  | Twstat_ fid d =>
    pack_common buf (4 + 2 + statsz dotu d) c_Twstat (pint32 fid ++ pint16 (statsz dotu d) ++ pstat dotu d)
  | Rwstat_ => pack_common buf 0 c_Rwstat []
  end.

(* func SetTag(fc *Fcall, tag uint16): pint16(tag, fc.Pkt[5:]) *)
Definition set_tag (pkt : bytes) (tag : N) : res bytes :=
  if len pkt <? 7 then Panic
  else Ok (firstn 5 pkt ++ pint16 tag ++ skipn 7 pkt).

(* The two-step Rread: InitRread(fc, n); copy(fc.Data, data); SetRreadCount(fc, k).
   Result: fc.Pkt. *)
Definition rread_two_step (buf : bytes) (n : N) (data : bytes) (k : N) : res bytes :=
  (* InitRread *)
  let size := (4 + n) mod two32 in
  let total := size + 7 in
  if len buf <? total then Err e_bufsmall
  else
    let hdr := pint32 total ++ pint8 c_Rread ++ pint16 c_NOTAG ++ pint32 n in
    if len buf <? len hdr then Panic
    else
      (* fc.Data = p[4 : fc.Count+4]  (uint32 arithmetic; p = Buf[7:]) *)
      let hi := (n + 4) mod two32 in
      if (hi <? 4) || (len buf - 7 <? hi) then Panic
      else
        let buf1 := overlay hdr buf in
        (* copy(fc.Data, data): min(len Data, len data) bytes at offset 11 *)
        let c := N.min n (len data) in
        let buf2 := firstn 11 buf1 ++ firstn (N.to_nat c) data ++ skipn (11 + N.to_nat c) buf1 in
        (* SetRreadCount(fc, k) *)
        let size' := (4 + 1 + 2 + 4 + k) mod two32 in
        (* pint32(size, fc.Pkt); pint32(count, fc.Pkt[7:]): Pkt has length total >= 11 *)
        if total <? 11 then Panic
        else if len buf <? size' then Panic          (* fc.Pkt[0:size] beyond capacity *)
        else if len buf - 11 <? k then Panic         (* fc.Data[0:count] beyond capacity *)
        else
          let buf3 := pint32 size' ++ skipn 4 (firstn 7 buf2) ++ pint32 k ++ skipn 11 buf2 in
          Ok (firstn (N.to_nat size') buf3).
