(* 9P2000 / 9P2000.u messages as mathematical values, their well-formedness
   ("representable on the wire"), and the INDEPENDENT layout description
   (transcribed from the 9P manual pages intro(5), version(5) ... wstat(5) and the
   9P2000.u extension note), from which [spec_encode] is derived generically.
   Model/spec definitions only. *)
From Coq Require Import NArith List Bool PeanoNat.
From V9 Require Import Lib.GoSem Lib.Bytes Gen.Consts.
Import ListNotations.
Local Open Scope N_scope.

Record qid := mkQid { q_type : N; q_vers : N; q_path : N }.

(* stat record without its own size field (derived: statsz-2) *)
Record dir := mkDir {
  d_type : N; d_dev : N; d_qid : qid; d_mode : N; d_atime : N; d_mtime : N; d_length : N;
  d_name : bytes; d_uid : bytes; d_gid : bytes; d_muid : bytes;
  (* 9P2000.u *)
  d_ext : bytes; d_uidnum : N; d_gidnum : N; d_muidnum : N }.

Inductive msg :=
| Tversion_ (msize : N) (version : bytes)
| Rversion_ (msize : N) (version : bytes)
| Tauth_ (afid : N) (uname aname : bytes) (unamenum : N)
| Rauth_ (aqid : qid)
| Tattach_ (fid afid : N) (uname aname : bytes) (unamenum : N)
| Rattach_ (q : qid)
| Rerror_ (ename : bytes) (errornum : N)
| Tflush_ (oldtag : N)
| Rflush_
| Twalk_ (fid newfid : N) (wnames : list bytes)
| Rwalk_ (wqids : list qid)
| Topen_ (fid mode : N)
| Ropen_ (q : qid) (iounit : N)
| Tcreate_ (fid : N) (name : bytes) (perm mode : N) (ext : bytes)
| Rcreate_ (q : qid) (iounit : N)
| Tread_ (fid offset count : N)
| Rread_ (data : bytes)
| Twrite_ (fid offset : N) (data : bytes)
| Rwrite_ (count : N)
| Tclunk_ (fid : N)
| Rclunk_
| Tremove_ (fid : N)
| Rremove_
| Tstat_ (fid : N)
| Rstat_ (d : dir)
| Twstat_ (fid : N) (d : dir)
| Rwstat_.

(* message type numbers: taken from the generated constants *)
Definition typ (m : msg) : N :=
  match m with
  | Tversion_ _ _ => c_Tversion | Rversion_ _ _ => c_Rversion
  | Tauth_ _ _ _ _ => c_Tauth | Rauth_ _ => c_Rauth
  | Tattach_ _ _ _ _ _ => c_Tattach | Rattach_ _ => c_Rattach
  | Rerror_ _ _ => c_Rerror
  | Tflush_ _ => c_Tflush | Rflush_ => c_Rflush
  | Twalk_ _ _ _ => c_Twalk | Rwalk_ _ => c_Rwalk
  | Topen_ _ _ => c_Topen | Ropen_ _ _ => c_Ropen
  | Tcreate_ _ _ _ _ _ => c_Tcreate | Rcreate_ _ _ => c_Rcreate
  | Tread_ _ _ _ => c_Tread | Rread_ _ => c_Rread
  | Twrite_ _ _ _ => c_Twrite | Rwrite_ _ => c_Rwrite
  | Tclunk_ _ => c_Tclunk | Rclunk_ => c_Rclunk
  | Tremove_ _ => c_Tremove | Rremove_ => c_Rremove
  | Tstat_ _ => c_Tstat | Rstat_ _ => c_Rstat
  | Twstat_ _ _ => c_Twstat | Rwstat_ => c_Rwstat
  end.

(* The numbering the protocol defines (intro(5)); [typ] must agree with it.
   Checked by reflection in the proofs: a renumbered constant in p9.go breaks it. *)
Definition proto_typ (m : msg) : N :=
  match m with
  | Tversion_ _ _ => 100 | Rversion_ _ _ => 101 | Tauth_ _ _ _ _ => 102 | Rauth_ _ => 103
  | Tattach_ _ _ _ _ _ => 104 | Rattach_ _ => 105 | Rerror_ _ _ => 107
  | Tflush_ _ => 108 | Rflush_ => 109 | Twalk_ _ _ _ => 110 | Rwalk_ _ => 111
  | Topen_ _ _ => 112 | Ropen_ _ _ => 113 | Tcreate_ _ _ _ _ _ => 114 | Rcreate_ _ _ => 115
  | Tread_ _ _ _ => 116 | Rread_ _ => 117 | Twrite_ _ _ _ => 118 | Rwrite_ _ => 119
  | Tclunk_ _ => 120 | Rclunk_ => 121 | Tremove_ _ => 122 | Rremove_ => 123
  | Tstat_ _ => 124 | Rstat_ _ => 125 | Twstat_ _ _ => 126 | Rwstat_ => 127
  end.

(* ---------- well-formedness: representable on the wire ---------- *)
Definition wf_u8 (v : N) := v <=? u8max.
Definition wf_u16 (v : N) := v <=? u16max.
Definition wf_u32 (v : N) := v <=? u32max.
Definition wf_u64 (v : N) := v <=? u64max.
Definition wf_str (s : bytes) := (len s <=? u16max) && all_bytes s.
Definition wf_qid (q : qid) := wf_u8 (q_type q) && wf_u32 (q_vers q) && wf_u64 (q_path q).

(* ---------- the layout description ---------- *)
Inductive field :=
| F8 (v : N) | F16 (v : N) | F32 (v : N) | F64 (v : N)
| FS (s : bytes)            (* s: 2-byte length, then the bytes *)
| FQ (q : qid)              (* qid[13] = type[1] version[4] path[8] *)
| FRaw (b : bytes).         (* data[count] *)

Definition enc_field (f : field) : bytes :=
  match f with
  | F8 v => le_enc 1 v
  | F16 v => le_enc 2 v
  | F32 v => le_enc 4 v
  | F64 v => le_enc 8 v
  | FS s => le_enc 2 (len s) ++ s
  | FQ q => le_enc 1 (q_type q) ++ le_enc 4 (q_vers q) ++ le_enc 8 (q_path q)
  | FRaw b => b
  end.

Definition enc_fields (fs : list field) : bytes := flat_map enc_field fs.

(* stat(5): size[2] type[2] dev[4] qid[13] mode[4] atime[4] mtime[4] length[8]
   name[s] uid[s] gid[s] muid[s]; 9P2000.u adds extension[s] n_uid[4] n_gid[4] n_muid[4].
   size counts the bytes that follow it. *)
Definition stat_fields (dotu : bool) (d : dir) : list field :=
  [F16 (d_type d); F32 (d_dev d); FQ (d_qid d); F32 (d_mode d); F32 (d_atime d);
   F32 (d_mtime d); F64 (d_length d); FS (d_name d); FS (d_uid d); FS (d_gid d); FS (d_muid d)]
  ++ (if dotu then [FS (d_ext d); F32 (d_uidnum d); F32 (d_gidnum d); F32 (d_muidnum d)] else []).

Definition spec_stat (dotu : bool) (d : dir) : bytes :=
  let body := enc_fields (stat_fields dotu d) in
  le_enc 2 (len body) ++ body.

Definition wf_dir_fields (dotu : bool) (d : dir) : bool :=
  wf_u16 (d_type d) && wf_u32 (d_dev d) && wf_qid (d_qid d) && wf_u32 (d_mode d)
  && wf_u32 (d_atime d) && wf_u32 (d_mtime d) && wf_u64 (d_length d)
  && wf_str (d_name d) && wf_str (d_uid d) && wf_str (d_gid d) && wf_str (d_muid d)
  && (if dotu then wf_str (d_ext d) && wf_u32 (d_uidnum d) && wf_u32 (d_gidnum d) && wf_u32 (d_muidnum d)
      else true).

(* a stat record whose own 16-bit size field can hold its length *)
Definition wf_dir (dotu : bool) (d : dir) : bool :=
  wf_dir_fields dotu d && (len (spec_stat dotu d) <=? u16max).

(* The message bodies, per manual page. *)
Definition layout (dotu : bool) (m : msg) : list field :=
  match m with
  | Tversion_ ms v | Rversion_ ms v => [F32 ms; FS v]
  | Tauth_ afid un an num => [F32 afid; FS un; FS an] ++ (if dotu then [F32 num] else [])
  | Rauth_ q | Rattach_ q => [FQ q]
  | Tattach_ fid afid un an num =>
    [F32 fid; F32 afid; FS un; FS an] ++ (if dotu then [F32 num] else [])
  | Rerror_ e num => [FS e] ++ (if dotu then [F32 num] else [])
  | Tflush_ ot => [F16 ot]
  | Rflush_ | Rclunk_ | Rremove_ | Rwstat_ => []
  | Twalk_ fid nf names => [F32 fid; F32 nf; F16 (N.of_nat (length names))] ++ map FS names
  | Rwalk_ qs => [F16 (N.of_nat (length qs))] ++ map FQ qs
  | Topen_ fid mode => [F32 fid; F8 mode]
  | Ropen_ q io | Rcreate_ q io => [FQ q; F32 io]
  | Tcreate_ fid name perm mode ext =>
    [F32 fid; FS name; F32 perm; F8 mode] ++ (if dotu then [FS ext] else [])
  | Tread_ fid off cnt => [F32 fid; F64 off; F32 cnt]
  | Rread_ data => [F32 (len data); FRaw data]
  | Twrite_ fid off data => [F32 fid; F64 off; F32 (len data); FRaw data]
  | Rwrite_ cnt => [F32 cnt]
  | Tclunk_ fid | Tremove_ fid | Tstat_ fid => [F32 fid]
  | Rstat_ d => [F16 (len (spec_stat dotu d)); FRaw (spec_stat dotu d)]
  | Twstat_ fid d => [F32 fid; F16 (len (spec_stat dotu d)); FRaw (spec_stat dotu d)]
  end.

(* size[4] type[1] tag[2] body; size counts the whole message *)
Definition spec_encode (dotu : bool) (tag : N) (m : msg) : bytes :=
  let body := enc_fields (layout dotu m) in
  le_enc 4 (7 + len body) ++ [proto_typ m] ++ le_enc 2 tag ++ body.

(* every field within its wire type; strings and lists within their 16-bit counts *)
Definition wf_fields (dotu : bool) (m : msg) : bool :=
  match m with
  | Tversion_ ms v | Rversion_ ms v => wf_u32 ms && wf_str v
  | Tauth_ afid un an num => wf_u32 afid && wf_str un && wf_str an && (if dotu then wf_u32 num else true)
  | Rauth_ q | Rattach_ q => wf_qid q
  | Tattach_ fid afid un an num =>
    wf_u32 fid && wf_u32 afid && wf_str un && wf_str an && (if dotu then wf_u32 num else true)
  | Rerror_ e num => wf_str e && (if dotu then wf_u32 num else true)
  | Tflush_ ot => wf_u16 ot
  | Rflush_ | Rclunk_ | Rremove_ | Rwstat_ => true
  | Twalk_ fid nf names => wf_u32 fid && wf_u32 nf && (N.of_nat (length names) <=? u16max) && forallb wf_str names
  | Rwalk_ qs => (N.of_nat (length qs) <=? u16max) && forallb wf_qid qs
  | Topen_ fid mode => wf_u32 fid && wf_u8 mode
  | Ropen_ q io | Rcreate_ q io => wf_qid q && wf_u32 io
  | Tcreate_ fid name perm mode ext =>
    wf_u32 fid && wf_str name && wf_u32 perm && wf_u8 mode && (if dotu then wf_str ext else true)
  | Tread_ fid off cnt => wf_u32 fid && wf_u64 off && wf_u32 cnt
  | Rread_ data => all_bytes data
  | Twrite_ fid off data => wf_u32 fid && wf_u64 off && all_bytes data
  | Rwrite_ cnt => wf_u32 cnt
  | Tclunk_ fid | Tremove_ fid | Tstat_ fid => wf_u32 fid
  | Rstat_ d => wf_dir_fields dotu d
  | Twstat_ fid d => wf_u32 fid && wf_dir_fields dotu d
  end.

(* the 32-bit size prefix can hold the packet length *)
Definition wf_size (dotu : bool) (m : msg) : bool := len (spec_encode dotu 0 m) <=? u32max.

(* the 16-bit stat size fields can hold the stat length *)
Definition wf_statsize (dotu : bool) (m : msg) : bool :=
  match m with
  | Rstat_ d | Twstat_ _ d => len (spec_stat dotu d) <=? u16max
  | _ => true
  end.

(* representable on the wire *)
Definition wf_msg (dotu : bool) (m : msg) : bool :=
  wf_fields dotu m && wf_statsize dotu m && wf_size dotu m.

(* What decoding yields for fields that the dialect does not carry (the code's
   defaults): plain 9P2000 has no n_uname / ecode / extension / numeric ids. *)
Definition norm_dir (dotu : bool) (d : dir) : dir :=
  if dotu then d else
  mkDir (d_type d) (d_dev d) (d_qid d) (d_mode d) (d_atime d) (d_mtime d) (d_length d)
        (d_name d) (d_uid d) (d_gid d) (d_muid d) [] c_NOUID c_NOUID c_NOUID.

Definition norm_msg (dotu : bool) (m : msg) : msg :=
  if dotu then m else
  match m with
  | Tauth_ afid un an _ => Tauth_ afid un an c_NOUID
  | Tattach_ fid afid un an _ => Tattach_ fid afid un an 0   (* Unpack leaves Unamenum 0 *)
  | Rerror_ e _ => Rerror_ e 0
  | Tcreate_ fid name perm mode _ => Tcreate_ fid name perm mode []
  | Rstat_ d => Rstat_ (norm_dir false d)
  | Twstat_ fid d => Twstat_ fid (norm_dir false d)
  | _ => m
  end.
