(* Helper lemmas for Codec/UnpackProofs.v: byte-string facts and the readers. *)
From Coq Require Import NArith ZArith List Bool PeanoNat Lia.
From Coq Require Import ZifyN ZifyNat ZifyBool.
From V9 Require Import Lib.GoSem Lib.Bytes Gen.Consts Codec.Msg Codec.Unpack.
Import ListNotations.
Local Open Scope N_scope.

Ltac Zify.zify_post_hook ::= Z.div_mod_to_equations.

(* ------------------------------------------------------------------ *)
(* bytes                                                              *)

Lemma le_enc_length k : forall v, length (le_enc k v) = k.
Proof. induction k; intros v; cbn [le_enc length]; auto. Qed.

Lemma pow256_succ k : 256 ^ N.of_nat (S k) = 256 * 256 ^ N.of_nat k.
Proof. rewrite Nat2N.inj_succ, N.pow_succ_r'. reflexivity. Qed.

Lemma le_dec_enc k : forall v, v < 256 ^ N.of_nat k -> le_dec (le_enc k v) = v.
Proof.
  induction k; intros v H.
  - cbn in H. cbn. lia.
  - rewrite pow256_succ in H. cbn [le_enc le_dec].
    rewrite IHk; [lia|].
    set (P := 256 ^ N.of_nat k) in *. clearbody P. lia.
Qed.

Lemma all_bytes_app a b : all_bytes (a ++ b) = all_bytes a && all_bytes b.
Proof. apply forallb_app. Qed.

Lemma all_bytes_firstn n p : all_bytes p = true -> all_bytes (firstn n p) = true.
Proof.
  intros H. rewrite <- (firstn_skipn n p), all_bytes_app in H.
  apply andb_true_iff in H. tauto.
Qed.

Lemma all_bytes_skipn n p : all_bytes p = true -> all_bytes (skipn n p) = true.
Proof.
  intros H. rewrite <- (firstn_skipn n p), all_bytes_app in H.
  apply andb_true_iff in H. tauto.
Qed.

Lemma le_dec_bound l : all_bytes l = true -> le_dec l < 256 ^ N.of_nat (length l).
Proof.
  induction l as [|a l IH]; intros H.
  - cbn. lia.
  - cbn [all_bytes forallb] in H. apply andb_true_iff in H. destruct H as [Ha Hl].
    unfold is_byte in Ha. specialize (IH Hl).
    cbn [length le_dec]. rewrite pow256_succ.
    set (P := 256 ^ N.of_nat (length l)) in *. clearbody P. lia.
Qed.

Lemma le_dec_firstn_lt k p : all_bytes p = true -> le_dec (firstn k p) < 256 ^ N.of_nat k.
Proof.
  intros H. eapply N.lt_le_trans.
  - apply le_dec_bound, all_bytes_firstn, H.
  - apply N.pow_le_mono_r; [lia|]. pose proof (firstn_le_length k p). lia.
Qed.

Lemma wf_u8_iff v : wf_u8 v = true <-> v <= 255.
Proof. unfold wf_u8, u8max. apply N.leb_le. Qed.
Lemma wf_u16_iff v : wf_u16 v = true <-> v <= 65535.
Proof. unfold wf_u16, u16max. apply N.leb_le. Qed.
Lemma wf_u32_iff v : wf_u32 v = true <-> v <= 4294967295.
Proof. unfold wf_u32, u32max. apply N.leb_le. Qed.
Lemma wf_u64_iff v : wf_u64 v = true <-> v <= 18446744073709551615.
Proof. unfold wf_u64, u64max. apply N.leb_le. Qed.

Lemma lt_pow_u8 v : v < 256 ^ N.of_nat 1 -> wf_u8 v = true.
Proof. change (256 ^ N.of_nat 1) with 256. intros H. apply wf_u8_iff. lia. Qed.
Lemma lt_pow_u16 v : v < 256 ^ N.of_nat 2 -> wf_u16 v = true.
Proof. change (256 ^ N.of_nat 2) with 65536. intros H. apply wf_u16_iff. lia. Qed.
Lemma lt_pow_u32 v : v < 256 ^ N.of_nat 4 -> wf_u32 v = true.
Proof. change (256 ^ N.of_nat 4) with 4294967296. intros H. apply wf_u32_iff. lia. Qed.
Lemma lt_pow_u64 v : v < 256 ^ N.of_nat 8 -> wf_u64 v = true.
Proof. change (256 ^ N.of_nat 8) with 18446744073709551616. intros H. apply wf_u64_iff. lia. Qed.

(* ------------------------------------------------------------------ *)
(* safety predicate                                                   *)

Definition safe {A} (r : res A) : Prop := r <> Panic /\ r <> OutOfFuel.

Lemma safe_ok {A} (a : A) : safe (Ok a).
Proof. split; discriminate. Qed.
Lemma safe_err {A} e : safe (@Err A e).
Proof. split; discriminate. Qed.

Lemma safe_bind {A B} (r : res A) (f : A -> res B) :
  safe r -> (forall a, r = Ok a -> safe (f a)) -> safe (bind r f).
Proof.
  intros [H1 H2] Hf. destruct r; cbn [bind]; try congruence.
  - apply Hf; reflexivity.
  - apply safe_err.
Qed.

(* ------------------------------------------------------------------ *)
(* gint                                                               *)

Lemma gint_ok k p : (k <= length p)%nat -> gint k p = Ok (le_dec (firstn k p), skipn k p).
Proof. intros H. unfold gint. destruct (length p <? k)%nat eqn:E; [lia|reflexivity]. Qed.

Lemma gint_safe k p : (k <= length p)%nat -> safe (gint k p).
Proof. intros H. rewrite gint_ok by exact H. apply safe_ok. Qed.

Lemma gint_val k p v r : gint k p = Ok (v, r) ->
  (k <= length p)%nat /\ v = le_dec (firstn k p) /\ r = skipn k p.
Proof.
  unfold gint. destruct (length p <? k)%nat eqn:E; [discriminate|].
  intros H; inversion H; subst. repeat split; lia.
Qed.

Lemma gint_inv k p v r : gint k p = Ok (v, r) ->
  length p = (k + length r)%nat /\
  (all_bytes p = true -> all_bytes r = true /\ v < 256 ^ N.of_nat k).
Proof.
  intros H. apply gint_val in H. destruct H as (Hk & -> & ->).
  split.
  - rewrite skipn_length. lia.
  - intros Hb. split; [apply all_bytes_skipn, Hb | apply le_dec_firstn_lt, Hb].
Qed.

Lemma gint_app k a rest : length a = k -> gint k (a ++ rest) = Ok (le_dec a, rest).
Proof.
  intros H. rewrite gint_ok by (rewrite app_length; lia).
  subst k. rewrite firstn_app, Nat.sub_diag, firstn_all, firstn_O, app_nil_r.
  rewrite skipn_app, Nat.sub_diag, skipn_all. reflexivity.
Qed.

Lemma gint_enc k v rest : v < 256 ^ N.of_nat k -> gint k (le_enc k v ++ rest) = Ok (v, rest).
Proof.
  intros H. rewrite gint_app by apply le_enc_length. rewrite le_dec_enc by exact H. reflexivity.
Qed.

Lemma gint_enc1 v rest : wf_u8 v = true -> gint 1 (le_enc 1 v ++ rest) = Ok (v, rest).
Proof. intros H. apply gint_enc. change (256 ^ N.of_nat 1) with 256. apply wf_u8_iff in H. lia. Qed.
Lemma gint_enc2 v rest : wf_u16 v = true -> gint 2 (le_enc 2 v ++ rest) = Ok (v, rest).
Proof. intros H. apply gint_enc. change (256 ^ N.of_nat 2) with 65536. apply wf_u16_iff in H. lia. Qed.
Lemma gint_enc4 v rest : wf_u32 v = true -> gint 4 (le_enc 4 v ++ rest) = Ok (v, rest).
Proof. intros H. apply gint_enc. change (256 ^ N.of_nat 4) with 4294967296. apply wf_u32_iff in H. lia. Qed.
Lemma gint_enc8 v rest : wf_u64 v = true -> gint 8 (le_enc 8 v ++ rest) = Ok (v, rest).
Proof. intros H. apply gint_enc. change (256 ^ N.of_nat 8) with 18446744073709551616. apply wf_u64_iff in H. lia. Qed.

(* ------------------------------------------------------------------ *)
(* gstr                                                               *)

Lemma gstr_or_cases e p :
  gstr_or e p = Err e \/
  exists s r, gstr_or e p = Ok (s, r) /\
    length p = (2 + length s + length r)%nat /\
    (all_bytes p = true -> all_bytes r = true /\ wf_str s = true).
Proof.
  unfold gstr_or, gstr.
  destruct (length p <? 2)%nat eqn:E1; cbn [bind]; [left; reflexivity|].
  destruct (length (skipn 2 p) <? N.to_nat (le_dec (firstn 2 p)))%nat eqn:E2; cbn [bind]; [left; reflexivity|].
  right. eexists _, _. split; [reflexivity|].
  rewrite skipn_length in E2.
  split.
  - rewrite firstn_length, !skipn_length. lia.
  - intros Hb. split; [apply all_bytes_skipn, all_bytes_skipn, Hb|].
    unfold wf_str. apply andb_true_iff. split; [|apply all_bytes_firstn, all_bytes_skipn, Hb].
    pose proof (le_dec_firstn_lt 2 p Hb) as Hlt. change (256 ^ N.of_nat 2) with 65536 in Hlt.
    unfold len, u16max. rewrite firstn_length, skipn_length. lia.
Qed.

Lemma gstr_or_safe e p : safe (gstr_or e p).
Proof.
  destruct (gstr_or_cases e p) as [E | (s & r & E & _)]; rewrite E; [apply safe_err | apply safe_ok].
Qed.

Lemma gstr_or_inv e p s r : gstr_or e p = Ok (s, r) ->
  length p = (2 + length s + length r)%nat /\
  (all_bytes p = true -> all_bytes r = true /\ wf_str s = true).
Proof.
  intros H. destruct (gstr_or_cases e p) as [E | (s' & r' & E & Hl)]; rewrite E in H; [discriminate|].
  inversion H; subst. exact Hl.
Qed.

Lemma gstr_or_enc e s rest : len s <= u16max ->
  gstr_or e (le_enc 2 (len s) ++ s ++ rest) = Ok (s, rest).
Proof.
  intros H. unfold gstr_or, gstr.
  assert (Hd : le_dec (firstn 2 (le_enc 2 (len s) ++ s ++ rest)) = len s).
  { rewrite firstn_app, le_enc_length, Nat.sub_diag, firstn_O, app_nil_r.
    rewrite <- (le_enc_length 2 (len s)) at 1. rewrite firstn_all.
    apply le_dec_enc. change (256 ^ N.of_nat 2) with 65536. unfold u16max in H. lia. }
  rewrite Hd.
  assert (Hs : skipn 2 (le_enc 2 (len s) ++ s ++ rest) = s ++ rest).
  { rewrite skipn_app, le_enc_length, Nat.sub_diag.
    rewrite <- (le_enc_length 2 (len s)) at 1. rewrite skipn_all. reflexivity. }
  rewrite Hs. unfold len. rewrite Nat2N.id.
  rewrite !app_length, le_enc_length.
  destruct (2 + (length s + length rest) <? 2)%nat eqn:E1; [lia|].
  destruct (length s + length rest <? length s)%nat eqn:E2; [lia|].
  cbn [bind]. rewrite firstn_app, Nat.sub_diag, firstn_all, firstn_O, app_nil_r.
  rewrite skipn_app, Nat.sub_diag, skipn_all. reflexivity.
Qed.

Lemma gstr_or_enc' e s rest : wf_str s = true ->
  gstr_or e (le_enc 2 (len s) ++ s ++ rest) = Ok (s, rest).
Proof.
  intros H. apply gstr_or_enc. unfold wf_str in H. apply andb_true_iff in H. lia.
Qed.

(* ------------------------------------------------------------------ *)
(* generic stepping                                                   *)

Lemma bind_ok_inv {A B} (r : res A) (f : A -> res B) b :
  bind r f = Ok b -> exists a, r = Ok a /\ f a = Ok b.
Proof. destruct r; cbn [bind]; try discriminate. intros H. eexists; split; [reflexivity|exact H]. Qed.

Lemma firstn_app_len {A} (a b : list A) n : length a = n -> firstn n (a ++ b) = a.
Proof. intros <-. rewrite firstn_app, Nat.sub_diag, firstn_all, firstn_O, app_nil_r. reflexivity. Qed.

Lemma skipn_app_len {A} (a b : list A) n : length a = n -> skipn n (a ++ b) = b.
Proof. intros <-. rewrite skipn_app, Nat.sub_diag, skipn_all. reflexivity. Qed.

Lemma wf_str_len s : wf_str s = true -> len s <= 65535.
Proof. unfold wf_str, u16max. intros H. apply andb_true_iff in H. lia. Qed.

Lemma wf_str_bytes s : wf_str s = true -> all_bytes s = true.
Proof. unfold wf_str. intros H. apply andb_true_iff in H. tauto. Qed.

Ltac split_andb :=
  repeat match goal with
  | H : _ && _ = true |- _ => apply andb_true_iff in H; destruct H
  end.

Ltac pow_norm :=
  change (256 ^ N.of_nat 1) with 256 in *;
  change (256 ^ N.of_nat 2) with 65536 in *;
  change (256 ^ N.of_nat 4) with 4294967296 in *;
  change (256 ^ N.of_nat 8) with 18446744073709551616 in *.

(* forward-chain the all_bytes facts produced by the inversion lemmas *)
Ltac chain :=
  repeat match goal with
  | Hb : all_bytes ?p = true, H : all_bytes ?p = true -> _ |- _ =>
      specialize (H Hb); destruct H as [? ?]
  end;
  repeat match goal with
  | H : _ /\ _ |- _ => destruct H
  end.

(* ------------------------------------------------------------------ *)
(* gqid                                                               *)

Lemma gqid_safe p : (13 <= length p)%nat -> safe (gqid p).
Proof.
  intros H. unfold gqid.
  apply safe_bind; [apply gint_safe; lia|]. intros [v1 r1] E1. apply gint_inv in E1. destruct E1 as [L1 _].
  apply safe_bind; [apply gint_safe; lia|]. intros [v2 r2] E2. apply gint_inv in E2. destruct E2 as [L2 _].
  apply safe_bind; [apply gint_safe; lia|]. intros [v3 r3] E3. apply safe_ok.
Qed.

Lemma gqid_inv p q r : gqid p = Ok (q, r) ->
  length p = (13 + length r)%nat /\
  (all_bytes p = true -> all_bytes r = true /\ wf_qid q = true).
Proof.
  unfold gqid. intros H.
  apply bind_ok_inv in H. destruct H as ([v1 r1] & E1 & H). apply gint_inv in E1.
  apply bind_ok_inv in H. destruct H as ([v2 r2] & E2 & H). apply gint_inv in E2.
  apply bind_ok_inv in H. destruct H as ([v3 r3] & E3 & H). apply gint_inv in E3.
  inversion H; subst; clear H.
  destruct E1 as [L1 B1], E2 as [L2 B2], E3 as [L3 B3].
  split; [lia|]. intros Hb. chain. split; [assumption|].
  unfold wf_qid. cbn [q_type q_vers q_path].
  rewrite lt_pow_u8, lt_pow_u32, lt_pow_u64 by assumption. reflexivity.
Qed.

Lemma gqid_enc q rest : wf_qid q = true ->
  gqid (le_enc 1 (q_type q) ++ le_enc 4 (q_vers q) ++ le_enc 8 (q_path q) ++ rest) = Ok (q, rest).
Proof.
  unfold wf_qid. intros H. split_andb. unfold gqid.
  rewrite gint_enc1 by assumption. cbn [bind].
  rewrite gint_enc4 by assumption. cbn [bind].
  rewrite gint_enc8 by assumption. cbn [bind].
  destruct q; reflexivity.
Qed.

(* ------------------------------------------------------------------ *)
(* gnames / gqids / gunamenum                                         *)

Lemma gnames_safe k : forall p, safe (gnames k p).
Proof.
  induction k; intros p; cbn [gnames]; [apply safe_ok|].
  apply safe_bind; [apply gstr_or_safe|]. intros [s r] _.
  apply safe_bind; [apply IHk|]. intros [l r'] _. apply safe_ok.
Qed.

Lemma gnames_inv k : forall p names r, gnames k p = Ok (names, r) ->
  length names = k /\
  length p = (length (enc_fields (map FS names)) + length r)%nat /\
  (all_bytes p = true -> all_bytes r = true /\ forallb wf_str names = true).
Proof.
  induction k; intros p names r H; cbn [gnames] in H.
  - inversion H; subst. cbn. auto.
  - apply bind_ok_inv in H. destruct H as ([s r1] & E1 & H). apply gstr_or_inv in E1.
    apply bind_ok_inv in H. destruct H as ([l r2] & E2 & H). apply IHk in E2.
    inversion H; subst; clear H.
    destruct E1 as [L1 B1], E2 as (L2 & L3 & B2).
    cbn [length map enc_fields flat_map enc_field forallb]. fold (enc_fields (map FS l)).
    split; [lia|]. split.
    + rewrite !app_length, le_enc_length. lia.
    + intros Hb. chain. split; [assumption|]. apply andb_true_iff; split; assumption.
Qed.

Lemma gnames_enc names : forall rest, forallb wf_str names = true ->
  gnames (length names) (enc_fields (map FS names) ++ rest) = Ok (names, rest).
Proof.
  induction names as [|s l IH]; intros rest H.
  - reflexivity.
  - cbn [forallb] in H. split_andb.
    cbn [length gnames map enc_fields flat_map enc_field]. fold (enc_fields (map FS l)).
    rewrite <- !app_assoc. rewrite gstr_or_enc' by assumption. cbn [bind].
    rewrite IH by assumption. reflexivity.
Qed.

Lemma names_len_ge names : (2 * length names <= length (enc_fields (map FS names)))%nat.
Proof.
  induction names as [|s l IH]; [cbn; lia|].
  cbn [length map enc_fields flat_map enc_field]. fold (enc_fields (map FS l)).
  rewrite !app_length, le_enc_length. lia.
Qed.

Lemma gqids_safe k : forall p, (13 * k <= length p)%nat -> safe (gqids k p).
Proof.
  induction k; intros p Hl; cbn [gqids]; [apply safe_ok|].
  apply safe_bind; [apply gqid_safe; lia|]. intros [q r] E. apply gqid_inv in E. destruct E as [L _].
  apply safe_bind; [apply IHk; lia|]. intros [l r'] _. apply safe_ok.
Qed.

Lemma gqids_inv k : forall p qs r, gqids k p = Ok (qs, r) ->
  length qs = k /\
  length p = (13 * k + length r)%nat /\
  (all_bytes p = true -> all_bytes r = true /\ forallb wf_qid qs = true).
Proof.
  induction k; intros p qs r H; cbn [gqids] in H.
  - inversion H; subst. cbn. auto.
  - apply bind_ok_inv in H. destruct H as ([q r1] & E1 & H). apply gqid_inv in E1.
    apply bind_ok_inv in H. destruct H as ([l r2] & E2 & H). apply IHk in E2.
    inversion H; subst; clear H.
    destruct E1 as [L1 B1], E2 as (L2 & L3 & B2).
    cbn [length forallb].
    split; [lia|]. split; [lia|].
    intros Hb. chain. split; [assumption|]. apply andb_true_iff; split; assumption.
Qed.

Lemma qids_len qs : length (enc_fields (map FQ qs)) = (13 * length qs)%nat.
Proof.
  induction qs as [|q l IH]; [reflexivity|].
  cbn [length map enc_fields flat_map enc_field]. fold (enc_fields (map FQ l)).
  rewrite !app_length, !le_enc_length. lia.
Qed.

Lemma gqids_enc qs : forall rest, forallb wf_qid qs = true ->
  gqids (length qs) (enc_fields (map FQ qs) ++ rest) = Ok (qs, rest).
Proof.
  induction qs as [|q l IH]; intros rest H.
  - reflexivity.
  - cbn [forallb] in H. split_andb.
    cbn [length gqids map enc_fields flat_map enc_field]. fold (enc_fields (map FQ l)).
    rewrite <- !app_assoc. rewrite gqid_enc by assumption. cbn [bind].
    rewrite IH by assumption. reflexivity.
Qed.

Lemma gunamenum_safe p : safe (gunamenum p).
Proof.
  unfold gunamenum. destruct (0 <? length p)%nat; [|apply safe_ok].
  destruct (length p <? 4)%nat eqn:E; [apply safe_err|]. apply gint_safe. lia.
Qed.

Lemma gunamenum_inv p v r : gunamenum p = Ok (v, r) ->
  (length p = (4 + length r)%nat /\ (all_bytes p = true -> all_bytes r = true /\ v < 256 ^ N.of_nat 4))
  \/ (p = [] /\ r = [] /\ v = c_NOUID).
Proof.
  unfold gunamenum. destruct (0 <? length p)%nat eqn:E0.
  - destruct (length p <? 4)%nat; [discriminate|]. intros H. left. apply gint_inv, H.
  - intros H. inversion H; subst. right. destruct r; [auto|cbn in E0; lia].
Qed.

Lemma gunamenum_enc v : wf_u32 v = true -> gunamenum (le_enc 4 v ++ []) = Ok (v, []).
Proof.
  intros H. unfold gunamenum. rewrite app_length, le_enc_length. cbn [length Nat.add Nat.ltb Nat.leb].
  apply gint_enc4, H.
Qed.

(* ------------------------------------------------------------------ *)
(* stepping tactics                                                   *)

Ltac wf_solve :=
  repeat match goal with |- _ && _ = true => apply andb_true_iff; split end;
  first [ assumption | reflexivity
        | apply lt_pow_u8; assumption | apply lt_pow_u16; assumption
        | apply lt_pow_u32; assumption | apply lt_pow_u64; assumption
        | apply all_bytes_firstn; assumption | unfold u16max; lia ].

Ltac istep0 H :=
  let E := fresh "E" in
  lazymatch type of H with
  | bind (gint _ _) _ = Ok _ =>
      apply bind_ok_inv in H; destruct H as ([? ?] & E & H); apply gint_inv in E; destruct E as [? ?]
  | bind (gstr_or _ _) _ = Ok _ =>
      apply bind_ok_inv in H; destruct H as ([? ?] & E & H); apply gstr_or_inv in E; destruct E as [? ?]
  | bind (gqid _) _ = Ok _ =>
      apply bind_ok_inv in H; destruct H as ([? ?] & E & H); apply gqid_inv in E; destruct E as [? ?]
  | bind (gnames _ _) _ = Ok _ =>
      apply bind_ok_inv in H; destruct H as ([? ?] & E & H); apply gnames_inv in E; destruct E as (? & ? & ?)
  | bind (gqids _ _) _ = Ok _ =>
      apply bind_ok_inv in H; destruct H as ([? ?] & E & H); apply gqids_inv in E; destruct E as (? & ? & ?)
  | bind (gunamenum _) _ = Ok _ =>
      apply bind_ok_inv in H; destruct H as ([? ?] & E & H); apply gunamenum_inv in E;
      destruct E as [[? ?] | (? & ? & ?)]
  | (if ?c then _ else _) = Ok _ => destruct c eqn:?; try discriminate H
  end; cbv beta iota in H.

Ltac sstep0 :=
  let E := fresh "E" in
  lazymatch goal with
  | |- safe (bind (gint _ _) _) =>
      apply safe_bind; [apply gint_safe; lia | intros [? ?] E; apply gint_inv in E; destruct E as [? _]]
  | |- safe (bind (gstr_or _ _) _) =>
      apply safe_bind; [apply gstr_or_safe | intros [? ?] E; apply gstr_or_inv in E; destruct E as [? _]]
  | |- safe (bind (gqid _) _) =>
      apply safe_bind; [apply gqid_safe; lia | intros [? ?] E; apply gqid_inv in E; destruct E as [? _]]
  | |- safe (bind (gnames _ _) _) => apply safe_bind; [apply gnames_safe | intros [? ?] _]
  | |- safe (bind (gqids _ _) _) => apply safe_bind; [apply gqids_safe; lia | intros [? ?] _]
  | |- safe (bind (gunamenum _) _) => apply safe_bind; [apply gunamenum_safe | intros [? ?] _]
  | |- safe (if ?c then _ else _) => destruct c eqn:?
  | |- safe (Ok _) => apply safe_ok
  | |- safe (Err _) => apply safe_err
  end; cbv beta iota.

Ltac estep :=
  first [ rewrite gint_enc1 by assumption | rewrite gint_enc2 by assumption
        | rewrite gint_enc4 by assumption | rewrite gint_enc8 by assumption
        | rewrite gstr_or_enc' by assumption | rewrite gqid_enc by assumption ];
  cbn [bind].

(* ------------------------------------------------------------------ *)
(* gstat                                                              *)

Lemma gstat_safe dotu p : safe (gstat dotu p).
Proof.
  unfold gstat. destruct (length p <? _)%nat eqn:E0; [apply safe_err|].
  destruct dotu; repeat sstep0.
Qed.

Lemma gstat_inv dotu p sz d r : gstat dotu p = Ok (sz, d, r) ->
  length p = (length (spec_stat dotu d) + length r)%nat /\
  (all_bytes p = true -> all_bytes r = true /\ wf_dir_fields dotu d = true /\ norm_dir dotu d = d).
Proof.
  unfold gstat. destruct (length p <? _)%nat eqn:E0; [discriminate|]. intros H.
  destruct dotu; repeat istep0 H; inversion H; subst; clear H.
  - split.
    + unfold spec_stat, stat_fields.
      cbn [app enc_fields flat_map enc_field d_type d_dev d_qid d_mode d_atime d_mtime d_length
             d_name d_uid d_gid d_muid d_ext d_uidnum d_gidnum d_muidnum].
      rewrite ?app_length, ?le_enc_length. cbn [length]. lia.
    + intros Hb. chain. split; [assumption|]. split; [|reflexivity].
      unfold wf_dir_fields.
      cbn [d_type d_dev d_qid d_mode d_atime d_mtime d_length
             d_name d_uid d_gid d_muid d_ext d_uidnum d_gidnum d_muidnum].
      wf_solve.
  - split.
    + unfold spec_stat, stat_fields.
      cbn [app enc_fields flat_map enc_field d_type d_dev d_qid d_mode d_atime d_mtime d_length
             d_name d_uid d_gid d_muid d_ext d_uidnum d_gidnum d_muidnum].
      rewrite ?app_length, ?le_enc_length. cbn [length]. lia.
    + intros Hb. chain. split; [assumption|]. split; [|reflexivity].
      unfold wf_dir_fields.
      cbn [d_type d_dev d_qid d_mode d_atime d_mtime d_length
             d_name d_uid d_gid d_muid d_ext d_uidnum d_gidnum d_muidnum].
      wf_solve.
Qed.

Lemma gstat_enc dotu d rest : wf_dir_fields dotu d = true ->
  gstat dotu (spec_stat dotu d ++ rest) =
  Ok (le_dec (le_enc 2 (len (enc_fields (stat_fields dotu d)))), norm_dir dotu d, rest).
Proof.
  intros H. unfold wf_dir_fields in H. unfold spec_stat. cbv zeta.
  set (sz := len (enc_fields (stat_fields dotu d))). clearbody sz.
  destruct dotu; split_andb; unfold stat_fields; cbn [app enc_fields flat_map enc_field];
    rewrite <- ?app_assoc; unfold gstat;
    (match goal with |- (if ?c then _ else _) = _ => destruct c eqn:E0 end;
     [rewrite ?app_length, ?le_enc_length in E0; lia|]);
    rewrite gint_app by apply le_enc_length; cbn [bind];
    repeat estep.
  - match goal with |- (if ?c then _ else _) = _ => destruct c eqn:E1 end;
     [rewrite ?app_length, ?le_enc_length in E1; lia|].
    repeat estep. destruct d; reflexivity.
  - destruct d; reflexivity.
Qed.

Ltac istep H :=
  let E := fresh "E" in
  lazymatch type of H with
  | bind (gstat _ _) _ = Ok _ =>
      apply bind_ok_inv in H; destruct H as ([[? ?] ?] & E & H); apply gstat_inv in E; destruct E as [? ?];
      cbv beta iota in H
  | _ => istep0 H
  end.

Ltac sstep :=
  lazymatch goal with
  | |- safe (bind (gstat _ _) _) => apply safe_bind; [apply gstat_safe | intros [[? ?] ?] _]; cbv beta iota
  | |- _ => sstep0
  end.

(* ------------------------------------------------------------------ *)
(* unpack_body                                                        *)

Ltac ub_consts :=
  unfold c_Tversion, c_Rversion, c_Tauth, c_Rauth, c_Tattach, c_Rattach, c_Terror, c_Rerror,
    c_Tflush, c_Rflush, c_Twalk, c_Rwalk, c_Topen, c_Ropen, c_Tcreate, c_Rcreate, c_Tread, c_Rread,
    c_Twrite, c_Rwrite, c_Tclunk, c_Rclunk, c_Tremove, c_Rremove, c_Tstat, c_Rstat, c_Twstat, c_Rwstat.
Ltac ub_consts_in H :=
  unfold c_Tversion, c_Rversion, c_Tauth, c_Rauth, c_Tattach, c_Rattach, c_Terror, c_Rerror,
    c_Tflush, c_Rflush, c_Twalk, c_Rwalk, c_Topen, c_Ropen, c_Tcreate, c_Rcreate, c_Tread, c_Rread,
    c_Twrite, c_Rwrite, c_Tclunk, c_Rclunk, c_Tremove, c_Rremove, c_Tstat, c_Rstat, c_Twstat, c_Rwstat in H.
Ltac ub_red := unfold unpack_body; ub_consts; cbn [N.eqb Pos.eqb orb].
Ltac ub_red_in H := unfold unpack_body in H; ub_consts_in H; cbn [N.eqb Pos.eqb orb] in H.

Lemma ty_cases ty : 100 <= ty -> ty < 128 ->
  ty = 100 \/ ty = 101 \/ ty = 102 \/ ty = 103 \/ ty = 104 \/ ty = 105 \/ ty = 106 \/ ty = 107 \/
  ty = 108 \/ ty = 109 \/ ty = 110 \/ ty = 111 \/ ty = 112 \/ ty = 113 \/ ty = 114 \/ ty = 115 \/
  ty = 116 \/ ty = 117 \/ ty = 118 \/ ty = 119 \/ ty = 120 \/ ty = 121 \/ ty = 122 \/ ty = 123 \/
  ty = 124 \/ ty = 125 \/ ty = 126 \/ ty = 127.
Proof. lia. Qed.

Ltac ty_split ty H1 H2 :=
  let C := fresh "C" in
  pose proof (ty_cases ty H1 H2) as C; clear H1 H2;
  repeat (destruct C as [C|C]; [subst ty|]); [..|subst ty].

Lemma unpack_body_safe (dotu : bool) ty p sz :
  100 <= ty -> ty < 128 ->
  nth_error (if dotu then c_minFcusize else c_minFcsize) (N.to_nat (ty - 100)) = Some sz ->
  sz <= len p -> safe (unpack_body dotu ty p).
Proof.
  intros H1 H2 Hn Hl. unfold len in Hl.
  ty_split ty H1 H2; destruct dotu; vm_compute in Hn; inversion Hn; subst sz; clear Hn.
  all: ub_red.
  all: unfold len.
  all: repeat sstep.
Qed.

Lemma qids_len' qs : length (flat_map enc_field (map FQ qs)) = (13 * length qs)%nat.
Proof. exact (qids_len qs). Qed.

Ltac len_norm :=
  unfold enc_fields in *; cbn [layout flat_map enc_field app]; unfold len in *;
  rewrite ?app_length, ?le_enc_length, ?qids_len', ?firstn_length, ?skipn_length; cbn [length].

Ltac wf_lens :=
  repeat match goal with
  | H : wf_str ?s = true |- _ => apply wf_str_len in H; unfold len in H
  end.

Lemma unpack_body_inv dotu ty p m rest :
  100 <= ty -> ty < 128 -> unpack_body dotu ty p = Ok (m, rest) ->
  typ m = ty /\ ty <> 106 /\
  (all_bytes p = true ->
     wf_fields dotu m = true /\ norm_msg dotu m = m /\
     (len (enc_fields (layout dotu m)) + len rest <= len p \/
      len (enc_fields (layout dotu m)) <= 200000)).
Proof.
  intros H1 H2 H.
  ty_split ty H1 H2; destruct dotu; ub_red_in H; try discriminate H.
  all: repeat istep H; inversion H; subst; clear H.
  all: (split; [reflexivity|]); (split; [discriminate|]).
  all: intros Hb; chain; pow_norm.
  all: split; [cbn [wf_fields]; try wf_solve|split; [first [reflexivity | cbn [norm_msg]; congruence]|]].
  all: try (left; len_norm; lia).
  all: right; len_norm; wf_lens; lia.
Qed.

Lemma typ_proto m : typ m = proto_typ m.
Proof. destruct m; reflexivity. Qed.

Lemma proto_typ_range m : 100 <= proto_typ m /\ proto_typ m < 128.
Proof. destruct m; cbn [proto_typ]; lia. Qed.

Lemma names_len_ge' names : (2 * length names <= length (flat_map enc_field (map FS names)))%nat.
Proof. exact (names_len_ge names). Qed.

Lemma unpack_body_enc dotu m :
  wf_fields dotu m = true -> len (enc_fields (layout dotu m)) <= u32max ->
  unpack_body dotu (proto_typ m) (enc_fields (layout dotu m)) = Ok (norm_msg dotu m, []).
Proof.
  intros Hw Hs.
  destruct m, dotu; cbn [proto_typ wf_fields norm_msg] in *; ub_red; split_andb;
    cbn [layout app enc_fields flat_map enc_field] in *; rewrite <- ?app_assoc; repeat estep.
  all: try reflexivity.
  (* Tauth / Tattach, dotu *)
  1-2: rewrite gunamenum_enc by assumption; reflexivity.
  (* Twalk *)
  1-2: (match goal with |- (if ?c then _ else _) = _ => destruct c eqn:E0 end;
        [pose proof (names_len_ge' wnames); unfold len in E0; lia|]);
       rewrite Nat2N.id; rewrite <- (app_nil_r (flat_map enc_field (map FS wnames)));
       change (flat_map enc_field (map FS wnames)) with (enc_fields (map FS wnames));
       rewrite gnames_enc by assumption; reflexivity.
  (* Rwalk *)
  1-2: (match goal with |- (if ?c then _ else _) = _ => destruct c eqn:E0 end;
        [pose proof (qids_len' wqids); unfold len in E0; lia|]);
       rewrite Nat2N.id; rewrite <- (app_nil_r (flat_map enc_field (map FQ wqids)));
       change (flat_map enc_field (map FQ wqids)) with (enc_fields (map FQ wqids));
       rewrite gqids_enc by assumption; reflexivity.
  (* Rread, Twrite *)
  1-4: assert (Hd : wf_u32 (len data) = true)
         by (apply wf_u32_iff; unfold u32max, len in *;
             rewrite ?app_length, ?le_enc_length in Hs; lia);
       rewrite gint_enc4 by assumption; cbn [bind]; rewrite app_nil_r;
       rewrite ?N.ltb_irrefl, ?N.eqb_refl; cbn [negb]; unfold len; rewrite ?Nat2N.id, ?firstn_all, ?skipn_all;
       reflexivity.
  (* Rstat, Twstat *)
  all: rewrite gint_app by apply le_enc_length; cbn [bind];
       rewrite gstat_enc by assumption; cbn [bind snd]; reflexivity.
Qed.

(* ------------------------------------------------------------------ *)
(* unpack                                                             *)

Lemma unpack_inv dotu buf t m n : unpack dotu buf = Ok (t, m, n) ->
  (7 <= length buf)%nat /\ n = le_dec (firstn 4 buf) /\ 7 <= n /\ n <= len buf /\
  t = le_dec (firstn 2 (skipn 5 buf)) /\
  100 <= le_dec (firstn 1 (skipn 4 buf)) /\ le_dec (firstn 1 (skipn 4 buf)) < 128 /\
  unpack_body dotu (le_dec (firstn 1 (skipn 4 buf)))
    (firstn (N.to_nat n - 7) (skipn 7 buf)) = Ok (m, []).
Proof.
  unfold unpack, c_Tversion, c_Tlast.
  destruct (length buf <? 7)%nat eqn:E0; [discriminate|].
  match goal with |- (if ?c then _ else _) = _ -> _ => destruct c eqn:E1; [discriminate|] end.
  match goal with |- (if ?c then _ else _) = _ -> _ => destruct c eqn:E2; [discriminate|] end.
  destruct (nth_error _ _) as [sz|]; [|discriminate].
  match goal with |- (if ?c then _ else _) = _ -> _ => destruct c eqn:E3; [discriminate|] end.
  intros H. apply bind_ok_inv in H. destruct H as ([m' rest] & E & H).
  destruct rest as [|x rest]; cbn [length Nat.ltb Nat.leb] in H; [|discriminate].
  assert (Ht : t = le_dec (firstn 2 (skipn 5 buf))) by congruence.
  assert (Hm : m = m') by congruence.
  assert (Hn : n = le_dec (firstn 4 buf)) by congruence.
  clear H; subst t m' n.
  repeat match goal with |- _ /\ _ => split end; try lia; try reflexivity. exact E.
Qed.

Lemma skipn_add {A} a : forall b (l : list A), skipn (a + b) l = skipn b (skipn a l).
Proof.
  induction a; intros b l; [reflexivity|].
  destruct l; cbn [Nat.add skipn]; [destruct b; reflexivity|apply IHa].
Qed.

Lemma unpack_frame (dotu : bool) pt t b rest :
  100 <= pt -> pt < 128 -> t <= 65535 -> 7 + len b <= 4294967295 ->
  unpack dotu (le_enc 4 (7 + len b) ++ [pt] ++ le_enc 2 t ++ b ++ rest) =
  match nth_error (if dotu then c_minFcusize else c_minFcsize) (N.to_nat (pt - 100)) with
  | None => Panic
  | Some sz =>
    if 7 + len b <? sz + 7 then Err e_szerror
    else
      do (m, r) <- unpack_body dotu pt b;
      if (0 <? length r)%nat then Err e_szerror else Ok (t, m, 7 + len b)
  end.
Proof.
  intros H1 H2 Ht Hs.
  set (buf := le_enc 4 (7 + len b) ++ [pt] ++ le_enc 2 t ++ b ++ rest).
  assert (F4 : firstn 4 buf = le_enc 4 (7 + len b)) by (apply firstn_app_len, le_enc_length).
  assert (S4 : skipn 4 buf = [pt] ++ le_enc 2 t ++ b ++ rest) by (apply skipn_app_len, le_enc_length).
  assert (S5 : skipn 5 buf = le_enc 2 t ++ b ++ rest).
  { change 5%nat with (4 + 1)%nat. rewrite skipn_add, S4. reflexivity. }
  assert (S7 : skipn 7 buf = b ++ rest).
  { change 7%nat with (5 + 2)%nat. rewrite skipn_add, S5.
    apply skipn_app_len, le_enc_length. }
  assert (Lb : length buf = (7 + length b + length rest)%nat).
  { unfold buf. rewrite !app_length, !le_enc_length. cbn [length]. lia. }
  unfold unpack, c_Tversion, c_Tlast.
  rewrite F4, S4, S5, S7.
  rewrite (firstn_app_len (le_enc 2 t) (b ++ rest) 2) by apply le_enc_length.
  cbn [app firstn le_dec].
  rewrite !le_dec_enc by (pow_norm; lia).
  replace (pt + 256 * 0) with pt by lia.
  unfold len in *. rewrite Lb.
  destruct (7 + length b + length rest <? 7)%nat eqn:E0; [lia|].
  match goal with |- (if ?c then _ else _) = _ => destruct c eqn:E1; [lia|] end.
  match goal with |- (if ?c then _ else _) = _ => destruct c eqn:E2; [lia|] end.
  replace (N.to_nat (7 + N.of_nat (length b)) - 7)%nat with (length b) by lia.
  rewrite (firstn_app_len b rest (length b)) by reflexivity.
  reflexivity.
Qed.

Lemma minsz_ok (dotu : bool) m sz :
  nth_error (if dotu then c_minFcusize else c_minFcsize) (N.to_nat (proto_typ m - 100)) = Some sz ->
  sz <= len (enc_fields (layout dotu m)).
Proof.
  intros H.
  destruct m, dotu; vm_compute in H; inversion H; subst sz; clear H;
    unfold enc_fields; cbn [layout flat_map enc_field app]; unfold len, spec_stat; cbv zeta;
    rewrite ?app_length, ?le_enc_length; cbn [length]; lia.
Qed.
