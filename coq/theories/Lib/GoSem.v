(* Go failure modes made explicit. Models only: no proofs in this file. *)
From Coq Require Import NArith List.
Import ListNotations.

(* Result of a modelled Go computation: a value, a library error value, or a
   run-time panic (out-of-range slice/index, nil dereference, failed assertion).
   [OutOfFuel] is the model's own artefact (explicit fuel for loops); theorems
   exclude it. *)
Inductive res (A : Type) : Type :=
| Ok (a : A)
| Err (e : list N)      (* error text as bytes *)
| Panic
| OutOfFuel.
Arguments Ok {A} a.
Arguments Err {A} e.
Arguments Panic {A}.
Arguments OutOfFuel {A}.

Definition bind {A B} (r : res A) (f : A -> res B) : res B :=
  match r with
  | Ok a => f a
  | Err e => Err e
  | Panic => Panic
  | OutOfFuel => OutOfFuel
  end.

Notation "'do' x <- r ; k" := (bind r (fun x => k))
  (at level 200, x pattern, r at level 100, k at level 200, right associativity).

Definition is_panic {A} (r : res A) : bool :=
  match r with Panic => true | _ => false end.
Definition is_ok {A} (r : res A) : bool :=
  match r with Ok _ => true | _ => false end.

(* list update at index; out of range leaves the list unchanged *)
Fixpoint upd {A} (l : list A) (i : nat) (x : A) : list A :=
  match l, i with
  | [], _ => []
  | _ :: t, O => x :: t
  | h :: t, S j => h :: upd t j x
  end.
