(* Little-endian byte strings. Model definitions only. *)
From Coq Require Import NArith List Bool PeanoNat.
Import ListNotations.
Local Open Scope N_scope.

Definition bytes := list N.

(* k-byte little-endian encoding of v (truncating, as Go's uint8(val>>8i)) *)
Fixpoint le_enc (k : nat) (v : N) : bytes :=
  match k with
  | O => []
  | S k' => (v mod 256) :: le_enc k' (v / 256)
  end.

Fixpoint le_dec (l : bytes) : N :=
  match l with
  | [] => 0
  | b :: t => b + 256 * le_dec t
  end.

Definition is_byte (b : N) : bool := b <? 256.
Definition all_bytes (l : bytes) : bool := forallb is_byte l.

(* length as N *)
Definition len (l : bytes) : N := N.of_nat (length l).

(* Go integer types *)
Definition u8max : N := 255.
Definition u16max : N := 65535.
Definition u32max : N := 4294967295.
Definition u64max : N := 18446744073709551615.
Definition two32 : N := 4294967296.
Definition two16 : N := 65536.

Definition bytes_eqb (a b : bytes) : bool :=
  (length a =? length b)%nat && forallb (fun p => N.eqb (fst p) (snd p)) (combine a b).
