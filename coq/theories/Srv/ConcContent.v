(* Content invariant: whatever is sent was packed for that request. *)
From Coq Require Import NArith List Bool PeanoNat Lia.
From V9 Require Import Lib.GoSem Gen.Consts Srv.Conc Srv.ConcInv Srv.ConcWF Srv.ConcMono Srv.ConcCount.
Import ListNotations.

Definition hb (q : rq) : bool := match q_buf q with Some _ => true | None => false end.

Lemma qb_hb_mono : forall c s l s' r, WF s -> Step c s l s' -> qb s r hb = true -> qb s' r hb = true.
Proof.
  intros c s l s' r W H. unfold qb. destruct (getq s r) eqn:Hq; [|discriminate].
  destruct (step_evol _ _ _ _ W H _ _ Hq) as (q' & -> & E). unfold evol in E.
  unfold hb. destruct (q_buf r0); [|discriminate]. intros _.
  destruct (q_buf q'); auto. exfalso. apply E; auto. discriminate.
Qed.

Definition rq_ok (s : st) (q : rq) : Prop :=
  (forall x, q_buf q = Some x -> In x (q_packs q)) /\
  (forall x, q_flushreq q = Some x -> qb s x hb = true) /\
  (forall x, q_flushnext q = Some x -> qb s x hb = true) /\
  (forall t, q_pc q = WF3 t false -> qb s t q_flush = true).

Definition wire_ok (s : st) (e : nat * N * option N) : Prop :=
  exists q, getq s (fst (fst e)) = Some q /\ q_tag q = snd (fst e) /\
            exists x, snd e = Some x /\ In x (q_packs q).

Record BInv (s : st) : Prop := {
  b_rq : forall r q, getq s r = Some q -> rq_ok s q;
  b_fr : forall f, In f (F s) ->
           (qb s (f_req f) q_flush = true \/ qb s (f_req f) hb = true) /\
           (f_pc f <> R1 -> f_sflush f = false -> qb s (f_req f) hb = true) /\
           (forall x, f_cur f = Some x -> qb s x hb = true);
  b_out : forall r, In r (outq s) -> qb s r hb = true;
  b_wire : forall e, In e (wire s) -> wire_ok s e }.

Lemma BInv_init : BInv init.
Proof. constructor; simpl; intros; try contradiction. destruct r; discriminate. Qed.

Lemma rq_ok_mono : forall c s l s' q, WF s -> Step c s l s' -> rq_ok s q -> rq_ok s' q.
Proof.
  intros c s l s' q W H (A & B & C & D). repeat split; auto; intros.
  - eapply qb_hb_mono; eauto.
  - eapply qb_hb_mono; eauto.
  - eapply qb_mono; eauto.
Qed.

Lemma wire_ok_mono : forall c s l s' e, WF s -> Step c s l s' -> wire_ok s e -> wire_ok s' e.
Proof.
  intros c s l s' e W H (q & Hq & T & x & E & I).
  destruct (step_evol _ _ _ _ W H _ _ Hq) as (q' & Hq' & Ev). unfold evol in Ev.
  exists q'. split; auto. split; [intuition congruence|]. exists x. split; auto. apply Ev. auto.
Qed.

Lemma BInv_step_rq : forall c s l s', WF s -> BInv s -> Step c s l s' ->
  forall r q, getq s' r = Some q -> rq_ok s' q.
Proof.
  intros c s l s' W B H r0 q0 Hg. assert (H' := H).
  assert (M := fun q => rq_ok_mono c s l s' q W H').
  destruct B as [BR _ _ _].
  step_rq H Hg W.
  all: repeat match goal with Hq : getq _ _ = Some ?q |- _ =>
         lazymatch goal with _ : rq_ok _ q |- _ => fail | _ => pose proof (M _ (BR _ _ Hq)) end end.
  all: try solve [assumption].
  all: try solve [unfold rq_ok, tail_q in *; f1_split; simpl in *; intuition (try discriminate; inv_some; simpl; eauto)].
  - unfold rq_ok, fresh_rq; simpl; repeat split; intros; try discriminate.
    destruct (alookup (reqs s) tag); discriminate.
  - assert (X : qb (setq (setq s r0 (f1_q q q r0)) r0
            (with_links (f1_q q q r0) (Some r0) (q_prev (f1_q q q r0)) (q_next (f1_q q q r0)))) r0 hb = true).
    { unfold qb. rewrite getq_setq, Nat.eqb_refl. rewrite (getq_setq_same s r0 _ q) by auto. reflexivity. }
    unfold rq_ok in *; f1_split; simpl in *; intuition (try discriminate; inv_some; simpl; eauto).
  - assert (X : qb (setq (setq s r (f1_q q qt r0)) r0
            (with_links qt (Some r) (q_prev qt) (q_next qt))) r hb = true).
    { unfold qb. rewrite getq_setq, (Nat.eqb_sym r0 r), E.
      rewrite (getq_setq_same s r _ q) by auto. reflexivity. }
    unfold rq_ok in *; f1_split; simpl in *; intuition (try discriminate; inv_some; simpl; eauto).
  - assert (X : qb (setq (setq s r0 (with_flush qt true)) r0
            (with_pc (with_flush qt true) (WF3 r0 false))) r0 q_flush = true).
    { unfold qb. rewrite getq_setq, Nat.eqb_refl. rewrite (getq_setq_same s r0 _ qt) by auto. reflexivity. }
    unfold rq_ok in *; simpl in *; intuition (try discriminate; eauto).
    match goal with H : WF3 _ _ = WF3 _ _ |- _ => inversion H; subst end. auto.
  - assert (X : qb (setq (setq s t (with_flush qt true)) r0 (with_pc q (WF3 t false))) t q_flush = true).
    { unfold qb. rewrite getq_setq, (Nat.eqb_sym r0 t), E.
      rewrite (getq_setq_same s t _ qt) by auto. reflexivity. }
    unfold rq_ok in *; simpl in *; intuition (try discriminate; eauto).
    match goal with H : WF3 _ _ = WF3 _ _ |- _ => inversion H; subst end. auto.
  - unfold lnk_ok in Hok. unfold rq_ok, lnk in *; simpl in *.
    intuition (subst; try discriminate; eauto).
Qed.

Ltac split_in Hi :=
  simpl in Hi; rewrite ?F_r2_link, ?F_spawn_next in Hi;
  repeat first
    [ apply in_app_or in Hi; destruct Hi as [Hi | [Hi | []]]; [| subst]
    | apply In_upd in Hi; destruct Hi as [Hi | Hi]; [subst |] ].

Definition fr_ok (s : st) (f : frame) : Prop :=
  (qb s (f_req f) q_flush = true \/ qb s (f_req f) hb = true) /\
  (f_pc f <> R1 -> f_sflush f = false -> qb s (f_req f) hb = true) /\
  (forall x, f_cur f = Some x -> qb s x hb = true).

Lemma fr_ok_mono : forall c s l s' f, WF s -> Step c s l s' -> fr_ok s f -> fr_ok s' f.
Proof.
  intros c s l s' f W H (A & B & C). repeat split.
  - destruct A; [left; eapply qb_mono; eauto | right; eapply qb_hb_mono; eauto].
  - intros. eapply qb_hb_mono; eauto.
  - intros. eapply qb_hb_mono; eauto.
Qed.

(* a frame that keeps its request and flag, and whose cursor is fine *)
Lemma fr_ok_upd : forall s f f',
  fr_ok s f -> f_req f' = f_req f -> f_pc f <> R1 -> f_sflush f' = f_sflush f ->
  (forall x, f_cur f' = Some x -> qb s x hb = true) -> fr_ok s f'.
Proof.
  intros s f f' (A & B & C) E1 E2 E3 E4. unfold fr_ok. rewrite E1, E3. repeat split; auto.
Qed.

Lemma qb_setq_same : forall s i q q0 g, getq s i = Some q0 -> qb (setq s i q) i g = g q.
Proof. intros. rewrite (qb_setq _ _ _ _ _ _ H), Nat.eqb_refl. reflexivity. Qed.

Lemma fr_ok_new : forall s x, qb s x q_flush = true \/ qb s x hb = true -> fr_ok s (new_frame x).
Proof.
  intros. unfold fr_ok. simpl. repeat split; auto; intros; try discriminate; try congruence.
Qed.

Lemma qb_addf : forall s f r g, qb (addf s f) r g = qb s r g.
Proof. reflexivity. Qed.

Lemma BInv_step_fr : forall c s l s', WF s -> BInv s -> Step c s l s' ->
  forall f, In f (F s') -> fr_ok s' f.
Proof.
  intros c s l s' W B H f' Hi. assert (H' := H).
  assert (M := fun f => fr_ok_mono c s l s' f W H').
  assert (Mh := fun r => qb_hb_mono c s l s' r W H').
  destruct B as [BR BF BO BW]. change (forall f, In f (F s) -> fr_ok s f) in BF.
  destruct H; split_in Hi.
  all: try solve [apply M; apply BF; assumption].
  all: try match goal with Hn : nth_error (F _) _ = Some ?f |- _ =>
         let X := fresh "X" in
         pose proof (M _ (BF _ (nth_error_In _ _ Hn))) as X end.
  all: try solve [eapply fr_ok_upd; eauto; try congruence; simpl; intros; try discriminate;
                  match goal with X : fr_ok _ _ |- _ => destruct X as (_ & _ & X); eauto end].
  all: try solve [apply fr_ok_new; rewrite !qb_addf;
                  first [ left; erewrite qb_setq_same by eauto; simpl; auto; fail
                        | right; erewrite qb_setq_same by eauto; reflexivity ]].
  - apply fr_ok_new. left. eapply qb_mono; eauto. apply (BR _ _ H). auto.
  - (* R1 lost *)
    destruct X as (X1 & X2 & X3). unfold fr_ok. simpl. repeat split; auto; try discriminate.
    intros _ E. destruct (BF _ (nth_error_In _ _ H)) as ([A | A] & _).
    + unfold qb in A. rewrite H0 in A. congruence.
    + apply Mh. auto.
  - (* R1 won *)
    destruct X as (X1 & X2 & X3). unfold fr_ok. simpl. repeat split; auto; try discriminate.
    intros _ E. destruct (BF _ (nth_error_In _ _ H)) as ([A | A] & _).
    + unfold qb in A. rewrite H0 in A. congruence.
    + apply Mh. auto.
  - eapply fr_ok_upd; eauto; try congruence. simpl. intros x E. apply Mh. destruct (BR _ _ H0) as (_ & Bq & _); auto.
  - eapply fr_ok_upd; eauto; try congruence. simpl. intros x0 E. inversion E; subst.
    destruct X as (_ & _ & X). auto.
  - apply fr_ok_new. right. destruct X as (_ & _ & X). auto.
  - eapply fr_ok_upd; eauto; try congruence. simpl. intros x0 E. apply Mh.
    match goal with Hx : getq s x = Some qx |- _ => destruct (BR _ _ Hx) as (_ & _ & Bq & _) end. auto.
Qed.

Lemma outq_step : forall c s l s' r, Step c s l s' -> In r (outq s') ->
  In r (outq s) \/ exists fi f, nth_error (F s) fi = Some f /\ f_req f = r /\ f_pc f = R4 /\ f_sflush f = false.
Proof.
  intros c s l s' r H Hi. destruct H; simpl in Hi; rewrite ?outq_r2_link, ?outq_spawn_next in Hi; auto.
  - apply in_app_or in Hi. destruct Hi as [Hi | [Hi | []]]; auto. right. eauto 8.
  - left. rewrite H0. right. auto.
Qed.

Lemma wire_step : forall c s l s' e, Step c s l s' -> In e (wire s') ->
  In e (wire s) \/ exists r q, In r (outq s) /\ getq s r = Some q /\ e = (r, q_tag q, q_buf q).
Proof.
  intros c s l s' e H Hi. destruct H; simpl in Hi; rewrite ?wire_r2_link, ?wire_spawn_next in Hi; auto.
  apply in_app_or in Hi. destruct Hi as [Hi | [Hi | []]]; auto. right.
  exists r, q. rewrite H0. simpl. auto.
Qed.

Lemma BInv_step : forall c s l s', WF s -> BInv s -> Step c s l s' -> BInv s'.
Proof.
  intros c s l s' W B H. constructor.
  - eapply BInv_step_rq; eauto.
  - apply (BInv_step_fr c s l s' W B H).
  - intros r Hi. destruct (outq_step _ _ _ _ _ H Hi) as [Ho | (fi & f & Hn & <- & Hpc & Hsf)].
    + eapply qb_hb_mono; eauto. apply (b_out s B). auto.
    + eapply qb_hb_mono; eauto. destruct (b_fr s B f (nth_error_In _ _ Hn)) as (_ & X & _). apply X; auto. congruence.
  - intros e Hi. destruct (wire_step _ _ _ _ _ H Hi) as [Ho | (r & q & Ho & Hq & ->)].
    + eapply wire_ok_mono; eauto. apply (b_wire s B). auto.
    + eapply wire_ok_mono; eauto. exists q. simpl. repeat split; auto.
      pose proof (b_out s B r Ho) as X. unfold qb, hb in X. rewrite Hq in X.
      destruct (q_buf q) eqn:E; [|discriminate]. exists n. split; auto.
      apply (b_rq s B r q Hq). auto.
Qed.

Lemma reach_BInv : forall c s, reach c s -> BInv s.
Proof.
  induction 1; [apply BInv_init|].
  eapply BInv_step; eauto using reach_WF, step_Step.
Qed.
