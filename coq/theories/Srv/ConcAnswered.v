(* Every Tflush is answered (corrected statement). *)
From Coq Require Import NArith List Bool PeanoNat Lia.
From V9 Require Import Lib.GoSem Gen.Consts Srv.Conc Srv.ConcInv Srv.ConcWF Srv.ConcEasy Srv.ConcMono Srv.ConcCount
  Srv.ConcContent Srv.ConcLocal Srv.ConcWin Srv.ConcCalled Srv.ConcOrder Srv.ConcFlush Srv.ConcCancel Srv.ConcAcyc.
Import ListNotations.

(* ---------- a responded request has a winner ---------- *)
Definition RWInv (s : st) : Prop := forall r, qb s r q_resp = true -> wcnt s r = 1.

Lemma RWInv_step : forall c s l s', WF s -> GInv s -> RWInv s -> Step c s l s' -> RWInv s'.
Proof.
  intros c s l s' W G RW H r Hr.
  destruct (wcnt_step _ _ _ _ G H r) as [E | (E1 & E2 & E3)].
  - rewrite E. apply RW.
    destruct (qb_resp_step _ _ _ _ r W H) as [X | (_ & fi & f & El & Hn & Hpc & Er)]; [congruence|].
    (* the step is R1 on r: either it lost (then r was responded) or it won (then the count grew) *)
    subst l. inversion H; subst;
      match goal with Hn' : nth_error (F s) _ = Some ?f0 |- _ => assert (f0 = f) by congruence; subst f0 end;
      try congruence.
    + unfold qb. rewrite H2. auto.
    + exfalso.
      match type of E with wcnt ?s1 _ = _ => pose proof (wcnt_upd s s1 fi f _ (f_req f) Hn eq_refl) as X end.
      unfold pw in X. simpl in X. rewrite Nat.eqb_refl in X.
      rewrite (proj2 (g_w1 s G f (nth_error_In _ _ Hn)) Hpc) in X. simpl in X.
      lia.
  - rewrite E1. destruct (g_w2 s G r) as (_ & Y). rewrite (Y E2). reflexivity.
Qed.

Lemma reach_RWInv : forall c s, reach c s -> RWInv s.
Proof.
  induction 1.
  - intros r Hr. unfold qb in Hr. destruct r; discriminate.
  - eapply RWInv_step; eauto using reach_WF, reach_GInv, step_Step.
Qed.

Lemma filter_one_in : forall A (p : A -> bool) l, length (filter p l) = 1 -> exists x, In x l /\ p x = true.
Proof.
  intros. destruct (filter p l) as [|x t] eqn:E; [discriminate|].
  exists x. apply filter_In. rewrite E. left. auto.
Qed.

Lemma resp_winner : forall c s r, reach c s -> qb s r q_resp = true ->
  exists w, In w (F s) /\ f_req w = r /\ f_won w = true.
Proof.
  intros c s r H Hr. pose proof (reach_RWInv c s H r Hr) as X. unfold wcnt in X.
  destruct (filter_one_in _ _ _ X) as (w & Hi & Hp). unfold pw in Hp.
  apply andb_prop in Hp. destruct Hp as (A & B). apply Nat.eqb_eq in A. eauto.
Qed.

(* ---------- past the dispatch: a flush request, or handed over, or answered ---------- *)
Definition kflush (q : rq) : Prop := exists old, q_kind q = KFlush old.

Definition DInv (s : st) : Prop :=
  forall t q, getq s t = Some q -> ~ pre (q_pc q) -> kflush q \/ q_called q = true \/ has_fr s t.

Lemma DInv_step : forall c s l s', WF s -> DInv s -> Step c s l s' -> DInv s'.
Proof.
  intros c s l s' W D H r0 q0 Hg NP. assert (H' := H).
  assert (M := fun r => has_fr_step c s l s' r H').
  unfold kflush in *.
  step_rq H Hg W.
  all: simpl in NP.
  all: try solve [exfalso; apply NP; exact I].
  all: try solve [exfalso; apply NP; match goal with Hpc : q_pc _ = _ |- _ => rewrite Hpc end; exact I].
  all: try solve [right; right; eexists; split; [simpl; apply in_or_app; right; left; reflexivity | reflexivity]].
  all: try solve [right; left; reflexivity].
  all: try solve [left; simpl; eauto].
  all: try solve [match goal with Hq : getq _ _ = Some ?q |- _ =>
         let X := fresh in
         assert (X : ~ pre (q_pc q)) by
           (first [ exact NP | match goal with Hpc : q_pc q = _ |- _ => rewrite Hpc; simpl; tauto end ]);
         destruct (D _ _ Hq X) as [K | [K | K]];
         [left; simpl; exact K | right; left; simpl; exact K | right; right; apply M; exact K] end].
  exfalso. apply NP. destruct (alookup (reqs s) tag); exact I.
Qed.

Lemma reach_DInv : forall c s, reach c s -> DInv s.
Proof.
  induction 1.
  - intros t q Hq. destruct t; discriminate.
  - eapply DInv_step; eauto using reach_WF, step_Step.
Qed.

(* ---------- requests in the table have not been unlinked ---------- *)
Lemma aremove_In2 : forall l k0 k v, In (k, v) (aremove l k0) -> k <> k0 /\ In (k, v) l.
Proof.
  induction l as [|[k' v'] l]; simpl; intros; [contradiction|].
  destruct (N.eqb k' k0) eqn:E.
  - apply IHl in H. tauto.
  - destruct H as [H | H].
    + inversion H; subst. apply N.eqb_neq in E. auto.
    + apply IHl in H. tauto.
Qed.

Lemma won_past_rev : forall c s l s' v, Step c s l s' -> won_past s' v 4 ->
  won_past s v 4 \/ exists fi f, l = LR fi /\ nth_error (F s) fi = Some f /\ f_pc f = R2 /\ f_req f = v.
Proof.
  intros c s l s' v H (w & Hi & Hr & Hw & Ho).
  destruct H; split_in Hi.
  all: try solve [left; exists w; auto].
  all: try solve [simpl in Ho; lia].
  all: try solve [simpl in Hw; discriminate].
  all: try solve [right; eauto 8].
  all: try solve [left; match goal with Hn : nth_error (F _) _ = Some ?f |- _ =>
         exists f; unfold fr_set in *; simpl in *; repeat split; auto;
         [eapply nth_error_In; eauto | match goal with Hpc : f_pc _ = _ |- _ => rewrite Hpc in *; simpl in *; lia end] end].
Qed.

Definition qtag (s : st) (v : nat) : option N := match getq s v with Some q => Some (q_tag q) | None => None end.

Definition LiveInv (s : st) : Prop :=
  forall k v, In (k, v) (reqs s) -> qtag s v = Some k /\ ~ won_past s v 4.

Lemma qtag_mono : forall c s l s' v k, WF s -> Step c s l s' -> qtag s v = Some k -> qtag s' v = Some k.
Proof.
  intros c s l s' v k W H. unfold qtag. destruct (getq s v) eqn:Hq; [|discriminate].
  destruct (step_evol _ _ _ _ W H _ _ Hq) as (q' & -> & Ev). unfold evol in Ev. intuition congruence.
Qed.

Lemma reqs_step : forall c s l s' k v, Step c s l s' -> In (k, v) (reqs s') ->
  (In (k, v) (reqs s) /\
   forall fi f q, l = LR fi -> nth_error (F s) fi = Some f -> f_pc f = R2 -> getq s (f_req f) = Some q ->
                  q_prev q = None -> k <> q_tag q) \/
  (exists kd, l = LArrive k kd /\ v = length (R s)).
Proof.
  intros c s l s' k v H Hi.
  destruct H; simpl in Hi; rewrite ?(proj1 (r2_link_other _ _ _ _)), ?(proj1 (spawn_next_other _ _)) in Hi.
  all: try solve [left; split; [assumption | intros; discriminate]].
  all: try solve [left; split; [assumption | intros ? ? ? X; inversion X; subst; intros; congruence]].
  - destruct Hi as [Hi | Hi].
    + inversion Hi; subst. right. eauto.
    + left. split; [eapply aremove_In; eauto | intros; discriminate].
  - apply aremove_In2 in Hi. destruct Hi as (A & B). left. split; auto.
    intros fi0 f0 q0 X Y1 Y2 Y3 Y4. inversion X; subst. congruence.
Qed.

Lemma LiveInv_step : forall c s l s', reach c s -> NG s -> LiveInv s -> Step c s l s' -> LiveInv s'.
Proof.
  intros c s l s' Rc N L H k v Hi. pose proof (reach_WF c s Rc) as W.
  destruct (reqs_step _ _ _ _ _ _ H Hi) as [(Hi0 & NR) | (kd & -> & ->)].
  - destruct (L _ _ Hi0) as (A & B). split; [eapply qtag_mono; eauto|].
    intro X. destruct (won_past_rev _ _ _ _ _ H X) as [Y | (fi & f & -> & Hn & Hpc & Er)]; auto.
    destruct (wf_getq_freq _ _ _ W Hn) as (q & Hq).
    pose proof (NG_noprev s (reach_GInv c s Rc) N _ _ Hq) as Np.
    apply (NR fi f q eq_refl Hn Hpc Hq Np). unfold qtag in A. rewrite <- Er, Hq in A. congruence.
  - inversion H; subst. split.
    + unfold qtag. rewrite getq_mk, arrive_R_nth, Nat.eqb_refl; auto.
      intros o Ho. eapply (wf_reqs s W), alookup_In; eauto.
    + intros (w & Hw & Er & _). simpl in Hw. destruct (wf_F s W w Hw) as (X & _). lia.
Qed.

Lemma reach_LiveInv : forall c s, reach c s -> NG s -> LiveInv s.
Proof.
  intros c. apply reach_NG_ind.
  - intros k v Hi. contradiction.
  - intros. eapply LiveInv_step; eauto using step_Step.
Qed.

(* ---------- reachability along the list of waiting flushes ---------- *)
Inductive lreach (s : st) : option nat -> nat -> Prop :=
| lr_here x : lreach s (Some x) x
| lr_next x q y : getq s x = Some q -> lreach s (q_flushnext q) y -> lreach s (Some x) y.

(* links of linked requests are stable *)
Lemma flushnext_exact : forall c s l s', WF s -> Step c s l s' ->
  forall x q q', getq s x = Some q -> getq s' x = Some q' ->
    q_flushnext q' = q_flushnext q \/ q_pc q = WProc \/
    (exists fi f q1 nx, l = LR fi /\ nth_error (F s) fi = Some f /\ f_pc f = R2 /\
                        getq s (f_req f) = Some q1 /\ q_prev q1 = Some nx).
Proof.
  intros c s l s' W H x q00 q' Hq0 Hg. step_rq H Hg W.
  all: try (exfalso; apply getq_lt in Hq0; lia).
  all: dedupe.
  all: try solve [left; reflexivity].
  all: try solve [right; left; assumption].
  all: try solve [right; right; eauto 10].
Qed.

Lemma flushnext_keep : forall c s l s' x q, reach c s -> NG s -> Step c s l s' ->
  getq s x = Some q -> qtarget s x <> None ->
  exists q', getq s' x = Some q' /\ q_flushnext q' = q_flushnext q.
Proof.
  intros c s l s' x q Rc N H Hq Ht. pose proof (reach_WF c s Rc) as W.
  destruct (step_evol _ _ _ _ W H _ _ Hq) as (q' & Hq' & _). exists q'. split; auto.
  destruct (flushnext_exact _ _ _ _ W H _ _ _ Hq Hq') as [E | [E | (fi & f & q1 & nx & _ & _ & _ & E4 & E5)]]; auto.
  - exfalso. destruct (reach_PTInv c s Rc _ _ Hq) as (A & _). unfold qtarget in Ht. rewrite Hq in Ht.
    apply A; auto. rewrite E. exact I.
  - exfalso. rewrite (NG_noprev s (reach_GInv c s Rc) N _ _ E4) in E5. discriminate.
Qed.

Lemma lreach_step : forall c s l s' o y, reach c s -> NG s -> Step c s l s' ->
  lreach s o y -> (forall z, o = Some z -> qtarget s z <> None) -> lreach s' o y.
Proof.
  intros c s l s' o y Rc N H Lr. induction Lr; intros Hd.
  - constructor.
  - destruct (flushnext_keep c s l s' x q Rc N H H0 (Hd x eq_refl)) as (q' & Hq' & E).
    eapply lr_next; eauto. rewrite E. apply IHLr.
    intros z Hz. destruct (ch_next s (reach_CHInv c s Rc N) _ _ _ H0 Hz) as (A & B).
    rewrite B. auto.
Qed.

(* what the winner of t still has to visit *)
Definition rem (s : st) (w : frame) : option nat :=
  match f_pc w with
  | R7 => match f_cur w with
          | Some x => match getq s x with Some qx => q_flushnext qx | None => None end
          | None => None end
  | _ => f_cur w
  end.

Lemma rem_head : forall c s w z, reach c s -> NG s -> In w (F s) -> rem s w = Some z -> qtarget s z <> None.
Proof.
  intros c s w z Rc N Hi Hr. pose proof (reach_CHInv c s Rc N) as C. unfold rem in Hr.
  assert (X : forall x, f_cur w = Some x -> qtarget s x <> None).
  { intros x Hx. destruct (ch_cur s C w x Hi Hx) as (A & _). congruence. }
  destruct (f_pc w); auto.
  destruct (f_cur w) as [x|] eqn:Ec; [|discriminate].
  destruct (getq s x) as [qx|] eqn:Ex; [|discriminate].
  destruct (ch_next s C _ _ _ Ex Hr) as (A & B). rewrite B. auto.
Qed.

(* the remainder of an untouched frame is the same after the step *)
Lemma rem_keep : forall c s l s' w, reach c s -> NG s -> Step c s l s' -> In w (F s) ->
  rem s' w = rem s w.
Proof.
  intros c s l s' w Rc N H Hi. unfold rem. destruct (f_pc w); auto.
  destruct (f_cur w) as [x|] eqn:Ec; auto.
  destruct (ch_cur s (reach_CHInv c s Rc N) w x Hi Ec) as (A & _).
  destruct (getq s x) as [qx|] eqn:Ex.
  - destruct (flushnext_keep c s l s' x qx Rc N H Ex) as (q' & -> & E); [congruence|]. auto.
  - unfold qtarget in A. rewrite Ex in A. discriminate.
Qed.

Definition covered (s : st) (w : frame) (f : nat) : Prop := has_fr s f \/ lreach s (rem s w) f.

Lemma covered_keep : forall c s l s' w f, reach c s -> NG s -> Step c s l s' -> In w (F s) ->
  covered s w f -> covered s' w f.
Proof.
  intros c s l s' w f Rc N H Hi [X | X].
  - left. eapply has_fr_step; eauto.
  - right. rewrite (rem_keep c s l s' w Rc N H Hi). eapply lreach_step; eauto.
    intros z Hz. eapply rem_head; eauto.
Qed.

Definition cov1 (s : st) (f t : nat) : Prop :=
  ~ won_past s t 4 -> exists qt, getq s t = Some qt /\ lreach s (q_flushreq qt) f.

Definition cov2 (s : st) (f t : nat) : Prop :=
  forall w, In w (F s) -> f_req w = t -> f_won w = true -> 4 <= ord (f_pc w) -> covered s w f.

Definition CovInv (s : st) : Prop :=
  forall f qf t, getq s f = Some qf -> q_target qf = Some t -> cov1 s f t /\ cov2 s f t.

Lemma lreach_inv : forall s x y, lreach s (Some x) y ->
  y = x \/ exists q, getq s x = Some q /\ lreach s (q_flushnext q) y.
Proof. intros. inversion H; subst; eauto. Qed.

Lemma lreach_none : forall s y, ~ lreach s None y.
Proof. intros s y H. inversion H. Qed.

Lemma covered_move : forall c s l s' w0 w' f, reach c s -> NG s -> Step c s l s' -> In w0 (F s) ->
  covered s w0 f -> rem s' w' = rem s w0 -> covered s' w' f.
Proof.
  intros c s l s' w0 w' f Rc N H Hi [X | X] E.
  - left. eapply has_fr_step; eauto.
  - right. rewrite E. eapply lreach_step; eauto. intros z Hz. eapply rem_head; eauto.
Qed.

Lemma cov2_step : forall c s l s' f t, reach c s -> NG s -> Step c s l s' ->
  cov1 s f t -> cov2 s f t -> cov2 s' f t.
Proof.
  intros c s l s' f t Rc N H C1 C2 w' Hi Er Hw Ho. assert (H' := H).
  pose proof (reach_GInv c s Rc) as G.
  assert (K := fun w Hw => covered_keep c s l s' w f Rc N H' Hw).
  destruct H; split_in Hi.
  all: try solve [apply K; auto].
  all: try solve [simpl in Ho; lia].
  all: try solve [unfold fr_set in Ho; simpl in Ho; lia].
  - (* R1 lost *) simpl in Hw. discriminate.
  - (* R2 with a newer request: excluded *)
    exfalso. rewrite (NG_noprev s G N _ _ H0) in H2. discriminate.
  - (* R2: the winner picks up the list *)
    simpl in C1, C2.
    assert (Live : ~ won_past s (f_req f0) 4).
    { intros (w & Hw1 & Hw2 & Hw3 & Hw4).
      assert (w = f0) by (eapply won_unique_in; eauto using nth_error_In). subst. rewrite H1 in Hw4. simpl in Hw4. lia. }
    destruct (C1 Live) as (qt & Hqt & Lr). assert (qt = q) by congruence. subst qt.
    right. unfold rem. simpl. eapply lreach_step; eauto.
    intros z Hz. rewrite (ch_req s (reach_CHInv c s Rc N) _ _ _ H0 Hz). discriminate.
  - (* R5 *)
    eapply covered_move; eauto using nth_error_In.
    + apply C2; eauto using nth_error_In. rewrite H1. simpl. lia.
    + unfold rem, fr_set. simpl. rewrite H1. reflexivity.
  - (* R6, list exhausted *)
    assert (Cv : covered s f0 f).
    { apply C2; eauto using nth_error_In. rewrite H1. simpl. lia. }
    destruct Cv as [X | X].
    + left. eapply has_fr_step; eauto.
    + exfalso. unfold rem in X. rewrite H1, H2 in X. eapply lreach_none; eauto.
  - (* R6, next waiting flush *)
    assert (Cv : covered s f0 f).
    { apply C2; eauto using nth_error_In. rewrite H1. simpl. lia. }
    destruct Cv as [X | X].
    + left. eapply has_fr_step; eauto.
    + unfold rem in X. rewrite H1, H2 in X. apply lreach_inv in X. destruct X as [-> | (qx & Hqx & X)].
      * left. exists (new_frame x). split; auto. simpl. apply in_or_app. right. left. auto.
      * right. unfold rem. simpl. rewrite getq_addf, getq_setf, Hqx.
        eapply lreach_step; eauto. intros z Hz.
        destruct (ch_next s (reach_CHInv c s Rc N) _ _ _ Hqx Hz) as (A & B). rewrite B. auto.
  - (* R7 *)
    eapply covered_move; eauto using nth_error_In.
    + apply C2; eauto using nth_error_In. rewrite H1. simpl. lia.
    + unfold rem. simpl. rewrite H1, H2. match goal with Hx : getq s x = Some qx |- _ => rewrite Hx end. reflexivity.
Qed.

Lemma flushreq_exact : forall c s l s', WF s -> Step c s l s' ->
  forall t qt qt', getq s t = Some qt -> getq s' t = Some qt' ->
    q_flushreq qt' = q_flushreq qt \/
    (exists r qr', q_flushreq qt' = Some r /\ getq s' r = Some qr' /\ q_flushnext qr' = q_flushreq qt) \/
    (exists fi f q1 nx, l = LR fi /\ nth_error (F s) fi = Some f /\ f_pc f = R2 /\
                        getq s (f_req f) = Some q1 /\ q_prev q1 = Some nx).
Proof.
  intros c s l s' W H t qt0 qt' Hq0 Hg. assert (H' := H). step_rq H Hg W.
  all: try (exfalso; apply getq_lt in Hq0; lia).
  all: dedupe.
  all: try solve [left; reflexivity].
  all: try solve [right; right; eauto 10].
  - (* self flush *)
    right. left. exists t. eexists. split; [reflexivity|]. split.
    + eapply getq_setq_same. eapply getq_setq_same. eauto.
    + reflexivity.
  - right. left. exists r. eexists. split; [reflexivity|]. split.
    + rewrite getq_setq_other by (apply Nat.eqb_neq; rewrite Nat.eqb_sym; auto).
      eapply getq_setq_same. eauto.
    + reflexivity.
Qed.

Lemma cov1_step : forall c s l s' f t, reach c s -> NG s -> Step c s l s' ->
  cov1 s f t -> cov1 s' f t.
Proof.
  intros c s l s' f t Rc N H C1 NW. pose proof (reach_WF c s Rc) as W.
  assert (NW0 : ~ won_past s t 4).
  { intro X. apply NW. eapply won_past_step; eauto; lia. }
  destruct (C1 NW0) as (qt & Hqt & Lr).
  destruct (step_evol _ _ _ _ W H _ _ Hqt) as (qt' & Hqt' & _). exists qt'. split; auto.
  assert (Hd : forall z, q_flushreq qt = Some z -> qtarget s z <> None).
  { intros z Hz. rewrite (ch_req s (reach_CHInv c s Rc N) _ _ _ Hqt Hz). discriminate. }
  destruct (flushreq_exact _ _ _ _ W H _ _ _ Hqt Hqt') as
    [E | [(r & qr' & E1 & E2 & E3) | (fi & f0 & q1 & nx & _ & _ & _ & E4 & E5)]].
  - rewrite E. eapply lreach_step; eauto.
  - rewrite E1. eapply lr_next; eauto. rewrite E3. eapply lreach_step; eauto.
  - exfalso. rewrite (NG_noprev s (reach_GInv c s Rc) N _ _ E4) in E5. discriminate.
Qed.

Lemma CovInv_step : forall c s l s', reach c s -> NG s -> CovInv s -> Step c s l s' -> CovInv s'.
Proof.
  intros c s l s' Rc N Cv H f qf' t Hq' Ht. pose proof (reach_WF c s Rc) as W.
  destruct (step_evol_rev _ _ _ _ W H _ _ Hq') as [(qf & Hq & _) | (-> & tag & k & -> & ->)].
  2: { simpl in Ht. discriminate. }
  destruct (step_exact2 _ _ _ _ W H _ _ _ Hq Hq') as (_ & [Tg | (Tg1 & Tg2 & ->)] & _).
  - (* the target was already known *)
    rewrite Tg in Ht. destruct (Cv _ _ _ Hq Ht) as (C1 & C2). split.
    + eapply cov1_step; eauto.
    + eapply cov2_step; eauto.
  - (* F1: the flush request has just been linked *)
    inversion H; subst; assert (q = qf) by congruence; subst q.
    2: { (* nothing found: no target *)
      rewrite getq_addf, (getq_setq_same _ _ _ _ Hq) in Hq'. inversion Hq'; subst. simpl in Ht.
      destruct (reach_PTInv c s Rc _ _ Hq) as (A & _). exfalso. apply A; [congruence|]. rewrite Tg1. exact I. }
    assert (t0 = t).
    { destruct (f =? t0) eqn:E.
      - apply Nat.eqb_eq in E. subst t0.
        rewrite (getq_setq_same _ _ _ (f1_q qf qt f)) in Hq' by (eapply getq_setq_same; eauto).
        inversion Hq'; subst. simpl in Ht. congruence.
      - rewrite getq_setq_other in Hq' by (apply Nat.eqb_neq; rewrite Nat.eqb_sym; auto).
        rewrite (getq_setq_same _ _ _ _ Hq) in Hq'. inversion Hq'; subst. simpl in Ht. congruence. }
    subst t0. split.
    + intros _. destruct (f =? t) eqn:E.
      * apply Nat.eqb_eq in E. subst t. eexists. split.
        -- eapply getq_setq_same. eapply getq_setq_same. eauto.
        -- simpl. constructor.
      * eexists. split.
        -- eapply getq_setq_same. rewrite getq_setq_other by (apply Nat.eqb_neq; auto). eauto.
        -- simpl. constructor.
    + intros w Hw Er Hwn Ho. exfalso.
      match goal with Y : alookup (reqs s) _ = Some t |- _ =>
        destruct (reach_LiveInv c s Rc N _ _ (alookup_In _ _ _ Y)) as (_ & X) end. apply X.
      exists w. simpl in Hw. auto.
Qed.

Lemma reach_CovInv : forall c s, reach c s -> NG s -> CovInv s.
Proof.
  intros c. apply reach_NG_ind.
  - intros f qf t Hq. destruct f; discriminate.
  - intros. eapply CovInv_step; eauto using step_Step.
Qed.

(* ---------- a flush request past its first step: cancelled, answered, or linked ---------- *)
Definition D1Inv (s : st) : Prop :=
  forall t q, getq s t = Some q -> kflush q -> ~ pre (q_pc q) ->
    q_flush q = true \/ has_fr s t \/ q_target q <> None.

Lemma D1Inv_step : forall c s l s', WF s -> D1Inv s -> Step c s l s' -> D1Inv s'.
Proof.
  intros c s l s' W D H r0 q0 Hg KF NP. assert (H' := H).
  assert (M := fun r => has_fr_step c s l s' r H').
  unfold kflush in *.
  step_rq H Hg W.
  all: simpl in NP, KF.
  all: try solve [exfalso; apply NP; exact I].
  all: try solve [exfalso; apply NP; match goal with Hpc : q_pc _ = _ |- _ => rewrite Hpc end; exact I].
  all: try solve [destruct KF as (o & KF); congruence].
  all: try solve [right; left; eexists; split; [simpl; apply in_or_app; right; left; reflexivity | reflexivity]].
  all: try solve [left; simpl; auto].
  all: try solve [right; right; simpl; discriminate].
  all: try solve [match goal with Hq : getq _ _ = Some ?q |- _ =>
         let X := fresh in
         assert (X : ~ pre (q_pc q)) by
           (first [ exact NP | match goal with Hpc : q_pc q = _ |- _ => rewrite Hpc; simpl; tauto end ]);
         destruct (D _ _ Hq KF X) as [K | [K | K]];
         [left; simpl; exact K | right; left; apply M; exact K | right; right; simpl; exact K] end].
  exfalso. apply NP. destruct (alookup (reqs s) tag); exact I.
Qed.

Lemma reach_D1Inv : forall c s, reach c s -> D1Inv s.
Proof.
  induction 1.
  - intros t q Hq. destruct t; discriminate.
  - eapply D1Inv_step; eauto using reach_WF, step_Step.
Qed.

(* a waiting request waits behind another one; a finished frame has no cursor *)
Definition WAInv (s : st) : Prop :=
  (forall t q, getq s t = Some q -> q_pc q = WWait -> q_after q <> None) /\
  (forall w, In w (F s) -> f_pc w = RDone -> f_cur w = None).

Lemma WAInv_step : forall c s l s', WF s -> WAInv s -> Step c s l s' -> WAInv s'.
Proof.
  intros c s l s' W (A & B) H. split.
  - intros t q' Hq' Hw.
    destruct (step_exact _ _ _ _ W H _ _ Hq') as [(q & Hq & _ & _ & _ & _ & T & _) | (-> & tag & k & -> & ->)].
    + destruct (step_evol _ _ _ _ W H _ _ Hq) as (q2 & Hq2 & Ev). assert (q2 = q') by congruence. subst.
      unfold evol in Ev. assert (E : q_after q' = q_after q) by intuition. rewrite E. apply (A _ _ Hq).
      destruct T as [T | [(T & _) | [(_ & _ & T) | [(_ & _ & T) | (_ & T & _)]]]]; congruence.
    + simpl in *. destruct (alookup (reqs s) tag); [discriminate | discriminate].
  - intros w' Hi Hpc. destruct H; split_in Hi.
    all: try solve [apply B; auto].
    all: try solve [simpl in Hpc; discriminate].
    all: try solve [reflexivity].
Qed.

Lemma reach_WAInv : forall c s, reach c s -> WAInv s.
Proof.
  induction 1.
  - split; intros; [destruct t; discriminate | contradiction].
  - eapply WAInv_step; eauto using reach_WF, step_Step.
Qed.

(* ---------- at quiescence ---------- *)
Definition quiet (c : cfg) (s : st) : Prop := forall l, is_internal l = true -> step c s l = None.

Lemma quiet_done : forall c s, reach c s -> quiet c s -> closed s = false ->
  outq s = [] /\ forall f, In f (F s) -> f_pc f = RDone.
Proof.
  intros c s H Q Hc. pose proof (reach_WF c s H) as W.
  assert (O : outq s = []).
  { destruct (outq s) as [|x rest] eqn:E; auto. exfalso.
    assert (X : step c s LSend = None) by (apply Q; reflexivity).
    unfold step in X. rewrite Hc, E in X.
    destruct (getq_some s x) as (qx & Hx); [apply (wf_outq s W); rewrite E; left; auto|].
    rewrite Hx in X. discriminate. }
  split; auto.
  intros f' Hi. apply In_nth_error in Hi. destruct Hi as (fi & Hn).
  destruct (f_pc f') eqn:E; auto; exfalso;
    (eapply (LR_enabled c s fi f' W Hn); [congruence | | apply Q; reflexivity]);
    intros _; right; right; unfold room; rewrite O; reflexivity.
Qed.

Lemma flush_has_frame : forall c s f qf old,
  reach c s -> quiet c s -> closed s = false -> NG s ->
  (forall r q, getq s r = Some q -> q_called q = true -> q_resp q = true) ->
  getq s f = Some qf -> q_kind qf = KFlush old -> q_flush qf = false ->
  (q_pc qf = WDone \/ exists t, q_pc qf = WInFlushOp t) ->
  (forall t qt, q_target qf = Some t -> getq s t = Some qt -> q_kind qt = KOp \/ q_kind qt = KVersion) ->
  has_fr s f.
Proof.
  intros c s f qf old H Q Hc N AA Hf Hk Hfl Hpc NF.
  pose proof (reach_WF c s H) as W. destruct (quiet_done c s H Q Hc) as (O & Dn).
  assert (NPf : ~ pre (q_pc qf)).
  { destruct Hpc as [-> | (t & ->)]; simpl; tauto. }
  destruct (reach_D1Inv c s H _ _ Hf (ex_intro _ old Hk) NPf) as [X | [X | X]]; [congruence | auto |].
  destruct (q_target qf) as [t|] eqn:Ht; [|congruence]. clear X.
  (* the flushed request *)
  assert (Lt : t < length (R s)).
  { destruct (wf_R s W _ _ Hf) as (_ & _ & _ & A & _). auto. }
  destruct (getq_some s t Lt) as (qt & Hqt).
  specialize (NF t qt eq_refl Hqt).
  (* it has been answered *)
  assert (Rs : qb s t q_resp = true).
  { assert (Dt : ~ pre (q_pc qt) -> qb s t q_resp = true).
    { intro NP. destruct (reach_DInv c s H _ _ Hqt NP) as [(o & K) | [K | (w & Hw & Er)]].
      - destruct NF; congruence.
      - unfold qb. rewrite Hqt. eauto.
      - rewrite <- Er. apply (ci_fr s (reach_CInv c s H) w Hw). rewrite (Dn w Hw). discriminate. }
    pose proof (worker_step_enabled_wf c s t qt W Hqt) as En.
    destruct (q_pc qt) eqn:Epc.
    - exfalso. destruct (reach_WAInv c s H) as (A & _). apply (A _ _ Hqt Epc). apply (N _ _ Hqt).
    - exfalso. apply En. apply Q. reflexivity.
    - exfalso. destruct NF as [K | K]; rewrite K in En.
      + destruct En as (En & _). apply En. apply Q. reflexivity.
      + apply En. apply Q. reflexivity.
    - apply Dt. simpl. tauto.
    - exfalso. assert (X : step c s (LF2 t) <> None) by (destruct (q_kind qt); exact En).
      apply X. apply Q. reflexivity.
    - exfalso. assert (X : step c s (LF3 t) <> None) by (destruct (q_kind qt); exact En).
      apply X. apply Q. reflexivity.
    - apply Dt. simpl. tauto.
    - exfalso. assert (X : step c s (LWTail t) <> None) by (destruct (q_kind qt); exact En).
      apply X. apply Q. reflexivity.
    - apply Dt. simpl. tauto. }
  (* so its winner walked the whole list *)
  destruct (resp_winner c s t H Rs) as (w & Hw & Er & Wn).
  destruct (reach_CovInv c s H N _ _ _ Hf Ht) as (_ & C2).
  assert (Cv : covered s w f).
  { apply C2; auto. rewrite (Dn w Hw). simpl. lia. }
  destruct Cv as [X | X]; auto.
  exfalso. unfold rem in X. rewrite (Dn w Hw) in X.
  destruct (reach_WAInv c s H) as (_ & B). rewrite (B w Hw (Dn w Hw)) in X.
  eapply lreach_none; eauto.
Qed.
