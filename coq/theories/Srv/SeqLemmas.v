(* Helper lemmas for Srv/SeqProofs.v: association-list facts, entry-level
   characterisation of the fid-table operations, structure of [post]. *)
From Coq Require Import NArith ZArith List Bool PeanoNat Lia.
From V9 Require Import Lib.GoSem Lib.Bytes Gen.Consts Codec.Msg Srv.Seq Srv.SeqSpec.
Import ListNotations.
Local Open Scope N_scope.

(* ---------- association lists ---------- *)
Lemma fget_fset : forall t k r k', fget (fset t k r) k' = if k =? k' then Some r else fget t k'.
Proof.
  induction t as [|[k0 r0] t IH]; intros; simpl.
  - reflexivity.
  - destruct (k0 =? k) eqn:E; simpl.
    + apply N.eqb_eq in E; subst. destruct (k =? k'); reflexivity.
    + rewrite IH. destruct (k0 =? k') eqn:E1; [|reflexivity].
      apply N.eqb_eq in E1; subst. rewrite N.eqb_sym, E. reflexivity.
Qed.

Lemma fget_fdel : forall t k k', fget (fdel t k) k' = if k =? k' then None else fget t k'.
Proof.
  induction t as [|[k0 r0] t IH]; intros; simpl.
  - destruct (k =? k'); reflexivity.
  - destruct (k0 =? k) eqn:E; simpl.
    + apply N.eqb_eq in E; subst. rewrite IH. destruct (k =? k'); reflexivity.
    + rewrite IH. destruct (k0 =? k') eqn:E1; [|reflexivity].
      apply N.eqb_eq in E1; subst. rewrite N.eqb_sym, E. reflexivity.
Qed.

Lemma keys_fset : forall t k r x, In x (map fst (fset t k r)) -> x = k \/ In x (map fst t).
Proof.
  induction t as [|[k0 r0] t IH]; intros k r x; simpl.
  - intros [H|[]]; auto.
  - destruct (k0 =? k) eqn:E; simpl.
    + apply N.eqb_eq in E; subst. tauto.
    + intros [H|H]; auto. apply IH in H. tauto.
Qed.

Lemma nodup_fset : forall t k r, NoDup (map fst t) -> NoDup (map fst (fset t k r)).
Proof.
  induction t as [|[k0 r0] t IH]; intros k r H; simpl.
  - constructor; [intros []|constructor].
  - inversion H; subst. destruct (k0 =? k) eqn:E; simpl.
    + apply N.eqb_eq in E; subst. constructor; auto.
    + constructor; auto. intro HI. apply keys_fset in HI. destruct HI as [HI|HI].
      * subst. rewrite N.eqb_refl in E. discriminate.
      * simpl in *. auto.
Qed.

Lemma keys_fdel : forall t k x, In x (map fst (fdel t k)) -> In x (map fst t).
Proof.
  induction t as [|[k0 r0] t IH]; intros k x; simpl; auto.
  destruct (k0 =? k); simpl; intros H.
  - right; eauto.
  - destruct H; auto. right; eauto.
Qed.

Lemma nodup_fdel : forall t k, NoDup (map fst t) -> NoDup (map fst (fdel t k)).
Proof.
  induction t as [|[k0 r0] t IH]; intros k H; simpl; auto.
  inversion H; subst. destruct (k0 =? k); simpl; auto.
  constructor; auto. intro HI. apply keys_fdel in HI. auto.
Qed.

Lemma fget_in : forall t k r, fget t k = Some r -> In (k, r) t.
Proof.
  induction t as [|[k0 r0] t IH]; simpl; intros k r H; [discriminate|].
  destruct (k0 =? k) eqn:E.
  - apply N.eqb_eq in E. inversion H; subst. auto.
  - right; auto.
Qed.

Lemma in_fget : forall t k r, NoDup (map fst t) -> In (k, r) t -> fget t k = Some r.
Proof.
  induction t as [|[k0 r0] t IH]; simpl; intros k r ND H; [tauto|].
  inversion ND; subst. destruct H as [H|H].
  - inversion H; subst. rewrite N.eqb_refl. reflexivity.
  - destruct (k0 =? k) eqn:E.
    + apply N.eqb_eq in E; subst. exfalso. apply H2. change k with (fst (k, r)). apply in_map; auto.
    + auto.
Qed.

Lemma FInv_ext : forall ft,
  FInv ft <-> (NoDup (map fst ft) /\ (forall k r, fget ft k = Some r -> f_ref r = 1%Z) /\
               fget ft c_NOFID = None).
Proof.
  intros ft; unfold FInv; split; intros [ND [H HN]]; split; auto; split; auto.
  - intros k r Hg. apply fget_in in Hg. rewrite Forall_forall in H. apply (H _ Hg).
  - rewrite Forall_forall. intros [k r] HI. simpl. apply (H k). apply in_fget; auto.
Qed.

Lemma vget_abs : forall ft k, vget (abs ft) k = option_map f_user (fget ft k).
Proof.
  induction ft as [|[k0 r0] t IH]; intros; simpl; auto.
  destruct (k0 =? k); auto.
Qed.

Lemma vget_vdel : forall v k k', vget (vdel v k) k' = if k =? k' then None else vget v k'.
Proof.
  induction v as [|[k0 u0] v IH]; intros; simpl.
  - destruct (k =? k'); reflexivity.
  - destruct (k0 =? k) eqn:E; simpl.
    + apply N.eqb_eq in E; subst. rewrite IH. destruct (k =? k'); reflexivity.
    + rewrite IH. destruct (k0 =? k') eqn:E1; [|reflexivity].
      apply N.eqb_eq in E1; subst. rewrite N.eqb_sym, E. reflexivity.
Qed.

Lemma vget_vset : forall v k u k', vget (vset v k u) k' = if k =? k' then Some u else vget v k'.
Proof.
  intros. unfold vset. simpl. rewrite vget_vdel. destruct (k =? k'); reflexivity.
Qed.

(* ---------- entry-level view of the table operations ---------- *)
Definition setref (n : Z) (r : fidrec) : fidrec :=
  mkFid n (f_opened r) (f_omode r) (f_type r) (f_user r) (f_diroff r).

Definition ince (e : option fidrec) : option fidrec :=
  match e with Some r => Some (setref (f_ref r + 1) r) | None => None end.

Definition dece (e : option fidrec) : option fidrec :=
  match e with
  | Some r => if (negb (f_ref r - 1 =? 0)%Z) then Some (setref (f_ref r - 1) r) else None
  | None => None
  end.

Definition dcnt (e : option fidrec) : nat :=
  match e with
  | Some r => if (negb (f_ref r - 1 =? 0)%Z) then 0%nat else 1%nat
  | None => 0%nat
  end.

Lemma fget_incref : forall t k k',
  fget (incref t k) k' = if k =? k' then ince (fget t k') else fget t k'.
Proof.
  intros. unfold incref. destruct (fget t k) eqn:E.
  - rewrite fget_fset. destruct (k =? k') eqn:E1; auto.
    apply N.eqb_eq in E1; subst. rewrite E. reflexivity.
  - destruct (k =? k') eqn:E1; auto.
    apply N.eqb_eq in E1; subst. rewrite E. reflexivity.
Qed.

Lemma fget_upd_fid : forall t k f k',
  fget (upd_fid t k f) k' = if k =? k' then option_map f (fget t k') else fget t k'.
Proof.
  intros. unfold upd_fid. destruct (fget t k) eqn:E.
  - rewrite fget_fset. destruct (k =? k') eqn:E1; auto.
    apply N.eqb_eq in E1; subst. rewrite E. reflexivity.
  - destruct (k =? k') eqn:E1; auto.
    apply N.eqb_eq in E1; subst. rewrite E. reflexivity.
Qed.

Lemma fget_decref : forall t k k',
  fget (fst (decref t k)) k' = if k =? k' then dece (fget t k') else fget t k'.
Proof.
  intros. unfold decref. destruct (fget t k) eqn:E.
  - destruct (negb (f_ref f - 1 =? 0)%Z) eqn:EZ; simpl.
    + rewrite fget_fset. destruct (k =? k') eqn:E1; auto.
      apply N.eqb_eq in E1; subst. rewrite E. simpl. rewrite EZ. reflexivity.
    + rewrite fget_fdel. destruct (k =? k') eqn:E1; auto.
      apply N.eqb_eq in E1; subst. rewrite E. simpl. rewrite EZ. reflexivity.
  - simpl. destruct (k =? k') eqn:E1; auto.
    apply N.eqb_eq in E1; subst. rewrite E. reflexivity.
Qed.

Lemma count_destroy_app : forall k a b,
  count_destroy k (a ++ b) = (count_destroy k a + count_destroy k b)%nat.
Proof. intros. unfold count_destroy. rewrite filter_app, app_length. reflexivity. Qed.

Lemma count_destroy_decref : forall t k k',
  count_destroy k' (snd (decref t k)) = if k =? k' then dcnt (fget t k') else 0%nat.
Proof.
  intros. unfold decref. destruct (fget t k) eqn:E.
  - destruct (negb (f_ref f - 1 =? 0)%Z) eqn:EZ; simpl.
    + destruct (k =? k') eqn:E1; auto.
      apply N.eqb_eq in E1; subst. rewrite E. simpl. rewrite EZ. reflexivity.
    + unfold count_destroy. simpl. destruct (k =? k') eqn:E1; auto.
      apply N.eqb_eq in E1; subst. rewrite E. simpl. rewrite EZ. reflexivity.
  - simpl. destruct (k =? k') eqn:E1; auto.
    apply N.eqb_eq in E1; subst. rewrite E. reflexivity.
Qed.

Lemma nodup_incref : forall t k, NoDup (map fst t) -> NoDup (map fst (incref t k)).
Proof. intros. unfold incref. destruct (fget t k); auto using nodup_fset. Qed.

Lemma nodup_upd_fid : forall t k f, NoDup (map fst t) -> NoDup (map fst (upd_fid t k f)).
Proof. intros. unfold upd_fid. destruct (fget t k); auto using nodup_fset. Qed.

Lemma nodup_decref : forall t k, NoDup (map fst t) -> NoDup (map fst (fst (decref t k))).
Proof.
  intros. unfold decref. destruct (fget t k); auto.
  destruct (negb (f_ref f - 1 =? 0)%Z); simpl; auto using nodup_fset, nodup_fdel.
Qed.

Lemma nodup_fidnew : forall t k t', NoDup (map fst t) -> fidnew t k = Some t' -> NoDup (map fst t').
Proof.
  intros t k t' H. unfold fidnew. destruct (fget t k); [discriminate|].
  intro E; inversion E; subst. auto using nodup_fset.
Qed.

Lemma decref_events : forall t k, Forall (fun e => is_fwd e = false) (snd (decref t k)).
Proof.
  intros. unfold decref. destruct (fget t k); simpl; auto.
  destruct (negb (f_ref f - 1 =? 0)%Z); simpl; auto.
Qed.

(* ---------- structure of [post] ---------- *)
Definition dec1 (ft : ftab) (ok : option N) : ftab * list event :=
  match ok with Some k => decref ft k | None => (ft, []) end.

Definition post_h (ft : ftab) (t r : msg) (rf : refs) : ftab * list event :=
    match t with
    | Tauth_ _ _ _ _ =>
      (match r, r_afid rf with Rauth_ _, Some a => incref ft a | _, _ => ft end, [])
    | Tattach_ _ _ _ _ _ =>
      (match r, r_fid rf with
       | Rattach_ q, Some k => incref (upd_fid ft k (set_type (q_type q))) k
       | _, _ => ft end, [])
    | Twalk_ fid nf names =>
      (match r, r_newfid rf, r_fid rf with
       | Rwalk_ qs, Some k, Some kf =>
         let fty := match fget ft kf with Some fr => f_type fr | None => 0 end in
         let ft1 := upd_fid ft k (set_type (last_qid_type qs fty)) in
         if negb (length qs =? length names)%nat then ft
         else if negb (k =? kf) then incref ft1 k else ft1
       | _, _, _ => ft end, [])
    | Topen_ _ _ =>
      (match r_fid rf with
       | Some k => if is_rtype r c_Ropen then upd_fid ft k (set_opened true) else ft
       | None => ft end, [])
    | Tcreate_ _ _ _ _ _ =>
      (match r, r_fid rf with
       | Rcreate_ q _, Some k => upd_fid (upd_fid ft k (set_type (q_type q))) k (set_opened true)
       | _, _ => ft end, [])
    | Tread_ _ _ _ =>
      (match r, r_fid rf with
       | Rread_ data, Some k =>
         match fget ft k with
         | Some fr => if has_bit (f_type fr) c_QTDIR
                      then upd_fid ft k (set_diroff ((f_diroff fr + len data) mod 18446744073709551616))
                      else ft
         | None => ft end
       | _, _ => ft end, [])
    | Tclunk_ _ =>
      match r, r_fid rf with
      | Rclunk_, Some k => decref ft k
      | _, _ => (ft, []) end
    | Tremove_ _ =>
      match r_fid rf with
      | Some k => decref ft k
      | None => (ft, []) end
    | _ => (ft, [])
    end.

Definition post_tab (ft : ftab) (t r : msg) (rf : refs) : ftab :=
  fst (dec1 (fst (dec1 (fst (dec1 (fst (post_h ft t r rf)) (r_fid rf))) (r_afid rf))) (r_newfid rf)).

Definition post_ev (ft : ftab) (t r : msg) (rf : refs) : list event :=
  let h := post_h ft t r rf in
  let d1 := dec1 (fst h) (r_fid rf) in
  let d2 := dec1 (fst d1) (r_afid rf) in
  let d3 := dec1 (fst d2) (r_newfid rf) in
  snd h ++ snd d1 ++ snd d2 ++ snd d3.

Lemma post_eq : forall c t r rf,
  post c t r rf = (with_fids c (post_tab (c_fids c) t r rf), post_ev (c_fids c) t r rf).
Proof.
  intros. unfold post, post_tab, post_ev. fold (post_h (c_fids c) t r rf).
  destruct (post_h (c_fids c) t r rf) as [ft0 ev0]. cbn [fst snd].
  fold (dec1 ft0 (r_fid rf)). destruct (dec1 ft0 (r_fid rf)) as [ft1 ev1]. cbn [fst snd].
  fold (dec1 ft1 (r_afid rf)). destruct (dec1 ft1 (r_afid rf)) as [ft2 ev2]. cbn [fst snd].
  fold (dec1 ft2 (r_newfid rf)). destruct (dec1 ft2 (r_newfid rf)) as [ft3 ev3]. cbn [fst snd].
  reflexivity.
Qed.

Lemma fget_dec1 : forall t ok k',
  fget (fst (dec1 t ok)) k' =
  match ok with Some k => if k =? k' then dece (fget t k') else fget t k' | None => fget t k' end.
Proof. intros. destruct ok; simpl; auto using fget_decref. Qed.

Lemma count_destroy_dec1 : forall t ok k',
  count_destroy k' (snd (dec1 t ok)) =
  match ok with Some k => if k =? k' then dcnt (fget t k') else 0%nat | None => 0%nat end.
Proof. intros. destruct ok; simpl; auto using count_destroy_decref. Qed.

Lemma nodup_dec1 : forall t ok, NoDup (map fst t) -> NoDup (map fst (fst (dec1 t ok))).
Proof. intros. destruct ok; simpl; auto using nodup_decref. Qed.

Lemma dec1_events : forall t ok, Forall (fun e => is_fwd e = false) (snd (dec1 t ok)).
Proof. intros. destruct ok; simpl; auto using decref_events. Qed.

(* ---------- structure of [seq_step], rewriting data base, tactics ---------- *)
Definition reply0 (t : msg) (p : pre) (sc : script) : msg :=
    match p with
    | PReject (e, n) => Rerror_ e n
    | PDirect r => r
    | PForward | PAuthOp =>
      match t, p with
      | Tclunk_ _, PAuthOp => Rclunk_
      | _, _ =>
      match sc_ans sc with
      | AOk r => match t, r with
                 | Tauth_ _ _ _ _, Rauth_ q =>
                   Rauth_ (mkQid (N.lor (q_type q) c_QTAUTH) (q_vers q) (q_path q))
                 | _, _ => r end
      | AErr e n => Rerror_ e n
      end
      end
    end.

Lemma seq_step_eq : forall cfg c t sc,
  seq_step cfg c t sc =
  let '(c1, rf, p, ev) := process_pre cfg c t sc in
  let r := fit (c_dotu c1) (c_msize c) (reply0 t p sc) in
  (with_fids c1 (post_tab (c_fids c1) t r rf), on_wire (c_dotu c1) r, ev ++ post_ev (c_fids c1) t r rf).
Proof.
  intros. unfold seq_step. destruct (process_pre cfg c t sc) as [[[c1 rf] p] ev].
  fold (reply0 t p sc). rewrite post_eq. reflexivity.
Qed.


Lemma fget_fset_eq t k r : fget (fset t k r) k = Some r.
Proof. rewrite fget_fset, N.eqb_refl; auto. Qed.
Lemma fget_fset_ne t k r k' : (k =? k') = false -> fget (fset t k r) k' = fget t k'.
Proof. intros H; rewrite fget_fset, H; auto. Qed.
Lemma fget_fdel_eq t k : fget (fdel t k) k = None.
Proof. rewrite fget_fdel, N.eqb_refl; auto. Qed.
Lemma fget_fdel_ne t k k' : (k =? k') = false -> fget (fdel t k) k' = fget t k'.
Proof. intros H; rewrite fget_fdel, H; auto. Qed.
Lemma fget_incref_eq t k : fget (incref t k) k = ince (fget t k).
Proof. rewrite fget_incref, N.eqb_refl; auto. Qed.
Lemma fget_incref_ne t k k' : (k =? k') = false -> fget (incref t k) k' = fget t k'.
Proof. intros H; rewrite fget_incref, H; auto. Qed.
Lemma fget_upd_fid_eq t k f : fget (upd_fid t k f) k = option_map f (fget t k).
Proof. rewrite fget_upd_fid, N.eqb_refl; auto. Qed.
Lemma fget_upd_fid_ne t k f k' : (k =? k') = false -> fget (upd_fid t k f) k' = fget t k'.
Proof. intros H; rewrite fget_upd_fid, H; auto. Qed.
Lemma fget_decref_eq t k : fget (fst (decref t k)) k = dece (fget t k).
Proof. rewrite fget_decref, N.eqb_refl; auto. Qed.
Lemma fget_decref_ne t k k' : (k =? k') = false -> fget (fst (decref t k)) k' = fget t k'.
Proof. intros H; rewrite fget_decref, H; auto. Qed.
Lemma cd_decref_eq t k : count_destroy k (snd (decref t k)) = dcnt (fget t k).
Proof. rewrite count_destroy_decref, N.eqb_refl; auto. Qed.
Lemma cd_decref_ne t k k' : (k =? k') = false -> count_destroy k' (snd (decref t k)) = 0%nat.
Proof. intros H; rewrite count_destroy_decref, H; auto. Qed.
Lemma vget_vset_eq v k u : vget (vset v k u) k = Some u.
Proof. rewrite vget_vset, N.eqb_refl; auto. Qed.
Lemma vget_vset_ne v k u k' : (k =? k') = false -> vget (vset v k u) k' = vget v k'.
Proof. intros H; rewrite vget_vset, H; auto. Qed.
Lemma vget_vdel_eq v k : vget (vdel v k) k = None.
Proof. rewrite vget_vdel, N.eqb_refl; auto. Qed.
Lemma vget_vdel_ne v k k' : (k =? k') = false -> vget (vdel v k) k' = vget v k'.
Proof. intros H; rewrite vget_vdel, H; auto. Qed.
Lemma count_destroy_nil : forall k, count_destroy k [] = 0%nat.
Proof. reflexivity. Qed.
Lemma count_destroy_cons : forall k e l,
  count_destroy k (e :: l) =
  ((match e with EvDestroy k0 => if N.eqb k0 k then 1 else 0 | _ => 0 end) + count_destroy k l)%nat.
Proof. intros. unfold count_destroy. simpl. destruct e; auto. destruct (fid =? k); auto. Qed.

Global Hint Rewrite fget_fset_eq fget_fdel_eq fget_incref_eq fget_upd_fid_eq fget_decref_eq cd_decref_eq
  vget_vset_eq vget_vdel_eq count_destroy_nil count_destroy_cons count_destroy_app vget_abs N.eqb_refl : fg.
Global Hint Rewrite fget_fset_ne fget_fdel_ne fget_incref_ne fget_upd_fid_ne fget_decref_ne cd_decref_ne
  vget_vset_ne vget_vdel_ne using assumption : fg.

Arguments incref : simpl never.
Arguments decref : simpl never.
Arguments upd_fid : simpl never.
Arguments fset : simpl never.
Arguments fdel : simpl never.
Arguments fget : simpl never.
Arguments vget : simpl never.
Arguments vset : simpl never.
Arguments vdel : simpl never.
Arguments abs : simpl never.
Arguments count_destroy : simpl never.
Arguments N.eqb : simpl never.
Arguments has_bit : simpl never.
Arguments N.land : simpl never.
Arguments N.lor : simpl never.

Ltac inj_subst :=
  match goal with
  | H : (_, _) = (_, _) |- _ => injection H; clear H; intros; subst
  | H : inl _ = inl _ |- _ => injection H; clear H; intros; subst
  | H : inr _ = inr _ |- _ => injection H; clear H; intros; subst
  | H : Some _ = Some _ |- _ => injection H; clear H; intros; subst
  | H : inl _ = inr _ |- _ => discriminate H
  | H : inr _ = inl _ |- _ => discriminate H
  | H : Some _ = None |- _ => discriminate H
  | H : None = Some _ |- _ => discriminate H
  end.

Ltac innermost X :=
  lazymatch X with
  | match ?Y with _ => _ end => innermost Y
  | _ => X
  end.

Ltac step_hd :=
  match goal with
  | H : (match ?X with _ => _ end) = _ |- _ =>
      let Y := innermost X in
      let E := fresh "E" in destruct Y eqn:E
  end.

Global Hint Rewrite fget_fset fget_fdel fget_incref fget_upd_fid fget_decref N.eqb_refl : fgif.

Ltac red_all := cbv beta iota zeta delta [fidnew ince r_fid r_afid r_newfid fst snd] in *.

Ltac pre_loop := repeat (first [inj_subst | step_hd]; red_all; autorewrite with fgif in * ).


Lemma spec_step_norm : forall v t du r, spec_step v t (norm_msg du r) = spec_step v t r.
Proof. intros. destruct du; [reflexivity|]. destruct r; try reflexivity; destruct t; reflexivity. Qed.

Definition fit_text (dotu : bool) (cap : N) (e : bytes) : bytes :=
  if 7 + 2 + len e + (if dotu then 4 else 0) <=? cap then e else firstn (N.to_nat (cap - 13)) e.
Lemma fit_rerror : forall du cap e n, fit du cap (Rerror_ e n) = Rerror_ (fit_text du cap e) n.
Proof. intros. unfold fit, fit_error, fit_text. destruct (_ <=? _); reflexivity. Qed.
Lemma reply0_reject : forall t e sc, reply0 t (PReject e) sc = Rerror_ (fst e) (snd e).
Proof. intros. destruct e; reflexivity. Qed.

Ltac bool_norm :=
  repeat match goal with
  | H : true = true |- _ => clear H
  | H : false = false |- _ => clear H
  | H : None = None |- _ => clear H
  | H : true = false |- _ => discriminate H
  | H : false = true |- _ => discriminate H
  | H : negb true = _ |- _ => simpl in H
  | H : negb false = _ |- _ => simpl in H
  | H : negb _ = true |- _ => apply negb_true_iff in H
  | H : negb _ = false |- _ => apply negb_false_iff in H
  | H : _ && _ = true |- _ => apply andb_true_iff in H; destruct H
  | H : _ || _ = false |- _ => apply orb_false_iff in H; destruct H
  end.


Definition reply_matters (t r : msg) : bool :=
  match t, r with
  | Tauth_ _ _ _ _, Rauth_ _ | Tattach_ _ _ _ _ _, Rattach_ _ | Twalk_ _ _ _, Rwalk_ _
  | Tcreate_ _ _ _ _ _, Rcreate_ _ _ | Tread_ _ _ _, Rread_ _ | Tclunk_ _, Rclunk_ => true
  | Topen_ _ _, _ | Tremove_ _, _ => true
  | _, _ => false
  end.

Lemma reply_irrelevant : forall t r, reply_matters t r = false ->
  (forall ft rf, post_h ft t r rf = (ft, [])) /\ (forall v, spec_step v t r = v).
Proof.
  intros t r H. destruct t; try (split; reflexivity); try discriminate H;
  destruct r; try discriminate H; split; reflexivity.
Qed.

Ltac start_step H :=
  rewrite seq_step_eq in H;
  match type of H with context [process_pre ?cfg ?c ?t ?sc] =>
    let Hpre := fresh "Hpre" in
    destruct (process_pre cfg c t sc) as [[[?c1 ?rf] ?p] ?ev1] eqn:Hpre;
    cbv zeta in H; injection H; clear H; intros; subst;
    cbv beta iota zeta delta [process_pre tfid takes_fid is_tattach c_fids c_msize c_dotu with_fids r_fid lookup_user] in Hpre
  end.



Ltac split_keys a b :=
  let Q := fresh "Q" in
  destruct (N.eqb a b) eqn:Q;
  [ apply N.eqb_eq in Q; subst
  | assert (N.eqb b a = false) by (rewrite N.eqb_sym; exact Q) ].

Ltac eqb_norm :=
  repeat match goal with
  | H : (?a =? ?a) = false |- _ => rewrite N.eqb_refl in H; discriminate H
  | H : (?a =? ?b) = true |- _ => apply N.eqb_eq in H; subst
  | H : (?a =? ?b) = false |- _ =>
    lazymatch goal with
    | H' : (b =? a) = false |- _ => fail
    | _ => assert (N.eqb b a = false) by (rewrite N.eqb_sym; exact H)
    end
  end.

Ltac decide_step :=
  match goal with
  | |- context [fget (incref _ ?a) ?b] => split_keys a b
  | |- context [fget (upd_fid _ ?a _) ?b] => split_keys a b
  | |- context [fget (fst (decref _ ?a)) ?b] => split_keys a b
  | |- context [fget (fset _ ?a _) ?b] => split_keys a b
  | |- context [count_destroy ?b (snd (decref _ ?a))] => split_keys a b
  | |- context [vget (vset _ ?a _) ?b] => split_keys a b
  | |- context [vget (vdel _ ?a) ?b] => split_keys a b
  | |- context [fget (if ?c then _ else _) _] => destruct c eqn:?
  | |- context [vget (if ?c then _ else _) _] => destruct c eqn:?
  | |- context [N.eqb ?a ?b] => split_keys a b
  end; eqb_norm.

Ltac use_fget :=
  repeat match goal with
  | H : fget ?t ?k = _ |- _ => rewrite H in *
  end.

Ltac use_inv HF :=
  repeat match goal with
  | H : fget _ _ = Some ?r |- _ =>
    is_var r; let R := fresh "R" in pose proof (HF _ _ H) as R; destruct r; cbn [f_ref] in R; subst
  end.

Ltac split_fget HF :=
  repeat match goal with
  | |- context [fget ?t ?k] => let E := fresh "G" in destruct (fget t k) eqn:E; use_inv HF
  end.

Ltac norm_loop := repeat (progress (autorewrite with fg; use_fget; cbn) || decide_step).

Ltac bool_split :=
  repeat match goal with
  | H : _ && _ = false |- _ => apply andb_false_iff in H; destruct H
  | H : _ || _ = true |- _ => apply orb_true_iff in H; destruct H
  end.

Ltac fin :=
  cbn in *; repeat split; intros; subst; eqb_norm; cbn in *; bool_norm; bool_split; bool_norm;
  repeat match goal with H : Some _ = Some _ |- _ => injection H; clear H; intros; subst end;
  cbn in *; eqb_norm; try discriminate; try congruence; try lia.



(* ---------- events of [post] ---------- *)
Lemma post_h_events : forall ft t r rf, Forall (fun e => is_fwd e = false) (snd (post_h ft t r rf)).
Proof.
  intros. destruct t; cbn [post_h snd]; auto.
  - destruct r; try apply Forall_nil. destruct (r_fid rf); [apply decref_events|apply Forall_nil].
  - destruct (r_fid rf); [apply decref_events|apply Forall_nil].
Qed.

Lemma post_ev_nofwd : forall ft t r rf, Forall (fun e => is_fwd e = false) (post_ev ft t r rf).
Proof.
  intros. unfold post_ev. cbv zeta.
  repeat (apply Forall_app; split); auto using post_h_events, dec1_events.
Qed.

Lemma existsb_nofwd : forall l, Forall (fun e => is_fwd e = false) l -> existsb is_fwd l = false.
Proof. induction 1; simpl; auto. rewrite H; auto. Qed.

Lemma filter_nofwd : forall l, Forall (fun e => is_fwd e = false) l -> filter is_fwd l = [].
Proof. induction 1; simpl; auto. rewrite H; auto. Qed.

Lemma forwarded_post : forall a ft t r rf, forwarded (a ++ post_ev ft t r rf) = forwarded a.
Proof.
  intros. unfold forwarded. rewrite existsb_app, (existsb_nofwd _ (post_ev_nofwd ft t r rf)).
  apply orb_false_r.
Qed.

Lemma count_fwd_post : forall a ft t r rf, count_fwd (a ++ post_ev ft t r rf) = count_fwd a.
Proof.
  intros. unfold count_fwd. rewrite filter_app, (filter_nofwd _ (post_ev_nofwd ft t r rf)), app_nil_r.
  reflexivity.
Qed.

Lemma in_post_ev : forall e a ft t r rf, In e (a ++ post_ev ft t r rf) -> is_fwd e = true -> In e a.
Proof.
  intros. apply in_app_or in H. destruct H; auto.
  pose proof (post_ev_nofwd ft t r rf) as F. rewrite Forall_forall in F. apply F in H. congruence.
Qed.

(* ---------- NoDup is preserved ---------- *)
Lemma post_h_nodup : forall ft t r rf, NoDup (map fst ft) -> NoDup (map fst (fst (post_h ft t r rf))).
Proof.
  intros ft t r rf H. destruct t; cbn [post_h fst]; auto.
  - destruct r; auto. destruct (r_afid rf); auto using nodup_incref.
  - destruct r; auto. destruct (r_fid rf); auto using nodup_incref, nodup_upd_fid.
  - destruct r; auto. destruct (r_newfid rf); auto. destruct (r_fid rf); auto.
    cbv zeta. destruct (negb _); auto using nodup_upd_fid.
    destruct (negb _); auto using nodup_incref, nodup_upd_fid.
  - destruct (r_fid rf); auto. destruct (is_rtype r c_Ropen); auto using nodup_upd_fid.
  - destruct r; auto. destruct (r_fid rf); auto using nodup_upd_fid.
  - destruct r; auto. destruct (r_fid rf); auto. destruct (fget ft n); auto.
    destruct (has_bit _ _); auto using nodup_upd_fid.
  - destruct r; auto. destruct (r_fid rf); auto using nodup_decref.
  - destruct (r_fid rf); auto using nodup_decref.
Qed.

Lemma post_tab_nodup : forall ft t r rf, NoDup (map fst ft) -> NoDup (map fst (post_tab ft t r rf)).
Proof. intros. unfold post_tab. auto using nodup_dec1, post_h_nodup. Qed.

Lemma step_nodup : forall cfg c t sc c' r ev,
  NoDup (map fst (c_fids c)) -> seq_step cfg c t sc = (c', r, ev) -> NoDup (map fst (c_fids c')).
Proof.
  intros until ev. intros ND H. destruct c as [ms du ft]. cbn [c_fids] in ND.
  destruct t; start_step H; pre_loop; cbn [c_fids with_fids];
  apply post_tab_nodup; try match goal with |- context [if ?c then _ else _] => destruct c end;
  auto using nodup_incref, nodup_upd_fid, nodup_fset.
Qed.

(* ---------- the per-key effect of one request ---------- *)
Definition key_concl (cfg : srvcfg) (c : conn) (t : msg) (c' : conn) (r : msg) (ev : list event) (k : N) : Prop :=
  (forall r', fget (c_fids c') k = Some r' -> f_ref r' = 1%Z) /\
  (k = c_NOFID -> fget (c_fids c') k = None) /\
  option_map f_user (fget (c_fids c') k) = vget (spec_step (abs (c_fids c)) t r) k /\
  (count_destroy k ev <= 1)%nat /\
  (is_valid c k = true -> is_valid c' k = false -> count_destroy k ev = 1%nat) /\
  (is_valid c' k = true -> count_destroy k ev = 0%nat).

Ltac key_script HF H :=
  start_step H;
  pre_loop; bool_norm;
  cbn [c_fids c_dotu c_msize with_fids];
  rewrite ?reply0_reject, ?fit_rerror;
  unfold key_concl; cbn [c_fids c_dotu c_msize with_fids];
  unfold post_tab, post_ev, is_valid, on_wire, with_fids; rewrite spec_step_norm;
  try match goal with |- context [fit ?a ?b (reply0 ?t ?p ?sc)] =>
     generalize (fit a b (reply0 t p sc)); intros rr;
     let RM := fresh "RM" in
     destruct (reply_matters t rr) eqn:RM;
     [ destruct rr; try discriminate RM; clear RM
     | let RM1 := fresh "RM" in let RM2 := fresh "RM" in
       destruct (reply_irrelevant _ _ RM) as [RM1 RM2]; rewrite ?RM1, ?RM2 ] end;
  cbn [post_h spec_step r_fid r_afid r_newfid c_fids dec1 fst snd app];
  eqb_norm; use_inv HF;
  norm_loop;
  split_fget HF;
  fin.

Lemma step_key : forall cfg c t sc c' r ev k,
  (forall k r, fget (c_fids c) k = Some r -> f_ref r = 1%Z) ->
  fget (c_fids c) c_NOFID = None ->
  seq_step cfg c t sc = (c', r, ev) -> key_concl cfg c t c' r ev k.
Proof.
  intros until k. intros HF HN H. destruct c as [ms du ft]. cbn [c_fids] in HF, HN.
  destruct t; key_script HF H.
Qed.

(* ---------- the per-key effect of one request on the other attributes ---------- *)
(* open state (f_opened / f_omode) and type bits (f_type) against ospec_step / tspec_step;
   a variant of [key_script] so that [step_key] stays as it is *)
Lemma vget_oabs : forall ft k, vget (oabs ft) k = option_map ocode (fget ft k).
Proof.
  induction ft as [|[k0 r0] t IH]; intros; [reflexivity|].
  change (vget (oabs ((k0,r0)::t)) k) with (if k0 =? k then Some (ocode r0) else vget (oabs t) k).
  change (fget ((k0,r0)::t) k) with (if k0 =? k then Some r0 else fget t k).
  rewrite IH. destruct (k0 =? k); reflexivity.
Qed.

Lemma vget_tabs : forall ft k, vget (tabs ft) k = option_map f_type (fget ft k).
Proof.
  induction ft as [|[k0 r0] t IH]; intros; [reflexivity|].
  change (vget (tabs ((k0,r0)::t)) k) with (if k0 =? k then Some (f_type r0) else vget (tabs t) k).
  change (fget ((k0,r0)::t) k) with (if k0 =? k then Some r0 else fget t k).
  rewrite IH. destruct (k0 =? k); reflexivity.
Qed.

Lemma ospec_step_norm : forall v t du r, ospec_step v t (norm_msg du r) = ospec_step v t r.
Proof. intros. destruct du; [reflexivity|]. destruct r; try reflexivity; destruct t; reflexivity. Qed.

Lemma tspec_step_norm : forall v t du r, tspec_step v t (norm_msg du r) = tspec_step v t r.
Proof. intros. destruct du; [reflexivity|]. destruct r; try reflexivity; destruct t; reflexivity. Qed.

Lemma reply_irrelevant_attr : forall t r, reply_matters t r = false ->
  (forall v, ospec_step v t r = v) /\ (forall v, tspec_step v t r = v).
Proof.
  intros t r H. destruct t; try (split; reflexivity); try discriminate H;
  destruct r; try discriminate H; split; reflexivity.
Qed.

Global Hint Rewrite vget_oabs vget_tabs : fga.

Arguments oabs : simpl never.
Arguments tabs : simpl never.
Local Arguments last_qid_type : simpl never.
Local Arguments N.add : simpl never.

Definition attr_concl (c : conn) (t : msg) (c' : conn) (r : msg) (k : N) : Prop :=
  option_map ocode (fget (c_fids c') k) = vget (ospec_step (oabs (c_fids c)) t r) k /\
  option_map f_type (fget (c_fids c') k) = vget (tspec_step (tabs (c_fids c)) t r) k.

Ltac norm_loop_a := repeat (progress (autorewrite with fg fga; use_fget; cbn) || decide_step).

Ltac attr_script HF H :=
  start_step H;
  pre_loop; bool_norm;
  cbn [c_fids c_dotu c_msize with_fids];
  rewrite ?reply0_reject, ?fit_rerror;
  unfold attr_concl; cbn [c_fids c_dotu c_msize with_fids];
  unfold post_tab, on_wire, with_fids; rewrite ospec_step_norm, tspec_step_norm;
  try match goal with |- context [fit ?a ?b (reply0 ?t ?p ?sc)] =>
     generalize (fit a b (reply0 t p sc)); intros rr;
     let RM := fresh "RM" in
     destruct (reply_matters t rr) eqn:RM;
     [ destruct rr; try discriminate RM; clear RM
     | let RM1 := fresh "RM" in let RM2 := fresh "RM" in let RM3 := fresh "RM" in
       destruct (reply_irrelevant _ _ RM) as [RM1 _];
       destruct (reply_irrelevant_attr _ _ RM) as [RM2 RM3]; rewrite ?RM1, ?RM2, ?RM3 ] end;
  cbn [post_h ospec_step tspec_step r_fid r_afid r_newfid c_fids dec1 fst snd app];
  eqb_norm; use_inv HF;
  norm_loop_a;
  split_fget HF;
  fin.

Lemma step_key_attr : forall cfg c t sc c' r ev k,
  (forall k r, fget (c_fids c) k = Some r -> f_ref r = 1%Z) ->
  fget (c_fids c) c_NOFID = None ->
  seq_step cfg c t sc = (c', r, ev) -> attr_concl c t c' r k.
Proof.
  intros until k. intros HF HN H. destruct c as [ms du ft]. cbn [c_fids] in HF, HN.
  destruct t; attr_script HF H.
Qed.
