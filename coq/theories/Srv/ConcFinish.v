(* A Respond in progress can always be completed. *)
From Coq Require Import NArith List Bool PeanoNat Lia Wf_nat.
From V9 Require Import Lib.GoSem Gen.Consts Srv.Conc Srv.ConcInv Srv.ConcWF Srv.ConcEasy Srv.ConcMono Srv.ConcCount
  Srv.ConcContent Srv.ConcLocal Srv.ConcWin Srv.ConcCalled Srv.ConcOrder Srv.ConcFlush Srv.ConcAcyc.
Import ListNotations.

Definition lab (fi : nat) (l : label) : bool :=
  match l with LR x => x =? fi | LSend => true | _ => false end.

Definition Fin (c : cfg) (fi : nat) (s : st) : Prop :=
  exists ls s', Forall (fun l => lab fi l = true) ls /\ run c s ls = Some s' /\
                exists f', nth_error (F s') fi = Some f' /\ f_pc f' = RDone.

Lemma fin_now : forall c fi s f, nth_error (F s) fi = Some f -> f_pc f = RDone -> Fin c fi s.
Proof. intros. exists [], s. repeat split; eauto. Qed.

Lemma fin_step : forall c fi s l s1, step c s l = Some s1 -> lab fi l = true -> Fin c fi s1 -> Fin c fi s.
Proof.
  intros c fi s l s1 Hs Hl (ls & s' & A & B & C). exists (l :: ls), s'. repeat split; auto.
  simpl. rewrite Hs. auto.
Qed.

Lemma lr_inv : forall c s fi s1 f, Step c s (LR fi) s1 -> nth_error (F s) fi = Some f ->
  closed s1 = closed s /\ exists f1, nth_error (F s1) fi = Some f1 /\
    match f_pc f with
    | R1 => f_pc f1 = R3 \/ f_pc f1 = RDone
    | R3 => f_pc f1 = R4
    | R4 => f_pc f1 = R2
    | R2 => f_pc f1 = R5
    | R5 => f_pc f1 = R6
    | R6 => (f_cur f = None /\ f_pc f1 = RDone) \/
            (exists x, f_cur f = Some x /\ f_pc f1 = R7 /\ f_cur f1 = Some x /\ R s1 = R s)
    | R7 => f_pc f1 = R6 /\ R s1 = R s /\
            exists x qx, f_cur f = Some x /\ getq s x = Some qx /\ f_cur f1 = q_flushnext qx
    | RDone => False
    end.
Proof.
  intros c s fi s1 f H Hn. inversion H; subst;
    match goal with Hn' : nth_error (F s) fi = Some ?f0 |- _ => assert (f0 = f) by congruence; subst f0 end;
    match goal with Hpc : f_pc f = _ |- _ => rewrite Hpc end.
  all: split; [simpl; rewrite ?(proj1 (proj2 (proj2 (proj2 (proj2 (proj2 (r2_link_other _ _ _ _))))))),
                              ?(proj1 (proj2 (proj2 (proj2 (proj2 (proj2 (spawn_next_other _ _))))))); reflexivity|].
  all: simpl; rewrite ?F_r2_link, ?F_spawn_next.
  all: try (eexists; split; [first [ eapply nth_error_upd_same; eassumption
                                   | apply nth_error_app_l; eapply nth_error_upd_same; eassumption ] | ]).
  all: simpl; auto.
  - right. eauto.
  - repeat split; auto. eauto.
Qed.

Lemma take_lr : forall c s fi f, reach c s -> nth_error (F s) fi = Some f -> f_pc f <> RDone ->
  (f_pc f = R4 -> f_sflush f = true \/ closed s = true \/ room c s = true) ->
  exists s1, step c s (LR fi) = Some s1 /\ reach c s1 /\ Step c s (LR fi) s1.
Proof.
  intros c s fi f Rc Hn Hpc H4.
  pose proof (LR_enabled c s fi f (reach_WF c s Rc) Hn Hpc H4) as E.
  destruct (step c s (LR fi)) as [s1|] eqn:Hs; [|congruence].
  exists s1. repeat split; auto. eapply reach_step; eauto. apply step_Step. auto.
Qed.

(* ---------- the loop over the waiting flushes ---------- *)
Definition tgt (rs : list rq) (x : nat) : option nat :=
  match nth_error rs x with Some q => q_target q | None => None end.

Definition dec_ok (rs : list rq) (sq : nat -> nat) : Prop :=
  forall x qx z, nth_error rs x = Some qx -> q_flushnext qx = Some z ->
    exists tx tz, tgt rs x = Some tx /\ tgt rs z = Some tz /\ (tz < tx \/ (tz = tx /\ sq z < sq x)).

Lemma AInv_dec : forall c s sq, reach c s -> AInv s sq -> dec_ok (R s) sq.
Proof.
  intros c s sq Rc A x qx z Hx Hz.
  destruct (a_edge s sq A x qx z Hx Hz) as (tx & tz & B1 & B2 & B3).
  exists tx, tz. repeat split; auto. destruct B3 as [B3 | B3]; auto.
  left. eapply below_le; eauto.
Qed.

Section Loop.
  Variables (c : cfg) (fi : nat) (R0 : list rq) (sq : nat -> nat).
  Hypothesis D : dec_ok R0 sq.

  (* at R6, about to answer x *)
  Definition LoopP (tx m : nat) : Prop :=
    forall s f x, reach c s -> closed s = false -> R s = R0 ->
      nth_error (F s) fi = Some f -> f_pc f = R6 -> f_cur f = Some x ->
      tgt R0 x = Some tx -> sq x = m -> Fin c fi s.

  Lemma loop_done : forall s f, reach c s -> nth_error (F s) fi = Some f -> f_pc f = R6 -> f_cur f = None ->
    Fin c fi s.
  Proof.
    intros s f Rc Hn Hpc Hc.
    destruct (take_lr c s fi f Rc Hn) as (s1 & Hs & R1' & St); [congruence | congruence |].
    destruct (lr_inv _ _ _ _ _ St Hn) as (_ & f1 & Hn1 & T). rewrite Hpc in T.
    eapply fin_step; eauto. simpl. apply Nat.eqb_refl.
    destruct T as [(_ & T) | (x & T & _)]; [|congruence].
    eapply fin_now; eauto.
  Qed.

  Lemma loop_all : forall tx m, LoopP tx m.
  Proof.
    induction tx as [tx IHt] using lt_wf_ind. induction m as [m IHm] using lt_wf_ind.
    intros s f x Rc Hcl HR Hn Hpc Hc Ht Hm.
    (* R6 -> R7 *)
    destruct (take_lr c s fi f Rc Hn) as (s1 & Hs & Rc1 & St); [congruence | congruence |].
    destruct (lr_inv _ _ _ _ _ St Hn) as (Cl1 & f1 & Hn1 & T). rewrite Hpc in T.
    destruct T as [(T & _) | (x1 & T1 & T2 & T3 & T4)]; [congruence|].
    assert (x1 = x) by congruence. subst x1.
    eapply fin_step; eauto. simpl; apply Nat.eqb_refl.
    (* R7 -> R6 *)
    destruct (take_lr c s1 fi f1 Rc1 Hn1) as (s2 & Hs2 & Rc2 & St2); [congruence | congruence |].
    destruct (lr_inv _ _ _ _ _ St2 Hn1) as (Cl2 & f2 & Hn2 & T). rewrite T2 in T.
    destruct T as (U1 & U2 & x2 & qx & U3 & U4 & U5).
    assert (x2 = x) by congruence. subst x2.
    eapply fin_step; eauto. simpl; apply Nat.eqb_refl.
    destruct (q_flushnext qx) as [z|] eqn:Ez.
    - assert (Hqx : nth_error R0 x = Some qx) by (rewrite <- HR, <- T4; exact U4).
      destruct (D x qx z Hqx Ez) as (tx0 & tz & B1 & B2 & B3).
      assert (tx0 = tx) by congruence. subst tx0.
      destruct B3 as [B3 | (B3 & B4)].
      + eapply (IHt tz B3 (sq z) s2 f2 z); eauto; congruence.
      + subst tz. eapply (IHm (sq z)); eauto; try congruence; lia.
    - eapply loop_done; eauto.
  Qed.
End Loop.

Lemma fin_R6 : forall c fi s f, reach c s -> closed s = false ->
  nth_error (F s) fi = Some f -> f_pc f = R6 -> Fin c fi s.
Proof.
  intros c fi s f Rc Hcl Hn Hpc. destruct (f_cur f) as [x|] eqn:Hc.
  - destruct (reach_AInv c s Rc) as (sq & A).
    pose proof (a_cur s sq A f x (nth_error_In _ _ Hn) Hc) as T.
    unfold qtarget, getq in T. destruct (tgt (R s) x) as [tx|] eqn:E.
    + eapply (loop_all c fi (R s) sq (AInv_dec c s sq Rc A) tx (sq x)); eauto.
    + unfold tgt in E. congruence.
  - eapply loop_done; eauto.
Qed.

Ltac one_step c s fi f Rc Hn Hpc :=
  let s1 := fresh "s1" in let Hs := fresh "Hs" in let Rc1 := fresh "Rc1" in let St := fresh "St" in
  let Cl1 := fresh "Cl1" in let f1 := fresh "f1" in let Hn1 := fresh "Hn1" in let T := fresh "T" in
  destruct (take_lr c s fi f Rc Hn) as (s1 & Hs & Rc1 & St); [congruence | congruence |];
  destruct (lr_inv _ _ _ _ _ St Hn) as (Cl1 & f1 & Hn1 & T); rewrite Hpc in T;
  apply (fin_step c fi s (LR fi) s1 Hs); [simpl; apply Nat.eqb_refl|].

Lemma fin_R7 : forall c fi s f, reach c s -> closed s = false ->
  nth_error (F s) fi = Some f -> f_pc f = R7 -> Fin c fi s.
Proof.
  intros c fi s f Rc Hcl Hn Hpc. one_step c s fi f Rc Hn Hpc.
  destruct T as (T & _). eapply fin_R6; eauto; try congruence.
Qed.

Lemma fin_R5 : forall c fi s f, reach c s -> closed s = false ->
  nth_error (F s) fi = Some f -> f_pc f = R5 -> Fin c fi s.
Proof.
  intros c fi s f Rc Hcl Hn Hpc. one_step c s fi f Rc Hn Hpc.
  eapply fin_R6; eauto; try congruence.
Qed.

Lemma fin_R2 : forall c fi s f, reach c s -> closed s = false ->
  nth_error (F s) fi = Some f -> f_pc f = R2 -> Fin c fi s.
Proof.
  intros c fi s f Rc Hcl Hn Hpc. one_step c s fi f Rc Hn Hpc.
  eapply fin_R5; eauto; try congruence.
Qed.

Lemma fin_R4 : forall c fi n s f, length (outq s) <= n -> reach c s -> closed s = false ->
  nth_error (F s) fi = Some f -> f_pc f = R4 -> Fin c fi s.
Proof.
  intros c fi. induction n; intros s f Ln Rc Hcl Hn Hpc.
  - destruct (take_lr c s fi f Rc Hn) as (s1 & Hs & Rc1 & St); [congruence | |].
    { intros _. right. right. unfold room. destruct (outq s); [reflexivity | simpl in Ln; lia]. }
    destruct (lr_inv _ _ _ _ _ St Hn) as (Cl1 & f1 & Hn1 & T); rewrite Hpc in T.
    apply (fin_step c fi s (LR fi) s1 Hs); [simpl; apply Nat.eqb_refl|].
    eapply fin_R2; eauto; try congruence.
  - destruct (room c s) eqn:Rm.
    + destruct (take_lr c s fi f Rc Hn) as (s1 & Hs & Rc1 & St); [congruence | auto |].
      destruct (lr_inv _ _ _ _ _ St Hn) as (Cl1 & f1 & Hn1 & T); rewrite Hpc in T.
      apply (fin_step c fi s (LR fi) s1 Hs); [simpl; apply Nat.eqb_refl|].
      eapply fin_R2; eauto; try congruence.
    + (* the send goroutine makes room *)
      destruct (outq s) as [|x rest] eqn:Eo.
      { unfold room in Rm. rewrite Eo in Rm. simpl in Rm. discriminate. }
      pose proof (reach_WF c s Rc) as W.
      destruct (getq_some s x) as (qx & Hx); [apply (wf_outq s W); rewrite Eo; left; auto|].
      assert (Hs : step c s LSend =
                   Some (mkSt (reqs s) (R s) (F s) rest (wire s ++ [(x, q_tag qx, q_buf qx)]) (recvr s) (closed s) (posted s))).
      { unfold step. rewrite Hcl, Eo, Hx. reflexivity. }
      eapply fin_step; [exact Hs | reflexivity |].
      eapply (IHn _ f); eauto.
      * simpl. simpl in Ln. lia.
      * eapply reach_step; eauto.
Qed.

Lemma fin_R3 : forall c fi s f, reach c s -> closed s = false ->
  nth_error (F s) fi = Some f -> f_pc f = R3 -> Fin c fi s.
Proof.
  intros c fi s f Rc Hcl Hn Hpc. one_step c s fi f Rc Hn Hpc.
  eapply (fin_R4 c fi (length (outq s1))); eauto; try congruence.
Qed.

Lemma fin_all : forall c fi s f, reach c s -> closed s = false ->
  nth_error (F s) fi = Some f -> Fin c fi s.
Proof.
  intros c fi s f Rc Hcl Hn. destruct (f_pc f) eqn:Hpc.
  - one_step c s fi f Rc Hn Hpc. destruct T as [T | T].
    + eapply fin_R3; eauto; try congruence.
    + eapply fin_now; eauto.
  - eapply fin_R2; eauto.
  - eapply fin_R3; eauto.
  - eapply (fin_R4 c fi (length (outq s))); eauto.
  - eapply fin_R5; eauto.
  - eapply fin_R6; eauto.
  - eapply fin_R7; eauto.
  - eapply fin_now; eauto.
Qed.
