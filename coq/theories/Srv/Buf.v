(* Ownership of the reply buffers (srv_conn.go: recv takes req.Rc from the recycling pool
   conn.rchan or allocates it, send writes req.Rc.Pkt and hands the Fcall back to the pool;
   srv_respond.go: RespondR* check responded() and pack into req.Rc; srv_srv.go: Respond
   queues the request).  The question of C03/C12: are the bytes the transport is given for a
   request bytes that were packed for THAT request?  Buffers are recycled between requests,
   the implementation may answer a request more than once and from several goroutines.
   Every label is one critical section / one atomic action of the Go code.  Definitions only. *)
From Coq Require Import List Bool PeanoNat.
Import ListNotations.

Inductive bstate :=
| BFree                 (* in the pool, or dropped by the garbage collector *)
| BHeld (r : nat)       (* req.Rc of request r, not yet handed to the send goroutine *)
| BQueued (r : nat)     (* r is in conn.reqout *)
| BSending (r : nat).   (* the send goroutine is writing its bytes *)

Record buf := mkBuf {
  b_state : bstate;
  b_content : option (nat * nat) }.   (* what is packed in it: (request, version); None after the type reset *)

Record st := mkSt {
  bufs : list buf;
  pool : list nat;                  (* conn.rchan (FIFO) *)
  rc : list (nat * nat);            (* request -> its req.Rc (kept for ever: the pointer is never cleared) *)
  responded : list nat;             (* requests with reqResponded set *)
  tokens : list nat;                (* answerers that passed the responded() test and have not packed yet *)
  wire : list (nat * option (nat * nat)) }.   (* (request being written, content the transport saw) *)

Definition init : st := mkSt [] [] [] [] [] [].

Fixpoint alook (m : list (nat * nat)) (k : nat) : option nat :=
  match m with [] => None | (k', v) :: r => if k' =? k then Some v else alook r k end.

Fixpoint upd (l : list buf) (i : nat) (b : buf) : list buf :=
  match l, i with
  | [], _ => []
  | _ :: r, O => b :: r
  | x :: r, S j => x :: upd r j b
  end.

Fixpoint remove1 (l : list nat) (x : nat) : list nat :=
  match l with [] => [] | y :: r => if y =? x then r else y :: remove1 r x end.

Definition mem (x : nat) (l : list nat) : bool := existsb (Nat.eqb x) l.

Inductive label :=
| LTakePool (r : nat)     (* recv: a new request r gets the buffer at the head of the pool; its type is reset *)
| LTakeFresh (r : nat)    (* recv: the pool is empty (or recv lost the race): NewFcall *)
| LGuard (r : nat)        (* RespondR*: the responded() test passes *)
| LPack (r v : nat)       (* RespondR*: Pack into req.Rc *)
| LGuardPack (r v : nat)  (* test and pack in one critical section (cfg atomic_pack) *)
| LRespond (r : nat)      (* Respond wins: reqResponded set, request queued for the send goroutine *)
| LRespondFlushed (r : nat) (* Respond of a cancelled request: marked, never queued *)
| LDequeue (r : nat)      (* send: receives r from reqout *)
| LWrite (r : nat)        (* one conn.Write of req.Rc.Pkt: the transport sees the current bytes *)
| LRecycle (r : nat).     (* send: hands req.Rc back to the pool *)

Record cfg := mkCfg {
  atomic_pack : bool;     (* the responded() test and the pack are one critical section under the request's lock *)
  recycle_after_write : bool }.   (* send recycles only after the Write (false: seeded change C03a) *)

Definition buf_of (s : st) (r : nat) : option (nat * buf) :=
  match alook (rc s) r with
  | Some i => match nth_error (bufs s) i with Some b => Some (i, b) | None => None end
  | None => None
  end.

Definition set_buf (s : st) (i : nat) (b : buf) : st :=
  mkSt (upd (bufs s) i b) (pool s) (rc s) (responded s) (tokens s) (wire s).

Definition step (c : cfg) (s : st) (l : label) : option st :=
  match l with
  | LTakePool r =>
    match alook (rc s) r, pool s with
    | None, i :: rest =>
      Some (mkSt (upd (bufs s) i (mkBuf (BHeld r) None)) rest ((r, i) :: rc s) (responded s) (tokens s) (wire s))
    | _, _ => None
    end
  | LTakeFresh r =>
    match alook (rc s) r with
    | None => Some (mkSt (bufs s ++ [mkBuf (BHeld r) None]) (pool s) ((r, length (bufs s)) :: rc s) (responded s) (tokens s) (wire s))
    | Some _ => None
    end
  | LGuard r =>
    if atomic_pack c then None
    else match alook (rc s) r with
         | Some _ => if mem r (responded s) then None
                     else Some (mkSt (bufs s) (pool s) (rc s) (responded s) (r :: tokens s) (wire s))
         | None => None end
  | LPack r v =>
    if atomic_pack c then None
    else if mem r (tokens s) then
      match buf_of s r with
      (* the answerer writes through req.Rc, whoever owns that Fcall by now *)
      | Some (i, b) => Some (mkSt (upd (bufs s) i (mkBuf (b_state b) (Some (r, v)))) (pool s) (rc s) (responded s)
                                  (remove1 (tokens s) r) (wire s))
      | None => None end
    else None
  | LGuardPack r v =>
    if atomic_pack c then
      match buf_of s r with
      | Some (i, b) => if mem r (responded s) then None
                       else Some (set_buf s i (mkBuf (b_state b) (Some (r, v))))
      | None => None end
    else None
  | LRespond r =>
    match buf_of s r with
    | Some (i, b) =>
      if mem r (responded s) then None
      else match b_content b with
           | Some _ => Some (mkSt (upd (bufs s) i (mkBuf (BQueued r) (b_content b))) (pool s) (rc s) (r :: responded s) (tokens s) (wire s))
           | None => None      (* Respond is only called after a successful pack *)
           end
    | None => None
    end
  | LRespondFlushed r =>
    match alook (rc s) r with
    | Some _ => if mem r (responded s) then None
                else Some (mkSt (bufs s) (pool s) (rc s) (r :: responded s) (tokens s) (wire s))
    | None => None
    end
  | LDequeue r =>
    match buf_of s r with
    | Some (i, b) => match b_state b with
                     | BQueued r' => if r' =? r then Some (set_buf s i (mkBuf (BSending r) (b_content b))) else None
                     | _ => None end
    | None => None
    end
  | LWrite r =>
    match buf_of s r with
    | Some (i, b) =>
      match b_state b with
      | BSending r' => if r' =? r then Some (mkSt (bufs s) (pool s) (rc s) (responded s) (tokens s) (wire s ++ [(r, b_content b)])) else None
      (* only with the early recycling: the send goroutine is still writing r's bytes after it gave the Fcall away *)
      | BFree | BHeld _ | BQueued _ =>
        if recycle_after_write c then None
        else if mem r (responded s) then Some (mkSt (bufs s) (pool s) (rc s) (responded s) (tokens s) (wire s ++ [(r, b_content b)])) else None
      end
    | None => None
    end
  | LRecycle r =>
    match buf_of s r with
    | Some (i, b) => match b_state b with
                     | BSending r' => if r' =? r then
                                        Some (mkSt (upd (bufs s) i (mkBuf BFree (b_content b))) (pool s ++ [i]) (rc s) (responded s) (tokens s) (wire s))
                                      else None
                     | _ => None end
    | None => None
    end
  end.

Fixpoint run (c : cfg) (s : st) (ls : list label) : option st :=
  match ls with
  | [] => Some s
  | l :: rest => match step c s l with Some s' => run c s' rest | None => None end
  end.

Definition reach (c : cfg) (s : st) : Prop := exists ls, run c init ls = Some s.

Definition fixed_cfg : cfg := mkCfg true true.
Definition current_cfg : cfg := mkCfg false true.     (* test and pack as separate steps: the code before the repair *)
Definition early_recycle_cfg : cfg := mkCfg true false.
