(* Every crash site of the request path is safe for every request in every reachable state. *)
From Coq Require Import NArith ZArith List Bool PeanoNat Lia.
From V9 Require Import Lib.GoSem Lib.Bytes Gen.Consts Codec.Msg Srv.Seq Srv.SeqSpec Srv.SeqLemmas Srv.SeqProofs Srv.Crash.
Import ListNotations.
Local Open Scope N_scope.

Ltac start_pre :=
  match goal with |- context [process_pre ?cfg ?c ?t ?sc] =>
    let Hpre := fresh "Hpre" in
    destruct (process_pre cfg c t sc) as [[[?c1 ?rf] ?p] ?ev1] eqn:Hpre;
    cbv beta iota zeta delta [process_pre tfid takes_fid is_tattach c_fids c_msize c_dotu with_fids r_fid lookup_user] in Hpre
  end.

Theorem site_fids_ok : forall cfg c t sc, CInv cfg c -> site_fids cfg c t sc = true.
Proof.
  intros cfg c t sc HC. destruct c as [ms du ft].
  destruct HC as [HI _]. apply FInv_ext in HI. destruct HI as [_ [_ HN]].
  cbn [c_fids] in HN. unfold site_fids.
  destruct t; start_pre; pre_loop; bool_norm; eqb_norm; try reflexivity.
  all: unfold present; cbn [takes_fid tfid r_fid r_afid r_newfid c_fids with_fids].
  all: norm_loop; reflexivity.
Qed.

Theorem site_refused_early_ok : forall cfg c t sc, CInv cfg c -> site_refused_early cfg c t sc = true.
Proof.
  intros cfg c t sc _. destruct c as [ms du ft]. unfold site_refused_early, is_valid.
  destruct t; start_pre; cbn [takes_fid tfid c_fids andb]; try reflexivity.
  all: pre_loop; bool_norm; eqb_norm; use_fget; cbn [negb orb andb forwarded existsb]; try reflexivity.
  all: rewrite ?N.eqb_refl; repeat match goal with H : N.eqb _ _ = _ |- _ => rewrite H end;
       cbn [negb orb andb]; try reflexivity.
  all: match goal with |- (if ?b then true else true) = true => destruct b; reflexivity end.
Qed.

Theorem site_reply_ok : forall cfg c t sc, CInv cfg c -> site_reply cfg c t sc = true.
Proof.
  intros cfg c t sc HC. unfold site_reply.
  destruct (seq_step cfg c t sc) as [[c' r] ev] eqn:H.
  pose proof (no_reply_exceeds_msize _ _ _ _ _ _ _ HC H) as UB.
  destruct HC as [_ [M1 _]]. unfold c_IOHDRSZ in M1.
  rewrite len_spec_encode in *.
  rewrite !andb_true_iff, !N.leb_le. lia.
Qed.

Theorem sites_ok_step : forall cfg c t sc, CInv cfg c -> sites_ok cfg c t sc = true.
Proof.
  intros cfg c t sc HC. unfold sites_ok.
  rewrite site_fids_ok, site_refused_early_ok, site_reply_ok by exact HC. reflexivity.
Qed.

(* any history from any reachable state: unbounded length, any messages (including R-messages
   and unknown types sent as requests), any fid numbers, any implementation answers *)
Theorem run_sites_ok_all : forall cfg h c, CInv cfg c -> run_sites_ok cfg c h = true.
Proof.
  intros cfg h. induction h as [|[t sc] rest IH]; intros c HC; cbn [run_sites_ok].
  - reflexivity.
  - rewrite sites_ok_step by exact HC. cbn [andb].
    destruct (seq_step cfg c t sc) as [[c1 r] ev] eqn:H.
    apply IH. exact (cinv_step _ _ _ _ _ _ _ HC H).
Qed.

Corollary run_sites_ok_from_start : forall msize dotu auth h,
  msize <= u32max ->
  run_sites_ok (start_cfg msize dotu auth) (conn_init (start_cfg msize dotu auth)) h = true.
Proof.
  intros msize dotu auth h H. apply run_sites_ok_all. apply cinv_init. exact H.
Qed.

(* Tread / Twrite with count 2^32-16: the guard tc.Count > msize-IOHDRSZ is exact in uint32 arithmetic *)
Theorem huge_count_refused : forall msize,
  c_IOHDRSZ <= msize -> msize <= u32max -> count_too_large msize 4294967280 = true.
Proof.
  intros msize H1 H2. unfold count_too_large.
  apply N.ltb_lt. unfold c_IOHDRSZ, two32, u32max in *.
  assert (E : (msize + 4294967296 - 24) mod 4294967296 = msize - 24).
  { replace (msize + 4294967296 - 24) with ((msize - 24) + 1 * 4294967296) by lia.
    rewrite N.mod_add by discriminate. apply N.mod_small. lia. }
  rewrite E. lia.
Qed.

Print Assumptions run_sites_ok_all.
Print Assumptions run_sites_ok_from_start.
