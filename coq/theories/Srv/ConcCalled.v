(* Requests cancelled before they start are never handed to the implementation. *)
From Coq Require Import NArith List Bool PeanoNat Lia.
From V9 Require Import Lib.GoSem Gen.Consts Srv.Conc Srv.ConcInv Srv.ConcWF Srv.ConcMono Srv.ConcCount
  Srv.ConcContent Srv.ConcLocal Srv.ConcWin.
Import ListNotations.

Lemma is_spawn_waiting : forall s l r, GInv s -> is_spawn s l r ->
  exists q, getq s r = Some q /\ q_pc q = WWait.
Proof.
  intros s l r G (fi & f & _ & Hn & Hpc & Hnx).
  eapply spawn_waiting; eauto. eapply nth_error_In; eauto.
Qed.

Definition PInv (s : st) : Prop :=
  forall r q, getq s r = Some q -> unstarted (q_pc q) -> q_called q = false.

Lemma PInv_step : forall c s l s', WF s -> GInv s -> PInv s -> Step c s l s' -> PInv s'.
Proof.
  intros c s l s' W G P H r q' Hq' U.
  destruct (step_exact _ _ _ _ W H _ _ Hq') as [(q & Hq & _ & _ & _ & C & T & _) | (-> & tag & k & -> & ->)];
    [|reflexivity].
  assert (U0 : unstarted (q_pc q)).
  { unfold unstarted in *. destruct T as [T | [(T & Sp) | [(T1 & T2 & T3) | [(T1 & T2 & T3) | (T1 & T2 & T3)]]]].
    - rewrite <- T. auto.
    - destruct (is_spawn_waiting _ _ _ G Sp) as (q0 & Hq0 & Hw). left. congruence.
    - right. auto.
    - right. auto.
    - destruct U; contradiction. }
  pose proof (P _ _ Hq U0) as Cl.
  destruct C as [C | (_ & C & _)]; [congruence|].
  unfold unstarted in U0. destruct U0; congruence.
Qed.

Lemma reach_PInv : forall c s, reach c s -> PInv s.
Proof.
  induction 1.
  - intros r q Hq. destruct r; discriminate.
  - eapply PInv_step; eauto using reach_WF, reach_GInv, step_Step.
Qed.

(* cancelled and not started: stays uncalled for ever *)
Definition cancelled (q : rq) : Prop :=
  q_called q = false /\ q_flush q = true /\ (unstarted (q_pc q) \/ q_pc q = WDone).

Lemma cancelled_step : forall c s l s' t q q', WF s -> GInv s -> Step c s l s' ->
  getq s t = Some q -> getq s' t = Some q' -> cancelled q -> cancelled q'.
Proof.
  intros c s l s' t q q' W G H Hq Hq' (A & B & C).
  destruct (step_exact _ _ _ _ W H _ _ Hq') as [(q0 & Hq0 & _ & _ & _ & Cl & T & _) | (-> & _)].
  2: { apply getq_lt in Hq. lia. }
  assert (q0 = q) by congruence. subst.
  destruct (step_evol _ _ _ _ W H _ _ Hq) as (q2 & Hq2 & Ev). assert (q2 = q') by congruence. subst.
  unfold evol in Ev. unfold cancelled, unstarted in *. repeat split.
  - destruct Cl as [Cl | (_ & Cl & _)]; [congruence|]. destruct C as [[C|C]|C]; congruence.
  - intuition.
  - destruct T as [T | [(T & Sp) | [(T1 & T2 & T3) | [(T1 & T2 & T3) | (T1 & T2 & T3)]]]].
    + rewrite T. auto.
    + left. right. auto.
    + right. auto.
    + congruence.
    + destruct C as [[C|C]|C]; rewrite C in T1; contradiction.
Qed.

Lemma run_reach : forall c ls s s', reach c s -> run c s ls = Some s' -> reach c s'.
Proof.
  induction ls; simpl; intros.
  - inversion H0; subst. auto.
  - destruct (step c s a) eqn:E; [|discriminate]. apply (IHls s0 s'); auto. eapply reach_step; eauto.
Qed.

Lemma cancelled_run : forall c ls s s' t q q', reach c s -> run c s ls = Some s' ->
  getq s t = Some q -> getq s' t = Some q' -> cancelled q -> cancelled q'.
Proof.
  induction ls; simpl; intros.
  - inversion H0; subst. congruence.
  - destruct (step c s a) eqn:E; [|discriminate].
    assert (St := step_Step _ _ _ _ E).
    destruct (step_evol _ _ _ _ (reach_WF _ _ H) St _ _ H1) as (q1 & Hq1 & _).
    eapply (IHls s0 s' t q1 q'); eauto.
    + eapply reach_step; eauto.
    + eapply cancelled_step; eauto using reach_WF, reach_GInv.
Qed.

Lemma flushed_before_start_inv : forall c s t qt,
  reach c s -> getq s t = Some qt -> q_flush qt = true ->
  (q_pc qt = WWait \/ q_pc qt = WSpawned) ->
  q_called qt = false /\
  forall ls s' qt', run c s ls = Some s' -> getq s' t = Some qt' -> q_called qt' = false.
Proof.
  intros c s t qt H Hq Hf Hpc.
  assert (Cl : q_called qt = false) by (eapply reach_PInv; eauto).
  split; auto. intros ls s' qt' Hr Hq'.
  assert (X : cancelled qt') by (eapply cancelled_run; eauto; unfold cancelled, unstarted; auto).
  apply X.
Qed.
