(* Counting invariant: at most one reply per request. *)
From Coq Require Import NArith List Bool PeanoNat Lia.
From V9 Require Import Lib.GoSem Gen.Consts Srv.Conc Srv.ConcInv Srv.ConcWF Srv.ConcMono.
Import ListNotations.

Definition qb (s : st) (r : nat) (g : rq -> bool) : bool :=
  match getq s r with Some q => g q | None => false end.

Definition pre4 (p : fpc) : bool := match p with R3 | R4 => true | _ => false end.
Definition p34 (r : nat) (f : frame) : bool := (f_req f =? r) && pre4 (f_pc f).
Definition cnt34 (s : st) (r : nat) : nat := length (filter (p34 r) (F s)).
Definition NN (s : st) (r : nat) : nat := cnt34 s r + in_outq s r + on_wire s r.
Definition b2n (b : bool) : nat := if b then 1 else 0.

Definition is_R1 (s : st) (l : label) (r : nat) : Prop :=
  exists fi f, l = LR fi /\ nth_error (F s) fi = Some f /\ f_pc f = R1 /\ f_req f = r.

Lemma resp_exact : forall c s l s', WF s -> Step c s l s' ->
  forall r q', getq s' r = Some q' ->
  (exists q, getq s r = Some q /\ (q_resp q' = q_resp q \/ (q_resp q' = true /\ is_R1 s l r))) \/
  (getq s r = None /\ q_resp q' = false).
Proof.
  intros c s l s' W H r0 q0 Hg. unfold is_R1. step_rq H Hg W.
  all: try solve [left; eexists; split; [eassumption| left; reflexivity]].
  all: try solve [left; eexists; split; [eassumption| right; split; [reflexivity | eauto 10]]].
  right. split; [apply nth_error_None; lia | reflexivity].
Qed.

Lemma getq_none_step : forall c s l s' r, Step c s l s' -> getq s' r = None -> getq s r = None.
Proof.
  intros. apply step_length in H. apply nth_error_None in H0. apply nth_error_None. lia.
Qed.

Lemma qb_resp_step : forall c s l s' r, WF s -> Step c s l s' ->
  qb s' r q_resp = qb s r q_resp \/ (qb s' r q_resp = true /\ is_R1 s l r).
Proof.
  intros c s l s' r W H. unfold qb. destruct (getq s' r) eqn:Hg.
  - destruct (resp_exact _ _ _ _ W H _ _ Hg) as [(q & Hq & [E | E]) | (Hq & E)]; rewrite Hq; auto.
  - rewrite (getq_none_step _ _ _ _ _ H Hg). auto.
Qed.

Lemma qb_mono : forall c s l s' r, WF s -> Step c s l s' ->
  (qb s r q_flush = true -> qb s' r q_flush = true) /\
  (qb s r q_resp = true -> qb s' r q_resp = true).
Proof.
  intros c s l s' r W H. unfold qb. destruct (getq s r) eqn:Hq.
  - destruct (step_evol _ _ _ _ W H _ _ Hq) as (q' & -> & E). unfold evol in E. intuition.
  - split; discriminate.
Qed.

Lemma closed_mono : forall c s l s', Step c s l s' -> closed s = true -> closed s' = true.
Proof.
  intros c s l s' H. destruct H; simpl; auto.
  - destruct (r2_link_other s q qn nx) as (_ & _ & _ & _ & _ & e & _). congruence.
  - destruct (spawn_next_other s (f_next f)) as (_ & _ & _ & _ & _ & e & _). congruence.
Qed.

Record CInv (s : st) : Prop := {
  ci_cnt : forall r, NN s r <= 1 /\ (qb s r q_resp = false -> NN s r = 0) /\
                     (qb s r q_resp = true -> NN s r = 1 \/ qb s r q_flush = true \/ closed s = true);
  ci_fr : forall f, In f (F s) -> f_pc f <> R1 ->
                    qb s (f_req f) q_resp = true /\ (f_sflush f = true -> qb s (f_req f) q_flush = true) }.

Lemma CInv_init : CInv init.
Proof.
  constructor; simpl; intros; [|contradiction].
  unfold NN, cnt34, in_outq, on_wire, qb. simpl. destruct r; simpl; repeat split; auto; discriminate.
Qed.

Lemma cnt_upd : forall s s' fi f f' r,
  nth_error (F s) fi = Some f -> F s' = upd (F s) fi f' ->
  cnt34 s' r + b2n (p34 r f) = cnt34 s r + b2n (p34 r f').
Proof. intros. unfold cnt34. rewrite H0. apply filter_len_upd. auto. Qed.

Lemma cnt_snoc : forall s s' x r, F s' = F s ++ [new_frame x] -> cnt34 s' r = cnt34 s r.
Proof.
  intros. unfold cnt34. rewrite H, filter_len_snoc. unfold p34. simpl.
  rewrite andb_false_r. lia.
Qed.

Lemma cnt_same : forall s s' r, F s' = F s -> cnt34 s' r = cnt34 s r.
Proof. intros. unfold cnt34. rewrite H. auto. Qed.

(* preservation when nothing relevant to the count changes *)
Lemma CInv_simple : forall c s l s',
  WF s -> Step c s l s' -> CInv s ->
  (forall r, NN s' r = NN s r) ->
  (forall r, ~ is_R1 s l r) ->
  (forall f', In f' (F s') -> f_pc f' <> R1 ->
     exists f, In f (F s) /\ f_pc f <> R1 /\ f_req f' = f_req f /\ f_sflush f' = f_sflush f) ->
  CInv s'.
Proof.
  intros c s l s' W H [C1 C2] HN HR HF. constructor.
  - intro r. rewrite HN. destruct (C1 r) as (A & B & C).
    destruct (qb_resp_step _ _ _ _ r W H) as [E | (_ & E)]; [|exfalso; eapply HR; eauto].
    rewrite E. repeat split; auto. intro X. destruct (C X) as [Y | [Y | Y]]; auto.
    + right. left. eapply qb_mono; eauto.
    + right. right. eapply closed_mono; eauto.
  - intros f' Hi Hpc. destruct (HF f' Hi Hpc) as (f & Hi' & Hpc' & E1 & E2).
    destruct (C2 f Hi' Hpc') as (A & B). rewrite E1, E2. split.
    + eapply qb_mono; eauto.
    + intro X. eapply qb_mono; eauto.
Qed.

Lemma CInv_gen : forall c s l s',
  WF s -> Step c s l s' -> CInv s ->
  (forall r, (NN s' r = NN s r /\ qb s' r q_resp = qb s r q_resp) \/
             (qb s r q_resp = false /\ qb s' r q_resp = true /\ NN s' r = NN s r + 1) \/
             (qb s' r q_resp = qb s r q_resp /\ NN s' r + 1 = NN s r /\
              (qb s' r q_flush = true \/ closed s' = true))) ->
  (forall f', In f' (F s') -> f_pc f' <> R1 ->
     (exists f, In f (F s) /\ f_pc f <> R1 /\ f_req f' = f_req f /\ f_sflush f' = f_sflush f) \/
     (qb s' (f_req f') q_resp = true /\ (f_sflush f' = true -> qb s' (f_req f') q_flush = true))) ->
  CInv s'.
Proof.
  intros c s l s' W H [C1 C2] HN HF. constructor.
  - intro r. destruct (C1 r) as (A & B & C).
    destruct (HN r) as [(E1 & E2) | [(E1 & E2 & E3) | (E1 & E2 & E3)]].
    + rewrite E1, E2. repeat split; auto. intro X. destruct (C X) as [Y | [Y | Y]]; auto.
      * right. left. eapply qb_mono; eauto.
      * right. right. eapply closed_mono; eauto.
    + rewrite E2, E3. rewrite (B E1). repeat split; auto. discriminate.
    + rewrite E1. repeat split; try lia.
      intro X. right. destruct E3; auto.
  - intros f' Hi Hpc. destruct (HF f' Hi Hpc) as [(f & Hi' & Hpc' & E1 & E2) | X]; auto.
    destruct (C2 f Hi' Hpc') as (A & B). rewrite E1, E2. split.
    + eapply qb_mono; eauto.
    + intro X. eapply qb_mono; eauto.
Qed.

Lemma F_r2_link : forall s q qn nx, F (r2_link s q qn nx) = F s.
Proof. intros. apply r2_link_other. Qed.
Lemma F_spawn_next : forall s o, F (spawn_next s o) = F s.
Proof. intros. apply spawn_next_other. Qed.
Lemma outq_r2_link : forall s q qn nx, outq (r2_link s q qn nx) = outq s.
Proof. intros. apply r2_link_other. Qed.
Lemma outq_spawn_next : forall s o, outq (spawn_next s o) = outq s.
Proof. intros. apply spawn_next_other. Qed.
Lemma wire_r2_link : forall s q qn nx, wire (r2_link s q qn nx) = wire s.
Proof. intros. apply r2_link_other. Qed.
Lemma wire_spawn_next : forall s o, wire (spawn_next s o) = wire s.
Proof. intros. apply spawn_next_other. Qed.

Lemma qb_setq : forall s i q q0 r g, getq s i = Some q0 ->
  qb (setq s i q) r g = if i =? r then g q else qb s r g.
Proof. intros. unfold qb. rewrite getq_setq, H. destruct (i =? r); reflexivity. Qed.

Lemma qb_setf : forall s i f r g, qb (setf s i f) r g = qb s r g.
Proof. reflexivity. Qed.

Lemma NN_upd_gen : forall s s' fi f f' r,
  nth_error (F s) fi = Some f -> F s' = upd (F s) fi f' ->
  NN s' r + b2n (p34 r f) + in_outq s r + on_wire s r =
  NN s r + b2n (p34 r f') + in_outq s' r + on_wire s' r.
Proof.
  intros. unfold NN. pose proof (cnt_upd s s' fi f f' r H H0). lia.
Qed.

Lemma in_outq_snoc : forall s x r, length (filter (fun y => y =? r) (outq s ++ [x])) = in_outq s r + b2n (x =? r).
Proof. intros. rewrite filter_len_snoc. reflexivity. Qed.

Ltac nn_same s :=
  let r := fresh "r" in
  intro r; unfold NN, in_outq, on_wire; simpl;
  try reflexivity;
  match goal with |- context [cnt34 ?s' r] =>
    first [ rewrite (cnt_same s s' r eq_refl) | rewrite (cnt_snoc s s' _ r eq_refl) ] end; reflexivity.

Ltac not_r1 :=
  let r := fresh "r" in let X := fresh "X" in
  intros r (? & ? & X & ? & ? & ?); try discriminate X; inversion X; subst; congruence.

Ltac fr_old :=
  let f' := fresh "f'" in let Hi := fresh "Hi" in let Hpc := fresh "Hpc" in
  intros f' Hi Hpc; simpl in Hi; rewrite ?F_r2_link, ?F_spawn_next in Hi;
  repeat first
    [ apply in_app_or in Hi; destruct Hi as [Hi | [Hi | []]]; [| subst; simpl in Hpc; congruence]
    | apply In_upd in Hi; destruct Hi as [Hi | Hi]; [subst |] ];
  try solve [exists f'; repeat split; auto].

Lemma NN_upd : forall s s' fi f f',
  nth_error (F s) fi = Some f -> F s' = upd (F s) fi f' -> f_req f' = f_req f ->
  pre4 (f_pc f') = pre4 (f_pc f) -> outq s' = outq s -> wire s' = wire s ->
  forall r, NN s' r = NN s r.
Proof.
  intros. unfold NN, in_outq, on_wire. rewrite H3, H4.
  pose proof (cnt_upd s s' fi f f' r H H0). unfold p34 in H5. rewrite H1, H2 in H5. lia.
Qed.

Ltac fr_upd s :=
  let f' := fresh "f'" in let Hi := fresh "Hi" in let Hpc := fresh "Hpc" in
  intros f' Hi Hpc; simpl in Hi; rewrite ?F_r2_link, ?F_spawn_next in Hi;
  repeat first
    [ apply in_app_or in Hi; destruct Hi as [Hi | [Hi | []]]; [| subst; simpl in Hpc; congruence]
    | apply In_upd in Hi; destruct Hi as [Hi | Hi];
      [subst; match goal with Hn : nth_error (F s) _ = Some ?f |- _ =>
         exists f; repeat split; try reflexivity; try congruence; try (eapply nth_error_In; eauto) end |] ];
  try solve [exists f'; repeat split; auto].

Lemma CInv_step : forall c s l s', WF s -> CInv s -> Step c s l s' -> CInv s'.
Proof.
  intros c s l s' W CI H.
  assert (H' := H). destruct H.
  all: try solve [apply (CInv_simple c s _ _ W H' CI); [nn_same s | not_r1 | fr_old]].
  all: try solve [apply (CInv_simple c s _ _ W H' CI);
    [ eapply (NN_upd s _ fi f _ H); [reflexivity | reflexivity | simpl; rewrite ?H1; reflexivity | reflexivity | reflexivity]
    | not_r1 | fr_upd s]].
  all: try solve [apply (CInv_simple c s _ _ W H' CI);
    [ eapply (NN_upd s _ fi f _ H); simpl;
      rewrite ?F_r2_link, ?F_spawn_next, ?outq_r2_link, ?outq_spawn_next, ?wire_r2_link, ?wire_spawn_next;
      try reflexivity; simpl; rewrite ?H1; reflexivity
    | not_r1 | fr_upd s]].
  - (* R1, already responded *)
    apply (CInv_gen c s _ _ W H' CI).
    + intro r. left. split.
      * eapply (NN_upd s _ fi f _ H); [reflexivity|reflexivity|simpl; rewrite H1; reflexivity|reflexivity|reflexivity].
      * rewrite qb_setf, (qb_setq _ _ _ _ _ _ H0). destruct (f_req f =? r) eqn:E; auto.
        apply Nat.eqb_eq in E. subst. unfold qb. rewrite H0. simpl. auto.
    + intros f' Hi Hpc. simpl in Hi. apply In_upd in Hi. destruct Hi as [-> | Hi].
      * right. simpl. rewrite !qb_setf, !(qb_setq _ _ _ _ _ _ H0), Nat.eqb_refl. simpl. auto.
      * left. exists f'. auto.
  - (* R1, first *)
    apply (CInv_gen c s _ _ W H' CI).
    + intro r.
      match goal with |- context [NN (setf ?a ?b ?x) r] =>
        pose proof (NN_upd_gen s (setf a b x) fi f x r H eq_refl) as E end. unfold p34 in E. simpl in E. rewrite H1 in E.
      simpl in E. rewrite andb_false_r, andb_true_r in E. simpl in E.
      rewrite qb_setf, (qb_setq _ _ _ _ _ _ H0). unfold in_outq, on_wire in E. simpl in E.
      destruct (f_req f =? r) eqn:E2; simpl in E.
      * right. left. apply Nat.eqb_eq in E2. subst. unfold qb. rewrite H0. simpl. repeat split; auto. lia.
      * left. split; auto. lia.
    + intros f' Hi Hpc. simpl in Hi. apply In_upd in Hi. destruct Hi as [-> | Hi].
      * right. simpl. rewrite !qb_setf, !(qb_setq _ _ _ _ _ _ H0), Nat.eqb_refl. simpl. auto.
      * left. exists f'. auto.
  - (* R4, flushed *)
    apply (CInv_gen c s _ _ W H' CI).
    + intro r.
      pose proof (NN_upd_gen s (setf s fi (fr_set f R2)) fi f (fr_set f R2) r H eq_refl) as E.
      unfold p34, fr_set, in_outq, on_wire in E. simpl in E. rewrite H1 in E. simpl in E.
      rewrite andb_true_r, andb_false_r in E. simpl in E. rewrite qb_setf. unfold fr_set.
      destruct (f_req f =? r) eqn:E2; simpl in E.
      * right; right. split; [reflexivity|]. split; [lia|]. left. apply Nat.eqb_eq in E2. subst. rewrite qb_setf.
        destruct CI as [_ C2]. apply (C2 f); auto; [eapply nth_error_In; eauto | congruence].
      * left. split; [lia | reflexivity].
    + intros f' Hi Hpc. left. revert f' Hi Hpc. unfold fr_set. fr_upd s.
  - (* R4, closed *)
    apply (CInv_gen c s _ _ W H' CI).
    + intro r.
      pose proof (NN_upd_gen s (setf s fi (fr_set f R2)) fi f (fr_set f R2) r H eq_refl) as E.
      unfold p34, fr_set, in_outq, on_wire in E. simpl in E. rewrite H1 in E. simpl in E.
      rewrite andb_true_r, andb_false_r in E. simpl in E. rewrite qb_setf. unfold fr_set.
      destruct (f_req f =? r) eqn:E2; simpl in E.
      * right; right. split; [reflexivity|]. split; [lia|]. right. assumption.
      * left. split; [lia | reflexivity].
    + intros f' Hi Hpc. left. revert f' Hi Hpc. unfold fr_set. fr_upd s.
  - (* R4, enqueue *)
    apply (CInv_simple c s _ _ W H' CI); [| not_r1 | fr_upd s].
    intro r.
    match goal with |- NN (setf ?a ?b ?x) r = _ =>
      pose proof (NN_upd_gen s (setf a b x) fi f x r H eq_refl) as E end.
    unfold p34, fr_set, in_outq, on_wire in E. simpl in E. rewrite H1 in E. simpl in E.
    rewrite andb_true_r, andb_false_r in E. simpl in E. rewrite filter_len_snoc in E.
    unfold fr_set, b2n in *. destruct (f_req f =? r); simpl in E; lia.
  - (* R6, next flush *)
    apply (CInv_simple c s _ _ W H' CI); [| not_r1 | fr_upd s].
    intro r.
    match goal with |- NN (addf (setf ?a ?b ?y) (new_frame ?x)) r = _ =>
      transitivity (NN (setf a b y) r);
      [ unfold NN, in_outq, on_wire; simpl; rewrite (cnt_snoc (setf a b y) (addf (setf a b y) (new_frame x)) x r eq_refl); reflexivity
      | eapply (NN_upd s _ fi f _ H); [reflexivity|reflexivity|simpl; rewrite H1; reflexivity|reflexivity|reflexivity] ] end.
  - (* send *)
    apply (CInv_simple c s _ _ W H' CI); [| not_r1 | fr_old].
    intro r0. unfold NN, in_outq, on_wire. simpl. rewrite H0. simpl. rewrite filter_len_snoc. simpl.
    match goal with |- cnt34 ?s' r0 + _ + _ = _ => rewrite (cnt_same s s' r0 eq_refl) end.
    destruct (r =? r0); simpl; lia.
Qed.

Lemma reach_CInv : forall c s, reach c s -> CInv s.
Proof.
  induction 1; [apply CInv_init|].
  eapply CInv_step; eauto using reach_WF, step_Step.
Qed.
