(* Infrastructure and basic invariants for the request life-cycle LTS (Srv/Conc.v). *)
From Coq Require Import NArith List Bool PeanoNat Lia.
From V9 Require Import Lib.GoSem Gen.Consts Srv.Conc.
Import ListNotations.

(* ---------- lists ---------- *)
Lemma length_upd : forall A (l : list A) i x, length (upd l i x) = length l.
Proof. induction l; destruct i; simpl; intros; auto. Qed.

Lemma nth_error_upd : forall A (l : list A) i x j,
  nth_error (upd l i x) j =
  if i =? j then match nth_error l i with Some _ => Some x | None => None end
  else nth_error l j.
Proof.
  induction l; intros.
  - simpl. destruct (i =? j); destruct i; destruct j; reflexivity.
  - destruct i; destruct j; simpl; try reflexivity. apply IHl.
Qed.

Lemma nth_error_upd_same : forall A (l : list A) i x y,
  nth_error l i = Some y -> nth_error (upd l i x) i = Some x.
Proof. intros. rewrite nth_error_upd, Nat.eqb_refl, H. reflexivity. Qed.

Lemma nth_error_upd_other : forall A (l : list A) i x j,
  i <> j -> nth_error (upd l i x) j = nth_error l j.
Proof. intros. rewrite nth_error_upd. apply Nat.eqb_neq in H. rewrite H. reflexivity. Qed.

Lemma nth_error_snoc : forall A (l : list A) x j,
  nth_error (l ++ [x]) j =
  if j <? length l then nth_error l j else if j =? length l then Some x else None.
Proof.
  intros. destruct (j <? length l) eqn:E.
  - apply Nat.ltb_lt in E. apply nth_error_app1; auto.
  - apply Nat.ltb_ge in E. rewrite nth_error_app2 by auto.
    destruct (j =? length l) eqn:E2.
    + apply Nat.eqb_eq in E2. subst. rewrite Nat.sub_diag. reflexivity.
    + apply Nat.eqb_neq in E2. destruct (j - length l) eqn:E3; [lia|].
      simpl. destruct n; reflexivity.
Qed.

Lemma nth_error_lt : forall A (l : list A) i x, nth_error l i = Some x -> i < length l.
Proof. intros. apply nth_error_Some. congruence. Qed.

Lemma nth_error_ge : forall A (l : list A) i, nth_error l i = None -> length l <= i.
Proof. intros. apply nth_error_None. auto. Qed.

Lemma In_upd : forall A (l : list A) i x y, In y (upd l i x) -> y = x \/ In y l.
Proof.
  induction l; destruct i; simpl; intros; auto.
  - destruct H; auto.
  - destruct H; auto. apply IHl in H. destruct H; auto.
Qed.

Lemma In_upd_nth : forall A (l : list A) i x y,
  In y (upd l i x) -> (y = x /\ i < length l) \/ (exists j, j <> i /\ nth_error l j = Some y).
Proof.
  intros. apply In_nth_error in H. destruct H as [j H].
  rewrite nth_error_upd in H. destruct (i =? j) eqn:E.
  - apply Nat.eqb_eq in E. subst. destruct (nth_error l j) eqn:E2; [|discriminate].
    inversion H. left. split; auto. eapply nth_error_lt; eauto.
  - apply Nat.eqb_neq in E. right. exists j. auto.
Qed.

Lemma filter_len_upd : forall A (p : A -> bool) (l : list A) i x y,
  nth_error l i = Some y ->
  length (filter p (upd l i x)) + (if p y then 1 else 0) =
  length (filter p l) + (if p x then 1 else 0).
Proof.
  induction l; intros.
  - destruct i; discriminate.
  - destruct i; simpl in *.
    + inversion H; subst. destruct (p x), (p y); simpl; lia.
    + specialize (IHl _ x _ H). destruct (p a); simpl; lia.
Qed.

Lemma filter_len_snoc : forall A (p : A -> bool) (l : list A) x,
  length (filter p (l ++ [x])) = length (filter p l) + (if p x then 1 else 0).
Proof.
  intros. rewrite filter_app, app_length. simpl. destruct (p x); reflexivity.
Qed.

(* ---------- state accessors ---------- *)
Lemma getq_setq : forall s i q j,
  getq (setq s i q) j =
  if i =? j then match getq s i with Some _ => Some q | None => None end else getq s j.
Proof. intros. unfold getq, setq. simpl. apply nth_error_upd. Qed.

Lemma getq_setq_same : forall s i q q0, getq s i = Some q0 -> getq (setq s i q) i = Some q.
Proof. intros. rewrite getq_setq, Nat.eqb_refl, H. reflexivity. Qed.

Lemma getq_setq_other : forall s i q j, i <> j -> getq (setq s i q) j = getq s j.
Proof. intros. rewrite getq_setq. apply Nat.eqb_neq in H. rewrite H. reflexivity. Qed.

Lemma getq_setf : forall s i f j, getq (setf s i f) j = getq s j.
Proof. reflexivity. Qed.
Lemma getq_addf : forall s f j, getq (addf s f) j = getq s j.
Proof. reflexivity. Qed.

Lemma getq_lt : forall s i q, getq s i = Some q -> i < length (R s).
Proof. intros. eapply nth_error_lt; eauto. Qed.

Lemma getq_some : forall s i, i < length (R s) -> exists q, getq s i = Some q.
Proof.
  intros. unfold getq. destruct (nth_error (R s) i) eqn:E; eauto.
  apply nth_error_None in E. lia.
Qed.

(* ---------- association lists ---------- *)
Lemma alookup_In : forall l k v, alookup l k = Some v -> In (k, v) l.
Proof.
  induction l as [|[k' v'] l]; simpl; intros; [discriminate|].
  destruct (N.eqb k' k) eqn:E.
  - apply N.eqb_eq in E. inversion H; subst. auto.
  - auto.
Qed.

Lemma aremove_In : forall l k kv, In kv (aremove l k) -> In kv l.
Proof.
  induction l as [|[k' v'] l]; simpl; intros; auto.
  destruct (N.eqb k' k); simpl in *; [eauto|]. destruct H; eauto.
Qed.

(* ---------- mark_flushed ---------- *)
Lemma with_flush_idem : forall q, with_flush (with_flush q true) true = with_flush q true.
Proof. reflexivity. Qed.

Lemma mark_flushed_length : forall ids rs, length (mark_flushed rs ids) = length rs.
Proof.
  unfold mark_flushed. induction ids; simpl; intros; auto.
  rewrite IHids. destruct (nth_error rs a); auto. apply length_upd.
Qed.

Lemma mark_flushed_nth : forall ids rs i,
  nth_error (mark_flushed rs ids) i =
  match nth_error rs i with
  | Some q => Some (if existsb (Nat.eqb i) ids then with_flush q true else q)
  | None => None end.
Proof.
  unfold mark_flushed. induction ids; simpl; intros.
  - destruct (nth_error rs i); reflexivity.
  - rewrite IHids. destruct (nth_error rs a) eqn:E.
    + rewrite nth_error_upd. destruct (a =? i) eqn:E2.
      * apply Nat.eqb_eq in E2. subst. rewrite E, Nat.eqb_refl. simpl.
        destruct (existsb (Nat.eqb i) ids); reflexivity.
      * rewrite Nat.eqb_sym, E2. simpl. reflexivity.
    + destruct (i =? a) eqn:E2.
      * apply Nat.eqb_eq in E2. subst. rewrite E. reflexivity.
      * simpl. reflexivity.
Qed.

Lemma mark_flushed_cases : forall ids rs i q',
  nth_error (mark_flushed rs ids) i = Some q' ->
  exists q, nth_error rs i = Some q /\ (q' = q \/ q' = with_flush q true).
Proof.
  intros. rewrite mark_flushed_nth in H. destruct (nth_error rs i); [|discriminate].
  inversion H. exists r. split; auto. destruct (existsb (Nat.eqb i) ids); auto.
Qed.

(* ---------- chains ---------- *)
Lemma chain_In : forall fuel rs o x,
  In x (chain fuel rs o) ->
  o = Some x \/ exists i q, nth_error rs i = Some q /\ q_flushnext q = Some x.
Proof.
  induction fuel; simpl; intros; [contradiction|].
  destruct o as [i|]; [|contradiction].
  destruct (nth_error rs i) eqn:E.
  - destruct H; [subst; auto|]. apply IHfuel in H. destruct H; [|auto].
    right. eauto.
  - destruct H; [subst; auto|contradiction].
Qed.

(* ---------- inversion of a step ---------- *)
Ltac step_cases H :=
  unfold step in H;
  match type of H with (match ?l with _ => _ end) = _ => destruct l end;
  cbv beta iota zeta in H;
  repeat match type of H with
         | (match ?x with _ => _ end) = Some _ => destruct x eqn:?
         | (if ?x then _ else _) = Some _ => destruct x eqn:?
         end;
  try discriminate H;
  inversion H; subst; clear H.

(* ---------- well-formedness ---------- *)
Definition pc_target (p : wpc) : option nat :=
  match p with WF2 t | WF3 t _ | WInFlushOp t => Some t | _ => None end.

Definition rq_wf (n : nat) (q : rq) : Prop :=
  (forall x, q_flushreq q = Some x -> x < n) /\
  (forall x, q_prev q = Some x -> x < n) /\
  (forall x, q_next q = Some x -> x < n) /\
  (forall x, q_target q = Some x -> x < n) /\
  (forall x, q_after q = Some x -> x < n) /\
  (forall x, pc_target (q_pc q) = Some x -> x < n) /\
  (forall x, q_flushnext q = Some x -> x < n).

Definition fr_wf (n : nat) (f : frame) : Prop :=
  f_req f < n /\ (forall x, f_cur f = Some x -> x < n) /\ (f_pc f = R7 -> f_cur f <> None).

Record WF (s : st) : Prop := {
  wf_R : forall r q, getq s r = Some q -> rq_wf (length (R s)) q;
  wf_reqs : forall k v, In (k, v) (reqs s) -> v < length (R s);
  wf_outq : forall r, In r (outq s) -> r < length (R s);
  wf_F : forall f, In f (F s) -> fr_wf (length (R s)) f;
  wf_closed : closed s = true <-> recvr s = RvClosed }.

Lemma rq_wf_mono : forall n m q, n <= m -> rq_wf n q -> rq_wf m q.
Proof.
  unfold rq_wf. intros n m q L (A & B & C & D & E & G & I).
  repeat split; intros x Hx;
    [apply A in Hx|apply B in Hx|apply C in Hx|apply D in Hx|apply E in Hx|apply G in Hx|apply I in Hx]; lia.
Qed.

(* ---------- the step function as a relation with named cases ---------- *)
Definition fresh_rq (tag : N) (k : kind) (newest : option nat) : rq :=
  mkRq tag k false false false false None None newest None
       (match newest with None => WSpawned | Some _ => WWait end) false false [] None newest None.

Definition arrive_R (rs : list rq) (tag : N) (k : kind) (newest : option nat) : list rq :=
  match newest with
  | Some o => match nth_error (rs ++ [fresh_rq tag k newest]) o with
              | Some qo => upd (rs ++ [fresh_rq tag k newest]) o
                               (with_links qo (q_flushreq qo) (Some (length rs)) (q_next qo))
              | None => rs ++ [fresh_rq tag k newest] end
  | None => rs ++ [fresh_rq tag k newest] end.

Definition arrive_rv (s : st) (tag : N) (k : kind) : rstat :=
  match k, alookup (reqs s) tag with KVersion, None => RvVersion (length (R s)) | _, _ => RvOpen end.

Definition version_ids (s : st) (r : nat) : list nat :=
  filter (fun i => negb (Nat.eqb i r))
    (flat_map (fun kv => if N.eqb (fst kv) c_NOTAG then []
                         else group (length (R s)) (R s) (Some (snd kv))) (reqs s)).

Definition vmark (s : st) (r : nat) : st :=
  mkSt (reqs s) (mark_flushed (R s) (version_ids s r)) (F s) (outq s) (wire s) (recvr s) (closed s) (posted s).

Definition tail_rv (rv : rstat) (r : nat) : rstat :=
  match rv with RvVersion r' => if r' =? r then RvOpen else RvVersion r' | x => x end.

Definition r2_link (s : st) (q qn : rq) (nx : nat) : st :=
  let s1 := setq s nx (with_links qn (q_flushreq qn) (q_prev qn) None) in
  match q_flushreq q with
  | None => s1
  | Some fr =>
    match q_flushreq qn with
    | None => setq s1 nx (with_links qn (Some fr) (q_prev qn) None)
    | Some h =>
      let p := chain_last (length (R s)) (R s) h in
      match getq s1 p with
      | Some qp => setq s1 p (with_flushnext qp (Some fr))
      | None => s1 end
    end
  end.

Definition spawn_next (s : st) (o : option nat) : st :=
  match o with
  | Some nx => match getq s nx with
               | Some qn => setq s nx (with_pc qn WSpawned)
               | None => s end
  | None => s end.

(* where the flusher goes after chaining itself: a target that is itself a Tflush is left alone *)
Definition f1_pc (qt : rq) (t : nat) : wpc :=
  match q_kind qt with KFlush _ => WTail | _ => WF2 t end.

Lemma f1_pc_cases : forall qt t,
  (f1_pc qt t = WTail /\ exists o, q_kind qt = KFlush o) \/
  (f1_pc qt t = WF2 t /\ (q_kind qt = KOp \/ q_kind qt = KVersion)).
Proof. intros. unfold f1_pc. destruct (q_kind qt); eauto. Qed.

Lemma f1_pc_target : forall qt t x, pc_target (f1_pc qt t) = Some x -> x = t.
Proof. intros qt t x. unfold f1_pc. destruct (q_kind qt); simpl; congruence. Qed.

Lemma f1_pc_not : forall qt t,
  f1_pc qt t <> WWait /\ f1_pc qt t <> WSpawned /\ f1_pc qt t <> WProc /\ f1_pc qt t <> WInOp /\
  f1_pc qt t <> WDone /\ (forall x b, f1_pc qt t <> WF3 x b) /\ (forall x, f1_pc qt t <> WInFlushOp x).
Proof. intros. unfold f1_pc. destruct (q_kind qt); repeat split; intros; discriminate. Qed.

Definition f1_q (q qt : rq) (t : nat) : rq :=
  with_pc (with_target (with_flushnext (with_buf q v_rflush) (q_flushreq qt)) t) (f1_pc qt t).

(* case split on the kind of the target of an F1 step (decides the flusher's next pc) *)
Ltac f1_split :=
  try match goal with
  | |- context [f1_q _ ?qt _] => unfold f1_q, f1_pc in *; destruct (q_kind qt) eqn:?Ek in *
  | _ : context [f1_q _ ?qt _] |- _ => unfold f1_q, f1_pc in *; destruct (q_kind qt) eqn:?Ek in *
  end.

Definition tail_q (q : rq) : rq :=
  with_pc (with_status q (q_flush q) false (q_resp q) (if q_resp q then q_saved q else true)) WDone.

Definition fr_set (f : frame) (pc : fpc) : frame :=
  mkFrame (f_req f) pc (f_sflush f) (f_next f) (f_cur f) (f_won f).

Inductive Step (c : cfg) (s : st) : label -> st -> Prop :=
| S_Arrive tag k : recvr s = RvOpen ->
    Step c s (LArrive tag k)
      (mkSt (aset (reqs s) tag (length (R s))) (arrive_R (R s) tag k (alookup (reqs s) tag))
            (F s) (outq s) (wire s) (arrive_rv s tag k) (closed s) (posted s))
| S_WStartF r q : getq s r = Some q -> q_pc q = WSpawned -> q_flush q = true ->
    Step c s (LWStart r) (addf (setq s r (with_pc q WDone)) (new_frame r))
| S_WStart r q : getq s r = Some q -> q_pc q = WSpawned -> q_flush q = false ->
    Step c s (LWStart r) (setq s r (with_pc (with_status q false true (q_resp q) (q_saved q)) WProc))
| S_Reject r v q : getq s r = Some q -> q_pc q = WProc -> q_kind q = KOp ->
    Step c s (LReject r v) (addf (setq s r (with_pc (with_buf q v) WTail)) (new_frame r))
| S_OpCall r q : getq s r = Some q -> q_pc q = WProc -> q_kind q = KOp ->
    Step c s (LOpCall r) (setq s r (with_pc (with_called q) WInOp))
| S_OpReturn r q : getq s r = Some q -> q_pc q = WInOp ->
    Step c s (LOpReturn r) (setq s r (with_pc q WTail))
| S_Answer r v q : getq s r = Some q -> q_called q = true ->
    Step c s (LAnswer r v) (addf (setq s r (with_buf q v)) (new_frame r))
| S_F1 r q old t qt qt1 : getq s r = Some q -> q_pc q = WProc -> q_kind q = KFlush old ->
    alookup (reqs s) old = Some t -> getq s t = Some qt ->
    qt1 = (if r =? t then f1_q q qt t else qt) ->
    Step c s (LF1 r) (setq (setq s r (f1_q q qt t)) t (with_links qt1 (Some r) (q_prev qt1) (q_next qt1)))
| S_F1None r q old : getq s r = Some q -> q_pc q = WProc -> q_kind q = KFlush old ->
    alookup (reqs s) old = None ->
    Step c s (LF1 r) (addf (setq s r (with_pc (with_buf q v_rflush) WTail)) (new_frame r))
| S_F2worked r q t qt : getq s r = Some q -> q_pc q = WF2 t -> getq s t = Some qt ->
    q_work qt || q_saved qt = true ->
    Step c s (LF2 r) (setq s r (with_pc q (WF3 t true)))
| S_F2flush r q t qt q' : getq s r = Some q -> q_pc q = WF2 t -> getq s t = Some qt ->
    q_work qt || q_saved qt = false ->
    q' = (if t =? r then with_flush qt true else q) ->
    Step c s (LF2 r) (setq (setq s t (with_flush qt true)) r (with_pc q' (WF3 t false)))
| S_F3resp r q t : getq s r = Some q -> q_pc q = WF3 t false ->
    Step c s (LF3 r) (addf (setq s r (with_pc q WTail)) (new_frame t))
| S_F3op r q t qt q' : getq s r = Some q -> q_pc q = WF3 t true -> has_flushop c = true ->
    getq s t = Some qt -> q' = (if t =? r then with_flushop qt else q) ->
    Step c s (LF3 r) (setq (setq s t (with_flushop qt)) r (with_pc q' (WInFlushOp t)))
| S_F3none r q t : getq s r = Some q -> q_pc q = WF3 t true -> has_flushop c = false ->
    Step c s (LF3 r) (setq s r (with_pc q WTail))
| S_FlushOpReturn r q t : getq s r = Some q -> q_pc q = WInFlushOp t ->
    Step c s (LFlushOpReturn r) (setq s r (with_pc q WTail))
| S_ReqFlush t qt : getq s t = Some qt -> q_flushop qt = true -> q_called qt = true ->
    Step c s (LReqFlush t) (addf (setq s t (with_flush qt true)) (new_frame t))
| S_V1 r q q' : getq s r = Some q -> q_pc q = WProc -> q_kind q = KVersion ->
    getq (vmark s r) r = Some q' ->
    Step c s (LV1 r) (addf (setq (vmark s r) r (with_pc (with_buf q' v_rversion) WTail)) (new_frame r))
| S_WTail r q : getq s r = Some q -> q_pc q = WTail ->
    Step c s (LWTail r)
      (mkSt (reqs s) (upd (R s) r (tail_q q)) (F s) (outq s) (wire s) (tail_rv (recvr s) r) (closed s) (posted s))
| S_R1lost fi f q : nth_error (F s) fi = Some f -> getq s (f_req f) = Some q -> f_pc f = R1 ->
    q_resp q = true ->
    Step c s (LR fi)
      (setf (setq s (f_req f) (with_status q (q_flush q) false true (q_saved q))) fi
            (mkFrame (f_req f) RDone (q_flush q) None None false))
| S_R1won fi f q : nth_error (F s) fi = Some f -> getq s (f_req f) = Some q -> f_pc f = R1 ->
    q_resp q = false ->
    Step c s (LR fi)
      (setf (setq s (f_req f) (with_status q (q_flush q) false true (q_saved q))) fi
            (mkFrame (f_req f) R3 (q_flush q) None None true))
| S_R2link fi f q nx qn : nth_error (F s) fi = Some f -> getq s (f_req f) = Some q -> f_pc f = R2 ->
    q_prev q = Some nx -> getq s nx = Some qn ->
    Step c s (LR fi)
      (setf (r2_link s q qn nx) fi
            (mkFrame (f_req f) R5 (f_sflush f) (Some nx) None (f_won f)))
| S_R2last fi f q : nth_error (F s) fi = Some f -> getq s (f_req f) = Some q -> f_pc f = R2 ->
    q_prev q = None ->
    Step c s (LR fi)
      (setf (mkSt (aremove (reqs s) (q_tag q)) (R s) (F s) (outq s) (wire s) (recvr s) (closed s) (posted s)) fi
            (mkFrame (f_req f) R5 (f_sflush f) None (q_flushreq q) (f_won f)))
| S_R3 fi f q : nth_error (F s) fi = Some f -> getq s (f_req f) = Some q -> f_pc f = R3 ->
    Step c s (LR fi)
      (setf (mkSt (reqs s) (R s) (F s) (outq s) (wire s) (recvr s) (closed s) (posted s ++ [f_req f])) fi
            (fr_set f R4))
| S_R4flush fi f q : nth_error (F s) fi = Some f -> getq s (f_req f) = Some q -> f_pc f = R4 ->
    f_sflush f = true ->
    Step c s (LR fi) (setf s fi (fr_set f R2))
| S_R4closed fi f q : nth_error (F s) fi = Some f -> getq s (f_req f) = Some q -> f_pc f = R4 ->
    f_sflush f = false -> closed s = true ->
    Step c s (LR fi) (setf s fi (fr_set f R2))
| S_R4send fi f q : nth_error (F s) fi = Some f -> getq s (f_req f) = Some q -> f_pc f = R4 ->
    f_sflush f = false -> closed s = false -> room c s = true ->
    Step c s (LR fi)
      (setf (mkSt (reqs s) (R s) (F s) (outq s ++ [f_req f]) (wire s) (recvr s) (closed s) (posted s)) fi
            (fr_set f R2))
| S_R5 fi f q : nth_error (F s) fi = Some f -> getq s (f_req f) = Some q -> f_pc f = R5 ->
    Step c s (LR fi) (setf (spawn_next s (f_next f)) fi (fr_set f R6))
| S_R6done fi f q : nth_error (F s) fi = Some f -> getq s (f_req f) = Some q -> f_pc f = R6 ->
    f_cur f = None ->
    Step c s (LR fi) (setf s fi (mkFrame (f_req f) RDone (f_sflush f) (f_next f) None (f_won f)))
| S_R6next fi f q x : nth_error (F s) fi = Some f -> getq s (f_req f) = Some q -> f_pc f = R6 ->
    f_cur f = Some x ->
    Step c s (LR fi)
      (addf (setf s fi (mkFrame (f_req f) R7 (f_sflush f) (f_next f) (Some x) (f_won f))) (new_frame x))
| S_R7 fi f q x qx : nth_error (F s) fi = Some f -> getq s (f_req f) = Some q -> f_pc f = R7 ->
    f_cur f = Some x -> getq s x = Some qx ->
    Step c s (LR fi) (setf s fi (mkFrame (f_req f) R6 (f_sflush f) (f_next f) (q_flushnext qx) (f_won f)))
| S_Send r rest q : closed s = false -> outq s = r :: rest -> getq s r = Some q ->
    Step c s LSend
      (mkSt (reqs s) (R s) (F s) rest (wire s ++ [(r, q_tag q, q_buf q)]) (recvr s) (closed s) (posted s))
| S_Disconnect : recvr s <> RvClosed ->
    Step c s LDisconnect (mkSt (reqs s) (R s) (F s) (outq s) (wire s) RvClosed true (posted s)).

Lemma step_Step : forall c s l s', step c s l = Some s' -> Step c s l s'.
Proof.
  intros c s l s' H. step_cases H.
  - apply S_Arrive; auto.
  - eapply S_WStartF; eauto.
  - eapply S_WStart; eauto.
  - eapply S_Reject; eauto.
  - eapply S_OpCall; eauto.
  - eapply S_OpReturn; eauto.
  - eapply S_Answer; eauto.
  - eapply S_F1; eauto.
    match goal with H : getq (setq _ _ _) _ = Some _ |- _ => rewrite getq_setq in H end.
    destruct (r =? n) eqn:E.
    + apply Nat.eqb_eq in E. subst.
      match goal with H : match getq ?s ?n with _ => _ end = Some _, H2 : getq ?s ?n = Some _ |- _ =>
        rewrite H2 in H; inversion H end. reflexivity.
    + congruence.
  - eapply S_F1None; eauto.
  - match goal with H : getq (if ?b then _ else _) _ = Some _ |- _ => destruct b eqn:E end.
    + assert (r2 = r0) by congruence. subst. eapply S_F2worked; eauto.
    + eapply S_F2flush; eauto.
      match goal with H : getq (setq _ _ _) _ = Some _ |- _ => rewrite getq_setq in H end.
      destruct (target =? r) eqn:E2.
      * apply Nat.eqb_eq in E2. subst.
        match goal with H : match getq ?s ?n with _ => _ end = Some _, H2 : getq ?s ?n = Some _ |- _ =>
          rewrite H2 in H; inversion H end. reflexivity.
      * congruence.
  - eapply S_F3op; eauto.
    match goal with H : getq (setq _ _ _) _ = Some _ |- _ => rewrite getq_setq in H end.
    destruct (target =? r) eqn:E2.
    + apply Nat.eqb_eq in E2. subst.
      match goal with H : match getq ?s ?n with _ => _ end = Some _, H2 : getq ?s ?n = Some _ |- _ =>
        rewrite H2 in H; inversion H end. reflexivity.
    + congruence.
  - eapply S_F3none; eauto.
  - eapply S_F3resp; eauto.
  - eapply S_FlushOpReturn; eauto.
  - apply andb_prop in Heqb. destruct Heqb. eapply S_ReqFlush; eauto.
  - eapply S_V1; eauto.
  - match goal with |- Step _ _ _ ?x =>
      replace x with (mkSt (reqs s) (upd (R s) r (tail_q r0)) (F s) (outq s) (wire s)
                           (tail_rv (recvr s) r) (closed s) (posted s)) end.
    + apply S_WTail; auto.
    + unfold tail_rv. destruct (recvr s); reflexivity.
  - eapply S_R1lost; eauto.
  - eapply S_R1won; eauto.
  - eapply (S_R2link c s); eauto.
  - eapply (S_R2last c s); eauto.
  - eapply (S_R3 c s); eauto.
  - match goal with |- Step _ _ _ (setf _ _ ?x) =>
      replace x with (fr_set f0 R2) by (unfold fr_set; rewrite Heqb; reflexivity) end.
    eapply (S_R4flush c s); eauto.
  - match goal with |- Step _ _ _ (setf _ _ ?x) =>
      replace x with (fr_set f0 R2) by (unfold fr_set; rewrite Heqb; reflexivity) end.
    eapply (S_R4closed c s); eauto.
  - match goal with |- Step _ _ _ (setf _ _ ?x) =>
      replace x with (fr_set f0 R2) by (unfold fr_set; rewrite Heqb; reflexivity) end.
    rewrite <- Heqb0. eapply (S_R4send c s); eauto.
  - eapply (S_R5 c s); eauto.
  - eapply (S_R6next c s); eauto.
  - eapply (S_R6done c s); eauto.
  - eapply (S_R7 c s); eauto.
  - rewrite <- Heqb. eapply (S_Send c s); eauto.
  - apply S_Disconnect. congruence.
  - apply S_Disconnect. congruence.
Qed.

(* ---------- derived state constructors ---------- *)
Definition opt_is (o : option nat) (j : nat) : bool :=
  match o with Some x => x =? j | None => false end.

Lemma opt_is_true : forall o j, opt_is o j = true <-> o = Some j.
Proof.
  destruct o; simpl; intros; split; intros; try discriminate.
  - apply Nat.eqb_eq in H. subst. auto.
  - inversion H. apply Nat.eqb_refl.
Qed.

Lemma arrive_R_length : forall rs tag k nw, length (arrive_R rs tag k nw) = S (length rs).
Proof.
  intros. unfold arrive_R. destruct nw.
  - destruct (nth_error _ n); rewrite ?length_upd, app_length; simpl; lia.
  - rewrite app_length. simpl. lia.
Qed.

Lemma arrive_R_nth : forall rs tag k nw j,
  (forall o, nw = Some o -> o < length rs) ->
  nth_error (arrive_R rs tag k nw) j =
  if j =? length rs then Some (fresh_rq tag k nw)
  else match nth_error rs j with
       | Some q => Some (if opt_is nw j then with_links q (q_flushreq q) (Some (length rs)) (q_next q) else q)
       | None => None end.
Proof.
  intros. unfold arrive_R. destruct nw as [o|].
  - specialize (H o eq_refl). rewrite nth_error_app1 by auto.
    destruct (nth_error rs o) eqn:E; [|apply nth_error_None in E; lia].
    rewrite nth_error_upd. rewrite (nth_error_app1 rs _ H), E.
    destruct (o =? j) eqn:E2.
    + apply Nat.eqb_eq in E2. subst. destruct (j =? length rs) eqn:E3.
      * apply Nat.eqb_eq in E3. lia.
      * rewrite E. simpl. rewrite Nat.eqb_refl. reflexivity.
    + rewrite nth_error_snoc. destruct (j =? length rs) eqn:E3.
      * apply Nat.eqb_eq in E3. subst. rewrite Nat.ltb_irrefl. reflexivity.
      * simpl. rewrite E2. destruct (j <? length rs) eqn:E4.
        -- destruct (nth_error rs j); reflexivity.
        -- apply Nat.ltb_ge in E4. destruct (nth_error rs j) eqn:E5; auto.
           apply nth_error_lt in E5. lia.
  - rewrite nth_error_snoc. destruct (j =? length rs) eqn:E3.
    + apply Nat.eqb_eq in E3. subst. rewrite Nat.ltb_irrefl. reflexivity.
    + simpl. destruct (j <? length rs) eqn:E4.
      * destruct (nth_error rs j); reflexivity.
      * apply Nat.ltb_ge in E4. destruct (nth_error rs j) eqn:E5; auto.
        apply nth_error_lt in E5. lia.
Qed.

Lemma getq_vmark : forall s r j,
  getq (vmark s r) j =
  match getq s j with
  | Some q => Some (if existsb (Nat.eqb j) (version_ids s r) then with_flush q true else q)
  | None => None end.
Proof. intros. unfold getq, vmark. simpl. apply mark_flushed_nth. Qed.

Lemma getq_spawn_next : forall s o j,
  getq (spawn_next s o) j =
  match getq s j with
  | Some q => Some (if opt_is o j then with_pc q WSpawned else q)
  | None => None end.
Proof.
  intros. unfold spawn_next. destruct o as [nx|]; simpl.
  - destruct (getq s nx) eqn:E.
    + rewrite getq_setq, E. destruct (nx =? j) eqn:E2.
      * apply Nat.eqb_eq in E2. subst. rewrite E. reflexivity.
      * destruct (getq s j); reflexivity.
    + destruct (nx =? j) eqn:E2.
      * apply Nat.eqb_eq in E2. subst. rewrite E. reflexivity.
      * destruct (getq s j); reflexivity.
  - destruct (getq s j); reflexivity.
Qed.

Lemma spawn_next_other : forall s o,
  reqs (spawn_next s o) = reqs s /\ F (spawn_next s o) = F s /\ outq (spawn_next s o) = outq s /\
  wire (spawn_next s o) = wire s /\ recvr (spawn_next s o) = recvr s /\
  closed (spawn_next s o) = closed s /\ posted (spawn_next s o) = posted s /\
  length (R (spawn_next s o)) = length (R s).
Proof.
  intros. unfold spawn_next. destruct o as [nx|]; [destruct (getq s nx)|]; simpl;
    rewrite ?length_upd; repeat split; reflexivity.
Qed.

Lemma getq_setq_inv : forall s i q j q',
  getq (setq s i q) j = Some q' ->
  (i = j /\ q' = q /\ exists q0, getq s i = Some q0) \/ (i <> j /\ getq s j = Some q').
Proof.
  intros. rewrite getq_setq in H. destruct (i =? j) eqn:E.
  - apply Nat.eqb_eq in E. subst. destruct (getq s j) eqn:E2; [|discriminate].
    inversion H. left. eauto.
  - apply Nat.eqb_neq in E. right. auto.
Qed.

(* ---------- R2 relinking ---------- *)
Definition lnk (q : rq) (a b c : option nat) : rq :=
  with_flushnext (with_links q a (q_prev q) b) c.

Lemma lnk_id : forall q, q = lnk q (q_flushreq q) (q_next q) (q_flushnext q).
Proof. destruct q; reflexivity. Qed.

Lemma r2_link_other : forall s q qn nx,
  reqs (r2_link s q qn nx) = reqs s /\ F (r2_link s q qn nx) = F s /\ outq (r2_link s q qn nx) = outq s /\
  wire (r2_link s q qn nx) = wire s /\ recvr (r2_link s q qn nx) = recvr s /\
  closed (r2_link s q qn nx) = closed s /\ posted (r2_link s q qn nx) = posted s /\
  length (R (r2_link s q qn nx)) = length (R s).
Proof.
  intros. unfold r2_link. destruct (q_flushreq q); [destruct (q_flushreq qn)|];
    [match goal with |- context [match ?x with _ => _ end] => destruct x end| |];
    simpl; rewrite ?length_upd; repeat split; reflexivity.
Qed.

Definition lnk_ok (fro : option nat) (q0 : rq) (a b c : option nat) : Prop :=
  (a = q_flushreq q0 \/ a = fro) /\ (b = q_next q0 \/ b = None) /\ (c = q_flushnext q0 \/ c = fro).

Definition Shape (fro : option nat) (s s1 : st) : Prop :=
  forall j, match getq s j with
            | None => getq s1 j = None
            | Some q0 => exists a b c, getq s1 j = Some (lnk q0 a b c) /\ lnk_ok fro q0 a b c end.

Lemma Shape_refl : forall fro s, Shape fro s s.
Proof.
  intros fro s j. destruct (getq s j) eqn:E; auto.
  exists (q_flushreq r), (q_next r), (q_flushnext r). split.
  - f_equal. apply lnk_id.
  - unfold lnk_ok. auto.
Qed.

Lemma Shape_setq : forall fro s s1 p qp a b c,
  Shape fro s s1 -> getq s1 p = Some qp -> lnk_ok fro qp a b c -> Shape fro s (setq s1 p (lnk qp a b c)).
Proof.
  intros fro s s1 p qp a b c H Hp Hok j. specialize (H j). rewrite getq_setq, Hp.
  destruct (p =? j) eqn:E.
  - apply Nat.eqb_eq in E. subst j. destruct (getq s p).
    + destruct H as (a' & b' & c' & H & Hok'). rewrite Hp in H. inversion H; subst.
      exists a, b, c. split; [reflexivity|].
      unfold lnk_ok in *. simpl in Hok. intuition congruence.
    + congruence.
  - exact H.
Qed.

Lemma r2_link_shape : forall s q qn nx, getq s nx = Some qn -> Shape (q_flushreq q) s (r2_link s q qn nx).
Proof.
  intros s q qn nx Hn. unfold r2_link.
  assert (S1 : Shape (q_flushreq q) s (setq s nx (with_links qn (q_flushreq qn) (q_prev qn) None))).
  { replace (with_links qn (q_flushreq qn) (q_prev qn) None) with (lnk qn (q_flushreq qn) None (q_flushnext qn))
      by (destruct qn; reflexivity).
    apply Shape_setq; auto. apply Shape_refl. unfold lnk_ok; auto. }
  destruct (q_flushreq q) as [fr|]; auto.
  destruct (q_flushreq qn) as [h|].
  - cbv zeta. match goal with |- context [match ?x with _ => _ end] => destruct x eqn:E end; auto.
    replace (with_flushnext r (Some fr)) with (lnk r (q_flushreq r) (q_next r) (Some fr))
      by (destruct r; reflexivity).
    apply Shape_setq; auto. unfold lnk_ok; auto.
  - replace (with_links qn (Some fr) (q_prev qn) None) with
      (lnk (with_links qn None (q_prev qn) None) (Some fr) None (q_flushnext qn))
      by (destruct qn; reflexivity).
    apply Shape_setq; auto. apply getq_setq_same with (q0 := qn). auto.
    unfold lnk_ok; simpl; auto.
Qed.

(* ---------- inversion of [getq s' j = Some q'] for successor states ---------- *)
Lemma getq_mk : forall a rs f o w rv cl p j, getq (mkSt a rs f o w rv cl p) j = nth_error rs j.
Proof. reflexivity. Qed.

Lemma getq_upd_inv : forall s i q j q',
  nth_error (upd (R s) i q) j = Some q' ->
  (i = j /\ q' = q /\ exists q0, getq s i = Some q0) \/ (i <> j /\ getq s j = Some q').
Proof. intros. apply getq_setq_inv. exact H. Qed.

Lemma getq_vmark_inv : forall s r j q',
  getq (vmark s r) j = Some q' ->
  exists q, getq s j = Some q /\ (q' = q \/ q' = with_flush q true).
Proof.
  intros s r j q' H. rewrite getq_vmark in H. destruct (getq s j) as [q0|]; [|discriminate].
  inversion H. exists q0. split; auto. destruct (existsb _ _); auto.
Qed.

Lemma getq_spawn_next_inv : forall s o j q',
  getq (spawn_next s o) j = Some q' ->
  exists q, getq s j = Some q /\ (q' = q \/ (o = Some j /\ q' = with_pc q WSpawned)).
Proof.
  intros. rewrite getq_spawn_next in H. destruct (getq s j); [|discriminate].
  inversion H. exists r. split; auto. destruct (opt_is o j) eqn:E; auto.
  apply opt_is_true in E. auto.
Qed.

Lemma getq_r2_link_inv : forall s q qn nx j q',
  getq s nx = Some qn -> getq (r2_link s q qn nx) j = Some q' ->
  exists q0 a b c, getq s j = Some q0 /\ q' = lnk q0 a b c /\ lnk_ok (q_flushreq q) q0 a b c.
Proof.
  intros. pose proof (r2_link_shape s q qn nx H j) as S. destruct (getq s j).
  - destruct S as (a & b & c & S & Hok). rewrite S in H0. inversion H0. eauto 8.
  - congruence.
Qed.

Lemma getq_arrive_inv : forall s tag k j q',
  (forall o, alookup (reqs s) tag = Some o -> o < length (R s)) ->
  nth_error (arrive_R (R s) tag k (alookup (reqs s) tag)) j = Some q' ->
  (j = length (R s) /\ q' = fresh_rq tag k (alookup (reqs s) tag)) \/
  (exists q, getq s j = Some q /\
     (q' = q \/ (alookup (reqs s) tag = Some j /\
                 q' = with_links q (q_flushreq q) (Some (length (R s))) (q_next q)))).
Proof.
  intros. rewrite arrive_R_nth in H0 by auto. destruct (j =? length (R s)) eqn:E.
  - apply Nat.eqb_eq in E. inversion H0. auto.
  - right. unfold getq. destruct (nth_error (R s) j); [|discriminate]. inversion H0.
    exists r. split; auto. destruct (opt_is _ j) eqn:E2; auto. apply opt_is_true in E2. auto.
Qed.

Ltac gq H :=
  rewrite ?getq_addf, ?getq_setf in H;
  lazymatch type of H with
  | getq (setq _ _ _) _ = Some _ =>
      let E := fresh "E" in let q0 := fresh "q0" in let Hq := fresh "Hq" in
      apply getq_setq_inv in H; destruct H as [(E & ? & (q0 & Hq)) | (E & H)]; [subst | gq H]
  | getq (vmark _ _) _ = Some _ =>
      let q0 := fresh "q0" in let Hq := fresh "Hq" in
      apply getq_vmark_inv in H; destruct H as (q0 & Hq & [H | H]); subst
  | getq (spawn_next _ _) _ = Some _ =>
      let q0 := fresh "q0" in let Hq := fresh "Hq" in let Ho := fresh "Ho" in
      apply getq_spawn_next_inv in H; destruct H as (q0 & Hq & [H | (Ho & H)]); subst
  | getq (r2_link ?s ?q ?qn ?nx) _ = Some _ =>
      let q0 := fresh "q0" in let Hq := fresh "Hq" in let Hok := fresh "Hok" in
      let a := fresh "a" in let b := fresh "b" in let c := fresh "c" in
      match goal with Hn : getq s nx = Some qn |- _ =>
        apply (getq_r2_link_inv s q qn nx _ _ Hn) in H;
        destruct H as (q0 & a & b & c & Hq & H & Hok); subst end
  | getq (mkSt _ (upd (R _) _ _) _ _ _ _ _ _) _ = Some _ =>
      let E := fresh "E" in let q0 := fresh "q0" in let Hq := fresh "Hq" in
      rewrite getq_mk in H;
      apply getq_upd_inv in H; destruct H as [(E & ? & (q0 & Hq)) | (E & H)]; [subst | gq H]
  | getq (mkSt _ (R ?s) _ _ _ _ _ _) ?j = Some _ =>
      rewrite getq_mk in H; change (nth_error (R s) j) with (getq s j) in H
  | _ => idtac
  end.
