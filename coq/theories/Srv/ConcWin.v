(* The winning invocation of Respond is unique; tag groups. *)
From Coq Require Import NArith List Bool PeanoNat Lia.
From V9 Require Import Lib.GoSem Gen.Consts Srv.Conc Srv.ConcInv Srv.ConcWF Srv.ConcMono Srv.ConcCount Srv.ConcContent.
Import ListNotations.

(* progress of an invocation (R6/R7 form the final loop) *)
Definition ord (p : fpc) : nat :=
  match p with R1 => 0 | R3 => 1 | R4 => 2 | R2 => 3 | R5 => 4 | R6 => 5 | R7 => 5 | RDone => 6 end.

Definition mid (p : fpc) : bool := match p with R1 | RDone => false | _ => true end.

(* the frame list after a step: every old frame is still there, at the same index, further along *)
Definition fr_adv (f f' : frame) : Prop :=
  f_req f' = f_req f /\ ord (f_pc f) <= ord (f_pc f') /\
  (f_pc f <> R1 -> f_won f' = f_won f /\ f_sflush f' = f_sflush f).

Lemma fr_adv_refl : forall f, fr_adv f f.
Proof. unfold fr_adv. intuition. Qed.

Lemma nth_error_app_l : forall A (l l' : list A) i x, nth_error l i = Some x -> nth_error (l ++ l') i = Some x.
Proof. intros. rewrite nth_error_app1; auto. eapply nth_error_lt; eauto. Qed.

Lemma persist_upd : forall (l : list frame) fi f f' i f0,
  nth_error l fi = Some f -> fr_adv f f' -> nth_error l i = Some f0 ->
  exists f'', nth_error (upd l fi f') i = Some f'' /\ fr_adv f0 f''.
Proof.
  intros. rewrite nth_error_upd, H. destruct (fi =? i) eqn:E.
  - apply Nat.eqb_eq in E. subst. assert (f0 = f) by congruence. subst. eauto.
  - exists f0. split; auto. apply fr_adv_refl.
Qed.

Ltac adv_tac H1 := unfold fr_adv, fr_set; simpl; rewrite H1; simpl; intuition (try congruence; try lia).

Lemma frame_persist : forall c s l s', Step c s l s' ->
  forall i f, nth_error (F s) i = Some f -> exists f', nth_error (F s') i = Some f' /\ fr_adv f f'.
Proof.
  intros c s l s' H i f0 Hn.
  destruct H; simpl; rewrite ?F_r2_link, ?F_spawn_next;
    try (exists f0; split; [first [assumption | apply nth_error_app_l; assumption] | apply fr_adv_refl]; fail).
  all: try solve [eapply persist_upd; eauto; adv_tac H1].
  (* R6: a new frame is appended as well *)
  edestruct (persist_upd (F s) fi f) as (f'' & A & B); [eassumption | | eassumption |].
  2: { exists f''. split; [apply nth_error_app_l; exact A | exact B]. }
  adv_tac H1.
Qed.

Lemma frame_persist_in : forall c s l s', Step c s l s' ->
  forall f, In f (F s) -> exists f', In f' (F s') /\ fr_adv f f'.
Proof.
  intros. apply In_nth_error in H0. destruct H0 as (i & Hn).
  destruct (frame_persist _ _ _ _ H _ _ Hn) as (f' & A & B). exists f'. split; auto.
  eapply nth_error_In; eauto.
Qed.

(* ---------- the invariant ---------- *)
Definition pw (r : nat) (f : frame) : bool := (f_req f =? r) && f_won f.
Definition wcnt (s : st) (r : nat) : nat := length (filter (pw r) (F s)).

Definition won_past (s : st) (a : nat) (n : nat) : Prop :=
  exists f, In f (F s) /\ f_req f = a /\ f_won f = true /\ n <= ord (f_pc f).

Record GInv (s : st) : Prop := {
  g_w1 : forall f, In f (F s) -> (mid (f_pc f) = true -> f_won f = true) /\ (f_pc f = R1 -> f_won f = false);
  g_w2 : forall r, wcnt s r <= 1 /\ (qb s r q_resp = false -> wcnt s r = 0);
  g_next : forall f b, In f (F s) -> f_next f = Some b ->
             f_won f = true /\ 4 <= ord (f_pc f) /\ exists qb, getq s b = Some qb /\ q_after qb = Some (f_req f);
  g_prev : forall a qa b, getq s a = Some qa -> q_prev qa = Some b ->
             exists qb, getq s b = Some qb /\ q_after qb = Some a;
  g_wait : forall b qb a, getq s b = Some qb -> q_after qb = Some a ->
             q_pc qb = WWait \/ won_past s a 5 }.

Lemma GInv_init : GInv init.
Proof.
  constructor; simpl; intros; try contradiction; try (destruct a; discriminate); try (destruct b; discriminate).
  unfold wcnt, qb. simpl. auto.
Qed.

Lemma two_in_filter : forall A (p : A -> bool) l i j x y,
  nth_error l i = Some x -> nth_error l j = Some y -> i <> j -> p x = true -> p y = true ->
  2 <= length (filter p l).
Proof.
  induction l; intros.
  - destruct i; discriminate.
  - destruct i, j; simpl in *; try congruence.
    + inversion H; subst. rewrite H2. simpl.
      apply nth_error_In in H0. assert (In y (filter p l)) by (apply filter_In; auto).
      destruct (filter p l); [contradiction | simpl; lia].
    + inversion H0; subst. rewrite H3. simpl.
      apply nth_error_In in H. assert (In x (filter p l)) by (apply filter_In; auto).
      destruct (filter p l); [contradiction | simpl; lia].
    + assert (i <> j) by lia. assert (2 <= length (filter p l)) by (apply (IHl i j x y); auto).
      destruct (p a); simpl; lia.
Qed.

Lemma won_unique : forall s i j f1 f2, GInv s ->
  nth_error (F s) i = Some f1 -> nth_error (F s) j = Some f2 ->
  f_req f1 = f_req f2 -> f_won f1 = true -> f_won f2 = true -> i = j.
Proof.
  intros s i j f1 f2 G H1 H2 E W1 W2. destruct (Nat.eq_dec i j); auto. exfalso.
  pose proof (g_w2 s G (f_req f1)) as (A & _). unfold wcnt in A.
  assert (2 <= length (filter (pw (f_req f1)) (F s))).
  { apply (two_in_filter _ (pw (f_req f1)) (F s) i j f1 f2); auto; unfold pw.
    - rewrite Nat.eqb_refl, W1. reflexivity.
    - rewrite <- E, Nat.eqb_refl, W2. reflexivity. }
  lia.
Qed.

Lemma won_unique_in : forall s f1 f2, GInv s -> In f1 (F s) -> In f2 (F s) ->
  f_req f1 = f_req f2 -> f_won f1 = true -> f_won f2 = true -> f1 = f2.
Proof.
  intros. apply In_nth_error in H0, H1. destruct H0 as (i & Hi). destruct H1 as (j & Hj).
  assert (i = j) by (eapply won_unique; eauto). subst. congruence.
Qed.

Lemma wcnt_upd : forall s s' fi f f' r,
  nth_error (F s) fi = Some f -> F s' = upd (F s) fi f' ->
  wcnt s' r + b2n (pw r f) = wcnt s r + b2n (pw r f').
Proof. intros. unfold wcnt. rewrite H0. apply filter_len_upd. auto. Qed.

Lemma wcnt_snoc : forall s s' x r, F s' = F s ++ [new_frame x] -> wcnt s' r = wcnt s r.
Proof.
  intros. unfold wcnt. rewrite H, filter_len_snoc. unfold pw. simpl.
  rewrite andb_false_r. lia.
Qed.

Lemma wcnt_same : forall s s' r, F s' = F s -> wcnt s' r = wcnt s r.
Proof. intros. unfold wcnt. rewrite H. auto. Qed.

Lemma wcnt_step : forall c s l s', GInv s -> Step c s l s' ->
  forall r, wcnt s' r = wcnt s r \/
            (wcnt s' r = wcnt s r + 1 /\ qb s r q_resp = false /\ qb s' r q_resp = true).
Proof.
  intros c s l s' G H r.
  destruct H.
  all: try solve [left; apply wcnt_same; simpl; rewrite ?F_r2_link, ?F_spawn_next; reflexivity].
  all: try solve [left; eapply wcnt_snoc; simpl; reflexivity].
  all: unfold fr_set.
  all: try solve [left;
    match goal with Hn : nth_error (F _) ?fi = Some ?f |- wcnt ?s' _ = _ =>
      pose proof (wcnt_upd s s' fi f _ r Hn ltac:(simpl; rewrite ?F_r2_link, ?F_spawn_next; reflexivity)) as E end;
    unfold pw, fr_set in E; simpl in E; lia].
  - (* R1 lost *)
    left. match goal with |- wcnt ?s' _ = _ => pose proof (wcnt_upd s s' fi f _ r H eq_refl) as E end.
    unfold pw in E; simpl in E. rewrite (proj2 (g_w1 s G f (nth_error_In _ _ H)) H1) in E.
    rewrite !andb_false_r in E. simpl in E. lia.
  - (* R1 won *)
    match goal with |- wcnt ?s' _ = _ \/ _ => pose proof (wcnt_upd s s' fi f _ r H eq_refl) as E end.
    unfold pw in E; simpl in E. rewrite (proj2 (g_w1 s G f (nth_error_In _ _ H)) H1) in E.
    rewrite andb_false_r, andb_true_r in E. simpl in E.
    destruct (f_req f =? r) eqn:E2; simpl in E.
    + right. apply Nat.eqb_eq in E2. subst. split; [lia|].
      rewrite qb_setf, (qb_setq_same _ _ _ q) by auto. unfold qb. rewrite H0. simpl. auto.
    + left. lia.
  - (* R6 next *)
    left. match goal with |- wcnt (addf ?s1 (new_frame ?x)) _ = _ =>
      rewrite (wcnt_snoc s1 (addf s1 (new_frame x)) x r eq_refl);
      pose proof (wcnt_upd s s1 fi f _ r H eq_refl) as E end.
    unfold pw in E; simpl in E. lia.
Qed.

Lemma won_past_step : forall c s l s' a n, Step c s l s' -> 1 <= n -> won_past s a n -> won_past s' a n.
Proof.
  intros c s l s' a n H Hn (f & Hi & Hr & Hw & Ho).
  destruct (frame_persist_in _ _ _ _ H _ Hi) as (f' & Hi' & E1 & E2 & E3).
  exists f'. repeat split; auto; try congruence; try lia.
  destruct E3 as (E3 & _); [|congruence]. intro X. rewrite X in Ho. simpl in Ho. lia.
Qed.

Lemma GInv_step_w1 : forall c s l s', GInv s -> Step c s l s' ->
  forall f, In f (F s') -> (mid (f_pc f) = true -> f_won f = true) /\ (f_pc f = R1 -> f_won f = false).
Proof.
  intros c s l s' G H f' Hi.
  destruct H; split_in Hi.
  all: try solve [apply (g_w1 s G); assumption].
  all: try solve [simpl; split; intros; congruence].
  all: try solve [match goal with Hn : nth_error (F _) _ = Some ?f |- _ =>
         destruct (g_w1 s G f (nth_error_In _ _ Hn)) as (A & B) end;
         unfold fr_set; simpl; split; intros; try congruence; apply A;
         match goal with Hpc : f_pc _ = _ |- _ => rewrite Hpc end; reflexivity].
Qed.

Lemma GInv_step_w2 : forall c s l s', WF s -> GInv s -> Step c s l s' ->
  forall r, wcnt s' r <= 1 /\ (qb s' r q_resp = false -> wcnt s' r = 0).
Proof.
  intros c s l s' W G H r. destruct (g_w2 s G r) as (A & B).
  destruct (wcnt_step _ _ _ _ G H r) as [E | (E1 & E2 & E3)].
  - rewrite E. split; auto. intro X. apply B.
    destruct (qb s r q_resp) eqn:Y; auto.
    apply (qb_mono _ _ _ _ r W H) in Y. congruence.
  - rewrite E1, (B E2). split; [lia | congruence].
Qed.

Lemma after_step : forall c s l s' b qb a, WF s -> Step c s l s' ->
  getq s b = Some qb -> q_after qb = Some a -> exists qb', getq s' b = Some qb' /\ q_after qb' = Some a.
Proof.
  intros. destruct (step_evol _ _ _ _ H H0 _ _ H1) as (q' & Hq' & E). unfold evol in E.
  exists q'. split; auto. intuition congruence.
Qed.

Lemma GInv_step_next : forall c s l s', WF s -> GInv s -> Step c s l s' ->
  forall f b, In f (F s') -> f_next f = Some b ->
    f_won f = true /\ 4 <= ord (f_pc f) /\ exists qb, getq s' b = Some qb /\ q_after qb = Some (f_req f).
Proof.
  intros c s l s' W G H f' b Hi Hb. assert (H' := H).
  assert (A := fun b qb a => after_step c s l s' b qb a W H').
  destruct H; split_in Hi.
  all: try solve [destruct (g_next s G _ _ Hi Hb) as (X1 & X2 & qb & X3 & X4); eauto].
  all: try discriminate Hb.
  all: try solve [match goal with Hn : nth_error (F _) _ = Some ?f |- _ =>
         destruct (g_next s G f b (nth_error_In _ _ Hn) Hb) as (X1 & X2 & qb & X3 & X4) end;
         unfold fr_set; simpl; repeat split; eauto;
         match goal with Hpc : f_pc _ = _ |- _ => rewrite Hpc in *; simpl in *; lia end].
  (* R2 with a newer request of the same tag *)
  simpl in *. inversion Hb; subst. repeat split; auto.
  - apply (g_w1 s G f (nth_error_In _ _ H)). rewrite H1. reflexivity.
  - destruct (g_prev s G _ _ _ H0 H2) as (qb & X1 & X2). eauto.
Qed.

Lemma GInv_step_prev : forall c s l s', WF s -> GInv s -> Step c s l s' ->
  forall a qa b, getq s' a = Some qa -> q_prev qa = Some b ->
    exists qb, getq s' b = Some qb /\ q_after qb = Some a.
Proof.
  intros c s l s' W G H a qa' b Hq Hb.
  destruct (step_exact _ _ _ _ W H _ _ Hq) as [(qa & Hqa & [E | (tag & k & -> & Ho & E)] & _) | (-> & tag & k & -> & ->)].
  - rewrite E in Hb. destruct (g_prev s G _ _ _ Hqa Hb) as (qb & X1 & X2).
    eapply after_step; eauto.
  - rewrite E in Hb. inversion Hb; subst. inversion H; subst.
    exists (fresh_rq tag k (alookup (reqs s) tag)). split.
    + rewrite getq_mk, arrive_R_nth, Nat.eqb_refl; auto.
      intros o Hoo. eapply (wf_reqs s W), alookup_In; eauto.
    + simpl. auto.
  - discriminate.
Qed.

Lemma GInv_step_wait : forall c s l s', WF s -> GInv s -> Step c s l s' ->
  forall b qb a, getq s' b = Some qb -> q_after qb = Some a -> q_pc qb = WWait \/ won_past s' a 5.
Proof.
  intros c s l s' W G H b qb' a Hq Ha.
  destruct (step_exact _ _ _ _ W H _ _ Hq) as [(qb & Hqb & _ & E & _) | (-> & tag & k & -> & ->)].
  - destruct (step_evol _ _ _ _ W H _ _ Hqb) as (q2 & Hq2 & Ev).
    assert (q2 = qb') by congruence. subst. unfold evol in Ev.
    assert (Ha' : q_after qb = Some a) by (intuition congruence).
    destruct (g_wait s G _ _ _ Hqb Ha') as [X | X].
    + destruct (E X) as [Y | (Y & fi & f & -> & Hn & Hpc & Hnx)]; auto.
      right. destruct (g_next s G f b (nth_error_In _ _ Hn) Hnx) as (Wn & _ & q3 & Hq3 & Ha3).
      assert (a = f_req f) by congruence. subst.
      inversion H; subst; try congruence;
        match goal with Hn' : nth_error (F s) fi = Some ?f0 |- _ =>
          assert (f0 = f) by congruence; subst end; try congruence.
      exists (fr_set f R6). repeat split; auto.
      simpl. rewrite F_spawn_next. eapply nth_error_In. eapply nth_error_upd_same; eauto.
    + right. eapply won_past_step; eauto.
  - simpl in *. left. rewrite Ha. reflexivity.
Qed.

Lemma GInv_step : forall c s l s', WF s -> GInv s -> Step c s l s' -> GInv s'.
Proof.
  intros. constructor.
  - eapply GInv_step_w1; eauto.
  - eapply GInv_step_w2; eauto.
  - eapply GInv_step_next; eauto.
  - eapply GInv_step_prev; eauto.
  - eapply GInv_step_wait; eauto.
Qed.

Lemma reach_GInv : forall c s, reach c s -> GInv s.
Proof.
  induction 1; [apply GInv_init|].
  eapply GInv_step; eauto using reach_WF, step_Step.
Qed.

(* the request started by R5 is still waiting *)
Lemma spawn_waiting : forall s f b, GInv s -> In f (F s) -> f_pc f = R5 -> f_next f = Some b ->
  exists qb, getq s b = Some qb /\ q_pc qb = WWait.
Proof.
  intros s f b G Hi Hpc Hb.
  destruct (g_next s G f b Hi Hb) as (Wn & _ & qb & Hq & Ha).
  exists qb. split; auto.
  destruct (g_wait s G _ _ _ Hq Ha) as [X | (f' & Hi' & Hr & Hw & Ho)]; auto.
  assert (f' = f) by (eapply won_unique_in; eauto). subst. rewrite Hpc in Ho. simpl in Ho. lia.
Qed.
