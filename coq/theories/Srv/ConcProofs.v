(* Proofs about the request life-cycle LTS (Srv/Conc.v). *)
From Coq Require Import NArith List Bool PeanoNat Lia.
From V9 Require Import Lib.GoSem Gen.Consts Srv.Conc.
From V9 Require Import Srv.ConcInv Srv.ConcWF Srv.ConcEasy Srv.ConcMono Srv.ConcCount Srv.ConcContent Srv.ConcLocal Srv.ConcWin Srv.ConcCalled Srv.ConcOrder Srv.ConcFlush Srv.ConcCancel Srv.ConcAcyc Srv.ConcFinish Srv.ConcAnswered.
Import ListNotations.

(* ---------- vocabulary ---------- *)
Definition qget (s : st) (r : nat) (f : rq -> bool) : bool :=
  match getq s r with Some q => f q | None => false end.

(* no request ever shared its tag with another outstanding one *)
Definition NoGroups (s : st) : Prop :=
  forall r q, getq s r = Some q -> q_after q = None /\ q_prev q = None /\ q_next q = None.

(* nothing the library can do by itself is enabled *)
Definition quiescent (c : cfg) (s : st) : Prop :=
  forall l, is_internal l = true -> step c s l = None.

(* the implementation has answered every request it was handed *)
Definition all_answered (s : st) : Prop :=
  forall r q, getq s r = Some q -> q_called q = true -> q_resp q = true.

Definition has_frame (s : st) (r : nat) : Prop := exists f, In f (F s) /\ f_req f = r.

Definition only_labels (p : label -> bool) (ls : list label) : Prop := Forall (fun l => p l = true) ls.

Definition frame_pc (s : st) (fi : nat) : option fpc :=
  match nth_error (F s) fi with Some f => Some (f_pc f) | None => None end.

(* ========== C03 ========== *)

(* at most one reply per request, however often and from wherever Respond is called *)
Theorem at_most_one_reply : forall c s r,
  reach c s -> on_wire s r + in_outq s r <= 1.
Proof.
  intros c s r H. pose proof (ci_cnt s (reach_CInv c s H) r) as (A & _).
  unfold NN in A. lia.
Qed.

(* every reply carries the tag of a request that was received, and something was packed for it *)
Theorem reply_tag_and_content : forall c s r tag v,
  reach c s -> In (r, tag, v) (wire s) ->
  exists q, getq s r = Some q /\ q_tag q = tag /\
            exists x, v = Some x /\ In x (q_packs q).
Proof.
  intros c s r tag v H Hi.
  destruct (b_wire s (reach_BInv c s H) _ Hi) as (q & Hq & T & x & E & I).
  simpl in *. eauto 8.
Qed.

(* with a single answer the content is exactly that answer *)
Corollary reply_content_exact : forall c s r tag v q x,
  reach c s -> In (r, tag, v) (wire s) -> getq s r = Some q -> q_packs q = [x] -> v = Some x.
Proof.
  intros c s r tag v q x H Hi Hq Hp.
  destruct (reply_tag_and_content c s r tag v H Hi) as (q' & Hq' & _ & y & -> & I).
  assert (q' = q) by congruence. subst. rewrite Hp in I. destruct I as [-> | []]. reflexivity.
Qed.

(* at quiescence, on an open connection, every request that was answered (by the
   framework or the implementation) and not cancelled has exactly one reply on the wire *)
Theorem exactly_one_at_quiescence : forall c s r q,
  reach c s -> quiescent c s -> closed s = false ->
  getq s r = Some q -> q_flush q = false -> has_frame s r ->
  on_wire s r = 1.
Proof.
  intros c s r q H Q Hc Hq Hfl (f & Hf & Hr).
  pose proof (reach_WF c s H) as W. pose proof (reach_CInv c s H) as CI.
  (* the reply channel is empty *)
  assert (O : outq s = []).
  { destruct (outq s) as [|x rest] eqn:E; auto. exfalso.
    assert (X : step c s LSend = None) by (apply Q; reflexivity).
    unfold step in X. rewrite Hc, E in X.
    destruct (getq_some s x) as (qx & Hx); [apply (wf_outq s W); rewrite E; left; auto|].
    rewrite Hx in X. discriminate. }
  (* hence every invocation of Respond has finished *)
  assert (D : forall f', In f' (F s) -> f_pc f' = RDone).
  { intros f' Hi. apply In_nth_error in Hi. destruct Hi as (fi & Hn).
    destruct (f_pc f') eqn:E; auto; exfalso;
      (eapply (LR_enabled c s fi f' W Hn); [congruence | | apply Q; reflexivity]);
      intros _; right; right; unfold room; rewrite O; reflexivity. }
  pose proof (ci_fr s CI f Hf) as (A & _). { rewrite (D f Hf). discriminate. }
  rewrite Hr in A.
  pose proof (ci_cnt s CI r) as (_ & _ & C). destruct (C A) as [X | [X | X]].
  - unfold NN, cnt34, in_outq in X. rewrite O in X. simpl in X.
    replace (filter (p34 r) (F s)) with (@nil frame) in X; [simpl in X; lia|].
    symmetry. clear - D. induction (F s) as [|a l IH]; auto. simpl.
    unfold p34 at 1. rewrite (D a) by (left; auto). simpl. rewrite andb_false_r.
    apply IH. intros. apply D. right. auto.
  - unfold qb in X. rewrite Hq in X. congruence.
  - congruence.
Qed.

(* ========== C07 ========== *)

(* if both the target's reply and the Rflush are sent, the reply comes first *)
Theorem reply_before_rflush : forall c s f t qf i j,
  reach c s -> NoGroups s ->
  getq s f = Some qf -> q_target qf = Some t ->
  wire_index s f = Some i -> wire_index s t = Some j -> j < i.
Proof.
  intros c s f t qf i j H NGr. eapply reply_before_rflush_inv; eauto. apply NoGroups_NG. exact NGr.
Qed.

(* once the Rflush is on the wire without a preceding reply, the target is never
   handed to the implementation afterwards and never answered *)
Theorem rflush_means_cancelled : forall c s f t qf qt,
  reach c s -> NoGroups s ->
  getq s f = Some qf -> q_target qf = Some t -> getq s t = Some qt ->
  1 <= on_wire s f -> on_wire s t = 0 ->
  forall ls s', run c s ls = Some s' ->
    on_wire s' t = 0 /\ in_outq s' t = 0 /\
    (forall qt', getq s' t = Some qt' -> q_called qt' = q_called qt).
Proof.
  intros c s f t qf qt H NGr. eapply rflush_means_cancelled_inv; eauto. apply NoGroups_NG. exact NGr.
Qed.

(* a request whose reqFlush bit is set before any goroutine worked on it (cancelled
   by Tflush or by a Tversion) is never handed to the implementation *)
Theorem flushed_before_start_never_called : forall c s t qt,
  reach c s -> getq s t = Some qt -> q_flush qt = true ->
  (q_pc qt = WWait \/ q_pc qt = WSpawned) ->
  q_called qt = false /\
  forall ls s' qt', run c s ls = Some s' -> getq s' t = Some qt' -> q_called qt' = false.
Proof. exact flushed_before_start_inv. Qed.

(* the flush handler sets reqFlush on a target only if no goroutine has worked on it *)
Theorem flush_cancels_only_unstarted : forall c s f t qf s',
  reach c s -> getq s f = Some qf -> q_pc qf = WF2 t -> step c s (LF2 f) = Some s' ->
  forall qt qt', getq s t = Some qt -> getq s' t = Some qt' ->
  (q_flush qt' = true /\ q_flush qt = false) -> (q_pc qt' = WWait \/ q_pc qt' = WSpawned \/ q_resp qt' = true).
Proof. exact flush_cancels_only_unstarted_inv. Qed.

(* every Tflush is answered: at quiescence, with everything handed to the
   implementation answered, each flush request that ran has exactly one Rflush.

   As first stated (without the last hypothesis below) this is FALSE: a Tflush whose
   oldtag is its own tag (or two Tflush naming each other) finds a flush request
   under oldtag, chains itself onto it and leaves the answer to that request's
   Respond, which never comes.  [flush_answered_once_counterexample] is such a run:
   LArrive 1 (KFlush 1); LWStart 0; LF1 0; LWTail 0
   (a target that is itself a Tflush is not touched: Srv.flush returns right after
   chaining, so there is no LF2 / LF3 for this flusher).
   The corrected statement requires that the request found under oldtag is not
   itself a flush request.  A Tflush naming another, not yet started Tflush no longer
   suppresses the latter's Rflush: see [flush_of_flush_both_answered] below. *)
Definition cex_cfg : cfg := mkCfgC 4 false.
Definition cex_run : list label :=
  [LArrive 1%N (KFlush 1%N); LWStart 0; LF1 0; LWTail 0].
Definition cex_rq : rq :=
  mkRq 1%N (KFlush 1%N) false false false true (Some 0) None None (Some 1%N) WDone false false
       [1%N] (Some 0) None None.
Definition cex_st : st := mkSt [(1%N, 0)] [cex_rq] [] [] [] RvOpen false [].

Lemma flush_answered_once_counterexample :
  run cex_cfg init cex_run = Some cex_st /\
  reach cex_cfg cex_st /\ quiescent cex_cfg cex_st /\ closed cex_st = false /\ NoGroups cex_st /\
  all_answered cex_st /\
  getq cex_st 0 = Some cex_rq /\ q_kind cex_rq = KFlush 1%N /\ q_flush cex_rq = false /\
  q_pc cex_rq = WDone /\ on_wire cex_st 0 = 0.
Proof.
  assert (Rn : run cex_cfg init cex_run = Some cex_st) by (vm_compute; reflexivity).
  split; auto. split; [eapply run_reach; [apply reach_init | exact Rn]|].
  split.
  { intros l Hl. destruct l; simpl in Hl; try discriminate; try reflexivity;
      try (destruct r as [|r]; [reflexivity | destruct r; reflexivity]).
    destruct f; reflexivity. }
  split; [reflexivity|]. split.
  { intros r q Hq. destruct r as [|r]; [inversion Hq; subst; auto | destruct r; discriminate]. }
  split.
  { intros r q Hq Hc. destruct r as [|r]; [inversion Hq; subst; discriminate | destruct r; discriminate]. }
  repeat split; reflexivity.
Qed.

Theorem flush_answered_once_corrected : forall c s f qf old,
  reach c s -> quiescent c s -> closed s = false -> NoGroups s -> all_answered s ->
  getq s f = Some qf -> q_kind qf = KFlush old -> q_flush qf = false ->
  (q_pc qf = WDone \/ exists t, q_pc qf = WInFlushOp t) ->
  (forall t qt, q_target qf = Some t -> getq s t = Some qt -> q_kind qt = KOp \/ q_kind qt = KVersion) ->
  on_wire s f = 1.
Proof.
  intros c s f qf old H Q Hc NGr AA Hf Hk Hfl Hpc NF.
  eapply exactly_one_at_quiescence; eauto.
  eapply flush_has_frame; eauto. apply NoGroups_NG. exact NGr.
Qed.

(* A Tflush naming another Tflush that has not started yet does not cancel it (Srv.flush
   returns right after chaining when the target is itself a Tflush): request 0 (tag 5) is
   with the implementation; request 1 (tag 20) flushes tag 5, request 2 (tag 21) flushes
   tag 20 and runs its F1 while request 1 is still only spawned.  Request 2 goes straight
   to its tail, request 1 then runs normally; when the implementation answers request 0,
   its Respond answers request 1, whose Respond answers request 2: all three replies are
   on the wire, in that order. *)
Definition ff_run_pre : list label :=
  [LArrive 5%N KOp; LWStart 0; LOpCall 0;
   LArrive 20%N (KFlush 5%N); LArrive 21%N (KFlush 20%N);
   LWStart 2; LF1 2].
Definition ff_run_post : list label :=
  [LWTail 2;
   LWStart 1; LF1 1; LF2 1; LF3 1; LWTail 1;
   LAnswer 0 9%N; LOpReturn 0; LWTail 0;
   LR 0; LR 0; LR 0; LR 0; LR 0; LR 0; LR 0; LR 0;
   LR 1; LR 1; LR 1; LR 1; LR 1; LR 1; LR 1; LR 1;
   LR 2; LR 2; LR 2; LR 2; LR 2; LR 2;
   LSend; LSend; LSend].

Example flush_of_flush_both_answered :
  (* after the second flush's F1: the first flush has not started and is not marked flushed,
     the second is chained on it and already past Process() *)
  option_map (fun s => map (fun q => (q_pc q, q_flush q, q_flushreq q, q_target q)) (R s))
             (run cex_cfg init ff_run_pre)
  = Some [(WInOp, false, None, None); (WSpawned, false, Some 2, None); (WTail, false, None, Some 1)] /\
  (* LF2 / LF3 are not enabled for it *)
  option_map (fun s => (step cex_cfg s (LF2 2), step cex_cfg s (LF3 2))) (run cex_cfg init ff_run_pre)
  = Some (None, None) /\
  (* at the end every request has its reply on the wire *)
  option_map wire (run cex_cfg init (ff_run_pre ++ ff_run_post))
  = Some [(0, 5%N, Some 9%N); (1, 20%N, Some v_rflush); (2, 21%N, Some v_rflush)] /\
  option_map (fun s => (on_wire s 1, on_wire s 2)) (run cex_cfg init (ff_run_pre ++ ff_run_post))
  = Some (1, 1).
Proof. repeat split; vm_compute; reflexivity. Qed.

(* ========== C08 ========== *)

(* a Respond in progress can always be completed by steps of that invocation and
   of the send goroutine alone: no other request, blocked or not, is needed *)
Theorem frame_can_finish : forall c s fi,
  reach c s -> closed s = false -> fi < length (F s) ->
  exists ls s',
    only_labels (fun l => match l with LR x => x =? fi | LSend => true | _ => false end) ls /\
    run c s ls = Some s' /\ frame_pc s' fi = Some RDone.
Proof.
  intros c s fi H Hc Hlt.
  destruct (nth_error (F s) fi) as [f|] eqn:Hn; [|apply nth_error_None in Hn; lia].
  destruct (fin_all c fi s f H Hc Hn) as (ls & s' & A & B & f' & C & D).
  exists ls, s'. repeat split; auto.
  unfold frame_pc. rewrite C, D. reflexivity.
Qed.

(* a worker that does not wait for the implementation can always take its next step *)
Theorem worker_step_enabled : forall c s r q,
  reach c s -> getq s r = Some q ->
  match q_pc q, q_kind q with
  | WSpawned, _ => step c s (LWStart r) <> None
  | WProc, KFlush _ => step c s (LF1 r) <> None
  | WProc, KVersion => step c s (LV1 r) <> None
  | WProc, KOp => step c s (LOpCall r) <> None /\ forall v, step c s (LReject r v) <> None
  | WF2 _, _ => step c s (LF2 r) <> None
  | WF3 _ _, _ => step c s (LF3 r) <> None
  | WTail, _ => step c s (LWTail r) <> None
  | _, _ => True
  end.
Proof. intros c s r q H. apply worker_step_enabled_wf. eapply reach_WF; eauto. Qed.

(* requests sharing a tag: the newer one is not started before the older one's
   reply has been queued (no flush, no version, connection open) *)
Theorem same_tag_fifo : forall c s a b qb,
  reach c s -> closed s = false ->
  (forall r q, getq s r = Some q -> q_flush q = false /\ q_kind q = KOp) ->
  getq s b = Some qb -> q_after qb = Some a -> q_pc qb <> WWait ->
  on_wire s a + in_outq s a = 1.
Proof. exact same_tag_fifo_inv. Qed.

(* ... and the replies appear on the wire in arrival order *)
Theorem same_tag_wire_order : forall c s a b qb i j,
  reach c s ->
  (forall r q, getq s r = Some q -> q_flush q = false /\ q_kind q = KOp) ->
  getq s b = Some qb -> q_after qb = Some a ->
  wire_index s a = Some i -> wire_index s b = Some j -> i < j.
Proof. intros c s a b qb i j H _. eapply same_tag_wire_order_inv; eauto. Qed.

(* ========== C11 ========== *)

(* after the disconnect nothing is written or received any more, and it happens once *)
Theorem disconnect_final : forall c s,
  reach c s -> closed s = true ->
  step c s LSend = None /\ step c s LDisconnect = None /\ (forall t k, step c s (LArrive t k) = None) /\
  forall l s', step c s l = Some s' -> closed s' = true /\ wire s' = wire s.
Proof. intros c s H. apply disconnect_final_wf. eapply reach_WF; eauto. Qed.

(* after the disconnect no Respond ever blocks: every unfinished invocation can step *)
Theorem no_respond_blocks_after_close : forall c s fi f,
  reach c s -> closed s = true -> nth_error (F s) fi = Some f -> f_pc f <> RDone ->
  step c s (LR fi) <> None.
Proof. intros c s fi f H. apply no_respond_blocks_wf. eapply reach_WF; eauto. Qed.
