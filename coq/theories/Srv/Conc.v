(* Life-cycle of requests on one connection as a labelled transition system:
   Conn.recv / Conn.send / Conn.close (srv_conn.go), SrvReq.process / Respond /
   Flush (srv_srv.go), Srv.flush / Srv.version (srv_fcall.go).

   Atomic steps = the code's critical sections (one mutex each), channel
   operations, goroutine creation and calls into the implementation.  Everything
   the environment decides is a label: which request arrives, whether the
   framework rejects or forwards it (decided by the sequential model Srv/Seq.v on
   the fid table), when and how often the implementation answers, when its
   operations return, when the transport accepts a write, when the peer goes away.

   Every invocation of SrvReq.Respond is a [frame] with its own program counter;
   a caller does not wait for the frames it starts (an over-approximation of
   call/return: every real schedule is a schedule of this system).
   Model definitions only. *)
From Coq Require Import NArith List Bool PeanoNat.
From V9 Require Import Lib.GoSem Gen.Consts.
Import ListNotations.

Inductive kind := KVersion | KFlush (oldtag : N) | KOp.

(* program counter of the goroutine running SrvReq.process for a request *)
Inductive wpc :=
| WWait                       (* linked behind an older request with the same tag: no goroutine yet *)
| WSpawned                    (* go req.process() (or the synchronous call for Tversion) *)
| WProc                       (* reqWork set; Process() dispatching *)
| WInOp                       (* inside the implementation's operation *)
| WF2 (target : nat)          (* flush: linked on target's chain (target not a Tflush); about to read target's status *)
| WF3 (target : nat) (worked : bool)
| WInFlushOp (target : nat)   (* inside FlushOp.Flush(target) *)
| WTail                       (* after Process(): clear reqWork, set reqSaved *)
| WDone.

Record rq := mkRq {
  q_tag : N;
  q_kind : kind;
  q_flush : bool; q_work : bool; q_resp : bool; q_saved : bool;   (* reqStatus bits *)
  q_flushreq : option nat;     (* first of the flush requests waiting for me *)
  q_prev : option nat;         (* newer request with my tag *)
  q_next : option nat;         (* older request with my tag *)
  q_buf : option N;            (* reply last packed into req.Rc (None: nothing packed) *)
  q_pc : wpc;
  q_called : bool;             (* the implementation has been handed this request *)
  q_flushop : bool;            (* FlushOp.Flush(this) has been called *)
  (* ghost fields (history, not present in the code) *)
  q_packs : list N;            (* every reply ever packed into req.Rc, newest first *)
  q_target : option nat;       (* flush: the request found under oldtag at F1 *)
  q_after : option nat;        (* the older request of my tag group I was queued behind on arrival *)
  q_flushnext : option nat }.  (* (not ghost) flush request: the next flush waiting for the same request *)

Inductive fpc := R1 | R2 | R3 | R4 | R5 | R6 | R7 | RDone.

(* one invocation of (req *SrvReq) Respond() *)
Record frame := mkFrame {
  f_req : nat;
  f_pc : fpc;
  f_sflush : bool;             (* status & reqFlush as read at R1 *)
  f_next : option nat;         (* nextreq *)
  f_cur : option nat;          (* freq: the chained flush request the loop at the end of Respond is at *)
  f_won : bool }.              (* ghost: this invocation found reqResponded clear at R1 *)

Inductive rstat := RvOpen | RvVersion (r : nat) | RvClosed.

Record st := mkSt {
  reqs : list (N * nat);       (* conn.reqs: tag |-> newest request of that tag *)
  R : list rq;                 (* all requests ever received, by id *)
  F : list frame;              (* all Respond invocations ever started, by id *)
  outq : list nat;             (* conn.reqout (FIFO) *)
  wire : list (nat * N * option N);  (* written replies: request, tag, content *)
  recvr : rstat;
  closed : bool;               (* close(conn.done) has happened: sender gone *)
  posted : list nat }.         (* requests whose PostProcess ran, in order *)

Record cfg := mkCfgC { maxpend : nat; has_flushop : bool }.

Definition init : st := mkSt [] [] [] [] [] RvOpen false [].

(* ---------- helpers ---------- *)
Fixpoint alookup (l : list (N * nat)) (k : N) : option nat :=
  match l with [] => None | (k', v) :: t => if N.eqb k' k then Some v else alookup t k end.
Fixpoint aremove (l : list (N * nat)) (k : N) : list (N * nat) :=
  match l with [] => [] | (k', v) :: t => if N.eqb k' k then aremove t k else (k', v) :: aremove t k end.
Definition aset (l : list (N * nat)) (k : N) (v : nat) : list (N * nat) := (k, v) :: aremove l k.

Definition getq (s : st) (i : nat) : option rq := nth_error (R s) i.
Definition setq (s : st) (i : nat) (q : rq) : st :=
  mkSt (reqs s) (upd (R s) i q) (F s) (outq s) (wire s) (recvr s) (closed s) (posted s).
Definition setf (s : st) (i : nat) (f : frame) : st :=
  mkSt (reqs s) (R s) (upd (F s) i f) (outq s) (wire s) (recvr s) (closed s) (posted s).
Definition addf (s : st) (f : frame) : st :=
  mkSt (reqs s) (R s) (F s ++ [f]) (outq s) (wire s) (recvr s) (closed s) (posted s).
Definition new_frame (r : nat) : frame := mkFrame r R1 false None None false.

Definition with_pc (q : rq) (pc : wpc) : rq :=
  mkRq (q_tag q) (q_kind q) (q_flush q) (q_work q) (q_resp q) (q_saved q) (q_flushreq q) (q_prev q) (q_next q)
       (q_buf q) pc (q_called q) (q_flushop q) (q_packs q) (q_target q) (q_after q) (q_flushnext q).
Definition with_buf (q : rq) (v : N) : rq :=
  mkRq (q_tag q) (q_kind q) (q_flush q) (q_work q) (q_resp q) (q_saved q) (q_flushreq q) (q_prev q) (q_next q)
       (Some v) (q_pc q) (q_called q) (q_flushop q) (v :: q_packs q) (q_target q) (q_after q) (q_flushnext q).
Definition with_flush (q : rq) (b : bool) : rq :=
  mkRq (q_tag q) (q_kind q) b (q_work q) (q_resp q) (q_saved q) (q_flushreq q) (q_prev q) (q_next q)
       (q_buf q) (q_pc q) (q_called q) (q_flushop q) (q_packs q) (q_target q) (q_after q) (q_flushnext q).
Definition with_status (q : rq) (fl wk rs sv : bool) : rq :=
  mkRq (q_tag q) (q_kind q) fl wk rs sv (q_flushreq q) (q_prev q) (q_next q)
       (q_buf q) (q_pc q) (q_called q) (q_flushop q) (q_packs q) (q_target q) (q_after q) (q_flushnext q).
Definition with_links (q : rq) (fr pv nx : option nat) : rq :=
  mkRq (q_tag q) (q_kind q) (q_flush q) (q_work q) (q_resp q) (q_saved q) fr pv nx
       (q_buf q) (q_pc q) (q_called q) (q_flushop q) (q_packs q) (q_target q) (q_after q) (q_flushnext q).
Definition with_called (q : rq) : rq :=
  mkRq (q_tag q) (q_kind q) (q_flush q) (q_work q) (q_resp q) (q_saved q) (q_flushreq q) (q_prev q) (q_next q)
       (q_buf q) (q_pc q) true (q_flushop q) (q_packs q) (q_target q) (q_after q) (q_flushnext q).
Definition with_target (q : rq) (t : nat) : rq :=
  mkRq (q_tag q) (q_kind q) (q_flush q) (q_work q) (q_resp q) (q_saved q) (q_flushreq q) (q_prev q) (q_next q)
       (q_buf q) (q_pc q) (q_called q) (q_flushop q) (q_packs q) (Some t) (q_after q) (q_flushnext q).
Definition with_flushnext (q : rq) (n : option nat) : rq :=
  mkRq (q_tag q) (q_kind q) (q_flush q) (q_work q) (q_resp q) (q_saved q) (q_flushreq q) (q_prev q) (q_next q)
       (q_buf q) (q_pc q) (q_called q) (q_flushop q) (q_packs q) (q_target q) (q_after q) n.
Definition with_flushop (q : rq) : rq :=
  mkRq (q_tag q) (q_kind q) (q_flush q) (q_work q) (q_resp q) (q_saved q) (q_flushreq q) (q_prev q) (q_next q)
       (q_buf q) (q_pc q) (q_called q) true (q_packs q) (q_target q) (q_after q) (q_flushnext q).

(* follow flushnext links: the list of flush requests starting at [o] (fuel bounds cyclic junk) *)
Fixpoint chain (fuel : nat) (rs : list rq) (o : option nat) : list nat :=
  match fuel, o with
  | S f, Some i => match nth_error rs i with
                   | Some q => i :: chain f rs (q_flushnext q)
                   | None => [i] end
  | _, _ => []
  end.

(* the last element of the list starting at i *)
Fixpoint chain_last (fuel : nat) (rs : list rq) (i : nat) : nat :=
  match fuel with
  | O => i
  | S f => match nth_error rs i with
           | Some q => match q_flushnext q with Some j => chain_last f rs j | None => i end
           | None => i end
  end.

(* version(): for every tag except NOTAG, every request of the tag group gets reqFlush *)
Fixpoint group (fuel : nat) (rs : list rq) (o : option nat) : list nat :=
  match fuel, o with
  | S f, Some i => match nth_error rs i with
                   | Some q => i :: group f rs (q_next q)
                   | None => [i] end
  | _, _ => []
  end.

Definition mark_flushed (rs : list rq) (ids : list nat) : list rq :=
  fold_left (fun acc i => match nth_error acc i with
                          | Some q => upd acc i (with_flush q true)
                          | None => acc end) ids rs.

Definition valN (i : N) : N := i.
Definition v_rflush : N := 1%N.      (* content ids of replies packed by the framework itself *)
Definition v_rversion : N := 2%N.

(* ---------- labels ---------- *)
Inductive label :=
| LArrive (tag : N) (k : kind)    (* recv: request linked into conn.reqs under the connection lock *)
| LWStart (r : nat)               (* process(): test reqFlush / set reqWork under the request lock *)
| LReject (r : nat) (v : N)       (* Process(): the framework answers itself (unknown fid, rule violated, ...) *)
| LOpCall (r : nat)               (* Process(): the request is handed to the implementation *)
| LOpReturn (r : nat)             (* the implementation's operation returns *)
| LAnswer (r : nat) (v : N)       (* the implementation calls RespondRx / RespondError on r *)
| LF1 (r : nat)                   (* flush: pack Rflush, look up oldtag, chain under the connection lock;
                                     return at once if the request found is itself a Tflush *)
| LF2 (r : nat)                   (* flush: read target status, maybe set reqFlush, under the target's lock *)
| LF3 (r : nat)                   (* flush: target.Respond() or FlushOp.Flush(target) or nothing *)
| LFlushOpReturn (r : nat)
| LReqFlush (t : nat)             (* the implementation calls (target).Flush() *)
| LV1 (r : nat)                   (* version: mark all outstanding requests flushed, answer Rversion *)
| LWTail (r : nat)                (* process(): clear reqWork, set reqSaved if not responded *)
| LR (f : nat)                    (* the next step of Respond invocation f *)
| LSend                           (* send goroutine: receive from reqout, SetTag, write *)
| LDisconnect.                    (* recv: Read error / bad frame -> Conn.close *)

Definition room (c : cfg) (s : st) : bool := length (outq s) <=? maxpend c.

(* ---------- the transition function: None = label not enabled ---------- *)
Definition step (c : cfg) (s : st) (l : label) : option st :=
  match l with
  | LArrive tag k =>
    match recvr s with
    | RvOpen =>
      let id := length (R s) in
      let newest := alookup (reqs s) tag in
      let pc := match newest with None => WSpawned | Some _ => WWait end in
      let q := mkRq tag k false false false false None None newest None pc false false [] None newest None in
      let rs := R s ++ [q] in
      let rs := match newest with
                | Some o => match nth_error rs o with
                            | Some qo => upd rs o (with_links qo (q_flushreq qo) (Some id) (q_next qo))
                            | None => rs end
                | None => rs end in
      let rv := match k, newest with KVersion, None => RvVersion id | _, _ => RvOpen end in
      Some (mkSt (aset (reqs s) tag id) rs (F s) (outq s) (wire s) rv (closed s) (posted s))
    | _ => None
    end
  | LWStart r =>
    match getq s r with
    | Some q =>
      match q_pc q with
      | WSpawned =>
        if q_flush q then Some (addf (setq s r (with_pc q WDone)) (new_frame r))
        else Some (setq s r (with_pc (with_status q (q_flush q) true (q_resp q) (q_saved q)) WProc))
      | _ => None end
    | None => None end
  | LReject r v =>
    match getq s r with
    | Some q =>
      match q_pc q, q_kind q with
      | WProc, KOp => Some (addf (setq s r (with_pc (with_buf q v) WTail)) (new_frame r))
      | _, _ => None end
    | None => None end
  | LOpCall r =>
    match getq s r with
    | Some q =>
      match q_pc q, q_kind q with
      | WProc, KOp => Some (setq s r (with_pc (with_called q) WInOp))
      | _, _ => None end
    | None => None end
  | LOpReturn r =>
    match getq s r with
    | Some q => match q_pc q with WInOp => Some (setq s r (with_pc q WTail)) | _ => None end
    | None => None end
  | LAnswer r v =>
    match getq s r with
    | Some q => if q_called q then Some (addf (setq s r (with_buf q v)) (new_frame r)) else None
    | None => None end
  | LF1 r =>
    match getq s r with
    | Some q =>
      match q_pc q, q_kind q with
      | WProc, KFlush old =>
        let q1 := with_buf q v_rflush in
        match alookup (reqs s) old with
        | None => Some (addf (setq s r (with_pc q1 WTail)) (new_frame r))
        | Some t =>
          match getq s t with
          | Some qt =>
            (* req.flushnext = r.flushreq; r.flushreq = req *)
            (* a target that is itself a Tflush is not cancelled: return right after chaining *)
            let pc := match q_kind qt with KFlush _ => WTail | _ => WF2 t end in
            let s1 := setq s r (with_pc (with_target (with_flushnext q1 (q_flushreq qt)) t) pc) in
            match getq s1 t with
            | Some qt1 => Some (setq s1 t (with_links qt1 (Some r) (q_prev qt1) (q_next qt1)))
            | None => None end
          | None => None end
        end
      | _, _ => None end
    | None => None end
  | LF2 r =>
    match getq s r with
    | Some q =>
      match q_pc q with
      | WF2 t =>
        match getq s t with
        | Some qt =>
          let worked := q_work qt || q_saved qt in
          let s1 := if worked then s else setq s t (with_flush qt true) in
          match getq s1 r with
          | Some q' => Some (setq s1 r (with_pc q' (WF3 t worked)))
          | None => None end
        | None => None end
      | _ => None end
    | None => None end
  | LF3 r =>
    match getq s r with
    | Some q =>
      match q_pc q with
      | WF3 t false => Some (addf (setq s r (with_pc q WTail)) (new_frame t))
      | WF3 t true =>
        if has_flushop c then
          match getq s t with
          | Some qt => let s1 := setq s t (with_flushop qt) in
                       match getq s1 r with
                       | Some q' => Some (setq s1 r (with_pc q' (WInFlushOp t)))
                       | None => None end
          | None => None end
        else Some (setq s r (with_pc q WTail))
      | _ => None end
    | None => None end
  | LFlushOpReturn r =>
    match getq s r with
    | Some q => match q_pc q with WInFlushOp _ => Some (setq s r (with_pc q WTail)) | _ => None end
    | None => None end
  | LReqFlush t =>
    match getq s t with
    | Some qt => if q_flushop qt && q_called qt then Some (addf (setq s t (with_flush qt true)) (new_frame t)) else None
    | None => None end
  | LV1 r =>
    match getq s r with
    | Some q =>
      match q_pc q, q_kind q with
      | WProc, KVersion =>
        (* every outstanding request with an ordinary tag - except the Tversion itself, should it carry one *)
        let ids := filter (fun i => negb (Nat.eqb i r))
                     (flat_map (fun kv => if N.eqb (fst kv) c_NOTAG then []
                                          else group (length (R s)) (R s) (Some (snd kv))) (reqs s)) in
        let rs := mark_flushed (R s) ids in
        let s1 := mkSt (reqs s) rs (F s) (outq s) (wire s) (recvr s) (closed s) (posted s) in
        match getq s1 r with
        | Some q' => Some (addf (setq s1 r (with_pc (with_buf q' v_rversion) WTail)) (new_frame r))
        | None => None end
      | _, _ => None end
    | None => None end
  | LWTail r =>
    match getq s r with
    | Some q =>
      match q_pc q with
      | WTail =>
        let q' := with_pc (with_status q (q_flush q) false (q_resp q) (if q_resp q then q_saved q else true)) WDone in
        let s1 := setq s r q' in
        let rv := match recvr s1 with RvVersion r' => if r' =? r then RvOpen else RvVersion r' | x => x end in
        Some (mkSt (reqs s1) (R s1) (F s1) (outq s1) (wire s1) rv (closed s1) (posted s1))
      | _ => None end
    | None => None end
  | LR fi =>
    match nth_error (F s) fi with
    | Some f =>
      match getq s (f_req f) with
      | Some q =>
        match f_pc f with
        | R1 =>     (* req.Lock(); status := req.status; status |= reqResponded; status &^= reqWork *)
          let s1 := setq s (f_req f) (with_status q (q_flush q) false true (q_saved q)) in
          if q_resp q then Some (setf s1 fi (mkFrame (f_req f) RDone (q_flush q) None None false))
          else Some (setf s1 fi (mkFrame (f_req f) R3 (q_flush q) None None true))
        | R2 =>     (* conn.Lock(): unlink (after the reply has been queued) *)
          match q_prev q with
          | Some nx =>
            match getq s nx with
            | Some qn =>
              (* nextreq.next = nil; the flushes waiting for req are appended to nextreq's list *)
              let s1 := setq s nx (with_links qn (q_flushreq qn) (q_prev qn) None) in
              let s2 :=
                match q_flushreq q with
                | None => s1
                | Some fr =>
                  match q_flushreq qn with
                  | None => setq s1 nx (with_links qn (Some fr) (q_prev qn) None)
                  | Some h =>
                    let p := chain_last (length (R s)) (R s) h in
                    match getq s1 p with
                    | Some qp => setq s1 p (with_flushnext qp (Some fr))
                    | None => s1 end
                  end
                end in
              Some (setf s2 fi (mkFrame (f_req f) R5 (f_sflush f) (Some nx) None (f_won f)))
            | None => None end
          | None =>
            let s1 := mkSt (aremove (reqs s) (q_tag q)) (R s) (F s) (outq s) (wire s) (recvr s) (closed s) (posted s) in
            Some (setf s1 fi (mkFrame (f_req f) R5 (f_sflush f) None (q_flushreq q) (f_won f)))
          end
        | R3 =>     (* PostProcess (first step after winning at R1) *)
          let s1 := mkSt (reqs s) (R s) (F s) (outq s) (wire s) (recvr s) (closed s) (posted s ++ [f_req f]) in
          Some (setf s1 fi (mkFrame (f_req f) R4 (f_sflush f) (f_next f) (f_cur f) (f_won f)))
        | R4 =>     (* if status&reqFlush == 0 { select { case conn.reqout <- req: case <-conn.done: } } *)
          if f_sflush f then Some (setf s fi (mkFrame (f_req f) R2 (f_sflush f) (f_next f) (f_cur f) (f_won f)))
          else if closed s then Some (setf s fi (mkFrame (f_req f) R2 (f_sflush f) (f_next f) (f_cur f) (f_won f)))
          else if room c s then
            let s1 := mkSt (reqs s) (R s) (F s) (outq s ++ [f_req f]) (wire s) (recvr s) (closed s) (posted s) in
            Some (setf s1 fi (mkFrame (f_req f) R2 (f_sflush f) (f_next f) (f_cur f) (f_won f)))
          else None
        | R5 =>     (* if nextreq != nil { go nextreq.process() } *)
          let s1 := match f_next f with
                    | Some nx => match getq s nx with
                                 | Some qn => setq s nx (with_pc qn WSpawned)
                                 | None => s end
                    | None => s end in
          Some (setf s1 fi (mkFrame (f_req f) R6 (f_sflush f) (f_next f) (f_cur f) (f_won f)))
        | R6 =>     (* for freq := flushreqs; freq != nil; ... { freq.Respond() } *)
          match f_cur f with
          | None => Some (setf s fi (mkFrame (f_req f) RDone (f_sflush f) (f_next f) None (f_won f)))
          | Some x => Some (addf (setf s fi (mkFrame (f_req f) R7 (f_sflush f) (f_next f) (Some x) (f_won f))) (new_frame x))
          end
        | R7 =>     (* ... freq = freq.flushnext : the link is read when the loop advances, without a lock *)
          match f_cur f with
          | Some x =>
            match getq s x with
            | Some qx => Some (setf s fi (mkFrame (f_req f) R6 (f_sflush f) (f_next f) (q_flushnext qx) (f_won f)))
            | None => None end
          | None => None end
        | RDone => None
        end
      | None => None end
    | None => None end
  | LSend =>
    if closed s then None
    else match outq s with
         | r :: rest =>
           match getq s r with
           | Some q => Some (mkSt (reqs s) (R s) (F s) rest (wire s ++ [(r, q_tag q, q_buf q)]) (recvr s) (closed s) (posted s))
           | None => None end
         | [] => None end
  | LDisconnect =>
    match recvr s with
    | RvClosed => None
    | _ => Some (mkSt (reqs s) (R s) (F s) (outq s) (wire s) RvClosed true (posted s))
    end
  end.

Fixpoint run (c : cfg) (s : st) (ls : list label) : option st :=
  match ls with
  | [] => Some s
  | l :: t => match step c s l with Some s' => run c s' t | None => None end
  end.

Inductive reach (c : cfg) : st -> Prop :=
| reach_init : reach c init
| reach_step s l s' : reach c s -> step c s l = Some s' -> reach c s'.

(* ---------- observers ---------- *)
Definition on_wire (s : st) (r : nat) : nat :=
  length (filter (fun e => fst (fst e) =? r) (wire s)).
Definition in_outq (s : st) (r : nat) : nat :=
  length (filter (fun x => x =? r) (outq s)).
Definition wire_index (s : st) (r : nat) : option nat :=
  (fix go (l : list (nat * N * option N)) (i : nat) : option nat :=
     match l with [] => None | e :: t => if fst (fst e) =? r then Some i else go t (S i) end) (wire s) 0.

(* internal labels: everything the library does by itself once the environment
   (client bytes, implementation, transport readiness) has acted *)
Definition is_internal (l : label) : bool :=
  match l with
  | LWStart _ | LF1 _ | LF2 _ | LF3 _ | LV1 _ | LWTail _ | LR _ | LSend => true
  | LOpCall _ | LReject _ _ => true      (* Process(): reject or forward, decided by the framework *)
  | _ => false
  end.
