(* Ordering properties: tag groups and flushes. *)
From Coq Require Import NArith List Bool PeanoNat Lia.
From V9 Require Import Lib.GoSem Gen.Consts Srv.Conc Srv.ConcInv Srv.ConcWF Srv.ConcMono Srv.ConcCount
  Srv.ConcContent Srv.ConcLocal Srv.ConcWin Srv.ConcCalled.
Import ListNotations.

Lemma filter_none : forall A (p : A -> bool) l, (forall x, In x l -> p x = false) -> length (filter p l) = 0.
Proof.
  induction l; simpl; intros; auto. rewrite (H a) by auto. apply IHl. auto.
Qed.

(* once the winner has passed R4 nothing on this request is in {R3,R4} *)
Lemma cnt34_zero : forall s a n, GInv s -> won_past s a n -> 3 <= n -> cnt34 s a = 0.
Proof.
  intros s a n G (f & Hi & Hr & Hw & Ho) Hn. unfold cnt34. apply filter_none.
  intros f' Hi'. unfold p34. destruct (f_req f' =? a) eqn:E; auto. apply Nat.eqb_eq in E.
  destruct (pre4 (f_pc f')) eqn:E2; auto. exfalso.
  assert (f_won f' = true).
  { apply (g_w1 s G f' Hi'). destruct (f_pc f'); simpl in *; auto; discriminate. }
  assert (f' = f) by (eapply won_unique_in; eauto; congruence). subst.
  destruct (f_pc f); simpl in *; try discriminate; lia.
Qed.

Lemma won_past_resp : forall s a n, CInv s -> won_past s a n -> 1 <= n -> qb s a q_resp = true.
Proof.
  intros s a n C (f & Hi & Hr & Hw & Ho) Hn. rewrite <- Hr. apply (ci_fr s C f Hi).
  intro X. rewrite X in Ho. simpl in Ho. lia.
Qed.

Lemma same_tag_fifo_inv : forall c s a b qb0,
  reach c s -> closed s = false ->
  (forall r q, getq s r = Some q -> q_flush q = false /\ q_kind q = KOp) ->
  getq s b = Some qb0 -> q_after qb0 = Some a -> q_pc qb0 <> WWait ->
  on_wire s a + in_outq s a = 1.
Proof.
  intros c s a b qb0 H Hc Hall Hb Ha Hpc.
  pose proof (reach_WF c s H) as W. pose proof (reach_GInv c s H) as G. pose proof (reach_CInv c s H) as C.
  destruct (g_wait s G _ _ _ Hb Ha) as [X | X]; [congruence|].
  pose proof (won_past_resp s a 5 C X ltac:(lia)) as Rs.
  pose proof (cnt34_zero s a 5 G X ltac:(lia)) as Z.
  destruct (ci_cnt s C a) as (_ & _ & D). destruct (D Rs) as [Y | [Y | Y]].
  - unfold NN in Y. lia.
  - unfold qb in Y. destruct (getq s a) eqn:E; [|discriminate]. destruct (Hall _ _ E). congruence.
  - congruence.
Qed.

(* ---------- a packed request is not waiting; q_after points backwards ---------- *)
Definition HInv (s : st) : Prop :=
  forall r q, getq s r = Some q ->
    (hb q = true -> q_pc q <> WWait) /\ (forall a, q_after q = Some a -> a < r).

Lemma HInv_step : forall c s l s', WF s -> GInv s -> PInv s -> HInv s -> Step c s l s' -> HInv s'.
Proof.
  intros c s l s' W G P Hv H r q' Hq'.
  destruct (step_exact _ _ _ _ W H _ _ Hq') as
    [(q & Hq & _ & Wt & _ & _ & T & Bf) | (-> & tag & k & -> & ->)].
  - destruct (Hv _ _ Hq) as (A & B).
    destruct (step_evol _ _ _ _ W H _ _ Hq) as (q2 & Hq2 & Ev). assert (q2 = q') by congruence. subst.
    split.
    + intros Hh Hw.
      assert (Hw0 : q_pc q = WWait).
      { destruct T as [T | [(T & _) | [(_ & _ & T) | [(_ & _ & T) | (_ & T & _)]]]]; congruence. }
      destruct Bf as [Bf | [Bf | Bf]].
      * apply A; auto. unfold hb in *. rewrite <- Bf. auto.
      * congruence.
      * pose proof (P _ _ Hq (or_introl Hw0)). congruence.
    + intros a Ha. apply B. unfold evol in Ev. intuition congruence.
  - split; [discriminate|]. simpl. intros a Ha.
    apply alookup_In in Ha. apply (wf_reqs s W) in Ha. auto.
Qed.

Lemma reach_HInv : forall c s, reach c s -> HInv s.
Proof.
  induction 1.
  - intros r q Hq. destruct r; discriminate.
  - eapply HInv_step; eauto using reach_WF, reach_GInv, reach_PInv, step_Step.
Qed.

(* ---------- the sequence of replies: written, then queued ---------- *)
Definition fst3 (e : nat * N * option N) : nat := fst (fst e).
Definition SQ (s : st) : list nat := map fst3 (wire s) ++ outq s.

Lemma SQ_step : forall c s l s', Step c s l s' ->
  SQ s' = SQ s \/
  exists fi f, nth_error (F s) fi = Some f /\ f_pc f = R4 /\ f_sflush f = false /\ SQ s' = SQ s ++ [f_req f].
Proof.
  intros c s l s' H. unfold SQ.
  destruct H; simpl; rewrite ?wire_r2_link, ?wire_spawn_next, ?outq_r2_link, ?outq_spawn_next; auto.
  - right. exists fi, f. rewrite app_assoc. auto.
  - left. rewrite H0, map_app. simpl. rewrite <- app_assoc. reflexivity.
Qed.

Lemma SQ_hb : forall c s, reach c s -> forall b, In b (SQ s) -> qb s b hb = true.
Proof.
  induction 1; intros b Hi.
  - contradiction.
  - pose proof (reach_WF c s H) as W. pose proof (step_Step _ _ _ _ H0) as St.
    destruct (SQ_step _ _ _ _ St) as [E | (fi & f & Hn & Hpc & Hsf & E)]; rewrite E in Hi.
    + eapply qb_hb_mono; eauto.
    + apply in_app_or in Hi. destruct Hi as [Hi | [<- | []]].
      * eapply qb_hb_mono; eauto.
      * eapply qb_hb_mono; eauto.
        destruct (b_fr s (reach_BInv c s H) f (nth_error_In _ _ Hn)) as (_ & X & _).
        apply X; auto. congruence.
Qed.

(* first position of an element *)
Fixpoint idx (l : list nat) (r : nat) : option nat :=
  match l with
  | [] => None
  | x :: t => if x =? r then Some 0 else match idx t r with Some i => Some (S i) | None => None end
  end.

Lemma idx_In : forall l r, In r l <-> idx l r <> None.
Proof.
  induction l; simpl; intros.
  - split; [contradiction | congruence].
  - destruct (a =? r) eqn:E.
    + apply Nat.eqb_eq in E. split; intros; [discriminate | auto].
    + apply Nat.eqb_neq in E. specialize (IHl r). destruct (idx l r) eqn:E2.
      * split; intros; [discriminate | right; apply IHl; discriminate].
      * split; intros; [destruct H; [congruence | apply IHl in H; congruence] | congruence].
Qed.

Lemma idx_lt : forall l r i, idx l r = Some i -> i < length l.
Proof.
  induction l; simpl; intros; [discriminate|].
  destruct (a =? r); [inversion H; lia|].
  destruct (idx l r) eqn:E; [|discriminate]. inversion H. specialize (IHl _ _ E). lia.
Qed.

Lemma idx_app_l : forall l l' r i, idx l r = Some i -> idx (l ++ l') r = Some i.
Proof.
  induction l; simpl; intros; [discriminate|].
  destruct (a =? r); auto.
  destruct (idx l r) eqn:E; [|discriminate]. rewrite (IHl l' r n E). auto.
Qed.

Lemma idx_app_r : forall l l' r, idx l r = None ->
  idx (l ++ l') r = match idx l' r with Some i => Some (length l + i) | None => None end.
Proof.
  induction l; simpl; intros.
  - destruct (idx l' r); auto.
  - destruct (a =? r); [discriminate|].
    destruct (idx l r) eqn:E; [discriminate|]. rewrite (IHl l' r E). destruct (idx l' r); auto.
Qed.

Lemma wire_index_idx : forall s r, wire_index s r = idx (map fst3 (wire s)) r.
Proof.
  intros. unfold wire_index.
  assert (X : forall l k,
    (fix go (l : list (nat * N * option N)) (i : nat) : option nat :=
       match l with [] => None | e :: t => if fst (fst e) =? r then Some i else go t (S i) end) l k =
    match idx (map fst3 l) r with Some i => Some (k + i) | None => None end).
  { induction l; simpl; intros; auto. unfold fst3 at 1.
    destruct (fst (fst a) =? r); [f_equal; lia|].
    rewrite IHl. destruct (idx (map fst3 l) r); auto. f_equal. lia. }
  rewrite X. destruct (idx (map fst3 (wire s)) r); auto.
Qed.

Lemma filter_some : forall A (p : A -> bool) l x, In x l -> p x = true -> 1 <= length (filter p l).
Proof.
  intros. assert (In x (filter p l)) by (apply filter_In; auto).
  destruct (filter p l); [contradiction | simpl; lia].
Qed.

Definition OInv (s : st) : Prop :=
  forall b q a, getq s b = Some q -> q_after q = Some a ->
  forall i j, idx (SQ s) a = Some i -> idx (SQ s) b = Some j -> i < j.

Lemma after_back : forall c s l s' b q' a, WF s -> Step c s l s' ->
  getq s' b = Some q' -> q_after q' = Some a -> b < length (R s) ->
  exists q, getq s b = Some q /\ q_after q = Some a.
Proof.
  intros. destruct (getq_some s b H3) as (q & Hq).
  destruct (step_evol _ _ _ _ H H0 _ _ Hq) as (q2 & Hq2 & Ev). assert (q2 = q') by congruence. subst.
  exists q. split; auto. unfold evol in Ev. intuition congruence.
Qed.

Lemma qb_true_lt : forall s b g, qb s b g = true -> b < length (R s).
Proof. unfold qb. intros. destruct (getq s b) eqn:E; [|discriminate]. eapply getq_lt; eauto. Qed.

Lemma OInv_step : forall c s l s', reach c s -> OInv s -> step c s l = Some s' -> OInv s'.
Proof.
  intros c s l s' H O Hs. pose proof (reach_WF c s H) as W. pose proof (step_Step _ _ _ _ Hs) as St.
  intros b q' a Hq' Ha i j Hi Hj.
  destruct (SQ_step _ _ _ _ St) as [E | (fi & f & Hn & Hpc & Hsf & E)]; rewrite E in Hi, Hj.
  - assert (Hb : b < length (R s)).
    { eapply qb_true_lt. eapply (SQ_hb c s H). apply idx_In. congruence. }
    destruct (after_back _ _ _ _ _ _ _ W St Hq' Ha Hb) as (q & Hq & Ha0).
    eapply O; eauto.
  - destruct (idx (SQ s) b) as [j0|] eqn:Eb.
    + rewrite (idx_app_l _ _ _ _ Eb) in Hj. inversion Hj; subst j0.
      assert (Hin : In b (SQ s)) by (apply idx_In; congruence).
      pose proof (SQ_hb c s H b Hin) as Hh.
      destruct (after_back _ _ _ _ _ _ _ W St Hq' Ha (qb_true_lt _ _ _ Hh)) as (q & Hq & Ha0).
      destruct (idx (SQ s) a) as [i0|] eqn:Ea.
      * rewrite (idx_app_l _ _ _ _ Ea) in Hi. inversion Hi; subst i0. eapply O; eauto.
      * exfalso. rewrite (idx_app_r _ _ _ Ea) in Hi. simpl in Hi.
        destruct (f_req f =? a) eqn:E2; [|discriminate]. apply Nat.eqb_eq in E2.
        unfold qb in Hh. rewrite Hq in Hh.
        destruct (reach_HInv c s H _ _ Hq) as (Hw & _).
        destruct (g_wait s (reach_GInv c s H) _ _ _ Hq Ha0) as [X | X]; [apply Hw; auto|].
        pose proof (cnt34_zero s a 5 (reach_GInv c s H) X ltac:(lia)) as Z.
        assert (1 <= cnt34 s a).
        { unfold cnt34. eapply filter_some; [eapply nth_error_In; eauto|].
          unfold p34. rewrite E2, Nat.eqb_refl, Hpc. reflexivity. }
        lia.
    + rewrite (idx_app_r _ _ _ Eb) in Hj. simpl in Hj.
      destruct (f_req f =? b) eqn:E2; [|discriminate]. apply Nat.eqb_eq in E2. inversion Hj; subst j.
      destruct (idx (SQ s) a) as [i0|] eqn:Ea.
      * rewrite (idx_app_l _ _ _ _ Ea) in Hi. inversion Hi; subst i0. apply idx_lt in Ea. lia.
      * exfalso. rewrite (idx_app_r _ _ _ Ea) in Hi. simpl in Hi.
        destruct (f_req f =? a) eqn:E3; [|discriminate]. apply Nat.eqb_eq in E3.
        assert (a = b) by congruence. subst a.
        assert (Hb : b < length (R s)).
        { rewrite <- E2. destruct (wf_F s W f (nth_error_In _ _ Hn)). auto. }
        destruct (after_back _ _ _ _ _ _ _ W St Hq' Ha Hb) as (q & Hq & Ha0).
        destruct (reach_HInv c s H _ _ Hq) as (_ & Hlt). specialize (Hlt _ Ha0). lia.
Qed.

Lemma reach_OInv : forall c s, reach c s -> OInv s.
Proof.
  induction 1.
  - intros b q a Hq. destruct b; discriminate.
  - eapply OInv_step; eauto.
Qed.

Lemma same_tag_wire_order_inv : forall c s a b qb0 i j,
  reach c s ->
  getq s b = Some qb0 -> q_after qb0 = Some a ->
  wire_index s a = Some i -> wire_index s b = Some j -> i < j.
Proof.
  intros c s a b qb0 i j H Hb Ha Hi Hj. rewrite wire_index_idx in Hi, Hj.
  eapply (reach_OInv c s H); eauto; unfold SQ; apply idx_app_l; auto.
Qed.
