(* Fids are destroyed exactly once: never twice, never while a request holds a counted
   reference, and all of them once the connection is closed and the requests are done. *)
From Coq Require Import ZArith List Bool PeanoNat Lia.
From V9 Require Import Srv.FidRef.
Import ListNotations.

(* ---------- lists: upd, app, remove_one, tlook, tremove ---------- *)

Lemma nth_upd : forall l i f j,
  nth_error (upd l i f) j = if j =? i then option_map f (nth_error l j) else nth_error l j.
Proof.
  induction l as [|a l IH]; intros i f j.
  - cbn [upd]. destruct (j =? i); destruct j; reflexivity.
  - destruct i as [|i]; destruct j as [|j]; cbn [upd nth_error Nat.eqb option_map]; try reflexivity.
    apply IH.
Qed.

Lemma nth_upd_same : forall l i f o,
  nth_error l i = Some o -> nth_error (upd l i f) i = Some (f o).
Proof.
  intros l i f o H. rewrite nth_upd, Nat.eqb_refl, H. reflexivity.
Qed.

Lemma nth_upd_other : forall l i f j,
  j <> i -> nth_error (upd l i f) j = nth_error l j.
Proof.
  intros l i f j H. rewrite nth_upd. apply Nat.eqb_neq in H. rewrite H. reflexivity.
Qed.

Lemma length_upd : forall l i f, length (upd l i f) = length l.
Proof.
  induction l as [|a l IH]; intros i f; [reflexivity|].
  destruct i as [|i]; cbn [upd length]; [reflexivity|]. rewrite IH. reflexivity.
Qed.

Lemma nth_upd_inv : forall l i f j x,
  nth_error (upd l i f) j = Some x ->
  (j = i /\ exists o, nth_error l i = Some o /\ x = f o) \/ (j <> i /\ nth_error l j = Some x).
Proof.
  intros l i f j x H. rewrite nth_upd in H.
  destruct (j =? i) eqn:E.
  - apply Nat.eqb_eq in E. subst j. left. split; [reflexivity|].
    destruct (nth_error l i) as [o|]; cbn in H; [|discriminate].
    exists o. split; [reflexivity|]. congruence.
  - apply Nat.eqb_neq in E. right. split; assumption.
Qed.

Lemma nth_snoc_inv : forall (l : list obj) x j y,
  nth_error (l ++ [x]) j = Some y ->
  (j < length l /\ nth_error l j = Some y) \/ (j = length l /\ y = x).
Proof.
  intros l x j y H.
  destruct (Nat.lt_ge_cases j (length l)) as [Hlt|Hge].
  - left. split; [assumption|]. rewrite nth_error_app1 in H; assumption.
  - right. rewrite nth_error_app2 in H by assumption.
    destruct (j - length l) as [|n] eqn:E.
    + cbn in H. split; [lia|congruence].
    + cbn in H. destruct n; discriminate.
Qed.

Lemma nth_snoc_old : forall (l : list obj) x j y,
  nth_error l j = Some y -> nth_error (l ++ [x]) j = Some y.
Proof.
  intros l x j y H. rewrite nth_error_app1; [assumption|].
  apply nth_error_Some. congruence.
Qed.

Lemma nth_snoc_new : forall (l : list obj) x, nth_error (l ++ [x]) (length l) = Some x.
Proof.
  intros l x. rewrite nth_error_app2 by lia. rewrite Nat.sub_diag. reflexivity.
Qed.

Lemma In_remove_one : forall l i j, In j l -> j <> i -> In j (remove_one l i).
Proof.
  induction l as [|a l IH]; intros i j Hin Hne; [destruct Hin|].
  cbn [remove_one]. destruct (a =? i) eqn:E.
  - apply Nat.eqb_eq in E. destruct Hin as [->|Hin]; [congruence|assumption].
  - destruct Hin as [->|Hin]; [left; reflexivity|right; apply IH; assumption].
Qed.

Lemma remove_one_In : forall l i j, In j (remove_one l i) -> In j l.
Proof.
  induction l as [|a l IH]; intros i j Hin; [destruct Hin|].
  cbn [remove_one] in Hin. destruct (a =? i).
  - right. assumption.
  - destruct Hin as [->|Hin]; [left; reflexivity|right; eapply IH; eassumption].
Qed.

Lemma tlook_In : forall t k i, tlook t k = Some i -> In (k, i) t.
Proof.
  induction t as [|[k' j] t IH]; intros k i H; [discriminate|].
  cbn [tlook] in H. destruct (k' =? k) eqn:E.
  - apply Nat.eqb_eq in E. left. congruence.
  - right. apply IH. assumption.
Qed.

Lemma tlook_None : forall t k, tlook t k = None -> ~ In k (map fst t).
Proof.
  induction t as [|[k' j] t IH]; intros k H Hin; [destruct Hin|].
  cbn [tlook] in H. destruct (k' =? k) eqn:E; [discriminate|].
  apply Nat.eqb_neq in E. cbn in Hin. destruct Hin as [Heq|Hin]; [congruence|].
  eapply IH; eassumption.
Qed.

Lemma In_tlook : forall t k i, NoDup (map fst t) -> In (k, i) t -> tlook t k = Some i.
Proof.
  induction t as [|[k' j] t IH]; intros k i Hnd Hin; [destruct Hin|].
  cbn [map fst] in Hnd. inversion Hnd as [|x xs Hnotin Hnd']. subst x xs.
  cbn [tlook]. destruct Hin as [Heq|Hin].
  - inversion Heq. subst k' j. rewrite Nat.eqb_refl. reflexivity.
  - destruct (k' =? k) eqn:E.
    + apply Nat.eqb_eq in E. subst k'. exfalso. apply Hnotin.
      apply in_map_iff. exists (k, i). split; [reflexivity|assumption].
    + apply IH; assumption.
Qed.

Lemma In_tremove : forall t i k j, In (k, j) (tremove t i) <-> In (k, j) t /\ j <> i.
Proof.
  induction t as [|[k' j'] t IH]; intros i k j.
  - cbn. tauto.
  - cbn [tremove]. destruct (j' =? i) eqn:E.
    + apply Nat.eqb_eq in E. subst j'. rewrite IH. split.
      * intros [H1 H2]. split; [right; assumption|assumption].
      * intros [[Heq|H1] H2]; [inversion Heq; congruence|split; assumption].
    + apply Nat.eqb_neq in E. cbn [In]. rewrite IH. split.
      * intros [Heq|[H1 H2]]; [inversion Heq; subst; split; [left; reflexivity|assumption]|].
        split; [right; assumption|assumption].
      * intros [[Heq|H1] H2]; [left; assumption|right; split; assumption].
Qed.

Lemma NoDup_tremove : forall t i, NoDup (map fst t) -> NoDup (map fst (tremove t i)).
Proof.
  induction t as [|[k' j'] t IH]; intros i Hnd; [constructor|].
  cbn [map fst] in Hnd. inversion Hnd as [|x xs Hnotin Hnd']. subst x xs.
  cbn [tremove]. destruct (j' =? i).
  - apply IH. assumption.
  - cbn [map fst]. constructor; [|apply IH; assumption].
    intro Hin. apply Hnotin. apply in_map_iff in Hin. destruct Hin as [[k j] [Hk Hin]].
    cbn in Hk. subst k. apply In_tremove in Hin. destruct Hin as [Hin _].
    apply in_map_iff. exists (k', j). split; [reflexivity|assumption].
Qed.

Lemma existsb_eqb_In : forall l i, In i l -> existsb (Nat.eqb i) l = true.
Proof.
  intros l i H. apply existsb_exists. exists i. split; [assumption|apply Nat.eqb_refl].
Qed.

(* ---------- the invariant of the fixed code ---------- *)

(* the object still has its table entry: not dead, or dead with the delete still pending *)
Definition intab (o : obj) : bool := negb (o_dead o) || negb (o_pend o =? 0).

Lemma intab_spec : forall o, intab o = true <-> (o_dead o = false \/ 0 < o_pend o).
Proof.
  intro o. unfold intab. rewrite orb_true_iff, !negb_true_iff, Nat.eqb_neq. split.
  - intros [H|H]; [left; assumption|right; lia].
  - intros [H|H]; [left; assumption|right; lia].
Qed.

Record ObjOK (o : obj) : Prop := {
  ok_rc : o_rc o = Z.of_nat (o_held o + o_owed o + (if o_linked o then 1 else 0));
  ok_dead : o_dead o = true <-> o_rc o = 0%Z;
  ok_destroyed : o_destroyed o + o_pend o = (if o_dead o then 1 else 0);
  ok_creating : o_creating o = true -> o_linked o = false }.

Record Inv (s : st) : Prop := {
  inv_obj : forall i o, nth_error (objs s) i = Some o -> ObjOK o;
  inv_tab : forall k j, In (k, j) (table s) ->
            exists o, nth_error (objs s) j = Some o /\ o_num o = k /\ intab o = true;
  inv_keys : NoDup (map fst (table s));
  inv_live : forall i o, nth_error (objs s) i = Some o -> intab o = true ->
             In (o_num o, i) (table s);
  inv_snap : forall i o, closed s = true -> nth_error (objs s) i = Some o ->
             o_linked o = true -> In i (snap s);
  inv_snap_lt : forall j, In j (snap s) -> j < length (objs s) }.

Lemma Inv_init : Inv init.
Proof.
  constructor; cbn.
  - intros i o H. destruct i; discriminate.
  - intros k j [].
  - constructor.
  - intros i o H. destruct i; discriminate.
  - intros i o H. discriminate.
  - intros j [].
Qed.

(* [d]: the entry of i is removed from the table *)
Lemma Inv_set_obj : forall s i o o' d,
  Inv s -> nth_error (objs s) i = Some o ->
  o_num o' = o_num o -> ObjOK o' ->
  intab o' = negb d && intab o ->
  (closed s = true -> o_linked o' = true -> o_linked o = true) ->
  Inv (set_obj s i o' d).
Proof.
  intros s i o o' d HI Hi Hnum Hok Hd Hl.
  destruct HI as [Iobj Itab Ikeys Ilive Isnap Ilt].
  constructor; unfold set_obj; cbn [objs table closed snap].
  - intros j x Hj. apply nth_upd_inv in Hj.
    destruct Hj as [[-> [o0 [_ ->]]]|[Hne Hj]]; [assumption|eapply Iobj; eassumption].
  - intros k j Hin. destruct d.
    + apply In_tremove in Hin. destruct Hin as [Hin Hne].
      rewrite nth_upd_other by assumption. apply Itab. assumption.
    + destruct (Nat.eq_dec j i) as [->|Hne].
      * destruct (Itab _ _ Hin) as [x [Hx [Hxn Hxd]]].
        rewrite Hi in Hx. inversion Hx. subst x.
        exists o'. split; [rewrite (nth_upd_same _ _ _ _ Hi); reflexivity|].
        split; [congruence|]. rewrite Hd, Hxd. reflexivity.
      * rewrite nth_upd_other by assumption. apply Itab. assumption.
  - destruct d; [apply NoDup_tremove|]; assumption.
  - intros j x Hj Hxd. apply nth_upd_inv in Hj.
    destruct Hj as [[-> [o0 [Ho0 ->]]]|[Hne Hj]].
    + destruct d.
      * rewrite Hd in Hxd. discriminate.
      * rewrite Hd in Hxd. cbn in Hxd. rewrite Hnum. apply Ilive; assumption.
    + destruct d.
      * apply In_tremove. split; [apply Ilive; assumption|assumption].
      * apply Ilive; assumption.
  - intros j x Hc Hj Hxl. apply nth_upd_inv in Hj.
    destruct Hj as [[-> [o0 [Ho0 ->]]]|[Hne Hj]].
    + eapply Isnap; [assumption|exact Hi|]. apply Hl; assumption.
    + eapply Isnap; eassumption.
  - intros j Hj. rewrite length_upd. apply Ilt. assumption.
Qed.

Lemma Inv_snap_remove : forall s i o,
  Inv s -> nth_error (objs s) i = Some o -> o_linked o = false ->
  Inv (mkSt (objs s) (table s) (closed s) (remove_one (snap s) i)).
Proof.
  intros s i o HI Hi Hl.
  destruct HI as [Iobj Itab Ikeys Ilive Isnap Ilt].
  constructor; cbn [objs table closed snap]; try assumption.
  - intros j x Hc Hj Hxl. apply In_remove_one; [eapply Isnap; eassumption|].
    intros ->. congruence.
  - intros j Hj. apply Ilt. eapply remove_one_In. eassumption.
Qed.

Lemma Inv_new : forall s num,
  Inv s -> tlook (table s) num = None ->
  Inv (mkSt (objs s ++ [mkObj num 1%Z true false false 0 1 0 0 0])
            ((num, length (objs s)) :: table s) (closed s) (snap s)).
Proof.
  intros s num HI Hnone.
  destruct HI as [Iobj Itab Ikeys Ilive Isnap Ilt].
  constructor; cbn [objs table closed snap].
  - intros j x Hj. apply nth_snoc_inv in Hj. destruct Hj as [[_ Hj]|[_ ->]].
    + eapply Iobj; eassumption.
    + constructor; cbn; [reflexivity|split; intros; discriminate|reflexivity|reflexivity].
  - intros k j [Heq|Hin].
    + inversion Heq. subst k j. eexists. split; [apply nth_snoc_new|]. split; reflexivity.
    + destruct (Itab _ _ Hin) as [x [Hx Hrest]]. exists x. split; [|assumption].
      apply nth_snoc_old. assumption.
  - cbn [map fst]. constructor; [|assumption]. apply tlook_None. assumption.
  - intros j x Hj Hxd. apply nth_snoc_inv in Hj. destruct Hj as [[_ Hj]|[-> ->]].
    + right. apply Ilive; assumption.
    + left. reflexivity.
  - intros j x Hc Hj Hxl. apply nth_snoc_inv in Hj. destruct Hj as [[_ Hj]|[-> ->]].
    + eapply Isnap; eassumption.
    + discriminate.
  - intros j Hj. rewrite app_length. cbn. apply Ilt in Hj. lia.
Qed.

Lemma ObjOK_linked_live : forall o, ObjOK o -> o_linked o = true -> o_dead o = false.
Proof.
  intros o [Hrc Hdead _ _] Hl. rewrite Hl in Hrc. destruct (o_dead o); [|reflexivity].
  assert (o_rc o = 0%Z) by (apply Hdead; reflexivity). lia.
Qed.

Lemma ObjOK_pos_live : forall o, ObjOK o -> 0 < o_held o + o_owed o -> o_dead o = false.
Proof.
  intros o [Hrc Hdead _ _] Hpos. destruct (o_dead o); [|reflexivity].
  assert (o_rc o = 0%Z) by (apply Hdead; reflexivity). lia.
Qed.

Lemma live_intab : forall o, o_dead o = false -> intab o = true.
Proof. intros o H. unfold intab. rewrite H. reflexivity. Qed.

Lemma Inv_close : forall s,
  Inv s -> Inv (mkSt (objs s) (table s) true (map snd (table s))).
Proof.
  intros s HI.
  destruct HI as [Iobj Itab Ikeys Ilive Isnap Ilt].
  constructor; cbn [objs table closed snap]; try assumption.
  - intros j x _ Hj Hxl.
    assert (Hnd : o_dead x = false) by (eapply ObjOK_linked_live; [eapply Iobj; eassumption|assumption]).
    apply in_map_iff. exists (o_num x, j). split; [reflexivity|].
    apply Ilive; [assumption|apply live_intab; assumption].
  - intros j Hj. apply in_map_iff in Hj. destruct Hj as [[k j'] [Hk Hin]]. cbn in Hk. subst j'.
    destruct (Itab _ _ Hin) as [x [Hx _]]. apply nth_error_Some. congruence.
Qed.

(* DecRef of a live object whose holders (other than the one leaving) are [h], [w] *)
Lemma ObjOK_decref : forall o h w,
  ObjOK o -> o_dead o = false -> h + w + 1 = o_held o + o_owed o ->
  let o' := decref (mkObj (o_num o) (o_rc o) (o_creating o) (o_linked o) (o_dead o) (o_destroyed o)
                          h w (o_ptrs o) (o_pend o)) in
  ObjOK o' /\ o_num o' = o_num o /\ intab o' = intab o /\ o_linked o' = o_linked o.
Proof.
  intros o h w Hok Hlive Hsum.
  destruct Hok as [Hrc Hdead Hdes Hcr]. rewrite Hlive in Hdes.
  unfold decref, intab.
  cbn [o_rc o_num o_creating o_linked o_dead o_destroyed o_held o_owed o_ptrs o_pend].
  destruct (o_rc o - 1 =? 0)%Z eqn:E.
  - apply Z.eqb_eq in E. rewrite Hlive. repeat split; cbn; try reflexivity.
    + destruct (o_linked o); lia.
    + lia.
    + assumption.
  - apply Z.eqb_neq in E. repeat split; cbn; try reflexivity; try assumption.
    + destruct (o_linked o); lia.
    + rewrite Hlive. discriminate.
    + intro. rewrite Hlive. exfalso. lia.
    + rewrite Hlive. assumption.
Qed.

Lemma Inv_step : forall s l s', Inv s -> step true s l = Some s' -> Inv s'.
Proof.
  intros s l s' HI Hstep.
  destruct l as [num|num|i|i|i|i|i|i|i| |i]; cbn [step andb orb negb] in Hstep.
  - (* LNew *)
    destruct (tlook (table s) num) eqn:Hlook; [discriminate|].
    inversion Hstep. subst s'. apply Inv_new; assumption.
  - (* LLookup *)
    destruct (tlook (table s) num) as [i|] eqn:Hlook; [|discriminate].
    destruct (nth_error (objs s) i) as [o|] eqn:Hi; [|discriminate].
    inversion Hstep. subst s'.
    pose proof (inv_obj s HI i o Hi) as [Hrc Hdead Hdes Hcr].
    eapply Inv_set_obj; try eassumption; cbn; try reflexivity.
    + constructor; cbn; assumption.
    + auto.
  - (* LGetInc *)
    destruct (nth_error (objs s) i) as [o|] eqn:Hi; [|discriminate].
    destruct (o_ptrs o =? 0); [discriminate|].
    pose proof (inv_obj s HI i o Hi) as [Hrc Hdead Hdes Hcr].
    destruct (o_creating o || o_dead o) eqn:E; inversion Hstep; subst s'.
    + eapply Inv_set_obj; try eassumption; cbn; try reflexivity.
      * constructor; cbn; assumption.
      * auto.
    + apply orb_false_iff in E. destruct E as [Ecr Elive].
      eapply Inv_set_obj; try eassumption; cbn; try reflexivity.
      * constructor; cbn.
        -- destruct (o_linked o); lia.
        -- rewrite Elive. split; [discriminate|]. intro. exfalso. destruct (o_linked o); lia.
        -- assumption.
        -- assumption.
      * auto.
  - (* LRetain *)
    destruct (nth_error (objs s) i) as [o|] eqn:Hi; [|discriminate].
    destruct (o_creating o && negb (o_held o =? 0)) eqn:E; [|discriminate].
    apply andb_true_iff in E. destruct E as [Ecr Eheld].
    apply negb_true_iff in Eheld. apply Nat.eqb_neq in Eheld.
    pose proof (inv_obj s HI i o Hi) as Hok.
    assert (Hlive : o_dead o = false) by (apply ObjOK_pos_live; [assumption|lia]).
    destruct Hok as [Hrc Hdead Hdes Hcr]. specialize (Hcr Ecr). rewrite Hcr in Hrc.
    destruct (closed s) eqn:Ecl; inversion Hstep; subst s'.
    + eapply Inv_set_obj; try eassumption; cbn; try reflexivity.
      * constructor; cbn; try assumption. intros; reflexivity.
      * discriminate.
    + eapply Inv_set_obj; try eassumption; cbn; try reflexivity.
      * constructor; cbn; try assumption.
        -- lia.
        -- rewrite Hlive. split; [discriminate|]. intro. exfalso. lia.
        -- discriminate.
      * rewrite Ecl. discriminate.
  - (* LUnlinkReq *)
    destruct (nth_error (objs s) i) as [o|] eqn:Hi; [|discriminate].
    destruct (o_held o =? 0) eqn:Eheld; [discriminate|]. apply Nat.eqb_neq in Eheld.
    rewrite orb_false_r in Hstep.
    pose proof (inv_obj s HI i o Hi) as Hok.
    assert (Hlive : o_dead o = false) by (apply ObjOK_pos_live; [assumption|lia]).
    destruct Hok as [Hrc Hdead Hdes Hcr].
    destruct (o_linked o) eqn:El; inversion Hstep; subst s'; [|assumption].
    eapply Inv_set_obj; try eassumption; cbn; try reflexivity.
    + constructor; cbn; try assumption.
      * lia.
      * intros; reflexivity.
    + discriminate.
  - (* LUnlinkClose *)
    destruct (existsb (Nat.eqb i) (snap s)); [|discriminate].
    destruct (nth_error (objs s) i) as [o|] eqn:Hi; [|discriminate].
    rewrite orb_false_r in Hstep.
    pose proof (inv_obj s HI i o Hi) as Hok.
    destruct (o_linked o) eqn:El; inversion Hstep; subst s'.
    + assert (Hlive : o_dead o = false) by (apply ObjOK_linked_live; assumption).
      destruct Hok as [Hrc Hdead Hdes Hcr]. rewrite El in Hrc.
      set (o' := mkObj (o_num o) (o_rc o) (o_creating o) false (o_dead o) (o_destroyed o)
                       (o_held o) (S (o_owed o)) (o_ptrs o) (o_pend o)).
      assert (HI' : Inv (set_obj s i o' false)).
      { eapply Inv_set_obj; try eassumption; cbn; try reflexivity.
        - constructor; cbn; try assumption.
          + lia.
          + intros; reflexivity.
        - discriminate. }
      apply (Inv_snap_remove (set_obj s i o' false) i o') in HI'.
      * exact HI'.
      * cbn [set_obj objs]. rewrite (nth_upd_same _ _ _ _ Hi). reflexivity.
      * reflexivity.
    + eapply Inv_snap_remove; eassumption.
  - (* LDecOwed *)
    destruct (nth_error (objs s) i) as [o|] eqn:Hi; [|discriminate].
    destruct (o_owed o =? 0) eqn:Eowed; [discriminate|]. apply Nat.eqb_neq in Eowed.
    pose proof (inv_obj s HI i o Hi) as Hok.
    assert (Hlive : o_dead o = false) by (apply ObjOK_pos_live; [assumption|lia]).
    assert (Hsum : o_held o + (o_owed o - 1) + 1 = o_held o + o_owed o) by lia.
    pose proof (ObjOK_decref o _ _ Hok Hlive Hsum) as H. cbv zeta in H.
    destruct H as [Hok' [Hnum [Hd Hl]]].
    inversion Hstep. subst s'.
    eapply Inv_set_obj; try eassumption. intros _ Hl'. congruence.
  - (* LDecHeld *)
    destruct (nth_error (objs s) i) as [o|] eqn:Hi; [|discriminate].
    destruct (o_held o =? 0) eqn:Eheld; [discriminate|]. apply Nat.eqb_neq in Eheld.
    pose proof (inv_obj s HI i o Hi) as Hok.
    assert (Hlive : o_dead o = false) by (apply ObjOK_pos_live; [assumption|lia]).
    assert (Hsum : (o_held o - 1) + o_owed o + 1 = o_held o + o_owed o) by lia.
    pose proof (ObjOK_decref o _ _ Hok Hlive Hsum) as H. cbv zeta in H.
    destruct H as [Hok' [Hnum [Hd Hl]]].
    inversion Hstep. subst s'.
    eapply Inv_set_obj; try eassumption. intros _ Hl'. congruence.
  - (* LDestroy *)
    destruct (nth_error (objs s) i) as [o|] eqn:Hi; [|discriminate].
    destruct (o_pend o =? 0) eqn:Epend; [discriminate|]. apply Nat.eqb_neq in Epend.
    pose proof (inv_obj s HI i o Hi) as Hok.
    assert (Hin : intab o = true) by (apply intab_spec; right; lia).
    assert (Hlook : tlook (table s) (o_num o) = Some i).
    { apply In_tlook; [apply inv_keys; assumption|]. apply inv_live; assumption. }
    rewrite Hlook, Nat.eqb_refl in Hstep.
    inversion Hstep. subst s'.
    destruct Hok as [Hrc Hdead Hdes Hcr].
    assert (Hd : o_dead o = true) by (destruct (o_dead o); [reflexivity|lia]).
    rewrite Hd in Hdes.
    eapply Inv_set_obj; try eassumption; cbn; try reflexivity.
    + constructor; cbn; try assumption. rewrite Hd. lia.
    + rewrite Hd. cbn. apply negb_false_iff. apply Nat.eqb_eq. lia.
    + auto.
  - (* LClose *)
    destruct (closed s); [discriminate|]. inversion Hstep. subst s'.
    apply Inv_close. assumption.
  - (* LIncHeld *)
    destruct (nth_error (objs s) i) as [o|] eqn:Hi; [|discriminate].
    destruct (o_held o =? 0) eqn:Eheld; [discriminate|]. apply Nat.eqb_neq in Eheld.
    pose proof (inv_obj s HI i o Hi) as Hok.
    assert (Hlive : o_dead o = false) by (apply ObjOK_pos_live; [assumption|lia]).
    destruct Hok as [Hrc Hdead Hdes Hcr].
    inversion Hstep; subst s'.
    eapply Inv_set_obj; try eassumption; cbn; try reflexivity.
    + constructor; cbn.
      * destruct (o_linked o); lia.
      * rewrite Hlive. split; [discriminate|]. intro. exfalso. destruct (o_linked o); lia.
      * assumption.
      * assumption.
    + auto.
Qed.

Lemma Inv_run : forall ls s s', Inv s -> run true s ls = Some s' -> Inv s'.
Proof.
  induction ls as [|l ls IH]; intros s s' HI Hrun; cbn [run] in Hrun.
  - inversion Hrun. subst s'. assumption.
  - destruct (step true s l) as [s1|] eqn:Hstep; [|discriminate].
    eapply IH; [|eassumption]. eapply Inv_step; eassumption.
Qed.

Lemma Inv_reach : forall s, reach true s -> Inv s.
Proof.
  intros s [ls Hrun]. eapply Inv_run; [apply Inv_init|eassumption].
Qed.

(* ---------- the results ---------- *)

(* FidDestroy is called at most once per fid object, in every reachable state *)
Theorem destroyed_at_most_once : forall s i o,
  reach true s -> nth_error (objs s) i = Some o -> o_destroyed o <= 1.
Proof.
  intros s i o Hr Hi. apply Inv_reach in Hr.
  destruct (inv_obj s Hr i o Hi) as [_ _ Hdes _]. destruct (o_dead o); lia.
Qed.

(* ... counting the calls that are still to come *)
Theorem destroyed_or_pending_at_most_once : forall s i o,
  reach true s -> nth_error (objs s) i = Some o -> o_destroyed o + o_pend o <= 1.
Proof.
  intros s i o Hr Hi. apply Inv_reach in Hr.
  destruct (inv_obj s Hr i o Hi) as [_ _ Hdes _]. destruct (o_dead o); lia.
Qed.

(* a request holding a counted reference (or an unlink about to DecRef) never holds a destroyed fid *)
Theorem no_reference_to_destroyed_fid : forall s i o,
  reach true s -> nth_error (objs s) i = Some o -> 0 < o_held o + o_owed o ->
  o_dead o = false /\ o_destroyed o = 0 /\ o_pend o = 0.
Proof.
  intros s i o Hr Hi Hpos. apply Inv_reach in Hr.
  pose proof (inv_obj s Hr i o Hi) as Hok.
  assert (Hlive : o_dead o = false) by (apply ObjOK_pos_live; assumption).
  split; [assumption|]. destruct Hok as [_ _ Hdes _]. rewrite Hlive in Hdes. lia.
Qed.

(* the reference count is exactly the number of holders: requests, pending unlinks, the table *)
Theorem refcount_is_number_of_holders : forall s i o,
  reach true s -> nth_error (objs s) i = Some o ->
  o_rc o = Z.of_nat (o_held o + o_owed o + (if o_linked o then 1 else 0)).
Proof.
  intros s i o Hr Hi. apply Inv_reach in Hr.
  destruct (inv_obj s Hr i o Hi) as [Hrc _ _ _]. assumption.
Qed.

(* the table maps a number to at most one object, and exactly to the objects not destroyed *)
Theorem table_is_the_live_fids : forall s i o,
  reach true s -> nth_error (objs s) i = Some o ->
  (tlook (table s) (o_num o) = Some i <-> (o_dead o = false \/ 0 < o_pend o)).
Proof.
  intros s i o Hr Hi. apply Inv_reach in Hr. rewrite <- intab_spec. split.
  - intro Hlook. apply tlook_In in Hlook.
    destruct (inv_tab s Hr _ _ Hlook) as [x [Hx [_ Hxd]]]. congruence.
  - intro Hlive. apply In_tlook; [apply inv_keys; assumption|].
    apply inv_live; assumption.
Qed.

(* once the connection is closed, the close loop has run and every request has returned:
   every fid ever created on the connection has been destroyed exactly once, the table is empty *)
Theorem quiescent_all_destroyed_once : forall s,
  reach true s -> quiescent s ->
  (forall o, In o (objs s) -> o_destroyed o = 1) /\ table s = [].
Proof.
  intros s Hr [Hcl [Hsnap Hq]]. apply Inv_reach in Hr.
  assert (Hall : forall i o, nth_error (objs s) i = Some o -> o_dead o = true /\ o_pend o = 0).
  { intros i o Hi.
    destruct (Hq o (nth_error_In _ _ Hi)) as [Hh [Ho [_ [_ Hp]]]].
    split; [|assumption].
    assert (Hl : o_linked o = false).
    { destruct (o_linked o) eqn:El; [|reflexivity].
      pose proof (inv_snap s Hr i o Hcl Hi El) as Hin. rewrite Hsnap in Hin. destruct Hin. }
    destruct (inv_obj s Hr i o Hi) as [Hrc Hdead _ _].
    apply Hdead. rewrite Hrc, Hh, Ho, Hl. reflexivity. }
  split.
  - intros o Hin. apply In_nth_error in Hin. destruct Hin as [i Hi].
    destruct (inv_obj s Hr i o Hi) as [_ _ Hdes _].
    destruct (Hall i o Hi) as [Hd Hp]. rewrite Hd, Hp in Hdes. lia.
  - destruct (table s) as [|[k j] t] eqn:Et; [reflexivity|].
    destruct (inv_tab s Hr k j) as [x [Hx [_ Hxd]]]; [rewrite Et; left; reflexivity|].
    destruct (Hall j x Hx) as [Hd Hp]. apply intab_spec in Hxd.
    destruct Hxd as [Hxd|Hxd]; [congruence|lia].
Qed.

(* the close loop is never stuck *)
Theorem close_loop_progress : forall s i,
  reach true s -> In i (snap s) -> step true s (LUnlinkClose i) <> None.
Proof.
  intros s i Hr Hin. apply Inv_reach in Hr.
  cbn [step]. rewrite (existsb_eqb_In _ _ Hin).
  pose proof (inv_snap_lt s Hr i Hin) as Hlt. apply nth_error_Some in Hlt.
  destruct (nth_error (objs s) i) as [o|]; [|congruence].
  destruct (o_linked o || negb true); discriminate.
Qed.

(* a pending destroy can always be performed *)
Theorem destroy_progress : forall s i o,
  reach true s -> nth_error (objs s) i = Some o -> 0 < o_pend o ->
  step true s (LDestroy i) <> None.
Proof.
  intros s i o _ Hi Hp. cbn [step]. rewrite Hi.
  destruct (o_pend o =? 0) eqn:E; [apply Nat.eqb_eq in E; lia|discriminate].
Qed.

(* the reference counting before the repair violates all three: *)
Theorem old_double_destroy_at_disconnect : exists ls s o,
  run false init ls = Some s /\ In o (objs s) /\ o_destroyed o = 2.
Proof.
  exists [LNew 1; LRetain 0; LDecHeld 0; LLookup 1; LGetInc 0; LNew 2; LClose;
          LUnlinkClose 0; LDecOwed 0; LUnlinkClose 1; LDecOwed 1; LDestroy 1; LRetain 1;
          LDecHeld 0; LDestroy 0; LDecHeld 1; LDestroy 1].
  eexists. eexists. split; [vm_compute; reflexivity|].
  split; [right; left; reflexivity|reflexivity].
Qed.

Theorem old_leak_after_disconnect : exists ls s o,
  run false init ls = Some s /\ quiescent s /\ In o (objs s) /\ o_destroyed o = 0.
Proof.
  exists [LNew 1; LRetain 0; LDecHeld 0; LLookup 1; LGetInc 0; LClose;
          LUnlinkClose 0; LDecOwed 0; LNew 2; LRetain 1; LDecHeld 0; LDestroy 0; LDecHeld 1].
  eexists. eexists. split; [vm_compute; reflexivity|].
  split; [|split; [right; left; reflexivity|reflexivity]].
  split; [reflexivity|]. split; [reflexivity|].
  intros o [<-|[<-|[]]]; repeat split; reflexivity.
Qed.

Theorem old_resurrection : exists ls s o,
  run false init ls = Some s /\ closed s = false /\ In o (objs s) /\ o_destroyed o = 2.
Proof.
  exists [LNew 1; LRetain 0; LDecHeld 0; LLookup 1; LGetInc 0; LLookup 1;
          LUnlinkReq 0; LDecOwed 0; LDecHeld 0; LDestroy 0; LGetInc 0; LDecHeld 0; LDestroy 0].
  eexists. eexists. split; [vm_compute; reflexivity|].
  split; [reflexivity|]. split; [left; reflexivity|reflexivity].
Qed.

(* non-vacuity: a reachable quiescent state of the fixed code with a fid created before, one
   during and one after the disconnect *)
Example quiescent_reachable : exists ls s,
  run true init ls = Some s /\ quiescent s /\ length (objs s) = 3.
Proof.
  exists [LNew 1; LRetain 0; LDecHeld 0; LNew 2; LClose; LRetain 1;
          LUnlinkClose 0; LDecOwed 0; LDestroy 0; LUnlinkClose 1; LDecHeld 1; LDestroy 1;
          LNew 3; LRetain 2; LDecHeld 2; LDestroy 2].
  eexists. split; [vm_compute; reflexivity|].
  split; [|reflexivity].
  split; [reflexivity|]. split; [reflexivity|].
  intros o [<-|[<-|[<-|[]]]]; repeat split; reflexivity.
Qed.

Print Assumptions destroyed_at_most_once.
Print Assumptions destroyed_or_pending_at_most_once.
Print Assumptions no_reference_to_destroyed_fid.
Print Assumptions refcount_is_number_of_holders.
Print Assumptions table_is_the_live_fids.
Print Assumptions quiescent_all_destroyed_once.
Print Assumptions close_loop_progress.
Print Assumptions destroy_progress.
Print Assumptions old_double_destroy_at_disconnect.
Print Assumptions old_leak_after_disconnect.
Print Assumptions old_resurrection.
Print Assumptions quiescent_reachable.
