(* Once the Rflush went out without a reply, the flushed request stays unanswered and uncalled. *)
From Coq Require Import NArith List Bool PeanoNat Lia.
From V9 Require Import Lib.GoSem Gen.Consts Srv.Conc Srv.ConcInv Srv.ConcWF Srv.ConcMono Srv.ConcCount
  Srv.ConcContent Srv.ConcLocal Srv.ConcWin Srv.ConcCalled Srv.ConcOrder Srv.ConcFlush.
Import ListNotations.

Definition has_fr (s : st) (r : nat) : Prop := exists f, In f (F s) /\ f_req f = r.

Lemma has_fr_step : forall c s l s' r, Step c s l s' -> has_fr s r -> has_fr s' r.
Proof.
  intros c s l s' r H (f & Hi & E). destruct (frame_persist_in _ _ _ _ H _ Hi) as (f' & Hi' & A & _).
  exists f'. split; auto. congruence.
Qed.

(* a responded request has a frame *)
Definition RFInv (s : st) : Prop := forall r, qb s r q_resp = true -> has_fr s r.

Lemma RFInv_step : forall c s l s', WF s -> RFInv s -> Step c s l s' -> RFInv s'.
Proof.
  intros c s l s' W RF H r Hr.
  destruct (qb_resp_step _ _ _ _ r W H) as [E | (_ & fi & f & _ & Hn & _ & Er)].
  - apply (has_fr_step _ _ _ _ _ H). apply RF. congruence.
  - apply (has_fr_step _ _ _ _ _ H). exists f. split; auto. eapply nth_error_In; eauto.
Qed.

Lemma reach_RFInv : forall c s, reach c s -> RFInv s.
Proof.
  induction 1.
  - intros r Hr. unfold qb in Hr. destruct r; discriminate.
  - eapply RFInv_step; eauto using reach_WF, step_Step.
Qed.

(* not handed over, and never will be *)
Definition safe (q : rq) : Prop := q_pc q <> WProc /\ (unstarted (q_pc q) -> q_flush q = true).

Definition wf3 (s : st) (t : nat) : Prop := exists g qg, getq s g = Some qg /\ q_pc qg = WF3 t false.

Definition ZInv (s : st) : Prop :=
  forall t qt, getq s t = Some qt -> q_called qt = false -> has_fr s t \/ wf3 s t -> safe qt.

Lemma safe_step : forall c s l s' t q q', WF s -> GInv s -> Step c s l s' ->
  getq s t = Some q -> getq s' t = Some q' -> safe q -> safe q'.
Proof.
  intros c s l s' t q q' W G H Hq Hq' (A & B).
  destruct (step_exact _ _ _ _ W H _ _ Hq') as [(q0 & Hq0 & _ & _ & _ & _ & T & _) | (-> & _)].
  2: { apply getq_lt in Hq. lia. }
  assert (q0 = q) by congruence. subst.
  destruct (step_exact2 _ _ _ _ W H _ _ _ Hq Hq') as (_ & _ & P).
  destruct (step_evol _ _ _ _ W H _ _ Hq) as (q2 & Hq2 & Ev). assert (q2 = q') by congruence. subst.
  unfold evol in Ev. unfold safe, unstarted in *. split.
  - intro X. destruct (P X) as [Y | (Y1 & Y2)]; [auto|]. rewrite B in Y2; auto. discriminate.
  - intro U. destruct T as [T | [(T & Sp) | [(T1 & T2 & T3) | [(T1 & T2 & T3) | (T1 & T2 & T3)]]]].
    + rewrite T in U. intuition.
    + destruct (is_spawn_waiting _ _ _ G Sp) as (q1 & Hq1 & Hw). assert (q1 = q) by congruence. subst.
      intuition.
    + destruct U; congruence.
    + destruct U; congruence.
    + destruct U; congruence.
Qed.

(* where a frame of the successor state comes from *)
Lemma newfr : forall c s l s' f', Step c s l s' -> In f' (F s') ->
  (exists f, In f (F s) /\ f_req f = f_req f') \/
  (exists q', getq s' (f_req f') = Some q' /\ (q_called q' = true \/ safe q')) \/
  wf3 s (f_req f') \/
  (exists w, In w (F s) /\ f_cur w = Some (f_req f')).
Proof.
  intros c s l s' f' H Hi. unfold safe, unstarted.
  destruct H; split_in Hi.
  all: try solve [left; eexists; split; [eassumption | reflexivity]].
  all: try solve [left; eexists; split; [eapply nth_error_In; eassumption | reflexivity]].
  all: try solve [right; left; simpl; eexists; split;
                  [rewrite getq_addf; eapply getq_setq_same; eassumption |
                   simpl; first [left; assumption | right; split; [discriminate | intros [X|X]; discriminate]]]].
  - right; right; left. exists r, q. auto.
  - right; right; right. exists f. split; auto. eapply nth_error_In; eauto.
Qed.

Lemma wf3_rev : forall c s l s' g qg' t, WF s -> Step c s l s' ->
  getq s' g = Some qg' -> q_pc qg' = WF3 t false ->
  (exists qg, getq s g = Some qg /\ q_pc qg = WF3 t false) \/
  (exists qt, getq s t = Some qt /\ q_work qt = false /\ q_saved qt = false /\
     exists qt', getq s' t = Some qt' /\ q_flush qt' = true /\ q_called qt' = q_called qt /\
                 (q_pc qt' = q_pc qt \/ q_pc qt' = WF3 t false)).
Proof.
  intros c s l s' g qg' t W H Hg Hpc.
  step_rq H Hg W.
  all: f1_split.
  all: simpl in Hpc; try discriminate Hpc.
  all: try solve [left; eexists; split; [eassumption | assumption]].
  all: try solve [match goal with X : q_pc _ = _ |- _ => rewrite X in Hpc; discriminate Hpc end].
  - exfalso. destruct (alookup (reqs s) tag); discriminate.
  - inversion Hpc; subst t. right. apply orb_false_elim in H2. destruct H2 as (Wk & Sv).
    exists qt. repeat split; auto. eexists. split.
    + eapply getq_setq_same. eapply getq_setq_same. eauto.
    + simpl. auto.
  - inversion Hpc; subst t0. right. apply orb_false_elim in H2. destruct H2 as (Wk & Sv).
    exists qt. repeat split; auto. exists (with_flush qt true). split.
    + rewrite getq_setq_other by (apply Nat.eqb_neq; rewrite Nat.eqb_sym; auto).
      eapply getq_setq_same; eauto.
    + simpl. auto.
Qed.

Lemma ZInv_step : forall c s l s', reach c s -> ZInv s -> Step c s l s' -> ZInv s'.
Proof.
  intros c s l s' R Z H t qt' Hq' Cl' Prem.
  pose proof (reach_WF c s R) as W. pose proof (reach_GInv c s R) as G.
  destruct (step_evol_rev _ _ _ _ W H _ _ Hq') as [(qt & Hq & Ev) | (-> & tag & k & -> & ->)].
  2: { (* a fresh request has neither frames nor flushes at work on it *)
    exfalso. inversion H; subst. destruct Prem as [(f & Hi & E) | (g & qg' & Hg' & Hpc')].
    - simpl in Hi. destruct (wf_F s W f Hi) as (X & _). lia.
    - destruct (step_evol_rev _ _ _ _ W H _ _ Hg') as [(qg & Hg & _) | (-> & tag' & k' & X & ->)].
      + destruct (wf3_rev _ _ _ _ _ _ _ W H Hg' Hpc') as [(qg0 & Hg0 & Hpc0) | (qt & Hqt & _)].
        * destruct (wf_R s W _ _ Hg0) as (_ & _ & _ & _ & _ & Y & _). rewrite Hpc0 in Y.
          specialize (Y _ eq_refl). lia.
        * apply getq_lt in Hqt. lia.
      + simpl in Hpc'. destruct (alookup (reqs s) tag'); discriminate. }
  assert (Cl : q_called qt = false).
  { unfold evol in Ev. destruct (q_called qt) eqn:E; auto. intuition congruence. }
  assert (Old : has_fr s t \/ wf3 s t -> safe qt') .
  { intro X. eapply safe_step; eauto. }
  destruct Prem as [(f' & Hi' & E) | (g & qg' & Hg' & Hpc')].
  - destruct (newfr _ _ _ _ _ H Hi') as [(f & Hi & E2) | [(q' & Hq2 & [X | X]) | [X | (w & Hw & Hc)]]];
      rewrite E in *.
    + apply Old. left. exists f. split; auto.
    + congruence.
    + congruence.
    + apply Old. auto.
    + destruct (b_fr s (reach_BInv c s R) w Hw) as (_ & _ & Y). specialize (Y _ Hc).
      unfold qb in Y. rewrite Hq in Y.
      destruct (reach_PTInv c s R _ _ Hq) as (_ & A). destruct (A Y) as [NP | NP]; [|congruence].
      pose proof (not_pre_step _ _ _ _ _ _ _ W G H Hq Hq' NP) as NP'.
      unfold safe, unstarted. split.
      * intro X. apply NP'. rewrite X. exact I.
      * intros [X | X]; exfalso; apply NP'; rewrite X; exact I.
  - destruct (wf3_rev _ _ _ _ _ _ _ W H Hg' Hpc') as
      [(qg & Hg & Hpc) | (qt0 & Hq0 & Wk & Sv & qt1 & Hq1 & Fl & Cl1 & Pc)].
    + apply Old. right. exists g, qg. auto.
    + assert (qt0 = qt) by congruence. assert (qt1 = qt') by congruence. subst.
      unfold safe, unstarted. split; [|auto].
      intro X. destruct Pc as [Pc | Pc]; [|congruence].
      rewrite X in Pc.
      destruct (reach_LInv c s R _ _ Hq) as (_ & _ & L5). rewrite <- Pc in L5.
      destruct L5 as [L5 | L5]; [congruence|].
      assert (Hf : has_fr s t). { apply (reach_RFInv c s R). unfold qb. rewrite Hq. auto. }
      destruct (Z _ _ Hq Cl (or_introl Hf)) as (Y & _). congruence.
Qed.

Lemma reach_ZInv : forall c s, reach c s -> ZInv s.
Proof.
  induction 1.
  - intros t qt Hq. destruct t; discriminate.
  - eapply ZInv_step; eauto using step_Step.
Qed.

(* ---------- counting versus membership ---------- *)
Lemma filter_len_zero : forall A (p : A -> bool) l, length (filter p l) = 0 -> forall x, In x l -> p x = false.
Proof.
  induction l; simpl; intros; [contradiction|].
  destruct (p a) eqn:E; simpl in H; [lia|]. destruct H0; subst; auto.
Qed.

Lemma on_wire_zero : forall s r, on_wire s r = 0 <-> ~ In r (map fst3 (wire s)).
Proof.
  intros. unfold on_wire. split.
  - intros H Hi. apply in_map_iff in Hi. destruct Hi as (e & E & Hi).
    pose proof (filter_len_zero _ _ _ H e Hi) as X. simpl in X. unfold fst3 in E. rewrite E, Nat.eqb_refl in X.
    discriminate.
  - intros H. apply filter_none. intros e Hi. destruct (fst (fst e) =? r) eqn:E; auto.
    apply Nat.eqb_eq in E. exfalso. apply H. apply in_map_iff. exists e. auto.
Qed.

Lemma in_outq_zero : forall s r, in_outq s r = 0 <-> ~ In r (outq s).
Proof.
  intros. unfold in_outq. split.
  - intros H Hi. pose proof (filter_len_zero _ _ _ H r Hi) as X. simpl in X.
    rewrite Nat.eqb_refl in X. discriminate.
  - intros H. apply filter_none. intros x Hi. destruct (x =? r) eqn:E; auto.
    apply Nat.eqb_eq in E. subst. contradiction.
Qed.

Lemma idx_app_in_l : forall l1 l2 r j, idx (l1 ++ l2) r = Some j -> j < length l1 -> In r l1.
Proof.
  intros. destruct (idx l1 r) eqn:E.
  - apply idx_In. congruence.
  - rewrite (idx_app_r _ _ _ E) in H. destruct (idx l2 r); inversion H. lia.
Qed.

(* the flushed request can never be enqueued any more *)
Definition gone (s : st) (t : nat) : Prop := won_past s t 3 /\ ~ In t (SQ s).

Lemma gone_step : forall c s l s' t, reach c s -> gone s t -> step c s l = Some s' -> gone s' t.
Proof.
  intros c s l s' t R (A & B) Hs. pose proof (step_Step _ _ _ _ Hs) as St. split.
  - eapply won_past_step; eauto; lia.
  - destruct (SQ_step _ _ _ _ St) as [E | (fi & h & Hn & Hpc & Hsf & E)]; rewrite E; auto.
    intro Hi. apply in_app_or in Hi. destruct Hi as [Hi | [Hi | []]]; auto.
    pose proof (cnt34_zero s t 3 (reach_GInv c s R) A ltac:(lia)) as Z.
    assert (1 <= cnt34 s t).
    { unfold cnt34. eapply filter_some; [eapply nth_error_In; eauto|].
      unfold p34. rewrite Hi, Nat.eqb_refl, Hpc. reflexivity. }
    lia.
Qed.

Definition uncalled (q : rq) : Prop := q_called q = false /\ safe q.

Lemma uncalled_step : forall c s l s' t q q', reach c s -> step c s l = Some s' ->
  getq s t = Some q -> getq s' t = Some q' -> uncalled q -> uncalled q'.
Proof.
  intros c s l s' t q q' R Hs Hq Hq' (A & B). pose proof (step_Step _ _ _ _ Hs) as St.
  pose proof (reach_WF c s R) as W.
  split; [|eapply safe_step; eauto using reach_GInv].
  destruct (step_exact _ _ _ _ W St _ _ Hq') as [(q0 & Hq0 & _ & _ & _ & C & _) | (-> & _)].
  2: { apply getq_lt in Hq. lia. }
  assert (q0 = q) by congruence. subst.
  destruct C as [C | (_ & C & _)]; [congruence|]. destruct B as (B & _). congruence.
Qed.

Lemma rflush_means_cancelled_inv : forall c s f t qf qt,
  reach c s -> NG s ->
  getq s f = Some qf -> q_target qf = Some t -> getq s t = Some qt ->
  1 <= on_wire s f -> on_wire s t = 0 ->
  forall ls s', run c s ls = Some s' ->
    on_wire s' t = 0 /\ in_outq s' t = 0 /\
    (forall qt', getq s' t = Some qt' -> q_called qt' = q_called qt).
Proof.
  intros c s f t qf qt R N Hf Ht Hqt Wf Wt.
  (* the state of affairs now *)
  assert (Hin : In f (map fst3 (wire s))).
  { destruct (in_dec Nat.eq_dec f (map fst3 (wire s))); auto.
    apply on_wire_zero in n. lia. }
  assert (Hin2 : In f (SQ s)) by (unfold SQ; apply in_or_app; auto).
  destruct (reach_FOInv c s R N _ _ _ Hf Ht Hin2) as (Wp & Ord).
  assert (Gn : gone s t).
  { split; auto. intro Hi.
    destruct (idx (SQ s) t) as [j|] eqn:Ej; [|apply idx_In in Hi; congruence].
    destruct (idx (map fst3 (wire s)) f) as [i|] eqn:Ei; [|apply idx_In in Hin; congruence].
    pose proof (idx_lt _ _ _ Ei) as Li.
    assert (Ei2 : idx (SQ s) f = Some i) by (unfold SQ; apply idx_app_l; auto).
    pose proof (Ord _ _ Ei2 eq_refl) as Lj.
    apply on_wire_zero in Wt. apply Wt. unfold SQ in Ej. eapply idx_app_in_l; eauto. lia. }
  assert (Uc : q_called qt = false -> uncalled qt).
  { intro Cl. split; auto. apply (reach_ZInv c s R _ _ Hqt Cl). left.
    destruct Wp as (w & Hw & Er & _). exists w. auto. }
  clear Hin Hin2 Ord Wf Wt Hf Ht N.
  intros ls. revert s R qt Hqt Wp Gn Uc. induction ls as [|l ls IH]; simpl; intros s R qt Hqt Wp Gn Uc s' Hr.
  - inversion Hr; subst s'. destruct Gn as (_ & Gn). repeat split.
    + apply on_wire_zero. intro X. apply Gn. unfold SQ. apply in_or_app. auto.
    + apply in_outq_zero. intro X. apply Gn. unfold SQ. apply in_or_app. auto.
    + intros. congruence.
  - destruct (step c s l) as [s1|] eqn:Hs; [|discriminate].
    pose proof (step_Step _ _ _ _ Hs) as St.
    destruct (step_evol _ _ _ _ (reach_WF c s R) St _ _ Hqt) as (qt1 & Hq1 & Ev).
    assert (R1' : reach c s1) by (eapply reach_step; eauto).
    assert (Gn1 : gone s1 t) by (apply (gone_step c s l s1 t R Gn Hs)).
    assert (Ceq : q_called qt1 = q_called qt).
    { destruct (q_called qt) eqn:Cl.
      - unfold evol in Ev. intuition.
      - apply (uncalled_step c s l s1 t qt qt1 R Hs Hqt Hq1 (Uc eq_refl)). }
    destruct (IH s1 R1' qt1 Hq1 (proj1 Gn1) Gn1) with (s' := s') as (A & B & C); auto.
    + intro Cl. apply (uncalled_step c s l s1 t qt qt1 R Hs Hqt Hq1). apply Uc. congruence.
    + repeat split; auto. intros. rewrite (C _ H). auto.
Qed.
