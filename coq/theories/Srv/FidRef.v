(* Life time of server-side fids under concurrently executing requests and a disconnect
   (srv_srv.go: FidNew, FidGet, retain, unlink, DecRef; srv_fcall.go: the post-handlers;
   srv_conn.go: Conn.close).  Every label is one critical section of the Go code; requests
   are not sequenced: ANY request may perform ANY step it is entitled to at ANY time
   (it holds a counted reference, or a pointer it just looked up), which over-approximates
   every real program of requests.  Model definitions only.

   Reference counting as the code does it:
     FidNew      : refcount 1 (the creating request's), creating, not linked
     retain      : (creating request answered successfully) under the connection lock:
                   unless the connection is closed, refcount++ and linked (the table's
                   reference); creating := false
     FidGet      : lookup under the connection lock, then under the fid lock:
                   refused if creating or dead, else refcount++
     unlink      : (successful Tclunk, Tremove, and Conn.close for every fid in the table)
                   if linked { linked := false; DecRef }       -- at most once per fid
     DecRef      : refcount--; at 0: dead := true; then, in a later critical section
                   (LDestroy), the guarded delete from the table and FidDestroy *)
From Coq Require Import ZArith List Bool PeanoNat Lia.
Import ListNotations.

Record obj := mkObj {
  o_num : nat;          (* fid number *)
  o_rc : Z;             (* SrvFid.refcount (Go int) *)
  o_creating : bool;
  o_linked : bool;
  o_dead : bool;
  o_destroyed : nat;    (* how often FidDestroy was called for it *)
  (* who is entitled to act (program counters of the requests, summed up) *)
  o_held : nat;         (* counted references held by in-flight requests *)
  o_owed : nat;         (* unlink calls between clearing [linked] and their DecRef *)
  o_ptrs : nat;         (* FidGet calls between the table lookup and the increment *)
  o_pend : nat }.       (* DecRef reached 0, delete + FidDestroy not yet done *)

Record st := mkSt {
  objs : list obj;                 (* index = identity of the SrvFid object *)
  table : list (nat * nat);        (* conn.fidpool: fid number -> object *)
  closed : bool;                   (* conn.closed *)
  snap : list nat }.               (* Conn.close: fids still to be unlinked by its loop *)

Definition init : st := mkSt [] [] false [].

Fixpoint tlook (t : list (nat * nat)) (k : nat) : option nat :=
  match t with [] => None | (k', i) :: r => if k' =? k then Some i else tlook r k end.
Fixpoint tremove (t : list (nat * nat)) (i : nat) : list (nat * nat) :=
  match t with [] => [] | (k', j) :: r => if j =? i then tremove r i else (k', j) :: tremove r i end.

Fixpoint upd (l : list obj) (i : nat) (f : obj -> obj) : list obj :=
  match l, i with
  | [], _ => []
  | o :: r, O => f o :: r
  | o :: r, S j => o :: upd r j f
  end.

Fixpoint remove_one (l : list nat) (i : nat) : list nat :=
  match l with [] => [] | j :: r => if j =? i then r else j :: remove_one r i end.

Inductive label :=
| LNew (num : nat)       (* FidNew by a Tattach / Tauth / Twalk *)
| LLookup (num : nat)    (* FidGet: the table lookup *)
| LGetInc (i : nat)      (* FidGet: the increment (or the refusal) under the fid lock *)
| LRetain (i : nat)      (* the creating request was answered successfully *)
| LUnlinkReq (i : nat)   (* clunkPost / removePost of a request holding i *)
| LUnlinkClose (i : nat) (* one iteration of Conn.close's loop *)
| LDecOwed (i : nat)     (* the DecRef that follows a successful unlink *)
| LDecHeld (i : nat)     (* a request drops a reference it holds (PostProcess) *)
| LDestroy (i : nat)     (* DecRef after its decrement reached 0: the guarded delete from the
                            table and FidDestroy, in a later critical section *)
| LClose
| LIncHeld (i : nat).   (* IncRef by a request that already holds a reference (walk in place: Newfid = Fid) *)                (* Conn.close: closed := true, snapshot of the table *)

(* [fixed = true]: the code as it is now.  [fixed = false]: the reference counting before
   the repair: no [linked] flag (every unlink decrements, retain always increments), FidGet
   does not refuse dead fids, Conn.close drops a reference of every fid in the table. *)
Definition decref (o : obj) : obj :=
  let rc := (o_rc o - 1)%Z in
  if (rc =? 0)%Z then
    mkObj (o_num o) 0%Z (o_creating o) (o_linked o) true (o_destroyed o) (o_held o) (o_owed o) (o_ptrs o) (S (o_pend o))
  else mkObj (o_num o) rc (o_creating o) (o_linked o) (o_dead o) (o_destroyed o) (o_held o) (o_owed o) (o_ptrs o) (o_pend o).

(* [remove_entry]: delete i's entry from the table (the guarded delete
   [if fidpool[num] == fid { delete }] of DecRef) *)
Definition set_obj (s : st) (i : nat) (o : obj) (remove_entry : bool) : st :=
  mkSt (upd (objs s) i (fun _ => o)) (if remove_entry then tremove (table s) i else table s) (closed s) (snap s).

Definition step (fixed : bool) (s : st) (l : label) : option st :=
  match l with
  | LNew num =>
    match tlook (table s) num with
    | Some _ => None
    | None => Some (mkSt (objs s ++ [mkObj num 1%Z true false false 0 1 0 0 0])
                         ((num, length (objs s)) :: table s) (closed s) (snap s))
    end
  | LLookup num =>
    match tlook (table s) num with
    | Some i => match nth_error (objs s) i with
                | Some o => Some (set_obj s i (mkObj (o_num o) (o_rc o) (o_creating o) (o_linked o) (o_dead o) (o_destroyed o) (o_held o) (o_owed o) (S (o_ptrs o)) (o_pend o)) false)
                | None => None end
    | None => None
    end
  | LGetInc i =>
    match nth_error (objs s) i with
    | Some o =>
      if o_ptrs o =? 0 then None
      else if o_creating o || (fixed && o_dead o)
      then Some (set_obj s i (mkObj (o_num o) (o_rc o) (o_creating o) (o_linked o) (o_dead o) (o_destroyed o) (o_held o) (o_owed o) (o_ptrs o - 1) (o_pend o)) false)
      else Some (set_obj s i (mkObj (o_num o) (o_rc o + 1)%Z (o_creating o) (o_linked o) (o_dead o) (o_destroyed o) (S (o_held o)) (o_owed o) (o_ptrs o - 1) (o_pend o)) false)
    | None => None
    end
  | LRetain i =>
    match nth_error (objs s) i with
    | Some o =>
      if o_creating o && negb (o_held o =? 0) then
        if fixed && closed s
        then Some (set_obj s i (mkObj (o_num o) (o_rc o) false false (o_dead o) (o_destroyed o) (o_held o) (o_owed o) (o_ptrs o) (o_pend o)) false)
        else Some (set_obj s i (mkObj (o_num o) (o_rc o + 1)%Z false true (o_dead o) (o_destroyed o) (o_held o) (o_owed o) (o_ptrs o) (o_pend o)) false)
      else None
    | None => None
    end
  | LUnlinkReq i =>
    match nth_error (objs s) i with
    | Some o =>
      if o_held o =? 0 then None
      else if o_linked o || negb fixed
      then Some (set_obj s i (mkObj (o_num o) (o_rc o) (o_creating o) false (o_dead o) (o_destroyed o) (o_held o) (S (o_owed o)) (o_ptrs o) (o_pend o)) false)
      else Some s
    | None => None
    end
  | LUnlinkClose i =>
    if existsb (Nat.eqb i) (snap s) then
      match nth_error (objs s) i with
      | Some o =>
        let s' := mkSt (objs s) (table s) (closed s) (remove_one (snap s) i) in
        if o_linked o || negb fixed
        then Some (set_obj s' i (mkObj (o_num o) (o_rc o) (o_creating o) false (o_dead o) (o_destroyed o) (o_held o) (S (o_owed o)) (o_ptrs o) (o_pend o)) false)
        else Some s'
      | None => None
      end
    else None
  | LDecOwed i =>
    match nth_error (objs s) i with
    | Some o =>
      if o_owed o =? 0 then None
      else Some (set_obj s i (decref (mkObj (o_num o) (o_rc o) (o_creating o) (o_linked o) (o_dead o) (o_destroyed o) (o_held o) (o_owed o - 1) (o_ptrs o) (o_pend o))) false)
    | None => None
    end
  | LDecHeld i =>
    match nth_error (objs s) i with
    | Some o =>
      if o_held o =? 0 then None
      else Some (set_obj s i (decref (mkObj (o_num o) (o_rc o) (o_creating o) (o_linked o) (o_dead o) (o_destroyed o) (o_held o - 1) (o_owed o) (o_ptrs o) (o_pend o))) false)
    | None => None
    end
  | LDestroy i =>
    match nth_error (objs s) i with
    | Some o =>
      if o_pend o =? 0 then None
      else Some (set_obj s i (mkObj (o_num o) (o_rc o) (o_creating o) (o_linked o) (o_dead o) (S (o_destroyed o)) (o_held o) (o_owed o) (o_ptrs o) (o_pend o - 1))
                         (match tlook (table s) (o_num o) with Some j => j =? i | None => false end))
    | None => None
    end
  | LClose =>
    if closed s then None
    else Some (mkSt (objs s) (table s) true (map snd (table s)))
  | LIncHeld i =>
    match nth_error (objs s) i with
    | Some o =>
      if o_held o =? 0 then None
      else Some (set_obj s i (mkObj (o_num o) (o_rc o + 1)%Z (o_creating o) (o_linked o) (o_dead o) (o_destroyed o) (S (o_held o)) (o_owed o) (o_ptrs o) (o_pend o)) false)
    | None => None
    end
  end.

Fixpoint run (fixed : bool) (s : st) (ls : list label) : option st :=
  match ls with
  | [] => Some s
  | l :: rest => match step fixed s l with Some s' => run fixed s' rest | None => None end
  end.

Definition reach (fixed : bool) (s : st) : Prop := exists ls, run fixed init ls = Some s.

(* nothing is in flight any more: every request has finished, the close loop is done *)
Definition quiescent (s : st) : Prop :=
  closed s = true /\ snap s = [] /\
  forall o, In o (objs s) -> o_held o = 0 /\ o_owed o = 0 /\ o_ptrs o = 0 /\ o_creating o = false /\ o_pend o = 0.

