(* Flush requests: linking, ownership of the waiting lists, ordering of Rflush. *)
From Coq Require Import NArith List Bool PeanoNat Lia.
From V9 Require Import Lib.GoSem Gen.Consts Srv.Conc Srv.ConcInv Srv.ConcWF Srv.ConcMono Srv.ConcCount
  Srv.ConcContent Srv.ConcLocal Srv.ConcWin Srv.ConcCalled Srv.ConcOrder.
Import ListNotations.

(* not yet past the dispatch in Process() *)
Definition pre (p : wpc) : Prop := match p with WWait | WSpawned | WProc => True | _ => False end.

Lemma not_pre_step : forall c s l s' r q q', WF s -> GInv s -> Step c s l s' ->
  getq s r = Some q -> getq s' r = Some q' -> ~ pre (q_pc q) -> ~ pre (q_pc q').
Proof.
  intros c s l s' r q q' W G H Hq Hq' N.
  destruct (step_exact _ _ _ _ W H _ _ Hq') as [(q0 & Hq0 & _ & _ & _ & _ & T & _) | (-> & _)].
  2: { apply getq_lt in Hq. lia. }
  assert (q0 = q) by congruence. subst.
  destruct (step_exact2 _ _ _ _ W H _ _ _ Hq Hq') as (_ & _ & P).
  destruct T as [T | [(T & Sp) | [(T1 & T2 & T3) | [(T1 & T2 & T3) | (T1 & T2 & T3)]]]].
  - rewrite T. auto.
  - destruct (is_spawn_waiting _ _ _ G Sp) as (q1 & Hq1 & Hw). assert (q1 = q) by congruence. subst.
    rewrite Hw in N. simpl in N. tauto.
  - rewrite T1 in N. simpl in N. tauto.
  - rewrite T1 in N. simpl in N. tauto.
  - intro X. destruct (q_pc q') eqn:E; simpl in X; try tauto; try congruence.
    destruct (P eq_refl) as [Y | (Y & _)]; rewrite Y in N; simpl in N; tauto.
Qed.

Definition PTInv (s : st) : Prop :=
  forall r q, getq s r = Some q ->
    (q_target q <> None -> ~ pre (q_pc q)) /\
    (hb q = true -> ~ pre (q_pc q) \/ q_called q = true).

Lemma PTInv_step : forall c s l s', WF s -> GInv s -> PTInv s -> Step c s l s' -> PTInv s'.
Proof.
  intros c s l s' W G P H r q' Hq'.
  destruct (step_exact _ _ _ _ W H _ _ Hq') as [(q & Hq & _ & _ & _ & _ & T & _) | (-> & tag & k & -> & ->)].
  2: { split; simpl; intros; [congruence | discriminate]. }
  destruct (step_exact2 _ _ _ _ W H _ _ _ Hq Hq') as (B & Tg & _).
  destruct (P _ _ Hq) as (A1 & A2).
  destruct (step_evol _ _ _ _ W H _ _ Hq) as (q2 & Hq2 & Ev). assert (q2 = q') by congruence. subst.
  assert (NP : q_pc q = WProc -> q_pc q' <> WProc -> ~ pre (q_pc q')).
  { intros X Y Z. destruct T as [T | [(T & Sp) | [(T1 & T2 & T3) | [(T1 & T2 & T3) | (T1 & T2 & T3)]]]];
      try congruence.
    - destruct (is_spawn_waiting _ _ _ G Sp) as (q1 & Hq1 & Hw). congruence.
    - destruct (q_pc q'); simpl in Z; try tauto; congruence. }
  split.
  - intro X. destruct Tg as [Tg | (Tg1 & Tg2 & _)].
    + eapply not_pre_step; eauto. apply A1. congruence.
    + auto.
  - intro X. destruct B as [B | [(B1 & B2) | B]].
    + destruct A2 as [Y | Y].
      * unfold hb in *. rewrite <- B. auto.
      * left. eapply not_pre_step; eauto.
      * right. unfold evol in Ev. intuition.
    + left. auto.
    + right. unfold evol in Ev. intuition.
Qed.

Lemma reach_PTInv : forall c s, reach c s -> PTInv s.
Proof.
  induction 1.
  - intros r q Hq. destruct r; discriminate.
  - eapply PTInv_step; eauto using reach_WF, reach_GInv, step_Step.
Qed.

(* ---------- no tag was ever shared ---------- *)
Definition NG (s : st) : Prop := forall r q, getq s r = Some q -> q_after q = None.

Lemma NG_back : forall c s l s', WF s -> Step c s l s' -> NG s' -> NG s.
Proof.
  intros c s l s' W H N r q Hq.
  destruct (step_evol _ _ _ _ W H _ _ Hq) as (q' & Hq' & Ev). unfold evol in Ev.
  specialize (N _ _ Hq'). intuition congruence.
Qed.

Lemma NG_noprev : forall s, GInv s -> NG s -> forall r q, getq s r = Some q -> q_prev q = None.
Proof.
  intros s G N r q Hq. destruct (q_prev q) eqn:E; auto.
  destruct (g_prev s G _ _ _ Hq E) as (qb & Hb & Ha). specialize (N _ _ Hb). congruence.
Qed.

Lemma reach_NG_ind : forall c (P : st -> Prop),
  P init ->
  (forall s l s', reach c s -> NG s -> P s -> step c s l = Some s' -> P s') ->
  forall s, reach c s -> NG s -> P s.
Proof.
  intros c P P0 PS s H. induction H; intros N; auto.
  assert (N0 : NG s) by (eapply NG_back; eauto using reach_WF, step_Step).
  eapply PS; eauto.
Qed.

(* ---------- target of a request ---------- *)
Definition qtarget (s : st) (f : nat) : option nat :=
  match getq s f with Some q => q_target q | None => None end.

Lemma qtarget_mono : forall c s l s' f t, WF s -> PTInv s -> Step c s l s' ->
  qtarget s f = Some t -> qtarget s' f = Some t.
Proof.
  intros c s l s' f t W P H. unfold qtarget. destruct (getq s f) eqn:Hq; [|discriminate].
  destruct (step_evol _ _ _ _ W H _ _ Hq) as (q' & Hq' & _). rewrite Hq'. intro X.
  destruct (step_exact2 _ _ _ _ W H _ _ _ Hq Hq') as (_ & [Tg | (Tg & _)] & _).
  - congruence.
  - exfalso. destruct (P _ _ Hq) as (A & _). apply A; [congruence|]. rewrite Tg. exact I.
Qed.

Lemma qtarget_setq : forall s i q q0 f, getq s i = Some q0 ->
  qtarget (setq s i q) f = if i =? f then q_target q else qtarget s f.
Proof. intros. unfold qtarget. rewrite getq_setq, H. destruct (i =? f); reflexivity. Qed.

Record CHInv (s : st) : Prop := {
  ch_req : forall t qt f, getq s t = Some qt -> q_flushreq qt = Some f -> qtarget s f = Some t;
  ch_next : forall g qg f, getq s g = Some qg -> q_flushnext qg = Some f ->
              qtarget s g <> None /\ qtarget s f = qtarget s g;
  ch_cur : forall w f, In w (F s) -> f_cur w = Some f ->
              qtarget s f = Some (f_req w) /\ f_won w = true /\ 4 <= ord (f_pc w) }.

Lemma CHInv_init : CHInv init.
Proof. constructor; simpl; intros; try contradiction; destruct t || destruct g; discriminate. Qed.

Definition ch_ok (s : st) (r : nat) (q : rq) : Prop :=
    (forall f, q_flushreq q = Some f -> qtarget s f = Some r) /\
    (forall f, q_flushnext q = Some f -> qtarget s r <> None /\ qtarget s f = qtarget s r).

Lemma CH_keep : forall s s' r q q',
  (forall f t, qtarget s f = Some t -> qtarget s' f = Some t) ->
  ch_ok s r q -> q_flushreq q' = q_flushreq q -> q_flushnext q' = q_flushnext q -> ch_ok s' r q'.
Proof.
  intros s s' r q q' M (A & B) E1 E2. split; intros f Hf.
  - rewrite E1 in Hf. auto.
  - rewrite E2 in Hf. destruct (B f Hf) as (B1 & B2).
    destruct (qtarget s r) eqn:E; [|congruence].
    rewrite (M _ _ E), (M _ _ B2). split; congruence.
Qed.

Lemma CH_rq_step : forall c s l s', WF s -> GInv s -> PTInv s -> NG s -> CHInv s -> Step c s l s' ->
  forall r q, getq s' r = Some q -> ch_ok s' r q.
Proof.
  intros c s l s' W G P N C H r0 q0 Hg. assert (H' := H).
  assert (M := fun f t => qtarget_mono c s l s' f t W P H').
  assert (NP := NG_noprev s G N).
  assert (C0 : forall r q, getq s r = Some q -> ch_ok s r q).
  { intros r q Hq. split; intros; [eapply (ch_req s C) | eapply (ch_next s C)]; eauto. }
  step_rq H Hg W.
  all: try match goal with Hp : q_prev ?q = Some _, Hq : getq _ _ = Some ?q |- _ =>
         rewrite (NP _ _ Hq) in Hp; discriminate Hp end.
  all: try solve [match goal with Hq : getq _ _ = Some ?q |- _ =>
         apply (CH_keep _ _ _ _ _ M (C0 _ _ Hq)); reflexivity end].
  - split; simpl; intros; discriminate.
  - (* a flush looking for its own tag *)
    assert (X : qtarget (setq (setq s r0 (f1_q q q r0)) r0
             (with_links (f1_q q q r0) (Some r0) (q_prev (f1_q q q r0)) (q_next (f1_q q q r0)))) r0 = Some r0).
    { rewrite (qtarget_setq _ _ _ (f1_q q q r0)) by (eapply getq_setq_same; eauto).
      rewrite Nat.eqb_refl. reflexivity. }
    split; intros f Hf; simpl in Hf.
    + inversion Hf; subst. auto.
    + rewrite X. split; [discriminate|]. apply M. apply (C0 _ _ H). auto.
  - exfalso. auto.
  - assert (X : qtarget (setq (setq s r (f1_q q qt r0)) r0
             (with_links qt (Some r) (q_prev qt) (q_next qt))) r = Some r0).
    { rewrite (qtarget_setq _ _ _ qt) by (rewrite getq_setq_other; auto; apply Nat.eqb_neq; auto).
      rewrite (Nat.eqb_sym r0 r), E. rewrite (qtarget_setq _ _ _ q) by auto.
      rewrite Nat.eqb_refl. reflexivity. }
    split; intros f Hf; simpl in Hf.
    + inversion Hf; subst. auto.
    + destruct (C0 _ _ H3) as (_ & B). destruct (B f Hf) as (B1 & B2).
      destruct (qtarget s r0) eqn:E2; [|congruence].
      rewrite (M _ _ E2), (M _ _ B2). split; congruence.
  - assert (X : qtarget (setq (setq s r0 (f1_q q qt t)) t
             (with_links qt (Some r0) (q_prev qt) (q_next qt))) r0 = Some t).
    { rewrite (qtarget_setq _ _ _ qt) by (rewrite getq_setq_other; auto; apply Nat.eqb_neq; auto).
      rewrite (Nat.eqb_sym t r0), E. rewrite (qtarget_setq _ _ _ q) by auto.
      rewrite Nat.eqb_refl. reflexivity. }
    split; intros f Hf; simpl in Hf.
    + apply M. apply (C0 _ _ H). auto.
    + rewrite X. split; [discriminate|]. apply M. apply (C0 _ _ H3). auto.
Qed.

Lemma CH_cur_step : forall c s l s', WF s -> GInv s -> PTInv s -> NG s -> CHInv s -> Step c s l s' ->
  forall w f, In w (F s') -> f_cur w = Some f ->
    qtarget s' f = Some (f_req w) /\ f_won w = true /\ 4 <= ord (f_pc w).
Proof.
  intros c s l s' W G P N C H w' x' Hi Hc. assert (H' := H).
  assert (M := fun f t => qtarget_mono c s l s' f t W P H').
  destruct H; split_in Hi.
  all: try solve [destruct (ch_cur s C _ _ Hi Hc) as (A1 & A2 & A3); auto].
  all: try discriminate Hc.
  all: try solve [match goal with Hn : nth_error (F _) _ = Some ?f |- _ =>
         destruct (ch_cur s C f x' (nth_error_In _ _ Hn) Hc) as (A1 & A2 & A3) end;
         unfold fr_set; simpl; repeat split; auto;
         match goal with Hpc : f_pc _ = _ |- _ => rewrite Hpc in *; simpl in *; lia end].
  - (* R2, last of its tag *)
    simpl in *. repeat split.
    + apply M. eapply (ch_req s C); eauto.
    + apply (g_w1 s G f (nth_error_In _ _ H)). rewrite H1. reflexivity.
    + lia.
  - (* R6 *)
    simpl in *. inversion Hc; subst x'.
    destruct (ch_cur s C f x (nth_error_In _ _ H) H2) as (A1 & A2 & A3). repeat split; auto.
  - (* R7 *)
    simpl in *. destruct (ch_cur s C f x (nth_error_In _ _ H) H2) as (A1 & A2 & A3).
    repeat split; auto.
    apply M. match goal with Hx : getq s x = Some qx |- _ => destruct (ch_next s C _ _ _ Hx Hc) as (B1 & B2) end. congruence.
Qed.

Lemma CHInv_step : forall c s l s', WF s -> GInv s -> PTInv s -> NG s -> CHInv s -> Step c s l s' -> CHInv s'.
Proof.
  intros c s l s' W G P N C H. constructor.
  - intros t qt f Hq Hf. apply (CH_rq_step c s l s' W G P N C H t qt Hq). auto.
  - intros g qg f Hq Hf. apply (CH_rq_step c s l s' W G P N C H g qg Hq). auto.
  - eapply CH_cur_step; eauto.
Qed.

Lemma reach_CHInv : forall c s, reach c s -> NG s -> CHInv s.
Proof.
  intros c. apply reach_NG_ind.
  - apply CHInv_init.
  - intros s l s' H N C Hs.
    eapply CHInv_step; eauto using reach_WF, reach_GInv, reach_PTInv, step_Step.
Qed.

(* ---------- only flush requests have a target ---------- *)
Lemma step_F1_kind : forall c s r s', Step c s (LF1 r) s' ->
  exists q old, getq s r = Some q /\ q_kind q = KFlush old /\ q_pc q = WProc.
Proof. intros. inversion H; subst; eauto. Qed.

Definition KTInv (s : st) : Prop :=
  forall r q, getq s r = Some q -> q_target q <> None -> exists old, q_kind q = KFlush old.

Lemma KTInv_step : forall c s l s', WF s -> KTInv s -> Step c s l s' -> KTInv s'.
Proof.
  intros c s l s' W K H r q' Hq' Ht.
  destruct (step_evol_rev _ _ _ _ W H _ _ Hq') as [(q & Hq & Ev) | (-> & tag & k & -> & ->)].
  2: { simpl in Ht. congruence. }
  unfold evol in Ev.
  destruct (step_exact2 _ _ _ _ W H _ _ _ Hq Hq') as (_ & [Tg | (_ & _ & ->)] & _).
  - destruct (K _ _ Hq) as (old & E); [congruence|]. exists old. intuition congruence.
  - destruct (step_F1_kind _ _ _ _ H) as (q0 & old & Hq0 & E & _).
    assert (q0 = q) by congruence. subst. exists old. intuition congruence.
Qed.

Lemma reach_KTInv : forall c s, reach c s -> KTInv s.
Proof.
  induction 1.
  - intros r q Hq. destruct r; discriminate.
  - eapply KTInv_step; eauto using reach_WF, step_Step.
Qed.

(* ---------- frames on a flush request ---------- *)
Definition frame_blocked (s : st) (h : frame) : Prop :=
  (f_pc h = R1 -> qb s (f_req h) q_flush = true) /\ (f_pc h <> R1 -> f_sflush h = true).

Definition fr_flush_ok (s : st) (h : frame) : Prop :=
  forall qf, getq s (f_req h) = Some qf ->
    (pre (q_pc qf) -> q_called qf = false -> frame_blocked s h) /\
    (forall t, q_target qf = Some t -> frame_blocked s h \/ won_past s t 4).

Definition FFInv (s : st) : Prop := forall h, In h (F s) -> fr_flush_ok s h.

Lemma frame_blocked_mono : forall c s l s' h, WF s -> Step c s l s' ->
  frame_blocked s h -> frame_blocked s' h.
Proof.
  intros c s l s' h W H (A & B). split; auto. intro X. eapply qb_mono; eauto.
Qed.

Lemma fr_flush_ok_mono : forall c s l s' h, WF s -> GInv s -> PTInv s -> Step c s l s' ->
  f_req h < length (R s) ->
  (forall r, l <> LF1 r \/ r <> f_req h) ->
  fr_flush_ok s h -> fr_flush_ok s' h.
Proof.
  intros c s l s' h W G P H Lt NF Ok qf' Hq'.
  destruct (step_evol_rev _ _ _ _ W H _ _ Hq') as [(qf & Hq & Ev) | (E & _)]; [|lia].
  destruct (Ok _ Hq) as (A & B). unfold evol in Ev.
  split.
  - intros Pr Cl. eapply frame_blocked_mono; eauto. apply A.
    + destruct (q_pc qf) eqn:E; simpl; auto; exfalso;
        (eapply (not_pre_step c s l s' _ qf qf' W G H Hq Hq'); [rewrite E; simpl; tauto | exact Pr]).
    + destruct (q_called qf) eqn:E; auto. intuition congruence.
  - intros t Ht.
    destruct (step_exact2 _ _ _ _ W H _ _ _ Hq Hq') as (_ & [Tg | (_ & _ & ->)] & _).
    + rewrite Tg in Ht. destruct (B t Ht) as [X | X].
      * left. eapply frame_blocked_mono; eauto.
      * right. eapply won_past_step; eauto; lia.
    + destruct (NF (f_req h)); congruence.
Qed.

Lemma ffo_old : forall c s l s' h, WF s -> GInv s -> PTInv s -> (forall r q, getq s r = Some q -> LInv q) ->
  Step c s l s' -> In h (F s) -> fr_flush_ok s h -> fr_flush_ok s' h.
Proof.
  intros c s l s' h W G P L H Hi Ok. assert (H' := H).
  assert (Lt : f_req h < length (R s)) by (destruct (wf_F s W h Hi); auto).
  destruct H.
  all: try solve [eapply fr_flush_ok_mono; eauto; intros; left; discriminate].
  - (* F1 with a target *)
    destruct (Nat.eq_dec r (f_req h)) as [E | E].
    2: { eapply fr_flush_ok_mono; eauto. intros r1. destruct (Nat.eq_dec r1 (f_req h)); [left; congruence | right; auto]. }
    subst r. intros qf' Hq'. destruct (Ok _ H) as (A & _).
    assert (Bl : frame_blocked s h).
    { apply A. rewrite H0. exact I. destruct (q_called q) eqn:Cl; auto.
      destruct (L _ _ H) as (_ & X & _). rewrite (X Cl) in H1. discriminate. }
    assert (Bl' := frame_blocked_mono _ _ _ _ h W H' Bl).
    split; auto.
  - (* F1 without *)
    destruct (Nat.eq_dec r (f_req h)) as [E | E].
    2: { eapply fr_flush_ok_mono; eauto. intros r1. destruct (Nat.eq_dec r1 (f_req h)); [left; congruence | right; auto]. }
    subst r. intros qf' Hq'. destruct (Ok _ H) as (A & _).
    assert (Bl : frame_blocked s h).
    { apply A. rewrite H0. exact I. destruct (q_called q) eqn:Cl; auto.
      destruct (L _ _ H) as (_ & X & _). rewrite (X Cl) in H1. discriminate. }
    assert (Bl' := frame_blocked_mono _ _ _ _ h W H' Bl).
    split; auto.
Qed.

Lemma ffo_transfer : forall s f f', fr_flush_ok s f -> f_req f' = f_req f ->
  (frame_blocked s f -> frame_blocked s f') -> fr_flush_ok s f'.
Proof.
  intros s f f' Ok E T qf Hq. rewrite E in Hq. destruct (Ok _ Hq) as (A & B). split.
  - intros. apply T. auto.
  - intros t Ht. destruct (B t Ht); auto.
Qed.

Lemma blocked_R1 : forall s x, qb s x q_flush = true -> frame_blocked s (new_frame x).
Proof. intros. split; simpl; intros; auto; congruence. Qed.

Lemma FFInv_step : forall c s l s', WF s -> GInv s -> PTInv s -> KTInv s -> BInv s ->
  (forall r q, getq s r = Some q -> LInv q) -> NG s -> CHInv s ->
  FFInv s -> Step c s l s' -> FFInv s'.
Proof.
  intros c s l s' W G P K B L N C FF H h' Hi. assert (H' := H).
  assert (Old := fun h Hh => ffo_old c s l s' h W G P L H' Hh (FF h Hh)).
  destruct H; split_in Hi.
  all: try solve [apply Old; assumption].
  all: try solve [match goal with Hn : nth_error (F _) _ = Some ?f |- _ =>
         apply (ffo_transfer _ f); [apply Old; eapply nth_error_In; eauto | reflexivity |] end;
         unfold frame_blocked, fr_set; simpl; intros (X1 & X2); split; intros; try congruence;
         apply X2; congruence].
  - (* start of a cancelled request *)
    assert (Bl : frame_blocked (addf (setq s r (with_pc q WDone)) (new_frame r)) (new_frame r)).
    { apply blocked_R1. rewrite qb_addf, (qb_setq_same _ _ _ q) by auto. simpl. auto. }
    intros qf Hq. split; auto.
  - (* reject *)
    intros qf Hq. rewrite getq_addf, (getq_setq_same _ _ _ _ H) in Hq. inversion Hq; subst. split.
    + simpl. tauto.
    + simpl. intros t Ht. exfalso. destruct (P _ _ H) as (A & _). apply A; [congruence|]. rewrite H0. exact I.
  - (* answer *)
    intros qf Hq. rewrite getq_addf, (getq_setq_same _ _ _ _ H) in Hq. inversion Hq; subst. split.
    + simpl. intros. congruence.
    + simpl. intros t Ht. exfalso. destruct (K _ _ H) as (old & E); [congruence|].
      destruct (L _ _ H) as (_ & X & _). rewrite (X H0) in E. discriminate.
  - (* flush of nothing *)
    intros qf Hq. rewrite getq_addf, (getq_setq_same _ _ _ _ H) in Hq. inversion Hq; subst. split.
    + simpl. tauto.
    + simpl. intros t Ht. exfalso. destruct (P _ _ H) as (A & _). apply A; [congruence|]. rewrite H0. exact I.
  - (* flush responds for an unstarted target *)
    assert (Bl : frame_blocked (addf (setq s r (with_pc q WTail)) (new_frame t)) (new_frame t)).
    { apply blocked_R1. eapply qb_mono; eauto. destruct (b_rq s B _ _ H) as (_ & _ & _ & X). auto. }
    intros qf Hq. split; auto.
  - (* the implementation flushes *)
    assert (Bl : frame_blocked (addf (setq s t (with_flush qt true)) (new_frame t)) (new_frame t)).
    { apply blocked_R1. rewrite qb_addf, (qb_setq_same _ _ _ qt) by auto. reflexivity. }
    intros qf Hq. split; auto.
  - (* version *)
    intros qf Hq. rewrite getq_addf, (getq_setq_same _ _ _ _ H2) in Hq. inversion Hq; subst. split.
    + simpl. tauto.
    + simpl. intros t Ht. exfalso. gq H2; dedupe; simpl in Ht;
        (destruct (P _ _ H) as (A & _); apply A; [congruence|]; rewrite H0; exact I).
  - (* R1 lost *)
    apply (ffo_transfer _ f); [apply Old; eapply nth_error_In; eauto | reflexivity |].
    intros (X1 & X2). specialize (X1 H1). rewrite qb_setf, (qb_setq_same _ _ _ q) in X1 by auto.
    simpl in X1. split; simpl; intros; congruence.
  - (* R1 won *)
    apply (ffo_transfer _ f); [apply Old; eapply nth_error_In; eauto | reflexivity |].
    intros (X1 & X2). specialize (X1 H1). rewrite qb_setf, (qb_setq_same _ _ _ q) in X1 by auto.
    simpl in X1. split; simpl; intros; congruence.
  - (* R6: a waiting flush is answered *)
    destruct (ch_cur s C f x (nth_error_In _ _ H) H2) as (A1 & A2 & A3).
    intros qf Hq. rewrite getq_addf, getq_setf in Hq. simpl in Hq.
    unfold qtarget in A1. rewrite Hq in A1. split.
    + intros Pr _. exfalso. destruct (P _ _ Hq) as (A & _). apply A; auto. congruence.
    + intros t Ht. right. assert (t = f_req f) by congruence. subst t.
      exists {| f_req := f_req f; f_pc := R7; f_sflush := f_sflush f; f_next := f_next f;
                f_cur := Some x; f_won := f_won f |}.
      repeat split; auto.
      * simpl. apply in_or_app. left. eapply nth_error_In. eapply nth_error_upd_same; eauto.
      * simpl. lia.
Qed.

Lemma reach_FFInv : forall c s, reach c s -> NG s -> FFInv s.
Proof.
  intros c. apply reach_NG_ind.
  - intros h Hi. contradiction.
  - intros s l s' H N FF Hs.
    eapply FFInv_step; eauto using reach_WF, reach_GInv, reach_PTInv, reach_KTInv, reach_BInv,
      reach_LInv, reach_CHInv, step_Step.
Qed.

(* ---------- the reply to the flushed request precedes the Rflush ---------- *)
Lemma won_past_le : forall s a n m, won_past s a n -> m <= n -> won_past s a m.
Proof. intros s a n m (f & A & B & C & D) Hm. exists f. repeat split; auto. lia. Qed.

Definition FOInv (s : st) : Prop :=
  forall f qf t, getq s f = Some qf -> q_target qf = Some t -> In f (SQ s) ->
    won_past s t 3 /\ forall i j, idx (SQ s) f = Some i -> idx (SQ s) t = Some j -> j < i.

Lemma target_back : forall c s l s' f qf' t, reach c s -> Step c s l s' ->
  getq s' f = Some qf' -> q_target qf' = Some t -> qb s f hb = true ->
  exists qf, getq s f = Some qf /\ q_target qf = Some t.
Proof.
  intros c s l s' f qf' t H St Hq' Ht Hh. pose proof (reach_WF c s H) as W.
  unfold qb in Hh. destruct (getq s f) as [qf|] eqn:Hq; [|discriminate].
  exists qf. split; auto.
  destruct (step_exact2 _ _ _ _ W St _ _ _ Hq Hq') as (_ & [Tg | (Tg1 & _ & ->)] & _); [congruence|].
  exfalso. destruct (reach_PTInv c s H _ _ Hq) as (_ & A). destruct (A Hh) as [X | X].
  - apply X. rewrite Tg1. exact I.
  - destruct (step_F1_kind _ _ _ _ St) as (q0 & old & Hq0 & E & _). assert (q0 = qf) by congruence. subst.
    destruct (reach_LInv c s H _ _ Hq) as (_ & Y & _). rewrite (Y X) in E. discriminate.
Qed.

Lemma FOInv_step : forall c s l s', reach c s -> NG s -> FOInv s -> step c s l = Some s' -> FOInv s'.
Proof.
  intros c s l s' H N FO Hs. pose proof (reach_WF c s H) as W. pose proof (step_Step _ _ _ _ Hs) as St.
  pose proof (reach_GInv c s H) as G.
  intros f qf' t Hq' Ht Hin.
  destruct (SQ_step _ _ _ _ St) as [E | (fi & h & Hn & Hpc & Hsf & E)]; rewrite E in *.
  - pose proof (SQ_hb c s H f Hin) as Hh.
    destruct (target_back _ _ _ _ _ _ _ H St Hq' Ht Hh) as (qf & Hq & Ht0).
    destruct (FO _ _ _ Hq Ht0 Hin) as (A & B). split; auto.
    eapply won_past_step; eauto; lia.
  - destruct (idx (SQ s) f) as [i0|] eqn:Ef.
    + assert (Hin0 : In f (SQ s)) by (apply idx_In; congruence).
      pose proof (SQ_hb c s H f Hin0) as Hh.
      destruct (target_back _ _ _ _ _ _ _ H St Hq' Ht Hh) as (qf & Hq & Ht0).
      destruct (FO _ _ _ Hq Ht0 Hin0) as (A & B). split.
      * eapply won_past_step; eauto; lia.
      * intros i j Hi Hj. rewrite (idx_app_l _ _ _ _ Ef) in Hi. inversion Hi; subst i0.
        destruct (idx (SQ s) t) as [j0|] eqn:Et.
        -- rewrite (idx_app_l _ _ _ _ Et) in Hj. inversion Hj; subst j0. auto.
        -- exfalso. rewrite (idx_app_r _ _ _ Et) in Hj. simpl in Hj.
           destruct (f_req h =? t) eqn:E2; [|discriminate]. apply Nat.eqb_eq in E2.
           pose proof (cnt34_zero s t 3 G A ltac:(lia)) as Z.
           assert (1 <= cnt34 s t).
           { unfold cnt34. eapply filter_some; [eapply nth_error_In; eauto|].
             unfold p34. rewrite E2, Nat.eqb_refl, Hpc. reflexivity. }
           lia.
    + assert (Ex : f_req h = f).
      { apply in_app_or in Hin. destruct Hin as [Hin | [Hin | []]]; auto.
        apply idx_In in Hin. congruence. }
      assert (Hh : qb s f hb = true).
      { destruct (b_fr s (reach_BInv c s H) h (nth_error_In _ _ Hn)) as (_ & X & _).
        rewrite <- Ex. apply X; auto. congruence. }
      destruct (target_back _ _ _ _ _ _ _ H St Hq' Ht Hh) as (qf & Hq & Ht0).
      assert (Wp : won_past s t 4).
      { pose proof (reach_FFInv c s H N h (nth_error_In _ _ Hn)) as Ok.
        rewrite <- Ex in Hq. destruct (Ok _ Hq) as (_ & B). destruct (B t Ht0) as [(_ & X) | X]; auto.
        rewrite X in Hsf; [discriminate | congruence]. }
      split.
      * apply (won_past_step c s l s' t 3 St); [lia|]. eapply won_past_le; eauto.
      * intros i j Hi Hj. rewrite (idx_app_r _ _ _ Ef) in Hi. simpl in Hi.
        rewrite Ex, Nat.eqb_refl in Hi. inversion Hi; subst i.
        destruct (idx (SQ s) t) as [j0|] eqn:Et.
        -- rewrite (idx_app_l _ _ _ _ Et) in Hj. inversion Hj; subst j0. apply idx_lt in Et. lia.
        -- exfalso. rewrite (idx_app_r _ _ _ Et) in Hj. simpl in Hj.
           destruct (f_req h =? t) eqn:E2; [|discriminate]. apply Nat.eqb_eq in E2.
           destruct Wp as (w & Hw1 & Hw2 & Hw3 & Hw4).
           assert (f_won h = true).
           { apply (g_w1 s G h (nth_error_In _ _ Hn)). rewrite Hpc. reflexivity. }
           assert (w = h) by (eapply won_unique_in; eauto using nth_error_In; congruence).
           subst w. rewrite Hpc in Hw4. simpl in Hw4. lia.
Qed.

Lemma reach_FOInv : forall c s, reach c s -> NG s -> FOInv s.
Proof.
  intros c. apply reach_NG_ind.
  - intros f qf t Hq. destruct f; discriminate.
  - intros. eapply FOInv_step; eauto.
Qed.

Lemma NoGroups_NG : forall s,
  (forall r q, getq s r = Some q -> q_after q = None /\ q_prev q = None /\ q_next q = None) -> NG s.
Proof. intros s H r q Hq. apply (H _ _ Hq). Qed.

Lemma reply_before_rflush_inv : forall c s f t qf i j,
  reach c s -> NG s ->
  getq s f = Some qf -> q_target qf = Some t ->
  wire_index s f = Some i -> wire_index s t = Some j -> j < i.
Proof.
  intros c s f t qf i j H N Hq Ht Hi Hj. rewrite wire_index_idx in Hi, Hj.
  assert (Hin : In f (SQ s)).
  { unfold SQ. apply in_or_app. left. apply idx_In. congruence. }
  destruct (reach_FOInv c s H N _ _ _ Hq Ht Hin) as (_ & B).
  apply B; unfold SQ; apply idx_app_l; auto.
Qed.
