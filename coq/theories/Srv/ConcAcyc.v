(* The lists of waiting flush requests are acyclic (also with shared tags). *)
From Coq Require Import NArith List Bool PeanoNat Lia.
From V9 Require Import Lib.GoSem Gen.Consts Srv.Conc Srv.ConcInv Srv.ConcWF Srv.ConcMono Srv.ConcCount
  Srv.ConcContent Srv.ConcLocal Srv.ConcWin Srv.ConcCalled Srv.ConcOrder Srv.ConcFlush.
Import ListNotations.

Definition qafter (s : st) (t : nat) : option nat :=
  match getq s t with Some q => q_after q | None => None end.

(* z follows x, or heads the list of t: its target is the same, or an older, finished member of the tag group *)
Definition below (s : st) (tx tz : nat) : Prop :=
  exists a, qafter s tx = Some a /\ won_past s a 4 /\ tz <= a.

Definition edge_ok (s : st) (sq : nat -> nat) (x z : nat) : Prop :=
  exists tx tz, qtarget s x = Some tx /\ qtarget s z = Some tz /\
    ((tz = tx /\ sq z < sq x) \/ below s tx tz).

Definition head_ok (s : st) (t h : nat) : Prop :=
  exists th, qtarget s h = Some th /\ (th = t \/ below s t th).

Record AInv (s : st) (sq : nat -> nat) : Prop := {
  a_edge : forall x qx z, getq s x = Some qx -> q_flushnext qx = Some z -> edge_ok s sq x z;
  a_head : forall t qt h, getq s t = Some qt -> q_flushreq qt = Some h -> head_ok s t h;
  a_cur : forall w x, In w (F s) -> f_cur w = Some x -> qtarget s x <> None }.

(* which steps touch the links *)
Definition relinks (l : label) (s : st) : Prop :=
  (exists r q old t, l = LF1 r /\ getq s r = Some q /\ q_kind q = KFlush old /\ alookup (reqs s) old = Some t) \/
  (exists fi f q nx, l = LR fi /\ nth_error (F s) fi = Some f /\ f_pc f = R2 /\
                     getq s (f_req f) = Some q /\ q_prev q = Some nx).

Lemma links_exact : forall c s l s', WF s -> Step c s l s' -> ~ relinks l s ->
  forall x q', getq s' x = Some q' ->
    (q_flushnext q' = None /\ q_flushreq q' = None /\ getq s x = None) \/
    (exists q, getq s x = Some q /\ q_flushnext q' = q_flushnext q /\ q_flushreq q' = q_flushreq q).
Proof.
  intros c s l s' W H NR x q' Hg. unfold relinks in NR.
  step_rq H Hg W.
  all: try solve [right; eexists; split; [eassumption | split; reflexivity]].
  all: try solve [exfalso; apply NR; left; eauto 10].
  all: try solve [exfalso; apply NR; right; eauto 10].
  left. simpl. repeat split; auto. apply nth_error_None. lia.
Qed.

Lemma qafter_mono : forall c s l s' t a, WF s -> Step c s l s' -> qafter s t = Some a -> qafter s' t = Some a.
Proof.
  intros c s l s' t a W H. unfold qafter. destruct (getq s t) eqn:Hq; [|discriminate]. intro X.
  destruct (after_step _ _ _ _ _ _ _ W H Hq X) as (q' & -> & E). auto.
Qed.

Section Mono.
  Variables (c : cfg) (s : st) (l : label) (s' : st).
  Hypothesis (W : WF s) (P : PTInv s) (H : Step c s l s').

  Lemma below_mono : forall tx tz, below s tx tz -> below s' tx tz.
  Proof.
    intros tx tz (a & A & B & C). exists a. repeat split; auto.
    - eapply qafter_mono; eauto.
    - eapply won_past_step; eauto; lia.
  Qed.

  Lemma edge_ok_mono : forall sq x z, edge_ok s sq x z -> edge_ok s' sq x z.
  Proof.
    intros sq x z (tx & tz & A & B & C). exists tx, tz. repeat split.
    - eapply qtarget_mono; eauto.
    - eapply qtarget_mono; eauto.
    - destruct C as [C | C]; auto. right. apply below_mono. auto.
  Qed.

  Lemma head_ok_mono : forall t h, head_ok s t h -> head_ok s' t h.
  Proof.
    intros t h (th & A & B). exists th. split.
    - eapply qtarget_mono; eauto.
    - destruct B as [B | B]; auto. right. apply below_mono. auto.
  Qed.

  Lemma qtarget_some_mono : forall x, qtarget s x <> None -> qtarget s' x <> None.
  Proof.
    intros x X. destruct (qtarget s x) eqn:E; [|congruence].
    rewrite (qtarget_mono c s l s' x n W P H E). discriminate.
  Qed.
End Mono.

Lemma head_target : forall s t h, head_ok s t h -> qtarget s h <> None.
Proof. intros s t h (th & A & _). congruence. Qed.

Lemma edge_target : forall s sq x z, edge_ok s sq x z -> qtarget s z <> None.
Proof. intros s sq x z (tx & tz & _ & A & _). congruence. Qed.

Lemma AInv_cur_step : forall c s l s' sq, WF s -> PTInv s -> AInv s sq -> Step c s l s' ->
  forall w x, In w (F s') -> f_cur w = Some x -> qtarget s' x <> None.
Proof.
  intros c s l s' sq W P A H w' x' Hi Hc. assert (H' := H).
  assert (M := qtarget_some_mono c s l s' W P H').
  destruct H; split_in Hi.
  all: try solve [apply M; eapply (a_cur s sq A); eauto].
  all: try discriminate Hc.
  all: try solve [apply M; match goal with Hn : nth_error (F _) _ = Some ?f |- _ =>
         apply (a_cur s sq A f x' (nth_error_In _ _ Hn)) end; exact Hc].
  - simpl in Hc. apply M. eapply head_target. eapply (a_head s sq A); eauto.
  - simpl in Hc. inversion Hc; subst. apply M. eapply (a_cur s sq A); eauto. eapply nth_error_In; eauto.
  - simpl in Hc. apply M. eapply edge_target. eapply (a_edge s sq A); eauto.
Qed.

Lemma AInv_step_simple : forall c s l s' sq, WF s -> PTInv s -> AInv s sq -> Step c s l s' ->
  ~ relinks l s -> AInv s' sq.
Proof.
  intros c s l s' sq W P A H NR. constructor.
  - intros x qx' z Hq Hz.
    destruct (links_exact _ _ _ _ W H NR _ _ Hq) as [(E & _) | (qx & Hq0 & E1 & E2)]; [congruence|].
    eapply edge_ok_mono; eauto. eapply (a_edge s sq A); eauto. congruence.
  - intros t qt' h Hq Hh.
    destruct (links_exact _ _ _ _ W H NR _ _ Hq) as [(_ & E & _) | (qt & Hq0 & E1 & E2)]; [congruence|].
    eapply head_ok_mono; eauto. eapply (a_head s sq A); eauto. congruence.
  - eapply AInv_cur_step; eauto.
Qed.

(* generic preservation: old links keep their justification, new links are justified directly *)
Lemma AInv_update : forall c s l s' sq sq', WF s -> PTInv s -> AInv s sq -> Step c s l s' ->
  (forall y, qtarget s y <> None -> sq' y = sq y) ->
  (forall x qx' z, getq s' x = Some qx' -> q_flushnext qx' = Some z ->
     (exists qx, getq s x = Some qx /\ q_flushnext qx = Some z) \/ edge_ok s' sq' x z) ->
  (forall t qt' h, getq s' t = Some qt' -> q_flushreq qt' = Some h ->
     (exists qt, getq s t = Some qt /\ q_flushreq qt = Some h) \/ head_ok s' t h) ->
  AInv s' sq'.
Proof.
  intros c s l s' sq sq' W P A H Sq E Hd. constructor.
  - intros x qx' z Hq Hz. destruct (E _ _ _ Hq Hz) as [(qx & Hq0 & Hz0) | X]; auto.
    pose proof (a_edge s sq A _ _ _ Hq0 Hz0) as Ok.
    destruct (edge_ok_mono c s l s' W P H sq x z Ok) as (tx & tz & A1 & A2 & A3).
    destruct Ok as (tx0 & tz0 & B1 & B2 & _).
    exists tx, tz. repeat split; auto.
    rewrite (Sq x), (Sq z) by congruence. auto.
  - intros t qt' h Hq Hh. destruct (Hd _ _ _ Hq Hh) as [(qt & Hq0 & Hh0) | X]; auto.
    eapply head_ok_mono; eauto. eapply (a_head s sq A); eauto.
  - eapply AInv_cur_step; eauto.
Qed.

Lemma AInv_step_F1 : forall c s r q old t qt s' sq, WF s -> PTInv s -> AInv s sq ->
  Step c s (LF1 r) s' ->
  getq s r = Some q -> q_pc q = WProc -> q_kind q = KFlush old -> alookup (reqs s) old = Some t ->
  getq s t = Some qt ->
  s' = setq (setq s r (f1_q q qt t)) t
         (with_links (if r =? t then f1_q q qt t else qt) (Some r)
                     (q_prev (if r =? t then f1_q q qt t else qt)) (q_next (if r =? t then f1_q q qt t else qt))) ->
  exists sq', AInv s' sq'.
Proof.
  intros c s r q old t qt s' sq W P A H Hq Hpc Hk Hal Hqt Es.
  set (sq' := fun y => if y =? r then S (match q_flushreq qt with Some h => sq h | None => 0 end) else sq y).
  exists sq'.
  assert (Tr : qtarget s r = None).
  { unfold qtarget. rewrite Hq. destruct (q_target q) eqn:E; auto. exfalso.
    destruct (P _ _ Hq) as (X & _). apply X; [congruence|]. rewrite Hpc. exact I. }
  assert (Tr' : qtarget s' r = Some t).
  { subst s'. destruct (r =? t) eqn:E.
    - apply Nat.eqb_eq in E. subst t.
      rewrite (qtarget_setq _ _ _ (f1_q q qt r)) by (eapply getq_setq_same; eauto).
      rewrite Nat.eqb_refl. reflexivity.
    - rewrite (qtarget_setq _ _ _ qt) by (rewrite getq_setq_other; auto; apply Nat.eqb_neq; auto).
      rewrite (Nat.eqb_sym t r), E. rewrite (qtarget_setq _ _ _ q) by auto.
      rewrite Nat.eqb_refl. reflexivity. }
  assert (NewEdge : forall z, q_flushreq qt = Some z -> edge_ok s' sq' r z).
  { intros z Hz. destruct (a_head s sq A _ _ _ Hqt Hz) as (th & B1 & B2).
    assert (z <> r) by (intro; subst; congruence).
    exists t, th. repeat split; auto.
    - eapply qtarget_mono; eauto.
    - destruct B2 as [B2 | B2].
      + left. split; auto. unfold sq'. rewrite Nat.eqb_refl, Hz.
        apply Nat.eqb_neq in H0. rewrite H0. lia.
      + right. eapply below_mono; eauto. }
  eapply AInv_update; eauto.
  - intros y Hy. unfold sq'. destruct (y =? r) eqn:E; auto. apply Nat.eqb_eq in E. subst. congruence.
  - intros x qx' z Hg Hz. subst s'.
    apply getq_setq_inv in Hg. destruct Hg as [(E1 & E2 & _) | (E1 & Hg)].
    + subst x qx'. simpl in Hz. destruct (r =? t) eqn:E.
      * apply Nat.eqb_eq in E. subst t. right. simpl in Hz. apply NewEdge.
        assert (q = qt) by congruence. subst. auto.
      * left. eauto.
    + apply getq_setq_inv in Hg. destruct Hg as [(E3 & E4 & _) | (E3 & Hg)].
      * subst x qx'. right. simpl in Hz. apply NewEdge. auto.
      * left. eauto.
  - intros t' qt' h Hg Hh. subst s'.
    apply getq_setq_inv in Hg. destruct Hg as [(E1 & E2 & _) | (E1 & Hg)].
    + subst t' qt'. simpl in Hh. inversion Hh; subst h. right. exists t. split; auto.
    + apply getq_setq_inv in Hg. destruct Hg as [(E3 & E4 & _) | (E3 & Hg)].
      * subst t' qt'. left. simpl in Hh. eauto.
      * left. eauto.
Qed.

(* ---------- R2 with a newer request of the same tag ---------- *)
Lemma qafter_lt : forall c s t a, reach c s -> qafter s t = Some a -> a < t.
Proof.
  intros c s t a H. unfold qafter. destruct (getq s t) eqn:E; [|discriminate]. intro X.
  destruct (reach_HInv c s H _ _ E) as (_ & Y). auto.
Qed.

Lemma below_le : forall c s tx tz, reach c s -> below s tx tz -> tz < tx.
Proof.
  intros c s tx tz H (a & A & _ & B). pose proof (qafter_lt c s tx a H A). lia.
Qed.

(* the list of a request whose predecessor has not unlinked yet is its own *)
Lemma chain_last_pure : forall s sq nx, AInv s sq -> (forall tz, ~ below s nx tz) ->
  forall fuel h, qtarget s h = Some nx -> qtarget s (chain_last fuel (R s) h) = Some nx.
Proof.
  intros s sq nx A NB. induction fuel; simpl; intros h Hh; auto.
  destruct (nth_error (R s) h) as [q|] eqn:E; auto.
  destruct (q_flushnext q) as [j|] eqn:E2; auto.
  apply IHfuel. destruct (a_edge s sq A h q j E E2) as (tx & tz & B1 & B2 & B3).
  assert (tx = nx) by congruence. subst tx.
  destruct B3 as [(B3 & _) | B3]; [congruence|]. exfalso. eapply NB; eauto.
Qed.

Lemma AInv_step_R2link : forall c s fi f q nx qn s' sq, reach c s -> AInv s sq ->
  Step c s (LR fi) s' ->
  nth_error (F s) fi = Some f -> getq s (f_req f) = Some q -> f_pc f = R2 ->
  q_prev q = Some nx -> getq s nx = Some qn ->
  s' = setf (r2_link s q qn nx) fi (mkFrame (f_req f) R5 (f_sflush f) (Some nx) None (f_won f)) ->
  AInv s' sq.
Proof.
  intros c s fi f q nx qn s' sq Rc A H Hn Hq Hpc Hp Hqn Es.
  pose proof (reach_WF c s Rc) as W. pose proof (reach_PTInv c s Rc) as P. pose proof (reach_GInv c s Rc) as G.
  assert (Hw : f_won f = true).
  { apply (g_w1 s G f (nth_error_In _ _ Hn)). rewrite Hpc. reflexivity. }
  (* the older request is still linked, and it precedes nx *)
  assert (Aft : qafter s nx = Some (f_req f)).
  { destruct (g_prev s G _ _ _ Hq Hp) as (qb0 & X & Y). unfold qafter. rewrite X. auto. }
  assert (Live : ~ won_past s (f_req f) 4).
  { intros (w & Hw1 & Hw2 & Hw3 & Hw4).
    assert (w = f) by (eapply won_unique_in; eauto using nth_error_In). subst. rewrite Hpc in Hw4. simpl in Hw4. lia. }
  assert (NB : forall tz, ~ below s nx tz).
  { intros tz (a & B1 & B2 & _). assert (a = f_req f) by congruence. subst. auto. }
  assert (Dead' : won_past s' (f_req f) 4).
  { subst s'. exists (mkFrame (f_req f) R5 (f_sflush f) (Some nx) None (f_won f)). repeat split; auto.
    simpl. rewrite F_r2_link. eapply nth_error_In. eapply nth_error_upd_same; eauto. }
  (* whatever heads the list of the older request may follow the list of nx *)
  assert (NewB : forall fr, q_flushreq q = Some fr -> exists th, qtarget s' fr = Some th /\ below s' nx th).
  { intros fr Hfr. destruct (a_head s sq A _ _ _ Hq Hfr) as (th & B1 & B2).
    exists th. split; [eapply qtarget_mono; eauto|].
    exists (f_req f). repeat split; auto.
    - eapply qafter_mono; eauto.
    - destruct B2 as [B2 | B2]; [lia|]. pose proof (below_le c s _ _ Rc B2). lia. }
  eapply AInv_update; eauto.
  - (* edges *)
    intros x qx' z Hg Hz. subst s'. rewrite getq_setf in Hg.
    unfold r2_link in Hg. destruct (q_flushreq q) as [fr|] eqn:Efr.
    + destruct (q_flushreq qn) as [h|] eqn:Eh.
      * cbv zeta in Hg.
        set (p := chain_last (length (R s)) (R s) h) in *.
        destruct (getq (setq s nx (with_links qn (Some h) (q_prev qn) None)) p) as [qp|] eqn:Ep.
        -- apply getq_setq_inv in Hg. destruct Hg as [(E1 & E2 & _) | (E1 & Hg)].
           ++ subst x qx'. simpl in Hz. inversion Hz; subst z. right.
              destruct (NewB fr eq_refl) as (th & T1 & T2).
              exists nx, th. repeat split; auto.
              eapply qtarget_mono; eauto.
              apply (chain_last_pure s sq nx A NB).
              destruct (a_head s sq A _ _ _ Hqn Eh) as (th0 & C1 & [C2 | C2]); [congruence|].
              exfalso. eapply NB; eauto.
           ++ apply getq_setq_inv in Hg. destruct Hg as [(E3 & E4 & _) | (E3 & Hg)].
              ** subst x qx'. left. simpl in Hz. eauto.
              ** left. eauto.
        -- apply getq_setq_inv in Hg. destruct Hg as [(E3 & E4 & _) | (E3 & Hg)].
           ** subst x qx'. left. simpl in Hz. eauto.
           ** left. eauto.
      * apply getq_setq_inv in Hg. destruct Hg as [(E1 & E2 & _) | (E1 & Hg)].
        -- subst x qx'. left. simpl in Hz. eauto.
        -- apply getq_setq_inv in Hg. destruct Hg as [(E3 & E4 & _) | (E3 & Hg)].
           ++ subst x qx'. left. simpl in Hz. eauto.
           ++ left. eauto.
    + apply getq_setq_inv in Hg. destruct Hg as [(E3 & E4 & _) | (E3 & Hg)].
      * subst x qx'. left. simpl in Hz. eauto.
      * left. eauto.
  - (* heads *)
    intros t qt' h0 Hg Hh. subst s'. rewrite getq_setf in Hg.
    unfold r2_link in Hg. destruct (q_flushreq q) as [fr|] eqn:Efr.
    + destruct (q_flushreq qn) as [h|] eqn:Eh.
      * cbv zeta in Hg.
        set (p := chain_last (length (R s)) (R s) h) in *.
        destruct (getq (setq s nx (with_links qn (Some h) (q_prev qn) None)) p) as [qp|] eqn:Ep.
        -- apply getq_setq_inv in Hg. destruct Hg as [(E1 & E2 & _) | (E1 & Hg)].
           ++ subst t qt'. simpl in Hh.
              apply getq_setq_inv in Ep. destruct Ep as [(E3 & E4 & _) | (E3 & Ep)].
              ** subst qp. simpl in Hh. left. exists qn. split; congruence.
              ** left. eauto.
           ++ apply getq_setq_inv in Hg. destruct Hg as [(E3 & E4 & _) | (E3 & Hg)].
              ** subst t qt'. left. simpl in Hh. exists qn. split; congruence.
              ** left. eauto.
        -- apply getq_setq_inv in Hg. destruct Hg as [(E3 & E4 & _) | (E3 & Hg)].
           ** subst t qt'. left. simpl in Hh. exists qn. split; congruence.
           ** left. eauto.
      * apply getq_setq_inv in Hg. destruct Hg as [(E1 & E2 & _) | (E1 & Hg)].
        -- subst t qt'. simpl in Hh. inversion Hh; subst h0. right.
           destruct (NewB fr eq_refl) as (th & T1 & T2). exists th. auto.
        -- apply getq_setq_inv in Hg. destruct Hg as [(E3 & E4 & _) | (E3 & Hg)].
           ++ subst t qt'. simpl in Hh. congruence.
           ++ left. eauto.
    + apply getq_setq_inv in Hg. destruct Hg as [(E3 & E4 & _) | (E3 & Hg)].
      * subst t qt'. left. simpl in Hh. exists qn. split; congruence.
      * left. eauto.
Qed.

Lemma AInv_step : forall c s l s' sq, reach c s -> AInv s sq -> step c s l = Some s' -> exists sq', AInv s' sq'.
Proof.
  intros c s l s' sq Rc A Hs. pose proof (step_Step _ _ _ _ Hs) as H. assert (H' := H).
  pose proof (reach_WF c s Rc) as W. pose proof (reach_PTInv c s Rc) as P.
  destruct H.
  all: try solve [exists sq; apply (AInv_step_simple c s _ _ sq W P A H');
    intros [(r1 & q1 & old1 & t1 & E1 & E2 & E3 & E4) | (fi1 & f1 & q1 & nx1 & E1 & E2 & E3 & E4 & E5)];
    try discriminate E1; inversion E1; subst; congruence].
  - eapply AInv_step_F1; eauto. subst qt1. reflexivity.
  - exists sq. eapply AInv_step_R2link; eauto.
Qed.

Lemma reach_AInv : forall c s, reach c s -> exists sq, AInv s sq.
Proof.
  induction 1.
  - exists (fun _ => 0). constructor; simpl; intros; try contradiction; destruct x || destruct t; discriminate.
  - destruct IHreach as (sq & A). eapply AInv_step; eauto.
Qed.
