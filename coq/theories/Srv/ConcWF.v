(* Well-formedness of reachable states. *)
From Coq Require Import NArith List Bool PeanoNat Lia.
From V9 Require Import Lib.GoSem Gen.Consts Srv.Conc Srv.ConcInv.
Import ListNotations.

Lemma WF_init : WF init.
Proof.
  constructor; simpl; intros; try contradiction.
  - destruct r; discriminate.
  - split; discriminate.
Qed.

Ltac use_WR WR :=
  repeat match goal with
         | H : getq ?s ?r = Some ?q |- _ =>
           lazymatch goal with
           | _ : rq_wf _ q |- _ => fail
           | _ => pose proof (WR _ _ H) end
         end.

Ltac use_lt :=
  repeat match goal with
         | H : getq ?s ?r = Some ?q |- _ =>
           lazymatch goal with
           | _ : r < length (R s) |- _ => fail
           | _ => pose proof (getq_lt _ _ _ H) end
         end.

Ltac inv_some :=
  repeat match goal with H : Some _ = Some _ |- _ => inversion H; subst; clear H end.

Ltac wf_rq := unfold rq_wf, f1_q, tail_q, lnk in *; simpl in *;
  intuition (try discriminate; inv_some;
             try match goal with H : pc_target (f1_pc _ _) = Some _ |- _ => apply f1_pc_target in H; subst end;
             eauto; try lia).

Ltac fr_in WFr :=
  let Hi := fresh "Hi" in
  intros ? Hi;
  repeat first
    [ apply in_app_or in Hi; destruct Hi as [Hi | [Hi | []]]; [| subst; unfold fr_wf; simpl]
    | apply In_upd in Hi; destruct Hi as [Hi | Hi]; [subst; unfold fr_wf; simpl |] ];
  try (apply WFr; assumption).

Lemma chain_last_lt : forall fuel rs i n,
  (forall j q x, nth_error rs j = Some q -> q_flushnext q = Some x -> x < n) ->
  i < n -> chain_last fuel rs i < n.
Proof.
  induction fuel; simpl; intros; auto.
  destruct (nth_error rs i) eqn:E; auto.
  destruct (q_flushnext r) eqn:E2; auto.
  apply IHfuel; eauto.
Qed.

Lemma WF_step : forall c s l s', WF s -> step c s l = Some s' -> WF s'.
Proof.
  intros c s l s' W H. apply step_Step in H. destruct W as [WR Wreqs Wout WFr Wcl].
  destruct H.
  all: constructor.
  all: try match goal with |- context [spawn_next ?s ?o] =>
         destruct (spawn_next_other s o) as (e1 & e2 & e3 & e4 & e5 & e6 & e7 & e8) end.
  all: try match goal with Hn : getq ?s ?nx = Some ?qn |- context [r2_link ?s ?q ?qn ?nx] =>
         destruct (r2_link_other s q qn nx) as (e1 & e2 & e3 & e4 & e5 & e6 & e7 & e8) end.
  all: simpl; rewrite ?length_upd, ?mark_flushed_length, ?arrive_R_length; auto.
  all: try rewrite ?e1, ?e2, ?e3, ?e4, ?e5, ?e6, ?e7, ?e8; auto.
  all: try match goal with H : ?q' = (if _ =? _ then _ else _) |- _ => subst q' end.
  all: try match goal with |- forall f, In f _ -> fr_wf _ f => fr_in WFr end.
  all: try match goal with H : nth_error (F _) _ = Some ?f |- _ =>
         let W := fresh "Wf" in pose proof (WFr _ (nth_error_In _ _ H)) as W; destruct W as (? & ? & ?) end.
  all: try solve [repeat split; simpl; try (intros; discriminate); try congruence; eauto using getq_lt].
  all: try solve [match goal with |- forall r q, getq _ r = Some q -> rq_wf _ q => let Hg := fresh "Hg" in intros ? ? Hg; gq Hg; use_WR WR; wf_rq end].
  - (* arrive: requests *)
    intros r q Hg. rewrite getq_mk in Hg. apply getq_arrive_inv in Hg;
      [| intros o Ho; eapply Wreqs, alookup_In; eauto].
    destruct Hg as [(-> & ->) | (q0 & Hq & [-> | (Ho & ->)])].
    + unfold rq_wf, fresh_rq; simpl; repeat split; intros x Hx; try discriminate;
        try (apply alookup_In, Wreqs in Hx; lia).
      destruct (alookup (reqs s) tag); discriminate.
    + eapply rq_wf_mono; [|eapply WR; eauto]; lia.
    + assert (W0 : rq_wf (S (length (R s))) q0) by (eapply rq_wf_mono; [|eapply WR; eauto]; lia).
      wf_rq.
  - intros k0 v [Hi|Hi]; [inversion Hi; lia | apply aremove_In, Wreqs in Hi; lia].
  - intros r Hi; apply Wout in Hi; lia.
  - apply WFr in Hi; destruct Hi as (A & B & C); split; [lia | split; [intros x Hx; apply B in Hx; lia | auto]].
  - split; intro X; [apply Wcl in X; congruence | unfold arrive_rv in X; destruct k; try discriminate; destruct (alookup (reqs s) tag); discriminate].
  - (* F1 *)
    intros r0 q0 Hg. destruct (r =? t) eqn:E; gq Hg; use_WR WR; use_lt; wf_rq.
  - intros r0 q0 Hg. gq Hg; use_WR WR; use_lt; wf_rq.
  - intros r0 q0 Hg. destruct (t =? r) eqn:E; gq Hg; use_WR WR; use_lt; wf_rq.
  - pose proof (WR _ _ H) as W0. unfold rq_wf in W0. rewrite H0 in W0. simpl in W0.
    repeat split; try discriminate. destruct W0 as (_ & _ & _ & _ & _ & W0 & _). apply W0. reflexivity.
  - intros r0 q0 Hg. destruct (t =? r) eqn:E; gq Hg; use_WR WR; use_lt; wf_rq.
  - intros r0 q0 Hg. gq Hg; gq H2; use_WR WR; use_lt; wf_rq.
  - unfold tail_rv. rewrite Wcl. destruct (recvr s); try (split; intro; congruence).
    destruct (r0 =? r); split; intro; congruence.
  - intros r0 q0 Hg. gq Hg. use_WR WR; use_lt. unfold lnk_ok in *. wf_rq; subst; try discriminate; eauto.
  - intros k v Hi. apply aremove_In in Hi. eauto.
  - repeat split; auto; try discriminate. pose proof (WR _ _ H0). wf_rq.
  - intros r Hi. apply in_app_or in Hi. destruct Hi as [Hi|[Hi|[]]]; auto. subst. auto.
  - repeat split; auto; try discriminate. intros. inv_some. match goal with H : forall x, f_cur _ = Some x -> _ |- _ => apply H; auto end.
  - repeat split; auto; try discriminate. match goal with H : getq _ x = Some qx |- _ => pose proof (WR _ _ H) end. wf_rq.
  - intros r0 Hi. apply Wout. rewrite H0. right. auto.
Qed.

Lemma reach_WF : forall c s, reach c s -> WF s.
Proof. induction 1; [apply WF_init | eapply WF_step; eauto]. Qed.

(* ---------- all the ways a request of the successor state can look ---------- *)
Ltac dedupe :=
  repeat match goal with H1 : getq ?s ?a = Some ?x, H2 : getq ?s ?a = Some ?y |- _ =>
     assert (x = y) by congruence; subst y; clear H2 end.

(* H : Step c s l s', Hg : getq s' r = Some q', W : WF s *)
Ltac step_rq H Hg W :=
  destruct H;
  try match goal with H : ?q' = (if _ =? _ then _ else _) |- _ => subst q' end;
  try match type of Hg with context [if ?a =? ?b then _ else _] => destruct (a =? b) eqn:?E end;
  try match goal with H : (_ =? _) = true |- _ => apply Nat.eqb_eq in H; subst end;
  try match goal with H2 : getq (vmark _ _) _ = Some _ |- _ => gq H2 end;
  lazymatch type of Hg with
  | getq (mkSt _ (arrive_R _ _ _ _) _ _ _ _ _ _) _ = Some _ =>
      let q1 := fresh "q1" in let Hq := fresh "Hq" in let Ho := fresh "Ho" in
      rewrite getq_mk in Hg; apply getq_arrive_inv in Hg;
      [| let o := fresh "o" in let Ho := fresh "Ho" in
         intros o Ho; eapply (wf_reqs _ W), alookup_In; eauto];
      destruct Hg as [(-> & ->) | (q1 & Hq & [-> | (Ho & ->)])]
  | _ => gq Hg
  end;
  dedupe.
