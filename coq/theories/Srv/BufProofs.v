(* The bytes the transport is given for a request were packed for that request. *)
From Coq Require Import List Bool PeanoNat Lia.
From V9 Require Import Srv.Buf.
Import ListNotations.

(* ---------- lists ---------- *)

Lemma upd_length : forall l i b, length (upd l i b) = length l.
Proof.
  induction l as [|x l IH]; intros i b; [reflexivity|].
  destruct i as [|j]; cbn [upd length]; [reflexivity|]. now rewrite IH.
Qed.

Lemma nth_error_upd_same : forall l i b x,
  nth_error l i = Some x -> nth_error (upd l i b) i = Some b.
Proof.
  induction l as [|y l IH]; intros i b x H.
  - destruct i; discriminate H.
  - destruct i as [|j]; cbn [upd nth_error] in *; [reflexivity|]. eapply IH; exact H.
Qed.

Lemma nth_error_upd_other : forall l i j b,
  i <> j -> nth_error (upd l i b) j = nth_error l j.
Proof.
  induction l as [|y l IH]; intros i j b Hne; [reflexivity|].
  destruct i as [|i]; destruct j as [|j]; cbn [upd nth_error]; try reflexivity.
  - lia.
  - apply IH. lia.
Qed.

Lemma nth_error_upd_inv : forall l i j b x,
  nth_error (upd l i b) j = Some x ->
  (j = i /\ x = b) \/ (j <> i /\ nth_error l j = Some x).
Proof.
  intros l i j b x H. destruct (Nat.eq_dec j i) as [He|Hne].
  - left. split; [exact He|]. subst j.
    destruct (nth_error l i) as [y|] eqn:Hy.
    + rewrite (nth_error_upd_same l i b y Hy) in H. now inversion H.
    + exfalso. apply nth_error_None in Hy.
      assert (Hs : nth_error (upd l i b) i <> None) by (rewrite H; discriminate).
      apply nth_error_Some in Hs. rewrite upd_length in Hs. lia.
  - right. split; [exact Hne|]. rewrite nth_error_upd_other in H by lia. exact H.
Qed.

Lemma nth_error_snoc_inv : forall (l : list buf) a j x,
  nth_error (l ++ [a]) j = Some x ->
  (j = length l /\ x = a) \/ (j < length l /\ nth_error l j = Some x).
Proof.
  intros l a j x H. destruct (Nat.lt_ge_cases j (length l)) as [Hlt|Hge].
  - right. split; [exact Hlt|]. rewrite nth_error_app1 in H by exact Hlt. exact H.
  - left. rewrite nth_error_app2 in H by exact Hge.
    destruct (j - length l) as [|k] eqn:Hk.
    + cbn [nth_error] in H. inversion H. split; [lia|reflexivity].
    + cbn [nth_error] in H. destruct k; discriminate H.
Qed.

Lemma nth_error_snoc_last : forall (l : list buf) a, nth_error (l ++ [a]) (length l) = Some a.
Proof.
  intros l a. rewrite nth_error_app2 by lia. now rewrite Nat.sub_diag.
Qed.

Lemma nth_error_snoc_old : forall (l : list buf) a j x,
  nth_error l j = Some x -> nth_error (l ++ [a]) j = Some x.
Proof.
  intros l a j x H. rewrite nth_error_app1; [exact H|].
  apply nth_error_Some. rewrite H. discriminate.
Qed.

Lemma mem_cons_false : forall x y l, mem x (y :: l) = false -> x <> y /\ mem x l = false.
Proof.
  intros x y l H. unfold mem in *. cbn [existsb] in H.
  apply orb_false_iff in H. destruct H as [H1 H2]. apply Nat.eqb_neq in H1. now split.
Qed.

Lemma mem_cons_same : forall x l, mem x (x :: l) = true.
Proof. intros x l. unfold mem. cbn [existsb]. now rewrite Nat.eqb_refl. Qed.

Lemma mem_cons_mono : forall x y l, mem x l = true -> mem x (y :: l) = true.
Proof. intros x y l H. unfold mem in *. cbn [existsb]. rewrite H. apply orb_true_r. Qed.

Lemma alook_cons_eq : forall m k v, alook ((k, v) :: m) k = Some v.
Proof. intros m k v. cbn [alook]. now rewrite Nat.eqb_refl. Qed.

Lemma alook_cons_neq : forall m k k' v, k <> k' -> alook ((k, v) :: m) k' = alook m k'.
Proof.
  intros m k k' v H. cbn [alook]. apply Nat.eqb_neq in H. now rewrite H.
Qed.

Lemma buf_of_some : forall s r i b,
  buf_of s r = Some (i, b) -> alook (rc s) r = Some i /\ nth_error (bufs s) i = Some b.
Proof.
  intros s r i b H. unfold buf_of in H.
  destruct (alook (rc s) r) as [j|]; [|discriminate H].
  destruct (nth_error (bufs s) j) as [x|] eqn:Hx; [|discriminate H].
  inversion H. subst. now split.
Qed.

(* ---------- the invariant of the fixed configuration ---------- *)

Definition used (b : buf) (r : nat) : Prop :=
  b_state b = BHeld r \/ b_state b = BQueued r \/ b_state b = BSending r.

Record Inv (s : st) : Prop := mkInv {
  inv_excl : forall i b r, nth_error (bufs s) i = Some b -> used b r ->
     alook (rc s) r = Some i /\ (b_content b = None \/ exists v, b_content b = Some (r, v));
  inv_held : forall r i, alook (rc s) r = Some i -> mem r (responded s) = false ->
     exists b, nth_error (bufs s) i = Some b /\ b_state b = BHeld r;
  inv_sent : forall i b r, nth_error (bufs s) i = Some b ->
     (b_state b = BQueued r \/ b_state b = BSending r) ->
     mem r (responded s) = true /\ exists v, b_content b = Some (r, v);
  inv_pool : forall i, In i (pool s) -> exists b, nth_error (bufs s) i = Some b /\ b_state b = BFree;
  inv_nodup : NoDup (pool s);
  inv_wire : forall r c, In (r, c) (wire s) -> exists v, c = Some (r, v) }.

Lemma inv_init : Inv init.
Proof.
  constructor; cbn [init bufs pool rc responded wire].
  - intros i b r H. destruct i; discriminate H.
  - intros r i H. discriminate H.
  - intros i b r H. destruct i; discriminate H.
  - intros i [].
  - constructor.
  - intros r c [].
Qed.

Lemma used_held_eq : forall b r r', b_state b = BHeld r -> used b r' -> r' = r.
Proof.
  intros b r r' Hs [H|[H|H]]; rewrite Hs in H; inversion H; reflexivity.
Qed.

Lemma inv_take_pool : forall s r i rest,
  Inv s -> alook (rc s) r = None -> pool s = i :: rest ->
  Inv (mkSt (upd (bufs s) i (mkBuf (BHeld r) None)) rest ((r, i) :: rc s) (responded s) (tokens s) (wire s)).
Proof.
  intros s r i rest HI Hr Hp.
  destruct (inv_pool s HI i) as [bi [Hbi Hfree]]; [rewrite Hp; now left|].
  assert (Hnd : NoDup (i :: rest)) by (rewrite <- Hp; exact (inv_nodup s HI)).
  constructor; cbn [bufs pool rc responded wire].
  - intros j b r' Hj Hu. apply nth_error_upd_inv in Hj. destruct Hj as [[-> ->]|[Hne Hj]].
    + assert (r' = r) by (eapply used_held_eq; [|exact Hu]; reflexivity). subst r'.
      split; [apply alook_cons_eq|]. left. reflexivity.
    + destruct (inv_excl s HI j b r' Hj Hu) as [Ha Hc].
      split; [|exact Hc]. rewrite alook_cons_neq; [exact Ha|].
      intros ->. rewrite Hr in Ha. discriminate Ha.
  - intros r' j Ha Hm. destruct (Nat.eq_dec r r') as [<-|Hne].
    + rewrite alook_cons_eq in Ha. inversion Ha. subst j.
      exists (mkBuf (BHeld r) None). split; [|reflexivity].
      eapply nth_error_upd_same; exact Hbi.
    + rewrite alook_cons_neq in Ha by exact Hne.
      destruct (inv_held s HI r' j Ha Hm) as [b [Hb Hs]].
      exists b. split; [|exact Hs]. rewrite nth_error_upd_other; [exact Hb|].
      intros ->. rewrite Hbi in Hb. inversion Hb. subst b. rewrite Hfree in Hs. discriminate Hs.
  - intros j b r' Hj Hs. apply nth_error_upd_inv in Hj. destruct Hj as [[-> ->]|[Hne Hj]].
    + cbn [b_state] in Hs. destruct Hs as [Hs|Hs]; discriminate Hs.
    + exact (inv_sent s HI j b r' Hj Hs).
  - intros j Hin. inversion Hnd as [|x l Hni Hnd']. subst.
    destruct (inv_pool s HI j) as [b [Hb Hs]]; [rewrite Hp; now right|].
    exists b. split; [|exact Hs]. rewrite nth_error_upd_other; [exact Hb|].
    intros ->. contradiction.
  - inversion Hnd. assumption.
  - exact (inv_wire s HI).
Qed.

Lemma inv_take_fresh : forall s r,
  Inv s -> alook (rc s) r = None ->
  Inv (mkSt (bufs s ++ [mkBuf (BHeld r) None]) (pool s) ((r, length (bufs s)) :: rc s)
            (responded s) (tokens s) (wire s)).
Proof.
  intros s r HI Hr.
  constructor; cbn [bufs pool rc responded wire].
  - intros j b r' Hj Hu. apply nth_error_snoc_inv in Hj. destruct Hj as [[-> ->]|[Hlt Hj]].
    + assert (r' = r) by (eapply used_held_eq; [|exact Hu]; reflexivity). subst r'.
      split; [apply alook_cons_eq|]. left. reflexivity.
    + destruct (inv_excl s HI j b r' Hj Hu) as [Ha Hc].
      split; [|exact Hc]. rewrite alook_cons_neq; [exact Ha|].
      intros ->. rewrite Hr in Ha. discriminate Ha.
  - intros r' j Ha Hm. destruct (Nat.eq_dec r r') as [<-|Hne].
    + rewrite alook_cons_eq in Ha. inversion Ha. subst j.
      exists (mkBuf (BHeld r) None). split; [|reflexivity]. apply nth_error_snoc_last.
    + rewrite alook_cons_neq in Ha by exact Hne.
      destruct (inv_held s HI r' j Ha Hm) as [b [Hb Hs]].
      exists b. split; [|exact Hs]. apply nth_error_snoc_old. exact Hb.
  - intros j b r' Hj Hs. apply nth_error_snoc_inv in Hj. destruct Hj as [[-> ->]|[Hlt Hj]].
    + cbn [b_state] in Hs. destruct Hs as [Hs|Hs]; discriminate Hs.
    + exact (inv_sent s HI j b r' Hj Hs).
  - intros j Hin. destruct (inv_pool s HI j Hin) as [b [Hb Hs]].
    exists b. split; [|exact Hs]. apply nth_error_snoc_old. exact Hb.
  - exact (inv_nodup s HI).
  - exact (inv_wire s HI).
Qed.

(* a request that has not been answered still holds its buffer *)
Lemma inv_unanswered_held : forall s r i b,
  Inv s -> buf_of s r = Some (i, b) -> mem r (responded s) = false -> b_state b = BHeld r.
Proof.
  intros s r i b HI Hb Hm. apply buf_of_some in Hb. destruct Hb as [Ha Hn].
  destruct (inv_held s HI r i Ha Hm) as [b' [Hn' Hs]].
  rewrite Hn in Hn'. inversion Hn'. subst b'. exact Hs.
Qed.

Lemma inv_guard_pack : forall s r v i b,
  Inv s -> buf_of s r = Some (i, b) -> mem r (responded s) = false ->
  Inv (set_buf s i (mkBuf (b_state b) (Some (r, v)))).
Proof.
  intros s r v i b HI Hb Hm.
  assert (Hheld : b_state b = BHeld r) by (eapply inv_unanswered_held; eassumption).
  apply buf_of_some in Hb. destruct Hb as [Ha Hn].
  unfold set_buf. constructor; cbn [bufs pool rc responded wire].
  - intros j b' r' Hj Hu. apply nth_error_upd_inv in Hj. destruct Hj as [[-> ->]|[Hne Hj]].
    + assert (r' = r) by (eapply used_held_eq; [|exact Hu]; exact Hheld). subst r'.
      split; [exact Ha|]. right. exists v. reflexivity.
    + exact (inv_excl s HI j b' r' Hj Hu).
  - intros r' j Ha' Hm'. destruct (inv_held s HI r' j Ha' Hm') as [b' [Hb' Hs]].
    destruct (Nat.eq_dec i j) as [<-|Hne].
    + exists (mkBuf (b_state b) (Some (r, v))). split; [eapply nth_error_upd_same; exact Hn|].
      rewrite Hn in Hb'. inversion Hb'. subst b'. exact Hs.
    + exists b'. split; [|exact Hs]. rewrite nth_error_upd_other by exact Hne. exact Hb'.
  - intros j b' r' Hj Hs. apply nth_error_upd_inv in Hj. destruct Hj as [[-> ->]|[Hne Hj]].
    + cbn [b_state] in Hs. rewrite Hheld in Hs. destruct Hs as [Hs|Hs]; discriminate Hs.
    + exact (inv_sent s HI j b' r' Hj Hs).
  - intros j Hin. destruct (inv_pool s HI j Hin) as [b' [Hb' Hs]].
    exists b'. split; [|exact Hs]. rewrite nth_error_upd_other; [exact Hb'|].
    intros ->. rewrite Hn in Hb'. inversion Hb'. subst b'. rewrite Hheld in Hs. discriminate Hs.
  - exact (inv_nodup s HI).
  - exact (inv_wire s HI).
Qed.

Lemma inv_respond : forall s r i b,
  Inv s -> buf_of s r = Some (i, b) -> mem r (responded s) = false -> b_content b <> None ->
  Inv (mkSt (upd (bufs s) i (mkBuf (BQueued r) (b_content b))) (pool s) (rc s) (r :: responded s)
            (tokens s) (wire s)).
Proof.
  intros s r i b HI Hb Hm Hc.
  assert (Hheld : b_state b = BHeld r) by (eapply inv_unanswered_held; eassumption).
  apply buf_of_some in Hb. destruct Hb as [Ha Hn].
  assert (Hcont : exists v, b_content b = Some (r, v)).
  { destruct (inv_excl s HI i b r Hn) as [_ [H|H]]; [left; exact Hheld|contradiction|exact H]. }
  constructor; cbn [bufs pool rc responded wire].
  - intros j b' r' Hj Hu. apply nth_error_upd_inv in Hj. destruct Hj as [[-> ->]|[Hne Hj]].
    + assert (r' = r).
      { destruct Hu as [H|[H|H]]; cbn [b_state] in H; inversion H; reflexivity. }
      subst r'. split; [exact Ha|]. right. exact Hcont.
    + exact (inv_excl s HI j b' r' Hj Hu).
  - intros r' j Ha' Hm'. apply mem_cons_false in Hm'. destruct Hm' as [Hne Hm'].
    destruct (inv_held s HI r' j Ha' Hm') as [b' [Hb' Hs]].
    exists b'. split; [|exact Hs]. rewrite nth_error_upd_other; [exact Hb'|].
    intros ->. rewrite Hn in Hb'. inversion Hb'. subst b'. rewrite Hheld in Hs. inversion Hs. lia.
  - intros j b' r' Hj Hs. apply nth_error_upd_inv in Hj. destruct Hj as [[-> ->]|[Hne Hj]].
    + assert (r' = r).
      { destruct Hs as [H|H]; cbn [b_state] in H; inversion H; reflexivity. }
      subst r'. split; [apply mem_cons_same|exact Hcont].
    + destruct (inv_sent s HI j b' r' Hj Hs) as [H1 H2]. split; [apply mem_cons_mono; exact H1|exact H2].
  - intros j Hin. destruct (inv_pool s HI j Hin) as [b' [Hb' Hs]].
    exists b'. split; [|exact Hs]. rewrite nth_error_upd_other; [exact Hb'|].
    intros ->. rewrite Hn in Hb'. inversion Hb'. subst b'. rewrite Hheld in Hs. discriminate Hs.
  - exact (inv_nodup s HI).
  - exact (inv_wire s HI).
Qed.

Lemma inv_respond_flushed : forall s r,
  Inv s ->
  Inv (mkSt (bufs s) (pool s) (rc s) (r :: responded s) (tokens s) (wire s)).
Proof.
  intros s r HI. constructor; cbn [bufs pool rc responded wire].
  - exact (inv_excl s HI).
  - intros r' j Ha' Hm'. apply mem_cons_false in Hm'. destruct Hm' as [Hne Hm'].
    exact (inv_held s HI r' j Ha' Hm').
  - intros j b' r' Hj Hs. destruct (inv_sent s HI j b' r' Hj Hs) as [H1 H2].
    split; [apply mem_cons_mono; exact H1|exact H2].
  - exact (inv_pool s HI).
  - exact (inv_nodup s HI).
  - exact (inv_wire s HI).
Qed.

Lemma inv_dequeue : forall s r i b,
  Inv s -> buf_of s r = Some (i, b) -> b_state b = BQueued r ->
  Inv (set_buf s i (mkBuf (BSending r) (b_content b))).
Proof.
  intros s r i b HI Hb Hq.
  apply buf_of_some in Hb. destruct Hb as [Ha Hn].
  destruct (inv_sent s HI i b r Hn) as [Hresp Hcont]; [left; exact Hq|].
  unfold set_buf. constructor; cbn [bufs pool rc responded wire].
  - intros j b' r' Hj Hu. apply nth_error_upd_inv in Hj. destruct Hj as [[-> ->]|[Hne Hj]].
    + assert (r' = r).
      { destruct Hu as [H|[H|H]]; cbn [b_state] in H; inversion H; reflexivity. }
      subst r'. split; [exact Ha|]. right. exact Hcont.
    + exact (inv_excl s HI j b' r' Hj Hu).
  - intros r' j Ha' Hm'.
    destruct (inv_held s HI r' j Ha' Hm') as [b' [Hb' Hs]].
    exists b'. split; [|exact Hs]. rewrite nth_error_upd_other; [exact Hb'|].
    intros ->. rewrite Hn in Hb'. inversion Hb'. subst b'. rewrite Hq in Hs. discriminate Hs.
  - intros j b' r' Hj Hs. apply nth_error_upd_inv in Hj. destruct Hj as [[-> ->]|[Hne Hj]].
    + assert (r' = r).
      { destruct Hs as [H|H]; cbn [b_state] in H; inversion H; reflexivity. }
      subst r'. split; [exact Hresp|exact Hcont].
    + exact (inv_sent s HI j b' r' Hj Hs).
  - intros j Hin. destruct (inv_pool s HI j Hin) as [b' [Hb' Hs]].
    exists b'. split; [|exact Hs]. rewrite nth_error_upd_other; [exact Hb'|].
    intros ->. rewrite Hn in Hb'. inversion Hb'. subst b'. rewrite Hq in Hs. discriminate Hs.
  - exact (inv_nodup s HI).
  - exact (inv_wire s HI).
Qed.

Lemma inv_write : forall s r i b,
  Inv s -> buf_of s r = Some (i, b) -> b_state b = BSending r ->
  Inv (mkSt (bufs s) (pool s) (rc s) (responded s) (tokens s) (wire s ++ [(r, b_content b)])).
Proof.
  intros s r i b HI Hb Hq.
  apply buf_of_some in Hb. destruct Hb as [Ha Hn].
  destruct (inv_sent s HI i b r Hn) as [Hresp Hcont]; [right; exact Hq|].
  constructor; cbn [bufs pool rc responded wire].
  - exact (inv_excl s HI).
  - exact (inv_held s HI).
  - exact (inv_sent s HI).
  - exact (inv_pool s HI).
  - exact (inv_nodup s HI).
  - intros r' c Hin. apply in_app_or in Hin. destruct Hin as [Hin|[Heq|[]]].
    + exact (inv_wire s HI r' c Hin).
    + inversion Heq. subst r' c. exact Hcont.
Qed.

Lemma inv_recycle : forall s r i b,
  Inv s -> buf_of s r = Some (i, b) -> b_state b = BSending r ->
  Inv (mkSt (upd (bufs s) i (mkBuf BFree (b_content b))) (pool s ++ [i]) (rc s) (responded s)
            (tokens s) (wire s)).
Proof.
  intros s r i b HI Hb Hq.
  apply buf_of_some in Hb. destruct Hb as [Ha Hn].
  constructor; cbn [bufs pool rc responded wire].
  - intros j b' r' Hj Hu. apply nth_error_upd_inv in Hj. destruct Hj as [[-> ->]|[Hne Hj]].
    + destruct Hu as [H|[H|H]]; cbn [b_state] in H; discriminate H.
    + exact (inv_excl s HI j b' r' Hj Hu).
  - intros r' j Ha' Hm'.
    destruct (inv_held s HI r' j Ha' Hm') as [b' [Hb' Hs]].
    exists b'. split; [|exact Hs]. rewrite nth_error_upd_other; [exact Hb'|].
    intros ->. rewrite Hn in Hb'. inversion Hb'. subst b'. rewrite Hq in Hs. discriminate Hs.
  - intros j b' r' Hj Hs. apply nth_error_upd_inv in Hj. destruct Hj as [[-> ->]|[Hne Hj]].
    + destruct Hs as [H|H]; cbn [b_state] in H; discriminate H.
    + exact (inv_sent s HI j b' r' Hj Hs).
  - intros j Hin. destruct (Nat.eq_dec i j) as [<-|Hne].
    + exists (mkBuf BFree (b_content b)). split; [|reflexivity].
      eapply nth_error_upd_same; exact Hn.
    + apply in_app_or in Hin. destruct Hin as [Hin|[Heq|[]]]; [|contradiction].
      destruct (inv_pool s HI j Hin) as [b' [Hb' Hs]].
      exists b'. split; [|exact Hs]. rewrite nth_error_upd_other by exact Hne. exact Hb'.
  - assert (Hni : ~ In i (pool s)).
    { intros Hin. destruct (inv_pool s HI i Hin) as [b' [Hb' Hs]].
      rewrite Hn in Hb'. inversion Hb'. subst b'. rewrite Hq in Hs. discriminate Hs. }
    pose proof (inv_nodup s HI) as Hnd.
    clear - Hni Hnd. induction (pool s) as [|x l IH]; cbn [app].
    + constructor; [intros []|constructor].
    + inversion Hnd as [|y l' Hx Hl]. subst. constructor.
      * intros Hin. apply in_app_or in Hin. destruct Hin as [Hin|[Heq|[]]]; [contradiction|].
        apply Hni. left. symmetry. exact Heq.
      * apply IH; [|exact Hl]. intros Hin. apply Hni. right. exact Hin.
  - exact (inv_wire s HI).
Qed.

Lemma inv_step : forall s l s', Inv s -> step fixed_cfg s l = Some s' -> Inv s'.
Proof.
  intros s l s' HI Hstep. destruct l as [r|r|r|r v|r v|r|r|r|r|r];
    cbn [step fixed_cfg atomic_pack recycle_after_write] in Hstep.
  - destruct (alook (rc s) r) as [x|] eqn:Ha; [discriminate Hstep|].
    destruct (pool s) as [|i rest] eqn:Hp; [discriminate Hstep|].
    inversion Hstep. subst s'. apply inv_take_pool; assumption.
  - destruct (alook (rc s) r) as [x|] eqn:Ha; [discriminate Hstep|].
    inversion Hstep. subst s'. apply inv_take_fresh; assumption.
  - discriminate Hstep.
  - discriminate Hstep.
  - destruct (buf_of s r) as [[i b]|] eqn:Hb; [|discriminate Hstep].
    destruct (mem r (responded s)) eqn:Hm; [discriminate Hstep|].
    inversion Hstep. subst s'. eapply inv_guard_pack; eassumption.
  - destruct (buf_of s r) as [[i b]|] eqn:Hb; [|discriminate Hstep].
    destruct (mem r (responded s)) eqn:Hm; [discriminate Hstep|].
    destruct (b_content b) as [c|] eqn:Hc; [|discriminate Hstep].
    inversion Hstep. subst s'. rewrite <- Hc. eapply inv_respond; try eassumption.
    rewrite Hc. discriminate.
  - destruct (alook (rc s) r) as [x|] eqn:Ha; [|discriminate Hstep].
    destruct (mem r (responded s)) eqn:Hm; [discriminate Hstep|].
    inversion Hstep. subst s'. apply inv_respond_flushed; assumption.
  - destruct (buf_of s r) as [[i b]|] eqn:Hb; [|discriminate Hstep].
    destruct (b_state b) as [|r'|r'|r'] eqn:Hs; try discriminate Hstep.
    destruct (r' =? r) eqn:He; [|discriminate Hstep]. apply Nat.eqb_eq in He. subst r'.
    inversion Hstep. subst s'. eapply inv_dequeue; eassumption.
  - destruct (buf_of s r) as [[i b]|] eqn:Hb; [|discriminate Hstep].
    destruct (b_state b) as [|r'|r'|r'] eqn:Hs; try discriminate Hstep.
    destruct (r' =? r) eqn:He; [|discriminate Hstep]. apply Nat.eqb_eq in He. subst r'.
    inversion Hstep. subst s'. eapply inv_write; eassumption.
  - destruct (buf_of s r) as [[i b]|] eqn:Hb; [|discriminate Hstep].
    destruct (b_state b) as [|r'|r'|r'] eqn:Hs; try discriminate Hstep.
    destruct (r' =? r) eqn:He; [|discriminate Hstep]. apply Nat.eqb_eq in He. subst r'.
    inversion Hstep. subst s'. eapply inv_recycle; eassumption.
Qed.

Lemma inv_run : forall ls s s', Inv s -> run fixed_cfg s ls = Some s' -> Inv s'.
Proof.
  induction ls as [|l ls IH]; intros s s' HI Hrun; cbn [run] in Hrun.
  - inversion Hrun. subst s'. exact HI.
  - destruct (step fixed_cfg s l) as [s1|] eqn:Hstep; [|discriminate Hrun].
    eapply IH; [|exact Hrun]. eapply inv_step; eassumption.
Qed.

Lemma inv_reach : forall s, reach fixed_cfg s -> Inv s.
Proof.
  intros s [ls Hrun]. eapply inv_run; [exact inv_init|exact Hrun].
Qed.

(* every Write for request r hands the transport bytes that were packed for r (never None, never
   another request's), in every reachable state of the fixed configuration: any number of
   requests, buffers recycled between them, any number of answers per request from any goroutine *)
Theorem wire_bytes_belong_to_request : forall s r c,
  reach fixed_cfg s -> In (r, c) (wire s) -> exists v, c = Some (r, v).
Proof.
  intros s r c Hr Hin. exact (inv_wire s (inv_reach s Hr) r c Hin).
Qed.

(* a buffer in use by a request is that request's req.Rc and holds nothing or bytes packed for it *)
Theorem buffer_exclusive : forall s i b r,
  reach fixed_cfg s -> nth_error (bufs s) i = Some b ->
  (b_state b = BHeld r \/ b_state b = BQueued r \/ b_state b = BSending r) ->
  alook (rc s) r = Some i /\ (b_content b = None \/ exists v, b_content b = Some (r, v)).
Proof.
  intros s i b r Hr Hn Hu. exact (inv_excl s (inv_reach s Hr) i b r Hn Hu).
Qed.

(* the pool holds free buffers only, each at most once *)
Theorem pool_is_free : forall s i,
  reach fixed_cfg s -> In i (pool s) -> exists b, nth_error (bufs s) i = Some b /\ b_state b = BFree.
Proof.
  intros s i Hr Hin. exact (inv_pool s (inv_reach s Hr) i Hin).
Qed.

Theorem pool_nodup : forall s, reach fixed_cfg s -> NoDup (pool s).
Proof.
  intros s Hr. exact (inv_nodup s (inv_reach s Hr)).
Qed.

(* with the responded() test and the pack as two separate steps (the code before the repair) a
   delayed second answer writes into a buffer that meanwhile belongs to another request *)
Theorem separate_test_and_pack_refuted : exists ls s r r' v,
  run current_cfg init ls = Some s /\ In (r, Some (r', v)) (wire s) /\ r <> r'.
Proof.
  exists [LTakeFresh 0; LGuard 0; LGuard 0; LPack 0 1; LRespond 0; LDequeue 0; LWrite 0; LRecycle 0;
          LTakePool 1; LGuard 1; LPack 1 5; LPack 0 2; LRespond 1; LDequeue 1; LWrite 1].
  eexists. exists 1, 0, 2. split; [vm_compute; reflexivity|].
  split; [cbn [wire]; right; left; reflexivity|discriminate].
Qed.

(* recycling the buffer before the Write (seeded change C03a) is refuted as well *)
Theorem early_recycle_refuted : exists ls s r r' v,
  run early_recycle_cfg init ls = Some s /\ In (r, Some (r', v)) (wire s) /\ r <> r'.
Proof.
  exists [LTakeFresh 0; LGuardPack 0 1; LRespond 0; LDequeue 0; LRecycle 0; LTakePool 1;
          LGuardPack 1 7; LWrite 0].
  eexists. exists 0, 1, 7. split; [vm_compute; reflexivity|].
  split; [cbn [wire]; left; reflexivity|discriminate].
Qed.

(* non-vacuity: two requests through one recycled buffer, the first answered twice *)
Example fixed_run : exists s,
  run fixed_cfg init [LTakeFresh 0; LGuardPack 0 1; LGuardPack 0 2; LRespond 0; LDequeue 0; LWrite 0; LRecycle 0;
                      LTakePool 1; LGuardPack 1 7; LRespond 1; LDequeue 1; LWrite 1; LWrite 1; LRecycle 1] = Some s
  /\ wire s = [(0, Some (0, 2)); (1, Some (1, 7)); (1, Some (1, 7))].
Proof.
  eexists. split; [vm_compute; reflexivity|reflexivity].
Qed.

Print Assumptions wire_bytes_belong_to_request.
Print Assumptions buffer_exclusive.
Print Assumptions pool_is_free.
Print Assumptions pool_nodup.
Print Assumptions separate_test_and_pack_refuted.
Print Assumptions early_recycle_refuted.
Print Assumptions fixed_run.
