(* Sequential model of the server framework: what one connection does with ONE
   request at a time (srv_srv.go: Process, PostProcess, FidGet/FidNew/IncRef/DecRef;
   srv_fcall.go: version, auth, attach, flush, walk, open, create, read, write,
   clunk, remove, stat, wstat and their post-handlers; srv_respond.go: RespondX,
   packRerror).  The file-server implementation is an input ([script]): whatever
   it answers.  Model definitions only. *)
From Coq Require Import NArith ZArith List Bool PeanoNat.
From V9 Require Import Lib.GoSem Lib.Bytes Gen.Consts Codec.Msg.
Import ListNotations.
Local Open Scope N_scope.

(* ---------- state ---------- *)
Record fidrec := mkFid {
  f_ref : Z;          (* SrvFid.refcount (Go int) *)
  f_opened : bool;
  f_omode : N;
  f_type : N;         (* QT* bits *)
  f_user : N;         (* identity of SrvFid.User (uid with OsUsers) *)
  f_diroff : N }.

Definition ftab := list (N * fidrec).   (* conn.fidpool *)

Record conn := mkConn { c_msize : N; c_dotu : bool; c_fids : ftab }.

(* Srv configuration: Msize, Dotu, and whether ops implements AuthOps *)
Record srvcfg := mkCfg { s_msize : N; s_dotu : bool; s_auth : bool }.

Definition conn_init (cfg : srvcfg) : conn := mkConn (s_msize cfg) (s_dotu cfg) [].

Fixpoint fget (t : ftab) (k : N) : option fidrec :=
  match t with
  | [] => None
  | (k', r) :: rest => if k' =? k then Some r else fget rest k
  end.

Fixpoint fdel (t : ftab) (k : N) : ftab :=
  match t with
  | [] => []
  | (k', r) :: rest => if k' =? k then fdel rest k else (k', r) :: fdel rest k
  end.

Fixpoint fset (t : ftab) (k : N) (r : fidrec) : ftab :=
  match t with
  | [] => [(k, r)]
  | (k', r') :: rest => if k' =? k then (k, r) :: rest else (k', r') :: fset rest k r
  end.

Definition with_fids (c : conn) (t : ftab) : conn := mkConn (c_msize c) (c_dotu c) t.

(* ---------- what the implementation answers ---------- *)
Inductive ans := AOk (r : msg) | AErr (e : bytes) (n : N).

Record script := mkScript {
  sc_ans : ans;                          (* answer of the SrvReqOps / AuthOps operation *)
  sc_authcheck : option (bytes * N) }.   (* AuthCheck: None = accepted *)

(* what the implementation is shown *)
Inductive event :=
| EvFwd (t : msg) (fid user : N)        (* SrvReqOps call: request, req.Fid number (NOFID if none) and its user *)
| EvAuth (t : msg) (afid : N)           (* AuthOps call: AuthInit / AuthRead / AuthWrite / AuthDestroy *)
| EvAuthCheck (fid afid : N)
| EvDestroy (fid : N).                  (* SrvFidOps.FidDestroy *)

(* ---------- helpers mirroring FidGet / FidNew / IncRef / DecRef ---------- *)
Definition incref (t : ftab) (k : N) : ftab :=
  match fget t k with
  | Some r => fset t k (mkFid (f_ref r + 1) (f_opened r) (f_omode r) (f_type r) (f_user r) (f_diroff r))
  | None => t
  end.

(* DecRef: refcount--; if it is not 0 return (still referenced, or already destroyed);
   else delete(conn.fidpool, fid.fid); FidDestroy *)
Definition decref (t : ftab) (k : N) : ftab * list event :=
  match fget t k with
  | Some r =>
    let n := (f_ref r - 1)%Z in
    if negb (n =? 0)%Z then (fset t k (mkFid n (f_opened r) (f_omode r) (f_type r) (f_user r) (f_diroff r)), [])
    else (fdel t k, [EvDestroy k])
  | None => (t, [])
  end.

Definition fidnew (t : ftab) (k : N) : option ftab :=
  match fget t k with
  | Some _ => None
  | None => Some (fset t k (mkFid 1 false 0 0 0 0))
  end.

Definition upd_fid (t : ftab) (k : N) (f : fidrec -> fidrec) : ftab :=
  match fget t k with Some r => fset t k (f r) | None => t end.

Definition set_user_type (u ty : N) (r : fidrec) := mkFid (f_ref r) (f_opened r) (f_omode r) ty u (f_diroff r).
Definition set_type (ty : N) (r : fidrec) := mkFid (f_ref r) (f_opened r) (f_omode r) ty (f_user r) (f_diroff r).
Definition set_omode (m : N) (r : fidrec) := mkFid (f_ref r) (f_opened r) m (f_type r) (f_user r) (f_diroff r).
Definition set_opened (b : bool) (r : fidrec) := mkFid (f_ref r) b (f_omode r) (f_type r) (f_user r) (f_diroff r).
Definition set_diroff (o : N) (r : fidrec) := mkFid (f_ref r) (f_opened r) (f_omode r) (f_type r) (f_user r) o.

(* srv.Upool with the default OsUsers: Uid2User always finds a user, Uname2User never *)
Definition lookup_user (dotu : bool) (unamenum : N) (uname : bytes) : option N :=
  if negb (unamenum =? c_NOUID) || dotu then Some unamenum else None.

Definition has_bit (v b : N) : bool := negb (N.land v b =? 0).

(* error values *)
Definition E (text : bytes) (num : N) : bytes * N := (text, num).
Definition e_unknownfid := E c_Eunknownfid_text c_Eunknownfid_num.
Definition e_inuse := E c_Einuse_text c_Einuse_num.
Definition e_baduse := E c_Ebaduse_text c_Ebaduse_num.
Definition e_open := E c_Eopen_text c_Eopen_num.
Definition e_notdir := E c_Enotdir_text c_Enotdir_num.
Definition e_perm := E c_Eperm_text c_Eperm_num.
Definition e_toolarge := E c_Etoolarge_text c_Etoolarge_num.
Definition e_nouser := E c_Enouser_text c_Enouser_num.
Definition e_noauth := E c_Enoauth_text c_Enoauth_num.
Definition e_notimpl := E c_Enotimpl_text c_Enotimpl_num.
(* "msize too small", "unknown message type", "buffer too small": EINVAL *)
Definition e_msize := E [109;115;105;122;101;32;116;111;111;32;115;109;97;108;108] c_EINVAL.
Definition e_unknowntype := E [117;110;107;110;111;119;110;32;109;101;115;115;97;103;101;32;116;121;112;101] c_EINVAL.
Definition e_bufsmall_text : bytes := [98;117;102;102;101;114;32;116;111;111;32;115;109;97;108;108].

Definition ver_u : bytes := [57;80;50;48;48;48;46;117].  (* "9P2000.u" *)
Definition ver_p : bytes := [57;80;50;48;48;48].          (* "9P2000" *)

(* ---------- the decision taken before the implementation is called ---------- *)
(* references the request holds: req.Fid, req.Afid, req.Newfid (fid numbers) *)
Record refs := mkRefs { r_fid : option N; r_afid : option N; r_newfid : option N }.
Definition no_refs := mkRefs None None None.

Inductive pre :=
| PReject (e : bytes * N)            (* RespondError by the framework: nothing forwarded *)
| PDirect (r : msg)                  (* answered by the framework itself (Rversion, Rflush) *)
| PForward                           (* SrvReqOps method called *)
| PAuthOp.                           (* AuthOps method called on an auth fid / AuthInit *)

(* tc.Count > req.Conn.Msize-IOHDRSZ, in uint32 arithmetic as written *)
Definition count_too_large (msize cnt : N) : bool :=
  (msize + two32 - c_IOHDRSZ) mod two32 <? cnt.

Definition special_bits : N :=
  N.lor c_DMNAMEDPIPE (N.lor c_DMSYMLINK (N.lor c_DMLINK (N.lor c_DMDEVICE c_DMSOCKET))).

(* fid carried by a T-message, as Process sees it (tc.Fid; NOFID for messages
   without one because Unpack presets it) *)
Definition tfid (t : msg) : N :=
  match t with
  | Tattach_ fid _ _ _ _ | Twalk_ fid _ _ | Topen_ fid _ | Tcreate_ fid _ _ _ _
  | Tread_ fid _ _ | Twrite_ fid _ _ | Tclunk_ fid | Tremove_ fid | Tstat_ fid | Twstat_ fid _ => fid
  | _ => c_NOFID
  end.

Definition takes_fid (t : msg) : bool :=
  match t with
  | Twalk_ _ _ _ | Topen_ _ _ | Tcreate_ _ _ _ _ _ | Tread_ _ _ _ | Twrite_ _ _ _
  | Tclunk_ _ | Tremove_ _ | Tstat_ _ | Twstat_ _ _ => true
  | _ => false
  end.

Definition is_tattach (t : msg) : bool := match t with Tattach_ _ _ _ _ _ => true | _ => false end.

(* (req *SrvReq) Process + the srv.<op> handler, up to the call into the
   implementation. Returns the new connection state (references taken, Omode /
   Diroffset assignments, Tversion effects), the references held and the decision. *)
Definition process_pre (cfg : srvcfg) (c : conn) (t : msg) (sc : script) : conn * refs * pre * list event :=
  let ft := c_fids c in
  (* fid lookup of Process *)
  let lookup : option (ftab * refs) + (bytes * N) :=
    if negb (tfid t =? c_NOFID) && negb (is_tattach t) then
      match fget ft (tfid t) with
      | Some _ => inl (Some (incref ft (tfid t), mkRefs (Some (tfid t)) None None))
      | None => inr e_unknownfid
      end
    else if takes_fid t then inr e_unknownfid
    else inl None in
  match lookup with
  | inr e => (c, no_refs, PReject e, [])
  | inl lk =>
    let ft := match lk with Some (ft', _) => ft' | None => ft end in
    let rf := match lk with Some (_, r) => r | None => no_refs end in
    let c := with_fids c ft in
    let cur := match r_fid rf with Some k => fget ft k | None => None end in
    match t with
    | Tversion_ ms ver =>
      if ms <? c_IOHDRSZ then (c, rf, PReject e_msize, [])
      else
        let ms' := if ms <? c_msize c then ms else c_msize c in
        let du := bytes_eqb ver ver_u && s_dotu cfg in
        (mkConn ms' du ft, rf, PDirect (Rversion_ ms' (if du then ver_u else ver_p)), [])
    | Tauth_ afid un an num =>
      if afid =? c_NOFID then (c, rf, PReject e_unknownfid, [])
      else match fidnew ft afid with
           | None => (c, rf, PReject e_inuse, [])
           | Some ft1 =>
             let rf1 := mkRefs (r_fid rf) (Some afid) None in
             match lookup_user (c_dotu c) num un with
             | None => (with_fids c ft1, rf1, PReject e_nouser, [])
             | Some u =>
               let ft2 := upd_fid ft1 afid (set_user_type u c_QTAUTH) in
               if s_auth cfg then (with_fids c ft2, rf1, PAuthOp, [EvAuth t afid])
               else (with_fids c ft2, rf1, PReject e_noauth, [])
             end
           end
    | Tattach_ fid afid un an num =>
      if fid =? c_NOFID then (c, rf, PReject e_unknownfid, [])
      else match fidnew ft fid with
           | None => (c, rf, PReject e_inuse, [])
           | Some ft1 =>
             let rf1 := mkRefs (Some fid) None None in
             match lookup_user (c_dotu c) num un with
             | None => (with_fids c ft1, rf1, PReject e_nouser, [])
             | Some u =>
               let afid_res : option (ftab * refs) :=
                 if negb (afid =? c_NOFID) then
                   (* FidGet does not see the fid this very request is creating *)
                   match (if afid =? fid then None else fget ft1 afid) with
                   | Some _ => Some (incref ft1 afid, mkRefs (Some fid) (Some afid) None)
                   | None => None
                   end
                 else Some (ft1, rf1) in
               match afid_res with
               | None => (with_fids c ft1, rf1, PReject e_unknownfid, [])
               | Some (ft2, rf2) =>
                 let ft3 := upd_fid ft2 fid (fun r => set_user_type u (f_type r) r) in
                 if s_auth cfg then
                   match sc_authcheck sc with
                   | Some e => (with_fids c ft3, rf2, PReject e, [EvAuthCheck fid afid])
                   | None => (with_fids c ft3, rf2, PForward, [EvAuthCheck fid afid; EvFwd t fid u])
                   end
                 else (with_fids c ft3, rf2, PForward, [EvFwd t fid u])
               end
             end
           end
    | Tflush_ _ => (c, rf, PDirect Rflush_, [])   (* one request at a time: nothing to flush *)
    | Twalk_ fid nf names =>
      match cur with
      | None => (c, rf, PReject e_unknownfid, [])   (* unreachable: lookup succeeded *)
      | Some fr =>
        if (0 <? length names)%nat && negb (has_bit (f_type fr) c_QTDIR) then (c, rf, PReject e_notdir, [])
        else if f_opened fr then (c, rf, PReject e_baduse, [])
        else if negb (fid =? nf) then
          if nf =? c_NOFID then (c, rf, PReject e_unknownfid, [])
          else
          match fidnew ft nf with
          | None => (c, rf, PReject e_inuse, [])
          | Some ft1 =>
            let ft2 := upd_fid ft1 nf (set_user_type (f_user fr) (f_type fr)) in
            (with_fids c ft2, mkRefs (Some fid) None (Some nf), PForward, [EvFwd t fid (f_user fr)])
          end
        else (with_fids c (incref ft fid), mkRefs (Some fid) None (Some fid), PForward, [EvFwd t fid (f_user fr)])
      end
    | Topen_ fid mode =>
      match cur with
      | None => (c, rf, PReject e_unknownfid, [])
      | Some fr =>
        if f_opened fr then (c, rf, PReject e_open, [])
        else if has_bit (f_type fr) c_QTDIR && negb (mode =? c_OREAD) then (c, rf, PReject e_perm, [])
        else (with_fids c (upd_fid ft fid (set_omode mode)), rf, PForward, [EvFwd t fid (f_user fr)])
      end
    | Tcreate_ fid name perm mode ext =>
      match cur with
      | None => (c, rf, PReject e_unknownfid, [])
      | Some fr =>
        if f_opened fr then (c, rf, PReject e_open, [])
        else if negb (has_bit (f_type fr) c_QTDIR) then (c, rf, PReject e_notdir, [])
        else if has_bit perm c_DMDIR && negb (mode =? c_OREAD) then (c, rf, PReject e_perm, [])
        else if has_bit perm special_bits && negb (c_dotu c) then (c, rf, PReject e_perm, [])
        else (with_fids c (upd_fid ft fid (set_omode mode)), rf, PForward, [EvFwd t fid (f_user fr)])
      end
    | Tread_ fid off cnt =>
      match cur with
      | None => (c, rf, PReject e_unknownfid, [])
      | Some fr =>
        if count_too_large (c_msize c) cnt then (c, rf, PReject e_toolarge, [])
        else if has_bit (f_type fr) c_QTAUTH then
          if s_auth cfg then (c, rf, PAuthOp, [EvAuth t fid]) else (c, rf, PReject e_notimpl, [])
        else
          let ft1 := if has_bit (f_type fr) c_QTDIR then upd_fid ft fid (set_diroff off) else ft in
          (with_fids c ft1, rf, PForward, [EvFwd t fid (f_user fr)])
      end
    | Twrite_ fid off data =>
      match cur with
      | None => (c, rf, PReject e_unknownfid, [])
      | Some fr =>
        if has_bit (f_type fr) c_QTAUTH then
          if count_too_large (c_msize c) (len data) then (c, rf, PReject e_toolarge, [])
          else if s_auth cfg then (c, rf, PAuthOp, [EvAuth t fid]) else (c, rf, PReject e_notimpl, [])
        else if negb (f_opened fr) || has_bit (f_type fr) c_QTDIR
                || (negb (N.land (f_omode fr) 3 =? c_OWRITE) && negb (N.land (f_omode fr) 3 =? c_ORDWR))
        then (c, rf, PReject e_baduse, [])
        else if count_too_large (c_msize c) (len data) then (c, rf, PReject e_toolarge, [])
        else (c, rf, PForward, [EvFwd t fid (f_user fr)])
      end
    | Tclunk_ fid =>
      match cur with
      | None => (c, rf, PReject e_unknownfid, [])
      | Some fr =>
        if has_bit (f_type fr) c_QTAUTH then
          if s_auth cfg then (c, rf, PAuthOp, [EvAuth t fid]) else (c, rf, PReject e_notimpl, [])
        else (c, rf, PForward, [EvFwd t fid (f_user fr)])
      end
    | Tremove_ fid | Tstat_ fid | Twstat_ fid _ =>
      match cur with
      | None => (c, rf, PReject e_unknownfid, [])
      | Some fr => (c, rf, PForward, [EvFwd t fid (f_user fr)])
      end
    | _ => (c, rf, PReject e_unknowntype, [])      (* an R-message sent as a request *)
    end
  end.

(* ---------- the reply, as packed into the request's reply buffer ---------- *)
(* RespondRx: PackRx into req.Rc (capacity [bufcap]); "buffer too small" =>
   RespondError(err); packRerror truncates the text to what fits. *)
Definition fit_error (dotu : bool) (bufcap : N) (e : bytes) (n : N) : msg :=
  let need := 7 + 2 + len e + (if dotu then 4 else 0) in
  if need <=? bufcap then Rerror_ e n
  else Rerror_ (firstn (N.to_nat (bufcap - 13)) e) n.

Definition fit (dotu : bool) (bufcap : N) (r : msg) : msg :=
  match r with
  | Rerror_ e n => fit_error dotu bufcap e n
  | _ => if len (spec_encode dotu 0 r) <=? bufcap then r
         else fit_error dotu bufcap e_bufsmall_text c_EINVAL
  end.

(* in plain 9P2000 the ecode is not transmitted *)
Definition on_wire (dotu : bool) (r : msg) : msg := norm_msg dotu r.

(* ---------- PostProcess ---------- *)
Definition is_rtype (r : msg) (ty : N) : bool := typ r =? ty.

Definition last_qid_type (qs : list qid) (dflt : N) : N :=
  match rev qs with q :: _ => q_type q | [] => dflt end.

Definition post (c : conn) (t : msg) (r : msg) (rf : refs) : conn * list event :=
  let ft := c_fids c in
  (* post handlers *)
  let '(ft, ev0) :=
    match t with
    | Tauth_ _ _ _ _ =>
      (match r, r_afid rf with Rauth_ _, Some a => incref ft a | _, _ => ft end, [])
    | Tattach_ _ _ _ _ _ =>
      (match r, r_fid rf with
       | Rattach_ q, Some k => incref (upd_fid ft k (set_type (q_type q))) k
       | _, _ => ft end, [])
    | Twalk_ fid nf names =>
      (match r, r_newfid rf, r_fid rf with
       | Rwalk_ qs, Some k, Some kf =>
         let fty := match fget ft kf with Some fr => f_type fr | None => 0 end in
         let ft1 := upd_fid ft k (set_type (last_qid_type qs fty)) in
         if negb (length qs =? length names)%nat then ft
         else if negb (k =? kf) then incref ft1 k else ft1
       | _, _, _ => ft end, [])
    | Topen_ _ _ =>
      (match r_fid rf with
       | Some k => if is_rtype r c_Ropen then upd_fid ft k (set_opened true) else ft
       | None => ft end, [])
    | Tcreate_ _ _ _ _ _ =>
      (match r, r_fid rf with
       | Rcreate_ q _, Some k => upd_fid (upd_fid ft k (set_type (q_type q))) k (set_opened true)
       | _, _ => ft end, [])
    | Tread_ _ _ _ =>
      (match r, r_fid rf with
       | Rread_ data, Some k =>
         match fget ft k with
         | Some fr => if has_bit (f_type fr) c_QTDIR
                      then upd_fid ft k (set_diroff ((f_diroff fr + len data) mod 18446744073709551616))
                      else ft
         | None => ft end
       | _, _ => ft end, [])
    | Tclunk_ _ =>
      match r, r_fid rf with
      | Rclunk_, Some k => decref ft k
      | _, _ => (ft, []) end
    | Tremove_ _ =>
      match r_fid rf with
      | Some k => decref ft k
      | None => (ft, []) end
    | _ => (ft, [])
    end in
  (* if req.Fid != nil { DecRef }; Afid; Newfid *)
  let '(ft, ev1) := match r_fid rf with Some k => decref ft k | None => (ft, []) end in
  let '(ft, ev2) := match r_afid rf with Some k => decref ft k | None => (ft, []) end in
  let '(ft, ev3) := match r_newfid rf with Some k => decref ft k | None => (ft, []) end in
  (with_fids c ft, ev0 ++ ev1 ++ ev2 ++ ev3).

(* One request, start to reply. The reply buffer's capacity is the msize in
   force when the request arrived (fresh: NewFcall(conn.Msize); recycled: capped). *)
Definition seq_step (cfg : srvcfg) (c : conn) (t : msg) (sc : script) : conn * msg * list event :=
  let bufcap := c_msize c in
  let '(c1, rf, p, ev) := process_pre cfg c t sc in
  let r0 : msg :=
    match p with
    | PReject (e, n) => Rerror_ e n
    | PDirect r => r
    | PForward | PAuthOp =>
      match t, p with
      | Tclunk_ _, PAuthOp => Rclunk_       (* AuthDestroy(fid); req.RespondRclunk() *)
      | _, _ =>
      match sc_ans sc with
      | AOk r => match t, r with
                 | Tauth_ _ _ _ _, Rauth_ q =>      (* aqid.Type |= QTAUTH *)
                   Rauth_ (mkQid (N.lor (q_type q) c_QTAUTH) (q_vers q) (q_path q))
                 | _, _ => r end
      | AErr e n => Rerror_ e n
      end
      end
    end in
  let r := fit (c_dotu c1) bufcap r0 in
  let '(c2, ev') := post c1 t r rf in
  (c2, on_wire (c_dotu c1) r, ev ++ ev').

Fixpoint seq_run (cfg : srvcfg) (c : conn) (h : list (msg * script)) : conn * list (msg * list event) :=
  match h with
  | [] => (c, [])
  | (t, sc) :: rest =>
    let '(c1, r, ev) := seq_step cfg c t sc in
    let '(c2, out) := seq_run cfg c1 rest in
    (c2, (r, ev) :: out)
  end.

(* Srv.Start: if srv.Msize < IOHDRSZ { srv.Msize = MSIZE } *)
Definition start_cfg (msize : N) (dotu auth : bool) : srvcfg :=
  mkCfg (if msize <? c_IOHDRSZ then c_MSIZE else msize) dotu auth.
