(* The specifications the sequential server model is proved against:
   - the abstract fid set of C04 (which fids the protocol history makes valid, and for whom),
   - the protocol rule table of C05, written independently of process_pre,
   - observers used by the theorems and by the oracle of the correspondence check.
   Definitions only. *)
From Coq Require Import NArith ZArith List Bool PeanoNat.
From V9 Require Import Lib.GoSem Lib.Bytes Gen.Consts Codec.Msg Srv.Seq.
Import ListNotations.
Local Open Scope N_scope.

(* ---------- C04: the abstract fid set ---------- *)
Definition valid := list (N * N).   (* fid number |-> user *)

Fixpoint vget (v : valid) (k : N) : option N :=
  match v with [] => None | (k', u) :: r => if k' =? k then Some u else vget r k end.
Fixpoint vdel (v : valid) (k : N) : valid :=
  match v with [] => [] | (k', u) :: r => if k' =? k then vdel r k else (k', u) :: vdel r k end.
Definition vset (v : valid) (k u : N) : valid := (k, u) :: vdel v k.

(* The five rules of the statement, driven by the request and the reply it got. *)
Definition spec_step (v : valid) (t : msg) (reply : msg) : valid :=
  match t, reply with
  | Tauth_ afid _ _ num, Rauth_ _ => vset v afid num
  | Tattach_ fid _ _ _ num, Rattach_ _ => vset v fid num
  | Twalk_ fid nf names, Rwalk_ qs =>
    if (length qs =? length names)%nat && negb (fid =? nf) then
      match vget v fid with Some u => vset v nf u | None => v end
    else v
  | Tclunk_ fid, Rclunk_ => vdel v fid
  | Tremove_ fid, _ => vdel v fid
  | _, _ => v
  end.

Fixpoint spec_run (v : valid) (h : list (msg * msg)) : valid :=
  match h with [] => v | (t, r) :: rest => spec_run (spec_step v t r) rest end.

Definition abs (ft : ftab) : valid := map (fun kr => (fst kr, f_user (snd kr))) ft.

(* equality of finite maps *)
Definition veq (a b : valid) : Prop := forall k, vget a k = vget b k.

(* concrete invariant between requests: every fid in the table has exactly one
   reference (nothing leaked, nothing dropped), no duplicate keys *)
Definition FInv (ft : ftab) : Prop :=
  NoDup (map fst ft) /\ Forall (fun kr => f_ref (snd kr) = 1%Z) ft /\ fget ft c_NOFID = None.

Definition CInv (cfg : srvcfg) (c : conn) : Prop :=
  FInv (c_fids c) /\ c_IOHDRSZ <= c_msize c /\ c_msize c <= s_msize cfg /\ s_msize cfg <= u32max.

(* ---------- the other attributes the protocol rules consult ---------- *)
(* Open state of a fid: 0 = not open, 1 + mode = open with that mode.  (The
   Omode recorded on a fid that is not open is not observable: the rules read
   it only on an open fid.) *)
Definition ocode (fr : fidrec) : N := if f_opened fr then 1 + f_omode fr else 0.
Definition oabs (ft : ftab) : valid := map (fun kr => (fst kr, ocode (snd kr))) ft.

(* fid number |-> open state, driven by the request and the reply it got *)
Definition ospec_step (v : valid) (t : msg) (reply : msg) : valid :=
  match t, reply with
  | Tauth_ afid _ _ _, Rauth_ _ => vset v afid 0
  | Tattach_ fid _ _ _ _, Rattach_ _ => vset v fid 0
  | Twalk_ fid nf names, Rwalk_ qs =>
    if (length qs =? length names)%nat && negb (fid =? nf) then
      match vget v fid with Some _ => vset v nf 0 | None => v end
    else v
  | Topen_ fid mode, Ropen_ _ _ =>
    match vget v fid with Some _ => vset v fid (1 + mode) | None => v end
  | Tcreate_ fid _ _ mode _, Rcreate_ _ _ =>
    match vget v fid with Some _ => vset v fid (1 + mode) | None => v end
  | Tclunk_ fid, Rclunk_ => vdel v fid
  | Tremove_ fid, _ => vdel v fid
  | _, _ => v
  end.

Fixpoint ospec_run (v : valid) (h : list (msg * msg)) : valid :=
  match h with [] => v | (t, r) :: rest => ospec_run (ospec_step v t r) rest end.

(* fid number |-> type bits (QTDIR / QTAUTH / ...), driven by the request and the reply it got *)
Definition tabs (ft : ftab) : valid := map (fun kr => (fst kr, f_type (snd kr))) ft.

Definition tspec_step (v : valid) (t : msg) (reply : msg) : valid :=
  match t, reply with
  | Tauth_ afid _ _ _, Rauth_ _ => vset v afid c_QTAUTH
  | Tattach_ fid _ _ _ _, Rattach_ q => vset v fid (q_type q)
  | Twalk_ fid nf names, Rwalk_ qs =>
    (* complete walk: the fid that now designates the result (nf; = fid for an
       in-place walk) takes the type of the last qid (of fid for an empty walk) *)
    if (length qs =? length names)%nat then
      match vget v fid with Some ty => vset v nf (last_qid_type qs ty) | None => v end
    else v
  | Tcreate_ fid _ _ _ _, Rcreate_ q _ =>
    match vget v fid with Some _ => vset v fid (q_type q) | None => v end
  | Tclunk_ fid, Rclunk_ => vdel v fid
  | Tremove_ fid, _ => vdel v fid
  | _, _ => v
  end.

Fixpoint tspec_run (v : valid) (h : list (msg * msg)) : valid :=
  match h with [] => v | (t, r) :: rest => tspec_run (tspec_step v t r) rest end.

(* ---------- event observers ---------- *)
Definition is_fwd (e : event) : bool := match e with EvFwd _ _ _ | EvAuth _ _ => true | _ => false end.
Definition forwarded (ev : list event) : bool := existsb is_fwd ev.
Definition count_fwd (ev : list event) : nat := length (filter is_fwd ev).
Definition count_destroy (k : N) (ev : list event) : nat :=
  length (filter (fun e => match e with EvDestroy k' => k' =? k | _ => false end) ev).
Definition is_rerror (r : msg) : bool := match r with Rerror_ _ _ => true | _ => false end.
Definition is_error_text (r : msg) (text : bytes) : bool :=
  match r with Rerror_ e _ => bytes_eqb e text | _ => false end.

(* ---------- C05: the rule table ---------- *)
Definition is_valid (c : conn) (k : N) : bool := match fget (c_fids c) k with Some _ => true | None => false end.
Definition fid_isdir (fr : fidrec) : bool := has_bit (f_type fr) c_QTDIR.
Definition fid_isauth (fr : fidrec) : bool := has_bit (f_type fr) c_QTAUTH.

(* the fid named by a fid-taking request exists *)
Definition fid_ok (c : conn) (t : msg) : bool :=
  if takes_fid t then negb (tfid t =? c_NOFID) && is_valid c (tfid t) else true.

(* count limit over the natural numbers (no wrap-around) *)
Definition count_ok (c : conn) (cnt : N) : bool := cnt + c_IOHDRSZ <=? c_msize c.

(* the access mode is the low two bits of the open mode; OREAD and OEXEC ("read but check
   execute permission") are not modes one may write in *)
Definition open_for_writing (omode : N) : bool :=
  (N.land omode 3 =? c_OWRITE) || (N.land omode 3 =? c_ORDWR).

Definition rules_ok (cfg : srvcfg) (c : conn) (t : msg) (sc : script) : bool :=
  match t with
  | Tversion_ _ _ | Tflush_ _ => false            (* answered by the framework, never forwarded *)
  | Tauth_ afid un _ num =>
    negb (afid =? c_NOFID) && negb (is_valid c afid) && s_auth cfg
    && match lookup_user (c_dotu c) num un with Some _ => true | None => false end
  | Tattach_ fid afid un _ num =>
    negb (fid =? c_NOFID) && negb (is_valid c fid)
    && match lookup_user (c_dotu c) num un with Some _ => true | None => false end
    && ((afid =? c_NOFID) || is_valid c afid)   (* the fid being created is not a valid afid: FidGet does not see it *)
    && (if s_auth cfg then match sc_authcheck sc with None => true | Some _ => false end else true)
  | Twalk_ fid nf names =>
    match fget (c_fids c) fid with
    | Some fr => negb (f_opened fr) && ((length names =? 0)%nat || fid_isdir fr)
                 && ((fid =? nf) || (negb (nf =? c_NOFID) && negb (is_valid c nf)))
    | None => false end
  | Topen_ fid mode =>
    match fget (c_fids c) fid with
    | Some fr => negb (f_opened fr) && (negb (fid_isdir fr) || (mode =? c_OREAD))
    | None => false end
  | Tcreate_ fid _ perm mode _ =>
    match fget (c_fids c) fid with
    | Some fr => negb (f_opened fr) && fid_isdir fr
                 && (negb (has_bit perm c_DMDIR) || (mode =? c_OREAD))
                 && (negb (has_bit perm special_bits) || c_dotu c)
    | None => false end
  | Tread_ fid _ cnt =>
    match fget (c_fids c) fid with
    | Some fr => count_ok c cnt && (if fid_isauth fr then s_auth cfg else true)
    | None => false end
  | Twrite_ fid _ data =>
    match fget (c_fids c) fid with
    | Some fr =>
      if fid_isauth fr then count_ok c (len data) && s_auth cfg
      else f_opened fr && negb (fid_isdir fr) && open_for_writing (f_omode fr)
           && count_ok c (len data)
    | None => false end
  | Tclunk_ fid =>
    match fget (c_fids c) fid with
    | Some fr => if fid_isauth fr then s_auth cfg else true
    | None => false end
  | Tremove_ fid | Tstat_ fid | Twstat_ fid _ => is_valid c fid
  | _ => false                                   (* R-messages are not requests *)
  end.

(* what the oracle checks on the implementation: a well-formed T-message whose
   wire fields fit their types *)
Definition wf_request (dotu : bool) (t : msg) : bool := wf_fields dotu t.
