(* Enabledness and disconnect properties (need only well-formedness). *)
From Coq Require Import NArith List Bool PeanoNat Lia.
From V9 Require Import Lib.GoSem Gen.Consts Srv.Conc Srv.ConcInv Srv.ConcWF.
Import ListNotations.

Lemma disconnect_final_wf : forall c s,
  WF s -> closed s = true ->
  step c s LSend = None /\ step c s LDisconnect = None /\ (forall t k, step c s (LArrive t k) = None) /\
  forall l s', step c s l = Some s' -> closed s' = true /\ wire s' = wire s.
Proof.
  intros c s W Hc. pose proof (proj1 (wf_closed s W) Hc) as Hr.
  repeat split.
  - unfold step. rewrite Hc. reflexivity.
  - unfold step. rewrite Hr. reflexivity.
  - intros. unfold step. rewrite Hr. reflexivity.
  - apply step_Step in H. destruct H; simpl; auto; try congruence.
    all: try match goal with |- context [spawn_next ?s ?o] =>
      destruct (spawn_next_other s o) as (_ & _ & _ & _ & _ & e & _); congruence end.
    all: try match goal with |- context [r2_link ?s ?q ?qn ?nx] =>
      destruct (r2_link_other s q qn nx) as (_ & _ & _ & _ & _ & e & _); congruence end.
  - apply step_Step in H. destruct H; simpl; auto; try congruence.
    all: try match goal with |- context [spawn_next ?s ?o] =>
      destruct (spawn_next_other s o) as (_ & _ & _ & e & _); congruence end.
    all: try match goal with |- context [r2_link ?s ?q ?qn ?nx] =>
      destruct (r2_link_other s q qn nx) as (_ & _ & _ & e & _); congruence end.
Qed.

Lemma wf_getq_freq : forall s fi f, WF s -> nth_error (F s) fi = Some f ->
  exists q, getq s (f_req f) = Some q.
Proof.
  intros. apply getq_some. apply nth_error_In in H0. apply (wf_F s H) in H0. destruct H0. auto.
Qed.

(* every LR step other than a blocked R4 is enabled *)
Lemma LR_enabled : forall c s fi f,
  WF s -> nth_error (F s) fi = Some f -> f_pc f <> RDone ->
  (f_pc f = R4 -> f_sflush f = true \/ closed s = true \/ room c s = true) ->
  step c s (LR fi) <> None.
Proof.
  intros c s fi f W Hf Hpc H4.
  destruct (wf_getq_freq _ _ _ W Hf) as (q & Hq).
  pose proof (wf_F s W f (nth_error_In _ _ Hf)) as (Wa & Wb & Wc).
  unfold step. rewrite Hf, Hq. destruct (f_pc f) eqn:E.
  - destruct (q_resp q); discriminate.
  - destruct (q_prev q) eqn:E2; [|discriminate].
    pose proof (wf_R s W _ _ Hq) as (_ & Wp & _). apply Wp in E2.
    destruct (getq_some _ _ E2) as (qn & ->). discriminate.
  - discriminate.
  - destruct (f_sflush f); [discriminate|]. destruct (closed s); [discriminate|].
    destruct (room c s); [discriminate|]. destruct H4 as [H4|[H4|H4]]; auto; discriminate.
  - discriminate.
  - destruct (f_cur f); discriminate.
  - destruct (f_cur f) eqn:E2; [|exfalso; apply Wc; auto].
    specialize (Wb _ eq_refl). destruct (getq_some _ _ Wb) as (qx & ->). discriminate.
  - congruence.
Qed.

Lemma no_respond_blocks_wf : forall c s fi f,
  WF s -> closed s = true -> nth_error (F s) fi = Some f -> f_pc f <> RDone ->
  step c s (LR fi) <> None.
Proof. intros. eapply LR_enabled; eauto. Qed.

Lemma worker_step_enabled_wf : forall c s r q,
  WF s -> getq s r = Some q ->
  match q_pc q, q_kind q with
  | WSpawned, _ => step c s (LWStart r) <> None
  | WProc, KFlush _ => step c s (LF1 r) <> None
  | WProc, KVersion => step c s (LV1 r) <> None
  | WProc, KOp => step c s (LOpCall r) <> None /\ forall v, step c s (LReject r v) <> None
  | WF2 _, _ => step c s (LF2 r) <> None
  | WF3 _ _, _ => step c s (LF3 r) <> None
  | WTail, _ => step c s (LWTail r) <> None
  | _, _ => True
  end.
Proof.
  intros c s r q W Hq. pose proof (wf_R s W _ _ Hq) as (_ & _ & _ & _ & _ & Wpc & _).
  destruct (q_pc q) eqn:E; auto.
  - destruct (q_kind q); unfold step; rewrite Hq, E; destruct (q_flush q); discriminate.
  - destruct (q_kind q) eqn:K.
    + unfold step. rewrite Hq, E, K.
      match goal with |- match ?x with _ => _ end <> None => destruct x eqn:E2 end; [discriminate|].
      change (getq (vmark s r) r = None) in E2.
      rewrite getq_vmark, Hq in E2. discriminate.
    + unfold step. rewrite Hq, E, K. destruct (alookup (reqs s) oldtag) eqn:E2; [|discriminate].
      apply alookup_In in E2. apply (wf_reqs s W) in E2. destruct (getq_some _ _ E2) as (qt & Hqt).
      rewrite Hqt. rewrite getq_setq, Hq. destruct (r =? n); [discriminate|]. rewrite Hqt. discriminate.
    + split; [|intro v]; unfold step; rewrite Hq, E, K; discriminate.
  - specialize (Wpc target eq_refl). destruct (getq_some _ _ Wpc) as (qt & Hqt).
    destruct (q_kind q); unfold step; rewrite Hq, E, Hqt;
      (destruct (q_work qt || q_saved qt); [rewrite Hq; discriminate|]);
      rewrite getq_setq, Hqt; (destruct (target =? r); [discriminate| rewrite Hq; discriminate]).
  - specialize (Wpc target eq_refl). destruct (getq_some _ _ Wpc) as (qt & Hqt).
    destruct (q_kind q); unfold step; rewrite Hq, E; (destruct worked; [|discriminate]);
      (destruct (has_flushop c); [|discriminate]); rewrite Hqt, getq_setq, Hqt;
      (destruct (target =? r); [discriminate| rewrite Hq; discriminate]).
  - destruct (q_kind q); unfold step; rewrite Hq, E; discriminate.
Qed.
