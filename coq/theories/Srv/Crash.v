(* The crash sites of the request path (srv_srv.go Process/PostProcess, srv_fcall.go
   handlers, srv_respond.go packRerror/RespondRx, srv_conn.go send/SetTag): the places
   where the Go code dereferences req.Fid / req.Afid / req.Newfid (nil when the
   message carries NOFID or the lookup failed), slices the error text with a computed
   bound, or patches the tag into the packed reply.  Each site is a boolean condition
   over the intermediate values of the sequential model; "no client behaviour can
   crash the server" is: every condition holds for EVERY request in EVERY reachable
   connection state, whatever the implementation answers.  Definitions only. *)
From Coq Require Import NArith ZArith List Bool PeanoNat.
From V9 Require Import Lib.GoSem Lib.Bytes Gen.Consts Codec.Msg Srv.Seq Srv.SeqSpec.
Import ListNotations.
Local Open Scope N_scope.

Definition present (c : conn) (want : N) (held : option N) : bool :=
  match held with
  | Some k => (k =? want) && match fget (c_fids c) k with Some _ => true | None => false end
  | None => false
  end.

(* S1: whenever the framework hands the request to the implementation (SrvReqOps or
   AuthOps), every fid pointer the handler and the implementation dereference is set:
   req.Fid for the fid-taking messages and Tattach, req.Afid for Tauth and for a Tattach
   naming an afid, req.Newfid for Twalk. *)
Definition site_fids (cfg : srvcfg) (c : conn) (t : msg) (sc : script) : bool :=
  let '(c1, rf, p, _) := process_pre cfg c t sc in
  match p with
  | PForward | PAuthOp =>
    match t with
    | Tauth_ afid _ _ _ => present c1 afid (r_afid rf)
    | Tattach_ fid afid _ _ _ =>
      present c1 fid (r_fid rf) && (if afid =? c_NOFID then true else present c1 afid (r_afid rf))
    | Twalk_ fid nf _ => present c1 fid (r_fid rf) && present c1 nf (r_newfid rf)
    | _ => if takes_fid t then present c1 (tfid t) (r_fid rf) else true
    end
  | _ => true
  end.

(* S2: a request whose fid field is NOFID, or names no fid of the connection, never
   reaches a handler that would dereference it: it is refused before *)
Definition site_refused_early (cfg : srvcfg) (c : conn) (t : msg) (sc : script) : bool :=
  let '(c1, rf, p, ev) := process_pre cfg c t sc in
  if takes_fid t && ((tfid t =? c_NOFID) || negb (is_valid c (tfid t)))
  then match p with PReject _ => negb (forwarded ev) | _ => false end
  else true.

(* S3: packRerror slices the error text to what fits: ename[:cap-13] needs 13 <= cap;
   S4: Conn.send patches the tag at offsets 5-6 of the packed reply: the reply that is
       sent is a packed message of at least 7 bytes and at most the buffer's capacity *)
Definition site_reply (cfg : srvcfg) (c : conn) (t : msg) (sc : script) : bool :=
  let '(c', r, _) := seq_step cfg c t sc in
  (13 <=? c_msize c) && (7 <=? len (spec_encode (c_dotu c') 0 r)) && (len (spec_encode (c_dotu c') 0 r) <=? c_msize c).

Definition sites_ok (cfg : srvcfg) (c : conn) (t : msg) (sc : script) : bool :=
  site_fids cfg c t sc && site_refused_early cfg c t sc && site_reply cfg c t sc.

(* over a whole history *)
Fixpoint run_sites_ok (cfg : srvcfg) (c : conn) (h : list (msg * script)) : bool :=
  match h with
  | [] => true
  | (t, sc) :: rest =>
    sites_ok cfg c t sc && (let '(c1, _, _) := seq_step cfg c t sc in run_sites_ok cfg c1 rest)
  end.
