(* Proofs about the sequential server model (Srv/Seq.v) against Srv/SeqSpec.v. *)
From Coq Require Import NArith ZArith List Bool PeanoNat Lia.
From V9 Require Import Lib.GoSem Lib.Bytes Gen.Consts Codec.Msg Srv.Seq Srv.SeqSpec Srv.SeqLemmas.
Import ListNotations.
Local Open Scope N_scope.

(* ---- auxiliary facts ---- *)
Lemma step_msize : forall cfg c t sc c' r ev,
  c_IOHDRSZ <= c_msize c -> c_msize c <= s_msize cfg ->
  seq_step cfg c t sc = (c', r, ev) ->
  c_IOHDRSZ <= c_msize c' /\ c_msize c' <= s_msize cfg.
Proof.
  intros until ev. intros H1 H2 H. destruct c as [ms du ft]. cbn [c_msize] in *.
  destruct t; start_step H; pre_loop; bool_norm; cbn [c_msize with_fids]; auto.
  match goal with E : (_ <? c_IOHDRSZ) = false |- _ => apply N.ltb_ge in E end.
  destruct (msize <? ms) eqn:EE; [apply N.ltb_lt in EE|]; lia.
Qed.

Lemma veq_spec_step : forall a b t r, veq a b -> veq (spec_step a t r) (spec_step b t r).
Proof.
  unfold veq. intros a b t r H k.
  destruct t; try apply H; destruct r; try apply H; cbn [spec_step];
  try (rewrite !vget_vset, H; reflexivity); try (rewrite !vget_vdel, H; reflexivity).
  destruct (_ && _); try apply H. rewrite <- H. destruct (vget a fid); try apply H.
  rewrite !vget_vset, H; reflexivity.
Qed.

Lemma veq_spec_run : forall h a b, veq a b -> veq (spec_run a h) (spec_run b h).
Proof.
  induction h as [|[t r] h IH]; intros; simpl; auto. apply IH. apply veq_spec_step; auto.
Qed.

Lemma fit_text_ok : forall du cap e, 13 + len e <= cap -> fit_text du cap e = e.
Proof.
  intros du cap e H. unfold fit_text.
  replace (7 + 2 + len e + (if du then 4 else 0) <=? cap) with true; auto.
  symmetry. apply N.leb_le. destruct du; lia.
Qed.

Lemma is_error_text_wire : forall du e n txt,
  is_error_text (on_wire du (Rerror_ e n)) txt = bytes_eqb e txt.
Proof. intros. destruct du; reflexivity. Qed.

Lemma is_rerror_wire : forall du r, is_rerror (on_wire du r) = is_rerror r.
Proof. intros. destruct du; [reflexivity|]. destruct r; reflexivity. Qed.

Ltac reject_shape :=
  rewrite ?reply0_reject, ?fit_rerror, ?forwarded_post;
  unfold e_unknownfid, e_inuse, E; cbn [fst snd].

(* ---- invariants ---- *)
Theorem cinv_init : forall msize dotu auth,
  msize <= u32max ->
  CInv (start_cfg msize dotu auth) (conn_init (start_cfg msize dotu auth)).
Proof.
  intros msize dotu auth H. unfold CInv, conn_init, start_cfg, FInv. cbn [c_fids c_msize s_msize].
  repeat split; try constructor.
  - destruct (msize <? c_IOHDRSZ) eqn:E; [|apply N.ltb_ge in E; exact E].
    unfold c_IOHDRSZ, c_MSIZE. lia.
  - reflexivity.
  - destruct (msize <? c_IOHDRSZ) eqn:E; [|exact H].
    unfold c_MSIZE, u32max. lia.
Qed.

(* every request, whatever the implementation answers, leaves every remaining
   fid with exactly one reference; msize stays within [IOHDRSZ, srv msize] *)
Theorem cinv_step : forall cfg c t sc c' r ev,
  CInv cfg c -> seq_step cfg c t sc = (c', r, ev) -> CInv cfg c'.
Proof.
  intros until ev. intros [HI [H1 [H2 H3]]] H.
  apply FInv_ext in HI. destruct HI as [ND [HF HN]].
  destruct (step_msize _ _ _ _ _ _ _ H1 H2 H) as [M1 M2].
  unfold CInv. split; [|auto]. apply FInv_ext. split; [|split].
  - eapply step_nodup; eauto.
  - intros k r' Hk. destruct (step_key _ _ _ _ _ _ _ k HF HN H) as [K _]. auto.
  - destruct (step_key _ _ _ _ _ _ _ c_NOFID HF HN H) as [_ [K _]]. auto.
Qed.

(* ---- C04 ---- *)
(* the concrete table follows the abstract fid set step by step *)
Theorem fid_table_refines_spec : forall cfg c t sc c' r ev,
  CInv cfg c -> seq_step cfg c t sc = (c', r, ev) ->
  veq (abs (c_fids c')) (spec_step (abs (c_fids c)) t r).
Proof.
  intros until ev. intros [HI _] H k.
  apply FInv_ext in HI. destruct HI as [ND [HF HN]].
  destruct (step_key _ _ _ _ _ _ _ k HF HN H) as [_ [_ [K _]]].
  rewrite vget_abs. exact K.
Qed.

(* ... and therefore over whole histories *)
Theorem fid_table_refines_spec_run : forall cfg h c c' out,
  CInv cfg c -> seq_run cfg c h = (c', out) ->
  length out = length h /\
  veq (abs (c_fids c')) (spec_run (abs (c_fids c)) (combine (map fst h) (map fst out))).
Proof.
  induction h as [|[t sc] h IH]; intros c c' out HC H; simpl in H.
  - inversion H; subst. split; [reflexivity|]. intro k; reflexivity.
  - destruct (seq_step cfg c t sc) as [[c1 r] ev] eqn:E1.
    destruct (seq_run cfg c1 h) as [c2 out'] eqn:E2.
    inversion H; subst.
    destruct (IH _ _ _ (cinv_step _ _ _ _ _ _ _ HC E1) E2) as [L V].
    split; [simpl; congruence|].
    simpl. intro k. rewrite V. apply veq_spec_run.
    eapply fid_table_refines_spec; eauto.
Qed.

(* a request naming an invalid fid is refused with 'unknown fid' and nothing is forwarded *)
Theorem unknown_fid_refused : forall cfg c t sc c' r ev,
  CInv cfg c -> takes_fid t = true -> is_valid c (tfid t) = false ->
  13 + len c_Eunknownfid_text <= c_msize c ->
  seq_step cfg c t sc = (c', r, ev) ->
  is_error_text r c_Eunknownfid_text = true /\ forwarded ev = false /\ c' = c.
Proof.
  intros until ev. intros HC TF IV SZ H. destruct c as [ms du ft].
  unfold is_valid in IV. cbn [c_fids c_msize] in *.
  destruct t; try discriminate TF; cbn [tfid] in IV;
  start_step H; pre_loop; bool_norm; use_fget; try discriminate IV;
  cbn [c_fids c_dotu c_msize]; reject_shape;
  rewrite fit_text_ok, is_error_text_wire by assumption;
  (split; [reflexivity | split; [reflexivity|]]);
  unfold with_fids, post_tab, no_refs; cbn [post_h r_fid r_afid r_newfid dec1 fst snd c_fids c_msize c_dotu];
  reflexivity.
Qed.

(* binding an already valid fid is refused with 'fid already in use' *)
Theorem fid_in_use_refused_attach : forall cfg c fid afid un an num sc c' r ev,
  CInv cfg c -> is_valid c fid = true -> 13 + len c_Einuse_text <= c_msize c ->
  seq_step cfg c (Tattach_ fid afid un an num) sc = (c', r, ev) ->
  is_error_text r c_Einuse_text = true /\ forwarded ev = false /\ c' = c.
Proof.
  intros until ev. intros HC IV SZ H. destruct c as [ms du ft].
  destruct HC as [HI _]. apply FInv_ext in HI. destruct HI as [_ [_ HN]].
  unfold is_valid in IV. cbn [c_fids c_msize] in *.
  start_step H; pre_loop; bool_norm; eqb_norm; use_fget; try discriminate IV; try discriminate HN;
  cbn [c_fids c_dotu c_msize]; reject_shape;
  rewrite fit_text_ok, is_error_text_wire by assumption;
  (split; [reflexivity | split; [reflexivity|]]);
  unfold with_fids, post_tab, no_refs; cbn [post_h r_fid r_afid r_newfid dec1 fst snd c_fids c_msize c_dotu];
  reflexivity.
Qed.

Theorem fid_in_use_refused_auth : forall cfg c afid un an num sc c' r ev,
  CInv cfg c -> is_valid c afid = true -> 13 + len c_Einuse_text <= c_msize c ->
  seq_step cfg c (Tauth_ afid un an num) sc = (c', r, ev) ->
  is_error_text r c_Einuse_text = true /\ forwarded ev = false /\ c' = c.
Proof.
  intros until ev. intros HC IV SZ H. destruct c as [ms du ft].
  destruct HC as [HI _]. apply FInv_ext in HI. destruct HI as [_ [_ HN]].
  unfold is_valid in IV. cbn [c_fids c_msize] in *.
  start_step H; pre_loop; bool_norm; eqb_norm; use_fget; try discriminate IV; try discriminate HN;
  cbn [c_fids c_dotu c_msize]; reject_shape;
  rewrite fit_text_ok, is_error_text_wire by assumption;
  (split; [reflexivity | split; [reflexivity|]]);
  unfold with_fids, post_tab, no_refs; cbn [post_h r_fid r_afid r_newfid dec1 fst snd c_fids c_msize c_dotu];
  reflexivity.
Qed.

Theorem fid_in_use_refused_walk : forall cfg c fid nf names sc c' r ev,
  CInv cfg c -> is_valid c nf = true -> fid <> nf ->
  seq_step cfg c (Twalk_ fid nf names) sc = (c', r, ev) ->
  is_rerror r = true /\ forwarded ev = false /\ veq (abs (c_fids c')) (abs (c_fids c)).
Proof.
  intros until ev. intros HC IV NE H.
  assert (A : is_rerror r = true /\ forwarded ev = false).
  { destruct c as [ms du ft]. unfold is_valid in IV. cbn [c_fids] in IV.
    apply N.eqb_neq in NE.
    start_step H; pre_loop; bool_norm; eqb_norm; use_fget; try discriminate IV; try congruence;
    cbn [c_fids c_dotu c_msize]; rewrite ?reply0_reject, ?fit_rerror, ?forwarded_post, is_rerror_wire;
    split; reflexivity. }
  destruct A as [A1 A2]. repeat split; auto.
  pose proof (fid_table_refines_spec _ _ _ _ _ _ _ HC H) as V.
  destruct r; try discriminate A1. exact V.
Qed.

(* FidDestroy: at most once per fid and request; exactly once when a valid fid
   becomes invalid; never for a fid that stays valid *)
Theorem destroy_exactly_once : forall cfg c t sc c' r ev k,
  CInv cfg c -> seq_step cfg c t sc = (c', r, ev) ->
  (count_destroy k ev <= 1)%nat /\
  (is_valid c k = true -> is_valid c' k = false -> count_destroy k ev = 1%nat) /\
  (is_valid c' k = true -> count_destroy k ev = 0%nat).
Proof.
  intros until k. intros [HI _] H.
  apply FInv_ext in HI. destruct HI as [ND [HF HN]].
  destruct (step_key _ _ _ _ _ _ _ k HF HN H) as [_ [_ [_ K]]]. exact K.
Qed.

(* ---- open state and type bits follow the protocol history ---- *)
Lemma veq_ospec_step : forall a b t r, veq a b -> veq (ospec_step a t r) (ospec_step b t r).
Proof.
  unfold veq. intros a b t r H k.
  destruct t; try apply H; destruct r; try apply H; cbn [ospec_step];
  try (rewrite !vget_vset, H; reflexivity); try (rewrite !vget_vdel, H; reflexivity);
  try (destruct (_ && _); try apply H); rewrite <- H; destruct (vget a fid); try apply H;
  rewrite !vget_vset, H; reflexivity.
Qed.

Lemma veq_tspec_step : forall a b t r, veq a b -> veq (tspec_step a t r) (tspec_step b t r).
Proof.
  unfold veq. intros a b t r H k.
  destruct t; try apply H; destruct r; try apply H; cbn [tspec_step];
  try (rewrite !vget_vset, H; reflexivity); try (rewrite !vget_vdel, H; reflexivity);
  try (destruct (_ =? _)%nat; try apply H); rewrite <- H; destruct (vget a fid); try apply H;
  rewrite !vget_vset, H; reflexivity.
Qed.

Lemma veq_ospec_run : forall h a b, veq a b -> veq (ospec_run a h) (ospec_run b h).
Proof.
  induction h as [|[t r] h IH]; intros; simpl; auto. apply IH. apply veq_ospec_step; auto.
Qed.

Lemma veq_tspec_run : forall h a b, veq a b -> veq (tspec_run a h) (tspec_run b h).
Proof.
  induction h as [|[t r] h IH]; intros; simpl; auto. apply IH. apply veq_tspec_step; auto.
Qed.

(* whether a fid is open, and with which mode, is determined by the requests and
   the replies they got *)
Theorem open_state_follows_history : forall cfg c t sc c' r ev,
  CInv cfg c -> seq_step cfg c t sc = (c', r, ev) ->
  veq (oabs (c_fids c')) (ospec_step (oabs (c_fids c)) t r).
Proof.
  intros until ev. intros [HI _] H k.
  apply FInv_ext in HI. destruct HI as [ND [HF HN]].
  destruct (step_key_attr _ _ _ _ _ _ _ k HF HN H) as [K _].
  rewrite vget_oabs. exact K.
Qed.

(* ... and so are its type bits *)
Theorem fid_type_follows_history : forall cfg c t sc c' r ev,
  CInv cfg c -> seq_step cfg c t sc = (c', r, ev) ->
  veq (tabs (c_fids c')) (tspec_step (tabs (c_fids c)) t r).
Proof.
  intros until ev. intros [HI _] H k.
  apply FInv_ext in HI. destruct HI as [ND [HF HN]].
  destruct (step_key_attr _ _ _ _ _ _ _ k HF HN H) as [_ K].
  rewrite vget_tabs. exact K.
Qed.

Theorem open_state_follows_history_run : forall cfg h c c' out,
  CInv cfg c -> seq_run cfg c h = (c', out) ->
  length out = length h /\
  veq (oabs (c_fids c')) (ospec_run (oabs (c_fids c)) (combine (map fst h) (map fst out))).
Proof.
  induction h as [|[t sc] h IH]; intros c c' out HC H; simpl in H.
  - inversion H; subst. split; [reflexivity|]. intro k; reflexivity.
  - destruct (seq_step cfg c t sc) as [[c1 r] ev] eqn:E1.
    destruct (seq_run cfg c1 h) as [c2 out'] eqn:E2.
    inversion H; subst.
    destruct (IH _ _ _ (cinv_step _ _ _ _ _ _ _ HC E1) E2) as [L V].
    split; [simpl; congruence|].
    simpl. intro k. rewrite V. apply veq_ospec_run.
    eapply open_state_follows_history; eauto.
Qed.

Theorem fid_type_follows_history_run : forall cfg h c c' out,
  CInv cfg c -> seq_run cfg c h = (c', out) ->
  length out = length h /\
  veq (tabs (c_fids c')) (tspec_run (tabs (c_fids c)) (combine (map fst h) (map fst out))).
Proof.
  induction h as [|[t sc] h IH]; intros c c' out HC H; simpl in H.
  - inversion H; subst. split; [reflexivity|]. intro k; reflexivity.
  - destruct (seq_step cfg c t sc) as [[c1 r] ev] eqn:E1.
    destruct (seq_run cfg c1 h) as [c2 out'] eqn:E2.
    inversion H; subst.
    destruct (IH _ _ _ (cinv_step _ _ _ _ _ _ _ HC E1) E2) as [L V].
    split; [simpl; congruence|].
    simpl. intro k. rewrite V. apply veq_tspec_run.
    eapply fid_type_follows_history; eauto.
Qed.

(* a request answered with an error, other than Tremove, changes neither the
   open state nor the type of any fid (nor the fid set) *)
Theorem error_changes_no_attribute : forall cfg c t sc c' r ev,
  CInv cfg c -> seq_step cfg c t sc = (c', r, ev) ->
  is_rerror r = true -> (forall fid, t <> Tremove_ fid) ->
  veq (abs (c_fids c')) (abs (c_fids c)) /\
  veq (oabs (c_fids c')) (oabs (c_fids c)) /\
  veq (tabs (c_fids c')) (tabs (c_fids c)).
Proof.
  intros until ev. intros HC H ER NR.
  pose proof (fid_table_refines_spec _ _ _ _ _ _ _ HC H) as V.
  pose proof (open_state_follows_history _ _ _ _ _ _ _ HC H) as VO.
  pose proof (fid_type_follows_history _ _ _ _ _ _ _ HC H) as VT.
  destruct r; try discriminate ER.
  destruct t; try (exfalso; exact (NR _ eq_refl)); repeat split; assumption.
Qed.

(* Tremove, whatever the reply, removes that fid and touches no other *)
Theorem remove_removes_key_only : forall cfg c fid sc c' r ev,
  CInv cfg c -> seq_step cfg c (Tremove_ fid) sc = (c', r, ev) ->
  veq (abs (c_fids c')) (vdel (abs (c_fids c)) fid) /\
  veq (oabs (c_fids c')) (vdel (oabs (c_fids c)) fid) /\
  veq (tabs (c_fids c')) (vdel (tabs (c_fids c)) fid).
Proof.
  intros until ev. intros HC H.
  pose proof (fid_table_refines_spec _ _ _ _ _ _ _ HC H) as V.
  pose proof (open_state_follows_history _ _ _ _ _ _ _ HC H) as VO.
  pose proof (fid_type_follows_history _ _ _ _ _ _ _ HC H) as VT.
  destruct r; repeat split; assumption.
Qed.

(* an open that is not answered with Ropen leaves every open state as it was
   (in particular a refused second Topen does not close the fid) *)
Theorem failed_open_keeps_open_state : forall cfg c fid mode sc c' r ev,
  CInv cfg c -> seq_step cfg c (Topen_ fid mode) sc = (c', r, ev) ->
  is_rtype r c_Ropen = false ->
  veq (oabs (c_fids c')) (oabs (c_fids c)).
Proof.
  intros until ev. intros HC H NR.
  pose proof (open_state_follows_history _ _ _ _ _ _ _ HC H) as VO.
  destruct r; try discriminate NR; assumption.
Qed.

(* Topen on a fid that is already open is refused, nothing is forwarded, nothing changes *)
Theorem second_open_refused : forall cfg c fid mode fr sc c' r ev,
  CInv cfg c -> fget (c_fids c) fid = Some fr -> f_opened fr = true ->
  seq_step cfg c (Topen_ fid mode) sc = (c', r, ev) ->
  is_rerror r = true /\ forwarded ev = false /\
  veq (oabs (c_fids c')) (oabs (c_fids c)) /\ veq (tabs (c_fids c')) (tabs (c_fids c)).
Proof.
  intros until ev. intros HC G OP H.
  assert (A : is_rerror r = true /\ forwarded ev = false).
  { destruct c as [ms du ft]. cbn [c_fids] in G.
    start_step H; pre_loop; bool_norm; eqb_norm; use_fget; cbn [setref f_opened] in *; try congruence;
    cbn [c_fids c_dotu c_msize]; rewrite ?reply0_reject, ?fit_rerror, ?forwarded_post, is_rerror_wire;
    split; reflexivity. }
  destruct A as [A1 A2]. split; [exact A1|split; [exact A2|]].
  destruct (error_changes_no_attribute _ _ _ _ _ _ _ HC H A1 ltac:(intros; discriminate)) as [_ K]. exact K.
Qed.

(* a walk that is not complete (fewer qids than names) changes no attribute of
   any fid (in particular an in-place partial walk leaves the type of the fid) *)
Theorem partial_walk_changes_no_attribute : forall cfg c fid nf names sc c' qs ev,
  CInv cfg c -> seq_step cfg c (Twalk_ fid nf names) sc = (c', Rwalk_ qs, ev) ->
  length qs <> length names ->
  veq (abs (c_fids c')) (abs (c_fids c)) /\
  veq (oabs (c_fids c')) (oabs (c_fids c)) /\
  veq (tabs (c_fids c')) (tabs (c_fids c)).
Proof.
  intros until ev. intros HC H NE.
  pose proof (fid_table_refines_spec _ _ _ _ _ _ _ HC H) as V.
  pose proof (open_state_follows_history _ _ _ _ _ _ _ HC H) as VO.
  pose proof (fid_type_follows_history _ _ _ _ _ _ _ HC H) as VT.
  apply Nat.eqb_neq in NE. cbn [spec_step ospec_step tspec_step] in *.
  rewrite NE in *. repeat split; assumption.
Qed.

(* Non-vacuity: attach 0 (directory), walk 0->1 to a file, open 1 with mode 2,
   open 1 again (refused: fid 1 stays open with mode 2), partial in-place walk
   from 0 (fid 0 stays a directory); the specifications say the same. *)
Example attributes_nonvacuous :
  let cfg := start_cfg 8192 true false in
  let qd := mkQid 128 0 1 in
  let qf := mkQid 0 0 2 in
  let h := [(Tattach_ 0 c_NOFID [] [] 5, mkScript (AOk (Rattach_ qd)) None);
            (Twalk_ 0 1 [[102]], mkScript (AOk (Rwalk_ [qf])) None);
            (Topen_ 1 2, mkScript (AOk (Ropen_ qf 0)) None);
            (Topen_ 1 0, mkScript (AOk (Ropen_ qf 0)) None);
            (Twalk_ 0 0 [[102]; [103]], mkScript (AOk (Rwalk_ [qf])) None)] in
  let '(c, out) := seq_run cfg (conn_init cfg) h in
  let hist := combine (map fst h) (map fst out) in
  map is_rerror (map fst out) = [false; false; false; true; false] /\
  vget (oabs (c_fids c)) 1 = Some 3 /\ vget (ospec_run [] hist) 1 = Some 3 /\
  vget (oabs (c_fids c)) 0 = Some 0 /\
  vget (tabs (c_fids c)) 0 = Some 128 /\ vget (tspec_run [] hist) 0 = Some 128 /\
  vget (tabs (c_fids c)) 1 = Some 0 /\ vget (tspec_run [] hist) 1 = Some 0.
Proof. vm_compute. repeat split; reflexivity. Qed.

(* Why [ocode] forgets the mode of a fid that is not open: the handler records the
   requested mode BEFORE the implementation is asked and does not take it back when
   the open fails.  The raw f_omode therefore changes under a request answered with
   Rerror; no rule reads it on a fid that is not open. *)
Example omode_of_unopened_fid_is_not_restored :
  let cfg := start_cfg 8192 true false in
  let qf := mkQid 0 0 2 in
  let h := [(Tattach_ 0 c_NOFID [] [] 5, mkScript (AOk (Rattach_ qf)) None);
            (Topen_ 0 2, mkScript (AErr [101] 1) None)] in
  let '(c, out) := seq_run cfg (conn_init cfg) h in
  map is_rerror (map fst out) = [false; true] /\
  option_map f_omode (fget (c_fids c) 0) = Some 2 /\
  option_map f_opened (fget (c_fids c) 0) = Some false /\
  vget (oabs (c_fids c)) 0 = Some 0.
Proof. vm_compute. repeat split; reflexivity. Qed.

(* ---- C05 ---- *)
(* the 32-bit guard as written equals the limit over the naturals *)
Theorem count_guard_exact : forall msize cnt,
  c_IOHDRSZ <= msize -> msize <= u32max ->
  count_too_large msize cnt = negb (cnt + c_IOHDRSZ <=? msize).
Proof.
  intros msize cnt H1 H2. unfold count_too_large, two32, c_IOHDRSZ, u32max in *.
  replace ((msize + 4294967296 - 24) mod 4294967296) with (msize - 24).
  - destruct (msize - 24 <? cnt) eqn:E; destruct (cnt + 24 <=? msize) eqn:E'; auto;
    try apply N.ltb_lt in E; try apply N.ltb_ge in E; try apply N.leb_le in E';
    try apply N.leb_gt in E'; lia.
  - replace (msize + 4294967296 - 24) with ((msize - 24) + 1 * 4294967296) by lia.
    rewrite N.mod_add by lia. rewrite N.mod_small; lia.
Qed.

Ltac atom_split :=
  match goal with
  | |- context [fget ?t ?k] => destruct (fget t k) eqn:?
  | |- context [N.eqb ?a ?b] => destruct (N.eqb a b) eqn:?
  | |- context [has_bit ?a ?b] => destruct (has_bit a b) eqn:?
  | |- context [N.leb ?a ?b] => destruct (N.leb a b) eqn:?
  | |- context [s_auth ?c] => destruct (s_auth c) eqn:?
  | |- context [sc_authcheck ?c] => destruct (sc_authcheck c) eqn:?
  | |- context [negb ?b] => is_var b; destruct b
  | |- context [andb ?b _] => is_var b; destruct b
  | |- context [andb _ ?b] => is_var b; destruct b
  | |- context [orb ?b _] => is_var b; destruct b
  | |- context [orb _ ?b] => is_var b; destruct b
  | |- context [if ?b then _ else _] => is_var b; destruct b
  end.

Ltac rules_fin HF :=
  use_inv HF; cbn in *; subst; rewrite ?N.eqb_refl in *;
  repeat match goal with H : ?X = _ |- context [?X] => rewrite H end;
  repeat atom_split; cbn in *; bool_norm;
  try discriminate; try reflexivity; try congruence.

(* a request reaches the implementation iff its fid is valid and the rule table allows it *)
Theorem forward_iff_rules : forall cfg c t sc c' r ev,
  CInv cfg c -> seq_step cfg c t sc = (c', r, ev) ->
  forwarded ev = fid_ok c t && rules_ok cfg c t sc.
Proof.
  intros until ev. intros HC H. destruct c as [ms du ft].
  destruct HC as [HI [M1 [M2 M3]]]. apply FInv_ext in HI. destruct HI as [_ [HF HN]].
  cbn [c_fids c_msize] in *.
  assert (CG: forall cnt, count_too_large ms cnt = negb (cnt + c_IOHDRSZ <=? ms))
    by (intros; apply count_guard_exact; lia).
  destruct t;
  start_step H; pre_loop; rewrite ?CG in *; bool_norm; eqb_norm; rewrite forwarded_post;
  unfold fid_ok, rules_ok, is_valid, count_ok, fid_isdir, fid_isauth, lookup_user, open_for_writing;
  cbn [takes_fid tfid c_fids c_msize c_dotu forwarded existsb is_fwd]; use_fget;
  try destruct wnames; rules_fin HF.
Qed.

Ltac in_cases HI :=
  apply in_post_ev in HI; [|reflexivity]; cbn [In] in HI;
  repeat match type of HI with _ \/ _ => destruct HI as [HI|HI] end;
  try contradiction; try discriminate HI; inversion HI; subst; clear HI.

(* forwarded exactly once, with the fid, user and arguments the client named *)
Theorem forward_faithful : forall cfg c t sc c' r ev,
  CInv cfg c -> seq_step cfg c t sc = (c', r, ev) ->
  (count_fwd ev <= 1)%nat /\
  (forall t' k u, In (EvFwd t' k u) ev ->
     t' = t /\ k = tfid t /\
     (is_tattach t = false -> exists fr, fget (c_fids c) k = Some fr /\ u = f_user fr)) /\
  (forall t' k, In (EvAuth t' k) ev -> t' = t).
Proof.
  intros until ev. intros HC H. destruct c as [ms du ft]. cbn [c_fids].
  destruct t; start_step H; pre_loop; bool_norm; rewrite count_fwd_post; cbn [tfid is_tattach];
  (split; [cbn; lia|]);
  (split; [intros t' k u HI | intros t' k HI]); in_cases HI; try reflexivity;
  (split; [reflexivity | split; [reflexivity|]]); intros; try discriminate;
  eexists; (split; [eassumption | reflexivity]).
Qed.

(* a refused request is answered with an error *)
Theorem refuse_is_error : forall cfg c t sc c' r ev,
  CInv cfg c -> seq_step cfg c t sc = (c', r, ev) ->
  forwarded ev = false ->
  match t with Tversion_ _ _ | Tflush_ _ => True | _ => is_rerror r = true end.
Proof.
  intros until ev. intros HC H NF. destruct c as [ms du ft].
  destruct t; trivial; start_step H; pre_loop; bool_norm; rewrite forwarded_post in NF;
  cbn [forwarded existsb is_fwd orb] in NF; try discriminate NF;
  cbn [c_dotu]; rewrite ?reply0_reject, ?fit_rerror, is_rerror_wire; reflexivity.
Qed.

(* with AuthOps, no attach reaches the implementation unless AuthCheck accepted it *)
Theorem auth_gate : forall cfg c t sc c' r ev t' k u,
  CInv cfg c -> s_auth cfg = true -> seq_step cfg c t sc = (c', r, ev) ->
  In (EvFwd t' k u) ev -> is_tattach t' = true ->
  sc_authcheck sc = None /\ exists a, In (EvAuthCheck k a) ev.
Proof.
  intros until u. intros HC SA H HI TA.
  destruct (forward_faithful _ _ _ _ _ _ _ HC H) as [_ [F _]].
  destruct (F _ _ _ HI) as [Et _]. subst t'. clear F.
  destruct t; try discriminate TA. destruct c as [ms du ft].
  start_step H; pre_loop; bool_norm; try congruence;
  in_cases HI;
  (split; [first [assumption|reflexivity] | eexists; apply in_or_app; left; cbn [In]; left; reflexivity]).
Qed.

(* ---- encoded lengths ---- *)
Lemma len_app : forall a b : bytes, len (a ++ b) = len a + len b.
Proof. intros. unfold len. rewrite app_length. lia. Qed.

Lemma len_le_enc : forall k v, len (le_enc k v) = N.of_nat k.
Proof.
  unfold len. intros k v. f_equal. revert v. induction k; intros; simpl; auto.
Qed.

Lemma len_spec_encode : forall du tag m,
  len (spec_encode du tag m) = 7 + len (enc_fields (layout du m)).
Proof.
  intros. unfold spec_encode. cbv zeta. rewrite !len_app, !len_le_enc.
  change (len [proto_typ m]) with 1. lia.
Qed.

Lemma len_rerror : forall du e n,
  len (spec_encode du 0 (Rerror_ e n)) = 9 + len e + (if du then 4 else 0).
Proof.
  intros. rewrite len_spec_encode. unfold layout, enc_fields.
  destruct du; cbn [flat_map enc_field app]; rewrite ?len_app, ?len_le_enc;
  change (len []) with 0; lia.
Qed.

Lemma len_rversion : forall du m v, len (spec_encode du 0 (Rversion_ m v)) = 13 + len v.
Proof.
  intros. rewrite len_spec_encode. unfold layout, enc_fields.
  cbn [flat_map enc_field app]. rewrite ?len_app, ?len_le_enc. change (len []) with 0. lia.
Qed.

Lemma encode_norm : forall du r, spec_encode du 0 (norm_msg du r) = spec_encode du 0 r.
Proof. intros. destruct du; [reflexivity|]. destruct r; reflexivity. Qed.

Lemma fit_error_len : forall du cap e n, c_IOHDRSZ <= cap ->
  len (spec_encode du 0 (fit_error du cap e n)) <= cap.
Proof.
  intros du cap e n H. unfold c_IOHDRSZ in H. unfold fit_error.
  destruct (7 + 2 + len e + (if du then 4 else 0) <=? cap) eqn:E; rewrite len_rerror.
  - apply N.leb_le in E. lia.
  - assert (L : len (firstn (N.to_nat (cap - 13)) e) <= cap - 13).
    { unfold len. pose proof (firstn_le_length (N.to_nat (cap - 13)) e). lia. }
    destruct du; lia.
Qed.

Lemma fit_len : forall du cap r, c_IOHDRSZ <= cap -> len (spec_encode du 0 (fit du cap r)) <= cap.
Proof.
  intros du cap r H.
  assert (G : forall r', len (spec_encode du 0
              (if len (spec_encode du 0 r') <=? cap then r'
               else fit_error du cap e_bufsmall_text c_EINVAL)) <= cap).
  { intros r'. destruct (len (spec_encode du 0 r') <=? cap) eqn:E.
    - apply N.leb_le. exact E.
    - apply fit_error_len. exact H. }
  unfold fit. destruct r;
  lazymatch goal with
  | |- context [if _ then _ else _] => apply G
  | _ => apply fit_error_len; exact H
  end.
Qed.

Lemma post_version : forall ft ms ver r,
  post_tab ft (Tversion_ ms ver) r no_refs = ft /\ post_ev ft (Tversion_ ms ver) r no_refs = [].
Proof. intros. split; reflexivity. Qed.

(* ---- C12 ---- *)
Theorem rversion_min : forall cfg c ms ver sc,
  CInv cfg c ->
  seq_step cfg c (Tversion_ ms ver) sc =
  if ms <? c_IOHDRSZ then (c, on_wire (c_dotu c) (fit (c_dotu c) (c_msize c) (Rerror_ (fst e_msize) (snd e_msize))), [])
  else
    let m := N.min ms (c_msize c) in
    let du := bytes_eqb ver ver_u && s_dotu cfg in
    (mkConn m du (c_fids c), Rversion_ m (if du then ver_u else ver_p), []).
Proof.
  intros cfg c ms ver sc HC. destruct c as [m du ft]. destruct HC as [_ [M1 _]].
  cbn [c_msize c_dotu c_fids] in *.
  rewrite seq_step_eq.
  cbv beta iota zeta delta [process_pre tfid takes_fid is_tattach c_fids c_msize c_dotu with_fids r_fid].
  change (negb (c_NOFID =? c_NOFID) && negb false) with false. cbv iota.
  destruct (ms <? c_IOHDRSZ) eqn:E.
  - destruct (post_version ft ms ver (fit du m (reply0 (Tversion_ ms ver) (PReject e_msize) sc))) as [P1 P2].
    rewrite P1, P2, reply0_reject. reflexivity.
  - apply N.ltb_ge in E.
    set (du' := bytes_eqb ver ver_u && s_dotu cfg).
    replace (if ms <? m then ms else m) with (N.min ms m)
      by (destruct (ms <? m) eqn:E1; [apply N.ltb_lt in E1; apply N.min_l | apply N.ltb_ge in E1; apply N.min_r]; lia).
    cbn [reply0].
    assert (F : fit du' m (Rversion_ (N.min ms m) (if du' then ver_u else ver_p))
                = Rversion_ (N.min ms m) (if du' then ver_u else ver_p)).
    { unfold fit. rewrite len_rversion.
      replace (13 + len (if du' then ver_u else ver_p) <=? m) with true; auto.
      symmetry. apply N.leb_le. unfold c_IOHDRSZ in M1. destruct du'; cbn; lia. }
    rewrite F.
    destruct (post_version ft ms ver (Rversion_ (N.min ms m) (if du' then ver_u else ver_p))) as [P1 P2].
    rewrite P1, P2. destruct du'; reflexivity.
Qed.

(* no reply is longer than the msize in force when its request arrived *)
Theorem no_reply_exceeds_msize : forall cfg c t sc c' r ev,
  CInv cfg c -> seq_step cfg c t sc = (c', r, ev) ->
  len (spec_encode (c_dotu c') 0 r) <= c_msize c.
Proof.
  intros until ev. intros [_ [M1 _]] H. rewrite seq_step_eq in H.
  destruct (process_pre cfg c t sc) as [[[c1 rf] p] ev1]. cbv zeta in H.
  inversion H; subst. unfold with_fids, on_wire. cbn [c_dotu].
  rewrite encode_norm. apply fit_len. exact M1.
Qed.

(* the Rversion also respects the msize it announces *)
Theorem rversion_fits_new_msize : forall cfg c ms ver sc c' r ev,
  CInv cfg c -> seq_step cfg c (Tversion_ ms ver) sc = (c', r, ev) ->
  len (spec_encode (c_dotu c') 0 r) <= c_msize c'.
Proof.
  intros until ev. intros HC H. pose proof HC as [_ [M1 _]].
  rewrite rversion_min in H by exact HC. clear HC.
  remember (ms <? c_IOHDRSZ) as b eqn:E in H. symmetry in E. destruct b.
  - injection H; intros; subst. unfold on_wire. rewrite encode_norm.
    first [exact (fit_error_len _ _ _ _ M1) | exact (fit_len _ _ _ M1)].
  - cbv zeta in H. injection H; intros; subst. cbn [c_dotu c_msize]. rewrite len_rversion.
    apply N.ltb_ge in E. unfold c_IOHDRSZ in *.
    destruct (bytes_eqb ver ver_u && s_dotu cfg);
    [change (len ver_u) with 8 | change (len ver_p) with 6]; lia.
Qed.
