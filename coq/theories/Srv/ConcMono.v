(* How a single request evolves along a step: immutable and monotone fields. *)
From Coq Require Import NArith List Bool PeanoNat Lia.
From V9 Require Import Lib.GoSem Gen.Consts Srv.Conc Srv.ConcInv Srv.ConcWF.
Import ListNotations.

Definition evol (q q' : rq) : Prop :=
  q_tag q' = q_tag q /\ q_kind q' = q_kind q /\ q_after q' = q_after q /\
  (q_flush q = true -> q_flush q' = true) /\
  (q_resp q = true -> q_resp q' = true) /\
  (q_saved q = true -> q_saved q' = true) /\
  (q_called q = true -> q_called q' = true) /\
  (q_flushop q = true -> q_flushop q' = true) /\
  (q_buf q <> None -> q_buf q' <> None) /\
  incl (q_packs q) (q_packs q').

Lemma evol_refl : forall q, evol q q.
Proof. unfold evol; intuition. Qed.

Lemma evol_trans : forall a b c, evol a b -> evol b c -> evol a c.
Proof.
  unfold evol; intros; intuition; try congruence.
  eapply incl_tran; eauto.
Qed.

Ltac evol_tac :=
  unfold evol, f1_q, tail_q, lnk; simpl;
  repeat split; intros; auto; try discriminate; try congruence;
  try apply incl_refl; try (apply incl_tl; apply incl_refl);
  try match goal with |- context [if ?b then _ else _] => destruct b; auto end.

Lemma step_evol_rev : forall c s l s', WF s -> Step c s l s' ->
  forall r q', getq s' r = Some q' ->
  (exists q, getq s r = Some q /\ evol q q') \/
  (r = length (R s) /\ exists tag k, l = LArrive tag k /\ q' = fresh_rq tag k (alookup (reqs s) tag)).
Proof.
  intros c s l s' W H. destruct H; intros r0 q0 Hg.
  all: try match goal with H : ?q' = (if _ =? _ then _ else _) |- _ => subst q' end.
  all: try match type of Hg with context [if ?a =? ?b then _ else _] => destruct (a =? b) eqn:?E end.
  all: try match goal with H : (_ =? _) = true |- _ => apply Nat.eqb_eq in H; subst end.
  all: try solve [gq Hg;
    repeat match goal with H1 : getq ?s ?a = Some ?x, H2 : getq ?s ?a = Some ?y |- _ =>
       assert (x = y) by congruence; subst y; clear H2 end;
    left; eexists; (split; [eassumption | evol_tac])].
  - (* arrive *)
    rewrite getq_mk in Hg. apply getq_arrive_inv in Hg;
      [| intros o Ho; eapply (wf_reqs s W), alookup_In; eauto].
    destruct Hg as [(-> & ->) | (q1 & Hq & [-> | (Ho & ->)])].
    + right. split; eauto.
    + left. eexists; split; eauto. apply evol_refl.
    + left. eexists; split; eauto. evol_tac.
  - gq H2; gq Hg;
    repeat match goal with H1 : getq ?s ?a = Some ?x, H2 : getq ?s ?a = Some ?y |- _ =>
       assert (x = y) by congruence; subst y; clear H2 end;
    left; eexists; (split; [eassumption | evol_tac]).
Qed.

Lemma step_length : forall c s l s', Step c s l s' -> length (R s) <= length (R s').
Proof.
  intros c s l s' H. destruct H; simpl; rewrite ?length_upd, ?mark_flushed_length, ?arrive_R_length; auto.
  - destruct (r2_link_other s q qn nx) as (_ & _ & _ & _ & _ & _ & _ & e). lia.
  - destruct (spawn_next_other s (f_next f)) as (_ & _ & _ & _ & _ & _ & _ & e). lia.
Qed.

Lemma step_evol : forall c s l s', WF s -> Step c s l s' ->
  forall r q, getq s r = Some q -> exists q', getq s' r = Some q' /\ evol q q'.
Proof.
  intros c s l s' W H r q Hq.
  pose proof (step_length _ _ _ _ H) as L. pose proof (getq_lt _ _ _ Hq) as L2.
  destruct (getq_some s' r) as (q' & Hq'); [lia|].
  exists q'. split; auto.
  destruct (step_evol_rev _ _ _ _ W H _ _ Hq') as [(q0 & Hq0 & E) | (E & _)].
  - congruence.
  - lia.
Qed.

(* ---------- exact changes of some fields ---------- *)
Definition is_spawn (s : st) (l : label) (r : nat) : Prop :=
  exists fi f, l = LR fi /\ nth_error (F s) fi = Some f /\ f_pc f = R5 /\ f_next f = Some r.

Definition running (p : wpc) : Prop :=
  match p with WWait | WSpawned | WDone => False | _ => True end.

Lemma step_exact : forall c s l s', WF s -> Step c s l s' ->
  forall r q', getq s' r = Some q' ->
  (exists q, getq s r = Some q /\
     (q_prev q' = q_prev q \/
      exists tag k, l = LArrive tag k /\ alookup (reqs s) tag = Some r /\ q_prev q' = Some (length (R s))) /\
     (q_pc q = WWait -> q_pc q' = WWait \/ (q_pc q' = WSpawned /\ is_spawn s l r)) /\
     (q_pc q' = WSpawned -> q_pc q = WSpawned \/ is_spawn s l r) /\
     (q_called q' = q_called q \/ (l = LOpCall r /\ q_pc q = WProc /\ q_called q' = true)) /\
     (q_pc q' = q_pc q \/ (q_pc q' = WSpawned /\ is_spawn s l r) \/
      (q_pc q = WSpawned /\ q_flush q = true /\ q_pc q' = WDone) \/
      (q_pc q = WSpawned /\ q_flush q = false /\ q_pc q' = WProc) \/
      (running (q_pc q) /\ q_pc q' <> WWait /\ q_pc q' <> WSpawned)) /\
     (q_buf q' = q_buf q \/ q_pc q = WProc \/ q_called q = true)) \/
  (r = length (R s) /\ exists tag k, l = LArrive tag k /\ q' = fresh_rq tag k (alookup (reqs s) tag)).
Proof.
  intros c s l s' W H r0 q0 Hg. unfold is_spawn. step_rq H Hg W.
  all: f1_split.
  all: try solve [left; eexists; split; [eassumption|];
                  simpl; repeat split; intros; auto; try congruence; eauto 12].
  all: try solve [left; eexists; split; [eassumption|];
                  simpl; repeat split; intros; auto; try congruence; eauto 12;
                  match goal with Hpc : q_pc _ = _ |- _ => rewrite Hpc end; simpl;
                  first [ right; right; right; right; repeat split; auto; discriminate
                        | right; right; left; repeat split; auto; fail
                        | right; right; right; left; repeat split; auto; fail ]].
  right. eauto.
Qed.

Lemma step_exact2 : forall c s l s', WF s -> Step c s l s' ->
  forall r q q', getq s r = Some q -> getq s' r = Some q' ->
     (q_buf q' = q_buf q \/ (q_pc q = WProc /\ q_pc q' <> WProc) \/ q_called q = true) /\
     (q_target q' = q_target q \/ (q_pc q = WProc /\ q_pc q' <> WProc /\ l = LF1 r)) /\
     (q_pc q' = WProc -> q_pc q = WProc \/ (q_pc q = WSpawned /\ q_flush q = false)).
Proof.
  intros c s l s' W H r0 q00 q0 Hq0 Hg. step_rq H Hg W.
  all: f1_split.
  all: try (exfalso; apply getq_lt in Hq0; lia).
  all: dedupe.
  all: simpl.
  all: try solve [repeat split; [left; reflexivity | left; reflexivity | intros; left; assumption]].
  all: try solve [match goal with Hpc : q_pc _ = _ |- _ => rewrite Hpc in * end;
                  repeat split; intros; try discriminate;
                  first [left; reflexivity | right; left; split; [reflexivity|discriminate]
                        | right; right; assumption
                        | right; repeat split; auto; discriminate | left; reflexivity | right; auto ]].
  - repeat split; auto.
  - repeat split; auto. discriminate.
Qed.
