(* Invariants about a single request that every modification preserves. *)
From Coq Require Import NArith List Bool PeanoNat Lia.
From V9 Require Import Lib.GoSem Gen.Consts Srv.Conc Srv.ConcInv Srv.ConcWF.
Import ListNotations.

Definition unstarted (p : wpc) : Prop := p = WWait \/ p = WSpawned.

Definition LInv (q : rq) : Prop :=
  (q_resp q = true \/ unstarted (q_pc q) \/ q_work q = true \/ q_saved q = true \/ q_flush q = true) /\
  (q_called q = true -> q_kind q = KOp) /\
  (match q_pc q with WWait | WSpawned | WDone => True | _ => q_work q = true \/ q_resp q = true end).

Lemma LInv_step : forall c s l s', WF s -> (forall r q, getq s r = Some q -> LInv q) -> Step c s l s' ->
  forall r q, getq s' r = Some q -> LInv q.
Proof.
  intros c s l s' W B H r0 q0 Hg.
  step_rq H Hg W.
  all: f1_split.
  all: repeat match goal with Hq : getq _ _ = Some ?q |- _ =>
         lazymatch goal with _ : LInv q |- _ => fail | _ => pose proof (B _ _ Hq) end end.
  all: try solve [assumption].
  all: try solve [unfold LInv, unstarted, f1_q, tail_q, lnk, fresh_rq in *; simpl in *;
                  intuition (try discriminate; try congruence)].
  all: try solve [unfold LInv, unstarted, f1_q, tail_q, lnk, fresh_rq in *; simpl in *;
                  match goal with |- context [if ?b then _ else _] => destruct b end;
                  intuition (try discriminate; try congruence)].
  all: try solve [unfold LInv, unstarted, f1_q, tail_q, lnk, fresh_rq in *; simpl in *;
                  repeat match goal with Hpc : q_pc ?q = _ |- _ => rewrite Hpc in *; clear Hpc end;
                  intuition (try discriminate; try congruence)].
  all: try solve [unfold LInv, unstarted, f1_q, tail_q, lnk, fresh_rq in *; simpl in *;
                  match goal with |- context [q_pc ?q] => destruct (q_pc q) end;
                  intuition (try discriminate; try congruence)].
Qed.

Lemma reach_LInv : forall c s, reach c s -> forall r q, getq s r = Some q -> LInv q.
Proof.
  induction 1.
  - intros r q Hq. destruct r; discriminate.
  - eapply LInv_step; eauto using reach_WF, step_Step.
Qed.

Lemma flush_cancels_only_unstarted_inv : forall c s f t qf s',
  reach c s -> getq s f = Some qf -> q_pc qf = WF2 t -> step c s (LF2 f) = Some s' ->
  forall qt qt', getq s t = Some qt -> getq s' t = Some qt' ->
  (q_flush qt' = true /\ q_flush qt = false) ->
  (q_pc qt' = WWait \/ q_pc qt' = WSpawned \/ q_resp qt' = true).
Proof.
  intros c s f t qf s' H Hf Hpc Hs qt qt' Ht Ht' (A & B).
  pose proof (reach_LInv c s H _ _ Ht) as (L & _ & _). unfold unstarted in L.
  unfold step in Hs. rewrite Hf, Hpc, Ht in Hs.
  destruct (q_work qt || q_saved qt) eqn:Wk.
  - rewrite Hf in Hs. inversion Hs; subst; clear Hs. rewrite getq_setq, Hf in Ht'.
    destruct (f =? t) eqn:E.
    + apply Nat.eqb_eq in E. subst. inversion Ht'; subst. simpl in A. congruence.
    + congruence.
  - apply orb_false_elim in Wk. destruct Wk as (Wk & Sv).
    rewrite getq_setq, Ht in Hs. destruct (t =? f) eqn:E.
    + apply Nat.eqb_eq in E. subst. inversion Hs; subst; clear Hs.
      rewrite getq_setq, Nat.eqb_refl, (getq_setq_same s f _ qt Ht) in Ht'. inversion Ht'; subst. simpl.
      assert (qf = qt) by congruence. subst. rewrite Hpc in L.
      intuition (try discriminate; try congruence).
    + rewrite Hf in Hs. inversion Hs; subst; clear Hs.
      rewrite getq_setq, Nat.eqb_sym, E in Ht'. rewrite (getq_setq_same s t _ qt Ht) in Ht'.
      inversion Ht'; subst. simpl. intuition (try discriminate; try congruence).
Qed.
