(* Visibility of fids under concurrently executing requests (srv_srv.go: FidNew, FidGet,
   retain, DecRef; srv_fcall.go: attach/auth/walk and their post-handlers).
   A fid enters the table when the request creating it starts (FidNew); the
   implementation sets the fid up (SrvFid.Aux) while handling that request; other
   requests of a pipelining client run at the same time.  The question of C06: can a
   handler be handed a fid the implementation has not set up (nil Aux, the type
   assertion in every Ufs handler panics)?  Model and proofs (small). *)
From Coq Require Import NArith List Bool PeanoNat Lia.
Import ListNotations.

Record fent := mkEnt { e_creating : bool; e_setup : bool }.
Definition tab := list (nat * fent).

Fixpoint tget (t : tab) (k : nat) : option fent :=
  match t with [] => None | (k', e) :: r => if k' =? k then Some e else tget r k end.
Fixpoint tdel (t : tab) (k : nat) : tab :=
  match t with [] => [] | (k', e) :: r => if k' =? k then tdel r k else (k', e) :: tdel r k end.
Definition tset (t : tab) (k : nat) (e : fent) : tab := (k, e) :: tdel t k.

Inductive label :=
| LNew (k : nat)        (* FidNew(k) by a Tattach / Tauth / Twalk that starts executing *)
| LSetup (k : nat)      (* the implementation sets up the fid it is creating (Aux = ...) *)
| LRetain (k : nat)     (* the creating request is answered successfully: retain() *)
| LAbort (k : nat)      (* the creating request fails: the fid is destroyed *)
| LGet (k : nat)        (* FidGet(k) by any other request, at any moment *)
| LClunk (k : nat).     (* a visible fid is clunked / removed *)

(* [guarded]: FidGet refuses fids that are still being created (the code after the fix);
   with [guarded = false] it is the original FidGet. Result: the entry handed to the handler. *)
Definition step (guarded : bool) (t : tab) (l : label) : option (tab * option fent) :=
  match l with
  | LNew k => match tget t k with None => Some (tset t k (mkEnt true false), None) | Some _ => None end
  | LSetup k => match tget t k with
                | Some e => if e_creating e then Some (tset t k (mkEnt true true), None) else None
                | None => None end
  | LRetain k => match tget t k with
                 (* the implementation answers success only after it set the fid up *)
                 | Some e => if e_creating e && e_setup e then Some (tset t k (mkEnt false true), None) else None
                 | None => None end
  | LAbort k => match tget t k with
                | Some e => if e_creating e then Some (tdel t k, None) else None
                | None => None end
  | LGet k => match tget t k with
              | Some e => if guarded && e_creating e then Some (t, None)     (* "unknown fid" *)
                          else Some (t, Some e)                             (* handed to a handler *)
              | None => Some (t, None) end
  | LClunk k => match tget t k with
                | Some e => if e_creating e then None else Some (tdel t k, None)
                | None => None end
  end.

(* run a schedule; collect every entry handed to a handler *)
Fixpoint run (guarded : bool) (t : tab) (ls : list label) : option (tab * list fent) :=
  match ls with
  | [] => Some (t, [])
  | l :: rest =>
    match step guarded t l with
    | None => None
    | Some (t1, o) =>
      match run guarded t1 rest with
      | None => None
      | Some (t2, os) => Some (t2, match o with Some e => e :: os | None => os end)
      end
    end
  end.

Definition Inv (t : tab) : Prop := forall k e, tget t k = Some e -> e_creating e = false -> e_setup e = true.

Lemma tget_tdel_same : forall t k, tget (tdel t k) k = None.
Proof. induction t as [|[k' e] r IH]; intro k; cbn; [reflexivity|]. destruct (k' =? k) eqn:E; cbn; [apply IH|]. rewrite E. apply IH. Qed.

Lemma tget_tdel_other : forall t k j, j <> k -> tget (tdel t k) j = tget t j.
Proof.
  induction t as [|[k' e] r IH]; intros k j H; cbn; [reflexivity|].
  destruct (k' =? k) eqn:E; cbn.
  - apply Nat.eqb_eq in E. subst. destruct (k =? j) eqn:E2; [apply Nat.eqb_eq in E2; congruence|]. apply IH; assumption.
  - destruct (k' =? j); [reflexivity|]. apply IH; assumption.
Qed.

Lemma tget_tset : forall t k e j, tget (tset t k e) j = if k =? j then Some e else tget t j.
Proof.
  intros t k e j. unfold tset. cbn. destruct (k =? j) eqn:E; [reflexivity|].
  apply tget_tdel_other. intro H. subst. rewrite Nat.eqb_refl in E. discriminate.
Qed.

Lemma inv_tset : forall t k e, Inv t -> (e_creating e = false -> e_setup e = true) -> Inv (tset t k e).
Proof.
  intros t k e HI He j e' Hg Hc. rewrite tget_tset in Hg. destruct (k =? j).
  - inversion Hg; subst. auto.
  - eapply HI; eauto.
Qed.

Lemma inv_tdel : forall t k, Inv t -> Inv (tdel t k).
Proof.
  intros t k HI j e Hg Hc. destruct (Nat.eq_dec j k) as [->|Hne].
  - rewrite tget_tdel_same in Hg. discriminate.
  - rewrite tget_tdel_other in Hg by assumption. eapply HI; eauto.
Qed.

Lemma step_inv : forall g t l t' o, Inv t -> step g t l = Some (t', o) -> Inv t'.
Proof.
  intros g t l t' o HI H. destruct l as [k|k|k|k|k|k]; cbn in H; destruct (tget t k) as [e|] eqn:E;
    try discriminate.
  - inversion H; subst. apply inv_tset; [assumption|cbn; discriminate].
  - destruct (e_creating e); [|discriminate]. inversion H; subst. apply inv_tset; [assumption|cbn; discriminate].
  - destruct (e_creating e && e_setup e); [|discriminate]. inversion H; subst. apply inv_tset; [assumption|reflexivity].
  - destruct (e_creating e); [|discriminate]. inversion H; subst. apply inv_tdel; assumption.
  - destruct (g && e_creating e); inversion H; subst; assumption.
  - inversion H; subst; assumption.
  - destruct (e_creating e); [discriminate|]. inversion H; subst. apply inv_tdel; assumption.
Qed.

Lemma step_seen : forall t l t' e, Inv t -> step true t l = Some (t', Some e) -> e_setup e = true.
Proof.
  intros t l t' e HI H. destruct l as [k|k|k|k|k|k]; cbn in H; destruct (tget t k) as [e0|] eqn:E; try discriminate.
  - destruct (e_creating e0); discriminate.
  - destruct (e_creating e0 && e_setup e0); discriminate.
  - destruct (e_creating e0); discriminate.
  - destruct (e_creating e0) eqn:Ec; cbn in H; [discriminate|]. inversion H; subst. eapply HI; eauto.
  - destruct (e_creating e0); discriminate.
Qed.

(* with the guard, every fid handed to a handler has been set up by the implementation,
   for every interleaving of creating requests and other requests of any length *)
Theorem handler_sees_only_set_up_fids : forall ls t t' seen,
  Inv t -> run true t ls = Some (t', seen) -> Forall (fun e => e_setup e = true) seen.
Proof.
  induction ls as [|l rest IH]; intros t t' seen HI H; cbn in H.
  - inversion H; subst. constructor.
  - destruct (step true t l) as [[t1 o]|] eqn:Es; [|discriminate].
    destruct (run true t1 rest) as [[t2 os]|] eqn:Er; [|discriminate].
    inversion H; subst. pose proof (step_inv _ _ _ _ _ HI Es) as HI1.
    specialize (IH _ _ _ HI1 Er).
    destruct o as [e|]; [|assumption]. constructor; [|assumption].
    exact (step_seen _ _ _ _ HI Es).
Qed.

Lemma inv_empty : Inv [].
Proof. intros k e H. discriminate. Qed.

Corollary handler_sees_only_set_up_fids_from_start : forall ls t' seen,
  run true [] ls = Some (t', seen) -> Forall (fun e => e_setup e = true) seen.
Proof. intros. eapply handler_sees_only_set_up_fids; eauto using inv_empty. Qed.

(* without the guard (the code before the fix) a pipelined request gets a fid that is not set up:
   Tattach fid 1 starts, Twalk from fid 1 looks it up before Ufs.Attach ran *)
Theorem unguarded_refuted : exists ls t' seen,
  run false [] ls = Some (t', seen) /\ ~ Forall (fun e => e_setup e = true) seen.
Proof.
  exists [LNew 1; LGet 1; LSetup 1; LRetain 1]. eexists. eexists. split; [vm_compute; reflexivity|].
  intro H. inversion H as [|e l He Hl]; subst. cbn in He. discriminate.
Qed.

(* non-vacuity: a schedule in which fids are created, used, clunked and re-created *)
Example guarded_schedule_runs :
  exists t' seen, run true [] [LNew 1; LGet 1; LSetup 1; LRetain 1; LGet 1; LNew 2; LSetup 2; LGet 2; LAbort 2; LGet 2; LClunk 1; LNew 1] = Some (t', seen)
                  /\ length seen = 1.
Proof. eexists. eexists. split; vm_compute; reflexivity. Qed.
