(* Every Tflush is answered, also when the request it names is itself a Tflush:
   generalisation of [flush_answered_once_corrected] (Srv/ConcProofs.v) to chains of
   flush requests naming flush requests.  Only the cyclic chains (a Tflush naming
   itself, two naming each other, ...: [flush_answered_once_counterexample]) are excluded.

   A Tflush f whose target t is a Tflush does not cancel t: at F1 it is chained on t's
   list of waiting flushes and goes to its tail.  Its Respond is called by the loop at
   the end of t's Respond (R6/R7).  So f is answered as soon as t is, t as soon as its
   own target is, and so on down the chain of targets; the chain ends in a request that
   is not a Tflush (answered by the implementation / the framework, or cancelled by f's
   predecessor in the chain) or in a flush request that found nothing under oldtag
   (answered at its own F1) or was cancelled before it started. *)
From Coq Require Import NArith List Bool PeanoNat Lia Relations Wellfounded.
From V9 Require Import Lib.GoSem Gen.Consts Srv.Conc.
From V9 Require Import Srv.ConcInv Srv.ConcWF Srv.ConcEasy Srv.ConcMono Srv.ConcCount Srv.ConcContent Srv.ConcLocal
  Srv.ConcWin Srv.ConcCalled Srv.ConcOrder Srv.ConcFlush Srv.ConcCancel Srv.ConcAcyc Srv.ConcFinish Srv.ConcAnswered
  Srv.ConcProofs.
Import ListNotations.

(* ---------- the chain of targets starting at a request is finite ---------- *)
(* (no side conditions on the intermediate flush requests: they may be cancelled or not,
   and [t <> f] is implied by well-foundedness) *)
Inductive wf_target (s : st) : nat -> Prop :=
| wt_none f qf : getq s f = Some qf -> q_target qf = None -> wf_target s f
| wt_op f qf t qt : getq s f = Some qf -> q_target qf = Some t -> getq s t = Some qt ->
    (q_kind qt = KOp \/ q_kind qt = KVersion) -> wf_target s f
| wt_flush f qf t qt old : getq s f = Some qf -> q_target qf = Some t -> getq s t = Some qt ->
    q_kind qt = KFlush old -> wf_target s t -> wf_target s f.

(* the predicate as suggested in the task: with the redundant side conditions *)
Inductive well_founded_target (s : st) : nat -> Prop :=
| wft_none f qf : getq s f = Some qf -> q_target qf = None -> well_founded_target s f
| wft_op f qf t qt : getq s f = Some qf -> q_target qf = Some t -> getq s t = Some qt ->
    (q_kind qt = KOp \/ q_kind qt = KVersion) -> well_founded_target s f
| wft_flush f qf t qt old : getq s f = Some qf -> q_target qf = Some t -> getq s t = Some qt ->
    q_kind qt = KFlush old -> t <> f -> q_flush qt = false -> well_founded_target s t ->
    well_founded_target s f.

Lemma well_founded_target_wf : forall s f, well_founded_target s f -> wf_target s f.
Proof.
  induction 1.
  - eapply wt_none; eauto.
  - eapply wt_op; eauto.
  - eapply wt_flush; eauto.
Qed.

(* ---------- a flush request past its first step: answered, or linked ---------- *)
(* ([D1Inv] of Srv/ConcAnswered.v without the escape "or cancelled": a flush request
   cancelled before it started gets its Respond from process() itself) *)
Definition D2Inv (s : st) : Prop :=
  forall t q, getq s t = Some q -> kflush q -> ~ pre (q_pc q) -> has_fr s t \/ q_target q <> None.

Lemma D2Inv_step : forall c s l s', WF s -> D2Inv s -> Step c s l s' -> D2Inv s'.
Proof.
  intros c s l s' W D H r0 q0 Hg KF NP. assert (H' := H).
  assert (M := fun r => has_fr_step c s l s' r H').
  unfold kflush in *.
  step_rq H Hg W.
  all: simpl in NP, KF.
  all: try solve [exfalso; apply NP; exact I].
  all: try solve [exfalso; apply NP; match goal with Hpc : q_pc _ = _ |- _ => rewrite Hpc end; exact I].
  all: try solve [destruct KF as (o & KF); congruence].
  all: try solve [left; eexists; split; [simpl; apply in_or_app; right; left; reflexivity | reflexivity]].
  all: try solve [right; simpl; discriminate].
  all: try solve [match goal with Hq : getq _ _ = Some ?q |- _ =>
         let X := fresh in
         assert (X : ~ pre (q_pc q)) by
           (first [ exact NP | match goal with Hpc : q_pc q = _ |- _ => rewrite Hpc; simpl; tauto end ]);
         destruct (D _ _ Hq KF X) as [K | K];
         [left; apply M; exact K | right; simpl; exact K] end].
  exfalso. apply NP. destruct (alookup (reqs s) tag); exact I.
Qed.

Lemma reach_D2Inv : forall c s, reach c s -> D2Inv s.
Proof.
  induction 1.
  - intros t q Hq. destruct t; discriminate.
  - eapply D2Inv_step; eauto using reach_WF, step_Step.
Qed.

(* ---------- at quiescence ---------- *)
(* no request is before or in the dispatch *)
Lemma quiet_not_pre : forall c s r q, reach c s -> quiet c s -> NG s ->
  getq s r = Some q -> ~ pre (q_pc q).
Proof.
  intros c s r q H Q N Hq P. pose proof (reach_WF c s H) as W.
  pose proof (worker_step_enabled_wf c s r q W Hq) as En.
  destruct (q_pc q) eqn:Epc; simpl in P; try contradiction.
  - destruct (reach_WAInv c s H) as (A & _). apply (A _ _ Hq Epc). apply (N _ _ Hq).
  - apply En. apply Q. reflexivity.
  - destruct (q_kind q).
    + apply En. apply Q. reflexivity.
    + apply En. apply Q. reflexivity.
    + destruct En as (En & _). apply En. apply Q. reflexivity.
Qed.

(* a request all of whose possible ways to an answer have been taken has been responded:
   handed to the implementation (and answered by it), or rejected / answered by the
   framework, or - a flush request - responded by whatever [Hfl] says *)
Lemma target_responded : forall c s t qt,
  reach c s -> quiet c s -> closed s = false -> NG s ->
  (forall r q, getq s r = Some q -> q_called q = true -> q_resp q = true) ->
  getq s t = Some qt -> (kflush qt -> has_fr s t) ->
  qb s t q_resp = true.
Proof.
  intros c s t qt H Q Hc N AA Hqt Hfl.
  destruct (quiet_done c s H Q Hc) as (O & Dn).
  assert (Fr : has_fr s t -> qb s t q_resp = true).
  { intros (w & Hw & Er). rewrite <- Er. apply (ci_fr s (reach_CInv c s H) w Hw).
    rewrite (Dn w Hw). discriminate. }
  pose proof (quiet_not_pre c s t qt H Q N Hqt) as NP.
  destruct (reach_DInv c s H _ _ Hqt NP) as [K | [K | K]]; auto.
  unfold qb. rewrite Hqt. eauto.
Qed.

(* once the target has been responded, its winner has walked the whole list of waiting
   flushes: every flush request that named it has had its Respond called *)
Lemma flusher_of_responded : forall c s f qf t,
  reach c s -> quiet c s -> closed s = false -> NG s ->
  getq s f = Some qf -> q_target qf = Some t -> qb s t q_resp = true ->
  has_fr s f.
Proof.
  intros c s f qf t H Q Hc N Hf Ht Rs.
  destruct (quiet_done c s H Q Hc) as (O & Dn).
  destruct (resp_winner c s t H Rs) as (w & Hw & Er & Wn).
  destruct (reach_CovInv c s H N _ _ _ Hf Ht) as (_ & C2).
  assert (Cv : covered s w f).
  { apply C2; auto. rewrite (Dn w Hw). simpl. lia. }
  destruct Cv as [X | X]; auto.
  exfalso. unfold rem in X. rewrite (Dn w Hw) in X.
  destruct (reach_WAInv c s H) as (_ & B). rewrite (B w Hw (Dn w Hw)) in X.
  eapply lreach_none; eauto.
Qed.

(* the frame: by induction along the chain of targets *)
Lemma flush_chain_has_frame : forall c s,
  reach c s -> quiet c s -> closed s = false -> NG s ->
  (forall r q, getq s r = Some q -> q_called q = true -> q_resp q = true) ->
  forall f, wf_target s f -> forall qf, getq s f = Some qf -> kflush qf -> has_fr s f.
Proof.
  intros c s H Q Hc N AA f Wt.
  induction Wt as [f qf0 Hf0 Tn | f qf0 t qt Hf0 Ht Hqt Kt | f qf0 t qt old Hf0 Ht Hqt Kt Wt IH];
    intros qf Hf KF; assert (qf0 = qf) by congruence; subst qf0;
    pose proof (quiet_not_pre c s f qf H Q N Hf) as NP;
    (destruct (reach_D2Inv c s H _ _ Hf KF NP) as [X | X]; [exact X|]).
  - congruence.
  - eapply flusher_of_responded; eauto.
    eapply target_responded; eauto.
    intros (o & K). destruct Kt; congruence.
  - eapply flusher_of_responded; eauto.
    eapply target_responded; eauto.
Qed.

(* ========== the generalised theorem ========== *)

(* At quiescence, on an open connection on which no tag was ever shared and the
   implementation has answered everything it was handed, every flush request that was
   not cancelled and whose chain of targets is finite (ends in a request that is not a
   Tflush, or in a flush request without a target) has exactly one Rflush on the wire.

   Compared with [flush_answered_once_corrected]:
   - the target may be a Tflush, whose target may be a Tflush, ... (any finite depth);
   - nothing is asked of the intermediate flush requests (they may even be cancelled);
   - the hypothesis on the program counter of the flush request is dropped: at
     quiescence it is implied. *)
Theorem flush_chain_answered_once : forall c s f qf old,
  reach c s -> quiescent c s -> closed s = false -> NoGroups s -> all_answered s ->
  getq s f = Some qf -> q_kind qf = KFlush old -> q_flush qf = false ->
  wf_target s f ->
  on_wire s f = 1.
Proof.
  intros c s f qf old H Q Hc NGr AA Hf Hk Hfl Wt.
  eapply exactly_one_at_quiescence; eauto.
  eapply flush_chain_has_frame; eauto.
  - apply NoGroups_NG. exact NGr.
  - exists old. exact Hk.
Qed.

(* the statement in the suggested form (all the hypotheses of the corrected theorem but
   the last, replaced by [well_founded_target]) *)
Corollary flush_answered_once_chain : forall c s f qf old,
  reach c s -> quiescent c s -> closed s = false -> NoGroups s -> all_answered s ->
  getq s f = Some qf -> q_kind qf = KFlush old -> q_flush qf = false ->
  (q_pc qf = WDone \/ exists t, q_pc qf = WInFlushOp t) ->
  well_founded_target s f ->
  on_wire s f = 1.
Proof.
  intros. eapply flush_chain_answered_once; eauto using well_founded_target_wf.
Qed.

(* [flush_answered_once_corrected] is the instance "chain of length at most one" *)
Lemma wf_target_of_nonflush : forall c s f qf,
  reach c s -> getq s f = Some qf ->
  (forall t qt, q_target qf = Some t -> getq s t = Some qt -> q_kind qt = KOp \/ q_kind qt = KVersion) ->
  wf_target s f.
Proof.
  intros c s f qf H Hf NF. pose proof (reach_WF c s H) as W.
  destruct (q_target qf) as [t|] eqn:Ht; [|eapply wt_none; eauto].
  assert (Lt : t < length (R s)).
  { destruct (wf_R s W _ _ Hf) as (_ & _ & _ & A & _). auto. }
  destruct (getq_some s t Lt) as (qt & Hqt).
  eapply wt_op; eauto.
Qed.

Corollary flush_answered_once_corrected_again : forall c s f qf old,
  reach c s -> quiescent c s -> closed s = false -> NoGroups s -> all_answered s ->
  getq s f = Some qf -> q_kind qf = KFlush old -> q_flush qf = false ->
  (forall t qt, q_target qf = Some t -> getq s t = Some qt -> q_kind qt = KOp \/ q_kind qt = KVersion) ->
  on_wire s f = 1.
Proof.
  intros. eapply flush_chain_answered_once; eauto using wf_target_of_nonflush.
Qed.

(* ---------- what is excluded: the cyclic chains ---------- *)
(* [tflush s t f]: the flush request t is the target of f *)
Definition tflush (s : st) (t f : nat) : Prop :=
  exists qf qt old, getq s f = Some qf /\ q_target qf = Some t /\ getq s t = Some qt /\ q_kind qt = KFlush old.

(* [wf_target] is accessibility for "is the flush request named by" ... *)
Lemma wf_target_Acc : forall s f, wf_target s f -> Acc (tflush s) f.
Proof.
  intros s f Wt.
  induction Wt as [f qf0 Hf0 Tn | f qf0 t qt Hf0 Ht Hqt Kt | f qf0 t qt old Hf0 Ht Hqt Kt Wt IH];
    constructor; intros y (qf & qy & o & A & B & C & D); assert (qf = qf0) by congruence; subst qf.
  - congruence.
  - assert (y = t) by congruence. subst y. assert (qy = qt) by congruence. subst qy.
    destruct Kt; congruence.
  - assert (y = t) by congruence. subst y. exact IH.
Qed.

Lemma Acc_wf_target : forall s f, WF s -> Acc (tflush s) f -> f < length (R s) -> wf_target s f.
Proof.
  intros s f W A. induction A as [f _ IH]. intros Lt.
  destruct (getq_some s f Lt) as (qf & Hf).
  destruct (q_target qf) as [t|] eqn:Ht; [|eapply wt_none; eauto].
  assert (Ltt : t < length (R s)).
  { destruct (wf_R s W _ _ Hf) as (_ & _ & _ & X & _). auto. }
  destruct (getq_some s t Ltt) as (qt & Hqt).
  destruct (q_kind qt) as [|o|] eqn:Kt.
  - eapply wt_op; eauto.
  - eapply wt_flush; eauto. apply IH; auto. exists qf, qt, o. auto.
  - eapply wt_op; eauto.
Qed.

(* ... so a flush request with a finite chain of targets lies on no cycle of flush
   requests naming each other (of any length; length one: a Tflush naming itself) *)
Theorem wf_target_acyclic : forall s f, wf_target s f -> ~ clos_trans nat (tflush s) f f.
Proof.
  intros s f Wt C.
  pose proof (Acc_clos_trans nat (tflush s) f (wf_target_Acc s f Wt)) as A.
  clear Wt. induction A as [f _ IH]. eapply IH; eauto.
Qed.

(* the recorded counterexample (a Tflush naming itself) is excluded by [wf_target] *)
Lemma counterexample_not_wf_target : ~ wf_target cex_st 0.
Proof.
  intro Wt. apply (wf_target_acyclic _ _ Wt). apply t_step.
  exists cex_rq, cex_rq, 1%N. repeat split; reflexivity.
Qed.

(* ---------- the theorem is not vacuous on chains longer than one ---------- *)
(* the final state of the run of [flush_of_flush_both_answered]: request 2 flushes request 1,
   a Tflush that flushes request 0; all hypotheses of the theorem hold there *)
Definition ff_st : st :=
  Eval vm_compute in
    match run cex_cfg init (ff_run_pre ++ ff_run_post) with Some s => s | None => init end.
Lemma ff_Rn : run cex_cfg init (ff_run_pre ++ ff_run_post) = Some ff_st.
Proof. vm_compute. reflexivity. Qed.
Lemma ff_Q : quiescent cex_cfg ff_st.
Proof.
  intros l Hl. destruct l; simpl in Hl; try discriminate.
  all: try (destruct r as [|[|[|[|r]]]]; vm_compute; reflexivity).
  all: try (destruct f as [|[|[|[|f]]]]; vm_compute; reflexivity).
  all: vm_compute; reflexivity.
Qed.
Lemma ff_NG : NoGroups ff_st.
Proof.
  intros r q Hq. destruct r as [|[|[|r]]]; [| | |destruct r; discriminate].
  all: (vm_compute in Hq; injection Hq as <-; repeat split; reflexivity).
Qed.
Lemma ff_AA : all_answered ff_st.
Proof.
  intros r q Hq Hc. destruct r as [|[|[|r]]]; [| | |destruct r; discriminate].
  all: (vm_compute in Hq; injection Hq as <-; vm_compute in Hc; try discriminate; reflexivity).
Qed.
Lemma ff_wt : wf_target ff_st 2.
Proof.
  apply (wt_flush ff_st 2 _ 1 _ 5%N eq_refl eq_refl eq_refl eq_refl).
  apply (wt_op ff_st 1 _ 0 _ eq_refl eq_refl eq_refl). left. reflexivity.
Qed.
Example flush_chain_instance :
  run cex_cfg init (ff_run_pre ++ ff_run_post) = Some ff_st /\
  reach cex_cfg ff_st /\ quiescent cex_cfg ff_st /\ closed ff_st = false /\ NoGroups ff_st /\
  all_answered ff_st /\
  option_map (fun s => map (fun q => (q_kind q, q_flush q, q_target q)) (R s)) (Some ff_st)
    = Some [(KOp, false, None); (KFlush 5%N, false, Some 0); (KFlush 20%N, false, Some 1)] /\
  wf_target ff_st 2 /\ on_wire ff_st 2 = 1.
Proof.
  pose proof ff_Rn as Rn.
  assert (Rc : reach cex_cfg ff_st) by (eapply run_reach; [apply reach_init | exact Rn]).
  split; [exact Rn|]. split; [exact Rc|]. split; [exact ff_Q|]. split; [reflexivity|].
  split; [exact ff_NG|]. split; [exact ff_AA|]. split; [reflexivity|]. split; [exact ff_wt|].
  apply (flush_chain_answered_once cex_cfg ff_st 2 _ 20%N Rc ff_Q eq_refl ff_NG ff_AA eq_refl eq_refl eq_refl ff_wt).
Qed.
