(* Soundness of the locking discipline in the abstract happens-before semantics (Race/HB.v). *)
From Coq Require Import List Bool PeanoNat Lia.
From V9 Require Import Race.HB.
Import ListNotations.

(* ---------- helper lemmas ---------- *)

Lemma firstn_S_some : forall (tr : trace) n e,
  nth_error tr n = Some e -> firstn (S n) tr = firstn n tr ++ [e].
Proof.
  induction tr as [|a tr IH]; intros n e Hn.
  - destruct n; discriminate.
  - destruct n as [|n]; simpl in *.
    + inversion Hn; reflexivity.
    + f_equal. apply IH; exact Hn.
Qed.

Lemma firstn_S_none : forall (tr : trace) n,
  nth_error tr n = None -> firstn (S n) tr = firstn n tr.
Proof.
  intros tr n Hn. apply nth_error_None in Hn.
  rewrite (firstn_all2 (n:=n)) by exact Hn.
  apply firstn_all2. lia.
Qed.

(* one-step unfolding of [held] along prefixes *)
Lemma held_step : forall (tr : trace) n e t,
  nth_error tr n = Some e ->
  held (rev (firstn (S n) tr)) t =
  match e with
  | Acq t' l => if t' =? t then l :: held (rev (firstn n tr)) t else held (rev (firstn n tr)) t
  | Rel t' l => if t' =? t then remove Nat.eq_dec l (held (rev (firstn n tr)) t)
                else held (rev (firstn n tr)) t
  | _ => held (rev (firstn n tr)) t
  end.
Proof.
  intros tr n e t Hn.
  rewrite (firstn_S_some tr n e Hn), rev_app_distr. simpl. reflexivity.
Qed.

Definition side_cond (prefix : trace) (e : ev) : Prop :=
  match e with
  | Acq t l => forall t', ~ holds_after prefix t' l
  | Rel t l => holds_after prefix t l
  | _ => True
  end.

Lemma wf_from_nth : forall rest prefix n e,
  wf_from prefix rest -> nth_error rest n = Some e ->
  side_cond (prefix ++ firstn n rest) e.
Proof.
  induction rest as [|a rest IH]; intros prefix n e Hwf Hn.
  - destruct n; discriminate.
  - destruct Hwf as [Hc Hwf]. destruct n as [|n]; simpl in Hn.
    + inversion Hn; subst a. simpl. rewrite app_nil_r. exact Hc.
    + specialize (IH (prefix ++ [a]) n e Hwf Hn).
      simpl. rewrite <- app_assoc in IH. simpl in IH. exact IH.
Qed.

Lemma wf_nth : forall tr n e,
  wf tr -> nth_error tr n = Some e -> side_cond (firstn n tr) e.
Proof.
  intros tr n e Hwf Hn. exact (wf_from_nth tr [] n e Hwf Hn).
Qed.

Lemma holds_dec : forall p t l, {holds_after p t l} + {~ holds_after p t l}.
Proof. intros p t l. unfold holds_after. apply in_dec. exact Nat.eq_dec. Qed.

(* (L1) mutual exclusion *)
Lemma mutex : forall tr, wf tr -> forall n t t' l,
  holds_after (firstn n tr) t l -> holds_after (firstn n tr) t' l -> t = t'.
Proof.
  intros tr Hwf n. induction n as [|n IH]; intros t t' l H1 H2.
  - unfold holds_after in H1. simpl in H1. contradiction.
  - destruct (nth_error tr n) as [e|] eqn:Hn.
    2:{ rewrite (firstn_S_none tr n Hn) in H1, H2. eapply IH; eauto. }
    pose proof (wf_nth tr n e Hwf Hn) as Hc.
    unfold holds_after in *.
    rewrite (held_step tr n e t Hn) in H1. rewrite (held_step tr n e t' Hn) in H2.
    destruct e as [t0 l0|t0 l0|t0 x0 w0|t0 t1]; simpl in Hc.
    + destruct (Nat.eqb_spec t0 t) as [E1|E1]; destruct (Nat.eqb_spec t0 t') as [E2|E2].
      * congruence.
      * destruct H1 as [H1|H1].
        -- subst l0. exfalso. exact (Hc t' H2).
        -- eapply IH; eauto.
      * destruct H2 as [H2|H2].
        -- subst l0. exfalso. exact (Hc t H1).
        -- eapply IH; eauto.
      * eapply IH; eauto.
    + assert (H1' : In l (held (rev (firstn n tr)) t)).
      { destruct (t0 =? t); [apply in_remove in H1; tauto | exact H1]. }
      assert (H2' : In l (held (rev (firstn n tr)) t')).
      { destruct (t0 =? t'); [apply in_remove in H2; tauto | exact H2]. }
      eapply IH; eauto.
    + eapply IH; eauto.
    + eapply IH; eauto.
Qed.

(* (L2) a lock that becomes held was acquired in between *)
Lemma acquired_between : forall tr t l j i,
  i <= j -> ~ holds_after (firstn i tr) t l -> holds_after (firstn j tr) t l ->
  exists a, i <= a < j /\ nth_error tr a = Some (Acq t l).
Proof.
  intros tr t l j. induction j as [|j IH]; intros i Hij Hno Hyes.
  - unfold holds_after in Hyes. simpl in Hyes. contradiction.
  - destruct (Nat.eq_dec i (S j)) as [E|E]; [subst i; contradiction|].
    destruct (holds_dec (firstn j tr) t l) as [Hj|Hj].
    + destruct (IH i ltac:(lia) Hno Hj) as [a [Ha1 Ha2]]. exists a. split; [lia|exact Ha2].
    + exists j. split; [lia|].
      destruct (nth_error tr j) as [e|] eqn:Hn.
      2:{ rewrite (firstn_S_none tr j Hn) in Hyes. contradiction. }
      unfold holds_after in *. rewrite (held_step tr j e t Hn) in Hyes.
      destruct e as [t0 l0|t0 l0|t0 x0 w0|t0 t1]; try contradiction.
      * destruct (Nat.eqb_spec t0 t) as [E1|E1]; [|contradiction].
        destruct Hyes as [Hy|Hy]; [|contradiction]. subst. reflexivity.
      * destruct (t0 =? t); [apply in_remove in Hyes; tauto | contradiction].
Qed.

(* (L3') a lock that stops being held was released in between *)
Lemma released_between : forall tr t l a i,
  i <= a -> holds_after (firstn i tr) t l -> ~ holds_after (firstn a tr) t l ->
  exists k, i <= k < a /\ nth_error tr k = Some (Rel t l).
Proof.
  intros tr t l a. induction a as [|a IH]; intros i Hia Hyes Hno.
  - assert (i = 0) by lia. subst i. contradiction.
  - destruct (Nat.eq_dec i (S a)) as [E|E]; [subst i; contradiction|].
    destruct (holds_dec (firstn a tr) t l) as [Ha|Ha].
    + exists a. split; [lia|].
      destruct (nth_error tr a) as [e|] eqn:Hn.
      2:{ rewrite (firstn_S_none tr a Hn) in Hno. contradiction. }
      unfold holds_after in *. rewrite (held_step tr a e t Hn) in Hno.
      destruct e as [t0 l0|t0 l0|t0 x0 w0|t0 t1]; try contradiction.
      * exfalso. apply Hno. destruct (t0 =? t); [right|]; exact Ha.
      * destruct (Nat.eqb_spec t0 t) as [E1|E1]; [|contradiction].
        destruct (Nat.eq_dec l l0) as [E2|E2]; [subst; reflexivity|].
        exfalso. apply Hno. apply in_in_remove; assumption.
    + destruct (IH i ltac:(lia) Hyes Ha) as [k [Hk1 Hk2]]. exists k. split; [lia|exact Hk2].
Qed.

(* (L3) *)
Lemma released_before_acquire : forall tr t t' l i a,
  wf tr -> i <= a -> holds_after (firstn i tr) t l -> nth_error tr a = Some (Acq t' l) ->
  exists k, i <= k < a /\ nth_error tr k = Some (Rel t l).
Proof.
  intros tr t t' l i a Hwf Hia Hh Ha.
  pose proof (wf_nth tr a _ Hwf Ha) as Hc. simpl in Hc.
  exact (released_between tr t l a i Hia Hh (Hc t)).
Qed.

(* ---------- main results ---------- *)

(* If every access to x is made while holding one common mutex, no two accesses to x race:
   for ANY well-formed trace (any number of goroutines, any interleaving). *)
Theorem lockset_sound : forall tr x l,
  wf tr -> guarded_by tr x l ->
  forall i j t t' w w',
    i < j -> nth_error tr i = Some (Acc t x w) -> nth_error tr j = Some (Acc t' x w') -> t <> t' ->
    hb tr i j.
Proof.
  intros tr x l Hwf Hg i j t t' w w' Hij Hi Hj Hne.
  pose proof (Hg i t w Hi) as Hhi.
  pose proof (Hg j t' w' Hj) as Hhj.
  assert (Hno : ~ holds_after (firstn i tr) t' l).
  { intro Hc. apply Hne. exact (mutex tr Hwf i t t' l Hhi Hc). }
  destruct (acquired_between tr t' l j i ltac:(lia) Hno Hhj) as [a [[Ha1 Ha2] Ha]].
  assert (Hia : i < a).
  { destruct (Nat.eq_dec i a) as [E|E]; [subst a; congruence | lia]. }
  destruct (released_before_acquire tr t t' l i a Hwf ltac:(lia) Hhi Ha) as [k [[Hk1 Hk2] Hk]].
  assert (Hik : i < k).
  { destruct (Nat.eq_dec i k) as [E|E]; [subst k; congruence | lia]. }
  apply hb_trans with (j := k).
  - eapply hb_po; [exact Hik | exact Hi | exact Hk | reflexivity].
  - apply hb_trans with (j := a).
    + eapply hb_lock; [exact Hk2 | exact Hk | exact Ha].
    + eapply hb_po; [exact Ha2 | exact Ha | exact Hj | reflexivity].
Qed.

Corollary guarded_race_free : forall tr x l,
  wf tr -> guarded_by tr x l ->
  ~ exists i j t t' w w',
      i < j /\ nth_error tr i = Some (Acc t x w) /\ nth_error tr j = Some (Acc t' x w') /\
      t <> t' /\ (w = true \/ w' = true) /\ ~ hb tr i j.
Proof.
  intros tr x l Hwf Hg [i [j [t [t' [w [w' [Hij [Hi [Hj [Hne [_ Hnhb]]]]]]]]]]].
  apply Hnhb. exact (lockset_sound tr x l Hwf Hg i j t t' w w' Hij Hi Hj Hne).
Qed.

(* a variable confined to one goroutine cannot race *)
Theorem confined_sound : forall tr x t,
  confined_to tr x t ->
  ~ exists i j t1 t2 w w',
      i < j /\ nth_error tr i = Some (Acc t1 x w) /\ nth_error tr j = Some (Acc t2 x w') /\ t1 <> t2.
Proof.
  intros tr x t Hc [i [j [t1 [t2 [w [w' [_ [Hi [Hj Hne]]]]]]]]].
  apply Hne. rewrite (Hc i t1 w Hi), (Hc j t2 w' Hj). reflexivity.
Qed.

(* hence: a trace in which every shared variable is either guarded by some mutex or
   confined to one goroutine has no data race *)
Theorem discipline_race_free : forall tr,
  wf tr ->
  (forall x, (exists l, guarded_by tr x l) \/ (exists t, confined_to tr x t)) ->
  ~ race tr.
Proof.
  intros tr Hwf Hd [i [j [t [t' [x [w [w' [Hij [Hi [Hj [Hne [Hw Hnhb]]]]]]]]]]]].
  destruct (Hd x) as [[l Hg]|[t0 Hc]].
  - apply (guarded_race_free tr x l Hwf Hg).
    exists i, j, t, t', w, w'. repeat split; assumption.
  - apply (confined_sound tr x t0 Hc).
    exists i, j, t, t', w, w'. repeat split; assumption.
Qed.

(* non-vacuity: a well-formed trace with two goroutines incrementing x under mutex 0 *)
Example discipline_example :
  let tr := [Fork 0 1; Acq 0 0; Acc 0 7 true; Rel 0 0; Acq 1 0; Acc 1 7 true; Rel 1 0] in
  wf tr /\ guarded_by tr 7 0.
Proof.
  cbv zeta. split.
  - unfold wf. simpl. unfold holds_after. simpl. repeat split; try tauto.
    intros t' H. destruct t' as [|t']; simpl in H; exact H.
  - unfold guarded_by, holds_after. intros i t w Hi.
    destruct i as [|[|[|[|[|[|[|i]]]]]]]; simpl in Hi; try discriminate.
    + inversion Hi; subst. simpl. tauto.
    + inversion Hi; subst. simpl. tauto.
    + destruct i; discriminate.
Qed.

Print Assumptions lockset_sound.
Print Assumptions discipline_race_free.
