(* The locking discipline of the library, field by field (hand-written), and the
   compliance check of the access sites the translator finds in the CURRENT source
   (Gen/LockFacts.v, regenerated on every run).  Definitions only. *)
From Coq Require Import String List Bool.
From V9 Require Import Gen.LockFacts.
Import ListNotations.
Local Open Scope string_scope.

Inductive prot :=
| ByLock (owner : string) (samebase : bool)   (* every access holds the mutex of a value of type [owner];
                                                 samebase: that value is the very object the field belongs to *)
| Exempt (why : string).

Definition protection (strct field : string) : prot :=
  match strct, field with
  (* the connection's tables and counters: Conn's mutex *)
  | "Conn", "reqs" | "Conn", "fidpool" | "Conn", "nreqs" | "Conn", "tsz" | "Conn", "rsz" | "Conn", "npend" | "Conn", "maxpend" => ByLock "Conn" true
  (* request status bits: the request's own mutex *)
  | "SrvReq", "status" => ByLock "SrvReq" true
  (* tag-group links and the list of waiting flushes: the connection's mutex *)
  | "SrvReq", "prev" | "SrvReq", "next" | "SrvReq", "flushreq" | "SrvReq", "flushnext" => ByLock "Conn" false
  | "SrvFid", "refcount" | "SrvFid", "creating" | "SrvFid", "linked" | "SrvFid", "dead" => ByLock "SrvFid" true
  | "Conn", "closed" => ByLock "Conn" true
  | "Srv", "conns" => ByLock "Srv" true
  | "Clnt", "reqfirst" | "Clnt", "reqlast" | "Clnt", "err" => ByLock "Clnt" true
  | "Req", "prev" | "Req", "next" => ByLock "Clnt" false
  | "osUsers", "users" | "osUsers", "groups" => ByLock "osUsers" true
  | "ClntList", "clntList" | "ClntList", "clntLast" => ByLock "ClntList" true
  | "Clnt", "next" | "Clnt", "prev" => ByLock "ClntList" false
  (* everything else rests on the workload assumptions the property states or on confinement *)
  | "SrvFid", _ => Exempt "per-fid state (opened, Omode, Type, Diroffset, Aux, User): requests concurrently outstanding operate on different fids"
  | "Conn", "Msize" | "Conn", "Dotu" => Exempt "changed only by the synchronous Tversion at session start"
  | "Clnt", "Dotu" | "Clnt", "Root" | "Clnt", "Msize" => Exempt "set during Connect/Mount before the client is shared; Msize through sync/atomic"
  | "Logger", _ => Exempt "items/idx confined to the logger goroutine; channels are synchronisation"
  | "SrvReq", _ | "Req", _ => Exempt "fields of a request handed from goroutine to goroutine by go / channel send (happens-before edges)"
  | _, _ => Exempt "immutable after construction or confined to one goroutine"
  end.

(* documented exceptions: accesses to a ByLock field without the lock that are
   ordered by other means *)
Definition exception (fn strct field : string) : bool :=
  match fn, strct, field with
  (* the loop at the end of Respond walks the list it detached under the connection lock at R2;
     elements' links were written under that lock before they were published *)
  | "SrvReq.Respond", "SrvReq", "flushnext" => true
  (* the closed: path of recv walks the list it detached under the client lock *)
  | "Clnt.recv", "Req", "next" | "Clnt.recv", "Req", "prev" => true
  (* ReqFree clears the links of a request that is no longer in the list (owned by the caller) *)
  | "Clnt.ReqFree", "Req", "next" | "Clnt.ReqFree", "Req", "prev" => true
  | _, _, _ => false
  end.

Definition holds (owner : string) (same : bool) (base : string) (locks : list (string * string)) : bool :=
  existsb (fun l => String.eqb (fst l) owner && (negb same || String.eqb (snd l) base)) locks.

Definition complies (f : lockfact) : bool :=
  match lf_kind f with
  | AR | AW =>
    match protection (lf_struct f) (lf_field f) with
    | ByLock owner same => lf_fresh f || exception (lf_fn f) (lf_struct f) (lf_field f) || holds owner same (lf_base f) (lf_locks f)
    | Exempt _ => true
    end
  | AOps => match lf_locks f with [] => true | _ => false end          (* the implementation is never called with a library mutex held *)
  | ASend | ARecv | AClose => match lf_locks f with [] => true | _ => false end   (* no channel operation under a mutex *)
  | AGo => true
  (* answering a request can take long (the implementation's respond hook runs, the reply waits for room in the
     connection's queue): never under a library mutex *)
  | ACall => negb (String.eqb (lf_struct f) "SrvReq" && prefix "Respond" (lf_field f)
                   && match lf_locks f with [] => false | _ => true end)
  | AHeldRet => false      (* no function returns with a mutex still held (deferred unlocks excepted) *)
  end.

Definition violations : list lockfact := filter (fun f => negb (complies f)) lock_facts.

(* non-vacuity of the compliance check: the translator found accesses to every field the
   discipline names, writes among them, and the implementation calls / channel operations *)
Definition protected_fields : list (string * string) :=
  [("Conn","reqs"); ("Conn","fidpool"); ("SrvReq","status"); ("SrvReq","prev"); ("SrvReq","next");
   ("SrvReq","flushreq"); ("SrvReq","flushnext"); ("SrvFid","refcount"); ("Srv","conns");
   ("Clnt","reqfirst"); ("Clnt","reqlast"); ("Clnt","err"); ("Req","prev"); ("Req","next");
   ("osUsers","users"); ("osUsers","groups")].

Definition is_access (k : akind) : bool := match k with AR | AW => true | _ => false end.
Definition is_write (k : akind) : bool := match k with AW => true | _ => false end.

Definition covered (sf : string * string) : bool :=
  existsb (fun f => is_write (lf_kind f) && String.eqb (lf_struct f) (fst sf) && String.eqb (lf_field f) (snd sf)
                    && match protection (fst sf) (snd sf) with
                       | ByLock owner same => holds owner same (lf_base f) (lf_locks f) | Exempt _ => false end) lock_facts.

Definition count_kind (p : akind -> bool) : nat := length (filter (fun f => p (lf_kind f)) lock_facts).


(* ---- walks may share their source fid (the property's exception to "different fids") ----
   In the walk handlers of the framework and of Ufs the SOURCE fid is only read: no field of it
   is written, and no method is called on it that writes its receiver's fields outside a mutex
   of that receiver.  [walk_sources]: (function, struct, base expression of the source fid). *)
Definition walk_sources : list (string * string * string) :=
  [("Ufs.Walk", "ufsFid", "fid"); ("Srv.walk", "SrvFid", "fid"); ("Srv.walk", "SrvFid", "req.Fid");
   ("Srv.walkPost", "SrvFid", "req.Fid"); ("Ufs.Walk", "SrvFid", "req.Fid")].

(* a method writes its receiver without holding a mutex of the receiver *)
Definition writes_self_unlocked (strct meth : string) : bool :=
  existsb (fun f => String.eqb (lf_fn f) (strct ++ "." ++ meth) && is_write (lf_kind f)
                    && String.eqb (lf_struct f) strct && String.eqb (lf_base f) "self"
                    && negb (existsb (fun l => String.eqb (fst l) strct && String.eqb (snd l) "self") (lf_locks f)))
          lock_facts.

Definition is_source (f : lockfact) : bool :=
  existsb (fun s => String.eqb (lf_fn f) (fst (fst s)) && String.eqb (lf_struct f) (snd (fst s)) && String.eqb (lf_base f) (snd s)) walk_sources.

Definition source_ok (f : lockfact) : bool :=
  if is_source f then
    match lf_kind f with
    | AW => false
    | ACall => negb (writes_self_unlocked (lf_struct f) (lf_field f))
    | _ => true
    end
  else true.

Definition walk_source_violations : list lockfact := filter (fun f => negb (source_ok f)) lock_facts.

(* non-vacuity: the walk handlers do read their source *)
Definition walk_sources_seen : bool :=
  forallb (fun fn => existsb (fun f => String.eqb (lf_fn f) fn && is_source f) lock_facts) ["Ufs.Walk"; "Srv.walk"].
