(* An abstract happens-before semantics of goroutines, mutexes and shared
   variables (in the style of the Go memory model / lockset analysis), and what a
   data race is.  Definitions only. *)
From Coq Require Import List Bool PeanoNat.
Import ListNotations.

Inductive ev :=
| Acq (t l : nat)            (* goroutine t locks mutex l *)
| Rel (t l : nat)            (* goroutine t unlocks mutex l *)
| Acc (t x : nat) (w : bool) (* goroutine t reads (false) or writes (true) variable x *)
| Fork (t t' : nat).         (* goroutine t starts goroutine t' (go statement) *)

Definition thread_of (e : ev) : nat :=
  match e with Acq t _ | Rel t _ | Acc t _ _ | Fork t _ => t end.

Definition trace := list ev.

(* mutexes held by goroutine t after the trace *)
Fixpoint held (tr : trace) (t : nat) : list nat :=
  match tr with
  | [] => []
  | e :: rest =>
    let h := held rest t in
    match e with
    | Acq t' l => if t' =? t then l :: h else h
    | Rel t' l => if t' =? t then remove Nat.eq_dec l h else h
    | _ => h
    end
  end.
(* NOTE: traces are written newest event FIRST in [held]; [wf] and the rest use
   oldest-first lists and call [held (rev prefix)]. *)

Definition holds_after (prefix : trace) (t l : nat) : Prop := In l (held (rev prefix) t).

(* mutual exclusion: a mutex is acquired only when nobody holds it, released only by its holder *)
Fixpoint wf_from (prefix : trace) (rest : trace) : Prop :=
  match rest with
  | [] => True
  | e :: rest' =>
    (match e with
     | Acq t l => forall t', ~ holds_after prefix t' l
     | Rel t l => holds_after prefix t l
     | _ => True
     end) /\ wf_from (prefix ++ [e]) rest'
  end.
Definition wf (tr : trace) : Prop := wf_from [] tr.

(* happens-before between positions i < j of a trace: program order, unlock -> later lock
   of the same mutex, go statement -> first event of the started goroutine; transitive *)
Inductive hb (tr : trace) : nat -> nat -> Prop :=
| hb_po i j e1 e2 : i < j -> nth_error tr i = Some e1 -> nth_error tr j = Some e2 ->
                    thread_of e1 = thread_of e2 -> hb tr i j
| hb_lock i j t t' l : i < j -> nth_error tr i = Some (Rel t l) -> nth_error tr j = Some (Acq t' l) -> hb tr i j
| hb_fork i j t t' e : i < j -> nth_error tr i = Some (Fork t t') -> nth_error tr j = Some e -> thread_of e = t' -> hb tr i j
| hb_trans i j k : hb tr i j -> hb tr j k -> hb tr i k.

(* a data race: two accesses to one variable by different goroutines, at least one a
   write, not ordered by happens-before *)
Definition race (tr : trace) : Prop :=
  exists i j t t' x w w',
    i < j /\ nth_error tr i = Some (Acc t x w) /\ nth_error tr j = Some (Acc t' x w') /\
    t <> t' /\ (w = true \/ w' = true) /\ ~ hb tr i j.

(* the locking discipline for variable x: every access to x is made while holding mutex l *)
Definition guarded_by (tr : trace) (x l : nat) : Prop :=
  forall i t w, nth_error tr i = Some (Acc t x w) -> holds_after (firstn i tr) t l.

(* a variable confined to one goroutine *)
Definition confined_to (tr : trace) (x t : nat) : Prop :=
  forall i t' w, nth_error tr i = Some (Acc t' x w) -> t' = t.
