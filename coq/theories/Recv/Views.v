(* The receive buffer as memory (srv_conn.go recv, clnt_clnt.go recv): Unpack does not copy - the
   request (reply) handed on keeps slices INTO the receive buffer (Twrite data, Rread data, names).
   The loops read at buf[pos:], advance buf past every delivered message and, when less than msize
   is left, allocate a NEW buffer and copy the pending bytes there.  Question (C13, C09, C14): can
   bytes that arrive later overwrite a message that was already delivered?  Model and proofs. *)
From Coq Require Import List Bool PeanoNat Lia.
Import ListNotations.

Record view := mkView { v_buf : nat; v_off : nat; v_len : nat }.

Record st := mkSt {
  caps : list nat;       (* capacity of every buffer ever allocated; index = identity *)
  cur : nat;             (* the buffer the loop reads into *)
  start : nat;           (* offset of buf[0] inside it (the slice has been advanced past delivered messages) *)
  pos : nat;             (* pending bytes: they occupy [start, start+pos) *)
  views : list view;     (* messages delivered so far *)
  clobbered : bool }.    (* some write overlapped a delivered message *)

Definition init (cap0 : nat) : st := mkSt [cap0] 0 0 0 [] false.

Definition overlaps (b o n : nat) (v : view) : bool :=
  (v_buf v =? b) && (o <? v_off v + v_len v) && (v_off v <? o + n) && (0 <? n) && (0 <? v_len v).

Definition write (s : st) (b o n : nat) : bool := clobbered s || existsb (overlaps b o n) (views s).

Inductive label :=
| LRead (n : nat)          (* conn.Read(buf[pos:]) returned n bytes *)
| LDeliver (sz : nat)      (* a complete message of sz bytes at buf[0:sz] is handed on; buf = buf[sz:] *)
| LRealloc (newcap : nat)  (* less than msize left: b := make(.., newcap); copy(b, buf[0:pos]); buf = b *)
| LCompact.                (* NOT in the code: copy(buf, buf[k:k+pos]) inside the same buffer / rewinding it *)

Definition cap_of (s : st) : nat := nth (cur s) (caps s) 0.

Definition step (allow_compact : bool) (s : st) (l : label) : option st :=
  match l with
  | LRead n =>
    if (0 <? n) && (start s + pos s + n <=? cap_of s)
    then Some (mkSt (caps s) (cur s) (start s) (pos s + n) (views s) (write s (cur s) (start s + pos s) n))
    else None
  | LDeliver sz =>
    if (0 <? sz) && (sz <=? pos s)
    then Some (mkSt (caps s) (cur s) (start s + sz) (pos s - sz) (mkView (cur s) (start s) sz :: views s) (clobbered s))
    else None
  | LRealloc newcap =>
    if pos s <=? newcap
    then Some (mkSt (caps s ++ [newcap]) (length (caps s)) 0 (pos s) (views s) (write s (length (caps s)) 0 (pos s)))
    else None
  | LCompact =>
    if allow_compact
    then Some (mkSt (caps s) (cur s) 0 (pos s) (views s) (write s (cur s) 0 (pos s)))
    else None
  end.

Fixpoint run (ac : bool) (s : st) (ls : list label) : option st :=
  match ls with
  | [] => Some s
  | l :: r => match step ac s l with Some s' => run ac s' r | None => None end
  end.

(* every delivered message lies in a retired buffer, or in the current one strictly before buf[0] *)
Definition Inv (s : st) : Prop :=
  clobbered s = false /\ cur s < length (caps s) /\
  forall v, In v (views s) -> v_buf v < cur s \/ (v_buf v = cur s /\ v_off v + v_len v <= start s).

Lemma inv_init : forall c, Inv (init c).
Proof. intro c. unfold Inv, init; cbn. repeat split; auto. intros v []. Qed.

Lemma no_overlap : forall s b o n,
  (forall v, In v (views s) -> v_buf v < b \/ (v_buf v = b /\ v_off v + v_len v <= o)) ->
  existsb (overlaps b o n) (views s) = false.
Proof.
  intros s b o n H. apply not_true_is_false. intro E. apply existsb_exists in E.
  destruct E as [v [Hin Ho]]. unfold overlaps in Ho.
  rewrite !andb_true_iff in Ho. destruct Ho as [[[[H1 H2] H3] H4] H5].
  apply Nat.eqb_eq in H1. apply Nat.ltb_lt in H2, H3, H4, H5.
  destruct (H v Hin) as [Hlt | [_ Hle]]; lia.
Qed.

Lemma step_inv : forall s l s', Inv s -> step false s l = Some s' -> Inv s'.
Proof.
  intros s l s' HI H. destruct HI as [Hc [Hcur Hv]]. destruct l as [n | sz | nc | ]; cbn [step] in H.
  - destruct ((0 <? n) && (start s + pos s + n <=? cap_of s)) eqn:E; [|discriminate H].
    injection H as <-. unfold Inv, write. cbn [clobbered cur caps views start pos]. rewrite Hc. cbn [orb].
    split; [|split; [exact Hcur | exact Hv]].
    apply no_overlap. intros v Hin. destruct (Hv v Hin) as [Hl | [He Hle]]; [left; exact Hl | right; split; [exact He | lia]].
  - destruct ((0 <? sz) && (sz <=? pos s)) eqn:E; [|discriminate H].
    injection H as <-. unfold Inv. cbn [clobbered cur caps views start pos]. split; [exact Hc | split; [exact Hcur|]].
    intros v Hin. destruct Hin as [Hv0 | Hin].
    + subst v. cbn [v_buf v_off v_len]. right. split; [reflexivity | lia].
    + destruct (Hv v Hin) as [Hl | [He Hle]]; [left; exact Hl | right; split; [exact He | lia]].
  - destruct (pos s <=? nc) eqn:E; [|discriminate H].
    injection H as <-. unfold Inv, write. cbn [clobbered cur caps views start pos]. rewrite Hc. cbn [orb]. rewrite app_length. cbn [length].
    split; [|split; [lia|]].
    + apply no_overlap. intros v Hin. left. destruct (Hv v Hin) as [Hl | [He _]]; lia.
    + intros v Hin. left. destruct (Hv v Hin) as [Hl | [He _]]; lia.
  - discriminate H.
Qed.

(* no byte that arrives later ever overwrites a delivered message: any number of reads of any sizes,
   deliveries and reallocations, in any order the loop can take them *)
Theorem delivered_messages_never_overwritten : forall ls c s,
  run false (init c) ls = Some s -> clobbered s = false.
Proof.
  intros ls c. assert (G : forall ls s0 s, Inv s0 -> run false s0 ls = Some s -> Inv s).
  { induction ls0 as [|l r IH]; intros s0 s HI H; cbn in H.
    - inversion H; subst; assumption.
    - destruct (step false s0 l) as [s1|] eqn:E; [|discriminate]. eapply IH; [eapply step_inv; eassumption | assumption]. }
  intros s H. destruct (G ls _ _ (inv_init c) H) as [Hc _]. exact Hc.
Qed.

(* compacting or rewinding inside the same buffer (seeded changes C09c, C13a, C14a) is refuted *)
Theorem compaction_refuted : exists ls s, run true (init 64) ls = Some s /\ clobbered s = true.
Proof. exists [LRead 20; LDeliver 8; LCompact]. eexists. split; vm_compute; reflexivity. Qed.

(* non-vacuity: the buffer fills up, is reallocated with pending bytes, messages keep being delivered *)
Example views_run : exists s, run false (init 32) [LRead 30; LDeliver 10; LDeliver 10; LRealloc 32; LRead 20; LDeliver 25; LRead 2; LDeliver 7] = Some s
                              /\ length (views s) = 4 /\ clobbered s = false.
Proof. eexists. split; [vm_compute; reflexivity | split; reflexivity]. Qed.
